# /verif/Makefile — setup builds everything the checks need from files on disk (offline)
.PHONY: setup coq clean
setup:
	./harness/gen.sh /repo
	cd coq && coq_makefile -f _CoqProject -o Makefile.coq > /dev/null && timeout 3000 $(MAKE) -f Makefile.coq -j16 > ../_build/coq-build.log 2>&1 || (tail -30 ../_build/coq-build.log; exit 1)
	./harness/extract.sh
	./harness/build_impl.sh /repo /verif/_build/impl
	./harness/build_driver.sh /verif/_build/impl /verif/_build/simrun
coq:
	cd coq && coq_makefile -f _CoqProject -o Makefile.coq > /dev/null && timeout 3000 $(MAKE) -f Makefile.coq -j16
clean:
	rm -rf _build coq/*.vo coq/*.vok coq/*.vos coq/*.glob coq/.*.aux coq/gen/*.vo* coq/gen/*.glob coq/gen/.*.aux coq/Makefile.coq coq/Makefile.coq.conf coq/.Makefile.coq.d
