#!/usr/bin/env python3
"""gen_cpp.py <repo> <outdir> -- the translator for property C19 (reproc++ is a faithful
mapping of the C API).  Reads clang's JSON AST of <repo>'s *current* sources and writes
<outdir>/Cpp_gen.v: plain Coq data (strings, lists, Z) describing

  (a) the flattened leaf-field order of the C structs reproc_options, reproc_redirect,
      reproc_stop_actions, reproc_stop_action                          (reproc.h, C99 AST)
  (b) the flattened positional initialiser trees of reproc_options_from,
      reproc_redirect_from, reproc_stop_actions_from, helper calls inlined  (reproc.cpp)
  (c) the flattened fields of C++ `struct options` and the assignments of options::clone
  (d) the enumerators of the C++ enums and of the C enums, with values; what
      signal::kill/terminate, infinite, deadline are initialised from; the C extern constants
  (e) process's constructor initialiser (deleter), destructor, move members (used by C15)
  (f) the normalised statements of error_code_from and of every wrapper method

Deliberately dumb: every pattern either matches exactly or the generator stops with
TRANSLATOR-MISMATCH and exit status 2.  It never guesses.  Deterministic: the output is a
function of the sources only (no timestamps, no addresses, no absolute paths of the repo).

Enumerator values come from the AST: an explicit initialiser's ConstantExpr value, otherwise
(previous + 1), first = 0 -- the language rule (C99 6.7.2.2p3, C++11 [dcl.enum]p2).  The tie
(harness/ties/C19.sh) cross-checks every value and the field order against compiled code.
The extern `const int` constants of the C library (REPROC_EPIPE ...) are not in any header
as values; they are read from a tiny probe linked with <repo>'s reproc.c and error.posix.c.
"""
import json, os, re, subprocess, sys, tempfile, shutil

REPO = os.path.abspath(sys.argv[1] if len(sys.argv) > 1 else "/repo")
OUT = sys.argv[2] if len(sys.argv) > 2 else "/verif/coq/gen"
CXX_INC = ["-I%s/reproc++/include" % REPO, "-I%s/reproc/include" % REPO]
C_INC = ["-I%s/reproc/include" % REPO, "-I%s/reproc/src" % REPO]
CPP_SRC = REPO + "/reproc++/src/reproc.cpp"
C_HDR = REPO + "/reproc/include/reproc/reproc.h"


class Mismatch(Exception):
    pass


# --------------------------------------------------------------------------- clang plumbing

def clang_json(cmd):
    p = subprocess.run(cmd, stdout=subprocess.PIPE, stderr=subprocess.PIPE, text=True)
    if p.returncode != 0:
        raise Mismatch("clang failed (%d): %s\n%s" % (p.returncode, " ".join(cmd), p.stderr[-2000:]))
    s = p.stdout
    dec = json.JSONDecoder()
    i, docs = 0, []
    while i < len(s):
        while i < len(s) and s[i].isspace():
            i += 1
        if i >= len(s):
            break
        d, i = dec.raw_decode(s, i)
        docs.append(d)
    return docs


def cxx_docs(filt):
    return clang_json(["clang++", "-std=c++11"] + CXX_INC +
                      ["-fsyntax-only", "-Xclang", "-ast-dump=json", "-Xclang",
                       "-ast-dump-filter=" + filt, CPP_SRC])


def c_tu():
    docs = clang_json(["clang", "-std=c99"] + C_INC +
                      ["-fsyntax-only", "-Xclang", "-ast-dump=json", C_HDR])
    if len(docs) != 1 or docs[0].get("kind") != "TranslationUnitDecl":
        raise Mismatch("reproc.h: expected one TranslationUnitDecl")
    return docs[0]


def inner(n):
    return n.get("inner", []) or []


def walk(n):
    yield n
    for c in inner(n):
        yield from walk(c)


def qual(n):
    return n.get("type", {}).get("qualType", "")


def desug(n):
    t = n.get("type", {})
    return t.get("desugaredQualType", t.get("qualType", ""))


# --------------------------------------------------------------------------- symbolic printer

# wrappers that are transparent in the normalised form ("casts stripped")
TRANSPARENT = ("ImplicitCastExpr", "CXXStaticCastExpr", "ExprWithCleanups",
               "MaterializeTemporaryExpr", "CXXBindTemporaryExpr", "ParenExpr", "ConstantExpr")


def only(n):
    ch = inner(n)
    if len(ch) != 1:
        raise Mismatch("%s with %d children where 1 expected" % (n.get("kind"), len(ch)))
    return ch[0]


def sym(n):
    """normalised symbolic form of an expression; casts and one-argument (copy / conversion)
    constructions are stripped"""
    k = n.get("kind")
    if k in TRANSPARENT:
        return sym(only(n))
    if k == "CXXFunctionalCastExpr":                 # T(x), printed because T is written
        return "%s(%s)" % (qual(n), sym(only(n)))
    if k == "CXXConstructExpr":
        ch = inner(n)
        if len(ch) == 0:
            return "{}"
        if len(ch) == 1:
            return sym(ch[0])
        return "{" + ", ".join(sym(c) for c in ch) + "}"
    if k == "InitListExpr":
        return "{" + ", ".join(sym(c) for c in inner(n)) + "}"
    if k == "DeclRefExpr":
        rd = n.get("referencedDecl", {})
        if rd.get("kind") not in ("ParmVarDecl", "VarDecl", "FunctionDecl", "EnumConstantDecl",
                                  "CXXMethodDecl"):
            raise Mismatch("DeclRefExpr to %s" % rd.get("kind"))
        if not rd.get("name"):
            raise Mismatch("DeclRefExpr without a name")
        return rd["name"]
    if k == "MemberExpr":
        base = only(n)
        if base.get("kind") == "CXXThisExpr" and base.get("implicit"):
            return n["name"]
        return sym(base) + ("->" if n.get("isArrow") else ".") + n["name"]
    if k == "CXXThisExpr":
        return "this"
    if k == "CXXMemberCallExpr":
        ch = inner(n)
        if not ch or ch[0].get("kind") != "MemberExpr":
            raise Mismatch("CXXMemberCallExpr callee is not a MemberExpr")
        return sym(ch[0]) + "(" + ", ".join(sym(c) for c in ch[1:]) + ")"
    if k == "CallExpr":
        ch = inner(n)
        return sym(ch[0]) + "(" + ", ".join(sym(c) for c in ch[1:]) + ")"
    if k == "CXXOperatorCallExpr":
        ch = inner(n)
        op = sym(ch[0])
        if op == "operator=" and len(ch) == 3:
            return "%s = %s" % (sym(ch[1]), sym(ch[2]))
        raise Mismatch("operator call %s" % op)
    if k == "BinaryOperator" or k == "CompoundAssignOperator":
        a, b = inner(n)
        return "%s %s %s" % (sym(a), n["opcode"], sym(b))
    if k == "UnaryOperator":
        if n.get("isPostfix"):
            return sym(only(n)) + n["opcode"]
        return n["opcode"] + sym(only(n))
    if k == "IntegerLiteral":
        return n["value"]
    if k == "CXXBoolLiteralExpr":
        return "true" if n["value"] else "false"
    if k == "CXXNullPtrLiteralExpr":
        return "nullptr"
    if k == "ArraySubscriptExpr":
        a, b = inner(n)
        return "%s[%s]" % (sym(a), sym(b))
    if k == "CXXNewExpr":
        if not n.get("isArray"):
            raise Mismatch("non-array new")
        ch = inner(n)
        if len(ch) == 2 and ch[1].get("kind") == "CXXConstructExpr" and not inner(ch[1]):
            ch = ch[:1]               # default construction of the elements
        if len(ch) != 1:
            raise Mismatch("array new with an initialiser")
        return "new %s[%s]" % (qual(n).rstrip(" *"), sym(ch[0]))
    if k == "CXXDeleteExpr":
        return ("delete[] " if n.get("isArray") else "delete ") + sym(only(n))
    raise Mismatch("cannot print expression kind %s" % k)


def stmts(n):
    """normalised statements of a statement node, one string per simple statement; control
    structure is kept as bracket lines"""
    k = n.get("kind")
    if k == "CompoundStmt":
        out = []
        for c in inner(n):
            out += stmts(c)
        return out
    if k == "ReturnStmt":
        ch = inner(n)
        return ["return " + sym(ch[0])] if ch else ["return"]
    if k == "DeclStmt":
        out = []
        for v in inner(n):
            if v.get("kind") != "VarDecl":
                raise Mismatch("DeclStmt of %s" % v.get("kind"))
            ch = [c for c in inner(v) if c.get("kind") != "FullComment"]
            ty = qual(v)
            if not ch:
                out.append("%s %s" % (ty, v["name"]))
            elif len(ch) == 1:
                out.append("%s %s = %s" % (ty, v["name"], sym(ch[0])))
            else:
                raise Mismatch("VarDecl %s with %d children" % (v["name"], len(ch)))
        return out
    if k == "IfStmt":
        ch = inner(n)
        if n.get("hasElse") or len(ch) != 2:
            raise Mismatch("if with else / unexpected shape")
        return ["if (%s) {" % sym(ch[0])] + stmts(ch[1]) + ["}"]
    if k == "ForStmt":
        ch = n.get("inner", [])
        if len(ch) != 5:
            raise Mismatch("for statement shape")
        init, _condvar, cond, inc, body = ch
        i = "; ".join(stmts(init)) if init else ""
        return ["for (%s; %s; %s) {" % (i, sym(cond) if cond else "", sym(inc) if inc else "")] + \
            stmts(body) + ["}"]
    if k == "NullStmt":
        return []
    # expression statement
    return [sym(n)]


# --------------------------------------------------------------------------- (a) C structs

def c_records(tu):
    recs = {}
    for d in inner(tu):
        if d.get("kind") == "RecordDecl" and d.get("name") and d.get("completeDefinition"):
            recs[d["name"]] = d
    return recs


def flatten_record(rec, lookup, is_cxx):
    """[(dotted leaf name, type string)] of a record; nested records are flattened when
    `lookup` resolves the field type to a record definition."""
    out = []
    prev = None
    for c in inner(rec):
        k = c.get("kind")
        if k == "FieldDecl":
            name = c.get("name")
            if not name:
                raise Mismatch("unnamed field in %s" % rec.get("name"))
            if c.get("isBitfield"):
                raise Mismatch("bit-field %s" % name)
            q = qual(c)
            if "(unnamed" in q or "(anonymous" in q:
                if prev is None or prev.get("kind") not in ("RecordDecl", "CXXRecordDecl") or prev.get("name"):
                    raise Mismatch("field %s of unnamed struct type is not preceded by its definition" % name)
                if prev.get("tagUsed") != "struct":
                    raise Mismatch("field %s: unnamed %s" % (name, prev.get("tagUsed")))
                sub = flatten_record(prev, lookup, is_cxx)
            else:
                target = lookup(c)
                sub = flatten_record(target, lookup, is_cxx) if target is not None else None
            if sub is None:
                out.append((name, q))
            else:
                out += [(name + "." + n, t) for n, t in sub]
        elif k in ("RecordDecl", "CXXRecordDecl"):
            if is_cxx and c.get("isImplicit"):
                continue              # the injected class name; not a member
            if c.get("name"):
                raise Mismatch("named nested record %s" % c.get("name"))
        elif k in ("FullComment", "ParagraphComment"):
            continue
        elif is_cxx and k == "EnumDecl":
            pass                      # a nested type (redirect::type), not a data member
        elif is_cxx and k in ("CXXConstructorDecl", "CXXDestructorDecl", "CXXMethodDecl", "AccessSpecDecl"):
            if k == "CXXMethodDecl" and not c.get("isImplicit") and c.get("name") != "clone":
                raise Mismatch("unexpected method %s in a flattened struct" % c.get("name"))
            if k in ("CXXConstructorDecl", "CXXDestructorDecl") and not c.get("isImplicit"):
                raise Mismatch("user-declared constructor/destructor in a flattened struct")
            continue
        else:
            raise Mismatch("unexpected %s inside record %s" % (k, rec.get("name")))
        prev = c
    if not out:
        raise Mismatch("record %s has no fields" % rec.get("name"))
    return out


def gen_c_structs(tu):
    recs = c_records(tu)

    def lookup(field):
        d = desug(field)
        m = re.fullmatch(r"struct (\w+)", d)
        if m:
            if m.group(1) not in recs:
                raise Mismatch("struct %s not defined in reproc.h" % m.group(1))
            return recs[m.group(1)]
        if d.startswith("union ") or d.startswith("struct "):
            raise Mismatch("field type %s" % d)
        return None

    res = {}
    for name in ("reproc_options", "reproc_redirect", "reproc_stop_actions", "reproc_stop_action"):
        if name not in recs:
            raise Mismatch("struct %s not found in reproc.h" % name)
        res[name] = flatten_record(recs[name], lookup, False)
    return res


# --------------------------------------------------------------------------- (d) enums

def enum_values(e):
    vals, prev = [], None
    for c in inner(e):
        if c.get("kind") in ("FullComment",):
            continue
        if c.get("kind") != "EnumConstantDecl":
            raise Mismatch("unexpected %s in enum" % c.get("kind"))
        ce = [x for x in walk(c) if x.get("kind") == "ConstantExpr"]
        has_init = any(x.get("kind") not in ("FullComment", "ParagraphComment", "TextComment")
                       for x in inner(c))
        if has_init:
            if len(ce) < 1 or "value" not in ce[0]:
                raise Mismatch("enumerator %s: initialiser without a constant value" % c["name"])
            v = int(ce[0]["value"])
        else:
            v = 0 if prev is None else prev + 1
        vals.append((c["name"], v))
        prev = v
    if not vals:
        raise Mismatch("empty enum")
    return vals


def gen_c_enums(tu):
    out = []
    for d in inner(tu):
        if d.get("kind") != "EnumDecl":
            continue
        vals = enum_values(d)
        rp = [n.startswith("REPROC_") for n, _ in vals]
        if all(rp):
            out += vals
        elif any(rp):
            raise Mismatch("enum mixing REPROC_ and other enumerators")
    if not out:
        raise Mismatch("no REPROC_ enumerators in reproc.h")
    names = [n for n, _ in out]
    if len(set(names)) != len(names):
        raise Mismatch("duplicate C enumerator")
    return out


def gen_cxx_enums(docs):
    """[(qualified enum name, [(enumerator, value)])] for every enum of namespace reproc"""
    out = []

    def visit(n, path):
        k = n.get("kind")
        if k == "EnumDecl":
            out.append(("::".join(path + ([n["name"]] if n.get("name") else [])), enum_values(n)))
            return
        if k in ("NamespaceDecl", "CXXRecordDecl") and not n.get("isImplicit"):
            p = path + ([n["name"]] if n.get("name") else [])
            for c in inner(n):
                visit(c, p)

    for d in docs:
        visit(d, [])
    # the namespace `event` is opened twice; detail has no enums.  Keys must be distinct.
    keys = [k for k, _ in out]
    if len(set(keys)) != len(keys):
        raise Mismatch("duplicate C++ enum name %s" % keys)
    return out


# --------------------------------------------------------------------------- (b) initialisers

C_STRUCT_TYPES = ("reproc_options", "reproc_redirect", "reproc_stop_actions", "reproc_stop_action")


def is_struct_typed(n):
    q = qual(n).replace("const ", "").strip()
    d = desug(n).replace("const ", "").strip()
    return (q in C_STRUCT_TYPES or "(unnamed struct" in q or d.startswith("struct ")
            or d in C_STRUCT_TYPES)


def function_doc(docs, name):
    fs = [d for d in docs if d.get("kind") == "FunctionDecl" and d.get("name") == name
          and any(c.get("kind") == "CompoundStmt" for c in inner(d))]
    if len(fs) != 1:
        raise Mismatch("expected exactly one definition of %s, found %d" % (name, len(fs)))
    return fs[0]


def returned_initlist(f):
    body = [c for c in inner(f) if c.get("kind") == "CompoundStmt"][0]
    ss = inner(body)
    if len(ss) != 1 or ss[0].get("kind") != "ReturnStmt":
        raise Mismatch("%s: body is not a single return statement" % f["name"])
    e = only(ss[0])
    while e.get("kind") in ("ExprWithCleanups",):
        e = only(e)
    if e.get("kind") != "InitListExpr":
        raise Mismatch("%s: does not return a braced initialiser list" % f["name"])
    return e


def params(f):
    return [c["name"] for c in inner(f) if c.get("kind") == "ParmVarDecl"]


def subst(leaf, param, arg):
    if leaf == param:
        return arg
    if leaf.startswith(param + "."):
        return arg + leaf[len(param):]
    raise Mismatch("helper leaf `%s` does not start from its parameter `%s`" % (leaf, param))


def init_leaves(e, helpers, fname):
    k = e.get("kind")
    if k == "InitListExpr":
        if "array_filler" in e:
            raise Mismatch("%s: array filler in initialiser" % fname)
        out = []
        for c in inner(e):
            out += init_leaves(c, helpers, fname)
        return out
    if k == "ImplicitValueInitExpr":
        if is_struct_typed(e):
            raise Mismatch("%s: implicit zero-initialisation of a struct member" % fname)
        return ["<implicit-zero>"]
    if is_struct_typed(e):
        # a struct-valued element: must be a call of a known helper on one argument
        core = e
        while core.get("kind") in ("CXXConstructExpr", "MaterializeTemporaryExpr", "ImplicitCastExpr",
                                   "ExprWithCleanups", "CXXBindTemporaryExpr"):
            core = only(core)
        if core.get("kind") != "CallExpr":
            raise Mismatch("%s: struct-valued initialiser element is not a helper call (%s)"
                           % (fname, core.get("kind")))
        ch = inner(core)
        callee = sym(ch[0])
        if callee not in helpers:
            raise Mismatch("%s: call of unknown helper %s" % (fname, callee))
        if len(ch) != 2:
            raise Mismatch("%s: helper %s called with %d arguments" % (fname, callee, len(ch) - 1))
        param, leaves = helpers[callee]
        arg = sym(ch[1])
        return [subst(l, param, arg) for l in leaves]
    return [sym(e)]


def gen_initialisers(docs):
    helpers = {}
    res = {}
    for name in ("reproc_stop_actions_from", "reproc_redirect_from"):
        f = function_doc(docs, name)
        ps = params(f)
        if len(ps) != 1:
            raise Mismatch("%s: expected one parameter" % name)
        leaves = init_leaves(returned_initlist(f), {}, name)
        for l in leaves:
            subst(l, ps[0], "x")   # every leaf must start from the parameter
        helpers[name] = (ps[0], leaves)
        res[name] = (ps, leaves)
    f = function_doc(docs, "reproc_options_from")
    res["reproc_options_from"] = (params(f), init_leaves(returned_initlist(f), helpers, "reproc_options_from"))
    return res


# --------------------------------------------------------------------------- (c) options, clone

def gen_options(docs):
    recs = {}
    for d in docs:
        if d.get("kind") == "CXXRecordDecl" and d.get("name") and d.get("completeDefinition") \
           and d.get("tagUsed") == "struct" and not d.get("bases"):
            if d["name"] in recs:
                raise Mismatch("two definitions of struct %s" % d["name"])
            recs[d["name"]] = d
    if "options" not in recs:
        raise Mismatch("struct reproc::options not found")

    def lookup(field):
        d = desug(field)
        m = re.fullmatch(r"reproc::(\w+)", d)
        if m and m.group(1) in recs:
            return recs[m.group(1)]
        return None            # classes, aliases, scalars, pointers: leaves

    fields = flatten_record(recs["options"], lookup, True)
    others = {}
    for n in ("redirect", "stop_actions", "stop_action"):
        if n not in recs:
            raise Mismatch("struct reproc::%s not found" % n)
        others[n] = flatten_record(recs[n], lookup, True)

    clone = [c for c in inner(recs["options"]) if c.get("kind") == "CXXMethodDecl" and c.get("name") == "clone"]
    if len(clone) != 1:
        raise Mismatch("options::clone not found")
    clone = clone[0]
    ps = params(clone)
    if len(ps) != 1:
        raise Mismatch("options::clone: expected one parameter")
    body = [c for c in inner(clone) if c.get("kind") == "CompoundStmt"]
    if len(body) != 1:
        raise Mismatch("options::clone has no body")
    var, assigns, returned = None, [], None
    for s in inner(body[0]):
        k = s.get("kind")
        e = s
        while e.get("kind") == "ExprWithCleanups":
            e = only(e)
        k = e.get("kind")
        if k == "DeclStmt":
            vs = inner(e)
            if var is not None or len(vs) != 1 or vs[0].get("kind") != "VarDecl" or desug(vs[0]) != "reproc::options":
                raise Mismatch("options::clone: unexpected declaration")
            ini = [c for c in inner(vs[0])]
            if len(ini) != 1 or ini[0].get("kind") != "CXXConstructExpr" or inner(ini[0]):
                raise Mismatch("options::clone: local is not default-constructed")
            var = vs[0]["name"]
        elif k == "BinaryOperator" and e.get("opcode") == "=":
            a, b = inner(e)
            assigns.append((sym(a), sym(b)))
        elif k == "CXXOperatorCallExpr":
            ch = inner(e)
            if sym(ch[0]) != "operator=" or len(ch) != 3:
                raise Mismatch("options::clone: operator call other than assignment")
            assigns.append((sym(ch[1]), sym(ch[2])))
        elif k == "ReturnStmt":
            returned = sym(only(e))
        else:
            raise Mismatch("options::clone: unexpected statement %s" % k)
    if var is None or returned != var:
        raise Mismatch("options::clone: does not return its local")
    return fields, others, ps[0], var, assigns


# --------------------------------------------------------------------------- (d) constants

def gen_const_inits(docs):
    out = []

    def visit(n, path):
        k = n.get("kind")
        if k == "NamespaceDecl":
            for c in inner(n):
                visit(c, path + [n["name"]])
        elif k == "VarDecl" and "init" in n:
            ch = [c for c in inner(n) if c.get("kind") != "FullComment"]
            if len(ch) != 1:
                raise Mismatch("variable %s: initialiser shape" % n["name"])
            out.append(("::".join(path + [n["name"]]), sym(ch[0])))

    for d in docs:
        if d.get("kind") in ("NamespaceDecl", "VarDecl"):
            visit(d, [])
    return out


PROBE_C = r"""
#include <stdio.h>
#include <reproc/reproc.h>
int main(void)
{
#define P(x) printf("%s %d\n", #x, x)
  P(REPROC_EINVAL); P(REPROC_ETIMEDOUT); P(REPROC_EPIPE); P(REPROC_ENOMEM); P(REPROC_EWOULDBLOCK);
  P(REPROC_SIGKILL); P(REPROC_SIGTERM); P(REPROC_INFINITE); P(REPROC_DEADLINE);
  return 0;
}
"""


def gen_c_constants(tu):
    # the declared extern const ints of reproc.h, in declaration order
    declared = [d["name"] for d in inner(tu)
                if d.get("kind") == "VarDecl" and d.get("name", "").startswith("REPROC_")
                and d.get("storageClass") == "extern" and qual(d) == "const int"]
    base = "/verif/_build/c19" if os.path.isdir("/verif/_build/c19") else None
    tmp = tempfile.mkdtemp(prefix="gen_cpp.", dir=base)
    try:
        open(tmp + "/probe.c", "w").write(PROBE_C)
        cc = ["gcc", "-std=c99", "-DNDEBUG"] + C_INC
        for src in ("reproc", "error.posix"):
            r = subprocess.run(cc + ["-c", "%s/reproc/src/%s.c" % (REPO, src), "-o", "%s/%s.o" % (tmp, src)],
                               stdout=subprocess.PIPE, stderr=subprocess.PIPE, text=True)
            if r.returncode != 0:
                raise Mismatch("constants probe: cannot compile %s.c: %s" % (src, r.stderr[-1000:]))
        r = subprocess.run(cc + [tmp + "/probe.c", tmp + "/reproc.o", tmp + "/error.posix.o", "-no-pie",
                                 "-Wl,--unresolved-symbols=ignore-all", "-o", tmp + "/probe"],
                           stdout=subprocess.PIPE, stderr=subprocess.PIPE, text=True)
        if r.returncode != 0:
            raise Mismatch("constants probe: link failed: %s" % r.stderr[-1000:])
        r = subprocess.run([tmp + "/probe"], stdout=subprocess.PIPE, text=True)
        if r.returncode != 0:
            raise Mismatch("constants probe failed")
        vals = [(l.split()[0], int(l.split()[1])) for l in r.stdout.splitlines()]
    finally:
        shutil.rmtree(tmp, ignore_errors=True)
    if sorted(n for n, _ in vals) != sorted(declared):
        raise Mismatch("extern const ints declared in reproc.h %s differ from the probed list" % declared)
    order = {n: i for i, n in enumerate(declared)}
    return sorted(vals, key=lambda nv: order[nv[0]])


def gen_errc():
    docs = cxx_docs("std::errc")
    es = [d for d in docs if d.get("kind") == "EnumDecl" and d.get("name") == "errc"]
    if len(es) != 1:
        raise Mismatch("std::errc not found")
    vals = dict(enum_values(es[0]))
    want = ["broken_pipe", "invalid_argument", "timed_out", "not_enough_memory",
            "resource_unavailable_try_again", "operation_would_block"]
    for w in want:
        if w not in vals:
            raise Mismatch("std::errc::%s missing" % w)
    return [(w, vals[w]) for w in want]


# --------------------------------------------------------------------------- (e) process

def gen_process(docs):
    cls = [d for d in docs if d.get("kind") == "CXXRecordDecl" and d.get("name") == "process"
           and d.get("completeDefinition")]
    if len(cls) != 1:
        raise Mismatch("class process not found")
    flds = [(c["name"], qual(c)) for c in inner(cls[0]) if c.get("kind") == "FieldDecl"]
    ctors = [d for d in docs if d.get("kind") == "CXXConstructorDecl" and d.get("name") == "process"]
    default = [c for c in ctors if not params(c) and not [x for x in inner(c) if x.get("kind") == "ParmVarDecl"]]
    if len(default) != 1:
        raise Mismatch("process::process() definition not found")
    inits = []
    for ci in inner(default[0]):
        if ci.get("kind") == "CXXCtorInitializer":
            tgt = ci.get("anyInit", {}).get("name")
            if not tgt:
                raise Mismatch("constructor initialiser without a member")
            e = only(ci)
            while e.get("kind") == "ExprWithCleanups":
                e = only(e)
            if e.get("kind") != "CXXConstructExpr":
                raise Mismatch("member %s is not initialised by construction" % tgt)
            inits.append((tgt, [sym(a) for a in inner(e)]))
        elif ci.get("kind") == "CompoundStmt":
            if inner(ci):
                raise Mismatch("process::process() has a non-empty body")
    dtor = [d for d in docs if d.get("kind") == "CXXDestructorDecl" and d.get("name") == "~process"]
    if len(dtor) != 1:
        raise Mismatch("process::~process definition not found")
    special = [("~process", dtor[0].get("explicitlyDefaulted", "user-provided"))]
    mc = [c for c in ctors if c is not default[0]]
    if len(mc) != 1:
        raise Mismatch("expected exactly one other constructor of process (the move constructor)")
    special.append(("process(process &&)", mc[0].get("explicitlyDefaulted", "user-provided")))
    ma = [d for d in docs if d.get("kind") == "CXXMethodDecl" and d.get("name") == "operator="]
    if len(ma) != 1:
        raise Mismatch("process::operator= definition not found")
    special.append(("operator=(process &&)", ma[0].get("explicitlyDefaulted", "user-provided")))
    return flds, inits, special


# --------------------------------------------------------------------------- (f) bodies

def gen_bodies(docs):
    out = []
    f = function_doc(docs, "error_code_from")
    out.append(("error_code_from", params(f), stmts([c for c in inner(f) if c.get("kind") == "CompoundStmt"][0])))
    for d in docs:
        if d.get("kind") == "CXXMethodDecl" and d.get("name") != "operator=":
            body = [c for c in inner(d) if c.get("kind") == "CompoundStmt"]
            if len(body) != 1:
                raise Mismatch("method %s without a body in reproc.cpp" % d.get("name"))
            out.append(("process::" + d["name"], params(d), stmts(body[0])))
    polls = [d for d in docs if d.get("kind") == "FunctionDecl" and d.get("name") == "poll"
             and any(c.get("kind") == "CompoundStmt" for c in inner(d))]
    if len(polls) != 1:
        raise Mismatch("free function poll definition not found")
    out.append(("poll", params(polls[0]), stmts([c for c in inner(polls[0]) if c.get("kind") == "CompoundStmt"][0])))
    names = [n for n, _, _ in out]
    if len(set(names)) != len(names):
        raise Mismatch("overloaded wrapper method: %s" % names)
    return out


# --------------------------------------------------------------------------- Coq output

def cstr(s):
    if '"' in s or "\n" in s or any(ord(ch) < 32 or ord(ch) > 126 for ch in s):
        raise Mismatch("string not representable: %r" % s)
    s = s.replace(REPO + "/", "")
    return '"' + s + '"'


def cz(v):
    return "(%d)" % v


def clist(items, per_line=False):
    if per_line and items:
        return "[\n    " + ";\n    ".join(items) + "\n  ]"
    return "[" + "; ".join(items) + "]"


def main():
    try:
        tu = c_tu()
        cstructs = gen_c_structs(tu)
        cenums = gen_c_enums(tu)
        cconsts = gen_c_constants(tu)
        docs = cxx_docs("reproc::")
        inits = gen_initialisers(docs)
        ofields, oothers, cparam, cvar, cassigns = gen_options(docs)
        xenums = gen_cxx_enums(docs)
        cinits = gen_const_inits(docs)
        errc = gen_errc()
        pflds, pinits, pspecial = gen_process(docs)
        bodies = gen_bodies(docs)

        o = []
        o.append("(* GENERATED by harness/translate/gen_cpp.py from the reproc++ / reproc sources -- do not edit *)")
        o.append("From Coq Require Import ZArith List String.\nImport ListNotations.\nLocal Open Scope string_scope.\nLocal Open Scope Z_scope.")
        o.append("\n(* (a) reproc.h: flattened leaf fields (name, declared type), in declaration order *)")
        for n in C_STRUCT_TYPES:
            o.append("Definition c_%s_fields : list (string * string) := %s." %
                     (n, clist(["(%s, %s)" % (cstr(a), cstr(b)) for a, b in cstructs[n]], True)))
        o.append("\n(* (b) reproc.cpp: parameters and flattened positional initialiser leaves (helper calls inlined) *)")
        for n in ("reproc_options_from", "reproc_redirect_from", "reproc_stop_actions_from"):
            ps, leaves = inits[n]
            o.append("Definition %s_params : list string := %s." % (n, clist([cstr(p) for p in ps])))
            o.append("Definition %s_init : list string := %s." % (n, clist([cstr(l) for l in leaves], True)))
        o.append("\n(* (c) reproc.hpp: flattened leaf fields of struct options, redirect, stop_actions, stop_action;\n   assignments of options::clone *)")
        o.append("Definition cpp_options_fields : list (string * string) := %s." %
                 clist(["(%s, %s)" % (cstr(a), cstr(b)) for a, b in ofields], True))
        for n in ("redirect", "stop_actions", "stop_action"):
            o.append("Definition cpp_%s_fields : list (string * string) := %s." %
                     (n, clist(["(%s, %s)" % (cstr(a), cstr(b)) for a, b in oothers[n]], True)))
        o.append("Definition clone_param : string := %s.\nDefinition clone_local : string := %s." % (cstr(cparam), cstr(cvar)))
        o.append("Definition clone_assigns : list (string * string) := %s." %
                 clist(["(%s, %s)" % (cstr(a), cstr(b)) for a, b in cassigns], True))
        o.append("\n(* (d) enumerators with values: C++ (per enum) and C (all REPROC_ enumerators of reproc.h) *)")
        o.append("Definition cpp_enums : list (string * list (string * Z)) := %s." %
                 clist(["(%s, %s)" % (cstr(k), clist(["(%s, %s)" % (cstr(n), cz(v)) for n, v in vs])) for k, vs in xenums], True))
        o.append("Definition c_enumerators : list (string * Z) := %s." %
                 clist(["(%s, %s)" % (cstr(n), cz(v)) for n, v in cenums], True))
        o.append("(* reproc.cpp: what the C++ constants are initialised from *)")
        o.append("Definition cpp_const_inits : list (string * string) := %s." %
                 clist(["(%s, %s)" % (cstr(a), cstr(b)) for a, b in cinits], True))
        o.append("(* values of the C library's extern const ints (probe linked with reproc.c, error.posix.c) *)")
        o.append("Definition c_constants : list (string * Z) := %s." %
                 clist(["(%s, %s)" % (cstr(n), cz(v)) for n, v in cconsts], True))
        for n, v in cconsts:
            o.append("Definition C_%s : Z := %s." % (n, cz(v)))
        o.append("(* std::errc enumerators used by the error mapping (libstdc++ <system_error>) *)")
        o.append("Definition errc_values : list (string * Z) := %s." %
                 clist(["(%s, %s)" % (cstr(n), cz(v)) for n, v in errc]))
        o.append("Definition ERRC_broken_pipe : Z := %s." % cz(dict(errc)["broken_pipe"]))
        o.append("\n(* (e) class process: data members, constructor initialisers, special members *)")
        o.append("Definition process_fields : list (string * string) := %s." %
                 clist(["(%s, %s)" % (cstr(a), cstr(b)) for a, b in pflds]))
        o.append("Definition process_ctor_inits : list (string * list string) := %s." %
                 clist(["(%s, %s)" % (cstr(a), clist([cstr(x) for x in b])) for a, b in pinits]))
        o.append("Definition process_special_members : list (string * string) := %s." %
                 clist(["(%s, %s)" % (cstr(a), cstr(b)) for a, b in pspecial]))
        o.append("\n(* (f) reproc.cpp: parameters and normalised statements of error_code_from and the wrapper methods *)")
        o.append("Definition cpp_bodies : list (string * (list string * list string)) := %s." %
                 clist(["(%s, (%s,\n      %s))" % (cstr(n), clist([cstr(p) for p in ps]),
                                                  clist([cstr(s) for s in ss])) for n, ps, ss in bodies], True))
        text = "\n".join(o) + "\n"
    except Mismatch as e:
        print("TRANSLATOR-MISMATCH: %s" % e)
        sys.exit(2)
    os.makedirs(OUT, exist_ok=True)
    open(os.path.join(OUT, "Cpp_gen.v"), "w").write(text)


if __name__ == "__main__":
    main()
