#!/usr/bin/env python3
"""gen_tables.py <repo> <outdir> — the translator for the table-like parts of reproc
(DESIGN.md 6.3).  Reads clang's JSON AST of /repo's current sources and writes
coq/gen/Tables_gen.v.  Deliberately dumb: each pattern either matches exactly or the
generator fails loudly (exit 2) — it never guesses."""
import json, subprocess, sys, os

REPO = sys.argv[1] if len(sys.argv) > 1 else "/repo"
OUT = sys.argv[2] if len(sys.argv) > 2 else "/verif/coq/gen"
INC = ["-I%s/reproc/include" % REPO, "-I%s/reproc/src" % REPO]
FLAGS = ["-std=c99", "-DNDEBUG", "-DREPROC_MULTITHREADED"]


class Mismatch(Exception):
    pass


def ast(path, func):
    cmd = ["clang"] + FLAGS + INC + ["-fsyntax-only", "-Xclang", "-ast-dump=json", "-Xclang",
                                      "-ast-dump-filter=" + func, path]
    p = subprocess.run(cmd, stdout=subprocess.PIPE, stderr=subprocess.DEVNULL, text=True)
    s = p.stdout
    dec = json.JSONDecoder()
    i = 0
    docs = []
    while i < len(s):
        while i < len(s) and s[i].isspace():
            i += 1
        if i >= len(s):
            break
        d, i = dec.raw_decode(s, i)
        docs.append(d)
    for d in docs:
        if d.get("kind") == "FunctionDecl" and d.get("name") == func and \
           any(c.get("kind") == "CompoundStmt" for c in d.get("inner", [])):
            return d
    raise Mismatch("function %s with a body not found in %s" % (func, path))


def walk(n):
    yield n
    for c in n.get("inner", []) or []:
        yield from walk(c)


def find(n, kind):
    return [x for x in walk(n) if x.get("kind") == kind]


def refname(n):
    """name of the single DeclRefExpr / MemberExpr chain under n (ignoring casts)"""
    k = n.get("kind")
    if k == "DeclRefExpr":
        return n["referencedDecl"]["name"]
    if k == "MemberExpr":
        return refname(n["inner"][0]) + "." + n["name"]
    if k == "IntegerLiteral":
        return n["value"]
    if k == "ArraySubscriptExpr":
        return refname(n["inner"][0]) + "[" + refname(n["inner"][1]) + "]"
    inner = n.get("inner", [])
    if len(inner) == 1:
        return refname(inner[0])
    if k == "UnaryOperator" and n.get("opcode") == "-" :
        return "-" + refname(inner[0])
    raise Mismatch("cannot name %s" % k)


def switch_cases(sw):
    """[(labels, [stmts...])] for a SwitchStmt whose cases end in break/continue"""
    body = [c for c in sw["inner"] if c.get("kind") == "CompoundStmt"][0]
    groups = []
    labels, stmts = [], []

    def open_case(c):
        # nested CaseStmt = fall-through labels
        lab = [refname(c["inner"][0])]
        rest = c["inner"][1:]
        out = []
        for r in rest:
            if r.get("kind") == "CaseStmt":
                l2, o2 = open_case(r)
                lab += l2
                out += o2
            elif r.get("kind") == "DefaultStmt":
                lab.append("default")
                out += r.get("inner", [])
            else:
                out.append(r)
        return lab, out

    for c in body.get("inner", []):
        k = c.get("kind")
        if k == "CaseStmt":
            if labels and not stmts_terminated(stmts):
                raise Mismatch("fall-through with statements")
            if labels:
                groups.append((labels, stmts))
            labels, stmts = open_case(c)
        elif k == "DefaultStmt":
            if labels:
                groups.append((labels, stmts))
            labels, stmts = ["default"], list(c.get("inner", []))
        else:
            stmts.append(c)
    if labels:
        groups.append((labels, stmts))
    return groups


def stmts_terminated(stmts):
    return any(s.get("kind") in ("BreakStmt", "ContinueStmt", "ReturnStmt") for s in stmts)


def callees(stmts):
    out = []
    for s in stmts:
        for c in find(s, "CallExpr"):
            out.append(refname(c["inner"][0]))
    return out


def gen_redirect_destroy():
    f = ast(REPO + "/reproc/src/redirect.c", "redirect_destroy")
    sws = find(f, "SwitchStmt")
    if len(sws) != 1:
        raise Mismatch("redirect_destroy: expected one switch")
    if refname(sws[0]["inner"][0]) != "type":
        raise Mismatch("redirect_destroy: switch is not on `type`")
    closing = []
    seen = []
    for labels, stmts in switch_cases(sws[0]):
        cs = callees(stmts)
        closes = [c for c in cs if c in ("pipe_destroy", "handle_destroy")]
        other = [c for c in cs if c not in ("pipe_destroy", "handle_destroy", "__assert_fail")]
        if other:
            raise Mismatch("redirect_destroy: unexpected call %s" % other)
        for c in find({"inner": stmts}, "CallExpr"):
            if refname(c["inner"][0]) in ("pipe_destroy", "handle_destroy") and refname(c["inner"][1]) != "child":
                raise Mismatch("redirect_destroy: closes something other than `child`")
        for l in labels:
            seen.append(l)
            if closes:
                closing.append(l)
    return seen, closing


def gen_stop_switch():
    f = ast(REPO + "/reproc/src/reproc.c", "reproc_stop")
    sws = find(f, "SwitchStmt")
    if len(sws) != 1:
        raise Mismatch("reproc_stop: expected one switch")
    if refname(sws[0]["inner"][0]) != "actions[i].action":
        raise Mismatch("reproc_stop: switch is not on actions[i].action")
    kinds = {}
    for labels, stmts in switch_cases(sws[0]):
        cs = callees(stmts)
        kinds_here = None
        has_continue = any(s.get("kind") == "ContinueStmt" for s in stmts)
        if has_continue and not cs:
            kinds_here = "SK_noop"
        elif cs == ["reproc_terminate"]:
            kinds_here = "SK_terminate"
        elif cs == ["reproc_kill"]:
            kinds_here = "SK_kill"
        elif not cs and any(s.get("kind") == "BreakStmt" for s in stmts):
            # r = 0; break;
            asg = [s for s in stmts if s.get("kind") == "BinaryOperator" and s.get("opcode") == "="]
            if len(asg) == 1 and refname(asg[0]["inner"][0]) == "r" and refname(asg[0]["inner"][1]) == "0":
                kinds_here = "SK_wait"
        if kinds_here is None and labels == ["default"] and not cs:
            # default: r = REPROC_EINVAL; break;
            asg = [s for s in stmts if s.get("kind") == "BinaryOperator" and s.get("opcode") == "="]
            if len(asg) == 1 and refname(asg[0]["inner"][0]) == "r" and refname(asg[0]["inner"][1]) == "REPROC_EINVAL" \
               and any(s.get("kind") == "BreakStmt" for s in stmts):
                kinds_here = "SK_invalid"
        if kinds_here is None:
            raise Mismatch("reproc_stop: case %s not recognised (calls %s)" % (labels, cs))
        for l in labels:
            kinds[l] = kinds_here
    # order of actions[] = { stop.first, stop.second, stop.third }
    order = None
    for v in find(f, "VarDecl"):
        if v.get("name") == "actions":
            il = find(v, "InitListExpr")
            if il:
                order = [refname(x) for x in il[0]["inner"]]
    if order is None:
        raise Mismatch("reproc_stop: actions[] initialiser not found")
    idx = {"stop.first": 0, "stop.second": 1, "stop.third": 2}
    try:
        order = [idx[o] for o in order]
    except KeyError as e:
        raise Mismatch("reproc_stop: unexpected actions[] element %s" % e)
    return kinds, order


def gen_start_lists():
    f = ast(REPO + "/reproc/src/process.posix.c", "process_start")
    names = {"options.handle.in": "E_in", "options.handle.out": "E_out", "options.handle.err": "E_err",
             "options.handle.exit": "E_exit", "pipe.read": "E_pread", "pipe.write": "E_pwrite"}
    res = {}
    for v in find(f, "VarDecl"):
        if v.get("name") in ("except", "redirect"):
            il = find(v, "InitListExpr")
            if not il:
                raise Mismatch("process_start: %s has no initialiser list" % v["name"])
            try:
                res[v["name"]] = [names[refname(x)] for x in il[0]["inner"]]
            except KeyError as e:
                raise Mismatch("process_start: unexpected element %s in %s" % (e, v["name"]))
    if set(res) != {"except", "redirect"}:
        raise Mismatch("process_start: except[] / redirect[] not found")
    return res


def gen_signal_bound():
    f = ast(REPO + "/reproc/src/process.posix.c", "process_fork")
    for fs in find(f, "ForStmt"):
        decl = find(fs["inner"][0], "VarDecl") if fs["inner"][0] else []
        if decl and decl[0].get("name") == "signal":
            init = refname(decl[0]["inner"][0])
            cond = fs["inner"][2]
            if cond.get("kind") == "BinaryOperator" and cond.get("opcode") == "<" and refname(cond["inner"][0]) == "signal":
                return int(init), int(refname(cond["inner"][1]))
    raise Mismatch("process_fork: signal reset loop not found")


def main():
    try:
        seen, closing = gen_redirect_destroy()
        kinds, order = gen_stop_switch()
        lists = gen_start_lists()
        lo, hi = gen_signal_bound()
    except Mismatch as e:
        print("TRANSLATOR-MISMATCH: %s" % e)
        sys.exit(2)
    out = []
    out.append("(* GENERATED by harness/translate/gen_tables.py from %s — do not edit *)" % REPO)
    out.append("From Coq Require Import ZArith Bool List.\nFrom Verif Require Import Consts_gen.\nImport ListNotations.\nLocal Open Scope Z_scope.")
    out.append("Inductive stop_kind := SK_noop | SK_wait | SK_terminate | SK_kill | SK_invalid.")
    out.append("(* reproc.c: the switch of reproc_stop *)")
    body = "SK_invalid"
    for l, k in reversed(list(kinds.items())):
        if l == "default":
            continue
        body = "if a =? %s then %s else %s" % (l, k, body)
    out.append("Definition stop_action_kind (a : Z) : stop_kind :=\n  %s." % body)
    out.append("(* reproc.c: actions[] = { ... } as indices into (first, second, third) *)")
    out.append("Definition stop_actions_order : list Z := [%s]." % "; ".join(str(o) for o in order))
    out.append("(* redirect.c: the switch of redirect_destroy — which redirect types close `child` *)")
    out.append("Definition redirect_destroy_cases : list Z := [%s]." % "; ".join(l for l in seen if l != "default"))
    out.append("Definition redirect_destroy_closes (ty : Z) : bool :=\n  %s." %
               (" || ".join("(ty =? %s)" % l for l in closing if l != "default") or "false"))
    out.append("(* process.posix.c: except[] and redirect[] of process_start *)")
    out.append("Inductive start_fd := E_in | E_out | E_err | E_exit | E_pread | E_pwrite.")
    out.append("Definition start_except : list start_fd := [%s]." % "; ".join(lists["except"]))
    out.append("Definition start_redirect : list start_fd := [%s]." % "; ".join(lists["redirect"]))
    out.append("(* process.posix.c: bounds of the signal reset loop *)")
    out.append("Definition SIGNAL_LOOP_FROM : Z := %d.\nDefinition SIGNAL_LOOP_TO : Z := %d." % (lo, hi))
    os.makedirs(OUT, exist_ok=True)
    open(os.path.join(OUT, "Tables_gen.v"), "w").write("\n".join(out) + "\n")


if __name__ == "__main__":
    main()
