(* c13_check.ml — C13 tie, checking side.  Reads the lines printed by c13_unit (the REAL
   options.c) on stdin; for every case evaluates
     - the MODEL : C13_model.parse_redirect / parse_options / parse_stop_actions
                   (extracted from coq/LibPure.v),
     - the SPEC  : C13_model.doc_ok / doc_violations / doc_resolved / doc_stop
                   (extracted from coq/OptSpec.v),
   and reports
     diff    : model result <> implementation result,
     monitor : the implementation's result against the spec alone
               (accepted-invalid/<rule>, rejected-valid/<class>, wrong-effective/<what>).
   Z stays the extracted inductive; ints are converted here, at the boundary.
   Usage: c13_check <part.json>   (one partial result per shard; merged by c13_merge.py) *)
open C13_model

(* ---------- boundary conversions ---------- *)
let rec pos_of_int n = if n = 1 then XH else if n land 1 = 0 then XO (pos_of_int (n lsr 1)) else XI (pos_of_int (n lsr 1))
let z_of_int n = if n = 0 then Z0 else if n > 0 then Zpos (pos_of_int n) else Zneg (pos_of_int (-n))
let rec int_of_pos = function XH -> 1 | XO p -> 2 * int_of_pos p | XI p -> (2 * int_of_pos p) + 1
let int_of_z = function Z0 -> 0 | Zpos p -> int_of_pos p | Zneg p -> - (int_of_pos p)
let zstr s = List.init (String.length s) (fun i -> z_of_int (Char.code s.[i]))

let paths = [| zstr "pi"; zstr "po"; zstr "pe"; zstr "ps" |]
let path_of id = if id = 0 then None else Some paths.(id - 1)
let path_id = function
  | None -> 0
  | Some p -> let r = ref 99 in Array.iteri (fun i q -> if p = q then r := i + 1) paths; !r
let file_id z = let n = int_of_z z in if n >= 0 && n <= 4 then n else 99

(* values announced by the V line *)
let types = [| -1; 0; 1; 2; 3; 4; 5; 6; 7; 8; 1000 |]
let ztypes = Array.map z_of_int types
let hset = [| 10; 11; 12; 13 |]
let zhset = Array.map z_of_int hset
let dlv = ref 5
let zsmall = Array.init 8 z_of_int   (* stream numbers, file ids *)

let mk_redirect s ti m =
  { rd_type = ztypes.(ti);
    rd_handle = (if m land 1 <> 0 then zhset.(s) else Z0);
    rd_file = (if m land 2 <> 0 then zsmall.(s + 1) else Z0);
    rd_path = (if m land 4 <> 0 then path_of (s + 1) else None) }

let wd = Some (zstr "wd")
let envx = Some [ zstr "A=b" ]
let sa a t = { sa_action = z_of_int a; sa_timeout = z_of_int t }
let stop_noop = { st_first = sa 0 11; st_second = sa 0 22; st_third = sa 0 33 }
let stop_other = { st_first = sa 2 100; st_second = sa 0 50; st_third = sa 3 25 }
let z3 = z_of_int 3

let mk_options r0 r1 r2 sh inp frk dl st full =
  { o_wd = (if full then wd else None); o_env_behavior = (if full then zsmall.(1) else Z0);
    o_env_extra = (if full then envx else None);
    o_in = r0; o_out = r1; o_err = r2;
    o_parent = sh land 1 <> 0; o_discard = sh land 2 <> 0;
    o_file = (if sh land 4 <> 0 then zsmall.(4) else Z0);
    o_path = (if sh land 8 <> 0 then path_of 4 else None);
    o_stop = (if st = 1 then stop_other else stop_noop);
    o_deadline = (if dl = 1 then z_of_int !dlv else Z0);
    o_input_data = (inp = 1 || inp = 2); o_input_size = (if inp = 1 || inp = 3 then z3 else Z0);
    o_fork = frk = 1; o_nonblocking = full }

let argv_of = function 0 -> ArgvNull | 1 -> ArgvEmpty | _ -> ArgvOk

(* result vectors, in the order c13_unit prints them *)
let vec_redirect r = [ int_of_z r.rd_type; int_of_z r.rd_handle; file_id r.rd_file; path_id r.rd_path ]
let vec_stop s =
  [ int_of_z s.st_first.sa_action; int_of_z s.st_first.sa_timeout; int_of_z s.st_second.sa_action;
    int_of_z s.st_second.sa_timeout; int_of_z s.st_third.sa_action; int_of_z s.st_third.sa_timeout ]
let vec_options o o' =
  let u = o'.o_wd = o.o_wd && o'.o_env_behavior = o.o_env_behavior && o'.o_env_extra = o.o_env_extra
          && o'.o_parent = o.o_parent && o'.o_discard = o.o_discard && o'.o_file = o.o_file
          && o'.o_path = o.o_path && o'.o_input_data = o.o_input_data && o'.o_input_size = o.o_input_size
          && o'.o_fork = o.o_fork && o'.o_nonblocking = o.o_nonblocking in
  vec_redirect o'.o_in @ vec_redirect o'.o_out @ vec_redirect o'.o_err
  @ [ int_of_z o'.o_deadline ] @ vec_stop o'.o_stop @ [ (if u then 1 else 0) ]

(* ---------- names ---------- *)
let stream_name = function 0 -> "in" | 1 -> "out" | 2 -> "err" | _ -> "?"
let rule_name (r, s) =
  let s = int_of_z s in
  let on n = n ^ "-on-" ^ stream_name s in
  match r with
  | Two_targets -> on "two-targets" | Handle_missing -> on "handle-missing"
  | File_missing -> on "file-missing" | Path_missing -> on "path-missing"
  | Stdout_type -> on "stdout-type"
  | Shorthand_explicit -> "shorthand-explicit" | Shorthand_conflict -> "shorthand-conflict"
  | Input_nonpipe -> "input-nonpipe" | Input_size_without_data -> "input-size-without-data"
  | Fork_argv -> "fork-argv" | Argv_missing -> "argv-missing"
let type_name t = match t with
  | 0 -> "DEFAULT" | 1 -> "PIPE" | 2 -> "PARENT" | 3 -> "DISCARD" | 4 -> "STDOUT" | 5 -> "HANDLE"
  | 6 -> "FILE" | 7 -> "PATH" | n -> string_of_int n
(* which documented allowance a (valid) case uses: names rejected-valid failures *)
let allow_class (o : options) =
  let set r = redirect_set r in
  if o.o_fork then "fork"
  else if o.o_input_data then "input"
  else if sh_file_set o then "file-shorthand"
  else if sh_path_set o then "path-shorthand"
  else if o.o_parent then "parent-shorthand"
  else if o.o_discard then "discard-shorthand"
  else if set o.o_in then "explicit-in"
  else if set o.o_out then "explicit-out"
  else if set o.o_err then "explicit-err"
  else "all-default"

(* ---------- C-like rendering of a case, for replays ---------- *)
let show_redirect name (r : redirect) =
  let l = ref [] in
  let add s = l := s :: !l in
  if r.rd_type <> Z0 then add (Printf.sprintf ".redirect.%s.type = %s" name (type_name (int_of_z r.rd_type)));
  if r.rd_handle <> Z0 then add (Printf.sprintf ".redirect.%s.handle = %d" name (int_of_z r.rd_handle));
  if r.rd_file <> Z0 then add (Printf.sprintf ".redirect.%s.file = FILE#%d" name (int_of_z r.rd_file));
  (match r.rd_path with Some _ -> add (Printf.sprintf ".redirect.%s.path = \\\"p%s\\\"" name (String.sub name 0 1)) | None -> ());
  List.rev !l
let show_options (o : options) av =
  let l = show_redirect "in" o.o_in @ show_redirect "out" o.o_out @ show_redirect "err" o.o_err
    @ (if o.o_parent then [ ".redirect.parent = true" ] else [])
    @ (if o.o_discard then [ ".redirect.discard = true" ] else [])
    @ (if o.o_file <> Z0 then [ ".redirect.file = FILE#4" ] else [])
    @ (match o.o_path with Some _ -> [ ".redirect.path = \\\"ps\\\"" ] | None -> [])
    @ (if o.o_input_data then [ ".input.data = \\\"xyz\\\"" ] else [])
    @ (if o.o_input_size <> Z0 then [ Printf.sprintf ".input.size = %d" (int_of_z o.o_input_size) ] else [])
    @ (if o.o_fork then [ ".fork = true" ] else [])
    @ (if o.o_deadline <> Z0 then [ Printf.sprintf ".deadline = %d" (int_of_z o.o_deadline) ] else [])
    @ (if o.o_stop == stop_other then [ ".stop = {{TERMINATE,100},{NOOP,50},{KILL,25}}" ] else []) in
  Printf.sprintf "reproc_start(p, %s, (reproc_options){ %s })"
    (match av with ArgvNull -> "NULL" | ArgvEmpty -> "(const char*[]){NULL}" | ArgvOk -> "(const char*[]){\\\"x\\\",NULL}")
    (if l = [] then "0" else String.concat ", " l)
let show_vec v = "[" ^ String.concat "," (List.map string_of_int v) ^ "]"
let show_res rc v = if rc < 0 then Printf.sprintf "{\"r\":%d}" rc else Printf.sprintf "{\"r\":%d,\"fields\":%s}" rc (show_vec v)

(* ---------- accumulators ---------- *)
let failures : (string, string * string * int ref * string) Hashtbl.t = Hashtbl.create 64
let fail kind key what replay =
  match Hashtbl.find_opt failures key with
  | Some (_, _, c, _) -> incr c
  | None -> Hashtbl.add failures key (kind, what, ref 1, replay ())
let sigs : (string, int ref) Hashtbl.t = Hashtbl.create 4096
let dist : (string, int ref) Hashtbl.t = Hashtbl.create 64
let bump tbl k = match Hashtbl.find_opt tbl k with Some c -> incr c | None -> Hashtbl.add tbl k (ref 1)
let samples = ref []
let nsamples = ref 0
let na = ref 0 and nb = ref 0 and nc = ref 0
let ends = ref None

(* ---------- line scanner: ints, ':' -> min_int ---------- *)
let scan (s : string) : int array =
  let n = String.length s in
  let out = ref [] in
  let i = ref 1 in
  while !i < n do
    let c = s.[!i] in
    if c = ' ' then incr i
    else if c = ':' then (out := min_int :: !out; incr i)
    else begin
      let neg = c = '-' in
      if neg then incr i;
      let v = ref 0 in
      while !i < n && s.[!i] >= '0' && s.[!i] <= '9' do
        v := (!v * 10) + Char.code s.[!i] - 48; incr i
      done;
      out := (if neg then - !v else !v) :: !out
    end
  done;
  Array.of_list (List.rev !out)

let rec drop n l = if n = 0 then l else match l with [] -> [] | _ :: t -> drop (n - 1) t
let impl_result (a : int array) (sep : int) =
  let rc = a.(sep + 1) in
  let v = drop (sep + 2) (Array.to_list a) in
  (rc, v)

let names_b = [| "type-in"; "handle-in"; "file-in"; "path-in"; "type-out"; "handle-out"; "file-out"; "path-out";
                 "type-err"; "handle-err"; "file-err"; "path-err"; "deadline"; "stop"; "stop"; "stop"; "stop";
                 "stop"; "stop"; "other-members" |]
let first_diff names a b =
  let rec go i a b = match a, b with
    | x :: a', y :: b' -> if x <> y then (if i < Array.length names then names.(i) else "length") else go (i + 1) a' b'
    | [], [] -> "none" | _ -> "length" in
  go 0 a b

(* the monitor: implementation result (rc, v) against the spec for options o *)
let monitor table line (o : options) av (rc, v) spec_vec names =
  let viol = doc_violations o av in
  let ok = doc_ok o av in
  if ok <> (viol = []) then failwith "internal: doc_ok / doc_violations disagree";
  let replay extra () =
    Printf.sprintf "{\"table\":\"%s\",\"row\":\"%s\",\"call\":\"%s\",\"impl\":%s,\"spec\":{\"ok\":%b,\"violations\":[%s]%s}}"
      table line (show_options o av) (show_res rc v) ok
      (String.concat "," (List.map (fun x -> "\"" ^ rule_name x ^ "\"") viol)) extra in
  if rc >= 0 && not ok then begin
    let r = rule_name (List.hd viol) in
    fail "monitor" ("C13/accepted-invalid/" ^ r)
      (Printf.sprintf "validation accepted options that violate documented rule %s" r) (replay "")
  end else if rc < 0 && ok then begin
    let c = allow_class o in
    fail "monitor" ("C13/rejected-valid/" ^ c)
      (Printf.sprintf "validation rejected (%d) options the documentation allows (%s)" rc c) (replay "")
  end else if rc >= 0 && ok then begin
    let sv = spec_vec () in
    if sv <> v then begin
      let w = first_diff names v sv in
      fail "monitor" ("C13/wrong-effective/" ^ w)
        (Printf.sprintf "accepted options resolve to something else than documented (%s)" w)
        (replay (Printf.sprintf ",\"documented\":%s" (show_vec sv)))
    end
  end else if rc <> -22 then
    fail "monitor" "C13/rejected-invalid/wrong-error"
      (Printf.sprintf "rejected with %d instead of REPROC_EINVAL (-22)" rc) (replay "");
  (ok, viol)

let diff table line call (rc, v) (mrc, mv) =
  if rc <> mrc || (rc >= 0 && v <> mv) then
    fail "diff" ("C13/diff/" ^ table)
      (Printf.sprintf "model and implementation disagree (%s)" table)
      (fun () -> Printf.sprintf "{\"table\":\"%s\",\"row\":\"%s\",\"call\":\"%s\",\"impl\":%s,\"model\":%s}"
                   table line (call ()) (show_res rc v) (show_res mrc mv))

let sample line = if !nsamples < 6 then (samples := line :: !samples; incr nsamples)

let pipe_only = { rd_type = z_of_int 1; rd_handle = Z0; rd_file = Z0; rd_path = None }
let zero_r = { rd_type = Z0; rd_handle = Z0; rd_file = Z0; rd_path = None }
let names_a = [| "type"; "handle"; "file"; "path" |]

let do_a line =
  let a = scan line in
  let s = a.(0) and ti = a.(1) and m = a.(2) and sh = a.(3) in
  let impl = impl_result a 4 in
  let r = mk_redirect s ti m in
  let file = if sh land 4 <> 0 then zsmall.(4) else Z0 and path = if sh land 8 <> 0 then path_of 4 else None in
  let mres = parse_redirect r zsmall.(s) (sh land 1 <> 0) (sh land 2 <> 0) file path in
  let model = match mres with None -> (-22, []) | Some r' -> (0, vec_redirect r') in
  (* the same call seen through parse_options: the other streams are made neutral *)
  let other = if sh land 12 <> 0 then zero_r else pipe_only in
  let o = mk_options (if s = 0 then r else pipe_only) (if s = 1 then r else other) (if s = 2 then r else other)
            sh 0 0 0 0 false in
  let call () = Printf.sprintf "parse_redirect(stream %s) within %s" (stream_name s) (show_options o ArgvOk) in
  diff "parse_redirect" line call impl model;
  let reachable = s <> 0 || sh land 12 = 0 in
  if reachable then begin
    (* sanity of the embedding, on the model *)
    (match parse_options o ArgvOk, mres with
     | None, None -> ()
     | Some o', Some r' when stream_of o' zsmall.(s) = r' -> ()
     | _ -> failwith ("internal: embedding of table (a) row is not faithful: " ^ line));
    let ok, _ = monitor "parse_redirect" line o ArgvOk impl
        (fun () -> vec_redirect (doc_resolved_stream o zsmall.(s))) names_a in
    bump dist (if ok then "a/valid" else "a/invalid")
  end else bump dist "a/unreachable-through-parse_options(diff only)";
  incr na; if !na mod 997 = 1 then sample line

let do_b line =
  let a = scan line in
  let r0 = mk_redirect 0 a.(0) a.(1) and r1 = mk_redirect 1 a.(2) a.(3) and r2 = mk_redirect 2 a.(4) a.(5) in
  let sh = a.(6) and inp = a.(7) and frk = a.(8) and av = argv_of a.(9) and dl = a.(10) and st = a.(11) in
  let impl = impl_result a 12 in
  let o = mk_options r0 r1 r2 sh inp frk dl st true in
  let model = match parse_options o av with None -> (-22, []) | Some o' -> (0, vec_options o o') in
  diff "parse_options" line (fun () -> show_options o av) impl model;
  let ok, viol = monitor "parse_options" line o av impl (fun () -> vec_options o (doc_resolved o)) names_b in
  (* measured distribution and distinct signatures *)
  let oor = a.(0) = 0 || a.(0) >= 9 || a.(2) = 0 || a.(2) >= 9 || a.(4) = 0 || a.(4) >= 9 in
  if ok then begin
    bump dist (if oor then "b/valid/with-out-of-range-type" else "b/valid");
    let e s = type_name (int_of_z (doc_effective o zsmall.(s))) in
    bump dist ("b/valid/effective-in/" ^ e 0); bump dist ("b/valid/effective-out/" ^ e 1);
    bump dist ("b/valid/effective-err/" ^ e 2);
    bump sigs (Printf.sprintf "ok %s %s %s sh%d inp%d f%d dl%d st%d m%d%d%d" (e 0) (e 1) (e 2) sh inp frk dl st
                 a.(1) a.(3) a.(5))
  end else begin
    bump dist (if oor then "b/invalid/with-out-of-range-type" else "b/invalid");
    bump dist ("b/invalid/first/" ^ rule_name (List.hd viol));
    bump sigs ("no " ^ String.concat "," (List.map rule_name viol))
  end;
  incr nb; if !nb mod 99991 = 1 then sample line

let do_c line =
  let a = scan line in
  let st = { st_first = sa a.(0) 11; st_second = sa a.(1) 22; st_third = sa a.(2) 33 } in
  let v = drop 4 (Array.to_list a) in   (* a.(3) is ':' ; the six result fields follow *)
  let mv = vec_stop (parse_stop_actions st) in
  let o = { (mk_options zero_r zero_r zero_r 0 0 0 0 0 false) with o_stop = st } in
  let sv = vec_stop (doc_stop o) in
  if v <> mv then
    fail "diff" "C13/diff/parse_stop_actions" "model and implementation disagree (parse_stop_actions)"
      (fun () -> Printf.sprintf "{\"table\":\"parse_stop_actions\",\"row\":\"%s\",\"impl\":%s,\"model\":%s}" line (show_vec v) (show_vec mv));
  if v <> sv then
    fail "monitor" "C13/wrong-effective/stop" "stop actions resolve to something else than documented"
      (fun () -> Printf.sprintf "{\"table\":\"parse_stop_actions\",\"row\":\"%s\",\"impl\":%s,\"documented\":%s}" line (show_vec v) (show_vec sv));
  bump dist "c/stop-forms";
  incr nc

let () =
  let out = Sys.argv.(1) in
  (try
     while true do
       let line = input_line stdin in
       if String.length line > 0 then
         match line.[0] with
         | 'B' -> do_b line
         | 'A' -> do_a line
         | 'C' -> do_c line
         | 'V' ->
           let a = scan line in
           types.(0) <- a.(0); types.(10) <- a.(1); ztypes.(0) <- z_of_int a.(0); ztypes.(10) <- z_of_int a.(1);
           for i = 0 to 3 do hset.(i) <- a.(2 + i); zhset.(i) <- z_of_int a.(2 + i) done;
           dlv := a.(6)
         | 'E' -> let a = scan line in ends := Some (a.(0), a.(1), a.(2))
         | _ -> failwith ("unexpected line: " ^ line)
     done
   with End_of_file -> ());
  (match !ends with
   | Some (ea, eb, ec) when ea = !na && eb = !nb && ec = !nc -> ()
   | _ -> failwith "truncated input: end marker missing or counts differ");
  let oc = open_out out in
  let tbl t = String.concat "," (Hashtbl.fold (fun k c acc -> Printf.sprintf "\"%s\":%d" k !c :: acc) t []) in
  Printf.fprintf oc "{\"na\":%d,\"nb\":%d,\"nc\":%d,\n\"values\":{\"neg\":%d,\"big\":%d,\"handles\":[%d,%d,%d],\"deadline\":%d},\n"
    !na !nb !nc types.(0) types.(10) hset.(0) hset.(1) hset.(2) !dlv;
  Printf.fprintf oc "\"distribution\":{%s},\n\"signatures\":{%s},\n" (tbl dist) (tbl sigs);
  Printf.fprintf oc "\"samples\":[%s],\n" (String.concat "," (List.rev_map (fun s -> "\"" ^ s ^ "\"") !samples));
  Printf.fprintf oc "\"failures\":[%s]}\n"
    (String.concat ",\n"
       (Hashtbl.fold (fun key (kind, what, c, replay) acc ->
            Printf.sprintf "{\"kind\":\"%s\",\"key\":\"%s\",\"what\":\"%s\",\"count\":%d,\"replay\":%s}" kind key what !c replay
            :: acc) failures []));
  close_out oc
