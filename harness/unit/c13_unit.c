/* c13_unit.c — C13 (option validation) unit harness: runs the REAL options.c of $REPO on
   exhaustively enumerated inputs and prints one line per case (inputs : results).
   The same lines are read by c13_check.ml, which evaluates the Coq-extracted model and the
   documentation-derived spec on the decoded inputs and compares.

   Build (harness/ties/C13.sh):
     gcc -O2 -g -DNDEBUG -std=c99 -I$REPO/reproc/include -I$REPO/reproc/src \
         -DOPTIONS_C='"'$REPO'/reproc/src/options.c"' c13_unit.c -o c13_unit
   options.c is #included so that the static parse_redirect is reachable; nothing of it
   is modified.

   Usage: c13_unit <quick|thorough> <seed> <shard> <nshards>

   Lines (all fields decimal ints):
     V neg big h_in h_out h_err h_x dl         values used for TYPES[0], TYPES[10], set handles, deadline
     A s ti m sh : r [t h f p]                 table (a): parse_redirect on stream s
     B ti0 m0 ti1 m1 ti2 m2 sh inp frk av dl st : r [t0 h0 f0 p0 t1 h1 f1 p1 t2 h2 f2 p2 dl a1 x1 a2 x2 a3 x3 u]
     C a1 a2 a3 : a1' x1' a2' x2' a3' x3'      parse_stop_actions (timeouts in: 11 22 33)
     E na nb nc                                 end marker with the numbers of A/B/C lines printed
   ti indexes TYPES[]; m = member mask (1 handle, 2 file, 4 path); sh = shorthand mask
   (1 parent, 2 discard, 4 file, 8 path); inp = 0 none, 1 data+size 3, 2 data+size 0,
   3 no data+size 3; av = 0 argv NULL, 1 argv[0] NULL, 2 argv ok; st = 0 all noop, 1 other.
   FILE* and path results are printed as ids: 0 NULL, 1..3 the member of in/out/err, 4 the
   shorthand's, 99 anything else.  u = 1 iff every member not documented to change is unchanged. */
#include OPTIONS_C

#include <stdint.h>
#include <stdio.h>
#include <stdlib.h>
#include <string.h>

#define NTYPES 11
static int TYPES[NTYPES] = { -1, 0, 1, 2, 3, 4, 5, 6, 7, 8, 1000 };
static int HSET[4] = { 10, 11, 12, 13 }; /* non-zero handle values (in, out, err, unused) */
static int DL = 5;

static char dummy_files[4]; /* never dereferenced: only their addresses are used */
static const char *PATHS[4] = { "pi", "po", "pe", "ps" };
static const char WD[] = "wd";
static const char *const ENVX[] = { "A=b", NULL };
static const uint8_t INPUT[] = { 'x', 'y', 'z' };
static const char *const ARGV_EMPTY[] = { NULL };
static const char *const ARGV_OK[] = { "x", NULL };

static FILE *file_of(int id) { return id ? (FILE *) (void *) &dummy_files[id - 1] : NULL; }
static int file_id(FILE *f)
{
  if (!f) return 0;
  for (int i = 0; i < 4; i++)
    if ((void *) f == (void *) &dummy_files[i]) return i + 1;
  return 99;
}
static const char *path_of(int id) { return id ? PATHS[id - 1] : NULL; }
static int path_id(const char *p)
{
  if (!p) return 0;
  for (int i = 0; i < 4; i++)
    if (p == PATHS[i]) return i + 1;
  return 99;
}

static reproc_redirect mk_redirect(int s, int ti, int m)
{
  reproc_redirect r;
  memset(&r, 0, sizeof(r));
  r.type = (REPROC_REDIRECT) TYPES[ti];
  r.handle = (m & 1) ? (reproc_handle) HSET[s] : (reproc_handle) 0;
  r.file = (m & 2) ? file_of(s + 1) : NULL;
  r.path = (m & 4) ? path_of(s + 1) : NULL;
  return r;
}

static uint64_t mix(uint64_t x)
{
  x += 0x9e3779b97f4a7c15ULL;
  x = (x ^ (x >> 30)) * 0xbf58476d1ce4e5b9ULL;
  x = (x ^ (x >> 27)) * 0x94d049bb133111ebULL;
  return x ^ (x >> 31);
}

static long na, nb, nc;

/* table (a) */
static void table_a(void)
{
  for (int s = 0; s < 3; s++)
    for (int ti = 0; ti < NTYPES; ti++)
      for (int m = 0; m < 8; m++)
        for (int sh = 0; sh < 16; sh++) {
          reproc_redirect r = mk_redirect(s, ti, m);
          int rc = parse_redirect(&r, (REPROC_STREAM) s, (sh & 1) != 0, (sh & 2) != 0,
                                  (sh & 4) ? file_of(4) : NULL, (sh & 8) ? path_of(4) : NULL);
          if (rc < 0)
            printf("A %d %d %d %d : %d\n", s, ti, m, sh, rc);
          else
            printf("A %d %d %d %d : %d %d %d %d %d\n", s, ti, m, sh, rc, (int) r.type,
                   (int) (intptr_t) r.handle, file_id(r.file), path_id(r.path));
          na++;
        }
}

/* parse_stop_actions */
static void table_c(void)
{
  for (int a1 = 0; a1 < 4; a1++)
    for (int a2 = 0; a2 < 4; a2++)
      for (int a3 = 0; a3 < 4; a3++) {
        reproc_stop_actions st = { { (REPROC_STOP) a1, 11 }, { (REPROC_STOP) a2, 22 }, { (REPROC_STOP) a3, 33 } };
        reproc_stop_actions o = parse_stop_actions(st);
        printf("C %d %d %d : %d %d %d %d %d %d\n", a1, a2, a3, (int) o.first.action, o.first.timeout,
               (int) o.second.action, o.second.timeout, (int) o.third.action, o.third.timeout);
        nc++;
      }
}

/* one row of table (b) */
static void row_b(const int ti[3], const int m[3], int sh, int tail)
{
  int st = tail % 2, dl = (tail / 2) % 2, av = (tail / 4) % 3, frk = (tail / 12) % 2, inp = tail / 24;
  reproc_options o;
  memset(&o, 0, sizeof(o));
  o.working_directory = WD;
  o.env.behavior = REPROC_ENV_EMPTY;
  o.env.extra = ENVX;
  o.redirect.in = mk_redirect(0, ti[0], m[0]);
  o.redirect.out = mk_redirect(1, ti[1], m[1]);
  o.redirect.err = mk_redirect(2, ti[2], m[2]);
  o.redirect.parent = (sh & 1) != 0;
  o.redirect.discard = (sh & 2) != 0;
  o.redirect.file = (sh & 4) ? file_of(4) : NULL;
  o.redirect.path = (sh & 8) ? path_of(4) : NULL;
  if (st) {
    o.stop.first = (reproc_stop_action){ REPROC_STOP_TERMINATE, 100 };
    o.stop.second = (reproc_stop_action){ REPROC_STOP_NOOP, 50 };
    o.stop.third = (reproc_stop_action){ REPROC_STOP_KILL, 25 };
  } else {
    o.stop.first = (reproc_stop_action){ REPROC_STOP_NOOP, 11 };
    o.stop.second = (reproc_stop_action){ REPROC_STOP_NOOP, 22 };
    o.stop.third = (reproc_stop_action){ REPROC_STOP_NOOP, 33 };
  }
  o.deadline = dl ? DL : 0;
  o.input.data = (inp == 1 || inp == 2) ? INPUT : NULL;
  o.input.size = (inp == 1 || inp == 3) ? 3 : 0;
  o.fork = frk != 0;
  o.nonblocking = true;
  const char *const *argv = av == 0 ? NULL : av == 1 ? ARGV_EMPTY : ARGV_OK;

  reproc_options b = o; /* before */
  int rc = parse_options(&o, argv);

  printf("B %d %d %d %d %d %d %d %d %d %d %d %d : %d", ti[0], m[0], ti[1], m[1], ti[2], m[2], sh, inp, frk,
         av, dl, st, rc);
  if (rc >= 0) {
    int u = o.working_directory == b.working_directory && o.env.behavior == b.env.behavior &&
            o.env.extra == b.env.extra && o.redirect.parent == b.redirect.parent &&
            o.redirect.discard == b.redirect.discard && o.redirect.file == b.redirect.file &&
            o.redirect.path == b.redirect.path && o.input.data == b.input.data &&
            o.input.size == b.input.size && o.fork == b.fork && o.nonblocking == b.nonblocking;
    const reproc_redirect *rs[3] = { &o.redirect.in, &o.redirect.out, &o.redirect.err };
    for (int s = 0; s < 3; s++)
      printf(" %d %d %d %d", (int) rs[s]->type, (int) (intptr_t) rs[s]->handle, file_id(rs[s]->file),
             path_id(rs[s]->path));
    printf(" %d %d %d %d %d %d %d %d", o.deadline, (int) o.stop.first.action, o.stop.first.timeout,
           (int) o.stop.second.action, o.stop.second.timeout, (int) o.stop.third.action,
           o.stop.third.timeout, u);
  }
  putchar('\n');
  nb++;
}

/* The per-stream behaviour classes used by the restricted cross product: every
   configuration that can be accepted (14) and one representative of each way of being
   rejected (8).  Table (a) and the thorough tier cover all 88 configurations. */
static const int CLS[][2] = {
  { 1, 0 }, { 2, 0 }, { 3, 0 }, { 4, 0 }, { 5, 0 },           /* DEFAULT PIPE PARENT DISCARD STDOUT */
  { 6, 1 }, { 1, 1 }, { 7, 2 }, { 1, 2 }, { 8, 4 }, { 1, 4 }, /* HANDLE/FILE/PATH with member, member alone */
  { 0, 0 }, { 9, 0 }, { 10, 0 },                               /* bare out-of-range types */
  { 6, 0 }, { 7, 0 }, { 8, 0 },                                /* type lacks its member */
  { 1, 3 }, { 2, 1 }, { 6, 2 }, { 9, 4 }, { 1, 7 }             /* two targets */
};
#define NCLS ((int) (sizeof(CLS) / sizeof(CLS[0])))

int main(int argc, char **argv)
{
  if (argc != 5) {
    fprintf(stderr, "usage: c13_unit <quick|thorough> <seed> <shard> <nshards>\n");
    return 2;
  }
  int thorough = strcmp(argv[1], "thorough") == 0;
  uint64_t seed = strtoull(argv[2], NULL, 10);
  long shard = atol(argv[3]), nshards = atol(argv[4]);

  /* seed-derived concrete values; by C13_validation_pure they cannot matter */
  TYPES[10] = 9 + (int) (mix(seed) % 1000000);
  TYPES[0] = -1 - (int) (mix(seed + 1) % 3);
  for (int i = 0; i < 4; i++) {
    int v = (int) (mix(seed + 2 + (uint64_t) i) % 2000) - 1000;
    HSET[i] = v == 0 ? -1 : v;
  }
  DL = 1 + (int) (mix(seed + 7) % 100000);
  static char buf[1 << 20];
  setvbuf(stdout, buf, _IOFBF, sizeof(buf));
  printf("V %d %d %d %d %d %d %d\n", TYPES[0], TYPES[10], HSET[0], HSET[1], HSET[2], HSET[3], DL);

  if (shard == 0) {
    table_a();
    table_c();
  }

  long combo = 0;
  int ti[3], m[3];

  /* (b1) both tiers: restricted classes ^3 x 16 shorthand masks x all 96 tails */
  for (int c0 = 0; c0 < NCLS; c0++)
    for (int c1 = 0; c1 < NCLS; c1++)
      for (int c2 = 0; c2 < NCLS; c2++)
        for (int sh = 0; sh < 16; sh++, combo++) {
          if (combo % nshards != shard) continue;
          ti[0] = CLS[c0][0]; m[0] = CLS[c0][1];
          ti[1] = CLS[c1][0]; m[1] = CLS[c1][1];
          ti[2] = CLS[c2][0]; m[2] = CLS[c2][1];
          for (int tail = 0; tail < 96; tail++) row_b(ti, m, sh, tail);
        }

  /* (b2) thorough only: ALL 88^3 stream configurations x 16 shorthand masks x the 4 input
     forms x 4 seed-chosen (fork, argv, deadline, stop) combinations out of 24 */
  if (thorough)
    for (int a = 0; a < 88; a++)
      for (int b = 0; b < 88; b++)
        for (int c = 0; c < 88; c++)
          for (int sh = 0; sh < 16; sh++, combo++) {
            if (combo % nshards != shard) continue;
            ti[0] = a / 8; m[0] = a % 8; ti[1] = b / 8; m[1] = b % 8; ti[2] = c / 8; m[2] = c % 8;
            int base = (int) (mix(seed ^ mix((uint64_t) combo)) % 24);
            for (int k = 0; k < 4; k++)
              for (int inp = 0; inp < 4; inp++) row_b(ti, m, sh, inp * 24 + (base + 6 * k) % 24);
          }

  printf("E %ld %ld %ld\n", na, nb, nc);
  return 0;
}
