#!/usr/bin/env python3
"""c13_merge.py — merge the per-shard partial results of the C13 tie into the protocol JSON.
usage: c13_merge.py <tier> <seed> <out.json> <nshards> <partsdir> <repo> [--build-failure <text>]"""
import json, os, sys

tier, seed, out, nshards, parts, repo = sys.argv[1], int(sys.argv[2]), sys.argv[3], int(sys.argv[4]), sys.argv[5], sys.argv[6]
NCLS, NT = 22, 11
A = 3 * NT * 8 * 16
C = 64
B = NCLS ** 3 * 16 * 96
if tier == "thorough":
    B += (NT * 8) ** 3 * 16 * 4 * 4
RULE = ("(a) parse_redirect: 3 streams x 11 type values (-k, 0..8, one large) x handle/file/path set/unset x 16 "
        "shorthand masks, all %d; (c) parse_stop_actions: 4^3 action triples; (b) parse_options: " % A +
        "22 per-stream behaviour classes (every acceptable configuration + one per way of being rejected) ^3 x 16 "
        "shorthand masks x all 96 tails (4 input forms x fork x 3 argv forms x deadline 0/n x stop all-noop/other)" +
        (", plus ALL 88^3 stream configurations x 16 masks x 4 input forms x 4 seed-chosen (fork,argv,deadline,stop)"
         if tier == "thorough" else "") +
        ". Concrete handle/out-of-range/deadline values derive from the seed. distinct = distinct spec signatures "
        "(valid: effective types, shorthand mask, member masks, input/fork/deadline/stop form; invalid: the exact set "
        "of violated documented clauses); every case but the all-default one is non-trivial.")

res = {"tie": "C13", "evaluations": 0, "distinct_nontrivial": 0, "rule": RULE, "exhaustive": False,
       "samples": [], "distribution": {}, "failures": []}

def finish():
    with open(out, "w") as f:
        json.dump(res, f, indent=1)
    sys.exit(0)

if "--build-failure" in sys.argv:
    text = sys.argv[sys.argv.index("--build-failure") + 1]
    res["failures"].append({"kind": "build", "key": "C13/build/harness",
                            "what": "the C13 harness could not be built or run against %s" % repo,
                            "replay": {"repo": repo, "log": text[-4000:]}})
    finish()

na = nb = nc = 0
sigs, dist, fails, values = {}, {}, {}, None
missing = []
for k in range(nshards):
    p = os.path.join(parts, "part_%d.json" % k)
    try:
        with open(p) as f:
            d = json.load(f)
    except Exception as e:  # a shard died: the correspondence is unavailable
        missing.append("%s: %s" % (p, e))
        continue
    na += d["na"]; nb += d["nb"]; nc += d["nc"]
    values = d["values"]
    for key, c in d["signatures"].items():
        sigs[key] = sigs.get(key, 0) + c
    for key, c in d["distribution"].items():
        dist[key] = dist.get(key, 0) + c
    if len(res["samples"]) < 8:
        res["samples"].extend(d["samples"][:2])
    for fl in d["failures"]:
        if fl["key"] in fails:
            fails[fl["key"]]["count"] += fl["count"]
        else:
            fails[fl["key"]] = fl

if missing:
    logs = ""
    for k in range(nshards):
        lp = os.path.join(parts, "log_%d.txt" % k)
        if os.path.exists(lp):
            logs += open(lp).read()[-600:]
    res["failures"].append({"kind": "build", "key": "C13/build/harness",
                            "what": "a shard of the C13 harness failed against %s" % repo,
                            "replay": {"repo": repo, "missing": missing, "log": logs[-4000:]}})
    finish()

res["evaluations"] = na + nb + nc
res["exhaustive"] = (na, nb, nc) == (A, B, C)
res["distinct_nontrivial"] = len(sigs)
dist["rows/a"] = na; dist["rows/b"] = nb; dist["rows/c"] = nc
dist["expected/a"] = A; dist["expected/b"] = B; dist["expected/c"] = C
dist["seed-values"] = values
res["distribution"] = dict(sorted(dist.items(), key=lambda kv: kv[0]))
for key in sorted(fails):
    fl = fails[key]
    res["failures"].append({"kind": fl["kind"], "key": fl["key"],
                            "what": "%s [%d cases]" % (fl["what"], fl["count"]),
                            "count": fl["count"], "replay": fl["replay"]})
if not res["exhaustive"]:
    res["failures"].append({"kind": "build", "key": "C13/build/row-count",
                            "what": "the enumeration is incomplete: rows %s, expected %s" % ((na, nb, nc), (A, B, C)),
                            "replay": {"rows": [na, nb, nc], "expected": [A, B, C]}})
finish()
