/* c16_unit.c — drives the real string sink (drain.c, reached through reproc_sink_string) over
   seeded cases with scripted realloc failures; prints one case per line:
     <cur hex or ->|<chunk hex>|<alloc_ok>|<r>|<new block hex or ->|<oob 0/1>
   drain.c is compiled with -Drealloc=hook_realloc so the sink's allocation goes through the hook. */
#include <stdint.h>
#include <stdio.h>
#include <stdlib.h>
#include <string.h>

static int fail_next = 0;
static size_t last_size = 0;
static int oob = 0;
#define CAN 16
void *hook_realloc(void *p, size_t n);
#undef realloc
void *hook_realloc(void *p, size_t n)
{
  if (fail_next) { fail_next = 0; return NULL; }
  /* the application's string was allocated by hook_alloc (same layout) */
  unsigned char *q = realloc(p, n + CAN);
  memset(q + n, 0xA5, CAN);
  last_size = n;
  return q;
}
static unsigned char *hook_alloc(const unsigned char *bytes, size_t n)
{
  unsigned char *q = malloc(n + CAN);
  memcpy(q, bytes, n); memset(q + n, 0xA5, CAN); last_size = n;
  return q;
}
static void check_canary(const unsigned char *q, size_t n)
{
  for (int i = 0; i < CAN; i++) if (q[n + i] != 0xA5) oob = 1;
}

#include <reproc/drain.h>
/* reproc_drain's callees are not needed here */
const int REPROC_INFINITE = -1;
const int REPROC_DEADLINE = -2;
int reproc_poll(reproc_event_source *s, size_t n, int t) { (void) s; (void) n; (void) t; return -1; }
int reproc_read(reproc_t *p, REPROC_STREAM s, uint8_t *b, size_t n) { (void) p; (void) s; (void) b; (void) n; return -1; }

static unsigned long long st;
static unsigned rnd(unsigned n) { st = st * 6364136223846793005ULL + 1442695040888963407ULL; return (unsigned) ((st >> 33) % n); }
static void hex(const unsigned char *b, size_t n) { if (n == 0) printf("e"); for (size_t i = 0; i < n; i++) printf("%02x", b[i]); }

int main(int argc, char **argv)
{
  st = argc > 1 ? strtoull(argv[1], NULL, 10) : 1;
  int cases = argc > 2 ? atoi(argv[2]) : 600;
  for (int c = 0; c < cases; c++) {
    /* a short history: 1-4 calls on the same string, printing each call */
    char *str = NULL; size_t cur_alloc = 0;
    int kind = rnd(4);
    if (kind >= 1) {
      unsigned char tmp[40]; size_t n = kind == 1 ? 0 : rnd(12);
      for (size_t i = 0; i < n; i++) tmp[i] = (unsigned char) (1 + rnd(255));
      tmp[n] = 0;
      if (kind == 3 && n > 2) { /* a block larger than its string */ tmp[n + 1] = 7; tmp[n + 2] = 0; str = (char *) hook_alloc(tmp, n + 3); cur_alloc = n + 3; }
      else { str = (char *) hook_alloc(tmp, n + 1); cur_alloc = n + 1; }
    }
    char *before = str;
    reproc_sink sink = reproc_sink_string(&str);
    if (str != before) {
      /* making the sink must not touch the caller's string (it is appended to, drain.h) */
      fprintf(stderr, "constructor changed the string pointer\n");
      return 3;
    }
    int calls = 1 + rnd(4);
    for (int k = 0; k < calls; k++) {
      unsigned char chunk[64]; size_t n = rnd(5) == 0 ? 0 : rnd(40);
      for (size_t i = 0; i < n; i++) chunk[i] = (unsigned char) (rnd(12) == 0 ? 0 : 1 + rnd(255));
      int ok = rnd(4) != 0;
      if (str == NULL) printf("-"); else hex((unsigned char *) str, cur_alloc);
      printf("|"); hex(chunk, n); printf("|%d|", ok);
      fail_next = !ok; oob = 0;
      int r = sink.function(REPROC_STREAM_OUT, chunk, n, sink.context);
      if (r == 0) cur_alloc = last_size;
      if (str != NULL) check_canary((unsigned char *) str, cur_alloc);
      printf("%d|", r);
      if (str == NULL) printf("-"); else hex((unsigned char *) str, cur_alloc);
      printf("|%d\n", oob);
    }
    free(str);
  }
  return 0;
}
