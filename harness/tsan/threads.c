/* threads.c — C20 search harness (real kernel, real threads, ThreadSanitizer build of the library):
   (a) a reader thread and a writer thread on the same child;
   (b) N threads each running complete start / communicate / wait / destroy cycles on their own child,
       checking that each child sees end-of-file when ITS stdin is closed and that each handle reports
       ITS child's output and exit status (no cross-talk);
   (c) error strings requested from several threads at once stay the caller's own.
   Prints "C20-FAIL <key> <what>" lines; exit 0 always (ThreadSanitizer prints its own reports). */
#define _GNU_SOURCE
#include <errno.h>
#include <pthread.h>
#include <signal.h>
#include <stdio.h>
#include <stdlib.h>
#include <string.h>
#include <reproc/reproc.h>

#define NTHREADS 6
#define ROUNDS 4

static void failf(const char *key, const char *what) { printf("C20-FAIL %s %s\n", key, what); fflush(stdout); }

static void *cycle(void *arg)
{
  long id = (long) arg;
  for (int round = 0; round < ROUNDS; round++) {
    reproc_t *p = reproc_new();
    if (!p) { failf("setup", "reproc_new"); return NULL; }
    char code[16]; snprintf(code, sizeof code, "%ld", 10 + id);
    char script[128]; snprintf(script, sizeof script, "cat; echo tag-%ld; exit %ld", id, 10 + id);
    const char *argv[] = { "/bin/sh", "-c", script, NULL };
    reproc_options o = { 0 };
    o.redirect.err.type = REPROC_REDIRECT_DISCARD;
    int r = reproc_start(p, argv, o);
    if (r < 0) { failf("setup", reproc_strerror(r)); reproc_destroy(p); return NULL; }
    char msg[64]; int n = snprintf(msg, sizeof msg, "hello-from-%ld-%d\n", id, round);
    int off = 0;
    while (off < n) { r = reproc_write(p, (uint8_t *) msg + off, (size_t) (n - off)); if (r < 0) break; off += r; }
    reproc_close(p, REPROC_STREAM_IN);            /* the child must now see end-of-file */
    char out[256]; size_t len = 0;
    for (;;) {
      uint8_t buf[64];
      r = reproc_read(p, REPROC_STREAM_OUT, buf, sizeof buf);
      if (r < 0) break;
      if (len + (size_t) r < sizeof out) { memcpy(out + len, buf, (size_t) r); len += (size_t) r; }
    }
    out[len] = 0;
    char want[256]; snprintf(want, sizeof want, "hello-from-%ld-%d\ntag-%ld\n", id, round, id);
    if (strcmp(out, want) != 0) failf("crosstalk/output", out);
    r = reproc_wait(p, 20000);
    if (r != 10 + id) { char b[64]; snprintf(b, sizeof b, "status %d, expected %ld", r, 10 + id); failf("crosstalk/status-or-eof", b); }
    reproc_destroy(p);
  }
  return NULL;
}

struct rw { reproc_t *p; };
static void *writer(void *arg)
{
  struct rw *x = arg;
  uint8_t buf[1000]; memset(buf, 'x', sizeof buf);
  for (int i = 0; i < 200; i++) { int off = 0; while (off < (int) sizeof buf) { int r = reproc_write(x->p, buf + off, sizeof buf - (size_t) off); if (r < 0) return NULL; off += r; } }
  reproc_close(x->p, REPROC_STREAM_IN);
  return NULL;
}
static void *reader(void *arg)
{
  struct rw *x = arg; long total = 0;
  for (;;) { uint8_t buf[4096]; int r = reproc_read(x->p, REPROC_STREAM_OUT, buf, sizeof buf); if (r < 0) break; total += r; }
  if (total != 200000) { char b[64]; snprintf(b, sizeof b, "read %ld of 200000 bytes", total); failf("reader-writer/bytes", b); }
  return NULL;
}

static void *strerr(void *arg)
{
  long id = (long) arg;
  int codes[] = { REPROC_EINVAL, REPROC_EPIPE, REPROC_ETIMEDOUT, REPROC_ENOMEM };
  for (int i = 0; i < 2000; i++) {
    int c = codes[(id + i) % 4];
    const char *s = reproc_strerror(c);
    char copy[256]; strncpy(copy, s, sizeof copy - 1); copy[sizeof copy - 1] = 0;
    const char *t = strerror(-c);
    if (strcmp(copy, t) != 0 && strcmp(s, t) != 0) { failf("error-string/shared-buffer", copy); return NULL; }
  }
  return NULL;
}

int main(void)
{
  signal(SIGPIPE, SIG_IGN);
  pthread_t th[NTHREADS];
  for (long i = 0; i < NTHREADS; i++) pthread_create(&th[i], NULL, cycle, (void *) i);
  for (int i = 0; i < NTHREADS; i++) pthread_join(th[i], NULL);
  {
    reproc_t *p = reproc_new();
    const char *argv[] = { "/bin/cat", NULL };
    reproc_options o = { 0 };
    if (reproc_start(p, argv, o) >= 0) {
      struct rw x = { p }; pthread_t a, b;
      pthread_create(&a, NULL, writer, &x); pthread_create(&b, NULL, reader, &x);
      pthread_join(a, NULL); pthread_join(b, NULL);
      int r = reproc_wait(p, 20000);
      if (r != 0) failf("reader-writer/status", "cat did not exit 0");
    } else failf("setup", "start cat");
    reproc_destroy(p);
  }
  for (long i = 0; i < 4; i++) pthread_create(&th[i], NULL, strerr, (void *) i);
  for (int i = 0; i < 4; i++) pthread_join(th[i], NULL);
  printf("C20-DONE\n");
  return 0;
}
