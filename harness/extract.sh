#!/bin/bash
# extract.sh — (re)extract the Coq model to OCaml when the model's .vo files are newer
set -e
cd /verif/coq
mkdir -p /verif/_build/extract
if [ ! -f /verif/_build/extract/model.ml ] || [ -n "$(find . -name '*.vo' -newer /verif/_build/extract/model.ml | head -1)" ] || [ Extract.v -nt /verif/_build/extract/model.ml ]; then
  timeout 600 coqc -Q . Verif Extract.v > /verif/_build/extract/extract.log 2>&1 || { cat /verif/_build/extract/extract.log; exit 1; }
  rm -f Extract.vo Extract.vok Extract.vos Extract.glob .Extract.aux
fi
