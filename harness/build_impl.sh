#!/bin/bash
# build_impl.sh <repo> <outdir> [extra cflags...] — compile reproc's POSIX sources from <repo>
# with the baseline flags, check the undefined-symbol surface, redirect libc into sim_*.
set -e
REPO=${1:-/repo}; OUT=${2:-/verif/_build/impl}; shift 2 || true
EXTRA="$@"
mkdir -p "$OUT"
SRC="reproc options redirect redirect.posix pipe.posix handle.posix process.posix strv drain run clock.posix error.posix init.posix utf.posix"
FLAGS="-O2 -g -DNDEBUG -std=c99 -DREPROC_MULTITHREADED -fno-builtin-malloc -fno-builtin-free -fno-builtin-calloc -fno-builtin-realloc -fno-builtin-strdup -Wno-error"
REDIRECT="pipe fcntl close dup2 dup wait waitid read write poll open fileno fork execvp _exit waitpid kill chdir getcwd getrlimit sigfillset sigemptyset sigaction pthread_sigmask sigprocmask clock_gettime malloc calloc realloc free strdup environ stdin stdout stderr"
ALLOW="strlen memcpy strchr strcpy memset abs __xpg_strerror_r strerror_r __errno_location memmove strcmp __stack_chk_fail _GLOBAL_OFFSET_TABLE_"
ARGS=""
for s in $REDIRECT; do ARGS="$ARGS --redefine-sym $s=sim_$s"; done
rm -f "$OUT"/*.o "$OUT"/cc.err
echo $SRC | tr ' ' '\n' | xargs -P 14 -I{} sh -c "gcc $FLAGS $EXTRA -I'$REPO/reproc/include' -I'$REPO/reproc/src' -c '$REPO/reproc/src/{}.c' -o '$OUT/{}.raw.o' 2>>'$OUT/cc.err' || echo FAILED {} >> '$OUT/cc.err'"
if grep -q FAILED "$OUT/cc.err" 2>/dev/null; then echo "COMPILE-FAILED:"; grep -v "^$" "$OUT/cc.err" | head -20; exit 4; fi
OBJS=""; RAW=""
for f in $SRC; do OBJS="$OBJS $OUT/$f.o"; RAW="$RAW $OUT/$f.raw.o"; done
# every undefined symbol must be reproc's own, redirected, or an allowed pure helper
nm --defined-only $RAW | awk 'NF==3{print $3}' | sort -u > "$OUT/defined.txt"
BAD=$(nm -u $RAW | awk 'NF==2{print $2}' | sort -u | grep -vxF -f "$OUT/defined.txt" | grep -vxF -f <(echo $REDIRECT $ALLOW | tr ' ' '\n') | grep -v '^__asan\|^__ubsan\|^__sanitizer\|^__gcov\|^__llvm' || true)
if [ -n "$BAD" ]; then echo "UNSIMULATED-SYMBOLS: $BAD"; exit 3; fi
for f in $SRC; do objcopy $ARGS "$OUT/$f.raw.o" "$OUT/$f.o"; done
echo "$OBJS" > "$OUT/objs.txt"
