#!/bin/bash
# gen.sh [repo] — the translator step: regenerate coq/gen/*_gen.v from the repo's CURRENT sources.
# A generated file is replaced only when its content changed (so make rebuilds exactly what depends on it).
# exit 0: ok; exit 2: a pattern no longer matches / the probe does not compile (message on stdout).
REPO=${1:-${REPO:-/repo}}
G=/verif/coq/gen; B=/verif/_build/gen; mkdir -p $G $B
fail=0
# constants, enums, sizes (probe compiled against the repo's sources)
if gcc -std=gnu99 -DNDEBUG -DREPROC_MULTITHREADED -w -I"$REPO/reproc/include" -I"$REPO/reproc/src" /verif/harness/translate/probe.c $(for f in options redirect redirect.posix pipe.posix handle.posix strv drain run clock.posix error.posix init.posix utf.posix; do echo "$REPO/reproc/src/$f.c"; done) -lpthread -o $B/probe 2> $B/probe.err \
   && $B/probe > $B/Consts_gen.v; then
  cmp -s $B/Consts_gen.v $G/Consts_gen.v || cp $B/Consts_gen.v $G/Consts_gen.v
else
  echo "TRANSLATOR-MISMATCH: probe.c does not compile against $REPO: $(head -3 $B/probe.err | tr '\n' ' ')"; fail=2
fi
# switch tables, keep lists, loop bounds (clang JSON AST)
if python3 /verif/harness/translate/gen_tables.py "$REPO" $B > $B/tables.out 2>&1; then
  cmp -s $B/Tables_gen.v $G/Tables_gen.v || cp $B/Tables_gen.v $G/Tables_gen.v
else
  cat $B/tables.out; fail=2
fi
# C++ wrapper tables
if [ -f /verif/harness/translate/gen_cpp.py ]; then
  if python3 /verif/harness/translate/gen_cpp.py "$REPO" $B > $B/cpp.out 2>&1; then
    cmp -s $B/Cpp_gen.v $G/Cpp_gen.v || cp $B/Cpp_gen.v $G/Cpp_gen.v
  else
    cat $B/cpp.out; fail=2
  fi
fi
exit $fail
