#!/bin/bash
# C13.sh — tie runner for property C13 (option validation); see harness/PROTOCOL.md.
#   REPO=/repo harness/ties/C13.sh <quick|thorough> <seed> <out.json>
# Builds, from $REPO's working tree, harness/unit/c13_unit.c (which #includes the real
# reproc/src/options.c) and, from coq/LibPure.v + coq/OptSpec.v, the extracted model/spec
# checker harness/unit/c13_check.ml; runs them on the same exhaustively enumerated inputs in
# parallel shards; merges into <out.json>.  Build output: /verif/_build/C13/.
set -u
TIER=${1:-quick}; SEED=${2:-1}; OUT=${3:-/verif/_build/C13/out.json}
REPO=${REPO:-/repo}
V=/verif; U=$V/harness/unit; B=$V/_build/C13
case "$OUT" in /*) ;; *) OUT="$PWD/$OUT";; esac
N=$(nproc 2>/dev/null || echo 4); [ "$N" -gt 16 ] && N=16
mkdir -p "$B/parts" || exit 2
rm -f "$B"/parts/part_*.json "$B"/parts/log_*.txt "$B/build.log"

build_failure() {  # the harness cannot be built/run against $REPO
  python3 "$U/c13_merge.py" "$TIER" "$SEED" "$OUT" "$N" "$B/parts" "$REPO" --build-failure "$(cat "$B/build.log" 2>/dev/null)"
  exit $?
}
internal_error() { echo "C13.sh: internal error: $1" >&2; cat "$B/build.log" >&2; exit 2; }

# 1. model + spec: compiled Coq (only what is stale), extraction, OCaml checker
cd "$V/coq" || exit 2
stale() { [ ! -f "$1.vo" ] || [ "$1.v" -nt "$1.vo" ] || { [ -n "${2:-}" ] && [ "$2.vo" -nt "$1.vo" ]; }; }
if stale LibPure gen/Consts_gen; then
  { [ -f Makefile.coq ] || coq_makefile -f _CoqProject -o Makefile.coq; } >>"$B/build.log" 2>&1
  timeout 900 make -f Makefile.coq LibPure.vo >>"$B/build.log" 2>&1 || internal_error "LibPure.vo"
fi
if stale OptSpec LibPure; then
  timeout 300 coqc -Q . Verif OptSpec.v >>"$B/build.log" 2>&1 || internal_error "OptSpec.vo"
fi
cd "$B" || exit 2
cp "$V/coq/ExtractC13.v" "$U/c13_check.ml" . || exit 2
timeout 300 coqc -Q "$V/coq" Verif ExtractC13.v >>build.log 2>&1 || internal_error "extraction"
timeout 300 ocamlfind ocamlopt -w -a -O3 -inline 200 c13_model.mli c13_model.ml c13_check.ml -o c13_check >>build.log 2>&1 \
  || internal_error "ocamlopt"

# 2. implementation: the real sources of $REPO with the baseline flags
S="$REPO/reproc/src"
[ -f "$S/options.c" ] || { echo "no $S/options.c" >>build.log; build_failure; }
SRCS=""; for f in reproc redirect redirect.posix pipe.posix handle.posix process.posix strv drain run clock.posix error.posix init.posix utf.posix; do SRCS="$SRCS $S/$f.c"; done
timeout 300 gcc -O2 -g -DNDEBUG -std=c99 -DREPROC_MULTITHREADED -I"$REPO/reproc/include" -I"$S" \
  -DOPTIONS_C="\"$S/options.c\"" "$U/c13_unit.c" $SRCS -lpthread -o c13_unit >>build.log 2>&1 || build_failure

# 3. run the shards
set -o pipefail
for k in $(seq 0 $((N - 1))); do
  ( timeout 600 ./c13_unit "$TIER" "$SEED" "$k" "$N" | timeout 600 ./c13_check "parts/part_$k.json.tmp" \
      && mv "parts/part_$k.json.tmp" "parts/part_$k.json" ) >"parts/log_$k.txt" 2>&1 &
done
wait

# 4. merge (a missing part is reported as kind=build)
python3 "$U/c13_merge.py" "$TIER" "$SEED" "$OUT" "$N" "$B/parts" "$REPO"
