#!/bin/bash
# C16 side tie: the real string sink (drain.c) against the Coq model LibPure.sink_string
# (evaluated inside Coq with vm_compute) and against the property's own oracle.  See harness/PROTOCOL.md.
TIER=${1:-quick}; SEED=${2:-1}; OUT=${3:-/verif/_build/tie-C16-side.json}
REPO=${REPO:-/repo}; B=/verif/_build/c16; mkdir -p $B
exec python3 - "$TIER" "$SEED" "$OUT" "$REPO" "$B" <<'PY'
import sys, subprocess, json, time, os
tier, seed, out, repo, B = sys.argv[1:6]
t0 = time.time()
fails = []
def done(evals=0, distinct=0, samples=None, dist=None):
    json.dump({"tie": "C16-string-sink-unit", "evaluations": evals, "distinct_nontrivial": distinct,
               "rule": "seeded histories of 1-4 calls of the real sink_string (through reproc_sink_string) on NULL / empty / non-empty / over-allocated strings with random chunks (NUL bytes included) and scripted realloc failures; every call is compared with the Coq model LibPure.sink_string evaluated by vm_compute and with the oracle 'string = old ++ chunk, NUL-terminated, exact size; ENOMEM leaves it untouched'; distinct = distinct (old, chunk, ok) triples; non-trivial = chunk or old string non-empty",
               "exhaustive": False, "samples": samples or [], "distribution": dist or {}, "failures": fails, "wall_s": round(time.time() - t0, 1)}, open(out, "w"))
    sys.exit(0)
cc = ["gcc", "-std=gnu99", "-O1", "-g", "-w", "-DNDEBUG", "-Drealloc=hook_realloc", "-I%s/reproc/include" % repo, "-I%s/reproc/src" % repo,
      "/verif/harness/unit/c16_unit.c", "%s/reproc/src/drain.c" % repo, "%s/reproc/src/error.posix.c" % repo, "-o", B + "/c16_unit"]
r = subprocess.run(cc, capture_output=True, text=True)
if r.returncode != 0:
    fails.append({"kind": "build", "key": "C16/build/unit", "what": "the string-sink harness does not build against the sources: " + r.stderr[-300:], "replay": {"cmd": " ".join(cc)}})
    done()
n = 400 if tier == "quick" else 4000
r = subprocess.run([B + "/c16_unit", str(int(seed) * 7919 + 13), str(n)], capture_output=True, text=True, timeout=120)
lines = [l for l in r.stdout.splitlines() if l.count("|") == 5]
if r.returncode == 3:
    fails.append({"kind": "monitor", "key": "C16/string-sink/constructor-touches-string", "what": "reproc_sink_string changed the caller's string when the sink was made (a non-empty string must be appended to)", "replay": {"stderr": r.stderr[-300:], "seed": seed}})
    done()
if r.returncode != 0 or not lines:
    fails.append({"kind": "monitor", "key": "C16/string-sink/crash", "what": "the string sink crashed (exit %s)" % r.returncode, "replay": {"stderr": r.stderr[-500:]}})
    done()
def unhex(h):
    if h == "-": return None
    if h == "e": return []
    return [int(h[i:i + 2], 16) for i in range(0, len(h), 2)]
def cstr(b):
    return b[:b.index(0)] if 0 in b else b
cases = []
for l in lines:
    cur, chunk, ok, rr, new, oob = l.split("|")
    cases.append((unhex(cur), unhex(chunk), ok == "1", int(rr), unhex(new), oob == "1"))
# ---- monitor (independent of the model) ----
def key_fail(key, what, c):
    if not any(f["key"] == key for f in fails):
        fails.append({"kind": "monitor", "key": key, "what": what, "replay": {"old_block": c[0], "chunk": c[1], "realloc_succeeds": c[2], "returned": c[3], "new_block": c[4]}})
for c in cases:
    cur, chunk, ok, rr, new, oob = c
    old = cstr(cur) if cur is not None else []
    if oob: key_fail("C16/string-sink/oob-store", "the string sink wrote past the end of its block", c)
    if ok:
        if rr != 0: key_fail("C16/string-sink/result", "realloc succeeded but the sink returned %d" % rr, c)
        elif new != old + chunk + [0]: key_fail("C16/string-sink/content", "string is not old ++ chunk ++ NUL with exact size", c)
    else:
        if rr != -12: key_fail("C16/string-sink/result", "allocation failed but the sink returned %d" % rr, c)
        if new != cur: key_fail("C16/string-sink/enomem-clobbers", "allocation failed and the accumulated string was not left untouched", c)
# ---- model (Coq, vm_compute) ----
def zl(b): return "[" + "; ".join(str(x) for x in b) + "]"
def opt(b): return "None" if b is None else "(Some %s)" % zl(b)
v = ["From Verif Require Import LibPure.", "From Coq Require Import ZArith List Bool.", "Import ListNotations.", "Local Open Scope Z_scope.",
     "Definition leq (a b : list Z) := if list_eq_dec Z.eq_dec a b then true else false.",
     "Definition oeq (a b : option (list Z)) := match a, b with None, None => true | Some x, Some y => leq x y | _, _ => false end.",
     "Definition cases : list (option (list Z) * list Z * bool * Z * option (list Z)) := ["]
v.append(";\n".join("(%s, %s, %s, (%d), %s)" % (opt(c[0]), zl(c[1]), "true" if c[2] else "false", c[3], opt(c[4])) for c in cases))
v.append("].")
v.append("Definition agree (c : option (list Z) * list Z * bool * Z * option (list Z)) := let '(cur, ch, ok, r, nw) := c in let '(r', nw') := sink_string cur ch ok in (r =? r') && oeq nw nw'.")
v.append("Definition bad := filter (fun ic => negb (agree (snd ic))) (combine (seq 0 (length cases)) cases).")
v.append("Eval vm_compute in (map fst bad).")
open(B + "/cases.v", "w").write("\n".join(v) + "\n")
r = subprocess.run("cd %s && timeout 300 coqc -Q /verif/coq Verif cases.v" % B, shell=True, capture_output=True, text=True)
if r.returncode != 0:
    fails.append({"kind": "build", "key": "C16/build/model", "what": "the Coq model could not be evaluated: " + (r.stdout + r.stderr)[-300:], "replay": {}})
    done(len(cases))
txt = r.stdout.replace("\n", " ")
import re
m = re.search(r"=\s*\[(.*?)\]", txt)
badidx = [int(x) for x in re.findall(r"\d+", m.group(1))] if m else []
if m is None:
    fails.append({"kind": "build", "key": "C16/build/model-output", "what": "unexpected coqc output: " + txt[-200:], "replay": {}})
for k in badidx[:1]:
    c = cases[k]
    if not any(f["kind"] == "monitor" for f in fails):
        fails.append({"kind": "diff", "key": "C16/diff/sink_string", "what": "model and implementation disagree on sink_string (%d cases)" % len(badidx),
                      "replay": {"old_block": c[0], "chunk": c[1], "realloc_succeeds": c[2], "impl_returned": c[3], "impl_new_block": c[4]}})
distinct = len({(str(c[0]), str(c[1]), c[2]) for c in cases if (c[1] or (c[0] and cstr(c[0])))})
done(len(cases), distinct, [{"old_block": c[0], "chunk": c[1], "realloc_succeeds": c[2], "returned": c[3], "new_block": c[4]} for c in cases[:3]],
     {"calls": len(cases), "realloc_failures": sum(1 for c in cases if not c[2]), "null_strings": sum(1 for c in cases if c[0] is None),
      "chunks_with_nul": sum(1 for c in cases if 0 in c[1]), "model_disagreements": len(badidx)})
PY
