#!/bin/bash
# C19.sh <tier: quick|thorough> <seed> <out.json> -- tie runner for property C19
# ("reproc++ is a faithful mapping of the C API"), see harness/PROTOCOL.md and coq/C19_NOTES.md.
# Rebuilds from $REPO (default /repo) under /verif/_build/c19/tie/ and writes <out.json>.
set -u
if [ $# -ne 3 ]; then echo "usage: REPO=/repo $0 <quick|thorough> <seed> <out.json>" >&2; exit 2; fi
HERE="$(cd "$(dirname "$0")" && pwd)"
export REPO="${REPO:-/repo}"
exec python3 "$HERE/../cpp/tie.py" "$1" "$2" "$3"
