#!/bin/bash
# C20 side tie: (1) static scan of the compiled POSIX library objects for writable, non-thread-local
# objects with static storage duration; (2) ThreadSanitizer build of the library + threaded driver on
# the real kernel (search for a failing schedule; never a theorem).  See harness/PROTOCOL.md.
TIER=${1:-quick}; SEED=${2:-1}; OUT=${3:-/verif/_build/tie-C20-side.json}
REPO=${REPO:-/repo}; B=/verif/_build/c20; mkdir -p $B
exec python3 - "$TIER" "$SEED" "$OUT" "$REPO" "$B" <<'PY'
import sys, subprocess, json, time, os, re
tier, seed, out, repo, B = sys.argv[1:6]
t0 = time.time(); fails = []; dist = {}; samples = []
SRC = "reproc options redirect redirect.posix pipe.posix handle.posix process.posix strv drain run clock.posix error.posix init.posix utf.posix".split()
FLAGS = "-O2 -g -DNDEBUG -std=c99 -DREPROC_MULTITHREADED -Wno-error".split()
inc = ["-I%s/reproc/include" % repo, "-I%s/reproc/src" % repo]
def add(kind, key, what, replay):
    if not any(f["key"] == key for f in fails):
        fails.append({"kind": kind, "key": key, "what": what, "replay": replay})
# ---- (1) globals scan ----
objs = []
for f in SRC:
    o = "%s/%s.o" % (B, f)
    r = subprocess.run(["gcc"] + FLAGS + inc + ["-c", "%s/reproc/src/%s.c" % (repo, f), "-o", o], capture_output=True, text=True)
    if r.returncode != 0:
        add("build", "C20/build/objects", "library source %s.c does not compile: %s" % (f, r.stderr[-200:]), {}); break
    objs.append((f, o))
nglob = 0; tls = []
for f, o in objs:
    secs = {}
    for l in subprocess.run(["readelf", "-SW", o], capture_output=True, text=True).stdout.splitlines():
        m = re.match(r"\s*\[\s*(\d+)\]\s+(\S+)\s+\S+\s+\S+\s+\S+\s+\S+\s+\S+\s+(\S*)", l)
        if m: secs[m.group(1)] = (m.group(2), m.group(3))
    for l in subprocess.run(["readelf", "-sW", o], capture_output=True, text=True).stdout.splitlines():
        p = l.split()
        if len(p) >= 8 and p[3] in ("OBJECT", "TLS") and p[6].isdigit():
            name, flags = secs.get(p[6], ("?", ""))
            nglob += 1
            if p[3] == "TLS" or "T" in flags:
                tls.append("%s:%s" % (f, p[7])); continue
            if "W" in flags and not name.startswith(".data.rel.ro"):
                add("monitor", "C20/shared-global:%s" % p[7].split(".")[0],
                    "writable object with static storage duration that is not thread-local: %s in %s.c (section %s)" % (p[7], f, name),
                    {"object": p[7], "file": f + ".c", "section": name, "size": p[2]})
dist["static_objects_seen"] = nglob; dist["thread_local_objects"] = tls
samples.append({"thread_local_objects": tls})
if not any(t.startswith("error.posix:string") for t in tls) and objs:
    add("monitor", "C20/shared-global:string", "the error-string buffer of error.posix.c is not thread-local storage", {"thread_local_objects": tls})
# ---- (2) ThreadSanitizer ----
runs = 1 if tier == "quick" else 6
tsan_ok = True
cmd = ["gcc", "-std=gnu99", "-O1", "-g", "-fsanitize=thread", "-DNDEBUG", "-DREPROC_MULTITHREADED", "-w"] + inc + \
      ["/verif/harness/tsan/threads.c"] + ["%s/reproc/src/%s.c" % (repo, f) for f in SRC] + ["-lpthread", "-o", B + "/threads"]
r = subprocess.run(cmd, capture_output=True, text=True)
if r.returncode != 0:
    add("build", "C20/build/tsan", "the ThreadSanitizer harness does not build against the sources: " + r.stderr[-300:], {})
else:
    races = 0; done_runs = 0
    for k in range(runs):
        env = dict(os.environ); env["TSAN_OPTIONS"] = "halt_on_error=0 report_signal_unsafe=0 exitcode=0"
        try:
            rr = subprocess.run([B + "/threads"], capture_output=True, text=True, timeout=120, env=env)
        except subprocess.TimeoutExpired:
            dist["tsan_timeout"] = True; break
        if "C20-DONE" not in rr.stdout and "FATAL: ThreadSanitizer" in rr.stderr:
            dist["tsan_unavailable"] = rr.stderr[:200]; tsan_ok = False; break
        done_runs += 1
        for l in rr.stdout.splitlines():
            if l.startswith("C20-FAIL "):
                _, key, what = l.split(" ", 2)
                if key == "setup": dist["setup_problem"] = what; continue
                add("monitor", "C20/" + key, what, {"harness": "harness/tsan/threads.c", "line": l})
        for m in re.finditer(r"WARNING: ThreadSanitizer: data race.*?(?=\n\n|\Z)", rr.stderr, re.S):
            rep = m.group(0)
            if "reproc" in rep:
                races += 1
                site = re.search(r"#0 (\w+) .*?/reproc/src/([\w.]+):(\d+)", rep)
                add("monitor", "C20/tsan-race:%s" % (site.group(1) if site else "unknown"), "ThreadSanitizer: data race inside the library", {"report": rep[:1500]})
    dist["tsan_runs"] = done_runs; dist["tsan_races_in_library"] = races
json.dump({"tie": "C20-globals-and-tsan", "evaluations": nglob + dist.get("tsan_runs", 0) * 30, "distinct_nontrivial": max(2, len(tls) + dist.get("tsan_runs", 0)),
           "rule": "static scan of every object with static storage duration in the 14 POSIX library objects (section flags: writable and not TLS = shared mutable global); ThreadSanitizer runs of harness/tsan/threads.c (6 threads x 4 full cycles on own children with per-child EOF/output/status checks, reader+writer on one child, 4 threads formatting error strings)",
           "exhaustive": False, "samples": samples, "distribution": dist, "failures": fails, "wall_s": round(time.time() - t0, 1)}, open(out, "w"))
PY
