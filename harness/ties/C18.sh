#!/bin/bash
# C18 tie runner (see harness/PROTOCOL.md):
#   REPO=/repo harness/ties/C18.sh <quick|thorough> <seed> <out.json>
# Rebuilds, from $REPO's working tree, the real Windows command-line / environment code on
# the stub <windows.h> (harness/win), extracts the Coq model coq/WinArgs.v (ExtrOcamlBasic
# only) and runs harness/win/c18_tie.py.  Build output: /verif/_build/c18/work.<pid>/.
set -u
TIER=${1:-quick}; SEED=${2:-1}; OUT=${3:-/verif/_build/c18/C18.$TIER.json}
REPO=${REPO:-/repo}
V=/verif; W=$V/harness/win; B=$V/_build/c18; WORK=$B/work.$$
mkdir -p "$WORK/model" || exit 2
trap 'rm -rf "$WORK"' EXIT
LOG=$WORK/build.log; : > "$LOG"

build_failure() { # <what>
  python3 - "$OUT" "$1" "$LOG" "$REPO" <<'PY'
import json, sys
out, what, log, repo = sys.argv[1:5]
json.dump({"tie": "C18", "repo": repo, "evaluations": 0, "distinct_nontrivial": 0, "rule": "", "exhaustive": False,
           "samples": [], "distribution": {},
           "failures": [{"kind": "build", "key": "C18/build", "what": what,
                         "replay": open(log, errors="replace").read()[-3000:]}]}, open(out, "w"), indent=1)
PY
  echo "C18: BUILD FAILURE: $1" >&2
  exit 0
}

CFLAGS="-std=c99 -D_GNU_SOURCE -D_WIN32 -DNDEBUG -g -fshort-wchar -fno-builtin -Wall -Wextra
        -I$W/include -I$W -I$REPO/reproc/src -I$REPO/reproc/include"
for f in process.windows.c utf.windows.c handle.windows.c; do
  [ -f "$REPO/reproc/src/$f" ] || build_failure "missing $REPO/reproc/src/$f"
done
(
  gcc $CFLAGS -O2 $W/c18_harness.c $W/win_stubs.c -o $WORK/c18_canary &
  gcc $CFLAGS -O1 -DC18_EXACT -fsanitize=address,undefined -fno-sanitize-recover=undefined \
      $W/c18_harness.c $W/win_stubs.c -o $WORK/c18_asan &
  wait
) >> "$LOG" 2>&1
[ -x $WORK/c18_canary ] && [ -x $WORK/c18_asan ] || build_failure "the C harness does not compile against $REPO"
# the harness hooks these static functions by name
for fn in argv_join env_setup process_start; do
  nm $WORK/c18_canary | grep -q " [tT] $fn\$" || build_failure "function $fn not found in $REPO/reproc/src/process.windows.c"
done

# the model: compile a private copy of WinArgs.v, extract, build the runner
(
  cd $WORK/model && cp $V/coq/WinArgs.v $V/coq/ExtractC18.v $W/c18_model.ml . &&
  timeout 300 coqc -Q . Verif WinArgs.v &&
  timeout 300 coqc -Q . Verif ExtractC18.v &&
  ocamlfind ocamlopt -w -a c18_extracted.mli c18_extracted.ml c18_model.ml -o $WORK/c18_model
) >> "$LOG" 2>&1
[ -x $WORK/c18_model ] || build_failure "the Coq model could not be extracted/built"

python3 $W/c18_tie.py "$TIER" "$SEED" "$OUT" "$WORK" "$REPO" 2>> "$LOG" || {
  tail -5 "$LOG" >&2; build_failure "c18_tie.py failed (internal error)"; }
exit 0
