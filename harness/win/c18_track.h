/* Allocation tracking and 16-bit wide-string helpers shared by the C18 harness
 * (c18_harness.c) and the Win32 stubs (win_stubs.c). */
#ifndef C18_TRACK_H
#define C18_TRACK_H
#include <stddef.h>
#include <wchar.h>

/* calloc/malloc/free as seen by the reproc sources (redirected by macros in
 * c18_harness.c).  Default build: every allocation sits between two 1024-byte canaries.
 * -DC18_EXACT (the ASan build): allocations are exactly the requested size so that the
 * sanitizer's red zones start at the first byte past the end. */
void *h_calloc(size_t nmemb, size_t size);
void *h_malloc(size_t size);
void h_free(void *p);

/* nmemb / element size of the live allocation starting at p ((size_t) -1 if unknown) */
size_t h_nmemb(const void *p);
size_t h_elsize(const void *p);
/* verify the canaries of all live allocations; returns h_oob */
int h_check_live(void);
extern int h_oob;        /* a canary was found damaged since the last reset */
extern int h_live;       /* number of live tracked allocations */
extern int h_fail_after; /* >= 0: the (h_fail_after+1)-th allocation from now fails */

/* wchar_t is 16 bits here (-fshort-wchar), glibc's wcs* are 32-bit: own versions. */
size_t h_wcslen(const wchar_t *s);
wchar_t *h_wcschr(const wchar_t *s, wchar_t c);
wchar_t *h_wcscpy(wchar_t *dest, const wchar_t *src);

/* recording stubs: configuration and records */
void stub_set_parent_env(const wchar_t *block, size_t units); /* what GetEnvironmentStringsW returns */
extern wchar_t *rec_cmdline;  /* copy of CreateProcessW's command line (with NUL) */
extern size_t rec_cmdline_units;
extern wchar_t *rec_env;      /* copy of CreateProcessW's environment allocation */
extern size_t rec_env_units;
extern int rec_create_calls;
void stub_reset_records(void);
#endif
