/* Stub <windows.h> for the C18 harness: just enough of the Win32 surface to compile
 * reproc's process.windows.c, utf.windows.c and handle.windows.c UNCHANGED on Linux
 * (gcc -D_WIN32 -DNDEBUG -fshort-wchar -I<this dir>).
 * Every function declared here is a recording stub defined in ../win_stubs.c.
 * Nothing in this file is verified; it is part of C18's trusted base. */
#ifndef VERIF_STUB_WINDOWS_H
#define VERIF_STUB_WINDOWS_H

/* The real <windows.h> drags these in; process.windows.c relies on that
 * (strlen/strcpy/memset/memcpy, wcslen/wcschr/wcscpy, INT_MAX). */
#include <limits.h>
#include <stdbool.h>
#include <stddef.h>
#include <stdint.h>
#include <string.h>
#include <wchar.h>

typedef void *HANDLE;
typedef uint32_t DWORD;
typedef int BOOL;
typedef uint16_t WORD;
typedef unsigned int UINT;
typedef size_t SIZE_T;
typedef size_t *PSIZE_T;
typedef uintptr_t DWORD_PTR;
typedef void *PVOID;
typedef void *LPVOID;
typedef unsigned char *LPBYTE;
typedef wchar_t *LPWSTR;
typedef const wchar_t *LPCWSTR;
typedef wchar_t *LPWCH;
typedef const char *LPCCH;
typedef DWORD *LPDWORD;
typedef void *LPPROC_THREAD_ATTRIBUTE_LIST;

#define INVALID_HANDLE_VALUE ((HANDLE) (intptr_t) -1)
#define INFINITE 0xFFFFFFFFu
#define WAIT_FAILED 0xFFFFFFFFu

#define ERROR_CALL_NOT_IMPLEMENTED 120
#define ERROR_NOT_ENOUGH_MEMORY 8
#define ERROR_INSUFFICIENT_BUFFER 122
#define ERROR_INVALID_PARAMETER 87
#define ERROR_NO_UNICODE_TRANSLATION 1113

#define CREATE_NEW_PROCESS_GROUP 0x00000200u
#define CREATE_UNICODE_ENVIRONMENT 0x00000400u
#define EXTENDED_STARTUPINFO_PRESENT 0x00080000u
#define HANDLE_FLAG_INHERIT 0x00000001u
#define PROC_THREAD_ATTRIBUTE_HANDLE_LIST 0x00020002u
#define STARTF_USESHOWWINDOW 0x00000001u
#define STARTF_USESTDHANDLES 0x00000100u
#define SW_HIDE 0
#define SEM_NOGPFAULTERRORBOX 0x0002u
#define CTRL_BREAK_EVENT 1
#define CP_UTF8 65001u
#define MB_ERR_INVALID_CHARS 0x00000008u

typedef struct {
  DWORD nLength;
  LPVOID lpSecurityDescriptor;
  BOOL bInheritHandle;
} SECURITY_ATTRIBUTES, *LPSECURITY_ATTRIBUTES;

typedef struct {
  DWORD cb;
  LPWSTR lpReserved, lpDesktop, lpTitle;
  DWORD dwX, dwY, dwXSize, dwYSize, dwXCountChars, dwYCountChars, dwFillAttribute;
  DWORD dwFlags;
  WORD wShowWindow, cbReserved2;
  LPBYTE lpReserved2;
  HANDLE hStdInput, hStdOutput, hStdError;
} STARTUPINFOW, *LPSTARTUPINFOW;

typedef struct {
  STARTUPINFOW StartupInfo;
  LPPROC_THREAD_ATTRIBUTE_LIST lpAttributeList;
} STARTUPINFOEXW;

typedef struct {
  HANDLE hProcess, hThread;
  DWORD dwProcessId, dwThreadId;
} PROCESS_INFORMATION, *LPPROCESS_INFORMATION;

void SetLastError(DWORD error);
DWORD GetLastError(void);
BOOL CloseHandle(HANDLE handle);
BOOL SetHandleInformation(HANDLE handle, DWORD mask, DWORD flags);
BOOL InitializeProcThreadAttributeList(LPPROC_THREAD_ATTRIBUTE_LIST list, DWORD count,
                                       DWORD flags, PSIZE_T size);
BOOL UpdateProcThreadAttribute(LPPROC_THREAD_ATTRIBUTE_LIST list, DWORD flags,
                               DWORD_PTR attribute, PVOID value, SIZE_T size,
                               PVOID previous, PSIZE_T return_size);
void DeleteProcThreadAttributeList(LPPROC_THREAD_ATTRIBUTE_LIST list);
LPWCH GetEnvironmentStringsW(void);
BOOL FreeEnvironmentStringsW(LPWCH block);
BOOL CreateProcessW(LPCWSTR application, LPWSTR command_line,
                    LPSECURITY_ATTRIBUTES process_attributes,
                    LPSECURITY_ATTRIBUTES thread_attributes, BOOL inherit, DWORD flags,
                    LPVOID environment, LPCWSTR directory, LPSTARTUPINFOW startup,
                    LPPROCESS_INFORMATION info);
UINT SetErrorMode(UINT mode);
DWORD GetProcessId(HANDLE process);
DWORD WaitForSingleObject(HANDLE handle, DWORD milliseconds);
BOOL GetExitCodeProcess(HANDLE process, LPDWORD status);
BOOL GenerateConsoleCtrlEvent(DWORD event, DWORD group);
BOOL TerminateProcess(HANDLE process, UINT status);
int MultiByteToWideChar(UINT code_page, DWORD flags, LPCCH source, int source_size,
                        LPWSTR dest, int dest_size);

#endif
