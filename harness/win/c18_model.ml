(* c18_model.ml — runs the EXTRACTED Coq model of C18 (C18_extracted, from coq/WinArgs.v via
   coq/ExtractC18.v) on request lines, one answer per line.  Boundary conversions only.
     A n a1..an      ->  A size hexbytes|OOB        (argv_joined_size, argv_join_buf)
     K a             ->  K size hexbytes            (argument_escaped_size, argument_escape)
     E beh X P       ->  E size hexunits|OOB        (env_setup)
     W hexunits      ->  W split | split | split    (win_split_gen true / false, win_split_old_gen true)
   Strings: hex, 2 digits per unit for A/K and entries, 4 digits per unit for P, W and the
   E answer; "-" is the empty string. *)
open C18_extracted

let rec pos_of_int n =
  if n = 1 then XH else if n land 1 = 0 then XO (pos_of_int (n lsr 1)) else XI (pos_of_int (n lsr 1))
let z_of_int n = if n = 0 then Z0 else if n > 0 then Zpos (pos_of_int n) else Zneg (pos_of_int (-n))
let rec int_of_pos = function XH -> 1 | XO p -> 2 * int_of_pos p | XI p -> 2 * int_of_pos p + 1
let int_of_z = function Z0 -> 0 | Zpos p -> int_of_pos p | Zneg p -> - (int_of_pos p)

let units_of_hex w h =
  let h = if h = "-" then "" else h in
  List.init (String.length h / w) (fun i -> z_of_int (int_of_string ("0x" ^ String.sub h (i * w) w)))
let hex_of_units w l =
  if l = [] then "-"
  else String.concat "" (List.map (fun u -> Printf.sprintf (if w = 2 then "%02x" else "%04x") (int_of_z u)) l)

let rec take n l = if n = 0 then [] else match l with [] -> failwith "short request" | x :: r -> x :: take (n - 1) r
let rec drop n l = if n = 0 then l else match l with [] -> failwith "short request" | _ :: r -> drop (n - 1) r

(* X P *)
let env_spec toks =
  match toks with
  | "N" :: p :: _ -> (None, units_of_hex 4 p)
  | "L" :: k :: rest ->
      let k = int_of_string k in
      (Some (List.map (units_of_hex 2) (take k rest)), units_of_hex 4 (List.hd (drop k rest)))
  | _ -> failwith "bad env spec"

let show_split l = string_of_int (List.length l) ^ " " ^ String.concat " " (List.map (hex_of_units 4) l)

let () =
  try
    while true do
      let line = input_line stdin in
      (match String.split_on_char ' ' (String.trim line) with
       | "A" :: n :: rest ->
           let argv = List.map (units_of_hex 2) (take (int_of_string n) rest) in
           Printf.printf "A %d %s\n" (int_of_z (argv_joined_size argv))
             (match argv_join_buf argv with None -> "OOB" | Some b -> hex_of_units 2 b)
       | [ "K"; a ] ->
           let a = units_of_hex 2 a in
           Printf.printf "K %d %s\n" (int_of_z (argument_escaped_size a)) (hex_of_units 2 (argument_escape a))
       | "E" :: beh :: rest ->
           let extra, parent = env_spec rest in
           let size, buf = env_setup (beh = "0") extra parent in
           Printf.printf "E %d %s\n" (int_of_z size)
             (match buf with None -> "OOB" | Some b -> hex_of_units 4 b)
       | [ "W"; h ] ->
           let l = units_of_hex 4 h in
           Printf.printf "W %s | %s | %s\n" (show_split (win_split_gen true l))
             (show_split (win_split_gen false l)) (show_split (win_split_old_gen true l))
       | [ "" ] -> ()
       | _ -> failwith ("bad request: " ^ line))
    done
  with End_of_file -> ()
