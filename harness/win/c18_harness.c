/* C18 harness: runs reproc's REAL Windows command-line / environment-block code
 * (process.windows.c, utf.windows.c, handle.windows.c from $REPO, textually included so the
 * static functions are reachable) on Linux against the stub <windows.h>.
 *
 * Build (see harness/ties/C18.sh):
 *   gcc -std=c99 -D_WIN32 -DNDEBUG -fshort-wchar -fno-builtin -Iinclude -I$REPO/reproc/src
 *       -I$REPO/reproc/include c18_harness.c win_stubs.c
 * once plain (canaries around every allocation) and once with
 *   -DC18_EXACT -fsanitize=address,undefined   (exact allocations, sanitizer red zones).
 * wchar_t is 16 bits as on Windows (-fshort-wchar); glibc's 32-bit wcslen/wcschr/wcscpy are
 * replaced by 16-bit ones (macros below).  calloc/malloc/free of the reproc sources are
 * redirected to tracking versions that record nmemb/size of every allocation.
 *
 * Protocol: one request per line on stdin, one answer per line on stdout.
 *   A n a1..an                 argv_join(argv)            -> A size hexbytes oob live
 *   E beh X P                  env_setup(beh, extra)      -> E size hexunits oob live
 *   S n a1..an beh X P         process_start(argv, env)   -> S ret cmdunits envunits oob live
 *   F k n a1..an               argv_join with the k-th allocation failing -> F NULL|NONNULL err
 * ai, entries: hex of the bytes, "-" for the empty string.  X: "N" (extra == NULL) or
 * "L k e1..ek".  P: hex of the 16-bit units of the memory GetEnvironmentStringsW returns.
 * size = nmemb given to calloc for the returned buffer; hexbytes/hexunits = its whole
 * contents; oob = 1 if a canary around any allocation was damaged; live = allocations
 * still live after the result was freed (leaks). */
#include <stdio.h>
#include <stdlib.h>
#include <string.h>
#include <wchar.h>

#include "c18_track.h"

#define calloc h_calloc
#define malloc h_malloc
#define free h_free
#define wcslen h_wcslen
#define wcschr h_wcschr
#define wcscpy h_wcscpy

#include "process.windows.c"
#include "utf.windows.c"
#include "handle.windows.c"

#undef calloc
#undef malloc
#undef free
#undef wcslen
#undef wcschr
#undef wcscpy

#define MAX_TOK 4096
static char *tok[MAX_TOK];
static int ntok, pos;

static const char *next(void)
{
  if (pos >= ntok) {
    fprintf(stderr, "c18: short request\n");
    exit(2);
  }
  return tok[pos++];
}

static int hexval(char c) { return c <= '9' ? c - '0' : (c | 32) - 'a' + 10; }

static char *bytes_of_hex(const char *h)
{
  if (strcmp(h, "-") == 0) h = "";
  size_t n = strlen(h) / 2;
  char *s = malloc(n + 1);
  for (size_t i = 0; i < n; i++) s[i] = (char) (hexval(h[2 * i]) * 16 + hexval(h[2 * i + 1]));
  s[n] = '\0';
  return s;
}

static char **strings(int n)
{
  char **v = malloc(((size_t) n + 1) * sizeof(char *));
  for (int i = 0; i < n; i++) v[i] = bytes_of_hex(next());
  v[n] = NULL;
  return v;
}

static void strings_free(char **v)
{
  if (v == NULL) return;
  for (int i = 0; v[i] != NULL; i++) free(v[i]);
  free(v);
}

static char **extra_spec(void)
{
  const char *k = next();
  if (strcmp(k, "N") == 0) return NULL;
  return strings(atoi(next()));
}

static void parent_spec(void)
{
  const char *h = next();
  if (strcmp(h, "-") == 0) h = "";
  size_t n = strlen(h) / 4;
  wchar_t *b = malloc((n + 1) * sizeof(wchar_t));
  for (size_t i = 0; i < n; i++) {
    b[i] = (wchar_t) ((hexval(h[4 * i]) << 12) | (hexval(h[4 * i + 1]) << 8) |
                      (hexval(h[4 * i + 2]) << 4) | hexval(h[4 * i + 3]));
  }
  stub_set_parent_env(b, n);
  free(b);
}

static void put_units(const wchar_t *w, size_t n)
{
  if (n == 0) fputs("-", stdout);
  for (size_t i = 0; i < n; i++) printf("%04x", (unsigned) w[i]);
}

int main(void)
{
  char *line = NULL;
  size_t cap = 0;
  while (getline(&line, &cap, stdin) > 0) {
    ntok = pos = 0;
    for (char *t = strtok(line, " \n"); t != NULL && ntok < MAX_TOK; t = strtok(NULL, " \n")) {
      tok[ntok++] = t;
    }
    if (ntok == 0) continue;
    const char *kind = next();
    h_oob = 0;
    stub_reset_records();

    if (kind[0] == 'A') {
      int n = atoi(next());
      char **argv = strings(n);
      char *joined = argv_join((const char *const *) argv);
      if (joined == NULL) {
        printf("A NULL\n");
      } else {
        size_t size = h_nmemb(joined);
        h_check_live();
        printf("A %zu ", size);
        if (size == 0) fputs("-", stdout);
        for (size_t i = 0; i < size; i++) printf("%02x", (unsigned char) joined[i]);
        h_free(joined);
        printf(" %d %d\n", h_oob, h_live);
      }
      strings_free(argv);
    } else if (kind[0] == 'F') {
      int k = atoi(next());
      int n = atoi(next());
      char **argv = strings(n);
      SetLastError(0);
      h_fail_after = k;
      char *joined = argv_join((const char *const *) argv);
      h_fail_after = -1;
      printf("F %s %u\n", joined == NULL ? "NULL" : "NONNULL", (unsigned) GetLastError());
      h_free(joined);
      strings_free(argv);
    } else if (kind[0] == 'E') {
      int beh = atoi(next());
      char **extra = extra_spec();
      parent_spec();
      wchar_t *block = env_setup((REPROC_ENV) beh, (const char *const *) extra);
      if (block == NULL) {
        printf("E NULL\n");
      } else {
        size_t size = h_nmemb(block);
        h_check_live();
        printf("E %zu ", size);
        put_units(block, size);
        h_free(block);
        printf(" %d %d\n", h_oob, h_live);
      }
      strings_free(extra);
    } else if (kind[0] == 'S') {
      int n = atoi(next());
      char **argv = strings(n);
      int beh = atoi(next());
      char **extra = extra_spec();
      parent_spec();
      struct process_options options = { .env = { .behavior = (REPROC_ENV) beh,
                                                  .extra = (const char *const *) extra },
                                         .working_directory = NULL,
                                         .handle = { .in = (HANDLE) 0x10, .out = (HANDLE) 0x14,
                                                     .err = (HANDLE) 0x18, .exit = (HANDLE) 0x1c } };
      HANDLE process = NULL;
      int r = process_start(&process, (const char *const *) argv, options);
      h_check_live();
      printf("S %d ", r);
      if (rec_create_calls == 1) {
        put_units(rec_cmdline, rec_cmdline_units);
        fputs(" ", stdout);
        put_units(rec_env, rec_env_units);
      } else {
        printf("NOCALL%d NOCALL", rec_create_calls);
      }
      printf(" %d %d\n", h_oob, h_live);
      strings_free(argv);
      strings_free(extra);
    } else {
      fprintf(stderr, "c18: unknown request %s\n", kind);
      return 2;
    }
    fflush(stdout);
  }
  free(line);
  return 0;
}
