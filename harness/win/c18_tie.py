#!/usr/bin/env python3
"""C18 tie driver (called by harness/ties/C18.sh after everything is built).

  c18_tie.py <tier> <seed> <out.json> <workdir> <repo>

workdir contains: c18_canary, c18_asan (the real C code from <repo>, see c18_harness.c) and
c18_model (the extracted Coq model, see c18_model.ml).

Three independent parties per case:
  IMPLEMENTATION  argv_join / env_setup / process_start of <repo>'s process.windows.c
  MODEL           coq/WinArgs.v, extracted
  MONITOR         this file: `ms_split`, a transcription of Microsoft's parse_cmdline in its
                  original index-and-lookahead style (NOT derived from the Coq model), the
                  expected environment block built directly from the property's text, the
                  size/terminator check and the out-of-bounds evidence (canaries, ASan).
monitor failure = the oracle fails on the implementation; diff = model and implementation
disagree although the monitor is satisfied.
"""
import itertools, json, os, random, subprocess, sys, time

SP, TAB, NL, VT, DQ, BS, A = 0x20, 0x09, 0x0A, 0x0B, 0x22, 0x5C, 0x61
ALPHABET = [SP, TAB, NL, VT, DQ, BS, A]
PGMPTR = ["<_pgmptr>"]  # what the CRT substitutes for an empty command line

# ----------------------------------------------------------------------------------------
# MONITOR: the Windows splitting rules, after stdargv.c parse_cmdline().
#   dq_stays: post-2008 rule for "" inside quotes (stay in quote mode) vs the older one.
#   old_prog: pre-UCRT program-name scan.


def ms_split(line, dq_stays=True, old_prog=False):
    s = list(line) + [0]
    if s[0] == 0:
        return PGMPTR  # "if there's no command line at all, we use _pgmptr"
    p = 0
    args = []
    cur = []
    if old_prog:
        if s[p] == DQ:
            p += 1
            while s[p] != DQ and s[p] != 0:
                cur.append(s[p])
                p += 1
            if s[p] == DQ:
                p += 1
        else:
            while True:
                c = s[p]
                p += 1
                if c == SP or c == TAB or c == 0:
                    break
                cur.append(c)
            if c == 0:
                p -= 1
    else:
        inquote = False
        while True:
            if s[p] == DQ:
                inquote = not inquote
                c = s[p]
                p += 1
            else:
                cur.append(s[p])
                c = s[p]
                p += 1
            if not (c != 0 and (inquote or (c != SP and c != TAB))):
                break
        if c == 0:
            p -= 1
        cur.pop()  # the terminating blank/NUL that was copied and is overwritten by NUL
    args.append(cur)
    inquote = False
    while True:
        if s[p] != 0:
            while s[p] == SP or s[p] == TAB:
                p += 1
        if s[p] == 0:
            break
        cur = []
        while True:
            copychar = True
            numslash = 0
            while s[p] == BS:
                p += 1
                numslash += 1
            if s[p] == DQ:
                if numslash % 2 == 0:
                    if dq_stays:
                        if inquote and s[p + 1] == DQ:
                            p += 1
                        else:
                            copychar = False
                            inquote = not inquote
                    else:
                        if inquote:
                            if s[p + 1] == DQ:
                                p += 1
                            else:
                                copychar = False
                        else:
                            copychar = False
                        inquote = not inquote
                numslash //= 2
            cur.extend([BS] * numslash)
            if s[p] == 0 or (not inquote and (s[p] == SP or s[p] == TAB)):
                break
            if copychar:
                cur.append(s[p])
            p += 1
        args.append(cur)
    return args


VARIANTS = [("ucrt", True, False), ("pre2008-dq", False, False), ("old-prog", True, True), ("old-both", False, True)]

# ----------------------------------------------------------------------------------------
# helpers


def hx(b, w=2):
    return "-" if len(b) == 0 else "".join(("%02x" if w == 2 else "%04x") % u for u in b)


def unhx(h, w=2):
    return [] if h == "-" else [int(h[i:i + w], 16) for i in range(0, len(h), w)]


def utf16_units(b):
    """independent UTF-8 -> UTF-16 of a byte list (Python's codec)"""
    raw = bytes(b).decode("utf-8").encode("utf-16-le")
    return [raw[i] | (raw[i + 1] << 8) for i in range(0, len(raw), 2)]


def needs_quote(a):
    return len(a) == 0 or any(c in (SP, TAB, NL, VT, DQ) for c in a)


def program_ok(a):
    """the restriction on argv[0] (Windows' program-name rule has no backslash escapes)"""
    return DQ not in a and not (needs_quote(a) and len(a) > 0 and a[-1] == BS)


def classify(argv, got):
    """class of a round-trip failure = shape of the first argument that did not come back"""
    bad = None
    for i, a in enumerate(argv):
        if i >= len(got) or got[i] != a:
            bad = a
            break
    if bad is None:
        return "extra-args"
    if len(bad) == 0:
        return "empty-arg"
    if needs_quote(bad) and bad[-1] == BS:
        return "trailing-backslash"
    for i in range(len(bad) - 1):
        if bad[i] == BS and bad[i + 1] == DQ:
            return "backslash-quote"
    if DQ in bad:
        return "quote"
    if BS in bad:
        return "backslash"
    if SP in bad or TAB in bad:
        return "blank"
    if NL in bad or VT in bad:
        return "newline-vtab"
    return "other"


def show(units):
    return "".join(chr(u) if 0x20 < u < 0x7F and u not in (DQ, BS) else
                   {SP: "\u2423", TAB: "\\t", NL: "\\n", VT: "\\v", DQ: '"', BS: "\\"}.get(u, "\\u%04x" % u)
                   for u in units)


def env_block(entries):
    out = []
    for e in entries:
        out += list(e) + [0]
    return out + [0]


def block_entries(block):
    """entries of a well-formed block (as Windows reads it: up to the first empty string)"""
    out, cur = [], []
    for u in block:
        if u == 0:
            if not cur:
                break
            out.append(cur)
            cur = []
        else:
            cur.append(u)
    return out


# ----------------------------------------------------------------------------------------
# running the three executables


class Runner:
    def __init__(self, work):
        self.work = work
        self.asan_aborts = []

    def run(self, exe, lines, tolerate_abort=False):
        """feed request lines, return answer lines (None for a request that killed the process)"""
        answers = []
        start = 0
        restarts = 0
        env = dict(os.environ, ASAN_OPTIONS="detect_leaks=0:abort_on_error=0:exitcode=77",
                   UBSAN_OPTIONS="halt_on_error=1:exitcode=78:print_stacktrace=0")
        while start < len(lines):
            p = subprocess.run([os.path.join(self.work, exe)], input="\n".join(lines[start:]) + "\n",
                               capture_output=True, text=True, env=env)
            out = p.stdout.split("\n")
            if out and out[-1] == "":
                out.pop()
            answers += out
            if p.returncode == 0 and len(answers) == len(lines):
                break
            if not tolerate_abort:
                raise RuntimeError("%s failed (exit %d) on request %r: %s" %
                                   (exe, p.returncode, lines[len(answers)] if len(answers) < len(lines) else None,
                                    p.stderr[:400]))
            # the request after the last answer killed the process
            if len(out) > 0 and len(answers) > len(lines):
                raise RuntimeError("%s: more answers than requests" % exe)
            culprit = len(answers)
            first = next((l for l in p.stderr.split("\n") if "ERROR" in l or "runtime error" in l), p.stderr[:200])
            self.asan_aborts.append((culprit, p.returncode, first.strip()))
            answers.append(None)
            start = culprit + 1
            restarts += 1
            if restarts > 25:
                answers += [None] * (len(lines) - len(answers))
                break
        return answers


# ----------------------------------------------------------------------------------------
# case generation


def strings_upto(n):
    for k in range(n + 1):
        for t in itertools.product(ALPHABET, repeat=k):
            yield list(t)


EXTRA_CHARS = [ord(c) for c in "bZ0=/:.-_%^&|<>()'*?;,!~#$@[]{}+"] + [0x7F, 0x01, 0x0C, 0x0D]
UTF8_CHARS = ["\u00e9", "\u20ac", "\U0001F600", "\u00a0", "\u3000", "\u201c"]


def random_arg(rng, maxlen, utf8):
    n = rng.randint(0, maxlen)
    style = rng.random()
    out = []
    while len(out) < n:
        r = rng.random()
        if style < 0.3:  # backslash/quote heavy
            c = BS if r < 0.45 else DQ if r < 0.7 else rng.choice(ALPHABET)
            out.append(c)
        elif r < 0.6:
            out.append(rng.choice(ALPHABET))
        elif r < 0.9 or not utf8:
            out.append(rng.choice(EXTRA_CHARS))
        else:
            out += list(rng.choice(UTF8_CHARS).encode("utf-8"))
    return out


def random_prog(rng, utf8):
    for _ in range(100):
        a = random_arg(rng, 12, utf8)
        if a and program_ok(a):
            return a
    return [A]


def gen_argv_cases(tier, rng):
    """yields (family, argv) with argv[0] satisfying program_ok and non-empty
    (except the lone [""]): the inputs C18 speaks about"""
    P = [0x70]
    for s in strings_upto(6):
        yield "single<=6", [P, s]
    yield "prog", [[]]
    for s in strings_upto(4):
        if s and program_ok(s):
            yield "prog", [s]
            yield "prog", [s, [A, SP, BS]]
    # argv[0] OUTSIDE program_ok (a quote in it, or a trailing backslash where it has to be quoted):
    # the Windows parsers disagree with each other on such program names, so no round trip is
    # demanded; the command line, its size and the bounds are still compared with the model
    for s in strings_upto(4):
        if s and not program_ok(s):
            yield "prog-any", [s]
            yield "prog-any", [s, [A, SP, BS]]
    short = list(strings_upto(2))
    progs = [s for s in short if s and program_ok(s)]
    for a0 in progs:
        for a1 in short:
            yield "argv<=3x2", [a0, a1]
    if tier == "thorough":
        for a0 in progs:
            for a1 in short:
                for a2 in short:
                    yield "argv<=3x2", [a0, a1, a2]
        # ... and every triple (also with an empty or non-program_ok first string) after a fixed program
        for a1 in short:
            for a2 in short:
                for a3 in short:
                    yield "p+args<=3x2", [P, a1, a2, a3]
    else:
        # covering subset: all triples of strings of length <= 1, every (a1,a2) pair of
        # length <= 2 with one fixed program, and a seeded sample of the rest
        one = list(strings_upto(1))
        for a0 in [s for s in one if s and program_ok(s)]:
            for a1 in one:
                for a2 in one:
                    yield "argv<=3x2", [a0, a1, a2]
        for a1 in short:
            for a2 in short:
                yield "argv<=3x2", [P, a1, a2]
        for _ in range(6000):
            yield "argv<=3x2", [rng.choice(progs), rng.choice(short), rng.choice(short)]
    n_random = 40000 if tier == "thorough" else 4000
    for i in range(n_random):
        utf8 = i % 4 == 0
        argv = [random_prog(rng, utf8)]
        for _ in range(rng.randint(0, 6)):
            argv.append(random_arg(rng, rng.choice([3, 8, 8, 20, 60]), utf8))
        yield "random", argv


def gen_env_cases(tier, rng):
    e = lambda s: list(s.encode("utf-8"))
    extras = [None, [], [e("")], [e("A=B")], [e(""), e("A=B")], [e("A=B"), e("")],
              [e("A=B"), e(""), e("C=D")], [e("A=B"), e("C=")], [e("=")], [e("A=B C\t\"\\")],
              [e("K=\u00e9\u20ac\U0001F600")], [e("A=1")] * 5]
    parents = [[], [e("P=Q")], [e("=C:=C:\\"), e("P=Q"), e("PATH=C:\\a b;\"c\"")], [e("\u00dc=\u00e9")]]
    for beh in (0, 1):
        for x in extras:
            for p in parents:
                yield "boundary", beh, x, p
    chars = [ord(c) for c in "AB=ab \t\"\\;:."]
    n = 20000 if tier == "thorough" else 2500

    def entry(allow_empty):
        if allow_empty and rng.random() < 0.04:
            return []
        k = rng.randint(1, rng.choice([1, 4, 12, 40]))
        if rng.random() < 0.1:
            return list("".join(rng.choice(UTF8_CHARS + ["A", "="]) for _ in range(k)).encode("utf-8"))
        return [rng.choice(chars) for _ in range(k)]

    for _ in range(n):
        beh = rng.randint(0, 1)
        x = None if rng.random() < 0.08 else [entry(True) for _ in range(rng.choice([0, 1, 1, 2, 3, 6]))]
        p = [entry(False) for _ in range(rng.choice([0, 1, 2, 5]))]
        yield "random", beh, x, p


def env_request(kind_prefix, beh, extra, parent):
    x = "N" if extra is None else " ".join(["L", str(len(extra))] + [hx(s) for s in extra])
    pblock = env_block([utf16_units(p) for p in parent])
    return "%s%d %s %s" % (kind_prefix, beh, x, hx(pblock, 4))


# ----------------------------------------------------------------------------------------


class Failures:
    def __init__(self):
        self.by_key = {}

    def add(self, kind, key, what, replay):
        f = self.by_key.get(key)
        if f is None:
            self.by_key[key] = {"kind": kind, "key": key, "what": what, "replay": replay, "count": 1}
        else:
            f["count"] += 1

    def list(self):
        out = []
        for f in self.by_key.values():
            f = dict(f)
            n = f.pop("count")
            f["what"] += " (%d case%s; replay = first)" % (n, "" if n == 1 else "s")
            out.append(f)
        return out


def main():
    tier, seed, out_path, work, repo = sys.argv[1], int(sys.argv[2]), sys.argv[3], sys.argv[4], sys.argv[5]
    t0 = time.time()
    rng = random.Random(seed * 1000003 + 18)
    R = Runner(work)
    F = Failures()
    dist = {}
    samples = []

    def bump(k, n=1):
        dist[k] = dist.get(k, 0) + n

    # ---------------- argv_join ----------------
    cases = []
    seen = set()
    for fam, argv in gen_argv_cases(tier, rng):
        key = tuple(tuple(a) for a in argv)
        if key in seen:
            bump("argv_duplicates_dropped")
            continue
        seen.add(key)
        cases.append((fam, argv))
    reqs = ["A %d %s" % (len(argv), " ".join(hx(a) for a in argv)) for _, argv in cases]
    def run_impl(requests, what):
        """both builds of the real code; a request that kills one of them (sanitizer report, or heap
        corruption in the plain build) is an out-of-bounds store"""
        res = []
        for exe in ("c18_canary", "c18_asan"):
            res.append(R.run(exe, requests, tolerate_abort=True))
            for idx, rc, msg in R.asan_aborts:
                F.add("monitor", "C18/oob-store", "%s: %s stopped: %s" % (what, exe, msg),
                      {"request": requests[idx], "exit": rc})
            R.asan_aborts = []
        return res

    can, asan = run_impl(reqs, "argv_join")
    mod = R.run("c18_model", reqs)
    split_lines = []
    nontrivial = 0
    for i, ((fam, argv), c, a, m) in enumerate(zip(cases, can, asan, mod)):
        bump("argv/" + fam)
        if any(needs_quote(x) or BS in x for x in argv):
            nontrivial += 1
        rep = {"argv": [show(x) for x in argv], "argv_hex": [hx(x) for x in argv]}
        if c is None:
            continue  # reported by run_impl
        ct = c.split(" ")
        if ct[1] == "NULL":
            F.add("monitor", "C18/size-mismatch", "argv_join returned NULL", rep)
            continue
        size, buf, oob, live = int(ct[1]), unhx(ct[2]), int(ct[3]), int(ct[4])
        if a is not None and " ".join(a.split(" ")[:3]) != " ".join(ct[:3]):
            F.add("build", "C18/build/asan-vs-plain", "ASan and plain builds of the harness disagree",
                  dict(rep, plain=c, asan=a))
        if live != 0:
            bump("argv_join_leaked_allocations")
        failed = False
        if oob:
            F.add("monitor", "C18/oob-store", "a canary next to an allocation was overwritten during argv_join",
                  dict(rep, buffer_hex=ct[2], size=size))
            failed = True
        cmd = buf[:buf.index(0)] if 0 in buf else None
        if cmd is None or size != len(cmd) + 1:
            F.add("monitor", "C18/size-mismatch",
                  "argv_join allocated %d units for a command line of %s units + terminator" %
                  (size, "?" if cmd is None else len(cmd)), dict(rep, buffer_hex=ct[2], size=size))
            failed = True
            if cmd is None:
                continue
        expect = [list(x) for x in argv]
        for name, dqs, oldp in (VARIANTS if fam != "prog-any" else []):
            got = ms_split(cmd, dqs, oldp)
            if got != expect:
                cls = classify(argv, got if got is not PGMPTR else [])
                F.add("monitor", "C18/split-mismatch/" + cls,
                      "splitting the command line (%s rules) does not give back argv" % name,
                      dict(rep, command_line=show(cmd), command_line_hex=hx(cmd),
                           split=[show(x) if x != PGMPTR[0] else x for x in got], rules=name))
                failed = True
                break
        if not failed:
            if m != "A %d %s" % (size, ct[2]):
                F.add("diff", "C18/diff/argv-join", "model and implementation disagree on argv_join",
                      dict(rep, impl=" ".join(ct[:3]), model=m))
            if len(samples) < 4 and fam == "random" and len(argv) > 2 and i % 7 == 0:
                samples.append({"argv": rep["argv"], "command_line": show(cmd), "size": size})
        if cmd and (tier == "thorough" or fam != "single<=6" or i % 8 == 0):
            split_lines.append(cmd)
    n_argv = len(cases)

    # ---------------- single-argument size/escape (model vs itself and C via argv_join) ----
    # (argument_escaped_size/argument_escape are reached through argv_join above.)

    # ---------------- splitter agreement: Coq win_split vs the monitor's ms_split ----------
    wl = [list(t) for t in strings_upto(6 if tier == "thorough" else 5)]
    wl += split_lines
    for _ in range(20000 if tier == "thorough" else 3000):
        wl.append([rng.choice(ALPHABET + [A, 0x62]) for _ in range(rng.randint(6, 30))])
    wl = [l for l in wl if l]  # the empty line is the _pgmptr special case (not in the model)
    wreq = ["W " + hx(l, 4) for l in wl]
    wans = R.run("c18_model", wreq)
    for l, ans in zip(wl, wans):
        parts = ans[2:].split(" | ")
        for (name, dqs, oldp), part in zip(VARIANTS[:3], parts):
            toks = part.split(" ")
            got = [unhx(t, 4) for t in toks[1:1 + int(toks[0])]]
            if got != ms_split(l, dqs, oldp):
                F.add("diff", "C18/diff/splitter", "Coq win_split and the monitor's splitter disagree (%s)" % name,
                      {"line": show(l), "line_hex": hx(l, 4), "coq": [show(x) for x in got],
                       "monitor": [show(x) for x in ms_split(l, dqs, oldp)]})
    bump("splitter_agreement_lines", len(wl))

    # ---------------- env_setup ----------------
    ecases = list(gen_env_cases(tier, rng))
    ereqs = [env_request("E ", beh, x, p) for _, beh, x, p in ecases]
    ecan, easan = run_impl(ereqs, "env_setup")
    emod = R.run("c18_model", ereqs)
    for (fam, beh, x, p), req, c, a, m in zip(ecases, ereqs, ecan, easan, emod):
        bump("env/" + fam)
        if x is None:
            bump("env/extra=NULL")
        elif len(x) == 0:
            bump("env/extra=[]")
        rep = {"behavior": "EXTEND" if beh == 0 else "EMPTY",
               "extra": None if x is None else [show(s) for s in x], "parent": [show(s) for s in p],
               "request": req}
        if c is None:
            continue
        ct = c.split(" ")
        if ct[1] == "NULL":
            F.add("monitor", "C18/env-block", "env_setup returned NULL", rep)
            continue
        size, block, oob, live = int(ct[1]), unhx(ct[2], 4), int(ct[3]), int(ct[4])
        if a is not None and " ".join(a.split(" ")[:3]) != " ".join(ct[:3]):
            F.add("build", "C18/build/asan-vs-plain", "ASan and plain builds of the harness disagree",
                  dict(rep, plain=c, asan=a))
        if live != 0:
            bump("env_setup_leaked_allocations")
        # the property's text, with the one proved deviation: an EMPTY extra entry ends the block
        # (Properties_C18.C18_env_block_empty_entry); counted, reported in the notes.
        xs = [] if x is None else x
        kept = list(itertools.takewhile(lambda s: len(s) > 0, xs))
        if len(kept) != len(xs):
            bump("env/empty_extra_entry_truncates_block")
        entries = ([utf16_units(s) for s in p] if beh == 0 else []) + [utf16_units(s) for s in kept]
        want = env_block(entries)
        failed = False
        if oob:
            F.add("monitor", "C18/oob-store", "a canary next to an allocation was overwritten during env_setup",
                  dict(rep, block_hex=ct[2], size=size))
            failed = True
        if size != len(block) or size != len(want):
            F.add("monitor", "C18/size-mismatch", "env_setup allocated %d units for a block of %d" % (size, len(want)),
                  dict(rep, block_hex=ct[2], size=size))
            failed = True
        if block != want:
            F.add("monitor", "C18/env-block", "environment block differs from parent entries + extra entries",
                  dict(rep, block_hex=ct[2], expected_hex=hx(want, 4)))
            failed = True
        ascii_only = all(u < 0x80 for s in (xs + p) for u in s)
        if not ascii_only:
            bump("env/non_ascii(monitor only)")
        elif not failed and m != "E %d %s" % (size, ct[2]):
            F.add("diff", "C18/diff/env-setup", "model and implementation disagree on env_setup",
                  dict(rep, impl=" ".join(ct[:3]), model=m))
    n_env = len(ecases)

    # ---------------- process_start end to end (what reaches CreateProcessW) ----------------
    n_s = 15000 if tier == "thorough" else 2000
    scases = []
    pool = [c for c in cases if c[0] in ("random", "argv<=3x2", "prog")]
    in_domain = [c for c in cases if c[0] != "prog-any"]   # the round trip is demanded for program_ok argv[0] only
    for _ in range(n_s):
        fam, argv = rng.choice(pool) if rng.random() < 0.8 else rng.choice(in_domain)
        _, beh, x, p = rng.choice(ecases)
        scases.append((argv, beh, x, p))
    sreqs = ["S %d %s %s" % (len(argv), " ".join(hx(a) for a in argv), env_request("", beh, x, p))
             for argv, beh, x, p in scases]
    scan, sasan = run_impl(sreqs, "process_start")
    for (argv, beh, x, p), req, c, a in zip(scases, sreqs, scan, sasan):
        rep = {"argv": [show(s) for s in argv], "argv_hex": [hx(s) for s in argv], "request": req}
        if c is None:
            continue
        ct = c.split(" ")
        if a is not None and a != c:
            F.add("build", "C18/build/asan-vs-plain", "ASan and plain builds of the harness disagree",
                  dict(rep, plain=c, asan=a))
        if ct[1] != "1" or ct[2].startswith("NOCALL"):
            F.add("monitor", "C18/no-create-process", "process_start did not reach CreateProcessW (r=%s)" % ct[1], rep)
            continue
        cmdw, envw, oob, live = unhx(ct[2], 4), unhx(ct[3], 4), int(ct[4]), int(ct[5])
        if live != 0:
            bump("process_start_leaked_allocations")
        if oob:
            F.add("monitor", "C18/oob-store", "a canary was overwritten during process_start", rep)
        if cmdw[-1:] != [0] or 0 in cmdw[:-1]:
            F.add("monitor", "C18/size-mismatch", "wide command line is not terminated exactly once", rep)
            continue
        expect = [utf16_units(s) for s in argv]
        for name, dqs, oldp in VARIANTS:
            got = ms_split(cmdw[:-1], dqs, oldp)
            if got != expect:
                cls = classify(expect, got if got is not PGMPTR else [])
                F.add("monitor", "C18/split-mismatch/" + cls,
                      "splitting the command line given to CreateProcessW (%s rules) does not give back argv" % name,
                      dict(rep, command_line=show(cmdw[:-1]), split=[show(s) if s != PGMPTR[0] else s for s in got]))
                break
        xs = [] if x is None else x
        kept = list(itertools.takewhile(lambda s: len(s) > 0, xs))
        want = env_block(([utf16_units(s) for s in p] if beh == 0 else []) + [utf16_units(s) for s in kept])
        if envw != want:
            F.add("monitor", "C18/env-block", "environment block given to CreateProcessW differs from parent + extra",
                  dict(rep, block_hex=ct[3], expected_hex=hx(want, 4)))
    bump("process_start_cases", len(scases))

    if len(samples) < 5:
        for (fam, beh, x, p), c in zip(ecases[40:42], ecan[40:42]):
            samples.append({"env": {"behavior": beh, "extra": None if x is None else [show(s) for s in x],
                                    "parent": [show(s) for s in p]}, "answer": c})
    evaluations = n_argv + n_env + len(scases) + len(wl)
    dist["argv_join_cases"] = n_argv
    dist["env_setup_cases"] = n_env
    dist["wall_seconds"] = round(time.time() - t0, 1)
    result = {
        "tie": "C18",
        "repo": repo,
        "tier": tier,
        "seed": seed,
        "evaluations": evaluations,
        "distinct_nontrivial": nontrivial,
        "rule": ("argv_join: EVERY argv [p, s] for s over {SP,TAB,NL,VT,DQ,BS,a} with |s| <= 6 (137257); every program_ok "
                 "non-empty s with |s| <= 4 as argv[0] (alone and followed by an argument) and the lone [\"\"]; "
                 + ("EVERY" if tier == "thorough" else "a covering subset (all pairs, all triples of |s|<=1, all (a1,a2) with a "
                    "fixed program, 6000 seeded triples) of the") +
                 " argv of <= 3 arguments of length <= 2 whose argv[0] is non-empty and program_ok"
                 + (", and EVERY [p, a1, a2, a3] with |ai| <= 2 (185193)" if tier == "thorough" else "") + "; seeded random argv "
                 "(1-7 arguments, length <= 60, quote/backslash heavy, other ASCII, UTF-8). Duplicates dropped: all "
                 "cases are distinct inputs. Non-trivial = some argument is empty, contains a backslash or needs "
                 "quoting. env_setup: boundary product (extra NULL/[]/empty strings/... x parent x behavior) + seeded "
                 "random. process_start: seeded pairs of the above, observed at the stub CreateProcessW. Splitter "
                 "agreement: every line of length <= %d over the alphabet + the implementation's command lines + random."
                 % (6 if tier == "thorough" else 5)),
        "exhaustive": True,
        "exhaustive_scope": "single arguments of length <= 6 over the 7-letter alphabet"
                            + ("; argv of <= 3 arguments of length <= 2" if tier == "thorough" else ""),
        "samples": samples,
        "distribution": dist,
        "notes": ["env: an empty string among the extra entries ends the block (proved: C18_env_block_empty_entry; "
                  "literal text refuted: C18_env_block_empty_entry_refuted); the monitor expects exactly that",
                  "argv[0] is restricted to program_ok (no quote; no trailing backslash when it has to be quoted)"],
        "failures": F.list(),
    }
    with open(out_path, "w") as f:
        json.dump(result, f, indent=1, ensure_ascii=True)
    print("C18 %s seed %d repo %s: %d evaluations, %d failures %s in %.1f s" %
          (tier, seed, repo, evaluations, len(result["failures"]), [x["key"] for x in result["failures"]],
           time.time() - t0))


if __name__ == "__main__":
    main()
