/* Recording stubs for the Win32 calls used by reproc's *.windows.c, allocation tracking
 * with canaries, 16-bit wcs* helpers and a strict UTF-8 -> UTF-16 MultiByteToWideChar.
 * Trusted base of C18 (not verified). */
#include <windows.h>

#include <stdio.h>
#include <stdlib.h>

#include "c18_track.h"

/* ---- allocation tracking ------------------------------------------------------ */

#define CANARY 1024
#define CANARY_BYTE 0xA5
#define MAX_LIVE 256

static struct rec {
  unsigned char *user;
  size_t nmemb, size;
} live[MAX_LIVE];
int h_live = 0;
int h_oob = 0;
int h_fail_after = -1;

static int canaries_ok(const struct rec *r)
{
#ifdef C18_EXACT
  (void) r;
  return 1;
#else
  size_t bytes = r->nmemb * r->size;
  for (int i = 0; i < CANARY; i++) {
    if (r->user[-1 - i] != CANARY_BYTE || r->user[bytes + (size_t) i] != CANARY_BYTE) {
      return 0;
    }
  }
  return 1;
#endif
}

static void *h_alloc(size_t nmemb, size_t size)
{
  if (h_fail_after == 0) {
    h_fail_after = -1;
    return NULL;
  }
  if (h_fail_after > 0) {
    h_fail_after--;
  }
  if (h_live == MAX_LIVE) {
    fprintf(stderr, "c18: too many live allocations\n");
    exit(3);
  }
  size_t bytes = nmemb * size;
#ifdef C18_EXACT
  /* malloc(0) may return NULL; keep a distinct non-NULL pointer with zero usable bytes */
  unsigned char *user = calloc(bytes ? bytes : 1, 1);
  if (user == NULL) exit(3);
#else
  unsigned char *base = malloc(bytes + 2 * CANARY);
  if (base == NULL) exit(3);
  memset(base, CANARY_BYTE, bytes + 2 * CANARY);
  unsigned char *user = base + CANARY;
  memset(user, 0, bytes);
#endif
  live[h_live].user = user;
  live[h_live].nmemb = nmemb;
  live[h_live].size = size;
  h_live++;
  return user;
}

void *h_calloc(size_t nmemb, size_t size) { return h_alloc(nmemb, size); }
void *h_malloc(size_t size) { return h_alloc(size, 1); }

void h_free(void *p)
{
  if (p == NULL) return;
  for (int i = 0; i < h_live; i++) {
    if (live[i].user == p) {
      if (!canaries_ok(&live[i])) h_oob = 1;
#ifdef C18_EXACT
      free(live[i].user);
#else
      free(live[i].user - CANARY);
#endif
      live[i] = live[--h_live];
      return;
    }
  }
  fprintf(stderr, "c18: free of untracked pointer\n");
  exit(3);
}

static const struct rec *find(const void *p)
{
  for (int i = 0; i < h_live; i++) {
    if (live[i].user == p) return &live[i];
  }
  return NULL;
}

size_t h_nmemb(const void *p) { const struct rec *r = find(p); return r ? r->nmemb : (size_t) -1; }
size_t h_elsize(const void *p) { const struct rec *r = find(p); return r ? r->size : (size_t) -1; }

int h_check_live(void)
{
  for (int i = 0; i < h_live; i++) {
    if (!canaries_ok(&live[i])) h_oob = 1;
  }
  return h_oob;
}

/* ---- 16-bit wide strings -------------------------------------------------------- */

size_t h_wcslen(const wchar_t *s)
{
  size_t n = 0;
  while (s[n] != 0) n++;
  return n;
}

wchar_t *h_wcschr(const wchar_t *s, wchar_t c)
{
  for (;; s++) {
    if (*s == c) return (wchar_t *) s;
    if (*s == 0) return NULL;
  }
}

wchar_t *h_wcscpy(wchar_t *dest, const wchar_t *src)
{
  size_t i = 0;
  do {
    dest[i] = src[i];
  } while (src[i++] != 0);
  return dest;
}

/* ---- records ---------------------------------------------------------------------- */

static DWORD last_error = 0;
static wchar_t *parent_env = NULL;
static size_t parent_env_units = 0;

wchar_t *rec_cmdline = NULL;
size_t rec_cmdline_units = 0;
wchar_t *rec_env = NULL;
size_t rec_env_units = 0;
int rec_create_calls = 0;

void stub_set_parent_env(const wchar_t *block, size_t units)
{
  free(parent_env);
  parent_env = malloc(units ? units * sizeof(wchar_t) : 1);
  memcpy(parent_env, block, units * sizeof(wchar_t));
  parent_env_units = units;
}

void stub_reset_records(void)
{
  free(rec_cmdline);
  free(rec_env);
  rec_cmdline = rec_env = NULL;
  rec_cmdline_units = rec_env_units = 0;
  rec_create_calls = 0;
  last_error = 0;
}

/* Defined in reproc.c (not part of this harness): only referenced by process_wait and
 * process_kill, which the harness never calls. */
const int REPROC_SIGKILL = 128 + 9;
const int REPROC_SIGTERM = 128 + 15;

/* ---- Win32 ---------------------------------------------------------------------- */

void SetLastError(DWORD error) { last_error = error; }
DWORD GetLastError(void) { return last_error; }
BOOL CloseHandle(HANDLE handle) { (void) handle; return 1; }
BOOL SetHandleInformation(HANDLE handle, DWORD mask, DWORD flags)
{
  (void) handle; (void) mask; (void) flags;
  return 1;
}

BOOL InitializeProcThreadAttributeList(LPPROC_THREAD_ATTRIBUTE_LIST list, DWORD count,
                                       DWORD flags, PSIZE_T size)
{
  (void) count; (void) flags;
  if (list == NULL) {
    *size = 48;
    last_error = ERROR_INSUFFICIENT_BUFFER;
    return 0;
  }
  memset(list, 0, *size);
  return 1;
}

BOOL UpdateProcThreadAttribute(LPPROC_THREAD_ATTRIBUTE_LIST list, DWORD flags,
                               DWORD_PTR attribute, PVOID value, SIZE_T size, PVOID previous,
                               PSIZE_T return_size)
{
  (void) list; (void) flags; (void) attribute; (void) value; (void) size; (void) previous;
  (void) return_size;
  return 1;
}

void DeleteProcThreadAttributeList(LPPROC_THREAD_ATTRIBUTE_LIST list) { (void) list; }

/* The block handed out is a tracked allocation of exactly the configured units, so that a
 * reader running past a malformed block is caught (ASan) and FreeEnvironmentStringsW can
 * check the canaries. */
LPWCH GetEnvironmentStringsW(void)
{
  int keep = h_fail_after;
  h_fail_after = -1; /* Windows' own allocation is not subject to fault injection */
  wchar_t *copy = h_calloc(parent_env_units, sizeof(wchar_t));
  h_fail_after = keep;
  memcpy(copy, parent_env, parent_env_units * sizeof(wchar_t));
  return copy;
}

BOOL FreeEnvironmentStringsW(LPWCH block)
{
  h_free(block);
  return 1;
}

BOOL CreateProcessW(LPCWSTR application, LPWSTR command_line,
                    LPSECURITY_ATTRIBUTES process_attributes,
                    LPSECURITY_ATTRIBUTES thread_attributes, BOOL inherit, DWORD flags,
                    LPVOID environment, LPCWSTR directory, LPSTARTUPINFOW startup,
                    LPPROCESS_INFORMATION info)
{
  (void) application; (void) process_attributes; (void) thread_attributes; (void) inherit;
  (void) flags; (void) directory; (void) startup;
  rec_create_calls++;
  free(rec_cmdline);
  free(rec_env);
  rec_cmdline_units = h_wcslen(command_line) + 1;
  rec_cmdline = malloc(rec_cmdline_units * sizeof(wchar_t));
  memcpy(rec_cmdline, command_line, rec_cmdline_units * sizeof(wchar_t));
  rec_env_units = h_nmemb(environment);
  if (rec_env_units == (size_t) -1) rec_env_units = 0;
  rec_env = malloc(rec_env_units ? rec_env_units * sizeof(wchar_t) : 1);
  memcpy(rec_env, environment, rec_env_units * sizeof(wchar_t));
  info->hProcess = (HANDLE) (intptr_t) 0x1234;
  info->hThread = (HANDLE) (intptr_t) 0x1238;
  info->dwProcessId = 4242;
  info->dwThreadId = 4243;
  return 1;
}

UINT SetErrorMode(UINT mode) { (void) mode; return 0; }
DWORD GetProcessId(HANDLE process) { (void) process; return 4242; }
DWORD WaitForSingleObject(HANDLE handle, DWORD milliseconds)
{
  (void) handle; (void) milliseconds;
  return 0;
}
BOOL GetExitCodeProcess(HANDLE process, LPDWORD status) { (void) process; *status = 0; return 1; }
BOOL GenerateConsoleCtrlEvent(DWORD event, DWORD group) { (void) event; (void) group; return 1; }
BOOL TerminateProcess(HANDLE process, UINT status) { (void) process; (void) status; return 1; }

/* Strict UTF-8 decoder -> UTF-16.  Returns the number of UTF-16 units; with dest_size == 0
 * only counts.  source_size == -1: up to and including the terminating NUL.
 * Invalid input: error if MB_ERR_INVALID_CHARS, else U+FFFD per offending byte. */
int MultiByteToWideChar(UINT code_page, DWORD flags, LPCCH source, int source_size,
                        LPWSTR dest, int dest_size)
{
  if (code_page != CP_UTF8 || source == NULL || source_size == 0 || source_size < -1 ||
      dest_size < 0 || (dest_size > 0 && dest == NULL)) {
    last_error = ERROR_INVALID_PARAMETER;
    return 0;
  }
  const unsigned char *s = (const unsigned char *) source;
  size_t n = source_size == -1 ? strlen(source) + 1 : (size_t) source_size;
  size_t out = 0;
  for (size_t i = 0; i < n;) {
    uint32_t cp = 0xFFFD;
    size_t len = 1;
    unsigned char b = s[i];
    if (b < 0x80) {
      cp = b;
    } else {
      size_t want = b >= 0xF0 && b <= 0xF4 ? 4 : b >= 0xE0 && b < 0xF0 ? 3 : b >= 0xC2 && b < 0xE0 ? 2 : 0;
      int ok = want != 0 && i + want <= n;
      uint32_t v = want == 4 ? b & 0x07u : want == 3 ? b & 0x0Fu : b & 0x1Fu;
      for (size_t k = 1; ok && k < want; k++) {
        if ((s[i + k] & 0xC0) != 0x80) ok = 0;
        v = (v << 6) | (s[i + k] & 0x3Fu);
      }
      if (ok && ((want == 3 && (v < 0x800 || (v >= 0xD800 && v <= 0xDFFF))) ||
                 (want == 4 && (v < 0x10000 || v > 0x10FFFF)))) {
        ok = 0;
      }
      if (ok) {
        cp = v;
        len = want;
      } else if (flags & MB_ERR_INVALID_CHARS) {
        last_error = ERROR_NO_UNICODE_TRANSLATION;
        return 0;
      }
    }
    size_t units = cp >= 0x10000 ? 2 : 1;
    if (dest_size > 0) {
      if (out + units > (size_t) dest_size) {
        last_error = ERROR_INSUFFICIENT_BUFFER;
        return 0;
      }
      if (units == 2) {
        dest[out] = (wchar_t) (0xD800 + ((cp - 0x10000) >> 10));
        dest[out + 1] = (wchar_t) (0xDC00 + ((cp - 0x10000) & 0x3FF));
      } else {
        dest[out] = (wchar_t) cp;
      }
    }
    out += units;
    i += len;
  }
  if (out > INT_MAX) {
    last_error = ERROR_INVALID_PARAMETER;
    return 0;
  }
  return (int) out;
}
