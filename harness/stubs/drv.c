/* drv.c — primitives the OCaml driver uses to call the real reproc API (the objects
   compiled from /repo with their libc symbols redirected). */
#define _GNU_SOURCE
#include <errno.h>
#include <stdint.h>
#include <stdlib.h>
#include <string.h>

#define CAML_NAME_SPACE
#include <caml/alloc.h>
#include <caml/callback.h>
#include <caml/fail.h>
#include <caml/memory.h>
#include <caml/mlvalues.h>

#include <reproc/drain.h>
#include <reproc/reproc.h>
#include <reproc/run.h>

#include "sim.h"

#define PTR(v) ((reproc_t *) Nativeint_val(v))

value drv_init(value unit)
{
  (void) unit;
  sim_init_files();
  return Val_unit;
}

value drv_new(value unit)
{
  (void) unit;
  reproc_t *p = reproc_new();
  return caml_copy_nativeint((intnat) p);
}

static char *cstr(value s) { return strdup(String_val(s)); }
static const char *opt_cstr(value o) { return Is_block(o) ? cstr(Field(o, 0)) : NULL; }
static char **cstr_array(value a)
{
  mlsize_t n = Wosize_val(a);
  char **r = calloc(n + 1, sizeof(char *));
  for (mlsize_t i = 0; i < n; i++) r[i] = cstr(Field(a, i));
  r[n] = NULL;
  return r;
}
static char **opt_cstr_array(value o) { return Is_block(o) ? cstr_array(Field(o, 0)) : NULL; }

static reproc_redirect redirect_of(value r)
{
  reproc_redirect x;
  memset(&x, 0, sizeof(x));
  x.type = (REPROC_REDIRECT) Int_val(Field(r, 0));
  x.handle = Int_val(Field(r, 1));
  int f = Int_val(Field(r, 2));
  x.file = f > 0 && f < SIM_MAX_FILES ? sim_files[f] : NULL;
  x.path = opt_cstr(Field(r, 3));
  return x;
}

static reproc_stop_actions stop_of(value s)
{
  reproc_stop_actions a = { { (REPROC_STOP) Int_val(Field(s, 0)), Int_val(Field(s, 1)) },
                            { (REPROC_STOP) Int_val(Field(s, 2)), Int_val(Field(s, 3)) },
                            { (REPROC_STOP) Int_val(Field(s, 4)), Int_val(Field(s, 5)) } };
  return a;
}

/* options tuple layout (see Driver.copts):
   0 wd:string option, 1 env_behavior:int, 2 env_extra:string array option,
   3 in, 4 out, 5 err : (int*int*int*string option), 6 parent:bool, 7 discard:bool,
   8 file:int, 9 path:string option, 10 stop:(int*int*int*int*int*int), 11 deadline:int,
   12 input_data:bool, 13 input_size:int, 14 input_src:int, 15 fork:bool, 16 nonblocking:bool */
static reproc_options options_of(value o, unsigned char **input_buf)
{
  reproc_options x;
  memset(&x, 0, sizeof(x));
  x.working_directory = opt_cstr(Field(o, 0));
  x.env.behavior = (REPROC_ENV) Int_val(Field(o, 1));
  x.env.extra = (const char *const *) opt_cstr_array(Field(o, 2));
  x.redirect.in = redirect_of(Field(o, 3));
  x.redirect.out = redirect_of(Field(o, 4));
  x.redirect.err = redirect_of(Field(o, 5));
  x.redirect.parent = Bool_val(Field(o, 6));
  x.redirect.discard = Bool_val(Field(o, 7));
  int f = Int_val(Field(o, 8));
  x.redirect.file = f > 0 && f < SIM_MAX_FILES ? sim_files[f] : NULL;
  x.redirect.path = opt_cstr(Field(o, 9));
  x.stop = stop_of(Field(o, 10));
  x.deadline = Int_val(Field(o, 11));
  size_t size = (size_t) Long_val(Field(o, 13));
  *input_buf = NULL;
  if (Bool_val(Field(o, 12))) {
    long src = Long_val(Field(o, 14));
    unsigned char *b = malloc(size ? size : 1);
    for (size_t i = 0; i < size; i++) b[i] = sim_pattern(src, (long) i);
    sim_register_region(b, size, src, 0);
    *input_buf = b;
    x.input.data = b;
  }
  x.input.size = size;
  x.fork = Bool_val(Field(o, 15));
  x.nonblocking = Bool_val(Field(o, 16));
  return x;
}

/* environ for the library = what the driver hands over before each start-like op */
value drv_set_environ(value a)
{
  sim_environ = cstr_array(a); /* leaked on purpose: tiny, per scenario process */
  return Val_unit;
}

/* 1 if the library left `environ` (pointer and contents) as the driver set it */
value drv_environ_unchanged(value a)
{
  mlsize_t n = Wosize_val(a);
  if (sim_environ == NULL) return Val_bool(0);
  for (mlsize_t i = 0; i < n; i++) {
    if (sim_environ[i] == NULL || strcmp(sim_environ[i], String_val(Field(a, i))) != 0) {
      return Val_bool(0);
    }
  }
  return Val_bool(sim_environ[n] == NULL);
}

value drv_get_environ(value unit)
{
  CAMLparam1(unit);
  CAMLlocal1(a);
  size_t n = 0;
  while (sim_environ != NULL && sim_environ[n] != NULL) n++;
  if (n == 0) CAMLreturn(Atom(0));
  a = caml_alloc(n, 0);
  for (size_t i = 0; i < n; i++) Store_field(a, i, caml_copy_string(sim_environ[i]));
  CAMLreturn(a);
}

value drv_start(value p, value argv, value opts)
{
  CAMLparam3(p, argv, opts);
  unsigned char *input = NULL;
  char **av = opt_cstr_array(argv);
  reproc_options o = options_of(opts, &input);
  int r = reproc_start(PTR(p), (const char *const *) av, o);
  sim_clear_regions();
  free(input);
  CAMLreturn(Val_int(r));
}

value drv_pid(value p) { return Val_int(reproc_pid(PTR(p))); }

value drv_write(value p, value has_buf, value src, value off, value n)
{
  CAMLparam5(p, has_buf, src, off, n);
  size_t size = (size_t) Long_val(n);
  unsigned char *b = NULL;
  if (Bool_val(has_buf)) {
    b = malloc(size ? size : 1);
    for (size_t i = 0; i < size; i++) b[i] = sim_pattern(Long_val(src), Long_val(off) + (long) i);
    sim_register_region(b, size, Long_val(src), Long_val(off));
  }
  int r = reproc_write(PTR(p), b, size);
  sim_clear_regions();
  free(b);
  CAMLreturn(Val_int(r));
}

/* returns (r, bytes read as a string) */
value drv_read(value p, value stream, value has_buf, value n)
{
  CAMLparam4(p, stream, has_buf, n);
  CAMLlocal2(res, s);
  size_t size = (size_t) Long_val(n);
  unsigned char *b = Bool_val(has_buf) ? malloc(size ? size : 1) : NULL;
  int r = reproc_read(PTR(p), (REPROC_STREAM) Int_val(stream), b, size);
  s = r > 0 ? caml_alloc_initialized_string((mlsize_t) r, (const char *) b) : caml_copy_string("");
  free(b);
  res = caml_alloc_tuple(2);
  Store_field(res, 0, Val_int(r));
  Store_field(res, 1, s);
  CAMLreturn(res);
}

value drv_close(value p, value stream)
{
  return Val_int(reproc_close(PTR(p), (REPROC_STREAM) Int_val(stream)));
}

#define EVENTS_SENTINEL 0x5a5a

/* sources: array of (nativeint ptr, interests); returns (r, events array) */
value drv_poll(value srcs, value timeout)
{
  CAMLparam2(srcs, timeout);
  CAMLlocal2(res, ev);
  mlsize_t n = Wosize_val(srcs);
  reproc_event_source *s = n ? calloc(n, sizeof(*s)) : NULL;
  for (mlsize_t i = 0; i < n; i++) {
    s[i].process = PTR(Field(Field(srcs, i), 0));
    s[i].interests = Int_val(Field(Field(srcs, i), 1));
    s[i].events = EVENTS_SENTINEL;
  }
  int r = reproc_poll(s, n, Int_val(timeout));
  ev = n ? caml_alloc(n, 0) : Atom(0);
  for (mlsize_t i = 0; i < n; i++) Store_field(ev, i, Val_int(s[i].events));
  free(s);
  res = caml_alloc_tuple(2);
  Store_field(res, 0, Val_int(r));
  Store_field(res, 1, ev);
  CAMLreturn(res);
}

value drv_wait(value p, value t) { return Val_int(reproc_wait(PTR(p), Int_val(t))); }
value drv_terminate(value p) { return Val_int(reproc_terminate(PTR(p))); }
value drv_kill(value p) { return Val_int(reproc_kill(PTR(p))); }
value drv_stop(value p, value s) { return Val_int(reproc_stop(PTR(p), stop_of(s))); }
value drv_destroy(value p)
{
  reproc_t *r = reproc_destroy(PTR(p));
  return Val_bool(r == NULL);
}

static int sink_fn(REPROC_STREAM stream, const uint8_t *buffer, size_t size, void *context)
{
  CAMLparam0();
  CAMLlocal1(s);
  static const value *f = NULL;
  if (f == NULL) f = caml_named_value("drv_sink");
  s = caml_alloc_initialized_string(size, (const char *) buffer);
  int r = Int_val(caml_callback3(*f, Val_long((long) (intptr_t) context), Val_int(stream), s));
  CAMLreturnT(int, r);
}

value drv_drain(value p, value has_out, value has_err)
{
  reproc_sink out = { Bool_val(has_out) ? sink_fn : NULL, (void *) 0 };
  reproc_sink err = { Bool_val(has_err) ? sink_fn : NULL, (void *) 1 };
  return Val_int(reproc_drain(PTR(p), out, err));
}

value drv_run_ex(value argv, value opts)
{
  CAMLparam2(argv, opts);
  unsigned char *input = NULL;
  char **av = opt_cstr_array(argv);
  reproc_options o = options_of(opts, &input);
  reproc_sink out = { sink_fn, (void *) 0 };
  reproc_sink err = { sink_fn, (void *) 1 };
  int r = reproc_run_ex((const char *const *) av, o, out, err);
  sim_clear_regions();
  free(input);
  CAMLreturn(Val_int(r));
}

value drv_run(value argv, value opts)
{
  CAMLparam2(argv, opts);
  unsigned char *input = NULL;
  char **av = opt_cstr_array(argv);
  reproc_options o = options_of(opts, &input);
  int r = reproc_run((const char *const *) av, o);
  sim_clear_regions();
  free(input);
  CAMLreturn(Val_int(r));
}

value drv_pattern(value src, value off) { return Val_int(sim_pattern(Long_val(src), Long_val(off))); }

value drv_heap_check(value unit) { sim_heap_check(); return Val_unit; }
