/* sim_libc.c — the libc entry points of reproc's objects, redirected (objcopy
   --redefine-sym X=sim_X) into the extracted Coq world.  Each stub converts its
   arguments, calls the registered OCaml closure, writes back out-parameters and
   installs the modelled errno.  No logic lives here. */
#define _GNU_SOURCE
#include <errno.h>
#include <fcntl.h>
#include <poll.h>
#include <signal.h>
#include <stdarg.h>
#include <stdint.h>
#include <stdio.h>
#include <stdlib.h>
#include <string.h>
#include <sys/resource.h>
#include <sys/types.h>
#include <sys/wait.h>
#include <time.h>
#include <unistd.h>

#define CAML_NAME_SPACE
#include <caml/alloc.h>
#include <caml/callback.h>
#include <caml/fail.h>
#include <caml/memory.h>
#include <caml/mlvalues.h>

#include "sim.h"

/* ---- data symbols ---- */
char **sim_environ = NULL;
FILE *sim_stdin = NULL;
FILE *sim_stdout = NULL;
FILE *sim_stderr = NULL;

FILE *sim_files[SIM_MAX_FILES];

void sim_init_files(void)
{
  for (int i = 1; i < SIM_MAX_FILES; i++) {
    sim_files[i] = fopen("/dev/null", "r+");
  }
  sim_stdin = sim_files[1];
  sim_stdout = sim_files[2];
  sim_stderr = sim_files[3];
}

static int file_id(FILE *f)
{
  for (int i = 1; i < SIM_MAX_FILES; i++) {
    if (sim_files[i] == f) return i;
  }
  return 0;
}

/* ---- closures ---- */
static const value *cb(const char *name)
{
  const value *v = caml_named_value(name);
  if (v == NULL) {
    fprintf(stderr, "sim: closure %s not registered\n", name);
    abort();
  }
  return v;
}

static void install_errno(void)
{
  static const value *f = NULL;
  if (f == NULL) f = cb("sim_errno");
  errno = Int_val(caml_callback(*f, Val_unit));
}

#define CB(var, name)                                                          \
  static const value *var = NULL;                                              \
  if (var == NULL) var = cb(name)

/* ---- pattern data ---- */
unsigned char sim_pattern(long src, long off)
{
  return (unsigned char) (((src * 131 + off * 7 + off / 251) % 255) + 1);
}

struct region { const unsigned char *base; size_t len; long src; long off; };
static struct region regions[8];
static int nregions = 0;

void sim_register_region(const void *base, size_t len, long src, long off)
{
  if (nregions < 8) {
    regions[nregions++] = (struct region){ base, len, src, off };
  }
}
void sim_clear_regions(void) { nregions = 0; }

/* ---- heap ledger: block id <-> address, with a canary zone after every block ---- */
#define CANARY 64
struct blk { void *p; long id; size_t n; };
static struct blk *blks = NULL;
static size_t nblks = 0, capblks = 0;

static void heap_flag(const char *what)
{
  CB(f, "sim_flag");
  caml_callback(*f, caml_copy_string(what));
}
static void canary_set(void *p, size_t n) { memset((unsigned char *) p + n, 0xA5, CANARY); }
static void canary_check(void *p, size_t n)
{
  const unsigned char *c = (const unsigned char *) p + n;
  for (size_t i = 0; i < CANARY; i++) {
    if (c[i] != 0xA5) { heap_flag("heap-overflow"); return; }
  }
}
static void blk_add(void *p, long id, size_t n)
{
  if (nblks == capblks) {
    capblks = capblks ? capblks * 2 : 64;
    blks = realloc(blks, capblks * sizeof(*blks));
  }
  blks[nblks++] = (struct blk){ p, id, n };
  canary_set(p, n);
}
static long blk_find(void *p, int remove)
{
  for (size_t i = 0; i < nblks; i++) {
    if (blks[i].p == p) {
      long id = blks[i].id;
      canary_check(p, blks[i].n);
      if (remove) blks[i] = blks[--nblks];
      return id;
    }
  }
  return -1;
}
void sim_heap_check(void)
{
  for (size_t i = 0; i < nblks; i++) canary_check(blks[i].p, blks[i].n);
}

void *sim_malloc(size_t n)
{
  CB(f, "sim_malloc");
  long id = Long_val(caml_callback(*f, Val_long((long) n)));
  install_errno();
  if (id == 0) return NULL;
  void *p = malloc(n + CANARY);
  blk_add(p, id, n);
  return p;
}

void *sim_calloc(size_t k, size_t n)
{
  CB(f, "sim_calloc");
  long id = Long_val(caml_callback2(*f, Val_long((long) k), Val_long((long) n)));
  install_errno();
  if (id == 0) return NULL;
  void *p = calloc(1, k * n + CANARY);
  blk_add(p, id, k * n);
  return p;
}

void *sim_realloc(void *old, size_t n)
{
  CB(f, "sim_realloc");
  long oid = old == NULL ? 0 : blk_find(old, 0);
  long id = Long_val(caml_callback2(*f, Val_long(oid), Val_long((long) n)));
  install_errno();
  if (id == 0) return NULL;
  if (old != NULL) blk_find(old, 1);
  void *p = realloc(oid >= 0 ? old : NULL, n + CANARY);
  blk_add(p, id, n);
  return p;
}

void sim_free(void *p)
{
  CB(f, "sim_free");
  long id = p == NULL ? 0 : blk_find(p, 1);
  int saved = errno;
  caml_callback(*f, Val_long(id));
  if (p != NULL && id > 0) free(p);
  errno = saved; /* free leaves errno alone */
}

char *sim_strdup(const char *s)
{
  CB(f, "sim_strdup");
  long id = Long_val(caml_callback(*f, caml_copy_string(s)));
  install_errno();
  if (id == 0) return NULL;
  size_t n = strlen(s) + 1;
  char *p = malloc(n + CANARY);
  memcpy(p, s, n);
  blk_add(p, id, n);
  return p;
}

/* ---- descriptors ---- */
int sim_pipe(int fds[2])
{
  CAMLparam0();
  CAMLlocal1(r);
  CB(f, "sim_pipe");
  r = caml_callback(*f, Val_unit);
  int ret = Int_val(Field(r, 0));
  if (ret == 0) {
    fds[0] = Int_val(Field(r, 1));
    fds[1] = Int_val(Field(r, 2));
  }
  install_errno();
  CAMLreturnT(int, ret);
}

int sim_fcntl(int fd, int cmd, ...)
{
  va_list ap;
  va_start(ap, cmd);
  int arg = va_arg(ap, int);
  va_end(ap);
  int which;
  switch (cmd) {
    case F_GETFD: which = 0; break;
    case F_SETFD: which = 1; break;
    case F_GETFL: which = 2; break;
    case F_SETFL: which = 3; break;
    case F_DUPFD_CLOEXEC: which = 5; break;
    case F_DUPFD: which = 6; break;
    default: which = 4; break;
  }
  CB(f, "sim_fcntl");
  int ret = Int_val(caml_callback3(*f, Val_int(fd), Val_int(which), Val_int(arg)));
  install_errno();
  return ret;
}

int sim_close(int fd)
{
  CB(f, "sim_close");
  int ret = Int_val(caml_callback(*f, Val_int(fd)));
  install_errno();
  return ret;
}

int sim_dup2(int a, int b)
{
  CB(f, "sim_dup2");
  int ret = Int_val(caml_callback2(*f, Val_int(a), Val_int(b)));
  install_errno();
  return ret;
}

ssize_t sim_read(int fd, void *buf, size_t n)
{
  CAMLparam0();
  CAMLlocal1(r);
  CB(f, "sim_read");
  /* returns (ret, bytes) — the bytes are the expansion of the runs the world delivered */
  r = caml_callback2(*f, Val_int(fd), Val_long((long) n));
  long ret = Long_val(Field(r, 0));
  if (ret > 0) {
    memcpy(buf, String_val(Field(r, 1)), (size_t) ret);
  }
  install_errno();
  CAMLreturnT(ssize_t, ret);
}

ssize_t sim_write(int fd, const void *buf, size_t n)
{
  CAMLparam0();
  CAMLlocal2(r, s);
  CB(fpos, "sim_write_pos");
  CB(flit, "sim_write_lit");
  const unsigned char *b = buf;
  long ret;
  for (int i = 0; i < nregions; i++) {
    if (b >= regions[i].base && b + n <= regions[i].base + regions[i].len) {
      long off = regions[i].off + (long) (b - regions[i].base);
      value args[4] = { Val_int(fd), Val_long(regions[i].src), Val_long(off), Val_long((long) n) };
      ret = Long_val(caml_callbackN(*fpos, 4, args));
      install_errno();
      CAMLreturnT(ssize_t, ret);
    }
  }
  s = caml_alloc_initialized_string(n, (const char *) buf);
  ret = Long_val(caml_callback2(*flit, Val_int(fd), s));
  install_errno();
  CAMLreturnT(ssize_t, ret);
}

int sim_poll(struct pollfd *fds, nfds_t nfds, int timeout)
{
  CAMLparam0();
  CAMLlocal3(a, e, r);
  CB(f, "sim_poll");
  a = caml_alloc(nfds, 0);
  e = caml_alloc(nfds, 0);
  for (nfds_t i = 0; i < nfds; i++) {
    Store_field(a, i, Val_int(fds[i].fd));
    Store_field(e, i, Val_int(fds[i].events));
  }
  if (nfds == 0) { a = Atom(0); e = Atom(0); }
  r = caml_callback3(*f, a, e, Val_int(timeout));
  int ret = Int_val(Field(r, 0));
  if (ret >= 0) {
    for (nfds_t i = 0; i < nfds; i++) {
      fds[i].revents = (short) Int_val(Field(Field(r, 1), i));
    }
  }
  install_errno();
  CAMLreturnT(int, ret);
}

int sim_open(const char *path, int flags, ...)
{
  va_list ap;
  va_start(ap, flags);
  int mode = va_arg(ap, int);
  va_end(ap);
  CB(f, "sim_open");
  int ret = Int_val(caml_callback3(*f, caml_copy_string(path), Val_int(flags), Val_int(mode)));
  install_errno();
  return ret;
}

int sim_fileno(FILE *file)
{
  CB(f, "sim_fileno");
  int ret = Int_val(caml_callback(*f, Val_int(file_id(file))));
  install_errno();
  return ret;
}

/* ---- processes ---- */
pid_t sim_fork(void)
{
  CB(f, "sim_fork");
  int ret = Int_val(caml_callback(*f, Val_unit));
  install_errno();
  return ret;
}

static value string_array(char *const *v)
{
  CAMLparam0();
  CAMLlocal1(a);
  size_t n = 0;
  while (v != NULL && v[n] != NULL) n++;
  if (n == 0) CAMLreturn(Atom(0));
  a = caml_alloc(n, 0);
  for (size_t i = 0; i < n; i++) {
    Store_field(a, i, caml_copy_string(v[i]));
  }
  CAMLreturn(a);
}

int sim_execvp(const char *prog, char *const argv[])
{
  CAMLparam0();
  CAMLlocal3(p, a, e);
  CB(f, "sim_execvp");
  p = caml_copy_string(prog);
  a = string_array(argv);
  e = string_array(sim_environ);
  int ret = Int_val(caml_callback3(*f, p, a, e)); /* does not return on success */
  install_errno();
  CAMLreturnT(int, ret);
}

void sim__exit(int code)
{
  CB(f, "sim__exit");
  caml_callback(*f, Val_int(code)); /* does not return */
  abort();
}

pid_t sim_waitpid(pid_t pid, int *status, int options)
{
  CAMLparam0();
  CAMLlocal1(r);
  CB(f, "sim_waitpid");
  r = caml_callback2(*f, Val_int(pid), Val_int(options));
  int ret = Int_val(Field(r, 0));
  if (ret >= 0 && status != NULL) *status = Int_val(Field(r, 1));
  install_errno();
  CAMLreturnT(pid_t, ret);
}

/* rewrites of the library may reach for these equivalents: same world calls */
pid_t sim_wait(int *status) { return sim_waitpid(-1, status, 0); }
int sim_dup(int fd) { return sim_fcntl(fd, F_DUPFD, 0); }
int sim_waitid(idtype_t idtype, id_t id, siginfo_t *info, int options)
{
  if ((idtype != P_PID && idtype != P_ALL) || !(options & WEXITED) || (options & (WNOWAIT | WSTOPPED | WCONTINUED))) {
    fprintf(stderr, "sim_waitid: unmodelled arguments\n");
    abort();
  }
  int st = 0;
  pid_t r = sim_waitpid(idtype == P_PID ? (pid_t) id : -1, &st, options & WNOHANG);
  if (r < 0) return -1;
  if (info != NULL) {
    memset(info, 0, sizeof(*info));
    if (r > 0) {
      info->si_signo = SIGCHLD;
      info->si_pid = r;
      if (WIFEXITED(st)) { info->si_code = CLD_EXITED; info->si_status = WEXITSTATUS(st); }
      else { info->si_code = WCOREDUMP(st) ? CLD_DUMPED : CLD_KILLED; info->si_status = WTERMSIG(st); }
    }
  }
  return 0;
}

int sim_kill(pid_t pid, int sig)
{
  CB(f, "sim_kill");
  int ret = Int_val(caml_callback2(*f, Val_int(pid), Val_int(sig)));
  install_errno();
  return ret;
}

int sim_chdir(const char *path)
{
  CB(f, "sim_chdir");
  int ret = Int_val(caml_callback(*f, caml_copy_string(path)));
  install_errno();
  return ret;
}

char *sim_getcwd(char *buf, size_t size)
{
  CAMLparam0();
  CAMLlocal1(r);
  CB(f, "sim_getcwd");
  r = caml_callback(*f, Val_long((long) size));
  int ret = Int_val(Field(r, 0));
  if (ret == 0) {
    size_t n = caml_string_length(Field(r, 1));
    memcpy(buf, String_val(Field(r, 1)), n);
    buf[n] = '\0';
  }
  install_errno();
  CAMLreturnT(char *, ret == 0 ? buf : NULL);
}

int sim_getrlimit(int resource, struct rlimit *lim)
{
  CAMLparam0();
  CAMLlocal1(r);
  CB(f, "sim_getrlimit");
  r = caml_callback(*f, Val_int(resource));
  int ret = Int_val(Field(r, 0));
  if (ret == 0) {
    long soft = Long_val(Field(r, 1));
    lim->rlim_cur = soft < 0 ? RLIM_INFINITY : (rlim_t) soft;
    lim->rlim_max = lim->rlim_cur;
  }
  install_errno();
  CAMLreturnT(int, ret);
}

/* ---- signals ---- */
int sim_sigfillset(sigset_t *set)
{
  CB(f, "sim_sigfillset");
  int ret = Int_val(caml_callback(*f, Val_unit));
  if (ret == 0) sigfillset(set);
  install_errno();
  return ret;
}

int sim_sigemptyset(sigset_t *set)
{
  CB(f, "sim_sigemptyset");
  int ret = Int_val(caml_callback(*f, Val_unit));
  if (ret == 0) sigemptyset(set);
  install_errno();
  return ret;
}

static void sim_query_handler(int sig) { (void) sig; }

int sim_sigaction(int sig, const struct sigaction *act, struct sigaction *old)
{
  int kind = 0;
  if (old != NULL) {
    /* the disposition before the call (a query when act is NULL) */
    if (sig <= 0 || sig > 64) {
      if (act == NULL) { errno = EINVAL; return -1; }
    } else {
      CB(q, "sim_sigaction_query");
      int k = Int_val(caml_callback(*q, Val_int(sig)));
      memset(old, 0, sizeof(*old));
      old->sa_handler = k == 0 ? SIG_DFL : k == 1 ? SIG_IGN : sim_query_handler;
    }
  }
  if (act == NULL) {
    if (sig <= 0 || sig > 64) { errno = EINVAL; return -1; }
    return 0;
  }
  kind = act->sa_handler == SIG_DFL ? 0 : act->sa_handler == SIG_IGN ? 1 : 2;
  CB(f, "sim_sigaction");
  int ret = Int_val(caml_callback2(*f, Val_int(sig), Val_int(kind)));
  install_errno();
  return ret;
}

int sim_pthread_sigmask(int how, const sigset_t *set, sigset_t *old)
{
  CAMLparam0();
  CAMLlocal2(a, r);
  CB(f, "sim_sigmask");
  int n = 0;
  int members[65];
  if (set != NULL) {
    for (int s = 1; s <= 64; s++) {
      if (sigismember(set, s) == 1) members[n++] = s;
    }
  }
  if (n == 0) {
    a = Atom(0);
  } else {
    a = caml_alloc(n, 0);
    for (int i = 0; i < n; i++) Store_field(a, i, Val_int(members[i]));
  }
  int saved = errno;
  r = caml_callback3(*f, Val_int(how), Val_bool(set != NULL), a);
  int ret = Int_val(Field(r, 0));
  if (ret == 0 && old != NULL) {
    sigemptyset(old);
    for (mlsize_t i = 0; i < Wosize_val(Field(r, 1)); i++) {
      sigaddset(old, Int_val(Field(Field(r, 1), i)));
    }
  }
  errno = saved; /* pthread_sigmask does not touch errno */
  CAMLreturnT(int, ret);
}

int sim_sigprocmask(int how, const sigset_t *set, sigset_t *old)
{
  int e = sim_pthread_sigmask(how, set, old);
  if (e != 0) {
    errno = e;
    return -1;
  }
  return 0;
}

int sim_clock_gettime(clockid_t id, struct timespec *ts)
{
  CAMLparam0();
  CAMLlocal1(r);
  (void) id;
  CB(f, "sim_clock");
  r = caml_callback(*f, Val_unit);
  ts->tv_sec = Long_val(Field(r, 0));
  ts->tv_nsec = Long_val(Field(r, 1));
  CAMLreturnT(int, 0);
}
