#pragma once
#include <stddef.h>
#include <stdio.h>
#define SIM_MAX_FILES 16
extern char **sim_environ;
extern FILE *sim_stdin, *sim_stdout, *sim_stderr;
extern FILE *sim_files[SIM_MAX_FILES];
void sim_init_files(void);
unsigned char sim_pattern(long src, long off);
void sim_register_region(const void *base, size_t len, long src, long off);
void sim_clear_regions(void);
void sim_heap_check(void);
