(* mon.ml — per-property monitors (the oracle evaluated on implementation runs and on model
   runs) and projections (what model and implementation must agree on for a property).
   A monitor looks only at a run record: op results, the worlds before/after each op and
   the system-call trace.  It never consults the model.  Failures carry a stable key. *)
open Model
open Glue

let i = int_of_z
type fail = { key : string; what : string }
let fails : fail list ref = ref []
let fail key what = if not (List.exists (fun f -> f.key = key) !fails) then fails := { key; what } :: !fails

let rec take n l = if n <= 0 then [] else match l with [] -> [] | x :: r -> x :: take (n - 1) r
let rec drop n l = if n <= 0 then l else match l with [] -> [] | _ :: r -> drop (n - 1) r
let sum l = List.fold_left ( + ) 0 l

(* events appended between two worlds, oldest first *)
let events_between (a : world) (b : world) : event list =
  let na = List.length a.w_trace and nb = List.length b.w_trace in
  List.rev (take (nb - na) b.w_trace)
let step_events (st : step) = events_between st.s_before st.s_after

let proc w pid = get_proc (z_of_int pid) w
let main_of (r : runres) = i r.r_last.w_main
let fds_of w pid = List.map (fun (k, d) -> (i k, d)) (fds_list (proc w pid))
let is_call c (e : event) = e.e_call = c
let by pid (e : event) = i e.e_pid = pid
let ret (e : event) = i e.e_ret
let arg n (e : event) = match List.nth_opt e.e_args n with Some z -> i z | None -> min_int
let out n (e : event) = match List.nth_opt e.e_outs n with Some z -> i z | None -> min_int

let exists w pid = List.exists (fun (k, _) -> i k = pid) (procs_list w)
let ended w pid = exists w pid && (match (proc w pid).pr_state with Running -> false | _ -> true)
let reaped w pid = exists w pid && (match (proc w pid).pr_state with Reaped _ -> true | _ -> false)
let wstatus w pid = match (proc w pid).pr_state with
  | Zombie st | Reaped st -> Some (i (Z.of_N st)) | Running -> None
let decode st = if st land 127 = 0 then (st lsr 8) land 255 else (st land 127) + 128
let end_time w pid = match (proc w pid).pr_end with Some t -> Some (i t) | None -> None

let einval = -22 and epipe = -32 and etimedout = -110 and eagain = -11 and enomem = -12
let ev_in = 1 and ev_out = 2 and ev_err = 4 and ev_exit = 8 and ev_deadline = 16

(* ---- handle bookkeeping while walking a run ---- *)
type hinfo = {
  mutable child : int;                 (* pid of the child of the successful start, -1 *)
  mutable live : bool;                 (* slot holds a handle *)
  mutable started : bool;              (* a start returned > 0 *)
  mutable in_child : bool;
  mutable opts : options option;       (* options of the successful start *)
  mutable eff : options option;        (* as resolved by parse_options *)
  mutable argv : z list list option;
  mutable fork_mode : bool;
  mutable status : int option;         (* first status returned by wait/stop *)
  mutable start_after : world option;  (* world right after the successful start *)
  mutable deadline_abs : int option;
  mutable pclosed : bool array;        (* stream closed by the parent (reproc_close) *)
  mutable epiped : bool array;         (* closed-pipe error already returned for stream *)
  mutable failed_children : int list;  (* children of failed starts on this slot *)
}
let new_hinfo () = { child = -1; live = true; started = false; in_child = false; opts = None; eff = None;
                     argv = None; fork_mode = false; status = None; start_after = None;
                     deadline_abs = None; pclosed = [| false; false; false |];
                     epiped = [| false; false; false |]; failed_children = [] }

let argv_form (a : z list list option) = match a with None -> ArgvNull | Some [] -> ArgvEmpty | Some _ -> ArgvOk

let forked_children main evs =
  List.filter_map (fun e -> if by main e && is_call CFork e && ret e > 0 then Some (ret e) else None) evs

let no_latency (r : runres) = r.r_last.w_lat = []
let faults_of (r : runres) = List.map (fun (k, e) -> (i k, int_of_pos e)) r.r_last.w_faults

(* walk the steps; [f tbl idx step events] is called with the table as it was BEFORE the step *)
let walk (r : runres) (f : (int, hinfo) Hashtbl.t -> int -> step -> event list -> unit) : (int, hinfo) Hashtbl.t =
  let tbl : (int, hinfo) Hashtbl.t = Hashtbl.create 8 in
  let main = main_of r in
  (* an op that never returned (hang / crash) is visited as a final pseudo-step with result RSkip *)
  let steps = match r.r_pending with
    | Some o ->
      let last_w = (match List.rev r.r_steps with st :: _ -> st.s_after | [] -> r.r_last) in
      r.r_steps @ [ { s_op = o; s_res = RSkip; s_before = last_w; s_after = r.r_last } ]
    | None -> r.r_steps in
  List.iteri (fun idx st ->
      let evs = step_events st in
      f tbl idx st evs;
      (match st.s_op, st.s_res with
       | ONew h, RNew ok -> if ok then Hashtbl.replace tbl (i h) (new_hinfo ()) else Hashtbl.remove tbl (i h)
       | OStart (h, argv, o, _, _), RInt rr ->
         (match Hashtbl.find_opt tbl (i h) with
          | Some hi ->
            let kids = forked_children main evs in
            if i rr > 0 && not hi.started then begin
              hi.started <- true; hi.opts <- Some o; hi.argv <- argv; hi.fork_mode <- o.o_fork;
              hi.eff <- parse_options o (argv_form argv);
              hi.child <- (match List.rev kids with c :: _ -> c | [] -> -1);
              hi.start_after <- Some st.s_after;
              hi.deadline_abs <- (if i o.o_deadline <> 0 then Some (i st.s_after.w_time + i o.o_deadline) else None)
            end else if i rr < 0 then hi.failed_children <- kids @ hi.failed_children
          | None -> ())
       | OS (SWait (h, _)), RInt rr | OS (SStop (h, _)), RInt rr ->
         (match Hashtbl.find_opt tbl (i h) with
          | Some hi -> if i rr >= 0 && hi.started && hi.status = None then hi.status <- Some (i rr)
          | None -> ())
       | OS (SClose (h, s)), RInt rr ->
         (match Hashtbl.find_opt tbl (i h) with
          | Some hi -> if i rr = 0 && i s >= 0 && i s <= 2 && hi.started then hi.pclosed.(i s) <- true
          | None -> ())
       | OS (SRead (h, s, _, _)), RRead (rr, _) ->
         (match Hashtbl.find_opt tbl (i h) with
          | Some hi -> if i rr = epipe && (i s = 1 || i s = 2) && hi.started then hi.epiped.(i s) <- true
          | None -> ())
       | OS (SDrain (h, _, _, _, _, _)), RDrain (_, calls) ->
         (match Hashtbl.find_opt tbl (i h) with
          | Some hi when hi.started ->
            List.iteri (fun k (((_, s), n), _) -> if k >= 2 && i n = 0 && (i s = 1 || i s = 2) then hi.epiped.(i s) <- true) calls
          | _ -> ())
       | OS (SDestroy h), RUnit -> Hashtbl.remove tbl (i h)
       | _ -> ())) steps;
  tbl

(* pipe id behind descriptor [fd] of the child's exec image *)
let image_obj (w : world) child fd : obj option =
  match (proc w child).pr_image with
  | Some im -> (match List.find_opt (fun (k, _) -> i k = fd) im.im_fds with Some (_, d) -> Some d.f_obj | None -> None)
  | None -> None
let image_of (w : world) child = (proc w child).pr_image

(* the parent's descriptor on the other end of the pipe behind child stream [s] (0,1,2) *)
let parent_end (w_after_start : world) (w : world) main child s : int option =
  match image_obj w_after_start child s with
  | Some (OPipeR q) -> (* child's stdin: parent holds the write end *)
    List.find_map (fun (fd, d) -> if d.f_obj = OPipeW q then Some fd else None) (fds_of w main)
  | Some (OPipeW q) ->
    List.find_map (fun (fd, d) -> if d.f_obj = OPipeR q then Some fd else None) (fds_of w main)
  | _ -> None

(* the exit pipe: the single extra descriptor of the image *)
let image_extras (w : world) child =
  match image_of w child with
  | Some im -> List.filter (fun (k, _) -> i k > 2) im.im_fds
  | None -> []
let exit_parent_end ws w main child : int option =
  match image_extras ws child with
  | [ (_, { f_obj = OPipeW q; _ }) ] ->
    List.find_map (fun (fd, d) -> if d.f_obj = OPipeR q then Some fd else None) (fds_of w main)
  | _ -> None

let h_exit_ok (w : world) child =
  (* README caveat (assumption A5): the child neither closed the exit descriptor early nor
     left it to a surviving grandchild.  True when, among running processes other than the
     child, nobody holds a write end of the exit pipe and the child still holds it while it runs. *)
  match image_extras w child with
  | [ (fd, { f_obj = OPipeW q; _ }) ] ->
    let others = List.filter (fun (pid, p) -> i pid <> child && p.pr_state = Running
                                             && List.exists (fun (_, d) -> d.f_obj = OPipeW q) (fds_list p))
        (procs_list w) in
    let self_ok = (proc w child).pr_state <> Running
                  || List.exists (fun (k, d) -> k = i fd && d.f_obj = OPipeW q) (fds_of w child) in
    others = [] && self_ok
  | _ -> false

(* normalised stop actions (documentation: all-noop = wait until deadline, then terminate) *)
let norm_stop (s : stop_actions) =
  let l = [ (i s.st_first.sa_action, i s.st_first.sa_timeout); (i s.st_second.sa_action, i s.st_second.sa_timeout);
            (i s.st_third.sa_action, i s.st_third.sa_timeout) ] in
  if List.for_all (fun (a, _) -> a = 0) l then [ (1, -2); (2, -1) ] else List.filter (fun (a, _) -> a <> 0) l

let injected_failure (r : runres) (e : event) =
  (* was this event failed by the fault plan?  (call index is not in the event; use errno match) *)
  List.exists (fun (_, en) -> if e.e_call = CSigmask then ret e = en
                else ((ret e = -1 || (ret e = 0 && List.mem e.e_call [ CMalloc; CCalloc; CRealloc; CStrdup ])) && i e.e_errno = en)) (faults_of r)

(* ================= monitors ================= *)

(* C01: exact status, never early, stable, reaped exactly once *)
let mon_c01 (r : runres) =
  let main = main_of r in
  let reaps : (int, int) Hashtbl.t = Hashtbl.create 8 in
  let tbl = walk r (fun tbl _ st evs ->
      let handle_of = match st.s_op with
        | OS (SWait (h, _)) | OS (SStop (h, _)) | OS (STerminate h) | OS (SKill h) | OS (SDestroy h) -> Some (i h)
        | _ -> None in
      List.iter (fun e ->
          if by main e && is_call CWaitpid e && ret e > 0 then
            Hashtbl.replace reaps (ret e) (1 + Option.value ~default:0 (Hashtbl.find_opt reaps (ret e)))) evs;
      match handle_of with
      | None -> ()
      | Some h ->
        (match Hashtbl.find_opt tbl h with
         | Some hi when hi.started && hi.child > 0 ->
           let c = hi.child in
           (match st.s_op, st.s_res with
            | (OS (SWait _) | OS (SStop _)), RInt rr when i rr >= 0 ->
              let rr = i rr in
              if not (ended st.s_after c) then
                fail "C01/status-early" (Printf.sprintf "status %d returned while child %d still runs" rr c)
              else begin
                (match wstatus st.s_after c with
                 | Some ws -> if decode ws <> rr then
                     fail "C01/status-exact" (Printf.sprintf "returned %d, child ended with wait status %d (=%d)" rr ws (decode ws))
                 | None -> ());
                (match hi.status with
                 | Some s0 ->
                   if s0 <> rr then fail "C01/status-unstable" (Printf.sprintf "first status %d, later %d" s0 rr);
                   if List.exists (fun e -> i e.e_blocked > 0) evs then
                     fail "C01/status-not-immediate" "a wait/stop after the status was known blocked";
                   if List.exists (fun e -> by main e && is_call CWaitpid e) evs then
                     fail "C01/reap-twice/attempt-after-status" "waitpid attempted after a status was returned"
                 | None -> ())
              end
            | (OS (SWait _) | OS (SStop _)), RInt rr when i rr < 0 && hi.status <> None ->
              let in_range_stop = (match st.s_op with OS (SStop (_, a)) -> List.for_all (fun (x, _) -> x >= 1 && x <= 3) (norm_stop a) | _ -> true) in
              if in_range_stop then
                fail "C01/status-unstable/error-after-status"
                  (Printf.sprintf "status %d had been returned, a later wait/stop returned %d" (Option.get hi.status) (i rr))
            | _ -> ());
           (* liveness: a child that has ended is reported — no hang, no time-out *)
           (match st.s_op, st.s_res with
            | (OS (SWait _) | OS (SStop _)), (RSkip | RInt _) when hi.status = None && ended st.s_before c
                                                                  && h_exit_ok (match hi.start_after with Some w -> w | None -> st.s_before) c
                                                                  && not (List.exists (fun e -> injected_failure r e) evs) ->
              let in_range_stop = (match st.s_op with OS (SStop (_, a)) -> List.for_all (fun (x, _) -> x >= 1 && x <= 3) (norm_stop a) | _ -> true) in
              (match st.s_res with
               | RSkip when r.r_final = FHang -> fail "C01/hang-though-exited" (Printf.sprintf "wait/stop blocks for ever although child %d has ended" c)
               | RInt rr when i rr = etimedout && in_range_stop -> fail "C01/timeout-though-exited" (Printf.sprintf "wait/stop timed out although child %d had ended before the call" c)
               | _ -> ())
            | _ -> ());
           (match hi.status, st.s_op with
            | Some _, (OS (STerminate _) | OS (SKill _) | OS (SDestroy _)) ->
              if List.exists (fun e -> by main e && is_call CWaitpid e) evs then
                fail "C01/reap-twice/attempt-after-status" "waitpid attempted after a status was returned"
            | _ -> ())
         | _ -> ())) in
  Hashtbl.iter (fun c n -> if n > 1 then fail "C01/reap-twice" (Printf.sprintf "child %d reaped %d times" c n)) reaps;
  (* a child for which a status was returned is reaped at the end (handles still in the table) *)
  Hashtbl.iter (fun _ hi ->
      if hi.status <> None && hi.child > 0 && not (reaped r.r_last hi.child) then
        fail "C01/zombie-left" (Printf.sprintf "status returned but child %d is not reaped" hi.child)) tbl

(* C06: signals and reaps target only the handle's own, unreaped, positive pid *)
let mon_c06 (r : runres) =
  let main = main_of r in
  let own : (int, unit) Hashtbl.t = Hashtbl.create 8 in
  ignore (walk r (fun tbl _ st evs ->
      let target = match st.s_op with
        | OS (SWait (h, _)) | OS (SStop (h, _)) | OS (STerminate h) | OS (SKill h) | OS (SDestroy h) ->
          (match Hashtbl.find_opt tbl (i h) with Some hi when hi.started -> Some hi | _ -> None)
        | _ -> None in
      let reaped_now = ref (fun c -> reaped st.s_before c) in
      List.iter (fun e ->
          if by main e && is_call CFork e && ret e > 0 then Hashtbl.replace own (ret e) ();
          if by main e && (is_call CKill e || is_call CWaitpid e) then begin
            let pid = arg 0 e in
            let what = if is_call CKill e then "signal" else "reap" in
            if pid <= 0 then fail (Printf.sprintf "C06/%s-target/pid<=0" what) (Printf.sprintf "%s targets pid %d" what pid)
            else if not (Hashtbl.mem own pid) then
              fail (Printf.sprintf "C06/%s-target/foreign" what) (Printf.sprintf "%s targets pid %d, not a child this library started" what pid)
            else begin
              (match st.s_op, target with
               | OStart _, _ ->
                 if not (List.mem pid (forked_children main evs)) then
                   fail (Printf.sprintf "C06/%s-target/foreign" what) (Printf.sprintf "start %ss pid %d of another handle" what pid)
               | _, Some hi ->
                 if pid <> hi.child then
                   fail (Printf.sprintf "C06/%s-target/foreign" what) (Printf.sprintf "%s targets pid %d, handle's child is %d" what pid hi.child);
                 if hi.status <> None then
                   fail (Printf.sprintf "C06/%s-after-reap" what) (Printf.sprintf "%s of pid %d after its status was returned" what pid)
               | _, None ->
                 fail (Printf.sprintf "C06/%s-target/no-running-handle" what) (Printf.sprintf "%s of pid %d by an op with no started handle" what pid));
              if !reaped_now pid then
                fail (Printf.sprintf "C06/%s-target/reaped" what) (Printf.sprintf "%s targets pid %d, already reaped" what pid);
              if is_call CKill e && not (List.mem (arg 1 e) [ 15; 9 ]) then
                fail "C06/signal-number" (Printf.sprintf "signal %d sent" (arg 1 e))
            end;
            if is_call CWaitpid e && ret e > 0 then begin
              let c = ret e and old = !reaped_now in
              reaped_now := (fun x -> x = c || old x)
            end
          end) evs))

(* C05: close discipline, balance after destroy-all *)
let apply_user_ops (ops : op list) (fds : (int * fdent) list) =
  List.fold_left (fun fds o -> match o with
      | OS (SUserClose fd) -> List.filter (fun (k, _) -> k <> i fd) fds
      | OS (SUserCloexec (fd, on)) -> List.map (fun (k, d) -> if k = i fd then (k, fd_set_cloexec on d) else (k, d)) fds
      | OS (SUserOpen (fd, id, cx)) -> (i fd, { f_obj = OExt (id, ARW); f_cloexec = cx; f_nonblock = false }) :: List.filter (fun (k, _) -> k <> i fd) fds
      | _ -> fds) fds ops

let mon_c05 (r : runres) (sc : scenario) =
  let main = main_of r in
  let created : (int, unit) Hashtbl.t = Hashtbl.create 16 in
  let closed_once : (int, unit) Hashtbl.t = Hashtbl.create 16 in
  let initial = fds_of sc.sc_world main in
  let reap_failed = ref false in
  let reap_intr = ref false in
  let all_children = ref [] and must_reap = ref [] in
  let one_event (e : event) =
    if by main e then begin
      if is_call CPipe e && ret e = 0 then (Hashtbl.replace created (out 0 e) (); Hashtbl.replace created (out 1 e) ();
                                             Hashtbl.remove closed_once (out 0 e); Hashtbl.remove closed_once (out 1 e));
      if is_call COpen e && ret e >= 0 then (Hashtbl.replace created (ret e) (); Hashtbl.remove closed_once (ret e));
      if is_call CClose e then begin
        let fd = arg 0 e in
        if Hashtbl.mem created fd then (Hashtbl.remove created fd; Hashtbl.replace closed_once fd ())
        else if Hashtbl.mem closed_once fd then
          fail "C05/double-close" (Printf.sprintf "descriptor %d closed twice" fd)
        else if List.mem_assoc fd initial then
          fail (Printf.sprintf "C05/foreign-close/%s" (if fd <= 2 then "std" else "user"))
            (Printf.sprintf "close(%d): a descriptor the library did not open" fd)
        else fail "C05/foreign-close/unknown" (Printf.sprintf "close(%d): never opened by the library" fd)
      end;
      if is_call CFree e && ret e = -1 then fail "C05/double-free" (Printf.sprintf "free of block %d which is not live" (arg 0 e));
      if is_call CRealloc e && ret e = -1 then fail "C05/double-free" "realloc of a block which is not live";
      if is_call CFork e && ret e > 0 then all_children := ret e :: !all_children;
      if is_call CWaitpid e && ret e = -1 && i e.e_errno = 4 then reap_intr := true;
      if is_call CWaitpid e && ret e = -1 && i e.e_errno <> 10 && i e.e_errno <> 4 then reap_failed := true
    end in
  let tbl = walk r (fun _ _ st evs ->
      List.iter one_event evs;
      (match st.s_op, st.s_res with
       | OStart _, RInt rr when i rr < 0 -> must_reap := forked_children main evs @ !must_reap
       | _ -> ())) in
  Hashtbl.iter (fun _ hi -> if hi.status <> None && hi.child > 0 then must_reap := hi.child :: !must_reap) tbl;
  if r.r_final = FDone then begin
    if not !reap_failed then
      List.iter (fun c -> if not (reaped r.r_last c) then
                    fail (if !reap_intr then "C05/unreaped/waitpid-interrupted" else "C05/unreaped")
                      (Printf.sprintf "child %d (failed start or status returned) is not reaped" c)) !must_reap;
    let live_handles = Hashtbl.fold (fun _ hi n -> if hi.live then n + 1 else n) tbl 0 in
    let in_child_run = List.exists (fun st -> match st.s_op, st.s_res with OStart (_, _, o, _, _), RInt rr -> o.o_fork && i rr = 0 | _ -> false) r.r_steps in
    if live_handles = 0 && not in_child_run then begin
      let expect = apply_user_ops sc.sc_ops initial in
      let final = fds_of r.r_last main in
      let srt l = List.sort compare l in
      if srt expect <> srt final then begin
        let extra = List.filter (fun (k, _) -> not (List.mem_assoc k expect)) final in
        let missing = List.filter (fun (k, _) -> not (List.mem_assoc k final)) expect in
        if extra <> [] then fail "C05/fd-leak" (Printf.sprintf "descriptors left open after destroy: %s" (Show.list Show.fdent (List.map (fun (k, d) -> (z_of_int k, d)) extra)))
        else if missing <> [] then fail "C05/fd-missing" (Printf.sprintf "caller descriptors gone: %s" (String.concat "," (List.map (fun (k, _) -> string_of_int k) missing)))
        else fail "C05/fd-changed" "a caller descriptor changed object or flags"
      end;
      let live = List.filter (fun (_, (l, _)) -> l) (heap_list r.r_last) in
      if live <> [] then fail "C05/heap-leak" (Printf.sprintf "%d block(s) still allocated after destroy" (List.length live))
    end
  end

(* C04: all-or-nothing start.  [expect]: for single-fault / natural-failure scenarios *)
let mon_c04 (r : runres) (sc : scenario) =
  let main = main_of r in
  ignore (walk r (fun tbl idx st evs ->
      match st.s_op, st.s_res with
      | OStart (h, argv, o, _, _), RInt rr when (match Hashtbl.find_opt tbl (i h) with Some hi -> not hi.started | None -> false) ->
        let rr = i rr in
        let kids = forked_children main evs in
        let in_child_now = i st.s_after.w_cur <> main in
        if in_child_now then ()
        else if rr < 0 then begin
          let srt l = List.sort compare l in
          if srt (fds_of st.s_before main) <> srt (fds_of st.s_after main) then
            fail "C04/fail-residue/descriptor" (Printf.sprintf "start returned %d but the descriptor table changed" rr);
          let live w = srt (List.filter_map (fun (k, (l, _)) -> if l then Some (i k) else None) (heap_list w)) in
          if live st.s_before <> live st.s_after then
            fail "C04/fail-residue/heap" (Printf.sprintf "start returned %d but allocations remain" rr);
          (* a waitpid that the plan makes fail with anything but EINTR cannot be repaired by the caller
             (H-reap); an INTERRUPTED waitpid can be retried, so a child left behind after it counts *)
          let waitfail = List.exists (fun e -> by main e && is_call CWaitpid e && ret e = -1 && i e.e_errno <> 4) evs in
          let waitintr = List.exists (fun e -> by main e && is_call CWaitpid e && ret e = -1 && i e.e_errno = 4) evs in
          if not waitfail then
            List.iter (fun c -> if not (reaped st.s_after c) then
                          fail (if waitintr then "C04/fail-residue/child-left/waitpid-interrupted" else "C04/fail-residue/child-left")
                            (Printf.sprintf "start returned %d but child %d was left behind" rr c)) kids;
          (* the handle is still not started: next Pid says EINVAL *)
          (match List.nth_opt r.r_steps (idx + 1) with
           | Some { s_op = OS (SPid h'); s_res = RInt p; _ } when h' = h ->
             if i p <> einval then fail "C04/fail-residue/handle" (Printf.sprintf "pid after failed start is %d" (i p))
           | _ -> ());
          (* cause: a single injected fault that was hit and nothing else failed *)
          (match faults_of r with
           | [ (_, en) ] ->
             let hit = List.filter (fun e -> injected_failure r e) evs in
             if hit <> [] && rr <> -en then begin
               (* tolerated: the fault hit a call whose failure the code may ignore, and some
                  other natural failure produced the result *)
               let e0 = List.hd hit in
               let natural = List.filter (fun e -> ret e = -1 && not (injected_failure r e)
                                                   && not (List.mem e.e_call [ CGetfd; CSigaction; CFileno ])) evs in
               if natural = [] then
                 fail (Printf.sprintf "C04/cause-mismatch/%s" (Show.call_name e0.e_call))
                   (Printf.sprintf "%s failed with errno %d (pid %d) but start returned %d" (Show.call_name e0.e_call) en (i e0.e_pid) rr)
             end
           | _ -> ())
        end else if rr > 0 then begin
          (* a failed allocation inside start is never something the launch can do without *)
          List.iter (fun e -> if by main e && List.mem e.e_call [ CMalloc; CCalloc; CRealloc; CStrdup ] && ret e = 0 && i e.e_errno > 0 then
                        fail (Printf.sprintf "C04/success-despite-failed-allocation/%s" (Show.call_name e.e_call))
                          (Printf.sprintf "%s failed with errno %d inside start, start returned %d" (Show.call_name e.e_call) (i e.e_errno) rr)) evs;
          (match List.rev kids with
           | [] -> fail "C04/success-without-child/no-fork" "start returned success but no child was created"
           | c :: _ ->
             (match List.nth_opt r.r_steps (idx + 1) with
              | Some { s_op = OS (SPid h'); s_res = RInt p; _ } when h' = h ->
                if i p <= 0 then fail "C04/success-without-child/pid<=0" (Printf.sprintf "reproc_pid = %d after a successful start" (i p))
                else if i p <> c then fail "C04/success-without-child/wrong-pid" (Printf.sprintf "reproc_pid = %d, child is %d" (i p) c)
              | _ -> ());
             if o.o_fork && (proc st.s_after c).pr_kind = KLib && (proc st.s_after c).pr_state <> Running then
               fail "C04/success-without-child/fork-child-failed" (Printf.sprintf "start (fork mode) succeeded but child %d had already failed and exited inside start" c);
             if not o.o_fork then begin
               match image_of st.s_after c with
               | None ->
                 let cause =
                   if List.exists (fun e -> i e.e_pid = c && is_call CWrite e && ret e = -1) evs then "/error-report-write-failed"
                   else if List.exists (fun e -> by main e && is_call CRead e && ret e = -1 && i e.e_errno <> 4) evs then "/error-pipe-read-failed"
                   else if List.exists (fun e -> by main e && is_call CRead e && ret e = -1) evs then "/error-pipe-read-interrupted"
                   else "" in
                 fail ("C04/success-without-child/not-exec'd" ^ cause) (Printf.sprintf "start succeeded but child %d never executed a program" c)
               | Some im ->
                 (match argv with
                  | Some (a0 :: _) ->
                    let base s = match List.rev (String.split_on_char '/' s) with b :: _ -> b | [] -> s in
                    if base (string_of_str im.im_prog) <> base (string_of_str a0) then
                      fail "C04/success-without-child/wrong-program" (Printf.sprintf "executed %s for argv[0] %s" (string_of_str im.im_prog) (string_of_str a0))
                  | _ -> ())
             end)
        end
      | _ -> ()));
  ignore sc

(* C12: caller's signal state / cwd / env untouched; child starts clean *)
let mon_c12 (r : runres) (flags : string list) =
  let main = main_of r in
  if List.mem "parent-environ-changed" flags then fail "C12/env-changed" "the caller's environ was modified";
  ignore (walk r (fun _ _ st evs ->
      match st.s_op, st.s_res with
      | OStart (_, _, o, _, _), RInt rr when i st.s_after.w_cur = main ->
        let pb = proc st.s_before main and pa = proc st.s_after main in
        let masks = List.filter (fun e -> by main e && is_call CSigmask e) evs in
        let restore_failed = match List.rev masks with
          | e :: _ -> ret e <> 0 && injected_failure r e
          | [] -> false in
        if pb.pr_mask <> pa.pr_mask && not restore_failed then begin
          let cause =
            if List.exists (fun e -> by main e && is_call CFork e && ret e = -1) evs then "fork-failed"
            else if not (List.exists (fun e -> by main e && is_call CFork e) evs) then "failure-before-fork"
            else "after-fork" in
          fail (Printf.sprintf "C12/mask-changed/%s" cause)
            (Printf.sprintf "signal mask after start (r=%d): %s, before: %s" (i rr) (Show.zs pa.pr_mask) (Show.zs pb.pr_mask))
        end;
        if disp_list pb <> disp_list pa then fail "C12/disp-changed" "signal dispositions of the caller changed";
        if pb.pr_cwd <> pa.pr_cwd then fail "C12/cwd-changed" "working directory of the caller changed";
        if pb.pr_env <> pa.pr_env then fail "C12/env-changed" "environment of the caller changed";
        if i rr > 0 && not o.o_fork then begin
          match List.rev (forked_children main evs) with
          | c :: _ ->
            (match image_of st.s_after c with
             | Some im ->
               if im.im_mask <> [] then fail "C12/child-mask" (Printf.sprintf "program starts with blocked signals %s" (Show.zs im.im_mask));
               let bad = List.filter (fun (s, _) -> i s >= 1 && i s <= 31) im.im_disp in
               if bad <> [] then fail "C12/child-disp" (Printf.sprintf "program starts with signal %d not at its default disposition" (i (fst (List.hd bad))))
             | None -> ())
          | [] -> ()
        end
      | _ -> ()))

(* C11: image descriptors = {0,1,2} + exactly the exit handle *)
let mon_c11 (r : runres) =
  let main = main_of r in
  ignore (walk r (fun _ _ st evs ->
      match st.s_op, st.s_res with
      | OStart (_, _, o, _, _), RInt rr when i rr > 0 && not o.o_fork && i st.s_after.w_cur = main ->
        (match List.rev (forked_children main evs) with
         | c :: _ ->
           (match image_of st.s_after c with
            | Some im ->
              let extras = List.filter (fun (k, _) -> i k > 2) im.im_fds in
              let is_exit (_, d) = match d.f_obj with
                | OPipeW q ->
                  List.exists (fun (_, pd) -> pd.f_obj = OPipeR q) (fds_of st.s_after main)
                  && not (List.exists (fun (k, d') -> i k <= 2 && d'.f_obj = OPipeW q) im.im_fds)
                | _ -> false in
              let ex, other = List.partition is_exit extras in
              let rl = i (proc st.s_before main).pr_rlimit in
              List.iter (fun (k, d) ->
                  let sub = if i k = rl - 1 then "fd=rlimit-1" else
                      (match d.f_obj with OPipeR _ | OPipeW _ -> "pipe-end" | _ -> "other") in
                  fail (Printf.sprintf "C11/extra-fd/%s" sub)
                    (Printf.sprintf "program inherits descriptor %s" (Show.fdent (k, d)))) other;
              (match ex with
               | [ _ ] -> ()
               | [] -> fail "C11/missing-exit-handle" "program holds no exit-detection handle"
               | _ -> fail "C11/extra-fd/exit-dup" "program holds several copies of the exit handle")
            | None -> ())
         | [] -> ())
      | OStart (_, _, o, _, _), RInt rr when i rr > 0 && o.o_fork && i st.s_after.w_cur = main ->
        (* fork mode: no exec follows, so what the forked child holds when start returns in it is
           what it keeps: its three streams and the exit handle, nothing else *)
        (match List.rev (forked_children main evs) with
         | c :: _ ->
           let cf = fds_of st.s_after c in
           (* descriptors the caller itself named in the options stay the caller's business *)
           let files = List.map (fun (k, v) -> (i k, Option.map i v)) (files_list st.s_before) in
           let named (r : redirect) =
             (if i r.rd_handle <> 0 then [ i r.rd_handle ] else [])
             @ (match List.assoc_opt (i r.rd_file) files with Some (Some fd) -> [ fd ] | _ -> []) in
           let callers = named o.o_in @ named o.o_out @ named o.o_err
                         @ (match List.assoc_opt (i o.o_file) files with Some (Some fd) -> [ fd ] | _ -> []) in
           let cf = List.filter (fun (k, _) -> not (List.mem k callers)) cf in
           let is_exit (_, d) = match d.f_obj with
             | OPipeW q -> List.exists (fun (_, pd) -> pd.f_obj = OPipeR q) (fds_of st.s_after main)
                           && not (List.exists (fun (k, d') -> k <= 2 && d'.f_obj = OPipeW q) cf)
             | _ -> false in
           List.iter (fun (k, d) ->
               if k > 2 && not (is_exit (k, d)) then
                 fail (Printf.sprintf "C11/extra-fd/fork-mode/%s" (match d.f_obj with OPipeR _ | OPipeW _ -> "pipe-end" | _ -> "other"))
                   (Printf.sprintf "forked child (no exec) keeps descriptor %s" (Show.fdent (z_of_int k, d)))) cf
         | [] -> ())
      | _ -> ()))

(* C10: each standard stream connected where the options say *)
let acc_name = function ARd -> "r" | AWr -> "w" | ARW -> "rw"
let mon_c10 (r : runres) =
  let main = main_of r in
  ignore (walk r (fun _ _ st evs ->
      match st.s_op, st.s_res with
      | OStart (_, argv, o, _, _), RInt rr when i rr > 0 && i st.s_after.w_cur = main ->
        (match List.rev (forked_children main evs), parse_options o (argv_form argv) with
         | c :: _, Some eff ->
           (* what the child holds: the image's descriptors after exec; in fork mode (no exec) the
              descriptors of the forked child when start returns in it *)
           (match (if o.o_fork then (if (proc st.s_after c).pr_kind = KScript then Some (fds_list (proc st.s_after c)) else None)
                   else Option.map (fun im -> im.im_fds) (image_of st.s_after c)) with
            | Some child_fds ->
              let pfds = fds_of st.s_before main in
              let files = List.map (fun (k, v) -> (i k, Option.map i v)) (files_list st.s_before) in
              let imo fd = match List.find_opt (fun (k, _) -> i k = fd) child_fds with Some (_, d) -> Some d.f_obj | None -> None in
              let want_acc s = if s = 0 then ARd else AWr in
              let new_parent = List.filter (fun (k, d) -> not (List.mem (k, d) pfds)) (fds_of st.s_after main) in
              let expected_parent_ends = ref 0 in
              let std_closed = List.exists (fun fd -> not (List.mem_assoc fd pfds)) [ 0; 1; 2 ] in
              (* the child-side end each stream gets in the parent, when it is a caller/std descriptor *)
              let rec target_fd s (rd : redirect) = match i rd.rd_type with
                | 2 -> (match List.assoc_opt (s + 1) files with Some (Some fd) -> Some fd | _ -> None)
                | 4 -> target_fd 1 eff.o_out
                | 5 -> Some (i rd.rd_handle)
                | 6 -> (match List.assoc_opt (i rd.rd_file) files with Some (Some fd) -> Some fd | _ -> None)
                | _ -> None in
              let std_alias = List.exists (fun (s, rd) -> match target_fd s rd with Some fd -> fd >= 0 && fd <= 2 && fd <> s | None -> false)
                  [ (0, eff.o_in); (1, eff.o_out); (2, eff.o_err) ] in
              (* D21 (open finding): a std descriptor of the parent is closed AND some stream resolves to PARENT *)
              let parent_redirect = List.exists (fun (rd : redirect) -> i rd.rd_type = 2) [ eff.o_in; eff.o_out; eff.o_err ] in
              let cause = if std_closed && parent_redirect then "parent-std-closed-then-parent-redirect"
                else if std_closed then "parent-std-closed" else if std_alias then "std-handle-alias" else "" in
              (* D21's cause (a stream redirected to a parent stream whose number was taken by an earlier
                 stream's new descriptor) is the same call site in both modes: same key *)
              let cause = if o.o_fork && cause <> "parent-std-closed-then-parent-redirect"
                then "fork-mode" ^ (if cause = "" then "" else "/" ^ cause) else cause in
              List.iter (fun (s, (rd : redirect)) ->
                  let ty = i rd.rd_type in
                  let bad sub what = fail (if cause <> "" then "C10/stream-target/" ^ cause else Printf.sprintf "C10/stream-target/%d/%d/%s" s ty sub) what in
                  let got = imo s in
                  let gots = match got with Some ob -> Show.obj ob | None -> "closed" in
                  let same_as_parent_fd fd sub =
                    match List.assoc_opt fd pfds with
                    | Some d -> if got <> Some d.f_obj then bad sub (Printf.sprintf "child stream %d is %s, expected the object of parent descriptor %d (%s)" s gots fd (Show.obj d.f_obj))
                    | None -> ignore sub (* the caller passed a descriptor that is not open: outside the property *) in
                  match ty with
                  | 1 ->
                    (match got with
                     | Some (OPipeR q) when s = 0 ->
                       if not (s = 0 && o.o_input_data) then begin
                         incr expected_parent_ends;
                         if not (List.exists (fun (_, d) -> d.f_obj = OPipeW q) new_parent) then
                           fail ("C10/parent-end" ^ (if cause <> "" then "/" ^ cause else "")) (Printf.sprintf "no parent end for piped stream %d" s)
                       end
                     | Some (OPipeW q) when s > 0 ->
                       incr expected_parent_ends;
                       if not (List.exists (fun (_, d) -> d.f_obj = OPipeR q) new_parent) then
                         fail ("C10/parent-end" ^ (if cause <> "" then "/" ^ cause else "")) (Printf.sprintf "no parent end for piped stream %d" s)
                     | Some (OPipeW _) | Some (OPipeR _) -> fail (if cause <> "" then "C10/stream-target/" ^ cause else "C10/direction") (Printf.sprintf "child stream %d has the wrong end of its pipe (%s)" s gots)
                     | _ -> bad "alias" (Printf.sprintf "child stream %d is %s, expected a pipe" s gots))
                  | 2 ->
                    (match List.assoc_opt (s + 1) files with
                     | Some (Some fd) ->
                       if List.mem_assoc fd pfds then same_as_parent_fd fd "parent"
                       else if got <> Some (ONull (want_acc s)) then
                         bad "parent-closed" (Printf.sprintf "parent has no stream %d; child stream is %s, expected the null device" s gots)
                     | _ -> if got <> Some (ONull (want_acc s)) then bad "parent-none" (Printf.sprintf "child stream %d is %s, expected the null device" s gots))
                  | 3 -> if got <> Some (ONull (want_acc s)) then bad "discard" (Printf.sprintf "child stream %d is %s, expected null:%s" s gots (acc_name (want_acc s)))
                  | 4 -> if got <> imo 1 || got = None then bad "stdout" (Printf.sprintf "child stderr is %s, child stdout is %s" gots (match imo 1 with Some ob -> Show.obj ob | None -> "closed"))
                  | 5 -> same_as_parent_fd (i rd.rd_handle) "handle"
                  | 6 ->
                    (match List.assoc_opt (i rd.rd_file) files with
                     | Some (Some fd) -> same_as_parent_fd fd "file"
                     | _ -> ())
                  | 7 ->
                    (match rd.rd_path, got with
                     | Some p, Some (OFile (q, a)) ->
                       let full = abs_path (proc st.s_before main).pr_cwd p in
                       if q <> full || a <> want_acc s then bad "path" (Printf.sprintf "child stream %d is %s, expected %s:%s" s gots (string_of_str full) (acc_name (want_acc s)))
                     | Some _, Some (ONull a) when a = want_acc s -> ()
                     | _ -> bad "path" (Printf.sprintf "child stream %d is %s, expected the file at the path" s gots))
                  | _ -> ())
                [ (0, eff.o_in); (1, eff.o_out); (2, eff.o_err) ];
              (* parent holds a pipe end exactly for piped streams (+ the exit handle) *)
              let n_pipe_new = List.length (List.filter (fun (_, d) -> match d.f_obj with OPipeR _ | OPipeW _ -> true | _ -> false) new_parent) in
              if n_pipe_new <> !expected_parent_ends + 1 then
                fail ("C10/parent-end" ^ (if cause <> "" then "/" ^ cause else "")) (Printf.sprintf "parent holds %d new pipe ends after start, expected %d (+1 exit handle)" n_pipe_new !expected_parent_ends)
            | None -> ())
         | _ -> ())
      | _ -> ()))

(* C10 (parent side): "the parent is given a pipe end for a stream exactly when that stream is a pipe" --
   on a stream that is not a pipe, reads and writes report the closed-pipe error, whatever the
   history of the handle (earlier failed starts included) *)
let mon_c10_parent_ends (r : runres) =
  ignore (walk r (fun tbl _ st _ ->
      match st.s_op, st.s_res with
      | OS (SWrite (h, true, _)), RInt rr ->
        (match Hashtbl.find_opt tbl (i h) with
         | Some ({ started = true; fork_mode = false; eff = Some e; _ }) when i e.o_in.rd_type <> 1 ->
           if i rr <> epipe then fail "C10/parent-end/non-pipe-stream/write" (Printf.sprintf "write to a stdin that is not a pipe returned %d" (i rr))
         | _ -> ())
      | OS (SRead (h, s, true, _)), RRead (rr, _) when i s = 1 || i s = 2 ->
        (match Hashtbl.find_opt tbl (i h) with
         | Some ({ started = true; fork_mode = false; eff = Some e; _ }) when i (if i s = 1 then e.o_out else e.o_err).rd_type <> 1 ->
           if i rr <> epipe then fail "C10/parent-end/non-pipe-stream/read" (Printf.sprintf "read of stream %d, which is not a pipe, returned %d" (i s) (i rr))
         | _ -> ())
      | _ -> ()))

(* C03: argv, environment, working directory, program resolution *)
let mon_c03 (r : runres) =
  let main = main_of r in
  ignore (walk r (fun _ _ st evs ->
      match st.s_op, st.s_res with
      | OStart (_, Some argv, o, _, _), RInt rr when i rr > 0 && not o.o_fork && i st.s_after.w_cur = main ->
        (match List.rev (forked_children main evs) with
         | c :: _ ->
           (match image_of st.s_after c with
            | Some im ->
              let pb = proc st.s_before main in
              if im.im_argv <> argv then fail "C03/argv-diff" (Printf.sprintf "argv seen %s, passed %s" (Show.list Show.str im.im_argv) (Show.list Show.str argv));
              let want_env = (if i o.o_env_behavior = 1 then [] else pb.pr_env) @ (match o.o_env_extra with Some l -> l | None -> []) in
              if im.im_env <> want_env then fail "C03/env-diff" (Printf.sprintf "environment seen %s, expected %s" (Show.list Show.str im.im_env) (Show.list Show.str want_env));
              let want_cwd = match o.o_wd with Some d -> abs_path pb.pr_cwd d | None -> pb.pr_cwd in
              if im.im_cwd <> want_cwd then fail "C03/cwd-diff" (Printf.sprintf "child cwd %s, expected %s" (string_of_str im.im_cwd) (string_of_str want_cwd));
              (match argv with
               | a0 :: _ when List.exists (fun ch -> i ch = 47) a0 ->
                 let want = abs_path pb.pr_cwd a0 in
                 if im.im_prog <> want then fail "C03/program-diff" (Printf.sprintf "executed %s, expected %s (relative to the parent's cwd)" (string_of_str im.im_prog) (string_of_str want))
               | _ -> ())
            | None -> ())
         | [] -> ())
      | OStart (_, _, o, _, _), RInt rr when i rr > 0 && o.o_fork && i st.s_after.w_cur = main ->
        (* fork mode: no exec, but the forked child runs with the requested environment and directory *)
        (match List.rev (forked_children main evs) with
         | c :: _ ->
           let pb = proc st.s_before main and pc = proc st.s_after c in
           let want_env = (if i o.o_env_behavior = 1 then [] else pb.pr_env) @ (match o.o_env_extra with Some l -> l | None -> []) in
           if pc.pr_env <> want_env then
             fail "C03/env-diff/fork-mode" (Printf.sprintf "forked child's environment %s, expected %s" (Show.list Show.str pc.pr_env) (Show.list Show.str want_env));
           let want_cwd = match o.o_wd with Some d -> abs_path pb.pr_cwd d | None -> pb.pr_cwd in
           if pc.pr_cwd <> want_cwd then fail "C03/cwd-diff/fork-mode" (Printf.sprintf "forked child's cwd %s, expected %s" (string_of_str pc.pr_cwd) (string_of_str want_cwd))
         | [] -> ())
      | OStart (_, Some (a0 :: _), o, _, _), RInt rr
        when i rr = -2 && not o.o_fork && i st.s_after.w_cur = main && faults_of r = [] && List.exists (fun ch -> i ch = 47) a0 ->
        (* a program named by a path with a directory part is looked up from the PARENT's working
           directory: if it is runnable there, "no such file" is the wrong answer *)
        let pb = proc st.s_before main in
        let full = abs_path pb.pr_cwd a0 in
        (match fs_lookup full st.s_before with
         | Some (FExec _) ->
           let wd_ok = match o.o_wd with
             | Some d -> (match fs_lookup (abs_path pb.pr_cwd d) st.s_before with Some FDir -> true | _ -> false)
             | None -> true in
           if wd_ok then fail "C03/relative-program-not-found"
               (Printf.sprintf "%s is runnable from the parent's directory (%s) but start reported ENOENT" (string_of_str a0) (string_of_str full))
         | _ -> ())
      | _ -> ()))

(* C13 (start part): invalid options are rejected before any resource is created *)
let mon_c13 (r : runres) =
  let main = main_of r in
  ignore (walk r (fun tbl _ st evs ->
      match st.s_op, st.s_res with
      | OStart (h, argv, o, _, _), RInt rr when (match Hashtbl.find_opt tbl (i h) with Some hi -> not hi.started && not hi.in_child | None -> false) ->
        (match parse_options o (argv_form argv) with
         | None ->
           if i rr <> einval then fail "C13/accepted-invalid/start" (Printf.sprintf "start with invalid options returned %d" (i rr));
           let res = List.filter (fun e -> by main e && List.mem e.e_call [ CPipe; COpen; CFork ]) evs in
           if res <> [] then fail "C13/side-effect-before-reject" (Printf.sprintf "%s called before the options were rejected" (Show.call_name (List.hd res).e_call))
         | Some _ when List.exists (fun (rd : redirect) -> i rd.rd_type < 0 || i rd.rd_type > 7) [ o.o_in; o.o_out; o.o_err ] ->
           (* a redirect type outside the enumeration is never acted upon: invalid argument, no child *)
           if i rr <> einval then fail "C13/accepted-invalid/redirect-type" (Printf.sprintf "start with a redirect type outside the enumeration returned %d" (i rr));
           if List.exists (fun e -> by main e && is_call CFork e) evs then fail "C13/side-effect-before-reject" "fork called for options with a redirect type outside the enumeration"
         | Some _ -> if i rr = einval && faults_of r = [] && not (List.exists (fun e -> ret e = -1 && i e.e_errno = 22) evs)
                        && List.for_all (fun (rd : redirect) -> i rd.rd_type >= 0 && i rd.rd_type <= 7) [ o.o_in; o.o_out; o.o_err ] then
             fail "C13/rejected-valid/start" "start rejected documented-valid options")
      | (ORun (argv, o, _), RInt rr | ORunEx (argv, o, _, _, _), RDrain (rr, _)) ->
        (* run hands the caller's options to start: `run` only adds the parent shorthand when no other
           shorthand is set, it never removes or overrides one, so every conflict is still rejected
           up front *)
        let o' = match st.s_op with
          | ORun _ when not o.o_discard && i o.o_file = 0 && o.o_path = None -> { o with o_parent = true }
          | _ -> o in
        if parse_options o' (argv_form argv) = None then begin
          if i rr <> einval then fail "C13/accepted-invalid/run" (Printf.sprintf "run with conflicting options returned %d" (i rr));
          let res = List.filter (fun e -> by main e && List.mem e.e_call [ CPipe; COpen; CFork ]) evs in
          if res <> [] then fail "C13/side-effect-before-reject" (Printf.sprintf "%s called before the options were rejected" (Show.call_name (List.hd res).e_call))
        end
      | _ -> ()))

(* C07: stop sequences *)
let mon_c07 (r : runres) =
  let main = main_of r in
  ignore (walk r (fun tbl _ st evs ->
      match st.s_op, st.s_res with
      | OS (SStop (h, acts)), RInt rr ->
        (match Hashtbl.find_opt tbl (i h) with
         | Some hi when hi.started && hi.child > 0 && not hi.fork_mode ->
           let c = hi.child and rr = i rr in
           let acts_n = norm_stop acts in
           let in_range = List.for_all (fun (a, _) -> a >= 0 && a <= 3) acts_n in
           let kills = List.filter (fun e -> by main e && is_call CKill e) evs in
           let sigs = List.map (fun e -> arg 1 e) kills in
           let wanted = List.filter_map (fun (a, _) -> if a = 2 then Some 15 else if a = 3 then Some 9 else None) acts_n in
           (* sent signals = a prefix of the wanted sequence *)
           let rec is_prefix a b = match a, b with [], _ -> true | x :: a', y :: b' -> x = y && is_prefix a' b' | _ :: _, [] -> false in
           if not (is_prefix sigs wanted) then begin
             if List.for_all (fun (a, _) -> a = 1) acts_n && sigs <> [] then fail "C07/wait-sent-signal" "a wait action sent a signal"
             else if List.length sigs > List.length wanted then fail "C07/repeat" (Printf.sprintf "signals sent %s for actions %s" (Show.list string_of_int sigs) (Show.stop acts))
             else fail "C07/order" (Printf.sprintf "signals sent %s for actions %s" (Show.list string_of_int sigs) (Show.stop acts))
           end;
           if hi.status <> None && sigs <> [] then fail "C07/signal-after-reap" "signal sent to an already reaped child";
           let was_reaped = reaped st.s_after c in
           if rr >= 0 && not was_reaped then
             fail "C07/result/status-without-reap" (Printf.sprintf "stop returned %d but the child has not been reaped" rr);
           if rr < 0 && was_reaped && hi.status = None && reaped st.s_before c = false then
             fail "C07/result/error-though-reaped" (Printf.sprintf "stop reaped the child but returned %d" rr);
           let any_fail = List.exists (fun e -> by main e && ((ret e = -1 && not (is_call CGetfd e)) || injected_failure r e)) evs in
           if in_range && not any_fail && not was_reaped && rr <> etimedout then
             fail "C07/result/timeout-expected" (Printf.sprintf "every wait expired, child not reaped, stop returned %d" rr);
           if not in_range && rr >= 0 && hi.status = None && not was_reaped then
             fail "C07/result/error-expected" (Printf.sprintf "out-of-range action, stop returned %d" rr);
           (* "the error of a failed action otherwise": once a call of an action fails (poll, waitpid,
              kill; scratch allocation), the sequence ends with that error -- no later action runs *)
           (let mine = List.filter (fun e -> by main e && List.mem e.e_call [ CPoll; CWaitpid; CKill; CCalloc; CMalloc ]) evs in
            let rec after_fail = function
              | [] -> None
              | e :: rest when (ret e = -1 || (List.mem e.e_call [ CCalloc; CMalloc ] && ret e = 0)) && i e.e_errno > 0 -> Some (e, rest)
              | _ :: rest -> after_fail rest in
            match after_fail mine with
            | Some (e, rest) when hi.status = None ->
              let later = List.filter (fun x -> List.mem x.e_call [ CPoll; CWaitpid; CKill ]) rest in
              if later <> [] then
                fail (Printf.sprintf "C07/continued-after-failed-action/%s" (Show.call_name e.e_call))
                  (Printf.sprintf "%s failed with errno %d, yet the stop sequence went on with %s" (Show.call_name e.e_call) (i e.e_errno) (Show.call_name (List.hd later).e_call))
              else if rr <> - (i e.e_errno) then
                fail (Printf.sprintf "C07/result/not-the-failed-action's-error/%s" (Show.call_name e.e_call))
                  (Printf.sprintf "%s failed with errno %d, stop returned %d" (Show.call_name e.e_call) (i e.e_errno) rr)
            | _ -> ());
           (* the whole sequence never blocks longer than the sum of its (finite) time-outs *)
           (let tms = List.map snd acts_n in
            let resolve t = if t = -2 then (match hi.deadline_abs with Some d -> Some (max 0 (d - i st.s_before.w_time)) | None -> None)
              else if t < 0 then None else Some t in
            let rs = List.map resolve tms in
            if in_range && List.for_all (fun x -> x <> None) rs then begin
              let total = sum (List.map (function Some x -> x | None -> 0) rs) in
              let polled = sum (List.filter_map (fun e -> if by main e && is_call CPoll e then Some (i e.e_blocked) else None) evs) in
              if polled > total then fail "C07/overrun/blocked-time" (Printf.sprintf "stop with time-outs summing to %d ms spent %d ms blocked in poll" total polled)
            end);
           (* each OS-level wait is bounded by its action's time-out *)
           List.iter (fun e -> if by main e && is_call CPoll e && arg 0 e >= 0 && i e.e_blocked > arg 0 e then
                         fail "C07/overrun" (Printf.sprintf "poll with time-out %d blocked %d ms" (arg 0 e) (i e.e_blocked))) evs;
           if no_latency r && hi.status = None then begin
             (* time-outs handed to the OS follow the actions *)
             let polls = List.filter (fun e -> by main e && is_call CPoll e) evs in
             let rec chk ps acts = match ps, acts with
               | p :: ps', (_, t) :: acts' ->
                 let t0 = i p.e_time - i p.e_blocked in
                 let want = if t = -2 then (match hi.deadline_abs with Some d -> max 0 (d - t0) | None -> -1) else t in
                 if arg 0 p <> want then fail "C07/overrun/timeout-arg" (Printf.sprintf "wait of action with time-out %d polled with %d" t (arg 0 p));
                 chk ps' acts'
               | _ -> () in
             if in_range then chk polls acts_n;
             (* ends as soon as the child has exited *)
             (match end_time st.s_after c with
              | Some te when h_exit_ok (match hi.start_after with Some w -> w | None -> st.s_before) c
                             && te >= i st.s_before.w_time && i st.s_after.w_time > te ->
                fail "C07/late-return" (Printf.sprintf "child ended at %d, stop returned at %d" te (i st.s_after.w_time))
              | _ -> ())
           end
         | _ -> ())
      | _ -> ()))

(* C08: deadlines and time-outs bound waits and polls *)
let mon_c08_blocked (r : runres) =
  let main = main_of r in
  ignore (walk r (fun tbl _ st evs ->
      let polled = sum (List.filter_map (fun e -> if by main e && is_call CPoll e then Some (i e.e_blocked) else None) evs) in
      match st.s_op with
      | OS (SWait (h, t)) ->
        (match Hashtbl.find_opt tbl (i h) with
         | Some hi when hi.started && hi.status = None && i t >= 0 ->
           if polled > i t then fail "C08/wait-overrun/blocked-time" (Printf.sprintf "wait(%d) spent %d ms blocked in poll" (i t) polled)
         | _ -> ())
      | OS (SPoll (_, t)) when i t >= 0 ->
        if polled > i t then fail "C08/poll-overrun/blocked-time" (Printf.sprintf "poll(%d) spent %d ms blocked in the OS poll" (i t) polled)
      | _ -> ()))

(* clauses that do not depend on exact timing: they hold under latencies and injected faults too *)
let mon_c08_always (r : runres) =
  ignore (walk r (fun tbl _ st _ ->
      let t1 = i st.s_after.w_time in
      match st.s_op, st.s_res with
      | OS (SPoll (srcs, _)), RPoll (rr, Some evs) when i rr >= 0 ->
        List.iteri (fun k e ->
            if i e land ev_deadline <> 0 then
              (match List.nth_opt srcs k with
               | Some (h, _) ->
                 (match Hashtbl.find_opt tbl (i h) with
                  | Some { started = true; deadline_abs = None; _ } -> fail "C08/deadline-wrong-source" "deadline event on a source without deadline"
                  | Some { started = true; deadline_abs = Some d; _ } ->
                    if t1 < d then fail "C08/deadline-early" (Printf.sprintf "deadline event at %d, deadline is %d" t1 d)
                  | _ -> ())
               | None -> ())) evs
      | OS (SPoll (srcs, _)), RPoll (rr, None) when i rr >= 0 && srcs <> [] ->
        fail "C08/poll-quiet-result/events-untouched" (Printf.sprintf "poll returned %d without assigning the events fields" (i rr))
      | _ -> ()))

let mon_c08 (r : runres) =
  mon_c08_blocked r;
  mon_c08_always r;
  if no_latency r then
    ignore (walk r (fun tbl _ st _evs ->
        let t0 = i st.s_before.w_time and t1 = i st.s_after.w_time in
        match st.s_op, st.s_res with
        | OS (SWait (h, t)), RInt rr ->
          (match Hashtbl.find_opt tbl (i h) with
           | Some hi when hi.started && hi.child > 0 && hi.status = None ->
             let t = i t and rr = i rr in
             let sub = if hi.fork_mode then "/fork-mode" else "" in
             let bound = if t >= 0 then Some t else if t = -2 then
                 (match hi.deadline_abs with Some d -> Some (max 0 (d - t0)) | None -> None) else None in
             (match bound with
              | Some b ->
                if rr = etimedout && t1 - t0 < b then fail "C08/wait-early-timeout" (Printf.sprintf "wait(%d) timed out after %d ms" t (t1 - t0));
                if t1 - t0 > b then fail ("C08/wait-past-deadline" ^ sub) (Printf.sprintf "wait bounded by %d ms took %d ms" b (t1 - t0))
              | None -> ());
             if rr = etimedout && hi.fork_mode = false && ended st.s_after hi.child
                && (match end_time st.s_after hi.child with Some te -> te < t1 | None -> false)
                && h_exit_ok (match hi.start_after with Some w -> w | None -> st.s_before) hi.child then
               fail "C08/wait-timeout-though-exited" "wait timed out although the child had exited"
           | _ -> ())
        | OS (SPoll (srcs, tmo)), RPoll (rr, evs) ->
          let tmo = i tmo and rr = i rr in
          let dls = List.mapi (fun k (h, _) -> match Hashtbl.find_opt tbl (i h) with
              | Some hi when hi.started -> (k, hi.deadline_abs)
              | _ -> (k, None)) srcs in
          let finite = List.filter_map (fun (k, d) -> match d with Some d -> Some (k, d) | None -> None) dls in
          let earliest = List.fold_left (fun acc (_, d) -> match acc with None -> Some d | Some a -> Some (min a d)) None finite in
          let bound = match earliest, tmo >= 0 with
            | Some d, true -> Some (min tmo (max 0 (d - t0)))
            | Some d, false -> Some (max 0 (d - t0))
            | None, true -> Some tmo
            | None, false -> None in
          if rr >= 0 || rr = etimedout then
            (match bound with
             | Some b when t1 - t0 > b ->
               let pat = if List.exists (fun (_, d) -> d = None) dls && finite <> [] then "/no-deadline-among-deadlines" else "" in
               fail ("C08/poll-overrun" ^ pat) (Printf.sprintf "poll bounded by %d ms blocked %d ms" b (t1 - t0))
             | _ -> ());
          (match evs with
           | Some evs when rr >= 0 ->
             let evs = List.map i evs in
             let dl_srcs = List.filteri (fun k _ -> List.nth evs k land ev_deadline <> 0) (List.mapi (fun k _ -> k) evs) in
             List.iter (fun k ->
                 match List.assoc k dls with
                 | None -> fail "C08/deadline-wrong-source" "deadline event on a source without deadline"
                 | Some d ->
                   if t1 < d then fail "C08/deadline-early" (Printf.sprintf "deadline event at %d, deadline is %d" t1 d);
                   (match earliest with Some e when d > e && e > t0 -> fail "C08/deadline-wrong-source" "deadline event not on the earliest source" | _ -> ());
                   if rr <> 1 || List.exists (fun (k', e) -> k' <> k && e <> 0) (List.mapi (fun k' e -> (k', e)) evs) || List.nth evs k <> ev_deadline then
                     fail "C08/deadline-not-alone" "deadline event reported together with other events") dl_srcs;
             (* an expired deadline is reported immediately *)
             (match List.filter (fun (_, d) -> d <= t0) finite with
              | _ :: _ -> if t1 <> t0 || dl_srcs = [] then fail "C08/expired-not-immediate" "a deadline had expired but poll did not report it at once"
              | [] -> ());
             if rr = 0 && List.exists (fun e -> e <> 0) evs then fail "C08/poll-quiet-result" "poll returned 0 with events set";
             if rr = 0 && tmo >= 0 && t1 - t0 < tmo && (match bound with Some b -> t1 - t0 < b | None -> true) then
               fail "C08/poll-early-timeout" (Printf.sprintf "poll(%d) returned 0 after %d ms" tmo (t1 - t0))
           | _ -> ())
        | _ -> ()))

(* C09: poll reports exactly the true events *)
let mon_c09 (r : runres) =
  let main = main_of r in
  let steps = Array.of_list r.r_steps in
  ignore (walk r (fun tbl idx st _evs ->
      match st.s_op, st.s_res with
      | OS (SPoll (srcs, tmo)), RPoll (rr, evs) ->
        let rr = i rr and tmo = i tmo in
        let t0 = i st.s_before.w_time and t1 = i st.s_after.w_time in
        let info = List.map (fun (h, m) -> (i h, i m, (if i h = -1 then None else Hashtbl.find_opt tbl (i h)))) srcs in
        (* which requested streams are still pollable in the handle (parent end open) *)
        let pollable (hi : hinfo) bit =
          if not hi.started || hi.fork_mode then None else
          match hi.start_after with
          | None -> None
          | Some ws ->
            let c = hi.child in
            Some (match bit with
                | 1 -> parent_end ws st.s_before main c 0 <> None
                | 2 -> parent_end ws st.s_before main c 1 <> None && not hi.epiped.(1)
                | 4 -> (match image_obj ws c 2, image_obj ws c 1 with
                    | Some a, Some b when a = b && (match hi.eff with Some e -> i e.o_err.rd_type = 4 | None -> false) -> false
                    | _ -> parent_end ws st.s_before main c 2 <> None && not hi.epiped.(2))
                | _ -> exit_parent_end ws st.s_before main c <> None) in
        (match evs with
         | Some evs when rr >= 0 ->
           let evs = List.map i evs in
           List.iteri (fun k (h, m, hi) ->
               let e = List.nth evs k in
               if e land lnot (m lor ev_deadline) <> 0 then fail "C09/events-not-subset" (Printf.sprintf "source %d: events %d for interests %d" k e m);
               if (h = -1 || hi = None) && e <> 0 then fail "C09/null-source-event" (Printf.sprintf "process-less source %d reports %d" k e)) info;
           let cnt = List.length (List.filter (fun e -> e <> 0) evs) in
           if rr <> cnt then fail "C09/count" (Printf.sprintf "poll returned %d, %d sources have events" rr cnt);
           (* soundness through the probe that follows *)
           (match if idx + 1 < Array.length steps then Some steps.(idx + 1) else None with
            | Some nx ->
              let nevs = step_events nx in
              let blocked = List.exists (fun e -> by main e && i e.e_blocked > 0) nevs in
              List.iteri (fun k (h, _, _) ->
                  let e = List.nth evs k in
                  match nx.s_op, nx.s_res with
                  | OS (SRead (h', s, true, n)), RRead (pr, _) when i h' = h && i n > 0 ->
                    let bit = if i s = 1 then ev_out else ev_err in
                    if e land bit <> 0 && (blocked || i pr = eagain) then
                      fail (if i s = 1 then "C09/unsound-out" else "C09/unsound-err") (Printf.sprintf "event reported but the read %s" (if blocked then "blocked" else "would block"))
                  | OS (SWrite (h', true, n)), RInt pr when i h' = h && i n = 1 ->
                    if e land ev_in <> 0 && (blocked || i pr = eagain) then fail "C09/unsound-in" "input event reported but a 1-byte write blocked"
                  | OS (SWait (h', t)), RInt pr when i h' = h && i t = 0 ->
                    if e land ev_exit <> 0 && i pr = etimedout then fail "C09/unsound-exit" "exit event reported but wait(0) timed out"
                  | _ -> ()) info
            | None -> ());
           (* completeness: something requested was already true when polled *)
           let expired = List.exists (fun (_, _, hi) -> match hi with Some { deadline_abs = Some d; started = true; _ } -> d <= t0 | _ -> false) info in
           if not expired && no_latency r then
             List.iteri (fun k (_, m, hi) ->
                 match hi with
                 | Some hi when hi.started && not hi.fork_mode && hi.child > 0 ->
                   (match hi.start_after with
                    | Some ws ->
                      let c = hi.child in
                      let chk bit s =
                        if m land bit <> 0 && (match hi.eff with Some e -> i (if s = 1 then e.o_out else e.o_err).rd_type = 1 | None -> false)
                           && not hi.epiped.(s) && not hi.pclosed.(s) then
                          match parent_end ws st.s_before main c s with
                          | Some fd ->
                            (match List.assoc_opt fd (fds_of st.s_before main) with
                             | Some { f_obj = OPipeR q; _ } ->
                               let pend = i (get_pipe q st.s_before).p_len > 0 || not (has_writer q st.s_before) in
                               if pend && (List.nth evs k land bit = 0 || t1 <> t0) then
                                 fail "C09/missed-event" (Printf.sprintf "stream %d of source %d was readable/closed but not reported at once" s k)
                             | _ -> ())
                          | None -> () in
                      chk ev_out 1; chk ev_err 2;
                      (if m land ev_in <> 0 && not hi.pclosed.(0) then
                         match parent_end ws st.s_before main c 0 with
                         | Some fd ->
                           (match List.assoc_opt fd (fds_of st.s_before main) with
                            | Some { f_obj = OPipeW q; _ } ->
                              if not (has_reader q st.s_before) && (List.nth evs k land ev_in = 0 || t1 <> t0) then
                                fail "C09/missed-event/in-closed" (Printf.sprintf "the child of source %d closed its stdin but no input event is reported" k)
                            | _ -> ())
                         | None -> ());
                      if m land ev_exit <> 0 && ended st.s_before c && hi.status = None && h_exit_ok ws c
                         && (List.nth evs k land ev_exit = 0 || t1 <> t0) then
                        fail "C09/missed-event/exit" (Printf.sprintf "child of source %d had exited but no exit event" k)
                    | None -> ())
                 | _ -> ()) info
         | _ -> ());
        (* closed-pipe error exactly when nothing requested can be polled *)
        let decidable = List.for_all (fun (h, _, hi) -> h = -1 || (match hi with Some hi -> hi.started && not hi.fork_mode | None -> false) || (match hi with Some hi -> not hi.started | None -> true)) info in
        if decidable && srcs <> [] then begin
          let any = List.exists (fun (_, m, hi) -> match hi with
              | Some hi when hi.started ->
                List.exists (fun bit -> m land bit <> 0 && pollable hi bit = Some true) [ 1; 2; 4; 8 ]
                || (m land (ev_out lor ev_err) <> 0 && false)
              | _ -> false) info in
          let expired = List.exists (fun (_, _, hi) -> match hi with Some { deadline_abs = Some d; started = true; _ } -> d <= t0 | _ -> false) info in
          if not expired && faults_of r = [] then begin
            if rr = epipe && any then fail "C09/epipe-iff/spurious" "closed-pipe error although a requested stream is still open";
            if rr <> epipe && not any && rr >= 0 && tmo <> 0 && List.for_all (fun (_, _, hi) -> match hi with Some { deadline_abs = Some _; _ } -> false | _ -> true) info then
              fail "C09/epipe-iff/missing" "nothing requested can be polled but no closed-pipe error"
          end
        end
      | _ -> ()))

(* C02: stream fidelity *)
let mon_c02 (r : runres) =
  let main = main_of r in
  let next_off : (int * int, int) Hashtbl.t = Hashtbl.create 8 in   (* (handle, src) -> next offset *)
  let check_runs h tag rs =
    List.iter (function
        | RPos (src, off, len) ->
          let src = i src and off = i off and len = i len in
          let want = Option.value ~default:0 (Hashtbl.find_opt next_off (h, src)) in
          if off > want then fail (tag ^ "-gap") (Printf.sprintf "bytes [%d,%d) of source %d skipped" want off src)
          else if off < want then fail (tag ^ "-dup") (Printf.sprintf "offset %d of source %d delivered again (next expected %d)" off src want);
          Hashtbl.replace next_off (h, src) (off + len)
        | RLit _ -> fail (tag ^ "-foreign") "literal bytes delivered on a data stream") rs in
  let tbl = walk r (fun tbl _ st _evs ->
      (* each child sees end-of-file once its stdin was closed by the parent: nobody else may hold the write end *)
      Hashtbl.iter (fun _ (hi : hinfo) ->
          if hi.started && hi.child > 0 && not hi.fork_mode && hi.pclosed.(0) then
            match hi.start_after with
            | Some ws ->
              (match image_obj ws hi.child 0 with
               | Some (OPipeR q) when (proc st.s_after hi.child).pr_state = Running ->
                 List.iter (fun (pid, (p : proc)) ->
                     if i pid <> hi.child && p.pr_state = Running && (i pid = main || i p.pr_parent = main)
                        && List.exists (fun (_, (d : fdent)) -> d.f_obj = OPipeW q) (fds_list p) then
                       fail (Printf.sprintf "C02/no-eof/write-end-held-by-%s" (if i pid = main then "parent" else "sibling"))
                         (Printf.sprintf "stdin of child %d was closed but process %d still holds its write end" hi.child (i pid)))
                   (procs_list st.s_after)
               | _ -> ())
            | None -> ()) tbl;
      match st.s_op, st.s_res with
      | OS (SRead (h, s, true, n)), RRead (rr, rs) when i s = 1 || i s = 2 ->
        (match Hashtbl.find_opt tbl (i h) with
         | Some hi when hi.started && not hi.fork_mode && hi.child > 0 ->
           let rr = i rr and s = i s in
           if rr > 0 then begin
             if hi.epiped.(s) then fail "C02/epipe-unstick" "data returned after the closed-stream error";
             if sum (List.map (fun x -> i (run_len x)) rs) <> rr then fail "C02/out-count" "returned count differs from delivered bytes";
             check_runs (i h) "C02/out" rs
           end else if rr = epipe && not hi.pclosed.(s) && not hi.epiped.(s)
                       && (match hi.eff with Some e -> i (if s = 1 then e.o_out else e.o_err).rd_type = 1 | None -> false) then begin
             (* all data of the pipe behind this stream must have been delivered *)
             (match hi.start_after with
              | Some ws ->
                (match image_obj ws hi.child s with
                 | Some (OPipeW q) ->
                   let left = i (get_pipe q st.s_after).p_len in
                   let writers = has_writer q st.s_after in
                   if left > 0 then fail (if i n = 0 then "C02/epipe-early/size0" else "C02/epipe-early") (Printf.sprintf "closed-stream error with %d bytes undelivered" left)
                   else if writers && i n > 0 then fail "C02/epipe-early/writer-open" "closed-stream error while the child still holds the stream open"
                   else if writers then fail "C02/epipe-early/size0" "closed-stream error for a size-0 read while the stream is open"
                 | _ -> ())
              | None -> ())
           end else if rr <> epipe && hi.epiped.(s) then fail "C02/epipe-unstick" (Printf.sprintf "read after the closed-stream error returned %d" rr)
         | _ -> ())
      | OS (SDrain (h, _, _, _, _, _)), RDrain (_, calls) ->
        (match Hashtbl.find_opt tbl (i h) with
         | Some hi when hi.started && not hi.fork_mode ->
           List.iteri (fun k (((_, _), n), rs) -> if k >= 2 && i n > 0 then check_runs (i h) "C02/out" rs) calls
         | _ -> ())
      | OS (SWrite (h, true, _)), RInt rr ->
        (match Hashtbl.find_opt tbl (i h) with
         | Some hi when hi.started && not hi.fork_mode ->
           (* bytes that entered the pipe during this call = the count the call reported *)
           let put = sum (List.filter_map (fun e -> if by main e && is_call CWrite e && ret e > 0 then Some (ret e) else None) _evs) in
           if put <> max 0 (i rr) then
             fail "C02/in-accepted-mismatch" (Printf.sprintf "write put %d bytes into the child's stdin but returned %d" put (i rr))
         | _ -> ())
      | _ -> ()) in
  (* stdin as seen by each child: start-up input then accepted writes, in order, no gaps *)
  Hashtbl.iter (fun h hi ->
      if hi.started && hi.child > 0 && not hi.fork_mode then begin
        let seen = List.rev (proc r.r_last hi.child).pr_seen in
        let exp_src = ref (i (input_src (z_of_int h))) and exp_off = ref 0 in
        let input_size = match hi.opts with Some o when o.o_input_data -> i o.o_input_size | _ -> 0 in
        if input_size = 0 then exp_src := i (write_src (z_of_int h));
        let eof = ref false in
        List.iter (function
            | OData (fd, rs, _) when i fd = 0 ->
              if !eof then fail "C02/in-after-eof" "child read data after end-of-file";
              List.iter (function
                  | RPos (src, off, len) ->
                    let src = i src and off = i off and len = i len in
                    if src = !exp_src && off = !exp_off then exp_off := off + len
                    else if src = i (write_src (z_of_int h)) && !exp_src = i (input_src (z_of_int h)) && !exp_off = input_size && off = 0 then
                      (exp_src := src; exp_off := len)
                    else fail "C02/in-order" (Printf.sprintf "child stdin saw source %d offset %d, expected source %d offset %d" src off !exp_src !exp_off)
                  | RLit _ -> fail "C02/in-foreign" "literal bytes on the child's stdin") rs
            | OEof (fd, _) when i fd = 0 -> eof := true
            | _ -> ()) seen;
        (* end-of-file after close / start-up input: a child still blocked reading an empty
           stdin whose parent end is gone is a missing EOF *)
        let p = proc r.r_last hi.child in
        (match p.pr_state, p.pr_script with
         | Running, (ARead (fd, _) | AReadAll fd) :: _ when i fd = 0 && (hi.pclosed.(0) || input_size > 0 || (match hi.opts with Some o -> o.o_input_data | None -> false)) ->
           (match List.assoc_opt 0 (fds_of r.r_last hi.child) with
            | Some { f_obj = OPipeR q; _ } when i (get_pipe q r.r_last).p_len = 0 && i p.pr_wake <= i r.r_last.w_time ->
              fail "C02/no-eof" "stdin closed by the parent but the child is still waiting for end-of-file"
            | _ -> ())
         | _ -> ())
      end) tbl;
  ignore main

(* C14: life cycle / result classes *)
type life = LNone | LNotStarted | LRunning | LExited | LInChild
let mon_c14 (r : runres) (flags : string list) =
  List.iter (fun f -> if String.length f >= 11 && String.sub f 0 11 = "child-crash" then fail ("C14/crash/" ^ f) "the child side of fork crashed inside the library") flags;
  (match r.r_final with
   | FCrash y when i y <> 1 -> fail (Printf.sprintf "C14/crash/%d" (i y)) "the library did something the world cannot express (or crashed)"
   | _ -> ());
  let st_of : (int, life) Hashtbl.t = Hashtbl.create 8 in
  let get h = Option.value ~default:LNone (Hashtbl.find_opt st_of h) in
  let name = function LNone -> "none" | LNotStarted -> "not-started" | LRunning -> "running" | LExited -> "exited" | LInChild -> "in-child" in
  let main = main_of r in
  List.iter (fun st ->
      let in_child = i st.s_before.w_cur <> main in
      let expect_einval h opname rr =
        match get h with
        | LNotStarted | LInChild -> if rr <> einval then fail (Printf.sprintf "C14/result-class/%s/%s" (name (get h)) opname) (Printf.sprintf "%s on a %s handle returned %d" opname (name (get h)) rr)
        | _ -> () in
      ignore in_child;
      match st.s_op, st.s_res with
      | ONew h, RNew ok -> Hashtbl.replace st_of (i h) (if ok then LNotStarted else LNone)
      | OStart (h, _, o, _, _), RInt rr ->
        let h = i h and rr = i rr in
        (match get h with
         | LNotStarted ->
           if rr > 0 then Hashtbl.replace st_of h LRunning
           else if rr = 0 then (if o.o_fork then Hashtbl.replace st_of h LInChild else fail "C14/result-class/not-started/start" "start returned 0 outside fork mode")
         | LRunning | LExited | LInChild ->
           if rr <> einval then fail (Printf.sprintf "C14/result-class/%s/start" (name (get h))) (Printf.sprintf "start on a %s handle returned %d" (name (get h)) rr)
         | LNone -> ())
      | OS (SPid h), RInt rr -> expect_einval (i h) "pid" (i rr);
        if get (i h) = LRunning && i rr <= 0 then fail "C14/result-class/running/pid" (Printf.sprintf "pid of a running handle is %d" (i rr))
      | OS (SWait (h, _)), RInt rr | OS (SStop (h, _)), RInt rr ->
        let opn = (match st.s_op with OS (SWait _) -> "wait" | _ -> "stop") in
        expect_einval (i h) opn (i rr);
        (match get (i h) with
         | LRunning -> if i rr >= 0 then Hashtbl.replace st_of (i h) LExited
         | LExited -> if i rr < 0 then fail (Printf.sprintf "C14/result-class/exited/%s" opn) (Printf.sprintf "%s on an exited handle returned %d" opn (i rr))
         | _ -> ())
      | OS (STerminate h), RInt rr | OS (SKill h), RInt rr ->
        let opn = (match st.s_op with OS (STerminate _) -> "terminate" | _ -> "kill") in
        expect_einval (i h) opn (i rr);
        if get (i h) = LExited && i rr <> 0 then fail (Printf.sprintf "C14/result-class/exited/%s" opn) (Printf.sprintf "%s on an exited handle returned %d" opn (i rr))
      | OS (SRead (h, s, hb, _)), RRead (rr, _) ->
        let h = i h and rr = i rr in
        if (i s <> 1 && i s <> 2) || not hb then
          (if rr <> einval && get h <> LNone then fail "C14/result-class/bad-argument/read" (Printf.sprintf "read with a bad stream or NULL buffer returned %d" rr))
        else (match get h with
            | LNotStarted -> if rr <> epipe && rr <> einval then fail "C14/result-class/not-started/read" (Printf.sprintf "read on a not started handle returned %d" rr)
            | LInChild -> if rr <> einval then fail "C14/result-class/in-child/read" (Printf.sprintf "read in the child returned %d" rr)
            | _ -> ())
      | OS (SWrite (h, hb, n)), RInt rr ->
        let h = i h and rr = i rr in
        if not hb && i n > 0 then (if rr <> einval && get h <> LNone then fail "C14/result-class/bad-argument/write" (Printf.sprintf "write with NULL buffer returned %d" rr))
        else (match get h with
            | LNotStarted -> if hb && rr <> epipe && rr <> einval then fail "C14/result-class/not-started/write" (Printf.sprintf "write on a not started handle returned %d" rr)
            | LInChild -> if rr <> einval then fail "C14/result-class/in-child/write" (Printf.sprintf "write in the child returned %d" rr)
            | _ -> ())
      | OS (SClose (h, s)), RInt rr ->
        let h = i h and rr = i rr in
        if i s < 0 || i s > 2 then (if rr <> einval && get h <> LNone then fail "C14/result-class/bad-argument/close" (Printf.sprintf "close of stream %d returned %d" (i s) rr))
        else (match get h with
            | LNotStarted | LRunning | LExited -> if rr <> 0 then fail (Printf.sprintf "C14/result-class/%s/close" (name (get h))) (Printf.sprintf "close returned %d" rr)
            | LInChild -> if rr <> einval then fail "C14/result-class/in-child/close" (Printf.sprintf "close in the child returned %d" rr)
            | LNone -> ())
      | OS (SDestroy h), RUnit -> Hashtbl.remove st_of (i h)
      | _ -> ()) r.r_steps;
  (* streams closed by the parent, consumed to their end, or given as start-up input stay closed *)
  ignore (walk r (fun tbl _ st _ ->
      match st.s_op, st.s_res with
      | OS (SRead (h, s, true, _)), RRead (rr, _) when i s = 1 || i s = 2 ->
        (match Hashtbl.find_opt tbl (i h) with
         | Some hi when hi.started && not hi.fork_mode && (hi.pclosed.(i s) || hi.epiped.(i s)) ->
           if i rr <> epipe then fail "C14/result-class/closed-stream/read" (Printf.sprintf "read of a closed stream returned %d" (i rr))
         | _ -> ())
      | OS (SWrite (h, true, _)), RInt rr ->
        (match Hashtbl.find_opt tbl (i h) with
         | Some hi when hi.started && not hi.fork_mode
                        && (hi.pclosed.(0) || (match hi.opts with Some o -> o.o_input_data | None -> false)
                            || (match hi.eff with Some e -> i e.o_in.rd_type <> 1 | None -> false)) ->
           if i rr <> epipe then fail "C14/result-class/closed-stream/write" (Printf.sprintf "write to a closed or non-piped stdin returned %d" (i rr))
         | Some hi when hi.started && not hi.fork_mode && hi.child > 0 && i rr = epipe ->
           (* the converse: the closed-pipe error only for a stdin that really is closed -- here the
              parent never closed it, it is a pipe, and the child still holds its read end *)
           (* ... before AND after the call: a child that dies or closes its stdin while the write is in
              progress (e.g. killed by SIGPIPE on its own output) makes the error legitimate *)
           let reader_open =
             match image_obj (match hi.start_after with Some w -> w | None -> st.s_before) hi.child 0 with
             | Some (OPipeR q) ->
               List.for_all (fun w -> (proc w hi.child).pr_state = Running
                                      && List.exists (fun (_, d) -> d.f_obj = OPipeR q) (fds_of w hi.child))
                 [ st.s_before; st.s_after ]
             | _ -> false in
           if reader_open then
             fail "C14/result-class/open-stream/write" "write returned the closed-pipe error although stdin was never closed and the child still reads it"
         | _ -> ())
      | _ -> ()))

(* C15: destroy applies the stop policy *)
let mon_c15 (r : runres) (flags : string list) =
  let main = main_of r in
  if List.mem "destroy-not-null" flags then fail "C15/not-null" "destroy did not return NULL";
  let check_destroy (hi : hinfo) (w0 : world) (w1 : world) evs returned =
    let c = hi.child in
    match hi.opts with
    | Some o when hi.started && c > 0 && hi.status = None && not hi.fork_mode ->
      let acts = norm_stop o.o_stop in
      let kills = List.filter (fun e -> by main e && is_call CKill e) evs in
      let default = (acts = [ (1, -2); (2, -1) ]) in
      let hx = h_exit_ok (match hi.start_after with Some w -> w | None -> w0) c in
      if returned && not (reaped w0 c) then begin
        (* the stop policy was applied: some wait (poll on the exit handle) or signal happened *)
        if not (List.exists (fun e -> by main e && (is_call CPoll e || is_call CKill e)) evs) then
          fail "C15/no-stop-on-destroy" "destroy of a running child performed no stop action";
        (* "FIRST runs the stop sequence": nothing is released before the first wait or signal *)
        (match List.filter (fun e -> by main e && List.mem e.e_call [ CPoll; CKill; CClose ]) evs with
         | e :: _ when is_call CClose e ->
           fail "C15/released-before-stop" (Printf.sprintf "destroy of a running child called %s before any step of its stop sequence" (Show.call_name e.e_call))
         | _ -> ());
        if default && hx && not (reaped w1 c) && faults_of r = [] then
          fail "C15/abandoned-running-child" "destroy with the default policy returned while the child was not reaped"
      end;
      if default && no_latency r then begin
        List.iter (fun e ->
            if arg 1 e <> 15 then fail "C15/default-policy/signal" (Printf.sprintf "default policy sent signal %d" (arg 1 e));
            (match hi.deadline_abs with
             | Some d -> if i e.e_time < d then fail "C15/term-before-deadline" (Printf.sprintf "SIGTERM at %d, deadline %d" (i e.e_time) d)
             | None -> if hx then fail "C15/term-before-deadline/no-deadline" "SIGTERM sent although there is no deadline");
            (match end_time w1 c with
             | Some te when te < i e.e_time && hx -> fail "C15/term-though-exited" "SIGTERM sent after the child had exited"
             | _ -> ())) kills;
        if List.length kills > 1 then fail "C15/default-policy/repeat" "default policy sent more than one signal"
      end
    | _ -> () in
  let tbl = walk r (fun tbl _ st evs ->
      match st.s_op with
      | OS (SDestroy h) ->
        (match Hashtbl.find_opt tbl (i h) with
         | Some hi ->
           let returned = st.s_res <> RSkip in
           check_destroy hi st.s_before st.s_after evs returned;
           (* everything the handle owned is released *)
           (match hi.start_after with
            | Some ws when returned && hi.started && hi.child > 0 && not hi.fork_mode ->
              List.iter (fun s -> match parent_end ws st.s_after main hi.child s with
                  | Some fd -> fail (Printf.sprintf "C15/residue-after-destroy/stream%d" s) (Printf.sprintf "descriptor %d still open after destroy" fd)
                  | None -> ()) [ 0; 1; 2 ];
              (match exit_parent_end ws st.s_after main hi.child with
               | Some fd -> fail "C15/residue-after-destroy/exit" (Printf.sprintf "exit handle %d still open after destroy" fd)
               | None -> ())
            | _ -> ())
         | None -> ())
      | _ -> ()) in
  (* a destroy that never returned (Hang): only allowed while the child runs *)
  (match r.r_pending, r.r_final with
   | Some (OS (SDestroy h)), FHang ->
     (match Hashtbl.find_opt tbl (i h) with
      | Some hi ->
        let w0 = (match List.rev r.r_steps with st :: _ -> st.s_after | [] -> r.r_last) in
        if hi.child > 0 && ended r.r_last hi.child && h_exit_ok (match hi.start_after with Some w -> w | None -> w0) hi.child then
          fail "C15/hang-though-exited" "destroy blocks for ever although the child has exited"
      | None -> ())
   | _ -> ())

(* C16: drain / run protocol *)
let mon_c16 (r : runres) =
  ignore (walk r (fun tbl _ st _ ->
      match st.s_op, st.s_res with
      | OS (SDrain (h, true, true, souts, serrs, _)), RDrain (rr, calls) ->
        (match Hashtbl.find_opt tbl (i h) with
         | Some hi when hi.started && not hi.fork_mode ->
           let rr = i rr in
           (match hi.deadline_abs with
            | Some d when no_latency r ->
              let t0 = i st.s_before.w_time and t1 = i st.s_after.w_time in
              if t1 > max t0 d then fail "C16/deadline-overrun" (Printf.sprintf "drain returned at %d, the deadline was %d" t1 d)
            | _ -> ());
           let calls = List.map (fun (((w, s), n), rs) -> (i w, i s, i n, rs)) calls in
           (match hi.deadline_abs with
            | Some d when d <= i st.s_before.w_time ->
              (* the deadline had passed before the call: the time-out error at once, nothing delivered *)
              if List.length calls > 2 then
                fail "C16/delivered-after-deadline" (Printf.sprintf "drain called %d ms after the deadline still made %d sink calls with data" (i st.s_before.w_time - d) (List.length calls - 2))
            | _ -> ());
           let so = ref (List.map i souts) and se = ref (List.map i serrs) in
           let pop which = let l = if which = 0 then so else se in match !l with [] -> 0 | v :: t -> l := t; v in
           let stopped = ref None in
           let closed = [| false; false; false |] in
           List.iteri (fun k (w, s, n, rs) ->
               if !stopped <> None then fail "C16/continued-after-nonzero" "a sink was called after a sink returned non-zero";
               (if k = 0 then (if (w, s, n) <> (0, 0, 0) then fail "C16/initial-calls" "first call is not out-sink(IN, 0)")
                else if k = 1 then (if (w, s, n) <> (1, 0, 0) then fail "C16/initial-calls" "second call is not err-sink(IN, 0)")
                else begin
                  if not ((w = 0 && s = 1) || (w = 1 && s = 2)) then fail "C16/tag" (Printf.sprintf "sink %d called with stream tag %d" w s);
                  if s >= 1 && s <= 2 then begin
                    if closed.(s) then fail "C16/close-call" (Printf.sprintf "stream %d delivered after its size-0 call" s);
                    if n = 0 then closed.(s) <- true
                  end;
                  if sum (List.map (fun x -> i (run_len x)) rs) <> n then fail "C16/chunk" "sink size differs from the bytes read"
                end);
               let v = pop w in
               if v <> 0 then stopped := Some v) calls;
           if !stopped = None && rr < 0 && rr <> etimedout && faults_of r = [] then
             fail "C16/result/unexpected-error" (Printf.sprintf "drain returned %d although no sink failed, no deadline expired and no call failed" rr);
           if rr = etimedout && hi.deadline_abs = None then fail "C16/result/timeout-without-deadline" "drain returned the timeout error but the process has no deadline";
           (match !stopped with
            | Some v -> if rr <> v then fail "C16/result/sink-value" (Printf.sprintf "sink returned %d, drain returned %d" v rr)
            | None ->
              if List.length calls < 2 then fail "C16/initial-calls" "fewer than two initial calls";
              if rr = 0 then begin
                let piped s = match hi.eff with Some e -> i (if s = 1 then e.o_out else e.o_err).rd_type = 1 | None -> false in
                List.iter (fun s -> if piped s && not closed.(s) && not hi.epiped.(s) && not hi.pclosed.(s) then
                              fail "C16/result/zero-before-closed" (Printf.sprintf "drain returned 0 but stream %d was never reported closed" s)) [ 1; 2 ]
              end)
         | _ -> ())
      | (ORunEx (_, o, _, _, _), RDrain (rr, _) | ORun (_, o, _), RInt rr) when not o.o_fork && i rr >= 0 ->
        (* run / run_ex: a non-negative result is how the child ended -- the decoded status of a
           child this very call reaped -- never a sink's value or anything else *)
        let main = main_of r in
        let evs = step_events st in
        let reaped = List.filter_map (fun e -> if by main e && is_call CWaitpid e && ret e > 0 then Some (decode (out 0 e)) else None) evs in
        if not (List.mem (i rr) reaped) then
          fail "C16/run-result/not-the-exit-status"
            (Printf.sprintf "run returned %d, the child it reaped ended with %s" (i rr)
               (match reaped with [] -> "(no child reaped)" | l -> String.concat "," (List.map string_of_int l)))
      | _ -> ()))

(* C17: nonblocking never blocks; start-up input never blocks start *)
let mon_c17 (r : runres) =
  let main = main_of r in
  (match r.r_pending, r.r_final with
   | Some (OStart (_, _, o, _, _)), FHang when not o.o_fork ->
     fail (if o.o_input_data then "C17/start-blocked-on-input" else "C17/start-hangs") "start never returns (blocked for ever)"
   | _ -> ());
  ignore (walk r (fun tbl _ st evs ->
      match st.s_op, st.s_res with
      | OS (SRead (h, _, _, _)), RRead (rr, _) | OS (SWrite (h, _, _)), RInt rr ->
        (match Hashtbl.find_opt tbl (i h) with
         | Some hi when hi.started && (match hi.opts with Some o -> o.o_nonblocking | None -> false) ->
           List.iter (fun e -> if by main e && (is_call CRead e || is_call CWrite e || is_call CPoll e) && i e.e_blocked > 0 then
                         fail (Printf.sprintf "C17/blocked-in-nonblocking/%s" (Show.call_name e.e_call)) (Printf.sprintf "%s blocked %d ms on a nonblocking handle" (Show.call_name e.e_call) (i e.e_blocked))) evs;
           ignore rr
         | _ -> ())
      | OStart (_, _, o, _, _), RInt rr when o.o_input_data && i st.s_after.w_cur = main ->
        List.iter (fun e -> if by main e && is_call CWrite e && i e.e_blocked > 0 then
                      fail "C17/start-blocked-on-input" (Printf.sprintf "start blocked %d ms writing the start-up input" (i e.e_blocked))) evs;
        if i rr > 0 then begin
          let written = sum (List.filter_map (fun e -> if by main e && is_call CWrite e && ret e > 0 && arg 1 e <> 4 then Some (ret e) else None) evs) in
          if written <> i o.o_input_size then fail "C17/input-partial" (Printf.sprintf "start succeeded with %d of %d input bytes delivered" written (i o.o_input_size))
        end
      | _ -> ()))

(* C20 (model-level part): no cross-talk between handles — an op on one handle touches only
   descriptors that handle owns *)
let mon_c20 (r : runres) =
  let main = main_of r in
  let owner : (int, int) Hashtbl.t = Hashtbl.create 16 in    (* fd -> handle slot that created it *)
  ignore (walk r (fun _ _ st evs ->
      let h = match st.s_op with
        | OStart (h, _, _, _, _) -> Some (i h)
        | OS (SRead (h, _, _, _)) | OS (SWrite (h, _, _)) | OS (SClose (h, _)) | OS (SWait (h, _)) | OS (SStop (h, _))
        | OS (STerminate h) | OS (SKill h) | OS (SDestroy h) | OS (SDrain (h, _, _, _, _, _)) -> Some (i h)
        | _ -> None in
      match h with
      | None -> ()
      | Some h ->
        List.iter (fun e ->
            if by main e then begin
              if is_call CPipe e && ret e = 0 then (Hashtbl.replace owner (out 0 e) h; Hashtbl.replace owner (out 1 e) h);
              if is_call COpen e && ret e >= 0 then Hashtbl.replace owner (ret e) h;
              if List.mem e.e_call [ CClose; CRead; CWrite; CSetfl; CSetfd ] then begin
                let fd = arg 0 e in
                (match Hashtbl.find_opt owner fd with
                 | Some h' when h' <> h -> fail "C20/crosstalk/descriptor" (Printf.sprintf "op on handle %d used descriptor %d of handle %d" h fd h')
                 | _ -> ());
                if is_call CClose e then Hashtbl.remove owner fd
              end
            end) evs))

(* ================= projections ================= *)
(* what model and implementation must agree on, per property: op results + selected events
   (+ times where the property is about time) + selected final state *)
let calls_for = function
  | "C01" -> [ CWaitpid; CKill ], false
  | "C02" -> [ CRead; CWrite ], false
  | "C03" -> [ CExecvp; CChdir; CGetcwd ], false
  | "C04" -> [ CFork; CWaitpid; CExecvp; CExit ], false
  | "C05" -> [ CPipe; COpen; CClose; CMalloc; CCalloc; CRealloc; CFree; CStrdup; CFork; CWaitpid ], false
  | "C06" -> [ CKill; CWaitpid; CFork ], false
  | "C07" -> [ CKill; CWaitpid; CPoll ], true
  | "C08" -> [ CPoll; CClock ], true
  | "C09" -> [ CPoll ], false
  | "C10" -> [ CDup2; COpen; CFileno; CPipe; CExecvp ], false
  | "C11" -> [ CClose; CGetfd; CSetfd; CGetrlimit; CExecvp ], false
  | "C12" -> [ CSigmask; CSigaction; CSigfillset; CSigemptyset; CChdir ], false
  | "C13" -> [ CPipe; COpen; CFork ], false
  | "C14" -> [], false
  | "C15" -> [ CKill; CWaitpid; CPoll; CClose; CFree ], true
  | "C16" -> [ CRead; CPoll ], false
  | "C17" -> [ CRead; CWrite; CPoll; CSetfl; CGetfl ], true
  | "C20" -> [ CRead; CWrite; CClose; CPipe; CKill; CWaitpid ], false
  | _ -> [], false

let proj_event timed (e : event) =
  Printf.sprintf "%d %s%s%s->%d%s e%d%s" (i e.e_pid) (Show.call_name e.e_call) (Show.zs e.e_args)
    (if e.e_sargs = [] then "" else Show.list Show.str e.e_sargs) (i e.e_ret)
    (if e.e_outs = [] then "" else Show.zs e.e_outs)
    (if ret e = -1 || e.e_call = CSigmask then i e.e_errno else 0)
    (if timed then Printf.sprintf " t%d b%d" (i e.e_time) (i e.e_blocked) else "")

let proj_proc (pid, (p : proc)) =
  Printf.sprintf "proc %d %s image=%s seen=%d" (i pid)
    (match p.pr_state with Running -> "running" | Zombie s -> Printf.sprintf "zombie%d" (i (Z.of_N s)) | Reaped s -> Printf.sprintf "reaped%d" (i (Z.of_N s)))
    (match p.pr_image with
     | Some im -> Printf.sprintf "{%s %s env=%s cwd=%s fds=%s mask=%s disp=%d}" (string_of_str im.im_prog) (Show.list Show.str im.im_argv)
                    (Show.list Show.str im.im_env) (string_of_str im.im_cwd) (Show.list Show.fdent im.im_fds) (Show.zs im.im_mask) (List.length im.im_disp)
     | None -> "-")
    (List.length p.pr_seen)

let projection (prop : string) (r : runres) (flags : string list) : string list =
  let calls, timed = calls_for prop in
  let main = main_of r in
  let res = List.map (fun st -> Show.op st.s_op ^ " => " ^ Show.opres st.s_res
                                ^ (if timed then Printf.sprintf " @%d" (i st.s_after.w_time) else "")) r.r_steps in
  let evs = List.filter_map (fun e -> if List.mem e.e_call calls then Some (proj_event timed e) else None) (List.rev r.r_last.w_trace) in
  let fin = [ "final " ^ Show.final r.r_final ^ (match r.r_pending with Some o -> " pending " ^ Show.op o | None -> "") ] in
  let procs = List.map proj_proc (procs_list r.r_last) in
  let fds = [ "fds " ^ Show.list Show.fdent (fds_list (proc r.r_last main)) ] in
  let heap = [ Printf.sprintf "heap live=%d" (List.length (List.filter (fun (_, (l, _)) -> l) (heap_list r.r_last))) ] in
  let mainst = let p = proc r.r_last main in
    [ Printf.sprintf "main mask=%s cwd=%s env=%d disp=%d" (Show.zs p.pr_mask) (string_of_str p.pr_cwd) (List.length p.pr_env) (List.length (disp_list p)) ] in
  let seen = List.concat_map (fun (pid, (p : proc)) ->
      List.rev_map (function
          | OData (fd, rs, t) -> Printf.sprintf "seen %d data fd%d %s%s" (i pid) (i fd) (Show.runs rs) (if timed then Printf.sprintf " t%d" (i t) else "")
          | OEof (fd, t) -> Printf.sprintf "seen %d eof fd%d%s" (i pid) (i fd) (if timed then Printf.sprintf " t%d" (i t) else "")
          | OSig (s, t) -> Printf.sprintf "seen %d sig %d t%d" (i pid) (i s) (i t)) p.pr_seen) (procs_list r.r_last) in
  res @ evs @ fin @ procs @ fds @ heap @ mainst @ seen @ List.map (fun f -> "flag " ^ f) (List.sort compare flags)

let monitor (prop : string) (r : runres) (sc : scenario) (flags : string list) : fail list =
  fails := [];
  (match prop with
   | "C01" -> mon_c01 r
   | "C02" -> mon_c02 r
   | "C03" -> mon_c03 r
   | "C04" -> mon_c04 r sc
   | "C05" -> mon_c05 r sc
   | "C06" -> mon_c06 r
   | "C07" -> mon_c07 r
   | "C08" -> mon_c08 r
   | "C09" -> mon_c09 r
   | "C10" -> mon_c10 r; mon_c10_parent_ends r
   | "C11" -> mon_c11 r
   | "C12" -> mon_c12 r flags
   | "C13" -> mon_c13 r
   | "C14" -> mon_c14 r flags
   | "C15" -> mon_c15 r flags
   | "C16" -> mon_c16 r; mon_c02 r
   | "C17" -> mon_c17 r
   | "C20" -> mon_c20 r; mon_c01 r; mon_c02 r
   | _ -> ());
  if List.mem "heap-overflow" flags then fail (prop ^ "/oob-store") "the library wrote past the end of a heap block it allocated";
  List.iter (fun f -> if List.mem f [ "read-content-mismatch"; "sink-content-mismatch" ] then
                fail (prop ^ "/content-mismatch") "bytes delivered differ from the bytes written at those offsets") flags;
  List.rev !fails
