(* scn.ml — building scenarios from OCaml values; PRNG; common pieces of generators *)
open Model
open Glue

let z = z_of_int
let s = str_of_string

(* ---- splittable PRNG: every random choice derives from VERIF_SEED ---- *)
type rng = { mutable st : int }
let mk_rng seed = { st = (seed * 2654435761 + 12345) land 0x3fffffffffffffff }
let next r =
  (* xorshift-ish 62-bit *)
  let x = r.st in
  let x = x lxor (x lsl 13) land 0x3fffffffffffffff in
  let x = x lxor (x lsr 7) in
  let x = x lxor (x lsl 17) land 0x3fffffffffffffff in
  r.st <- (if x = 0 then 88172645463325252 else x);
  r.st
let rint r n = if n <= 0 then 0 else (next r lsr 8) mod n
let rbool r = rint r 2 = 0
let pick r l = List.nth l (rint r (List.length l))
let pick_a r a = a.(rint r (Array.length a))
let split r k = mk_rng (next r lxor (k * 7919))
let chance r num den = rint r den < num

(* ---- options ---- *)
let no_redirect : redirect = { rd_type = Z0; rd_handle = Z0; rd_file = Z0; rd_path = None }
let rd_type t : redirect = { no_redirect with rd_type = z t }
let sa a t : stop_action = { sa_action = z a; sa_timeout = z t }
let stop3 a b c : stop_actions = { st_first = a; st_second = b; st_third = c }
let null_stop = Model.null_stop
let default_options : options = {
  o_wd = None; o_env_behavior = Z0; o_env_extra = None;
  o_in = no_redirect; o_out = no_redirect; o_err = no_redirect;
  o_parent = false; o_discard = false; o_file = Z0; o_path = None;
  o_stop = null_stop; o_deadline = Z0; o_input_data = false; o_input_size = Z0;
  o_fork = false; o_nonblocking = false }

(* ---- worlds ---- *)
let fdent ?(cx = false) ?(nb = false) o : fdent = { f_obj = o; f_cloexec = cx; f_nonblock = nb }
let std_fds = [ (z 0, fdent (OExt (z 100, ARd))); (z 1, fdent (OExt (z 101, AWr))); (z 2, fdent (OExt (z 102, AWr))) ]

let prog path script = (s path, FExec script)
let dir path = (s path, FDir)

let base_fs = [ dir "/"; dir "/bin"; dir "/usr/bin"; dir "/w"; dir "/w/parent"; dir "/w/child"; dir "/w/parent/sub"; dir "/tmp" ]

let mk_world ?(time0 = 1000123) ?(subns = 999999) ?(main = 70001) ?(fds = std_fds) ?(mask = [])
    ?(disp = []) ?(cwd = "/w/parent") ?(env = [ "PATH=/bin"; "HOME=/w" ]) ?(rlimit = 24)
    ?(fs = []) ?(faults = []) ?(lat = []) ?(files = std_files) () : world =
  build_world (z time0) (z subns) (z main) fds (zl mask) disp (s cwd) (List.map s env) (z rlimit)
    (base_fs @ fs) (List.map (fun (k, e) -> (z k, pos_of_int e)) faults)
    (List.map (fun (k, l) -> (z k, z l)) lat) files

let argv l = Some (List.map s l)

let start ?(h = 0) ?(opts = default_options) ?(child = []) ?(script = []) av = OStart (z h, av, opts, child, script)
let new_ ?(h = 0) () = ONew (z h)
let wait ?(h = 0) t = OS (SWait (z h, z t))
let destroy ?(h = 0) () = OS (SDestroy (z h))
let sleep ms = OS (SSleep (z ms))
let terminate ?(h = 0) () = OS (STerminate (z h))
let kill ?(h = 0) () = OS (SKill (z h))
let stop ?(h = 0) a = OS (SStop (z h, a))
let read ?(h = 0) ?(buf = true) stream n = OS (SRead (z h, z stream, buf, z n))
let write ?(h = 0) ?(buf = true) n = OS (SWrite (z h, buf, z n))
let close ?(h = 0) stream = OS (SClose (z h, z stream))
let poll ?(t = -1) srcs = OS (SPoll (List.map (fun (h, m) -> (z h, z m)) srcs, z t))
let pid ?(h = 0) () = OS (SPid (z h))
let drain ?(h = 0) ?(ho = true) ?(he = true) ?(so = []) ?(se = []) () =
  OS (SDrain (z h, ho, he, zl so, zl se, nat_of_int 3000))

(* child script actions *)
let a_sleep ms = ASleep (z ms)
let a_write fd n = AWrite (z fd, z n)
let a_read fd n = ARead (z fd, z n)
let a_readall fd = AReadAll (z fd)
let a_close fd = AClose (z fd)
let a_exit c = AExit (z c)
let a_raise sg = ARaise (z sg)
let a_ignore sg = AIgnore (z sg)
let a_handle sg delay code = AHandle (z sg, z delay, Option.map z code)
