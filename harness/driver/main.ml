open Model
open Glue
open Scn

let diff_runs (m : runres) (r : runres) =
  let tm = List.rev m.r_last.w_trace and tr = List.rev r.r_last.w_trace in
  let rec go i a b = match a, b with
    | [], [] -> ()
    | x :: a', y :: b' ->
      if x = y then go (i + 1) a' b'
      else (Printf.printf "  trace differs at %d:\n    model: %s\n    impl : %s\n" i (Show.event x) (Show.event y);
            List.iteri (fun k e -> if k < 3 then Printf.printf "    model+%d: %s\n" (k+1) (Show.event e)) a';
            List.iteri (fun k e -> if k < 3 then Printf.printf "    impl +%d: %s\n" (k+1) (Show.event e)) b')
    | x :: _, [] -> Printf.printf "  model has extra event %d: %s\n" i (Show.event x)
    | [], y :: _ -> Printf.printf "  impl has extra event %d: %s\n" i (Show.event y) in
  go 0 tm tr;
  Printf.printf "  model final=%s impl final=%s\n" (Show.final m.r_final) (Show.final r.r_final);
  List.iter2 (fun a b ->
      if a.s_res <> b.s_res then
        Printf.printf "  result differs for %s: model %s impl %s\n" (Show.op a.s_op) (Show.opres a.s_res) (Show.opres b.s_res))
    (List.filteri (fun i _ -> i < List.length r.r_steps) m.r_steps)
    (List.filteri (fun i _ -> i < List.length m.r_steps) r.r_steps)

(* run a scenario on the implementation in a forked process *)
let run_impl_isolated (sc : scenario) : (runres * string list) option =
  let (rfd, wfd) = Unix.pipe () in
  flush stdout; flush stderr;
  match Unix.fork () with
  | 0 ->
    Unix.close rfd;
    let res = Impl.run_impl sc in
    let oc = Unix.out_channel_of_descr wfd in
    Marshal.to_channel oc res []; flush oc; Unix._exit 0
  | k ->
    Unix.close wfd;
    let ic = Unix.in_channel_of_descr rfd in
    let res = try Some (Marshal.from_channel ic : runres * string list) with _ -> None in
    close_in ic;
    ignore (Unix.waitpid [] k);
    res

let () =
  let w = mk_world ~fs:[ prog "/bin/c" [ a_write 1 10; a_sleep 50; a_exit 7 ] ] () in
  let sc = { sc_world = w; sc_ops = [ new_ (); start (argv [ "c" ]); read 1 100; wait (-1); read 1 100; destroy () ] } in
  let m = run_model sc in
  Printf.printf "model: final=%s steps=%d events=%d\n" (Show.final m.r_final) (List.length m.r_steps) (List.length m.r_last.w_trace);
  List.iter (fun st -> Printf.printf "  %s -> %s\n" (Show.op st.s_op) (Show.opres st.s_res)) m.r_steps;
  match run_impl_isolated sc with
  | None -> print_endline "impl: crashed"
  | Some (r, fl) ->
    Printf.printf "impl: final=%s steps=%d events=%d flags=%s\n" (Show.final r.r_final) (List.length r.r_steps) (List.length r.r_last.w_trace) (String.concat "," fl);
    List.iter (fun st -> Printf.printf "  %s -> %s\n" (Show.op st.s_op) (Show.opres st.s_res)) r.r_steps;
    if m = r then print_endline "EQUAL" else (print_endline "DIFFERENT"; diff_runs m r)
