(* main.ml — the correspondence driver.
     simrun family <Cnn> <quick|thorough> <seed> <out.json> [jobs] [budget_s]
     simrun replay <file> <Cnn>
     simrun demo *)
open Model
open Glue
open Scn

(* watchdog: [timeout_s] seconds of CPU time of the run itself (independent of how loaded the
   machine is) and a generous wall-clock limit for a run that blocks without computing *)
let timeout_s = ref 30
let wall_factor = 20

(* run a scenario on the implementation in a forked process (crash isolation, clean state) *)
let run_impl_once (sc : scenario) (cpu_s : int) : (runres * string list) option * bool =
  let (rfd, wfd) = Unix.pipe () in
  flush stdout; flush stderr;
  match Unix.fork () with
  | 0 ->
    Unix.close rfd;
    ignore (Unix.setitimer Unix.ITIMER_PROF { Unix.it_interval = 0.; it_value = float_of_int cpu_s });
    ignore (Unix.alarm (cpu_s * wall_factor));
    let res = Impl.run_impl sc in
    let oc = Unix.out_channel_of_descr wfd in
    Marshal.to_channel oc res []; flush oc; Unix._exit 0
  | k ->
    Unix.close wfd;
    let ic = Unix.in_channel_of_descr rfd in
    let res = try Some (Marshal.from_channel ic : runres * string list) with _ -> None in
    close_in ic;
    let (_, st) = Unix.waitpid [] k in
    let by_watchdog = (match st with Unix.WSIGNALED s -> s = Sys.sigalrm || s = Sys.sigprof | _ -> false) in
    (res, by_watchdog)
(* a run stopped by the watchdog is repeated once, alone on its core's time, with ten times the
   budget, before it is reported: a slow machine must never look like a crash of the library *)
let run_impl_isolated (sc : scenario) : (runres * string list) option =
  match run_impl_once sc !timeout_s with
  | (None, true) -> fst (run_impl_once sc (!timeout_s * 10))
  | (r, _) -> r

type verdict = {
  v_equal : bool;                 (* whole runs identical (diagnostic) *)
  v_proj_equal : bool;
  v_diff : string;                (* first differing projection line *)
  v_impl_fails : Mon.fail list;
  v_model_fails : Mon.fail list;
  v_crashed : bool;
  v_digest : string;
  v_nontrivial : bool;
  v_final : string;
  v_nops : int;
}

let first_diff a b =
  let rec go k a b = match a, b with
    | [], [] -> ""
    | x :: a', y :: b' -> if x = y then go (k + 1) a' b' else Printf.sprintf "line %d: model `%s` impl `%s`" k x y
    | x :: _, [] -> Printf.sprintf "line %d: model `%s` impl <nothing>" k x
    | [], y :: _ -> Printf.sprintf "line %d: model <nothing> impl `%s`" k y in
  go 0 a b

let judge (prop : string) (sc : scenario) : verdict =
  let m = run_model sc in
  let pm = Mon.projection prop m [] in
  let mf = Mon.monitor prop m sc [] in
  let nontrivial = List.exists (fun st -> match st.s_op, st.s_res with
      | OStart _, RInt r -> int_of_z r > 0 | (ORunEx _ | ORun _), _ -> true | _ -> false) m.r_steps
                   || (prop = "C13" || prop = "C04") in
  match run_impl_isolated sc with
  | None ->
    { v_equal = false; v_proj_equal = false; v_diff = "implementation run crashed or timed out";
      v_impl_fails = [ { Mon.key = prop ^ "/crash"; what = "the implementation run crashed (signal, abort or watchdog)" } ];
      v_model_fails = mf; v_crashed = true; v_digest = Digest.to_hex (Digest.string (String.concat "\n" pm));
      v_nontrivial = nontrivial; v_final = "impl-crash"; v_nops = List.length sc.sc_ops }
  | Some (r, fl) ->
    let pr = Mon.projection prop r fl in
    let rf = Mon.monitor prop r sc fl in
    { v_equal = (m = r && fl = []); v_proj_equal = (pm = pr); v_diff = (if pm = pr then "" else first_diff pm pr);
      v_impl_fails = rf; v_model_fails = mf; v_crashed = false;
      v_digest = Digest.to_hex (Digest.string (String.concat "\n" pr));
      v_nontrivial = nontrivial; v_final = Show.final r.r_final; v_nops = List.length sc.sc_ops }

(* ---- shrinking: greedy removal of ops / faults / latencies while [bad] still holds ---- *)
let shrink (bad : scenario -> bool) (sc : scenario) : scenario =
  let budget = ref 120 in
  let try_ sc' = if !budget <= 0 then false else (decr budget; bad sc') in
  let cur = ref sc in
  let progress = ref true in
  while !progress && !budget > 0 do
    progress := false;
    (* drop ops from the end towards the front *)
    let n = List.length !cur.sc_ops in
    let k = ref (n - 1) in
    while !k >= 0 && !budget > 0 do
      let ops' = List.filteri (fun j _ -> j <> !k) !cur.sc_ops in
      let sc' = { !cur with sc_ops = ops' } in
      if try_ sc' then (cur := sc'; progress := true);
      decr k
    done;
    let w = !cur.sc_world in
    List.iter (fun f ->
        let w' = { !cur.sc_world with w_faults = List.filter (fun g -> g <> f) !cur.sc_world.w_faults } in
        if List.length w'.w_faults < List.length !cur.sc_world.w_faults && try_ { !cur with sc_world = w' } then
          (cur := { !cur with sc_world = w' }; progress := true)) w.w_faults;
    if !cur.sc_world.w_lat <> [] then begin
      let w' = { !cur.sc_world with w_lat = [] } in
      if try_ { !cur with sc_world = w' } then (cur := { !cur with sc_world = w' }; progress := true)
    end
  done;
  !cur

let hex_of_string s =
  let b = Buffer.create (2 * String.length s) in
  String.iter (fun c -> Buffer.add_string b (Printf.sprintf "%02x" (Char.code c))) s;
  Buffer.contents b
let string_of_hex h =
  String.init (String.length h / 2) (fun k -> Char.chr (int_of_string ("0x" ^ String.sub h (2 * k) 2)))

let js = Show.json_escape
let replay_json prop (sc : scenario) kind key what (v : verdict) =
  Printf.sprintf "{\"property\":\"%s\",\"kind\":\"%s\",\"key\":\"%s\",\"what\":\"%s\",\"scenario\":\"%s\",\"model_agrees\":%b,\"projection_diff\":\"%s\",\"impl_monitor\":[%s],\"model_monitor\":[%s],\"marshal_hex\":\"%s\"}"
    prop kind (js key) (js what) (js (Show.scenario sc)) v.v_proj_equal (js v.v_diff)
    (String.concat "," (List.map (fun (f : Mon.fail) -> Printf.sprintf "\"%s: %s\"" (js f.key) (js f.what)) v.v_impl_fails))
    (String.concat "," (List.map (fun (f : Mon.fail) -> Printf.sprintf "\"%s: %s\"" (js f.key) (js f.what)) v.v_model_fails))
    (hex_of_string (Marshal.to_string sc []))

type rec_ = { idx : int; fam : int; v : verdict }

let () =
  match Array.to_list Sys.argv with
  | [ _; "family"; prop; tier; seed; out ] | [ _; "family"; prop; tier; seed; out; _ ] | [ _; "family"; prop; tier; seed; out; _; _ ] ->
    let jobs = if Array.length Sys.argv > 6 then int_of_string Sys.argv.(6) else 16 in
    let budget = if Array.length Sys.argv > 7 then float_of_string Sys.argv.(7) else (if tier = "quick" then 40.0 else 420.0) in
    let t0 = Unix.gettimeofday () in
    let fams = Fam.families prop tier (int_of_string seed) in
    let all = Array.of_list (List.concat (List.mapi (fun fi (f : Fam.fam) -> List.map (fun sc -> (fi, sc)) f.scs) fams)) in
    let n = Array.length all in
    (* workers *)
    let chans = List.init jobs (fun j ->
        let (rfd, wfd) = Unix.pipe () in
        flush stdout; flush stderr;
        match Unix.fork () with
        | 0 ->
          Unix.close rfd;
          let recs = ref [] and skipped = ref 0 in
          let k = ref j in
          while !k < n do
            if Unix.gettimeofday () -. t0 > budget then incr skipped
            else begin
              let (fi, sc) = all.(!k) in
              recs := { idx = !k; fam = fi; v = judge prop sc } :: !recs
            end;
            k := !k + jobs
          done;
          let oc = Unix.out_channel_of_descr wfd in
          Marshal.to_channel oc (!recs, !skipped) []; flush oc; Unix._exit 0
        | pid -> Unix.close wfd; (pid, Unix.in_channel_of_descr rfd)) in
    let recs = ref [] and skipped = ref 0 in
    List.iter (fun (pid, ic) ->
        (try let (r, s) : rec_ list * int = Marshal.from_channel ic in recs := r @ !recs; skipped := !skipped + s
         with _ -> skipped := !skipped + 1);
        close_in ic; ignore (Unix.waitpid [] pid)) chans;
    let recs = List.sort (fun a b -> compare a.idx b.idx) !recs in
    (* aggregate *)
    let evals = List.length recs in
    let digests = Hashtbl.create 1024 in
    List.iter (fun r -> if r.v.v_nontrivial then Hashtbl.replace digests r.v.v_digest ()) recs;
    let strict_diffs = List.length (List.filter (fun r -> not r.v.v_equal) recs) in
    let finals = Hashtbl.create 8 in
    List.iter (fun r -> Hashtbl.replace finals r.v.v_final (1 + Option.value ~default:0 (Hashtbl.find_opt finals r.v.v_final))) recs;
    (* failures grouped by key: impl monitor failures, then projection diffs *)
    let groups : (string, (string * string * int * rec_ * int list) ) Hashtbl.t = Hashtbl.create 16 in
    let add kind key what r =
      match Hashtbl.find_opt groups (kind ^ "|" ^ key) with
      | Some (k, w, c, best, fl) -> Hashtbl.replace groups (kind ^ "|" ^ key) (k, w, c + 1, (if r.v.v_nops < best.v.v_nops then r else best), (if List.mem r.fam fl then fl else r.fam :: fl))
      | None -> Hashtbl.replace groups (kind ^ "|" ^ key) (kind, what, 1, r, [ r.fam ]) in
    List.iter (fun r ->
        List.iter (fun (f : Mon.fail) -> add "monitor" f.key f.what r) r.v.v_impl_fails;
        if not r.v.v_proj_equal && r.v.v_impl_fails = [] then add "diff" (prop ^ "/model-impl-diff") r.v.v_diff r) recs;
    let model_only = Hashtbl.create 8 in
    List.iter (fun r -> List.iter (fun (f : Mon.fail) ->
        if not (List.exists (fun (g : Mon.fail) -> g.key = f.key) r.v.v_impl_fails) then Hashtbl.replace model_only f.key f.what) r.v.v_model_fails) recs;
    let failures = Hashtbl.fold (fun gk (kind, what, count, best, fl) acc ->
        let key = List.nth (String.split_on_char '|' gk) 1 in
        let (_, sc) = all.(best.idx) in
        let bad sc' =
          let v = judge prop sc' in
          if kind = "monitor" then List.exists (fun (f : Mon.fail) -> f.key = key) v.v_impl_fails
          else not v.v_proj_equal in
        let sc' = shrink bad sc in
        let v' = judge prop sc' in
        let what' = if kind = "monitor" then (match List.find_opt (fun (f : Mon.fail) -> f.key = key) v'.v_impl_fails with Some f -> f.what | None -> what) else v'.v_diff in
        Printf.sprintf "{\"kind\":\"%s\",\"key\":\"%s\",\"what\":\"%s\",\"count\":%d,\"families\":[%s],\"replay\":%s}" kind (js key) (js what') count
          (String.concat "," (List.map (fun fi -> Printf.sprintf "\"%s\"" (js (List.nth fams fi).Fam.name)) fl))
          (replay_json prop sc' kind key what' v') :: acc) groups [] in
    let samples = List.filteri (fun k _ -> k < 3) (List.filter_map (fun r ->
        if r.v.v_nontrivial && r.idx mod (max 1 (n / 3)) = 0 then Some (Printf.sprintf "\"%s\"" (js (Show.scenario (snd all.(r.idx))))) else None) recs) in
    let samples = if samples = [] && n > 0 then [ Printf.sprintf "\"%s\"" (js (Show.scenario (snd all.(0)))) ] else samples in
    let fam_json = String.concat "," (List.mapi (fun fi (f : Fam.fam) ->
        let mine = List.filter (fun r -> r.fam = fi) recs in
        Printf.sprintf "{\"family\":\"%s\",\"generated\":%d,\"run\":%d,\"enumerated_completely\":%b}" (js f.name) (List.length f.scs) (List.length mine)
          (f.exhaustive && List.length mine = List.length f.scs)) fams) in
    let oc = open_out out in
    Printf.fprintf oc "{\"tie\":\"sim-%s\",\"evaluations\":%d,\"distinct_nontrivial\":%d,\"rule\":\"%s\",\"exhaustive\":%b,\"samples\":[%s],\"distribution\":{\"families\":[%s],\"outcomes\":{%s},\"skipped_for_time\":%d,\"strict_whole_run_differences\":%d,\"model_only_monitor_failures\":[%s]},\"failures\":[%s],\"wall_s\":%.1f}\n"
      prop evals (Hashtbl.length digests)
      (js "scenario families generated from the seed (enumerated grids + random histories); each scenario is run on the Coq model and on the real C objects against the same extracted world; distinct = distinct property projections of the implementation run; non-trivial = contains a successful start (or exercises start validation)")
      (List.for_all (fun (f : Fam.fam) -> f.exhaustive) fams && !skipped = 0)
      (String.concat "," samples) fam_json
      (String.concat "," (Hashtbl.fold (fun k c acc -> Printf.sprintf "\"%s\":%d" (js k) c :: acc) finals []))
      !skipped strict_diffs
      (String.concat "," (Hashtbl.fold (fun k w acc -> Printf.sprintf "\"%s: %s\"" (js k) (js w) :: acc) model_only []))
      (String.concat "," failures) (Unix.gettimeofday () -. t0);
    close_out oc
  | [ _; "time"; prop; tier; seed; cnt ] ->
    let fams = Fam.families prop tier (int_of_string seed) in
    let all = List.concat_map (fun (f : Fam.fam) -> f.scs) fams in
    List.iteri (fun k sc -> if k < int_of_string cnt then begin
        let t0 = Unix.gettimeofday () in
        let m = run_model sc in
        let t1 = Unix.gettimeofday () in
        let r = run_impl_isolated sc in
        let t2 = Unix.gettimeofday () in
        let _ = Mon.projection prop m [] in
        let _ = Mon.monitor prop m sc [] in
        let t3 = Unix.gettimeofday () in
        if t1 -. t0 > 2.0 then print_endline (String.sub (Show.scenario sc) 0 600);
        Printf.printf "%d model %.3f impl %.3f mon %.3f final %s impl=%s events=%d\n%!" k (t1 -. t0) (t2 -. t1) (t3 -. t2) (Show.final m.r_final)
          (match r with Some (r, _) -> Show.final r.r_final | None -> "CRASH") (List.length m.r_last.w_trace)
      end) all
  | [ _; "replay"; file; prop ] ->
    let ic = open_in file in
    let len = in_channel_length ic in
    let txt = really_input_string ic len in
    close_in ic;
    let tag = "\"marshal_hex\"" in
    let rec find k = if k + String.length tag > String.length txt then -1 else if String.sub txt k (String.length tag) = tag then k + String.length tag else find (k + 1) in
    let p0 = find 0 in
    if p0 < 0 then (prerr_endline "no marshal_hex in replay"; exit 2);
    let p0 = String.index_from txt p0 '"' + 1 in
    let p1 = String.index_from txt p0 '"' in
    let sc : scenario = Marshal.from_string (string_of_hex (String.sub txt p0 (p1 - p0))) 0 in
    print_endline (Show.scenario sc);
    let v = judge prop sc in
    Printf.printf "model/impl projection equal: %b %s\n" v.v_proj_equal v.v_diff;
    List.iter (fun (f : Mon.fail) -> Printf.printf "impl monitor: %s: %s\n" f.key f.what) v.v_impl_fails;
    List.iter (fun (f : Mon.fail) -> Printf.printf "model monitor: %s: %s\n" f.key f.what) v.v_model_fails;
    (match run_impl_isolated sc with
     | Some (r, fl) ->
       List.iter (fun st -> Printf.printf "  %s -> %s\n" (Show.op st.s_op) (Show.opres st.s_res)) r.r_steps;
       Printf.printf "  final=%s flags=%s\n" (Show.final r.r_final) (String.concat "," fl);
       let m = run_model sc in
       let tm = List.rev m.r_last.w_trace and tr = List.rev r.r_last.w_trace in
       let rec go k a b = match a, b with
         | [], [] -> print_endline "  traces identical"
         | x :: a', y :: b' ->
           if x = y then (if Sys.getenv_opt "VERIF_TRACE" <> None then Printf.printf "    %d %s\n" k (Show.event x); go (k + 1) a' b')
           else begin
             Printf.printf "  trace differs at %d:\n    model: %s\n    impl : %s\n" k (Show.event x) (Show.event y);
             List.iteri (fun j e -> if j < 4 then Printf.printf "    model+%d: %s\n" (j + 1) (Show.event e)) a';
             List.iteri (fun j e -> if j < 4 then Printf.printf "    impl +%d: %s\n" (j + 1) (Show.event e)) b'
           end
         | x :: _, [] -> Printf.printf "  model has extra event %d: %s\n" k (Show.event x)
         | [], y :: _ -> Printf.printf "  impl has extra event %d: %s\n" k (Show.event y) in
       go 0 tm tr
     | None -> print_endline "  impl crashed");
    exit (if v.v_impl_fails <> [] then 1 else 0)
  | _ ->
    let w = mk_world ~fs:[ prog "/bin/c" [ a_write 1 10; a_sleep 50; a_exit 7 ] ] () in
    let sc = { sc_world = w; sc_ops = [ new_ (); start (argv [ "c" ]); read 1 100; wait (-1); read 1 100; destroy () ] } in
    let m = run_model sc in
    Printf.printf "model: final=%s steps=%d events=%d\n" (Show.final m.r_final) (List.length m.r_steps) (List.length m.r_last.w_trace);
    (match run_impl_isolated sc with
     | None -> print_endline "impl: crashed"
     | Some (r, fl) ->
       Printf.printf "impl: final=%s steps=%d events=%d flags=%s\n" (Show.final r.r_final) (List.length r.r_steps) (List.length r.r_last.w_trace) (String.concat "," fl);
       if m = r then print_endline "EQUAL" else print_endline "DIFFERENT")
