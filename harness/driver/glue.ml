(* glue.ml — the extracted world as the kernel of the implementation run.
   Conversions between OCaml ints/strings and the extracted Z / str, the global world,
   and one registered closure per libc entry point (called from stubs/sim_libc.c). *)
open Model

(* ---- conversions (total; fail loudly out of range) ---- *)
let rec pos_of_int n =
  if n <= 0 then failwith "pos_of_int"
  else if n = 1 then XH
  else if n land 1 = 0 then XO (pos_of_int (n lsr 1))
  else XI (pos_of_int (n lsr 1))
let z_of_int n = if n = 0 then Z0 else if n > 0 then Zpos (pos_of_int n) else Zneg (pos_of_int (-n))
let rec int_of_pos = function XH -> 1 | XO p -> 2 * int_of_pos p | XI p -> 2 * int_of_pos p + 1
let int_of_z = function Z0 -> 0 | Zpos p -> int_of_pos p | Zneg p -> - (int_of_pos p)
let rec nat_of_int n = if n <= 0 then O else S (nat_of_int (n - 1))
let rec int_of_nat = function O -> 0 | S n -> 1 + int_of_nat n
let str_of_string (s : string) : z list = List.init (String.length s) (fun i -> z_of_int (Char.code s.[i]))
let string_of_str (l : z list) : string =
  let b = Buffer.create 16 in
  List.iter (fun c -> Buffer.add_char b (Char.chr ((int_of_z c) land 255))) l;
  Buffer.contents b
let zl l = List.map z_of_int l
let il l = List.map int_of_z l

(* ---- pattern data (same function as stubs/sim_libc.c:sim_pattern) ---- *)
let pattern src off = ((src * 131 + off * 7 + off / 251) mod 255) + 1

let expand_runs (rs : run list) : string =
  let b = Buffer.create 64 in
  List.iter (function
      | RPos (s, o, n) ->
        let s = int_of_z s and o = int_of_z o and n = int_of_z n in
        for i = 0 to n - 1 do Buffer.add_char b (Char.chr (pattern s (o + i))) done
      | RLit bs -> List.iter (fun c -> Buffer.add_char b (Char.chr ((int_of_z c) land 255))) bs) rs;
  Buffer.contents b

(* ---- the world ---- *)
let world : world ref = ref (Obj.magic 0)
exception Hang_exn
exception Stop_exn
exception Crash_exn of int

(* Some fd: we are the really-forked child; the fd is where the world goes back *)
let in_child : Unix.file_descr option ref = ref None
let last_read : run list ref = ref []
let flags : string list ref = ref []     (* harness-level observations (content mismatch, ...) *)
let flag s = if not (List.mem s !flags) then flags := s :: !flags

type child_msg = { cm_tag : int; cm_why : int; cm_world : world; cm_flags : string list }

let child_send tag why =
  match !in_child with
  | None -> ()
  | Some fd ->
    let oc = Unix.out_channel_of_descr fd in
    Marshal.to_channel oc { cm_tag = tag; cm_why = why; cm_world = !world; cm_flags = !flags } [];
    flush oc;
    Unix._exit 0

(* run a world computation; in the child every non-Ret outcome goes back to the parent *)
let run (m : world -> (world, 'a) outcome) : 'a =
  match m !world with
  | Ret (a, w) -> world := w; a
  | Hang w -> world := w; child_send 1 0; raise Hang_exn
  | Stop w -> world := w; child_send 0 0; raise Stop_exn
  | Crash (y, w) -> world := w; child_send 2 (int_of_z y); raise (Crash_exn (int_of_z y))

let cur_errno () = int_of_z (curp !world).pr_errno

let fork_impl () : int =
  let par = !world.w_cur in
  let c = int_of_z (run fork_pre) in
  if c < 0 then c
  else if !in_child <> None then (child_send 2 2; raise (Crash_exn 2))
  else begin
    let (rfd, wfd) = Unix.pipe () in
    flush stdout; flush stderr;
    match Unix.fork () with
    | 0 ->
      Unix.close rfd;
      in_child := Some wfd;
      0
    | k ->
      Unix.close wfd;
      let ic = Unix.in_channel_of_descr rfd in
      let msg : child_msg option = try Some (Marshal.from_channel ic) with _ -> None in
      close_in ic;
      let (_, st) = Unix.waitpid [] k in
      (match msg with
       | None ->
         (* the real child died inside the library's child-side code *)
         flag (match st with
             | Unix.WSIGNALED s -> Printf.sprintf "child-crash:signal%d" s
             | Unix.WEXITED e -> Printf.sprintf "child-crash:exit%d" e
             | Unix.WSTOPPED _ -> "child-crash:stopped");
         raise (Crash_exn 100)
       | Some m ->
         world := m.cm_world;
         List.iter flag m.cm_flags;
         (match m.cm_tag with
          | 0 -> int_of_z (run (fork_post par (z_of_int c)))
          | 1 -> raise Hang_exn
          | _ -> raise (Crash_exn m.cm_why)))
  end

let () =
  let reg = Callback.register in
  reg "sim_errno" (fun () -> cur_errno ());
  reg "sim_flag" (fun (s : string) -> flag s);
  reg "sim_malloc" (fun (n : int) -> int_of_z (run (sys_malloc (z_of_int n))));
  reg "sim_calloc" (fun (k : int) (n : int) -> int_of_z (run (sys_calloc (z_of_int k) (z_of_int n))));
  reg "sim_realloc" (fun (id : int) (n : int) -> int_of_z (run (sys_realloc (z_of_int id) (z_of_int n))));
  reg "sim_free" (fun (id : int) -> run (sys_free (z_of_int id)));
  reg "sim_strdup" (fun (s : string) -> int_of_z (run (sys_strdup (str_of_string s))));
  reg "sim_pipe" (fun () ->
      let ((r, a), b) = run sys_pipe in (int_of_z r, int_of_z a, int_of_z b));
  reg "sim_fcntl" (fun (fd : int) (which : int) (arg : int) ->
      let fd = z_of_int fd in
      int_of_z (match which with
          | 0 -> run (sys_getfd fd)
          | 1 -> run (sys_setfd fd (z_of_int arg))
          | 2 -> run (sys_getfl fd)
          | 3 -> run (sys_setfl fd (z_of_int arg))
          | 5 -> run (sys_dupfd fd (z_of_int arg) true)
          | 6 -> run (sys_dupfd fd (z_of_int arg) false)
          | _ -> flag "unmodelled-fcntl"; raise (Crash_exn 2)));
  reg "sim_close" (fun (fd : int) -> int_of_z (run (sys_close (z_of_int fd))));
  reg "sim_dup2" (fun (a : int) (b : int) -> int_of_z (run (sys_dup2 (z_of_int a) (z_of_int b))));
  reg "sim_read" (fun (fd : int) (n : int) ->
      let (r, rs) = run (sys_read (z_of_int fd) (z_of_int n)) in
      last_read := rs;
      (int_of_z r, expand_runs rs));
  reg "sim_write_pos" (fun (fd : int) (src : int) (off : int) (n : int) ->
      int_of_z (run (sys_write (z_of_int fd) [RPos (z_of_int src, z_of_int off, z_of_int n)])));
  reg "sim_write_lit" (fun (fd : int) (s : string) ->
      int_of_z (run (sys_write (z_of_int fd) [RLit (str_of_string s)])));
  reg "sim_poll" (fun (fds : int array) (evs : int array) (tmo : int) ->
      let l = List.init (Array.length fds) (fun i -> (z_of_int fds.(i), z_of_int evs.(i))) in
      let (r, rev) = run (sys_poll l (z_of_int tmo)) in
      (int_of_z r, Array.of_list (il rev)));
  reg "sim_open" (fun (p : string) (fl : int) (mode : int) ->
      int_of_z (run (sys_open (str_of_string p) (z_of_int fl) (z_of_int mode))));
  reg "sim_fileno" (fun (f : int) -> int_of_z (run (sys_fileno (z_of_int f))));
  reg "sim_fork" (fun () -> fork_impl ());
  reg "sim_execvp" (fun (p : string) (argv : string array) (env : string array) ->
      (* the library assigned `environ` directly: make the world see it *)
      run (set_environ (List.map str_of_string (Array.to_list env)));
      int_of_z (run (sys_execvp (str_of_string p) (List.map str_of_string (Array.to_list argv)))));
  reg "sim__exit" (fun (c : int) -> run (sys__exit (z_of_int c)));
  reg "sim_waitpid" (fun (pid : int) (opts : int) ->
      if opts = 1 && pid > 0 then (let (r, st) = run (sys_waitpid_nohang (z_of_int pid)) in (int_of_z r, int_of_z st))
      else begin
        if opts <> 0 then (flag "unmodelled-waitpid-options"; child_send 2 2; raise (Crash_exn 2));
        let (r, st) = run (sys_waitpid (z_of_int pid)) in (int_of_z r, int_of_z st)
      end);
  reg "sim_kill" (fun (pid : int) (s : int) -> int_of_z (run (sys_kill (z_of_int pid) (z_of_int s))));
  reg "sim_chdir" (fun (p : string) -> int_of_z (run (sys_chdir (str_of_string p))));
  reg "sim_getcwd" (fun (n : int) ->
      let (r, s) = run (sys_getcwd (z_of_int n)) in (int_of_z r, string_of_str s));
  reg "sim_getrlimit" (fun (_ : int) ->
      let (r, l) = run sys_getrlimit in (int_of_z r, int_of_z l));
  reg "sim_sigfillset" (fun () -> int_of_z (run sys_sigfillset));
  reg "sim_sigemptyset" (fun () -> int_of_z (run sys_sigemptyset));
  reg "sim_sigaction" (fun (s : int) (k : int) -> int_of_z (run (sys_sigaction (z_of_int s) (z_of_int k))));
  (* sigaction(sig, NULL, &old): a pure query of the calling process's disposition (no event; the
     library itself never queries, a changed library may) *)
  reg "sim_sigaction_query" (fun (s : int) ->
      match disp_of (curp !world) (z_of_int s) with DDefault -> 0 | DIgnore -> 1 | _ -> 2);
  reg "sim_sigmask" (fun (how : int) (has : bool) (set : int array) ->
      let ns = if has then Some (zl (Array.to_list set)) else None in
      let (e, old) = run (sys_sigmask (z_of_int how) ns) in
      (int_of_z e, Array.of_list (il old)));
  reg "sim_clock" (fun () ->
      let (s, n) = run sys_clock in (int_of_z s, int_of_z n))
