(* impl.ml — running a scenario on the real library (objects compiled from /repo,
   libc redirected into the extracted world).  Mirrors Run.exec_op's bookkeeping of
   handle slots; everything else is the real code. *)
open Model
open Glue

external drv_init : unit -> unit = "drv_init"
external drv_new : unit -> nativeint = "drv_new"
external drv_set_environ : string array -> unit = "drv_set_environ"
external drv_environ_unchanged : string array -> bool = "drv_environ_unchanged"
external drv_get_environ : unit -> string array = "drv_get_environ"
external drv_pid : nativeint -> int = "drv_pid"
external drv_close : nativeint -> int -> int = "drv_close"
external drv_wait : nativeint -> int -> int = "drv_wait"
external drv_terminate : nativeint -> int = "drv_terminate"
external drv_kill : nativeint -> int = "drv_kill"
external drv_destroy : nativeint -> bool = "drv_destroy"
external drv_pattern : int -> int -> int = "drv_pattern"
external drv_heap_check : unit -> unit = "drv_heap_check"

type credirect = int * int * int * string option
type cstop = int * int * int * int * int * int
type copts = string option * int * string array option * credirect * credirect * credirect
             * bool * bool * int * string option * cstop * int * bool * int * int * bool * bool

external drv_start : nativeint -> string array option -> copts -> int = "drv_start"
external drv_write : nativeint -> bool -> int -> int -> int -> int = "drv_write"
external drv_read : nativeint -> int -> bool -> int -> int * string = "drv_read"
external drv_poll : (nativeint * int) array -> int -> int * int array = "drv_poll"
external drv_stop : nativeint -> cstop -> int = "drv_stop"
external drv_drain : nativeint -> bool -> bool -> int = "drv_drain"
external drv_run_ex : string array option -> copts -> int = "drv_run_ex"
external drv_run : string array option -> copts -> int = "drv_run"

let cstop_of (s : stop_actions) : cstop =
  (int_of_z s.st_first.sa_action, int_of_z s.st_first.sa_timeout,
   int_of_z s.st_second.sa_action, int_of_z s.st_second.sa_timeout,
   int_of_z s.st_third.sa_action, int_of_z s.st_third.sa_timeout)
let credirect_of (r : redirect) : credirect =
  (int_of_z r.rd_type, int_of_z r.rd_handle, int_of_z r.rd_file,
   Option.map string_of_str r.rd_path)
let sarr l = Array.of_list (List.map string_of_str l)
let copts_of (o : options) (src : int) : copts =
  (Option.map string_of_str o.o_wd, int_of_z o.o_env_behavior, Option.map sarr o.o_env_extra,
   credirect_of o.o_in, credirect_of o.o_out, credirect_of o.o_err,
   o.o_parent, o.o_discard, int_of_z o.o_file, Option.map string_of_str o.o_path,
   cstop_of o.o_stop, int_of_z o.o_deadline, o.o_input_data, int_of_z o.o_input_size, src,
   o.o_fork, o.o_nonblocking)

(* handle slots: absent = gone; Some 0n = NULL *)
let slots : (int, nativeint) Hashtbl.t = Hashtbl.create 8
let woff : (int, int) Hashtbl.t = Hashtbl.create 8

type sl = Null | Live of nativeint | Gone
let slot_of h =
  if h = -1 then Null
  else match Hashtbl.find_opt slots h with
    | Some 0n -> Null
    | Some p -> Live p
    | None -> Gone

let einval = -22

(* sink scripts of the current drain / run_ex *)
let sk_out : int list ref = ref []
let sk_err : int list ref = ref []
let sk_calls : (((z * z) * z) * run list) list ref = ref []

let take_prefix_runs (n : int) (rs : run list) : run list =
  fst (take_runs (z_of_int n) rs)

let () =
  Callback.register "drv_sink" (fun (which : int) (stream : int) (data : string) ->
      let size = String.length data in
      let rs = if size = 0 then [] else take_prefix_runs size !last_read in
      if size > 0 && expand_runs rs <> data then flag "sink-content-mismatch";
      sk_calls := (((z_of_int which, z_of_int stream), z_of_int size), rs) :: !sk_calls;
      let script = if which = 0 then sk_out else sk_err in
      match !script with
      | [] -> 0
      | v :: r -> script := r; v)

let env_array () = sarr (curp !world).pr_env

let with_environ (f : unit -> 'a) : 'a =
  let e = env_array () in
  drv_set_environ e;
  let r = f () in
  if !in_child = None && not (drv_environ_unchanged e) then flag "parent-environ-changed";
  r

let exec_sop_impl (o : sop) : opres =
  let with_h h k = match slot_of h with Null -> RInt (z_of_int einval) | Gone -> RSkip | Live p -> k p in
  match o with
  | SPid h -> with_h (int_of_z h) (fun p -> RInt (z_of_int (drv_pid p)))
  | SWrite (h, has_buf, n) ->
    let h = int_of_z h in
    with_h h (fun p ->
        let off = Option.value ~default:0 (Hashtbl.find_opt woff h) in
        let r = drv_write p has_buf (int_of_z (write_src (z_of_int h))) off (int_of_z n) in
        if r > 0 then Hashtbl.replace woff h (off + r);
        RInt (z_of_int r))
  | SRead (h, stream, has_buf, size) ->
    with_h (int_of_z h) (fun p ->
        last_read := [];
        let (r, data) = drv_read p (int_of_z stream) has_buf (int_of_z size) in
        let rs = if r > 0 then take_prefix_runs r !last_read else [] in
        if r > 0 && expand_runs rs <> data then flag "read-content-mismatch";
        RRead (z_of_int r, rs))
  | SClose (h, stream) -> with_h (int_of_z h) (fun p -> RInt (z_of_int (drv_close p (int_of_z stream))))
  | SPoll (srcs, timeout) ->
    let l = List.map (fun (h, i) -> (slot_of (int_of_z h), int_of_z i)) srcs in
    if List.exists (fun (s, _) -> s = Gone) l then RSkip
    else begin
      let a = Array.of_list (List.map (fun (s, i) -> ((match s with Live p -> p | _ -> 0n), i)) l) in
      let (r, evs) = drv_poll a (int_of_z timeout) in
      let evs = Array.to_list evs in
      (* events untouched (still the sentinel) = not assigned by the call *)
      if evs <> [] && List.for_all (fun e -> e = 0x5a5a) evs then RPoll (z_of_int r, None)
      else if evs = [] then RPoll (z_of_int r, None)
      else RPoll (z_of_int r, Some (zl evs))
    end
  | SWait (h, t) -> with_h (int_of_z h) (fun p -> RInt (z_of_int (drv_wait p (int_of_z t))))
  | STerminate h -> with_h (int_of_z h) (fun p -> RInt (z_of_int (drv_terminate p)))
  | SKill h -> with_h (int_of_z h) (fun p -> RInt (z_of_int (drv_kill p)))
  | SStop (h, a) -> with_h (int_of_z h) (fun p -> RInt (z_of_int (drv_stop p (cstop_of a))))
  | SDestroy h ->
    let h = int_of_z h in
    (match slot_of h with
     | Null -> ignore (drv_destroy 0n); RUnit
     | Gone -> RSkip
     | Live p ->
       if not (drv_destroy p) then flag "destroy-not-null";
       Hashtbl.remove slots h; RUnit)
  | SDrain (h, has_out, has_err, souts, serrs, _) ->
    with_h (int_of_z h) (fun p ->
        sk_out := il souts; sk_err := il serrs; sk_calls := []; last_read := [];
        let r = drv_drain p has_out has_err in
        if (not has_out) || (not has_err) then RInt (z_of_int r)
        else RDrain (z_of_int r, List.rev !sk_calls))
  | SSleep ms ->
    (match advance_to (Z.add !world.w_time (Z.max Z0 ms)) !world with
     | Some w -> world := w; RUnit
     | None -> raise (Crash_exn 1))
  | SUserClose fd -> run (user_close fd); RUnit
  | SUserCloexec (fd, on) -> run (user_cloexec fd on); RUnit
  | SUserOpen _ | SUserRlimit _ ->
    (match exec_sop o init_rstate !world with
     | Ret ((res, _), w) -> world := w; res
     | _ -> raise (Crash_exn 2))

let exec_op_impl (o : op) : opres =
  match o with
  | ONew h ->
    let p = drv_new () in
    Hashtbl.replace slots (int_of_z h) p;
    RNew (p <> 0n)
  | OStart (h, argv, opts, child, script) ->
    let h = int_of_z h in
    (match slot_of h with
     | Null -> RInt (z_of_int einval)
     | Gone -> RSkip
     | Live p ->
       let r = with_environ (fun () ->
           drv_start p (Option.map sarr argv) (copts_of opts (int_of_z (input_src (z_of_int h))))) in
       if r = 0 && !in_child <> None then begin
         (* we are the fork-mode child: the library assigned `environ`; then the
            caller's child-side ops; then we live on as a script *)
         run (set_environ (List.map str_of_string (Array.to_list (drv_get_environ ()))));
         List.iter (fun so ->
             let res = exec_sop_impl so in
             run (fun w -> Ret ((), w_add_note (note_child_op, opres_code res) w))) child;
         run (sys_child_done script)   (* Stop: the world goes back to the parent; never returns *)
       end;
       RInt (z_of_int r))
  | OS so -> exec_sop_impl so
  | ORunEx (argv, opts, souts, serrs, _) ->
    sk_out := il souts; sk_err := il serrs; sk_calls := []; last_read := [];
    let r = with_environ (fun () ->
        drv_run_ex (Option.map sarr argv) (copts_of opts (int_of_z (input_src (z_of_int 99))))) in
    RDrain (z_of_int r, List.rev !sk_calls)
  | ORun (argv, opts, _) ->
    let r = with_environ (fun () ->
        drv_run (Option.map sarr argv) (copts_of opts (int_of_z (input_src (z_of_int 99))))) in
    RInt (z_of_int r)

let initialised = ref false

(* run in the current process (the caller forks one process per scenario) *)
let run_impl (sc : scenario) : runres * string list =
  if not !initialised then (drv_init (); initialised := true);
  world := sc.sc_world;
  Hashtbl.reset slots; Hashtbl.reset woff; flags := [];
  let steps = ref [] in
  let finish fin pend =
    drv_heap_check ();
    ({ r_steps = List.rev !steps; r_final = fin; r_pending = pend; r_last = !world }, !flags) in
  let rec go = function
    | [] -> finish FDone None
    | o :: rest ->
      let before = !world in
      (match (try Ok (exec_op_impl o) with
           | Hang_exn -> Error FHang
           | Stop_exn -> Error FStop
           | Crash_exn y -> Error (FCrash (z_of_int y))) with
      | Ok res ->
        steps := { s_op = o; s_res = res; s_before = before; s_after = !world } :: !steps;
        go rest
      | Error f -> finish f (Some o))
  in
  go sc.sc_ops
