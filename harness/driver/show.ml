(* show.ml — readable renderings of scenarios, results, events (JSON-ish text) *)
open Model
open Glue

let i = int_of_z
let str s = Printf.sprintf "%S" (string_of_str s)
let list f l = "[" ^ String.concat "," (List.map f l) ^ "]"
let opt f = function None -> "null" | Some x -> f x
let zs l = list (fun z -> string_of_int (i z)) l
let b = function true -> "true" | false -> "false"

let call_name = function
  | CPipe -> "pipe" | CGetfd -> "getfd" | CSetfd -> "setfd" | CGetfl -> "getfl" | CSetfl -> "setfl"
  | CClose -> "close" | CRead -> "read" | CWrite -> "write" | CPoll -> "poll" | COpen -> "open"
  | CFileno -> "fileno" | CDup2 -> "dup2" | CDupfd -> "dupfd" | CFork -> "fork" | CExecvp -> "execvp" | CExit -> "_exit"
  | CWaitpid -> "waitpid" | CKill -> "kill" | CChdir -> "chdir" | CGetcwd -> "getcwd"
  | CGetrlimit -> "getrlimit" | CSigfillset -> "sigfillset" | CSigemptyset -> "sigemptyset"
  | CSigaction -> "sigaction" | CSigmask -> "sigmask" | CClock -> "clock" | CMalloc -> "malloc"
  | CCalloc -> "calloc" | CRealloc -> "realloc" | CFree -> "free" | CStrdup -> "strdup"

let event (e : event) =
  Printf.sprintf "{pid:%d %s%s%s -> %d%s errno=%d t=%d%s}" (i e.e_pid) (call_name e.e_call)
    (zs e.e_args) (if e.e_sargs = [] then "" else list str e.e_sargs) (i e.e_ret)
    (if e.e_outs = [] then "" else " outs=" ^ zs e.e_outs) (i e.e_errno) (i e.e_time)
    (if i e.e_blocked = 0 then "" else Printf.sprintf " blocked=%d" (i e.e_blocked))

let run_ = function
  | RPos (s, o, n) -> Printf.sprintf "pos(%d,%d,%d)" (i s) (i o) (i n)
  | RLit bs -> "lit" ^ zs bs
let runs = list run_

let opres = function
  | RInt r -> Printf.sprintf "int %d" (i r)
  | RRead (r, rs) -> Printf.sprintf "read %d %s" (i r) (runs rs)
  | RPoll (r, evs) -> Printf.sprintf "poll %d %s" (i r) (opt zs evs)
  | RNew ok -> Printf.sprintf "new %s" (b ok)
  | RDrain (r, calls) ->
    Printf.sprintf "drain %d %s" (i r)
      (list (fun (((w, s), n), rs) -> Printf.sprintf "(%d,%d,%d,%s)" (i w) (i s) (i n) (runs rs)) calls)
  | RUnit -> "unit" | RSkip -> "skip"

let rec act = function
  | ASleep ms -> Printf.sprintf "Sleep %d" (i ms)
  | AWrite (fd, n) -> Printf.sprintf "Write(%d,%d)" (i fd) (i n)
  | ARead (fd, n) -> Printf.sprintf "Read(%d,%d)" (i fd) (i n)
  | AReadAll fd -> Printf.sprintf "ReadAll %d" (i fd)
  | AClose fd -> Printf.sprintf "Close %d" (i fd)
  | AExit c -> Printf.sprintf "Exit %d" (i c)
  | ARaise s -> Printf.sprintf "Raise %d" (i s)
  | AIgnore s -> Printf.sprintf "Ignore %d" (i s)
  | AHandle (s, d, c) -> Printf.sprintf "Handle(%d,%d,%s)" (i s) (i d) (opt (fun c -> string_of_int (i c)) c)
  | ASpawn s -> "Spawn" ^ list act s

let stop (s : stop_actions) =
  Printf.sprintf "[(%d,%d),(%d,%d),(%d,%d)]" (i s.st_first.sa_action) (i s.st_first.sa_timeout)
    (i s.st_second.sa_action) (i s.st_second.sa_timeout) (i s.st_third.sa_action) (i s.st_third.sa_timeout)

let redirect (r : redirect) =
  if i r.rd_type = 0 && i r.rd_handle = 0 && i r.rd_file = 0 && r.rd_path = None then "-"
  else Printf.sprintf "{type:%d,handle:%d,file:%d,path:%s}" (i r.rd_type) (i r.rd_handle) (i r.rd_file) (opt str r.rd_path)

let options (o : options) =
  let parts = List.filter (fun s -> s <> "") [
      (match o.o_wd with None -> "" | Some d -> "wd:" ^ str d);
      (if i o.o_env_behavior <> 0 then Printf.sprintf "env.behavior:%d" (i o.o_env_behavior) else "");
      (match o.o_env_extra with None -> "" | Some l -> "env.extra:" ^ list str l);
      (let s = redirect o.o_in in if s = "-" then "" else "in:" ^ s);
      (let s = redirect o.o_out in if s = "-" then "" else "out:" ^ s);
      (let s = redirect o.o_err in if s = "-" then "" else "err:" ^ s);
      (if o.o_parent then "parent" else ""); (if o.o_discard then "discard" else "");
      (if i o.o_file <> 0 then Printf.sprintf "file:%d" (i o.o_file) else "");
      (match o.o_path with None -> "" | Some p -> "path:" ^ str p);
      (if o.o_stop = Model.null_stop then "" else "stop:" ^ stop o.o_stop);
      (if i o.o_deadline <> 0 then Printf.sprintf "deadline:%d" (i o.o_deadline) else "");
      (if o.o_input_data || i o.o_input_size <> 0 then Printf.sprintf "input:(%s,%d)" (b o.o_input_data) (i o.o_input_size) else "");
      (if o.o_fork then "fork" else ""); (if o.o_nonblocking then "nonblocking" else "") ] in
  "{" ^ String.concat " " parts ^ "}"

let sop = function
  | SPid h -> Printf.sprintf "Pid %d" (i h)
  | SWrite (h, hb, n) -> Printf.sprintf "Write %d %s%d" (i h) (if hb then "" else "NULL ") (i n)
  | SRead (h, s, hb, n) -> Printf.sprintf "Read %d stream=%d %s%d" (i h) (i s) (if hb then "" else "NULL ") (i n)
  | SClose (h, s) -> Printf.sprintf "Close %d stream=%d" (i h) (i s)
  | SPoll (srcs, t) -> Printf.sprintf "Poll %s timeout=%d" (list (fun (h, m) -> Printf.sprintf "(%d,%d)" (i h) (i m)) srcs) (i t)
  | SWait (h, t) -> Printf.sprintf "Wait %d %d" (i h) (i t)
  | STerminate h -> Printf.sprintf "Terminate %d" (i h)
  | SKill h -> Printf.sprintf "Kill %d" (i h)
  | SStop (h, a) -> Printf.sprintf "Stop %d %s" (i h) (stop a)
  | SDestroy h -> Printf.sprintf "Destroy %d" (i h)
  | SDrain (h, ho, he, so, se, _) -> Printf.sprintf "Drain %d out=%s%s err=%s%s" (i h) (b ho) (zs so) (b he) (zs se)
  | SSleep ms -> Printf.sprintf "Sleep %d" (i ms)
  | SUserClose fd -> Printf.sprintf "UserClose %d" (i fd)
  | SUserCloexec (fd, on) -> Printf.sprintf "UserCloexec %d %s" (i fd) (b on)
  | SUserOpen (fd, id, cx) -> Printf.sprintf "UserOpen %d ext%d %s" (i fd) (i id) (b cx)
  | SUserRlimit n -> Printf.sprintf "UserRlimit %d" (i n)

let op = function
  | ONew h -> Printf.sprintf "New %d" (i h)
  | OStart (h, argv, o, child, script) ->
    Printf.sprintf "Start %d argv=%s %s%s%s" (i h) (opt (list str) argv) (options o)
      (if child = [] then "" else " child=" ^ list sop child)
      (if script = [] then "" else " script=" ^ list act script)
  | OS s -> sop s
  | ORunEx (argv, o, so, se, _) -> Printf.sprintf "RunEx argv=%s %s sinks=%s%s" (opt (list str) argv) (options o) (zs so) (zs se)
  | ORun (argv, o, _) -> Printf.sprintf "Run argv=%s %s" (opt (list str) argv) (options o)

let obj = function
  | OPipeR p -> Printf.sprintf "pipeR%d" (i p) | OPipeW p -> Printf.sprintf "pipeW%d" (i p)
  | ONull a -> "null:" ^ (match a with ARd -> "r" | AWr -> "w" | ARW -> "rw")
  | OFile (p, a) -> Printf.sprintf "file(%s):%s" (string_of_str p) (match a with ARd -> "r" | AWr -> "w" | ARW -> "rw")
  | OExt (id, a) -> Printf.sprintf "ext%d:%s" (i id) (match a with ARd -> "r" | AWr -> "w" | ARW -> "rw")
let fdent (fd, (d : fdent)) =
  Printf.sprintf "%d:%s%s%s" (i fd) (obj d.f_obj) (if d.f_cloexec then "+cx" else "") (if d.f_nonblock then "+nb" else "")

let fskind = function
  | FExec s -> "exec" ^ list act s | FFile -> "file" | FDir -> "dir" | FNoExec -> "noexec" | FUnreadable -> "unreadable"

let world0 (w : world) =
  let p = get_proc w.w_main w in
  Printf.sprintf "{time0:%d subns:%d main:%d fds:%s rlimit:%d mask:%s disp:%s cwd:%s env:%s fs:%s faults:%s lat:%s files:%s}"
    (i w.w_time) (i w.w_subns) (i w.w_main) (list fdent (fds_list p)) (i p.pr_rlimit) (zs p.pr_mask)
    (list (fun (s, d) -> Printf.sprintf "%d:%s" (i s) (match d with DDefault -> "dfl" | DIgnore -> "ign" | DHandler -> "handler" | DScript _ -> "script")) (disp_list p))
    (str p.pr_cwd) (list str p.pr_env)
    (list (fun (p, k) -> str p ^ ":" ^ fskind k) w.w_fs)
    (list (fun (k, e) -> Printf.sprintf "(%d,%d)" (i k) (int_of_pos e)) w.w_faults)
    (list (fun (k, l) -> Printf.sprintf "(%d,%d)" (i k) (i l)) w.w_lat)
    (list (fun (f, fd) -> Printf.sprintf "%d:%s" (i f) (opt (fun z -> string_of_int (i z)) fd)) (Model.files_list w))

let scenario (sc : scenario) =
  Printf.sprintf "world=%s ops=%s" (world0 sc.sc_world) (list op sc.sc_ops)

let final = function
  | FDone -> "done" | FHang -> "hang" | FStop -> "stop" | FCrash y -> Printf.sprintf "crash(%d)" (i y)

let json_escape s =
  let b = Buffer.create (String.length s + 8) in
  String.iter (fun c -> match c with
      | '"' -> Buffer.add_string b "\\\"" | '\\' -> Buffer.add_string b "\\\\"
      | '\n' -> Buffer.add_string b "\\n" | '\t' -> Buffer.add_string b "\\t"
      | c when Char.code c < 32 || Char.code c > 126 -> Buffer.add_string b (Printf.sprintf "\\u%04x" (Char.code c))
      | c -> Buffer.add_char b c) s;
  Buffer.contents b
