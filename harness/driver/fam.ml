(* fam.ml — scenario families per property (DESIGN.md 6.6, 8).  Every random choice derives
   from the seed; enumerated parts are complete by construction. *)
open Model
open Glue
open Scn

type fam = { name : string; exhaustive : bool; scs : scenario list }

(* ---- child behaviours ---- *)
let long = 100000
let b_exit ?(delay = 0) code = (if delay > 0 then [ a_sleep delay ] else []) @ [ a_exit code ]
let b_raise ?(delay = 0) sg = (if delay > 0 then [ a_sleep delay ] else []) @ [ a_raise sg ]
let b_sleep_forever = [ a_sleep long; a_exit 0 ]
let b_term_handler delay code = [ a_handle 15 delay code; a_sleep long; a_exit 0 ]
let b_ignore_term = [ a_ignore 15; a_sleep long; a_exit 3 ]
let b_ignore_then_exit d code = [ a_ignore 15; a_sleep d; a_exit code ]

let behaviours = [|
  ("exit0", b_exit 0); ("exit7-late", b_exit ~delay:60 7); ("exit255", b_exit ~delay:5 255);
  ("raise11", b_raise ~delay:20 11); ("sleep", b_sleep_forever); ("term-handler-30", b_term_handler 30 (Some 9));
  ("term-handler-die", b_term_handler 10 None); ("ignore-term", b_ignore_term); ("ignore-then-exit", b_ignore_then_exit 120 4);
|]

let io_behaviours = [|
  ("echo", [ a_readall 0; a_write 1 10; a_readall 0; a_readall 0; a_exit 0 ]);
  ("out-chunks", [ a_write 1 5; a_sleep 10; a_write 1 4096; a_write 2 3; a_sleep 5; a_write 1 70000; a_exit 2 ]);
  ("err-only", [ a_write 2 100; a_exit 1 ]);
  ("close-early", [ a_write 1 9; a_close 1; a_sleep 40; a_write 2 7; a_close 2; a_sleep 40; a_exit 5 ]);
  ("read-slow", [ a_read 0 10; a_sleep 30; a_read 0 100000; a_sleep 30; a_readall 0; a_readall 0; a_exit 0 ]);
  ("never-read", [ a_sleep 500; a_exit 0 ]);
  ("big", [ a_write 1 200000; a_write 2 200000; a_exit 0 ]);
  ("interleave", [ a_write 1 1; a_write 2 1; a_write 1 2; a_write 2 2; a_sleep 1; a_write 1 3; a_exit 0 ]);
|]

let world_with ?(extra_fs = []) ?fds ?rlimit ?mask ?disp ?cwd ?env ?faults ?lat ?files ?time0 scripts =
  let fs = List.mapi (fun k s -> prog (Printf.sprintf "/bin/c%d" k) s) scripts @ extra_fs in
  mk_world ~fs ?fds ?rlimit ?mask ?disp ?cwd ?env ?faults ?lat ?files ?time0 ()

let c k = argv [ Printf.sprintf "c%d" k ]

(* ---- option pieces ---- *)
let user_fds = std_fds @ [ (z 5, fdent (OExt (z 200, ARW))); (z 6, fdent ~cx:true (OExt (z 201, ARW))) ]
let user_files = std_files @ [ (z 4, Some (z 6)); (z 5, None) ]
let rd ?(h = 0) ?(f = 0) ?p t : redirect = { rd_type = z t; rd_handle = z h; rd_file = z f; rd_path = Option.map s p }

(* a valid explicit redirect of each kind for stream [st] *)
let valid_redirects st = [
  rd 0; rd 1; rd 2; rd 3; rd ~h:5 5; rd ~h:5 0; rd ~f:4 6; rd ~f:4 0; rd ~p:"/tmp/f" 7; rd ~p:"/tmp/f" 0 ]
  @ (if st = 2 then [ rd 4 ] else [])

let rand_stop r =
  let t () = pick r [ 0; 0; 20; 50; -1; -2 ] in
  let a () = pick r [ 0; 1; 2; 3; 1; 2; 3 ] in
  stop3 (sa (a ()) (t ())) (sa (a ()) (t ())) (sa (a ()) (t ()))

let i_of = int_of_z
let rand_options ?(allow_fork = false) r : options =
  let o = default_options in
  let o = if chance r 1 3 then { o with o_in = pick r (valid_redirects 0) } else o in
  let o = if chance r 1 3 then { o with o_out = pick r (valid_redirects 1) } else o in
  let o = if chance r 1 3 then { o with o_err = pick r (valid_redirects 2) } else o in
  let o = if chance r 1 8 then { o with o_parent = true } else if chance r 1 8 then { o with o_discard = true } else o in
  let o = if chance r 1 4 then { o with o_nonblocking = true } else o in
  let o = if chance r 1 3 then { o with o_deadline = z (pick r [ 10; 40; 150 ]) } else o in
  let o = if chance r 1 2 then { o with o_stop = rand_stop r } else o in
  let o = if chance r 1 5 then { o with o_env_behavior = z 1 } else o in
  let o = if chance r 1 4 then { o with o_env_extra = Some (List.map s (pick r [ [ "A=1" ]; [ "A=1"; "B= x y" ]; [] ])) } else o in
  let o = if chance r 1 5 then { o with o_wd = Some (s (pick r [ "/w/child"; "sub"; "/tmp"; "/w/child"; "sub"; "/tmp"; "" ])) } else o in
  let o = if i_of o.o_in.rd_type <= 1 && i_of o.o_in.rd_handle = 0 && i_of o.o_in.rd_file = 0 && o.o_in.rd_path = None
             && not o.o_parent && not o.o_discard && chance r 1 5
    then { o with o_input_data = true; o_input_size = z (pick r [ 0; 1; 10; 5000 ]) } else o in
  let o = if allow_fork && chance r 1 10 then { o with o_fork = true } else o in
  o

(* ---- generic random histories ---- *)
let rand_sop r nh : op =
  let h = rint r nh in
  let h = if chance r 1 25 then -1 else h in
  match rint r 16 with
  | 0 -> wait ~h (pick r [ 0; 0; 10; 50; -1; -2 ])
  | 1 -> terminate ~h ()
  | 2 -> kill ~h ()
  | 3 -> stop ~h (rand_stop r)
  | 4 | 5 -> read ~h ~buf:(not (chance r 1 15)) (pick r [ 1; 1; 2; 2; 0; 3 ]) (pick r [ 0; 1; 7; 100; 4096; 100000 ])
  | 6 -> write ~h ~buf:(not (chance r 1 15)) (pick r [ 0; 1; 10; 5000; 70000 ])
  | 7 -> close ~h (pick r [ 0; 1; 2; 0; 1; 2; 3; -1 ])
  | 8 | 9 -> sleep (pick r [ 1; 10; 30; 70; 200 ])
  | 10 -> pid ~h ()
  | 11 | 12 ->
    let n = 1 + rint r 2 in
    poll ~t:(pick r [ 0; 0; 20; 60; -1 ]) (List.init n (fun _ -> ((if chance r 1 6 then -1 else rint r nh), rint r 16)))
  | 13 -> drain ~h ~so:(pick r [ []; []; [ 0; 0; 0; 5 ] ]) ~se:(pick r [ []; []; [ 0; 0; -3 ] ]) ()
  | 14 -> wait ~h 0
  | _ -> sleep 5

let will_hang_prone (o : op) = match o with
  | OS (SWait (_, t)) -> int_of_z t = -1
  | _ -> false

let rand_history ?(allow_fork = false) ?(io = true) ?(end_destroy = true) ?(bad_start = true) r : scenario =
  let nh = 1 + rint r 2 + (if chance r 1 4 then 1 else 0) in
  let scripts = List.init nh (fun _ -> if io && rbool r then snd (pick_a r io_behaviours) else snd (pick_a r behaviours)) in
  let ops = ref [] in
  let add o = ops := o :: !ops in
  for h = 0 to nh - 1 do add (new_ ~h ()) done;
  let started = Array.make nh false in
  let n = 4 + rint r 18 in
  for _ = 1 to n do
    let h = rint r nh in
    if (not started.(h) && chance r 2 3) || chance r 1 20 then begin
      started.(h) <- true;
      let opts = rand_options ~allow_fork r in
      let av = if bad_start && chance r 1 12 then pick r [ None; Some []; argv [ "nonexistent" ]; argv [ "/w" ] ] else c h in
      let av = if opts.o_fork then (if chance r 1 6 then av else None) else av in
      let child = if opts.o_fork then [ OS (SPid (z h)) ] |> List.map (function OS s -> s | _ -> assert false) else [] in
      add (start ~h ~opts ~child ~script:(if opts.o_fork then List.nth scripts h else []) av)
    end else add (rand_sop r nh)
  done;
  if end_destroy then for h = 0 to nh - 1 do add (destroy ~h ()) done;
  let w = world_with ~fds:user_fds ~files:user_files ~extra_fs:[ (s "/tmp/f", FFile) ] scripts in
  { sc_world = w; sc_ops = List.rev !ops }

(* one scenario per (call index inside a selected op, errno): the fault arrives after the call
   has been blocked [lat] ms (an EINTR in the middle of a poll / read / waitpid) *)
let faults_in_ops ?(lat = 30) ?(errnos = [ 4 ]) ?(max_per = 40) (pred : op -> bool) (sc : scenario) : scenario list =
  let m = run_model sc in
  let all_steps = m.r_steps @ (match m.r_pending with
      | Some o -> [ { s_op = o; s_res = RSkip; s_before = (match List.rev m.r_steps with st :: _ -> st.s_after | [] -> sc.sc_world); s_after = m.r_last } ]
      | None -> []) in
  List.concat_map (fun st ->
      if pred st.s_op then begin
        let a = int_of_z st.s_before.w_calls and b = int_of_z st.s_after.w_calls in
        List.concat_map (fun k ->
            List.map (fun e ->
                { sc with sc_world = { sc.sc_world with w_faults = [ (z k, pos_of_int e) ]; w_lat = [ (z k, z lat) ] } }) errnos)
          (List.filteri (fun j _ -> j < max_per) (List.init (max 0 (b - a)) (fun j -> a + j)))
      end else []) all_steps
let is_wait_like = function OS (SWait _) | OS (SStop _) | OS (SDestroy _) | OS (SPoll _) -> true | _ -> false
let is_io = function OS (SRead _) | OS (SWrite _) | OS (SDrain _) | OS (SPoll _) -> true | _ -> false


(* ---- C01 ---- *)
let term_signals = [ 1; 2; 3; 4; 6; 8; 9; 10; 11; 12; 13; 14; 15 ]
let fam_c01 tier r =
  let templates ending_script = [
    [ new_ (); start (c 0); wait (-1); wait 0; stop (stop3 (sa 2 0) (sa 0 0) (sa 0 0)); terminate (); kill (); wait (-2); destroy () ];
    [ new_ (); start (c 0); wait 0; sleep 300; wait 0; wait 10; destroy () ];
    [ new_ (); start (c 0); stop (stop3 (sa 1 400) (sa 2 50) (sa 3 50)); wait (-1); stop (stop3 (sa 3 0) (sa 0 0) (sa 0 0)); destroy () ];
    [ new_ (); start (c 0); sleep 300; terminate (); kill (); wait (-1); terminate (); destroy () ];
  ] |> List.map (fun ops -> { sc_world = world_with [ ending_script ]; sc_ops = ops }) in
  let codes = if tier = "quick" then [ 0; 1; 2; 7; 42; 127; 128; 129; 143; 200; 254; 255; 256; 300; 511 ] else List.init 300 (fun k -> k) in
  let endings = List.map (fun k -> b_exit ~delay:(k mod 90) k) codes
                @ List.map (fun sg -> b_raise ~delay:(sg * 5) sg) term_signals
                @ [ b_sleep_forever; b_term_handler 30 (Some 9); b_term_handler 10 None; b_ignore_then_exit 120 4 ] in
  let grid = List.concat_map templates endings in
  let n = if tier = "quick" then 600 else 20000 in
  let rnd = List.init n (fun k -> rand_history ~io:(k mod 3 = 0) (split r k)) in
  let flt = List.concat_map (faults_in_ops ~errnos:[ 4; 12; 10 ] is_wait_like)
      (List.concat_map templates [ b_exit ~delay:40 7; b_raise ~delay:20 11; b_term_handler 30 (Some 9); b_sleep_forever ]) in
  [ { name = "C01/endings-x-templates"; exhaustive = true; scs = grid };
    { name = "C01/interrupted-calls-in-wait-stop-destroy"; exhaustive = true; scs = flt };
    { name = "C01/random-histories"; exhaustive = false; scs = rnd } ]

(* ---- fault enumeration (C04, C05, C06, C12) ---- *)
let start_scenarios () : (string * options * z list list option * (world -> world)) list =
  let o = default_options in
  let id w = w in
  [ ("default", o, c 0, id);
    ("all-pipes", { o with o_err = rd 1 }, c 0, id);
    ("discard", { o with o_discard = true }, c 0, id);
    ("parent", { o with o_parent = true }, c 0, id);
    ("err-to-out", { o with o_err = rd 4 }, c 0, id);
    ("paths", { o with o_in = rd ~p:"/tmp/f" 7; o_out = rd ~p:"/tmp/g" 7; o_err = rd ~p:"/tmp/h" 0 }, c 0, id);
    ("handle-file", { o with o_in = rd ~h:5 5; o_out = rd ~f:4 6 }, c 0, id);
    ("input", { o with o_input_data = true; o_input_size = z 10 }, c 0, id);
    ("input-too-big", { o with o_input_data = true; o_input_size = z 100000 }, c 0, id);
    ("env-wd", { o with o_env_behavior = z 1; o_env_extra = Some [ s "PATH=/bin"; s "X=1" ]; o_wd = Some (s "/w/child") }, c 0, id);
    ("rel-prog-wd", { o with o_wd = Some (s "/w/child") }, argv [ "../bin/c0" ], id);
    ("deadline-stop-nb", { o with o_deadline = z 50; o_nonblocking = true; o_stop = stop3 (sa 2 10) (sa 3 10) (sa 0 0) }, c 0, id);
    ("missing-program", o, argv [ "nonexistent" ], id);
    ("not-executable", o, argv [ "/tmp/f" ], id);
    ("bad-wd", { o with o_wd = Some (s "/nonexistent") }, c 0, id);
    ("empty-wd", { o with o_wd = Some (s "") }, c 0, id);
    ("bad-path", { o with o_out = rd ~p:"/nonexistent/x" 7 }, c 0, id);
    ("fork", { o with o_fork = true }, None, id);
  ]

let fault_errnos tier = if tier = "quick" then [ 4; 12 ] else [ 4; 12; 24; 5; 9; 11 ]

(* run the un-faulted scenario on the MODEL to count its calls, then one scenario per call index *)
let take_ops n l = List.filteri (fun k _ -> k < n) l
let fault_family ?(variant = fun (_ : int) -> ([], [])) tier (post : op list) : scenario list =
  let counter = ref 0 in
  List.concat_map (fun (_nm, opts, av, f) ->
      let script = [ a_sleep 20; a_exit 3 ] in
      let mk faults =
        incr counter;
        let (mask, disp) = variant !counter in
        let w = f (world_with ~fds:user_fds ~files:user_files ~rlimit:16 ~faults ~mask ~disp
                     ~extra_fs:[ (s "/tmp/f", FFile); (s "/w/bin", FDir); (s "/w/bin/c0", FExec script) ] [ script ]) in
        { sc_world = w;
          sc_ops = [ new_ (); start ~opts ~script:(if opts.o_fork then script else []) av; pid () ] @ post } in
      let base = mk [] in
      let m = run_model { base with sc_ops = take_ops 2 base.sc_ops } in
      let ncalls = int_of_z m.r_last.w_calls in
      base :: List.concat_map (fun k -> List.map (fun e -> mk [ (k, e) ]) (fault_errnos tier)) (List.init ncalls (fun k -> k)))
    (start_scenarios ())

let fault_pairs r n post : scenario list =
  let scs = Array.of_list (start_scenarios ()) in
  List.init n (fun k ->
      let r = split r k in
      let (_, opts, av, f) = scs.(rint r 12) in
      let script = [ a_sleep 20; a_exit 3 ] in
      let mk faults = f (world_with ~fds:user_fds ~files:user_files ~rlimit:16 ~faults
                           ~extra_fs:[ (s "/tmp/f", FFile); (s "/w/bin", FDir); (s "/w/bin/c0", FExec script) ] [ script ]) in
      let base = { sc_world = mk []; sc_ops = [ new_ (); start ~opts av ] } in
      let ncalls = int_of_z (run_model base).r_last.w_calls in
      let a = rint r ncalls and b = rint r ncalls in
      { sc_world = mk [ (a, pick r [ 4; 12; 24 ]); (b, pick r [ 4; 12; 5 ]) ];
        sc_ops = [ new_ (); start ~opts av; pid () ] @ post })

let post_c04 = [ start (c 0); pid (); wait 100; destroy () ]

let fam_c04 tier r =
  (* a start that fails on the child side while another child of the caller is already a zombie:
     the failed start must reap ITS child, and leave the other one alone *)
  let beside = List.concat_map (fun bad ->
      List.map (fun order ->
          { sc_world = world_with [ b_exit 7; b_exit 0 ];
            sc_ops = [ new_ ~h:0 (); new_ ~h:1 (); start ~h:1 (c 0); sleep 40 ]
                     @ (if order then [ start ~h:0 bad; pid ~h:0 () ] else [ start ~h:0 ~opts:{ default_options with o_wd = Some (s "/nonexistent") } (c 1); pid ~h:0 () ])
                     @ [ wait ~h:1 100; start ~h:0 (c 1); pid ~h:0 (); wait ~h:0 100; destroy ~h:0 (); destroy ~h:1 () ] })
        [ true; false ])
      [ argv [ "nonexistent" ]; argv [ "/w" ] ] in
  let forkfail = List.map (fun opts ->
      { sc_world = world_with ~fds:user_fds ~files:user_files [ b_exit 0 ];
        sc_ops = [ new_ (); start ~opts ~script:[ a_sleep 5; a_exit 0 ] None; pid (); start ~opts:{ default_options with o_fork = true } ~script:[ a_sleep 5; a_exit 3 ] None;
                   pid (); wait 100; destroy () ] })
      [ { default_options with o_fork = true; o_wd = Some (s "/nonexistent") };
        { default_options with o_fork = true; o_in = rd ~h:9 5 };
        { default_options with o_fork = true; o_out = rd ~h:11 5; o_wd = Some (s "/w/child") } ] in
  (* the parent has closed one of its standard streams and that stream is redirected to the parent:
     the library falls back to the null device; when THAT fails, the cause reported is the cause *)
  let fallback = List.concat_map (fun closed ->
      let fds = List.filter (fun (k, _) -> int_of_z k <> closed) user_fds in
      let opts = match closed with
        | 0 -> { default_options with o_in = rd 2 }
        | 1 -> { default_options with o_out = rd 2 }
        | _ -> { default_options with o_err = rd 2 } in
      let base = { sc_world = world_with ~fds ~files:user_files ~rlimit:16 [ [ a_sleep 20; a_exit 3 ] ];
                   sc_ops = [ new_ (); start ~opts (c 0); pid () ] @ post_c04 } in
      base :: faults_in_ops ~lat:0 ~errnos:[ 23; 24; 4 ] ~max_per:60 (function OStart _ -> true | _ -> false)
        { base with sc_ops = take_ops 3 base.sc_ops @ [ destroy () ] })
      [ 0; 1; 2 ] in
  [ { name = "C04/single-faults"; exhaustive = true; scs = fault_family tier post_c04 };
    { name = "C04/closed-standard-stream-falls-back-to-the-null-device-x-faults"; exhaustive = true; scs = fallback };
    { name = "C04/failed-start-next-to-a-zombie"; exhaustive = true; scs = beside };
    { name = "C04/fork-mode-child-side-failures"; exhaustive = true; scs = forkfail };
    { name = "C04/fault-pairs"; exhaustive = false; scs = fault_pairs r (if tier = "quick" then 300 else 20000) post_c04 } ]

let fam_c05 tier r =
  let post = [ sleep 30; wait 0; close 0; destroy () ] in
  let n = if tier = "quick" then 500 else 20000 in
  let closed_file = List.concat_map (fun closed ->
      List.map (fun opts ->
          let files = List.map (fun (k, v) -> if List.mem (int_of_z k) closed then (k, None) else (k, v)) user_files in
          { sc_world = world_with ~fds:user_fds ~files [ [ a_sleep 10; a_exit 0 ] ];
            sc_ops = [ new_ (); start ~opts (c 0); pid (); wait 100; destroy () ] })
        [ { default_options with o_parent = true }; { default_options with o_in = rd 2 }; default_options;
          { default_options with o_out = rd 2; o_err = rd 4 }; { default_options with o_err = rd ~f:4 6 }; { default_options with o_out = rd ~f:5 6 } ])
      [ [ 1 ]; [ 2 ]; [ 3 ]; [ 1; 2; 3 ]; [ 4 ] ] in
  (* whole run / run_ex calls that are refused (fork mode, conflicting shorthands, no argv): whatever
     was allocated on the way to the refusal is released *)
  let refused_runs = List.concat_map (fun (o : options) ->
      List.concat_map (fun av ->
          let w = world_with ~fds:user_fds ~files:user_files [ [ a_write 1 3; a_exit 0 ] ] in
          [ { sc_world = w; sc_ops = [ ORun (av, o, nat_of_int 3000); ORun (av, o, nat_of_int 3000) ] };
            { sc_world = w; sc_ops = [ ORunEx (av, o, [], [], nat_of_int 3000); ORunEx (av, o, zl [ 0; 5 ], [], nat_of_int 3000) ] } ])
        [ c 0; None; Some [] ])
      [ { default_options with o_fork = true }; { default_options with o_parent = true; o_discard = true };
        { default_options with o_path = Some (s "/tmp/g"); o_file = z 4 }; default_options ] in
  [ { name = "C05/single-faults"; exhaustive = true; scs = fault_family tier post };
    { name = "C05/refused-run-calls"; exhaustive = true; scs = refused_runs };
    { name = "C05/closed-FILE-streams"; exhaustive = true; scs = closed_file };
    { name = "C05/fault-pairs"; exhaustive = false; scs = fault_pairs r (if tier = "quick" then 200 else 10000) post };
    { name = "C05/random-histories"; exhaustive = false;
      scs = List.init n (fun k ->
          let r = split r k in
          let sc = rand_history ~allow_fork:false r in
          (* some with faults sprinkled anywhere *)
          if k mod 3 = 0 then
            let ncalls = max 1 (int_of_z (run_model sc).r_last.w_calls) in
            let nf = 1 + rint r 3 in
            let faults = List.init nf (fun _ -> (z (rint r ncalls), pos_of_int (pick r [ 4; 12; 24; 9 ]))) in
            { sc with sc_world = { sc.sc_world with w_faults = faults } }
          else sc) } ]

let fam_c06 tier r =
  let post = [ terminate (); kill (); wait 0; stop (stop3 (sa 2 10) (sa 3 (-1)) (sa 0 0)); terminate (); kill (); wait 0; destroy () ] in
  let n = if tier = "quick" then 500 else 20000 in
  (* unusual but legal inputs of start, then the same signalling and reaping calls: the handle must hold
     a real pid or none *)
  let odd = List.map (fun (o : options) ->
      { sc_world = world_with [ b_sleep_forever ]; sc_ops = [ new_ (); start ~opts:o (c 0); pid () ] @ post })
      [ { default_options with o_env_extra = Some [ s "NOEQUALS" ] }; { default_options with o_env_extra = Some [ s "=lead"; s "A=1" ] };
        { default_options with o_env_behavior = z 1; o_env_extra = Some [ s "" ] }; { default_options with o_env_extra = Some [] } ] in
  (* two children, one already a zombie; every call inside the waits / stops of the other one interrupted
     or failing: a reap must still name the handle's own pid *)
  let two = { sc_world = world_with [ [ a_sleep 60; a_exit 7 ]; [ a_exit 9 ] ];
              sc_ops = [ new_ (); new_ ~h:1 (); start (c 0); start ~h:1 (c 1); sleep 30; wait 1000; wait 1000;
                         stop (stop3 (sa 1 500) (sa 2 100) (sa 3 100)); wait ~h:1 1000; destroy (); destroy ~h:1 () ] } in
  let interrupted = faults_in_ops ~lat:10 ~errnos:[ 4; 10 ] is_wait_like two in
  [ { name = "C06/start-faults-then-signals"; exhaustive = true; scs = fault_family tier post };
    { name = "C06/unusual-environment-entries-then-signals"; exhaustive = true; scs = odd };
    { name = "C06/interrupted-reaps-next-to-a-zombie-sibling"; exhaustive = true; scs = interrupted };
    { name = "C06/random-histories"; exhaustive = false; scs = List.init n (fun k -> rand_history ~io:false (split r k)) } ]

let fam_c12 tier r =
  ignore r;
  let masks = [| []; [ 15 ]; [ 2; 13; 17; 34 ]; List.init 31 (fun k -> k + 1) |] in
  let disps = [| []; [ (z 15, DIgnore); (z 2, DHandler) ]; [ (z 13, DIgnore); (z 1, DIgnore); (z 31, DHandler); (z 40, DIgnore) ] |] in
  (* the caller ignores SIGCHLD (and SIGPIPE): starts that fail at every stage, and every single
     fault in a start, must leave those dispositions alone *)
  let ignored = List.concat_map (fun (nm, opts, av, _) ->
      if not (List.mem nm [ "default"; "missing-program"; "not-executable"; "bad-wd"; "empty-wd"; "bad-path"; "fork" ]) then [] else
      let script = [ a_sleep 20; a_exit 3 ] in
      let base = { sc_world = world_with ~fds:user_fds ~files:user_files ~rlimit:16 ~disp:[ (z 17, DIgnore); (z 13, DIgnore) ]
                                ~extra_fs:[ (s "/tmp/f", FFile); (s "/w/bin", FDir); (s "/w/bin/c0", FExec script) ] [ script ];
                   sc_ops = [ new_ (); start ~opts ~script:(if opts.o_fork then script else []) av; pid (); destroy () ] } in
      base :: faults_in_ops ~lat:0 ~errnos:[ 11 ] ~max_per:400 (function OStart _ -> true | _ -> false) base)
      (start_scenarios ()) in
  [ { name = "C12/ignored-SIGCHLD-x-failing-starts-x-single-faults"; exhaustive = true; scs = ignored };
    { name = "C12/masks-x-dispositions-x-single-faults"; exhaustive = true;
      scs = fault_family ~variant:(fun k -> (masks.(k mod 4), disps.(k mod 3))) tier [ destroy () ] } ]

(* ---- C07 / C15: stop grids ---- *)
let stop_behaviours = [
  ("exits-10", b_exit ~delay:10 5); ("exits-70", b_exit ~delay:70 6); ("exits-400", b_exit ~delay:400 7);
  ("term-0", b_sleep_forever); ("term-30", b_term_handler 30 None); ("term-100", b_term_handler 100 (Some 8));
  ("ignore", b_ignore_term); ("ignore-exit-90", b_ignore_then_exit 90 4) ]

let fam_c07 tier r =
  let acts = [ 0; 1; 2; 3; 4 ] in
  let tms = [ 0; 50; -2 ] in
  let triples = List.concat_map (fun a -> List.concat_map (fun b -> List.map (fun c_ -> (a, b, c_)) acts) acts) acts in
  let grid = List.concat_map (fun (a, b, c_) ->
      List.concat (List.mapi (fun k (_, script) ->
          let t1 = List.nth tms (k mod 3) and t2 = List.nth tms ((k + 1) mod 3) and t3 = List.nth [ 0; 50; -1 ] ((k + a + b) mod 3) in
          let dl = List.nth [ 0; 40; 1000 ] ((k + c_) mod 3) in
          let pre = List.nth [ []; [ sleep 20 ]; [ sleep 500 ]; [ sleep 500; wait 0 ] ] ((k + a + 2 * b) mod 4) in
          let any_inf = false in
          ignore any_inf;
          [ { sc_world = world_with [ script ];
              sc_ops = [ new_ (); start ~opts:{ default_options with o_deadline = z dl } (c 0) ] @ pre
                       @ [ stop (stop3 (sa a t1) (sa b t2) (sa c_ t3)); wait 0; kill (); wait 1000; destroy () ] } ]) stop_behaviours)) triples in
  let n = if tier = "quick" then 400 else 30000 in
  let rnd = List.init n (fun k ->
      let r = split r k in
      let (_, script) = pick r stop_behaviours in
      let t () = pick r [ 0; 10; 50; 200; -1; -2 ] in
      let a () = pick r [ 0; 1; 2; 3; 0; 1; 2; 3; 4; -1 ] in
      let dl = pick r [ 0; 0; 40; 300 ] in
      let lat = if chance r 1 3 then List.init 3 (fun _ -> (rint r 60, pick r [ 1; 15; 80 ])) else [] in
      { sc_world = world_with ~lat [ script ];
        sc_ops = [ new_ (); start ~opts:{ default_options with o_deadline = z dl } (c 0); sleep (pick r [ 0; 5; 80; 450 ]);
                   stop (stop3 (sa (a ()) (t ())) (sa (a ()) (t ())) (sa (a ()) (t ()))); wait 0; kill (); wait 1000; destroy () ] }) in
  let flt = List.concat_map (faults_in_ops ~lat:35 ~errnos:[ 4; 10 ] (function OS (SStop _) -> true | _ -> false))
      (List.filteri (fun j _ -> j mod 11 = 0) grid) in
  [ { name = "C07/triples-x-behaviours"; exhaustive = true; scs = grid };
    { name = "C07/interrupted-calls-in-stop"; exhaustive = true; scs = flt };
    { name = "C07/random"; exhaustive = false; scs = rnd } ]

let fam_c15 tier r =
  let policies = [ null_stop; stop3 (sa 2 50) (sa 3 50) (sa 0 0); stop3 (sa 1 30) (sa 0 0) (sa 3 (-1)); stop3 (sa 3 0) (sa 0 0) (sa 0 0);
                   stop3 (sa 1 0) (sa 0 0) (sa 0 0); stop3 (sa 0 0) (sa 2 (-2)) (sa 3 100); stop3 (sa 2 (-1)) (sa 0 0) (sa 0 0) ] in
  let grid = List.concat_map (fun pol ->
      List.concat_map (fun dl ->
          List.concat_map (fun (_, script) ->
              List.map (fun pre ->
                  { sc_world = world_with [ script ];
                    sc_ops = [ new_ (); start ~opts:{ default_options with o_deadline = z dl; o_stop = pol } (c 0) ] @ pre @ [ destroy () ] })
                [ []; [ sleep 30 ]; [ sleep 500 ]; [ wait 0; sleep 450; wait 0 ]; [ close 0; close 1 ] ])
            stop_behaviours) [ 0; 40; 200 ]) policies in
  let states = [
    { sc_world = world_with [ b_exit 0 ]; sc_ops = [ new_ (); destroy () ] };
    { sc_world = world_with [ b_exit 0 ]; sc_ops = [ destroy ~h:(-1) () ] };
    { sc_world = world_with [ b_exit 0 ]; sc_ops = [ new_ (); start (argv [ "nonexistent" ]); destroy () ] };
    { sc_world = world_with [ b_exit 0 ]; sc_ops = [ new_ (); start None; destroy () ] };
    { sc_world = world_with [ b_exit 0 ]; sc_ops = [ new_ (); start (c 0); wait (-1); destroy () ] };
    { sc_world = world_with [ b_exit 0 ];
      sc_ops = [ new_ (); start ~opts:{ default_options with o_fork = true } ~child:[ SDestroy (z 0) ] ~script:[ a_sleep 10; a_exit 0 ] None; destroy () ] } ] in
  let restart = List.concat_map (fun (_, script) ->
      List.concat_map (fun (dl1, dl2) ->
          List.map (fun bad ->
              { sc_world = world_with [ script ];
                sc_ops = [ new_ (); start ~opts:{ default_options with o_deadline = z dl1; o_stop = stop3 (sa 3 0) (sa 0 0) (sa 0 0) } bad;
                           start ~opts:{ default_options with o_deadline = z dl2 } (c 0); sleep 100; destroy () ] })
            [ argv [ "nonexistent" ]; argv [ "/w" ]; None ])
        [ (40, 0); (40, 300); (0, 40) ]) stop_behaviours in
  let n = if tier = "quick" then 300 else 10000 in
  [ { name = "C15/policies-x-deadlines-x-behaviours"; exhaustive = true; scs = grid @ states };
    { name = "C15/failed-start-then-restart"; exhaustive = true; scs = restart };
    { name = "C15/random-histories"; exhaustive = false; scs = List.init n (fun k -> rand_history ~io:(k mod 2 = 0) (split r k)) } ]

(* ---- C08: deadlines ---- *)
let perms3 = [ [ 0; 1; 2 ]; [ 0; 2; 1 ]; [ 1; 0; 2 ]; [ 1; 2; 0 ]; [ 2; 0; 1 ]; [ 2; 1; 0 ] ]
let fam_c08 tier r =
  (* sources: kinds 0 = NULL, 1 = no deadline, 2 = deadline 50, 3 = deadline 100, 4 = deadline 150, 5 = expired (deadline 10, polled later) *)
  let kinds = [ 0; 1; 2; 3; 4; 5 ] in
  let maxn = if tier = "quick" then 2 else 3 in
  let rec layouts n = if n = 0 then [ [] ] else List.concat_map (fun l -> List.map (fun k -> k :: l) kinds) (layouts (n - 1)) in
  let all = List.concat_map layouts (List.init maxn (fun k -> k + 1)) @ (if tier = "quick" then List.filteri (fun k _ -> k mod 7 = 0) (layouts 3) else []) in
  let grid = List.concat_map (fun layout ->
      List.concat_map (fun tmo ->
          List.map (fun act_at ->
              let n = List.length layout in
              let scripts = List.mapi (fun k _ -> if k = 0 && act_at > 0 then [ a_sleep act_at; a_write 1 3; a_sleep long; a_exit 0 ] else b_sleep_forever) layout in
              let starts = List.concat (List.mapi (fun k kind ->
                  if kind = 0 then [] else
                    let dl = match kind with 2 -> 50 | 3 -> 100 | 4 -> 150 | 5 -> 10 | _ -> 0 in
                    [ new_ ~h:k (); start ~h:k ~opts:{ default_options with o_deadline = z dl; o_stop = stop3 (sa 3 (-1)) (sa 0 0) (sa 0 0) } (c k) ]) layout) in
              let srcs = List.mapi (fun k kind -> ((if kind = 0 then -1 else k), 2 lor 8)) layout in
              { sc_world = world_with scripts;
                sc_ops = starts @ [ sleep 20; poll ~t:tmo srcs; poll ~t:0 srcs; poll ~t:tmo srcs ]
                         @ List.init n (fun k -> destroy ~h:k ()) })
            [ 0; 60; 110 ]) [ 0; 75; 100; 125; -1 ]) all in
  let waits = List.concat_map (fun (_, script) ->
      List.concat_map (fun dl ->
          List.map (fun t ->
              { sc_world = world_with [ script ];
                sc_ops = [ new_ (); start ~opts:{ default_options with o_deadline = z dl; o_stop = stop3 (sa 3 (-1)) (sa 0 0) (sa 0 0) } (c 0);
                           sleep 5; wait t; wait t; sleep 40; wait (-2); wait 0; destroy () ] })
            [ 0; 30; 65; 500; -2 ]) [ 0; 40; 100 ]) stop_behaviours in
  let forkmode = List.map (fun t ->
      { sc_world = world_with [ b_exit 0 ];
        sc_ops = [ new_ (); start ~opts:{ default_options with o_fork = true; o_deadline = z 50; o_stop = stop3 (sa 3 (-1)) (sa 0 0) (sa 0 0) }
                     ~script:[ a_sleep 300; a_exit 4 ] None; wait t; wait (-2); destroy () ] }) [ 0; 30; -2 ] in
  (* a start that fails (with a deadline in its options) followed by a start of the same handle with
     another deadline or none: only the successful start's deadline counts *)
  let restart = List.concat_map (fun d1 ->
      List.concat_map (fun d2 ->
          List.map (fun bad ->
              { sc_world = world_with [ [ a_sleep 120; a_exit 5 ] ];
                sc_ops = [ new_ (); start ~opts:{ default_options with o_deadline = z d1 } bad; sleep 40;
                           start ~opts:{ default_options with o_deadline = z d2; o_stop = stop3 (sa 3 (-1)) (sa 0 0) (sa 0 0) } (c 0);
                           sleep 10; poll ~t:30 [ (0, 2 lor 8) ]; wait (-2); wait 60; wait 500; destroy () ] })
            [ argv [ "nonexistent" ]; argv [ "/w" ]; Some [] ])
        [ 0; 25; 300 ]) [ 20; 200 ] in
  ignore r;
  let flt = List.concat_map (faults_in_ops ~lat:20 ~errnos:[ 4 ] (function OS (SWait _) | OS (SPoll _) -> true | _ -> false))
      (List.filteri (fun j _ -> j mod 9 = 0) waits @ List.filteri (fun j _ -> j mod 41 = 0) grid) in
  (* a deadline that lies weeks in the past (more than 2^31 ms): still "expired", never "24 days away" *)
  let longpast = List.map (fun gap ->
      { sc_world = world_with [ [ a_sleep (gap * 3); a_exit 0 ] ];
        sc_ops = [ new_ (); start ~opts:{ default_options with o_deadline = z 10 } (c 0); sleep gap;
                   poll ~t:300 [ (0, 2 lor 8) ]; wait (-2); poll ~t:0 [ (0, 14) ]; kill (); wait 1000; destroy () ] })
      [ 3000; 2147483000; 2147484000; 2592000000; 4294968000; 6000000000 ] in
  [ { name = "C08/source-layouts-x-timeouts-x-activity"; exhaustive = true; scs = grid };
    { name = "C08/deadline-long-past"; exhaustive = true; scs = longpast };
    { name = "C08/interrupted-waits-and-polls"; exhaustive = true; scs = flt };
    { name = "C08/waits"; exhaustive = true; scs = waits };
    { name = "C08/fork-mode"; exhaustive = true; scs = forkmode };
    { name = "C08/failed-start-then-restart"; exhaustive = true; scs = restart } ]

(* ---- C09: poll truthfulness ---- *)
let fam_c09 tier r =
  (* per-source stream states built by child scripts and parent pre-ops *)
  let states = [
    ("idle", [ a_sleep long; a_exit 0 ], []);
    ("out-pending", [ a_write 1 5; a_sleep long; a_exit 0 ], []);
    ("err-pending", [ a_write 2 5; a_sleep long; a_exit 0 ], []);
    ("out-closed-by-child", [ a_close 1; a_sleep long; a_exit 0 ], []);
    ("all-closed-by-child", [ a_close 0; a_close 1; a_close 2; a_sleep long; a_exit 0 ], []);
    ("exited", [ a_write 1 2; a_exit 3 ], []);
    ("exited-reaped", [ a_exit 3 ], [ `Wait ]);
    ("parent-closed-out", [ a_sleep long; a_exit 0 ], [ `Close 1 ]);
    ("parent-closed-all", [ a_sleep long; a_exit 0 ], [ `Close 0; `Close 1; `Close 2 ]);
    ("out-eof-read", [ a_close 1; a_sleep long; a_exit 0 ], [ `Read 1 ]);
    ("stdin-full", [ a_sleep long; a_exit 0 ], [ `Write 65536 ]);
    ("late-out", [ a_sleep 40; a_write 1 1; a_sleep long; a_exit 0 ], []);
    ("stdin-full-then-child-closes", [ a_sleep 5; a_close 0; a_sleep long; a_exit 0 ], [ `Write 65536 ]);
    ("stdin-partly-filled-child-closes", [ a_sleep 5; a_close 0; a_sleep long; a_exit 0 ], [ `Write 100 ]);
    ("stdin-full-child-exits", [ a_sleep 5; a_exit 2 ], [ `Write 65536 ]);
  ] in
  let optss = [ { default_options with o_err = rd 1 }; default_options; { default_options with o_err = rd 4 };
                { default_options with o_discard = true }; { default_options with o_err = rd 1; o_nonblocking = true } ] in
  let probes h m = (if m land 2 <> 0 then [ read ~h 1 10 ] else []) in
  ignore probes;
  let one k (nm, script, pre) (o : options) mask tmo probe =
    ignore nm;
    let h = 0 in
    let preops = List.map (function `Wait -> wait ~h (-1) | `Close s -> close ~h s | `Read s -> read ~h s 10 | `Write n -> write ~h n) pre in
    let pr = match probe with 0 -> [ read ~h 1 10 ] | 1 -> [ read ~h 2 10 ] | 2 -> [ write ~h 1 ] | _ -> [ wait ~h 0 ] in
    { sc_world = world_with [ script ];
      sc_ops = [ new_ ~h (); start ~h ~opts:{ o with o_stop = stop3 (sa 3 (-1)) (sa 0 0) (sa 0 0) } (c 0); sleep 10 ] @ preops
               @ [ poll ~t:tmo ((if k mod 5 = 0 then [ (-1, 15) ] else []) @ [ (h, mask) ]) ] @ pr @ [ poll ~t:0 [ (h, mask) ]; destroy ~h () ] } in
  let grid = List.concat (List.mapi (fun si st ->
      List.concat (List.mapi (fun oi o ->
          List.concat_map (fun mask ->
              let k = si * 7 + oi * 3 + mask in
              [ one k st o mask (List.nth [ 0; 60; 0 ] (k mod 3)) (k mod 4) ])
            (List.init 16 (fun m -> m))) optss)) states) in
  let two = List.concat (List.mapi (fun k (s1, s2) ->
      let (_, sc1, _) = s1 and (_, sc2, _) = s2 in
      List.map (fun (m1, m2) ->
          { sc_world = world_with [ sc1; sc2 ];
            sc_ops = [ new_ ~h:0 (); new_ ~h:1 (); start ~h:0 ~opts:{ default_options with o_err = rd 1; o_stop = stop3 (sa 3 (-1)) (sa 0 0) (sa 0 0) } (c 0);
                       start ~h:1 ~opts:{ default_options with o_stop = stop3 (sa 3 (-1)) (sa 0 0) (sa 0 0) } (c 1); sleep 10;
                       poll ~t:(List.nth [ 0; 30; 60 ] (k mod 3)) [ (0, m1); (-1, 15); (1, m2) ]; read ~h:(k mod 2) 1 10;
                       destroy ~h:0 (); destroy ~h:1 () ] })
        [ (2, 2); (15, 15); (8, 6); (1, 8); (4, 2) ])
      (List.concat_map (fun a -> List.map (fun b -> (a, b)) (take_ops 7 states)) (take_ops 7 states))) in
  let n = if tier = "quick" then 200 else 10000 in
  (* the child has exited but collecting its status fails (interrupted reap): it is still an exited
     child, so a later poll for it reports the exit and a zero-timeout wait succeeds *)
  let failed_reap = List.concat_map (fun mask ->
      faults_in_ops ~lat:0 ~errnos:[ 4 ] (function OS (SWait _) -> true | _ -> false)
        { sc_world = world_with [ [ a_write 1 3; a_exit 7 ] ];
          sc_ops = [ new_ (); start (c 0); sleep 30; wait 1000; poll ~t:0 [ (0, mask) ]; poll ~t:0 [ (0, 8) ]; wait 0; destroy () ] })
      [ 8; 10; 15 ] in
  [ { name = "C09/stream-states-x-options-x-masks"; exhaustive = true; scs = grid };
    { name = "C09/exited-child-after-a-failed-reap"; exhaustive = true; scs = failed_reap };
    { name = "C09/two-sources"; exhaustive = true; scs = two };
    { name = "C09/random-histories"; exhaustive = false; scs = List.init n (fun k -> rand_history (split r k)) } ]

(* ---- C10 / C11 / C13(start) : redirect configurations x descriptor layouts ---- *)
let fd_layouts = [ [ 0; 1; 2 ]; [ 1; 2 ]; [ 0; 2 ]; [ 0; 1 ]; [ 2 ]; [ 1 ]; [ 0 ]; [] ]
let fam_c10 tier r =
  ignore r;
  let types_in = [ rd 0; rd 1; rd 2; rd 3; rd ~h:5 5; rd ~f:4 6; rd ~p:"/tmp/i" 7 ] in
  let types_out = [ rd 0; rd 1; rd 2; rd 3; rd ~h:5 5; rd ~f:4 6; rd ~p:"/tmp/o" 7 ] in
  let types_err = [ rd 0; rd 1; rd 2; rd 3; rd 4; rd ~h:5 5; rd ~f:4 6; rd ~p:"/tmp/e" 7 ] in
  let mk ?(files = user_files) opts layout =
    let fds = List.filter (fun (k, _) -> int_of_z k > 2 || List.mem (int_of_z k) layout) user_fds in
    { sc_world = world_with ~fds ~files ~extra_fs:[ (s "/tmp/i", FFile) ] [ [ a_sleep 10; a_exit 0 ] ];
      sc_ops = [ new_ (); start ~opts (c 0); pid (); destroy () ] } in
  let combos = List.concat_map (fun a -> List.concat_map (fun b -> List.map (fun e -> { default_options with o_in = a; o_out = b; o_err = e }) types_err) types_out) types_in in
  let shorthands = [ { default_options with o_parent = true }; { default_options with o_discard = true };
                     { default_options with o_file = z 4 }; { default_options with o_path = Some (s "/tmp/p") };
                     { default_options with o_parent = true; o_in = rd 1 }; { default_options with o_discard = true; o_out = rd 1; o_err = rd 4 };
                     { default_options with o_file = z 4; o_in = rd 3 }; { default_options with o_path = Some (s "/tmp/p"); o_err = rd 2 };
                     { default_options with o_in = rd ~h:1 5 }; { default_options with o_err = rd ~f:2 6; o_out = rd 1 };
                     { default_options with o_out = rd ~h:2 5; o_err = rd ~h:1 5 }; { default_options with o_input_data = true; o_input_size = z 4 } ] in
  let std_open = List.map (fun o -> mk o [ 0; 1; 2 ]) (combos @ shorthands) in
  let layouts = List.concat_map (fun layout -> List.map (fun o -> mk o layout)
                                    (List.filteri (fun k _ -> tier <> "quick" || k mod 5 = 0) combos @ shorthands)) (List.tl fd_layouts) in
  let closed_file = List.map (fun o -> mk ~files:(std_files @ [ (z 4, Some (z 6)); (z 5, None) ] |> List.map (fun (k, v) -> if int_of_z k = 1 then (k, None) else (k, v))) o [ 0; 1; 2 ])
      [ { default_options with o_parent = true }; { default_options with o_in = rd 2 } ] in
  (* a start that fails after its pipes were created, then a start of the same handle with other
     redirects: nothing of the failed attempt may show in how the second one is wired *)
  let restart = List.concat_map (fun bad ->
      List.map (fun o2 ->
          { sc_world = world_with ~fds:user_fds ~files:user_files ~extra_fs:[ (s "/tmp/i", FFile) ] [ [ a_sleep 10; a_exit 0 ] ];
            sc_ops = [ new_ (); start bad; pid (); start ~opts:o2 (c 0); pid (); OS (SUserOpen (z 30, z 930, false)); OS (SUserOpen (z 31, z 931, false));
                       write 8; read 1 10; read 2 10; close 0; sleep 30; wait 100; destroy () ] })
        [ { default_options with o_discard = true }; { default_options with o_parent = true }; { default_options with o_in = rd 3; o_err = rd 1 };
          { default_options with o_out = rd ~h:5 5; o_in = rd ~p:"/tmp/i" 7 }; default_options ])
      [ argv [ "nonexistent" ]; argv [ "/w" ] ] in
  (* fork mode (no exec): the forked child's own 0/1/2 are wired the same way *)
  let forkm = List.concat_map (fun layout ->
      List.map (fun o ->
          let fds = List.filter (fun (k, _) -> int_of_z k > 2 || List.mem (int_of_z k) layout) user_fds in
          { sc_world = world_with ~fds ~files:user_files ~extra_fs:[ (s "/tmp/i", FFile) ] [ [ a_sleep 10; a_exit 0 ] ];
            sc_ops = [ new_ (); start ~opts:{ o with o_fork = true } ~script:[ a_sleep 10; a_exit 0 ] None; pid (); wait 100; destroy () ] })
        [ default_options; { default_options with o_err = rd 1 }; { default_options with o_discard = true }; { default_options with o_parent = true };
          { default_options with o_in = rd ~h:5 5; o_out = rd ~p:"/tmp/o" 7; o_err = rd 4 }; { default_options with o_in = rd 3; o_out = rd ~f:4 6 } ])
      fd_layouts in
  (* path targets that do not exist yet (stdin included: "reproc will create or open the file") *)
  let newpaths = List.map (fun o ->
      { sc_world = world_with ~fds:user_fds ~files:user_files [ [ a_sleep 10; a_exit 0 ] ];
        sc_ops = [ new_ (); start ~opts:o (c 0); pid (); sleep 30; wait 100; destroy () ] })
      [ { default_options with o_in = rd ~p:"/tmp/new-in" 7 }; { default_options with o_in = rd ~p:"/tmp/new-in" 0 };
        { default_options with o_out = rd ~p:"/tmp/new-out" 7; o_err = rd ~p:"/tmp/new-err" 0 };
        { default_options with o_in = rd ~p:"/tmp/new-in" 7; o_out = rd ~p:"/tmp/new-out" 7; o_err = rd 4 };
        { default_options with o_path = Some (s "/tmp/new-all") } ] in
  [ { name = "C10/type-combinations(std open)"; exhaustive = true; scs = std_open };
    { name = "C10/paths-that-do-not-exist-yet"; exhaustive = true; scs = newpaths };
    { name = "C10/fork-mode-x-closed-std-layouts"; exhaustive = true; scs = forkm };
    { name = "C10/failed-start-then-other-redirects"; exhaustive = true; scs = restart };
    { name = "C10/type-combinations-x-closed-std-layouts"; exhaustive = (tier <> "quick"); scs = layouts };
    { name = "C10/parent-FILE-closed"; exhaustive = true; scs = closed_file } ]

let fam_c11 tier r =
  let n = if tier = "quick" then 500 else 20000 in
  let one k =
    let r = split r k in
    let limit = pick r [ 8; 12; 16; 40; 64; 256 ] in
    let nextra = rint r (min 20 (limit - 3)) in
    let forced = match k mod 5 with 0 -> [ limit - 1 ] | 1 -> [ limit - 2 ] | 2 -> List.init (max 0 (limit - 10)) (fun x -> x + 3) | _ -> [] in
    let extra = List.sort_uniq compare (forced @ List.init nextra (fun _ -> 3 + rint r (max 1 (limit - 3)))) in
    let extra = List.filter (fun fd -> fd >= 3 && fd < limit) extra in
    let fds = std_fds @ List.map (fun fd -> (z fd, fdent ~cx:(chance r 1 3) (OExt (z (300 + fd), ARW)))) extra in
    (* leave room for the library's own descriptors *)
    let opts = rand_options r in
    let opts = { opts with o_in = (if int_of_z opts.o_in.rd_type >= 5 || int_of_z opts.o_in.rd_handle <> 0 || int_of_z opts.o_in.rd_file <> 0 then rd 0 else opts.o_in);
                           o_out = (if int_of_z opts.o_out.rd_type >= 5 || int_of_z opts.o_out.rd_handle <> 0 || int_of_z opts.o_out.rd_file <> 0 then rd 0 else opts.o_out);
                           o_err = (if int_of_z opts.o_err.rd_type >= 5 || int_of_z opts.o_err.rd_handle <> 0 || int_of_z opts.o_err.rd_file <> 0 then rd 0 else opts.o_err) } in
    let two = chance r 1 3 in
    { sc_world = world_with ~fds ~rlimit:limit ~extra_fs:[ (s "/tmp/f", FFile) ] [ [ a_sleep 10; a_exit 0 ]; [ a_sleep 10; a_exit 0 ] ];
      sc_ops = [ new_ (); new_ ~h:1 () ] @ (if two then [ start ~h:1 ~opts:(rand_options r |> fun o -> { o with o_in = rd 0; o_out = rd 0; o_err = rd 0; o_parent = false; o_discard = false }) (c 1) ] else [])
               @ [ start ~opts (c 0); pid (); destroy (); destroy ~h:1 () ] } in
  let huge = [ { sc_world = world_with ~rlimit:(-1) [ b_exit 0 ]; sc_ops = [ new_ (); start (c 0); destroy () ] };
               { sc_world = world_with ~rlimit:2000000 [ b_exit 0 ]; sc_ops = [ new_ (); start (c 0); destroy () ] } ] in
  let raised = List.concat_map (fun (l1, l2) ->
      List.map (fun cx ->
          { sc_world = world_with ~rlimit:l1 [ [ a_sleep 10; a_exit 0 ]; [ a_sleep 10; a_exit 0 ] ];
            sc_ops = [ new_ (); new_ ~h:1 (); start (c 0); OS (SUserRlimit (z l2)); OS (SUserOpen (z (l1 + 3), z 900, cx));
                       OS (SUserOpen (z (l2 - 1), z 901, false)); start ~h:1 (c 1); pid ~h:1 (); destroy (); destroy ~h:1 () ] })
        [ false; true ]) [ (16, 64); (24, 40); (64, 256) ] in
  (* descriptors handed over by the caller (HANDLE / FILE redirects, with and without close-on-exec)
     and fork mode (no exec follows: close-on-exec does not help), next to a sibling's pipes *)
  let kinds = [ rd 0; rd ~h:5 5; rd ~f:4 6; rd 3 ] in
  let user = List.concat_map (fun ri -> List.concat_map (fun ro -> List.concat_map (fun re ->
      List.map (fun fork ->
          let opts = { default_options with o_in = ri; o_out = ro; o_err = re; o_fork = fork } in
          { sc_world = world_with ~fds:user_fds ~files:user_files [ [ a_sleep 10; a_exit 0 ]; [ a_sleep 10; a_exit 0 ] ];
            sc_ops = [ new_ (); new_ ~h:1 (); start ~h:1 (c 1);
                       (if fork then start ~opts ~script:[ a_sleep 10; a_exit 0 ] None else start ~opts (c 0));
                       pid (); sleep 30; wait 100; destroy (); destroy ~h:1 () ] })
        [ false; true ]) kinds) kinds) kinds in
  (* the limit cannot be read (getrlimit fails in the child) while descriptors sit above 1024 *)
  let nolimit =
    let base = { sc_world = world_with ~rlimit:4096 ~fds:(std_fds @ [ (z 1500, fdent (OExt (z 1800, ARW))); (z 3000, fdent ~cx:true (OExt (z 3300, ARW))); (z 4095, fdent (OExt (z 4395, ARW))) ])
                              [ [ a_sleep 10; a_exit 0 ] ];
                 sc_ops = [ new_ (); start (c 0); pid (); wait 100; destroy () ] } in
    faults_in_ops ~lat:0 ~errnos:[ 1; 22 ] ~max_per:400 (function OStart _ -> true | _ -> false) base in
  (* descriptors behind a long run (more than 4096) of unused numbers, up to limit-1 *)
  let gaps = List.concat_map (fun (limit, extra) ->
      List.map (fun fork ->
          { sc_world = world_with ~rlimit:limit ~fds:(std_fds @ List.map (fun (fd, cx) -> (z fd, fdent ~cx (OExt (z (300 + fd), ARW)))) extra)
                         [ [ a_sleep 10; a_exit 0 ] ];
            sc_ops = [ new_ (); (if fork then start ~opts:{ default_options with o_fork = true } ~script:[ a_sleep 10; a_exit 0 ] None else start (c 0));
                       pid (); wait 100; destroy () ] })
        [ false; true ])
      ([ (16384, [ (16383, false) ]); (16384, [ (9000, false) ]); (16384, [ (5, false); (6000, false) ]); (16384, [ (16382, true); (16383, false) ]) ]
       @ (if tier = "quick" then [] else [ (65536, [ (40000, false); (65535, false) ]) ])) in
  [ { name = "C11/random-descriptor-tables"; exhaustive = false; scs = List.init n one };
    { name = "C11/descriptors-behind-long-gaps"; exhaustive = true; scs = gaps };
    { name = "C11/caller-handles-and-fork-mode"; exhaustive = true; scs = user };
    { name = "C11/high-descriptors-and-a-failing-call-in-start"; exhaustive = true; scs = nolimit };
    { name = "C11/limit-raised-between-starts"; exhaustive = true; scs = raised };
    { name = "C11/huge-limit"; exhaustive = true; scs = huge } ]

(* ---- C13 through start ---- *)
let fam_c13 tier r =
  let n = if tier = "quick" then 1500 else 40000 in
  let rr k =
    let r = split r k in
    let anyrd st =
      let t = pick r [ 0; 0; 1; 2; 3; 4; 5; 6; 7; 8; -1 ] in
      ignore st;
      (* FILE targets include the standard streams themselves (ids 1-3: descriptors 0-2) *)
      { rd_type = z t; rd_handle = z (pick r [ 0; 0; 5 ]); rd_file = z (pick r [ 0; 0; 0; 4; 4; 1; 2; 3 ]); rd_path = pick r [ None; None; Some (s "/tmp/f") ] } in
    let o = { default_options with o_in = anyrd 0; o_out = anyrd 1; o_err = anyrd 2; o_parent = chance r 1 4; o_discard = chance r 1 4;
                                   o_file = z (pick r [ 0; 0; 0; 4 ]); o_path = pick r [ None; None; None; Some (s "/tmp/g") ];
                                   o_input_data = chance r 1 4; o_input_size = z (pick r [ 0; 0; 3 ]); o_fork = chance r 1 6 } in
    let av = pick r [ c 0; c 0; c 0; None; Some [] ] in
    { sc_world = world_with ~fds:user_fds ~files:user_files ~extra_fs:[ (s "/tmp/f", FFile) ] [ b_exit 0 ];
      sc_ops = [ new_ (); start ~opts:o ~script:[ a_exit 0 ] av; pid (); destroy () ] } in
  (* FILE redirects whose FILE is one of the standard streams (descriptor 0, 1 or 2 behind it), by
     explicit type and by the member alone: documented, valid, must be accepted *)
  let std_files =
    List.concat_map (fun st -> List.concat_map (fun f -> List.map (fun ty ->
        let r1 = { rd_type = z ty; rd_handle = z 0; rd_file = z f; rd_path = None } in
        let o = match st with
          | 0 -> { default_options with o_in = r1 }
          | 1 -> { default_options with o_out = r1 }
          | _ -> { default_options with o_err = r1 } in
        { sc_world = world_with ~fds:user_fds ~files:user_files ~extra_fs:[ (s "/tmp/f", FFile) ] [ b_exit 0 ];
          sc_ops = [ new_ (); start ~opts:o ~script:[ a_exit 0 ] (c 0); pid (); destroy () ] })
        [ 0; 6 ]) [ 1; 2; 3; 4 ]) [ 0; 1; 2 ] in
  (* start-up input (also the empty one) needs a piped stdin: every other kind of stdin is rejected up front *)
  let input_x_stdin = List.concat_map (fun size ->
      List.map (fun o ->
          { sc_world = world_with ~fds:user_fds ~files:user_files ~extra_fs:[ (s "/tmp/f", FFile) ] [ [ a_readall 0; a_exit 0 ] ];
            sc_ops = [ new_ (); start ~opts:{ o with o_input_data = true; o_input_size = z size } ~script:[ a_exit 0 ] (c 0); pid (); sleep 30; wait 100; destroy () ] })
        [ default_options; { default_options with o_in = rd 1 }; { default_options with o_in = rd 2 }; { default_options with o_in = rd 3 };
          { default_options with o_in = rd ~h:5 5 }; { default_options with o_in = rd ~h:5 0 }; { default_options with o_in = rd ~f:4 6 };
          { default_options with o_in = rd ~f:4 0 }; { default_options with o_in = rd ~p:"/tmp/f" 7 }; { default_options with o_in = rd ~p:"/tmp/f" 0 };
          { default_options with o_parent = true }; { default_options with o_discard = true } ])
      [ 0; 3 ] in
  (* the same rules when the options arrive through run / run_ex: every combination of the four
     shorthands, with and without an explicit stream setting *)
  let through_run = List.concat_map (fun parent -> List.concat_map (fun discard -> List.concat_map (fun file -> List.concat_map (fun path ->
      List.concat_map (fun out ->
          let o = { default_options with o_parent = parent; o_discard = discard; o_file = z file; o_path = path; o_out = out } in
          let w = world_with ~fds:user_fds ~files:user_files ~extra_fs:[ (s "/tmp/f", FFile) ] [ [ a_write 1 3; a_exit 0 ] ] in
          [ { sc_world = w; sc_ops = [ ORun (c 0, o, nat_of_int 3000) ] };
            { sc_world = w; sc_ops = [ ORunEx (c 0, o, [], [], nat_of_int 3000) ] } ])
        [ rd 0; rd 1; rd 2 ])
      [ None; Some (s "/tmp/g") ]) [ 0; 4 ]) [ false; true ]) [ false; true ] in
  [ { name = "C13/random-options-through-start"; exhaustive = false; scs = List.init n rr };
    { name = "C13/shorthands-through-run"; exhaustive = true; scs = through_run };
    { name = "C13/start-up-input-x-kind-of-stdin"; exhaustive = true; scs = input_x_stdin };
    { name = "C13/file-redirects-on-standard-streams"; exhaustive = true; scs = std_files } ]

(* ---- C03: launch fidelity ---- *)
let rand_bytes r n =
  String.init n (fun _ -> Char.chr (pick r [ 32; 34; 92; 61; 9; 10; 39; 128 + rint r 128; 97 + rint r 26; 1 + rint r 254; 47 ]))
let fam_c03 tier r =
  (* a scenario with a 20 000-character directory weighs megabytes (strings are lists of Coq's binary
     integers), and the family is built before the workers fork: the thorough tier keeps the number
     of very long directories bounded (memory), and spends the rest on argv / environment shapes *)
  let n = if tier = "quick" then 320 else 2400 in
  let one k =
    let r = split r k in
    let nargs = pick r [ 0; 1; 2; 5; 40 ] in
    let args = List.init nargs (fun _ -> rand_bytes r (pick r [ 0; 0; 1; 3; 20; 300 ])) in
    let cwd_len = if tier <> "quick" && not (chance r 1 4) then pick r [ 1; 9; 100 ]
      else pick r [ 1; 9; 100; 4093; 4094; 4095; 4096; 4097; 8190; 8191; 8192; 8193; 20000 ] in
    let cwd = if cwd_len <= 9 then "/w/parent" else "/" ^ String.make (cwd_len - 1) 'd' in
    let cwd = if cwd_len > 9 && rbool r then String.sub cwd 0 (String.length cwd - 1) ^ "/" else cwd in
    let form = rint r 5 in
    let prog, extra_fs, wd = match form with
      | 0 -> "c0", [], None
      | 1 -> "/bin/c0", [], Some "/w/child"
      | 2 -> "sub/p", [ dir (cwd ^ (if cwd.[String.length cwd - 1] = '/' then "" else "/") ^ "sub"); prog (cwd ^ (if cwd.[String.length cwd - 1] = '/' then "" else "/") ^ "sub/p") (b_exit 0) ], Some "/w/child"
      | 3 -> "./q", [ prog (cwd ^ (if cwd.[String.length cwd - 1] = '/' then "" else "/") ^ "q") (b_exit 0) ], (if rbool r then Some "/tmp" else None)
      | _ -> "sub/p", [ dir (cwd ^ (if cwd.[String.length cwd - 1] = '/' then "" else "/") ^ "sub"); prog (cwd ^ (if cwd.[String.length cwd - 1] = '/' then "" else "/") ^ "sub/p") (b_exit 0) ], None in
    let penv = List.init (pick r [ 0; 1; 3; 60 ]) (fun j -> Printf.sprintf "V%d=%s" j (rand_bytes r (rint r 12))) @ (if rbool r then [ "PATH=/bin" ] else []) in
    let extra = if chance r 2 3 then Some (List.init (pick r [ 0; 1; 4 ]) (fun j -> s (Printf.sprintf "E%d=%s" j (rand_bytes r (rint r 12)))) @ (if rbool r then [ s "PATH=/usr/bin:/bin" ] else [])) else None in
    (* entries without '=' and with a leading '=' are passed through like any other string *)
    let extra = if tier <> "quick" || k mod 5 = 0 then Option.map (fun l -> l @ [ s (if k mod 2 = 0 then "NOEQUALS" else "=lead") ]) extra else extra in
    let opts = { default_options with o_env_behavior = z (rint r 2); o_env_extra = extra; o_wd = Option.map s wd } in
    { sc_world = world_with ~cwd ~env:penv ~extra_fs:([ dir cwd ] @ extra_fs) [ b_exit 0 ];
      sc_ops = [ new_ (); start ~opts (Some (s prog :: List.map s args)); pid (); destroy () ] } in
  (* directories that cannot be entered (missing, a regular file), with programs that do exist; and
     fork mode, where the requested environment and directory must reach the child without exec *)
  let wds = List.concat_map (fun wd ->
      List.concat_map (fun (av, fork) ->
          List.map (fun (eb, extra) ->
              let opts = { default_options with o_wd = wd; o_env_behavior = z eb; o_env_extra = extra; o_fork = fork } in
              { sc_world = world_with ~extra_fs:[ (s "/tmp/f", FFile) ] [ b_exit 0 ];
                sc_ops = [ new_ (); (if fork then start ~opts ~script:[ a_sleep 5; a_exit 0 ] None else start ~opts av); pid (); wait 100; destroy () ] })
            [ (0, None); (0, Some [ s "A=1"; s "B= 2" ]); (1, Some [ s "ONLY=1" ]); (1, None); (1, Some []) ])
        [ (c 0, false); (argv [ "/bin/c0" ], false); (None, true) ])
      [ None; Some (s "/w/child"); Some (s "/nonexistent"); Some (s "/tmp/f"); Some (s "/w/child/../missing") ] in
  [ { name = "C03/random-argv-env-cwd-program"; exhaustive = false; scs = List.init n one };
    { name = "C03/working-directories-x-modes-x-environments"; exhaustive = true; scs = wds } ]

let siblings_family () =
  let cat = [ a_readall 0; a_readall 0; a_readall 0; a_write 1 3; a_exit 0 ] in
  List.concat_map (fun second ->
      List.map (fun order ->
          let s0 = start ~h:0 (c 0) and s1 = second in
          { sc_world = world_with [ cat; [ a_sleep 400; a_exit 0 ] ];
            sc_ops = [ new_ ~h:0 (); new_ ~h:1 () ] @ (if order then [ s0; s1 ] else [ s1; s0 ])
                     @ [ write ~h:0 5; close ~h:0 0; sleep 50; wait ~h:0 100; read ~h:0 1 10; kill ~h:1 (); wait ~h:1 1000; destroy ~h:0 (); destroy ~h:1 () ] })
        [ true; false ])
      [ start ~h:1 (c 1); start ~h:1 ~opts:{ default_options with o_fork = true } ~script:[ a_sleep 400; a_exit 0 ] None;
        start ~h:1 ~opts:{ default_options with o_err = rd 1; o_nonblocking = true } (c 1) ]

(* ---- C02 / C16 / C17: stream volumes ---- *)
let sizes = [ 0; 1; 2; 4095; 4096; 4097; 65535; 65536; 65537; 200000; 1048576 ]
let bufs = [ 0; 1; 7; 4096; 65536; 1048576 ]
let fam_c02 tier r =
  let grid = List.concat (List.mapi (fun k size ->
      List.concat_map (fun buf ->
          List.concat_map (fun nb ->
              List.map (fun layout ->
                  let script = match layout with
                    | 0 -> [ a_write 1 size; a_exit 0 ]
                    | 1 -> [ a_write 2 size; a_sleep 5; a_exit 0 ]
                    | 2 -> [ a_write 1 (size / 2); a_write 2 size; a_write 1 (size - size / 2); a_close 1; a_sleep 20; a_exit 0 ]
                    | _ -> [ a_write 1 (size / 3); a_write 2 (size / 3); a_sleep 3; a_write 1 (size / 3 + 1); a_exit 0 ] in
                  let opts = { default_options with o_err = (if layout = 3 then rd 4 else rd 1); o_nonblocking = nb } in
                  let reads = List.concat (List.init (if buf = 0 then 2 else min 40 (size / (max buf 1) + 3)) (fun j ->
                      (if nb then [ poll ~t:(-1) [ (0, 2 lor 4) ] ] else [])
                      @ [ read (if layout = 1 || (layout = 2 && j mod 2 = 1) then 2 else 1) buf ])) in
                  ignore k;
                  { sc_world = world_with [ script ];
                    sc_ops = [ new_ (); start ~opts (c 0) ] @ reads @ [ read 1 100; read 2 100; read 1 1; wait (-1); destroy () ] })
                [ 0; 1; 2; 3 ]) [ false; true ]) bufs) sizes) in
  let win = List.concat_map (fun size ->
      List.concat_map (fun nb ->
          List.map (fun (nm, script) ->
              ignore nm;
              let opts = { default_options with o_nonblocking = nb } in
              { sc_world = world_with [ script ];
                sc_ops = [ new_ (); start ~opts (c 0); write size; sleep 50; write 1; write (size / 2); close 0; write 5; sleep 100; wait 200; destroy () ] })
            [ ("eager", [ a_readall 0; a_readall 0; a_readall 0; a_readall 0; a_readall 0; a_exit 0 ]);
              ("slow", [ a_read 0 10; a_sleep 30; a_read 0 100000; a_sleep 30; a_readall 0; a_readall 0; a_readall 0; a_exit 0 ]);
              ("never", [ a_sleep 120; a_exit 0 ]); ("closes-stdin", [ a_read 0 1; a_close 0; a_sleep 500; a_exit 0 ]) ])
          [ false; true ]) sizes in
  let input = List.concat_map (fun size ->
      List.map (fun (_, script) ->
          { sc_world = world_with [ script ];
            sc_ops = [ new_ (); start ~opts:{ default_options with o_input_data = true; o_input_size = z size } (c 0); write 3; sleep 50; wait 500; destroy () ] })
        [ ("eager", [ a_readall 0; a_readall 0; a_readall 0; a_exit 0 ]); ("slow", [ a_read 0 100; a_sleep 10; a_readall 0; a_readall 0; a_exit 0 ]) ])
      sizes in
  let n = if tier = "quick" then 300 else 15000 in
  let pickn k l = List.filteri (fun j _ -> j mod k = 0) l in
  let flt = List.concat_map (faults_in_ops ~errnos:[ 4; 5 ] ~max_per:6 is_io) (pickn 23 grid @ pickn 9 win) in
  [ { name = "C02/out-sizes-x-buffers-x-modes-x-layouts"; exhaustive = true; scs = grid };
    { name = "C02/interrupted-reads-writes"; exhaustive = true; scs = flt };
    { name = "C02/stdin-writes"; exhaustive = true; scs = win };
    { name = "C02/start-up-input"; exhaustive = true; scs = input };
    { name = "C02/siblings-see-their-own-eof"; exhaustive = true; scs = siblings_family () };
    { name = "C02/parent-started-with-closed-standard-streams"; exhaustive = true;
      scs = List.concat_map (fun layout ->
          List.map (fun (opts, ops) ->
              let fds = List.filter (fun (k, _) -> int_of_z k > 2 || List.mem (int_of_z k) layout) std_fds in
              { sc_world = world_with ~fds [ [ a_readall 0; a_readall 0; a_write 1 3; a_write 2 2; a_exit 0 ] ];
                sc_ops = [ new_ (); start ~opts (c 0) ] @ ops @ [ sleep 60; read 1 10; read 2 10; read 1 10; wait 200; destroy () ] })
            [ ({ default_options with o_err = rd 1 }, [ write 5; close 0 ]);
              ({ default_options with o_err = rd 1; o_input_data = true; o_input_size = z 6 }, []);
              ({ default_options with o_in = rd 3; o_err = rd 1 }, []) ])
          [ []; [ 2 ]; [ 0 ]; [ 1 ]; [ 0; 1; 2 ] ] };
    (* the parent's end of an output pipe lands on descriptor 0 (parent started without stdin, child's
       stdin handed over by the caller so nothing else takes the number): polled alone, drained, read *)
    { name = "C02/parent-end-on-descriptor-0"; exhaustive = true;
      scs = List.concat_map (fun layout ->
          List.map (fun ops ->
              let fds = List.filter (fun (k, _) -> int_of_z k > 2 || List.mem (int_of_z k) layout) user_fds in
              { sc_world = world_with ~fds ~files:user_files [ [ a_sleep 30; a_write 1 12; a_write 2 2; a_exit 0 ] ];
                sc_ops = [ new_ (); start ~opts:{ default_options with o_in = rd ~h:5 5; o_err = rd 1 } (c 0) ] @ ops
                         @ [ sleep 60; read 1 20; read 2 10; read 1 10; wait 200; destroy () ] })
            [ [ drain () ]; [ poll ~t:100 [ (0, 2) ]; read 1 20 ]; [ poll ~t:100 [ (0, 4) ]; poll ~t:100 [ (0, 6) ] ]; [] ])
          [ []; [ 2 ]; [ 1; 2 ]; [ 1 ] ] };
    { name = "C02/random-histories"; exhaustive = false; scs = List.init n (fun k -> rand_history (split r k)) } ]

let fam_c16 tier r =
  let grid = List.concat_map (fun (_, script) ->
      List.concat_map (fun errmode ->
          List.concat_map (fun (so, se) ->
              List.map (fun dl ->
                  let opts = { default_options with o_err = rd errmode; o_deadline = z dl } in
                  { sc_world = world_with [ script ];
                    sc_ops = [ new_ (); start ~opts (c 0); drain ~so ~se (); drain (); wait 500; destroy () ] })
                [ 0; 8; 45 ])
            [ ([], []); ([ 5 ], []); ([ 0; 7 ], []); ([], [ 0; -5 ]); ([ 0; 0; 7 ], []); ([ 0; 0; 0; 0; -5 ], [ 0; 0; 7 ]); ([ 0; 0; 0 ], [ 0; 0; 0; 9 ]) ])
        [ 1; 2; 4 ]) (Array.to_list io_behaviours) in
  let run_ex = List.concat_map (fun (_, script) ->
      List.concat_map (fun (so, se) ->
          List.map (fun opts ->
              { sc_world = world_with [ script ];
                sc_ops = [ ORunEx (c 0, opts, zl so, zl se, nat_of_int 3000); ORun (c 0, { opts with o_parent = false }, nat_of_int 3000) ] })
            [ default_options; { default_options with o_err = rd 1; o_stop = stop3 (sa 1 500) (sa 2 100) (sa 3 100) };
              { default_options with o_err = rd 4; o_deadline = z 30 }; { default_options with o_fork = true };
              { default_options with o_input_data = true; o_input_size = z 20 } ])
        [ ([], []); ([ 0; 0; 5 ], []); ([], [ 0; 0; -5 ]) ]) (Array.to_list io_behaviours) in
  let quiet = List.concat_map (fun nbytes ->
      List.concat_map (fun nb ->
          List.map (fun dl ->
              let script = [ a_write 1 nbytes; a_sleep 300; a_write 2 1; a_exit 0 ] in
              let opts = { default_options with o_err = rd 1; o_deadline = z dl; o_nonblocking = nb } in
              { sc_world = world_with [ script ];
                sc_ops = [ new_ (); start ~opts (c 0); drain (); wait 1000; destroy () ] })
            [ 0; 50 ]) [ false; true ]) [ 100; 4095; 4096; 4097; 8192; 12288 ] in
  (* the status is collected first, the output (small enough to sit in the pipes) drained afterwards *)
  let after_wait = List.concat_map (fun script ->
      List.concat_map (fun errmode ->
          List.map (fun pre ->
              { sc_world = world_with [ script ];
                sc_ops = [ new_ (); start ~opts:{ default_options with o_err = rd errmode } (c 0); sleep 50 ] @ pre @ [ drain (); read 1 10; destroy () ] })
            [ [ wait 1000 ]; [ stop (stop3 (sa 1 500) (sa 2 100) (sa 3 100)) ]; [ kill (); wait 1000 ] ])
        [ 1; 2 ])
      [ [ a_write 1 5; a_write 2 3; a_exit 7 ]; [ a_write 1 4096; a_exit 0 ]; [ a_exit 3 ] ] in
  let n = if tier = "quick" then 200 else 8000 in
  let faults = List.init n (fun k ->
      let r = split r k in
      let (_, script) = pick_a r io_behaviours in
      let base = { sc_world = world_with [ script ]; sc_ops = [ ORunEx (c 0, { default_options with o_err = rd 1 }, [], [], nat_of_int 3000) ] } in
      let ncalls = max 1 (int_of_z (run_model base).r_last.w_calls) in
      { base with sc_world = world_with ~faults:[ (rint r ncalls, pick r [ 12; 4; 24 ]) ] [ script ] }) in
  (* a child that never stops writing: the deadline still ends the drain *)
  let chatter = List.concat_map (fun dl ->
      List.map (fun pre ->
          let script = List.concat (List.init 80 (fun _ -> [ a_write 1 300; a_sleep 5 ])) @ [ a_exit 0 ] in
          { sc_world = world_with [ script ];
            sc_ops = [ new_ (); start ~opts:{ default_options with o_err = rd 1; o_deadline = z dl } (c 0); sleep pre; drain (); wait 1000; destroy () ] })
        [ 0; 30; 120 ]) [ 40; 100 ] in
  (* fork mode: the forked child (no exec follows) closes its output streams and keeps running; the
     parent's drain must see each stream close when the child closes it *)
  let fork_closes = List.concat_map (fun script ->
      List.map (fun errmode ->
          let opts = { default_options with o_fork = true; o_err = rd errmode; o_deadline = z 4000 } in
          { sc_world = world_with [ script ];
            sc_ops = [ new_ (); start ~opts ~script None; drain (); wait 0; wait 1000; destroy () ] })
        [ 1; 2; 4 ])
      [ [ a_write 1 9; a_close 1; a_sleep 40; a_write 2 7; a_close 2; a_sleep 300; a_exit 5 ];
        [ a_close 2; a_write 1 100; a_close 1; a_sleep 300; a_exit 0 ]; [ a_close 1; a_close 2; a_sleep 300; a_exit 1 ] ] in
  [ { name = "C16/drain-after-the-status-was-collected"; exhaustive = true; scs = after_wait };
    { name = "C16/fork-mode-child-closes-its-streams"; exhaustive = true; scs = fork_closes };
    { name = "C16/drain-x-sinks-x-stderr-x-deadlines"; exhaustive = true; scs = grid };
    { name = "C16/endless-writer-x-deadlines"; exhaustive = true; scs = chatter };
    { name = "C16/exact-buffer-then-quiet"; exhaustive = true; scs = quiet };
    { name = "C16/run_ex-run"; exhaustive = true; scs = run_ex };
    { name = "C16/run_ex-single-faults"; exhaustive = false; scs = faults } ]

let fam_c17 tier r =
  let grid = List.concat_map (fun size ->
      List.concat_map (fun (_, script) ->
          List.map (fun (nb, dl) ->
              let opts = { default_options with o_nonblocking = nb; o_err = rd 1; o_deadline = z dl } in
              { sc_world = world_with [ script ];
                sc_ops = [ new_ (); start ~opts (c 0); read 1 10; write size; write 1; read 2 10; sleep 25; read 1 70000; write size; read 1 1;
                           close 0; sleep 200; read 1 10; read 2 10; wait 0; destroy () ] })
            [ (true, 0); (true, 4000); (false, 0) ])
        [ ("idle", [ a_sleep 150; a_exit 0 ]); ("slow-reader", [ a_sleep 20; a_read 0 5000; a_sleep 20; a_readall 0; a_sleep 100; a_exit 0 ]);
          ("writer", [ a_write 1 70000; a_sleep 10; a_write 2 5; a_sleep 100; a_exit 0 ]); ("closes", [ a_close 0; a_close 1; a_sleep 100; a_exit 0 ]) ])
      sizes in
  let input = List.concat_map (fun size ->
      List.concat_map (fun nb ->
          List.map (fun (_, script) ->
              { sc_world = world_with [ script ];
                sc_ops = [ new_ (); start ~opts:{ default_options with o_input_data = true; o_input_size = z size; o_nonblocking = nb } (c 0); pid (); sleep 100; wait 1000; destroy () ] })
            [ ("eager", [ a_readall 0; a_readall 0; a_readall 0; a_readall 0; a_exit 0 ]); ("never", [ a_sleep 50; a_exit 0 ]) ])
        [ false; true ]) sizes in
  ignore r; ignore tier;
  let small = List.concat_map (fun cap ->
      List.concat_map (fun size ->
          List.concat_map (fun nb ->
              List.map (fun (_, script) ->
                  { sc_world = world_with ~lat:[ (-1, cap) ] [ script ];
                    sc_ops = [ new_ (); start ~opts:{ default_options with o_input_data = true; o_input_size = z size; o_nonblocking = nb } (c 0); pid (); sleep 100; wait 1000; destroy () ] })
                [ ("eager", [ a_readall 0; a_readall 0; a_readall 0; a_readall 0; a_exit 0 ]); ("never", [ a_sleep 50; a_exit 0 ]) ])
            [ false; true ]) [ 1; 4096; 8192; 8193; 32768; 65536 ]) [ 4096; 8192; 16384 ] in
  (* every choice of which streams are pipes (a stream that is not a pipe is discarded): the option
     must reach each pipe that exists, whichever they are *)
  let layouts = List.concat_map (fun (ti, to_, te) ->
      List.concat_map (fun nb ->
          List.map (fun (_, script) ->
              let opts = { default_options with o_nonblocking = nb; o_in = rd ti; o_out = rd to_; o_err = rd te } in
              { sc_world = world_with [ script ];
                sc_ops = [ new_ (); start ~opts (c 0); read 1 10; read 2 10; write 70000; write 70000; read 2 5; read 1 5; sleep 30;
                           read 1 10; read 2 10; close 0; sleep 200; wait 0; destroy () ] })
            [ ("idle", [ a_sleep 150; a_exit 0 ]); ("err-writer", [ a_sleep 20; a_write 2 5; a_sleep 100; a_exit 0 ]) ])
        [ true; false ])
      [ (1, 1, 1); (1, 1, 3); (1, 3, 1); (1, 3, 3); (3, 1, 1); (3, 1, 3); (3, 3, 1); (3, 3, 3); (3, 3, 0); (0, 0, 1); (2, 2, 1); (3, 1, 4) ] in
  (* a blocking read waits for its own child only: a sibling started afterwards (by exec or in fork
     mode, where nothing closes inherited descriptors for it) must not hold the stream open *)
  let sibling = List.concat_map (fun fork ->
      List.map (fun nb ->
          let o1 = { default_options with o_nonblocking = nb; o_err = rd 1 } in
          let o2 = { default_options with o_fork = fork } in
          { sc_world = world_with [ [ a_readall 0; a_write 1 10; a_readall 0; a_readall 0; a_exit 0 ]; [ a_sleep 600; a_exit 0 ] ];
            sc_ops = [ new_ (); new_ ~h:1 (); start ~opts:o1 (c 0);
                       (if fork then start ~h:1 ~opts:o2 ~script:[ a_sleep 600; a_exit 0 ] None else start ~h:1 ~opts:o2 (c 1));
                       write 5; close 0; sleep 20; read 1 100; read 1 100; read 2 100; wait 100; destroy (); destroy ~h:1 () ] })
        [ false; true ]) [ false; true ] in
  [ { name = "C17/pipe-states-x-sizes"; exhaustive = true; scs = grid };
    { name = "C17/sibling-started-later"; exhaustive = true; scs = sibling };
    { name = "C17/which-streams-are-pipes"; exhaustive = true; scs = layouts };
    { name = "C17/start-up-input-with-small-pipes"; exhaustive = true; scs = small };
    { name = "C17/start-up-input-sizes"; exhaustive = true; scs = input } ]

let fam_c14 tier r =
  let n = if tier = "quick" then 1500 else 60000 in
  (* an error that only says "not now" (would-block on a full pipe, an interrupted call) leaves
     the stream as it is: later calls behave as before *)
  let transient = List.concat_map (fun nb ->
      List.map (fun (_, script) ->
          { sc_world = world_with [ script ];
            sc_ops = [ new_ (); start ~opts:{ default_options with o_nonblocking = nb; o_err = rd 1 } (c 0);
                       read 1 10; read 2 10; write 70000; write 70000; write 3; poll ~t:0 [ (0, 1 lor 2 lor 4) ]; write 5; read 1 10;
                       sleep 80; write 4; poll ~t:0 [ (0, 1) ]; close 0; close 0; write 1; wait 0; destroy () ] })
        [ ("never-reads", [ a_sleep 300; a_exit 0 ]); ("reads-late", [ a_sleep 60; a_readall 0; a_sleep 300; a_exit 0 ]) ])
      [ true ] in
  [ { name = "C14/transient-errors-keep-streams"; exhaustive = true; scs = transient };
    { name = "C14/random-histories"; exhaustive = false;
      scs = List.init n (fun k -> rand_history ~allow_fork:true ~end_destroy:(k mod 4 <> 0) (split r k)) } ]

let fam_c20 tier r =
  let n = if tier = "quick" then 600 else 20000 in
  let cat = [ a_readall 0; a_readall 0; a_readall 0; a_write 1 3; a_exit 0 ] in
  let siblings = List.concat_map (fun second ->
      List.map (fun order ->
          let s0 = start ~h:0 (c 0) and s1 = second in
          { sc_world = world_with [ cat; [ a_sleep 400; a_exit 0 ] ];
            sc_ops = [ new_ ~h:0 (); new_ ~h:1 () ] @ (if order then [ s0; s1 ] else [ s1; s0 ])
                     @ [ write ~h:0 5; close ~h:0 0; sleep 50; wait ~h:0 100; read ~h:0 1 10; kill ~h:1 (); wait ~h:1 1000; destroy ~h:0 (); destroy ~h:1 () ] })
        [ true; false ])
      [ start ~h:1 (c 1); start ~h:1 ~opts:{ default_options with o_fork = true } ~script:[ a_sleep 400; a_exit 0 ] None;
        start ~h:1 ~opts:{ default_options with o_err = rd 1; o_nonblocking = true } (c 1) ] in
  [ { name = "C20/multi-handle-histories"; exhaustive = false; scs = List.init n (fun k -> rand_history (split r (k + 77777))) };
    { name = "C20/siblings-see-their-own-eof"; exhaustive = true; scs = siblings } ]

let families (prop : string) (tier : string) (seed : int) : fam list =
  let r = mk_rng (seed + Hashtbl.hash prop) in
  match prop with
  | "C01" -> fam_c01 tier r | "C02" -> fam_c02 tier r | "C03" -> fam_c03 tier r | "C04" -> fam_c04 tier r
  | "C05" -> fam_c05 tier r | "C06" -> fam_c06 tier r | "C07" -> fam_c07 tier r | "C08" -> fam_c08 tier r
  | "C09" -> fam_c09 tier r | "C10" -> fam_c10 tier r | "C11" -> fam_c11 tier r | "C12" -> fam_c12 tier r
  | "C13" -> fam_c13 tier r | "C14" -> fam_c14 tier r | "C15" -> fam_c15 tier r | "C16" -> fam_c16 tier r
  | "C17" -> fam_c17 tier r | "C20" -> fam_c20 tier r
  | _ -> []
