#!/bin/bash
# build_driver.sh <impl objdir> <out exe> [ccopt...] — link the driver with the redirected objects
set -e
IMPL=${1:-/verif/_build/impl}; EXE=${2:-/verif/_build/simrun}; shift 2 || true
B=/verif/_build/driver; mkdir -p $B
cp /verif/_build/extract/model.ml /verif/_build/extract/model.mli /verif/harness/driver/*.ml $B/
CC_EXTRA=""; for a in "$@"; do CC_EXTRA="$CC_EXTRA -ccopt $a"; done
gcc -O1 -g -I$(ocamlfind ocamlc -where) -I/repo/reproc/include -I/verif/harness/stubs -c /verif/harness/stubs/sim_libc.c -o $B/sim_libc.o
gcc -O1 -g -I$(ocamlfind ocamlc -where) -I/repo/reproc/include -I/verif/harness/stubs -c /verif/harness/stubs/drv.c -o $B/drv.o
cd $B
MODS="model.mli model.ml glue.ml show.ml scn.ml impl.ml mon.ml fam.ml"
ocamlfind ocamlopt -O2 -w -a -package unix -linkpkg $MODS main.ml $B/sim_libc.o $B/drv.o $(cat $IMPL/objs.txt) $CC_EXTRA -o $EXE 2>&1
