#!/usr/bin/env python3
"""check_theorems.py [<repo>] -- regenerate Cpp_gen.v from <repo> (default /repo) into a scratch
directory (/verif/_build/c19/thm), compile Cpp.v and then every theorem of Properties_C19.v in a
file of its own, and print one PASS/FAIL line per theorem (coqc stops at the first failing proof,
so compiling Properties_C19.v as a whole only shows the first refuted theorem).
Exit status: 0 all pass, 1 some theorem fails, 2 translator / Cpp.v do not build."""
import os, re, shutil, subprocess, sys

VERIF = os.path.dirname(os.path.dirname(os.path.dirname(os.path.abspath(__file__))))
repo = os.path.abspath(sys.argv[1] if len(sys.argv) > 1 else "/repo")
B = VERIF + "/_build/c19/thm"
shutil.rmtree(B, ignore_errors=True)
os.makedirs(B + "/gen")


def sh(cmd):
    return subprocess.run(cmd, cwd=B, stdout=subprocess.PIPE, stderr=subprocess.STDOUT, text=True)


r = sh([sys.executable, VERIF + "/harness/translate/gen_cpp.py", repo, B + "/gen"])
if r.returncode != 0:
    print("TRANSLATOR FAILED:", r.stdout.strip())
    sys.exit(2)
shutil.copy(VERIF + "/coq/Cpp.v", B)
for f in ("gen/Cpp_gen.v", "Cpp.v"):
    r = sh(["timeout", "300", "coqc", "-Q", ".", "Verif", f])
    if r.returncode != 0:
        print("BUILD FAILED: %s\n%s" % (f, r.stdout))
        sys.exit(2)
src = open(VERIF + "/coq/Properties_C19.v").read()
parts = re.split(r"(?m)^(?=Theorem )", src)
header = parts[0]
header = header[:header.rindex("\n(*")] + "\n"   # drop the comment that introduces the first theorem
# (comments preceding later theorems stay with the previous chunk and are cut off below)
bad = 0
for chunk in parts[1:]:
    name = re.match(r"Theorem (\w+)", chunk).group(1)
    chunk = chunk[:chunk.rindex("Print Assumptions %s." % name) + len("Print Assumptions %s." % name)] + "\n"
    open("%s/T_%s.v" % (B, name), "w").write(header + chunk)
    r = sh(["timeout", "300", "coqc", "-Q", ".", "Verif", "T_%s.v" % name])
    ok = r.returncode == 0 and "Closed under the global context" in r.stdout
    bad += not ok
    print("%-32s %s%s" % (name, "PASS  (closed under the global context)" if ok else "FAIL",
                          "" if ok else "  " + " ".join(r.stdout.split())[:160]))
sys.exit(1 if bad else 0)
