/* capi_interpose.c -- see capi_interpose.h.  Compiled as C99 against $REPO's headers.
   capi_consts_gen.h is produced by the tie at build time from $REPO's reproc.c / error.posix.c
   (harness/cpp/consts_probe.c), so the constants have the values of the real library. */
#include "capi_interpose.h"
#include "capi_consts_gen.h"

#include <stdlib.h>
#include <string.h>

const int REPROC_EINVAL = CAPI_REPROC_EINVAL;
const int REPROC_ETIMEDOUT = CAPI_REPROC_ETIMEDOUT;
const int REPROC_EPIPE = CAPI_REPROC_EPIPE;
const int REPROC_ENOMEM = CAPI_REPROC_ENOMEM;
const int REPROC_EWOULDBLOCK = CAPI_REPROC_EWOULDBLOCK;
const int REPROC_SIGKILL = CAPI_REPROC_SIGKILL;
const int REPROC_SIGTERM = CAPI_REPROC_SIGTERM;
const int REPROC_INFINITE = CAPI_REPROC_INFINITE;
const int REPROC_DEADLINE = CAPI_REPROC_DEADLINE;

capi_call capi_log[CAPI_LOG_MAX];
size_t capi_log_len = 0;
size_t capi_log_dropped = 0;
size_t capi_copy_limit = 1u << 20;
long capi_new_count = 0, capi_destroy_count = 0, capi_destroy_null_count = 0,
     capi_destroy_bad_count = 0;

/* ------------------------------------------------------------------ scripts */

#define SCRIPT_MAX 64
static int script[CAPI_NFN][SCRIPT_MAX];
static size_t script_len[CAPI_NFN], script_pos[CAPI_NFN];
static int poll_events[SCRIPT_MAX];
static size_t poll_events_len, poll_events_pos;

void capi_script_seq(int fn, const int *rets, size_t n)
{
  if (fn < 0 || fn >= CAPI_NFN) abort();
  if (n > SCRIPT_MAX) abort();
  memcpy(script[fn], rets, n * sizeof(int));
  script_len[fn] = n;
  script_pos[fn] = 0;
}

void capi_script(int fn, int ret) { capi_script_seq(fn, &ret, 1); }

void capi_script_poll_events(const int *events, size_t n)
{
  if (n > SCRIPT_MAX) abort();
  memcpy(poll_events, events, n * sizeof(int));
  poll_events_len = n;
  poll_events_pos = 0;
}

void capi_script_clear(void)
{
  memset(script_len, 0, sizeof(script_len));
  memset(script_pos, 0, sizeof(script_pos));
  poll_events_len = poll_events_pos = 0;
}

static int next_ret(int fn)
{
  if (script_len[fn] == 0) return 0;
  int r = script[fn][script_pos[fn]];
  if (script_pos[fn] + 1 < script_len[fn]) script_pos[fn]++;
  return r;
}

static int next_events(void)
{
  if (poll_events_len == 0) return 0;
  int e = poll_events[poll_events_pos];
  if (poll_events_pos + 1 < poll_events_len) poll_events_pos++;
  return e;
}

/* ------------------------------------------------------------------ log */

static void strv_free(capi_strv *v)
{
  for (size_t i = 0; i < v->n; i++) free(v->items[i]);
  free(v->items);
  free(v->lens);
  memset(v, 0, sizeof(*v));
}

void capi_reset(void)
{
  for (size_t i = 0; i < capi_log_len; i++) {
    capi_call *c = &capi_log[i];
    strv_free(&c->argv);
    strv_free(&c->env_extra);
    free(c->working_directory);
    free(c->redirect_in_path);
    free(c->redirect_out_path);
    free(c->redirect_err_path);
    free(c->redirect_path);
    free(c->input_copy);
    free(c->buffer_copy);
  }
  memset(capi_log, 0, sizeof(capi_call) * capi_log_len);
  capi_log_len = 0;
  capi_log_dropped = 0;
}

static capi_call scratch; /* used when the log is full */

static capi_call *record(int fn, reproc_t *process)
{
  capi_call *c;
  if (capi_log_len < CAPI_LOG_MAX) {
    c = &capi_log[capi_log_len++];
  } else {
    capi_log_dropped++;
    c = &scratch;
  }
  memset(c, 0, sizeof(*c));
  c->fn = fn;
  c->process = process;
  c->process_id = process ? process->id : -1;
  return c;
}

static char *dupstr(const char *s)
{
  if (s == NULL) return NULL;
  size_t n = strlen(s);
  char *r = malloc(n + 1);
  memcpy(r, s, n + 1);
  return r;
}

static uint8_t *dupbytes(const uint8_t *p, size_t n)
{
  if (p == NULL || n == 0 || n > capi_copy_limit) return NULL;
  uint8_t *r = malloc(n);
  memcpy(r, p, n);
  return r;
}

/* walk the array up to its NULL terminator, copy every string up to its NUL terminator */
static void strv_copy(capi_strv *v, const char *const *a)
{
  memset(v, 0, sizeof(*v));
  v->orig = a;
  if (a == NULL) {
    v->is_null = 1;
    return;
  }
  size_t n = 0;
  while (a[n] != NULL) n++;
  v->n = n;
  v->items = malloc((n + 1) * sizeof(char *));
  v->lens = malloc((n + 1) * sizeof(size_t));
  for (size_t i = 0; i < n; i++) {
    v->lens[i] = strlen(a[i]);
    v->items[i] = dupstr(a[i]);
  }
  v->items[n] = NULL;
}

static void record_start(capi_call *c, const char *const *argv, reproc_options options)
{
  c->options = options;
  strv_copy(&c->argv, argv);
  strv_copy(&c->env_extra, options.env.extra);
  c->working_directory = dupstr(options.working_directory);
  c->redirect_in_path = dupstr(options.redirect.in.path);
  c->redirect_out_path = dupstr(options.redirect.out.path);
  c->redirect_err_path = dupstr(options.redirect.err.path);
  c->redirect_path = dupstr(options.redirect.path);
  c->input_copy = dupbytes(options.input.data, options.input.size);
  c->stop = options.stop;
}

/* ------------------------------------------------------------------ reproc.h */

static int next_id = 1;

reproc_t *reproc_new(void)
{
  reproc_t *p = malloc(sizeof(*p));
  p->id = next_id++;
  p->alive = 1;
  capi_new_count++;
  capi_call *c = record(CAPI_NEW, p);
  c->ret = 0;
  return p;
}

reproc_t *reproc_destroy(reproc_t *process)
{
  capi_call *c = record(CAPI_DESTROY, process);
  c->ret = 0;
  if (process == NULL) {
    capi_destroy_null_count++;
    return NULL;
  }
  if (!process->alive) {
    capi_destroy_bad_count++;
    return NULL;
  }
  capi_destroy_count++;
  process->alive = 0;
  free(process);
  return NULL;
}

int reproc_start(reproc_t *process, const char *const *argv, reproc_options options)
{
  capi_call *c = record(CAPI_START, process);
  record_start(c, argv, options);
  return c->ret = next_ret(CAPI_START);
}

int reproc_pid(reproc_t *process)
{
  capi_call *c = record(CAPI_PID, process);
  return c->ret = next_ret(CAPI_PID);
}

int reproc_poll(reproc_event_source *sources, size_t num_sources, int timeout)
{
  capi_call *c = record(CAPI_POLL, num_sources > 0 && sources ? sources[0].process : NULL);
  c->num_sources = num_sources;
  c->timeout = timeout;
  for (size_t i = 0; i < num_sources && i < CAPI_MAX_SOURCES; i++) c->sources[i] = sources[i];
  int r = next_ret(CAPI_POLL);
  int e = next_events();
  if (r >= 0) {
    for (size_t i = 0; i < num_sources; i++) sources[i].events = e + (int) i;
  } else {
    /* a failing poll leaves garbage behind: the wrapper must not copy it back */
    for (size_t i = 0; i < num_sources; i++) sources[i].events = 0x5a5a5a5a;
  }
  return c->ret = r;
}

uint8_t capi_read_byte(int n, size_t i) { return (uint8_t) ((unsigned) n * 31u + (unsigned) i * 7u + 1u); }

int reproc_read(reproc_t *process, REPROC_STREAM stream, uint8_t *buffer, size_t size)
{
  capi_call *c = record(CAPI_READ, process);
  c->stream = (int) stream;
  c->buffer = buffer;
  c->size = size;
  int r = next_ret(CAPI_READ);
  if (r > 0 && buffer != NULL) {
    size_t n = (size_t) r < size ? (size_t) r : size;
    for (size_t i = 0; i < n; i++) buffer[i] = capi_read_byte(r, i);
  }
  return c->ret = r;
}

int reproc_write(reproc_t *process, const uint8_t *buffer, size_t size)
{
  capi_call *c = record(CAPI_WRITE, process);
  c->buffer = buffer;
  c->size = size;
  c->buffer_copy = dupbytes(buffer, size);
  return c->ret = next_ret(CAPI_WRITE);
}

int reproc_close(reproc_t *process, REPROC_STREAM stream)
{
  capi_call *c = record(CAPI_CLOSE, process);
  c->stream = (int) stream;
  return c->ret = next_ret(CAPI_CLOSE);
}

int reproc_wait(reproc_t *process, int timeout)
{
  capi_call *c = record(CAPI_WAIT, process);
  c->timeout = timeout;
  return c->ret = next_ret(CAPI_WAIT);
}

int reproc_terminate(reproc_t *process)
{
  capi_call *c = record(CAPI_TERMINATE, process);
  return c->ret = next_ret(CAPI_TERMINATE);
}

int reproc_kill(reproc_t *process)
{
  capi_call *c = record(CAPI_KILL, process);
  return c->ret = next_ret(CAPI_KILL);
}

int reproc_stop(reproc_t *process, reproc_stop_actions stop)
{
  capi_call *c = record(CAPI_STOP, process);
  c->stop = stop;
  return c->ret = next_ret(CAPI_STOP);
}

const char *reproc_strerror(int error)
{
  capi_call *c = record(CAPI_STRERROR, NULL);
  c->error = error;
  return "interposed";
}

/* ------------------------------------------------------------------ drain.h / run.h */

static int sink_discard(REPROC_STREAM stream, const uint8_t *buffer, size_t size, void *context)
{
  (void) stream; (void) buffer; (void) size; (void) context;
  return 0;
}

const reproc_sink REPROC_SINK_NULL = { sink_discard, NULL };

int reproc_drain(reproc_t *process, reproc_sink out, reproc_sink err)
{
  (void) out; (void) err;
  capi_call *c = record(CAPI_DRAIN, process);
  return c->ret = next_ret(CAPI_DRAIN);
}

reproc_sink reproc_sink_string(char **output)
{
  reproc_sink s = { sink_discard, output };
  return s;
}

reproc_sink reproc_sink_discard(void) { return REPROC_SINK_NULL; }

void *reproc_free(void *ptr)
{
  free(ptr);
  return NULL;
}

int reproc_run(const char *const *argv, reproc_options options)
{
  capi_call *c = record(CAPI_RUN, NULL);
  record_start(c, argv, options);
  return c->ret = next_ret(CAPI_RUN);
}

int reproc_run_ex(const char *const *argv, reproc_options options, reproc_sink out, reproc_sink err)
{
  (void) out; (void) err;
  capi_call *c = record(CAPI_RUN_EX, NULL);
  record_start(c, argv, options);
  return c->ret = next_ret(CAPI_RUN_EX);
}
