#!/usr/bin/env python3
"""tie.py <tier> <seed> <out.json> -- the C19 tie runner (called by harness/ties/C19.sh).

Rebuilds everything from $REPO's current working tree (default /repo) under
/verif/_build/c19/tie/, runs the compiled C++ wrapper against the interposed C API, evaluates
the monitors (driver), and cross-checks the regenerated tables and the Coq model:

  monitor  failures come from harness/cpp/drive.cpp (the oracle fails on the implementation)
  diff     the freshly generated Cpp_gen.v / the Coq model disagree with what the compiled code
           does (field order, enumerator values, initialiser flow, error_code_from table) or the
           driver's handwritten field lists no longer cover the generated ones
  build    something could not be built or run against $REPO
"""
import ast, json, os, re, shutil, subprocess, sys, time

T0 = time.time()
REPO = os.path.abspath(os.environ.get("REPO", "/repo"))
VERIF = os.path.dirname(os.path.dirname(os.path.dirname(os.path.abspath(__file__))))
B = os.path.join(VERIF, "_build", "c19", "tie")
H = os.path.join(VERIF, "harness", "cpp")
SAN = ["-fsanitize=address,undefined", "-fno-sanitize-recover=undefined"]
RULE = ("options: each of the 29 C++ options fields alone (boundary values + seeded random values) and "
        "random subsets of all fields together, through start() and fork(), checked field by field against "
        "the same-named C field; clone: the same settings through options::clone; arrays: arguments/env from "
        "7+6 container types with seeded random strings (every byte but NUL, empty, long); methods: all 12 "
        "wrapper entry points x {5 named errors, -4200..-1, 0..10, large, seeded random ints}; enums: all 26 "
        "pairs; drain/run on scripted sequences.  A case is non-trivial when some field is set / the container "
        "is non-empty / the result is non-zero, distinct by the hash of (family, method, inputs)")

failures = []


def fail(kind, key, what, replay):
    failures.append({"kind": kind, "key": key, "what": what, "replay": replay})


def finish(drive=None, extra=None):
    out = {"tie": "C19",
           "evaluations": (drive or {}).get("evaluations", 0),
           "distinct_nontrivial": (drive or {}).get("distinct_nontrivial", 0),
           "rule": RULE,
           "exhaustive": False,
           "samples": (drive or {}).get("samples", []),
           "distribution": (drive or {}).get("distribution", {}),
           "failures": (drive or {}).get("failures", []) + failures}
    out["distribution"]["wall_seconds"] = round(time.time() - T0, 2)
    out["distribution"]["repo"] = REPO
    if extra:
        out["distribution"].update(extra)
    with open(sys.argv[3], "w") as f:
        json.dump(out, f, indent=1)
        f.write("\n")
    sys.exit(0)


def run(cmd, **kw):
    return subprocess.run(cmd, stdout=subprocess.PIPE, stderr=subprocess.STDOUT, text=True, **kw)


def spawn(cmd, **kw):
    return (cmd, subprocess.Popen(cmd, stdout=subprocess.PIPE, stderr=subprocess.STDOUT, text=True, **kw))


def wait_all(procs, what):
    ok = True
    for cmd, p in procs:
        out, _ = p.communicate()
        if p.returncode != 0:
            ok = False
            fail("build", "C19/build/" + what, "%s failed" % what,
                 {"command": " ".join(cmd), "status": p.returncode, "output": out[-3000:]})
    return ok


# ------------------------------------------------------------------ reading Cpp_gen.v

def coq_value(text):
    """a Coq list/tuple/string/Z literal as written by gen_cpp.py -> python value"""
    out, i, instr = [], 0, False
    while i < len(text):
        ch = text[i]
        if instr:
            if ch == "\\":
                out.append("\\\\")
            else:
                out.append(ch)
            if ch == '"':
                instr = False
        elif ch == '"':
            instr = True
            out.append(ch)
        elif ch == ";":
            out.append(",")
        else:
            out.append(ch)
        i += 1
    return ast.literal_eval("".join(out).strip())


def read_gen(path):
    s = open(path).read()
    defs = {}
    for m in re.finditer(r"^Definition (\w+) : [^\n]*? :=[ \n]", s, re.M):
        end = s.index(".\n", m.end())
        defs[m.group(1)] = coq_value(s[m.end():end])
    return defs


# ------------------------------------------------------------------ generated probes

def c_value(ctype, k):
    if ctype.rstrip().endswith("*"):
        return "(void *) (uintptr_t) %d" % (k + 1)
    if ctype == "_Bool":
        return "1"
    return "%d" % (k + 1)


def order_probe_source(structs):
    """for every struct: initialise it with a FLAT positional list (brace elision, so the compiler
    assigns the values to the leaf fields in its own declaration order) in which only leaf j is
    non-zero, then read the leaves BY NAME: leaf k must be non-zero exactly when k == j."""
    o = ["#include <stdint.h>", "#include <stdio.h>", "#include <string.h>", "#include <reproc/reproc.h>",
         "int main(void) {", "  int bad = 0;"]
    for sname, leaves in structs:
        n = len(leaves)
        for j in range(n):
            vals = ", ".join(c_value(t, k) if k == j else ("(void *) 0" if t.rstrip().endswith("*") else "0")
                             for k, (_, t) in enumerate(leaves))
            o.append("  { %s o = { %s };" % (sname, vals))
            for k, (name, _) in enumerate(leaves):
                o.append('    if ((o.%s != 0) != %d) { printf("MISMATCH %s init-leaf %d named-field %s\\n"); bad++; }'
                         % (name, 1 if k == j else 0, sname, j, name))
            o.append("  }")
        o.append('  printf("STRUCT %s %d %%zu\\n", sizeof(%s));' % (sname, n, sname))
    o += ['  printf("DONE %d\\n", bad);', "  return 0;", "}"]
    return "\n".join(o) + "\n"


def excess_probe_source(sname, leaves):
    vals = ", ".join("(void *) 0" if t.rstrip().endswith("*") else "0" for _, t in leaves) + ", 0"
    return "#include <reproc/reproc.h>\n%s excess(void) { %s o = { %s }; return o; }\n" % (sname, sname, vals)


def enum_probe_source(gen):
    o = ["#include <cstdio>", "#include <reproc++/reproc.hpp>", "#include <reproc/reproc.h>", "int main() {"]
    for ename, enumerators in gen["cpp_enums"]:
        for n, _ in enumerators:
            o.append('  std::printf("CPP %s::%s %%lld\\n", static_cast<long long>(reproc::%s::%s));' % (ename, n, ename, n))
    for n, _ in gen["c_enumerators"]:
        o.append('  std::printf("C %s %%lld\\n", static_cast<long long>(%s));' % (n, n))
    o += ["  return 0;", "}"]
    return "\n".join(o) + "\n"


# ------------------------------------------------------------------ main

def main():
    tier, seed = sys.argv[1], sys.argv[2]
    shutil.rmtree(B, ignore_errors=True)
    os.makedirs(B + "/coq/gen")
    inc_c = ["-I%s/reproc/include" % REPO]
    inc_cxx = ["-I%s/reproc++/include" % REPO, "-I%s/reproc/include" % REPO]

    # 1. the translator on the current tree
    r = run([sys.executable, VERIF + "/harness/translate/gen_cpp.py", REPO, B + "/coq/gen"])
    if r.returncode != 0:
        fail("build", "C19/build/translator", "gen_cpp.py does not match the sources any more",
             {"status": r.returncode, "output": r.stdout[-3000:]})
        # the proof obligation over the regenerated tables is broken; still search for a failing
        # input: drive the compiled wrapper against the interposed C API, with the field lists of
        # the last successful translation (the C structs are cross-checked against the compiler below)
        last = VERIF + "/coq/gen/Cpp_gen.v"
        if not os.path.exists(last):
            finish()
        shutil.copy(last, B + "/coq/gen/Cpp_gen.v")
    gen = read_gen(B + "/coq/gen/Cpp_gen.v")

    # 2. the constants of the real library -> capi_consts_gen.h
    cc = ["gcc", "-std=c99", "-DNDEBUG"] + inc_c + ["-I%s/reproc/src" % REPO]
    ps = [spawn(cc + ["-c", "%s/reproc/src/%s.c" % (REPO, s), "-o", "%s/%s.real.o" % (B, s)]) for s in ("reproc", "error.posix")]
    if not wait_all(ps, "real constants objects"):
        finish()
    r = run(cc + [H + "/consts_probe.c", B + "/reproc.real.o", B + "/error.posix.real.o", "-no-pie",
                  "-Wl,--unresolved-symbols=ignore-all", "-o", B + "/consts_probe"])
    r2 = run([B + "/consts_probe"]) if r.returncode == 0 else r
    if r.returncode != 0 or r2.returncode != 0:
        fail("build", "C19/build/consts-probe", "cannot read the C constants", {"output": (r.stdout + r2.stdout)[-2000:]})
        finish()
    open(B + "/capi_consts_gen.h", "w").write(r2.stdout)

    # 3. everything else in parallel: wrapper + interposer + driver, the probes, the Coq files
    open(B + "/order_probe.c", "w").write(order_probe_source(
        [(n, gen["c_%s_fields" % n]) for n in ("reproc_options", "reproc_redirect", "reproc_stop_actions", "reproc_stop_action")]))
    open(B + "/enum_probe.cpp", "w").write(enum_probe_source(gen))
    for n in ("reproc_options", "reproc_redirect", "reproc_stop_actions", "reproc_stop_action"):
        open(B + "/excess_%s.c" % n, "w").write(excess_probe_source(n, gen["c_%s_fields" % n]))
    shutil.copy(VERIF + "/coq/Cpp.v", B + "/coq/Cpp.v")
    ps = [
        spawn(["gcc", "-std=c99", "-g", "-O0"] + SAN + inc_c + ["-I" + B, "-I" + H, "-c", H + "/capi_interpose.c", "-o", B + "/capi.o"]),
        spawn(["g++", "-std=c++11", "-g", "-O0", "-Wall", "-Wextra"] + SAN + inc_cxx + ["-c", REPO + "/reproc++/src/reproc.cpp", "-o", B + "/reprocxx.o"]),
        spawn(["g++", "-std=c++11", "-g0", "-O0"] + SAN + inc_cxx + ["-I" + H, "-c", H + "/drive.cpp", "-o", B + "/drive.o"]),
        spawn(["gcc", "-std=c99", "-Werror"] + inc_c + [B + "/order_probe.c", "-o", B + "/order_probe"]),
        spawn(["g++", "-std=c++11"] + inc_cxx + ["-c", B + "/enum_probe.cpp", "-o", B + "/enum_probe.o"]),
    ]
    coq = spawn(["sh", "-c", "timeout 300 coqc -Q . Verif gen/Cpp_gen.v && timeout 300 coqc -Q . Verif Cpp.v"], cwd=B + "/coq")
    excess = [(n, spawn(["gcc", "-std=c99", "-Werror"] + inc_c + ["-c", B + "/excess_%s.c" % n, "-o", B + "/excess_%s.o" % n]))
              for n in ("reproc_options", "reproc_redirect", "reproc_stop_actions", "reproc_stop_action")]
    built = wait_all(ps, "wrapper / interposer / driver / probes")
    coq_ok = wait_all([coq], "coqc Cpp_gen.v Cpp.v")
    for n, (cmd, p) in excess:
        out, _ = p.communicate()
        if p.returncode == 0:
            fail("diff", "C19/translator:field-order",
                 "struct %s accepts one more positional initialiser than the generated leaf list has fields" % n,
                 {"struct": n, "generated_leaves": [a for a, _ in gen["c_%s_fields" % n]]})
    if not built:
        finish()

    # 4. translator cross-check: field order and enumerator values as the compilers see them
    r = run([B + "/order_probe"])
    if r.returncode != 0 or "DONE 0" not in r.stdout:
        fail("diff", "C19/translator:field-order", "generated leaf order of a C struct differs from the compiled struct",
             {"output": r.stdout[-3000:]})
    r = run(["g++", B + "/enum_probe.o", "-o", B + "/enum_probe"])
    r = run([B + "/enum_probe"]) if r.returncode == 0 else r
    if r.returncode != 0:
        fail("build", "C19/build/enum-probe", "enum probe failed", {"output": r.stdout[-2000:]})
    else:
        seen = {}
        for line in r.stdout.split("\n"):
            w = line.split()
            if len(w) == 3:
                seen[(w[0], w[1])] = int(w[2])
        for ename, enumerators in gen["cpp_enums"]:
            for n, v in enumerators:
                if seen.get(("CPP", "%s::%s" % (ename, n))) != v:
                    fail("diff", "C19/translator:enum-value:%s::%s" % (ename, n), "generated C++ enumerator value differs from the compiled one",
                         {"generated": v, "compiled": seen.get(("CPP", "%s::%s" % (ename, n)))})
        for n, v in gen["c_enumerators"]:
            if seen.get(("C", n)) != v:
                fail("diff", "C19/translator:enum-value:%s" % n, "generated C enumerator value differs from the compiled one",
                     {"generated": v, "compiled": seen.get(("C", n))})

    # 5. run the driver (the monitors)
    r = run(["g++"] + SAN + [B + "/drive.o", B + "/reprocxx.o", B + "/capi.o", "-o", B + "/drive"])
    if r.returncode != 0:
        fail("build", "C19/build/link", "cannot link the wrapper against the interposed C API", {"output": r.stdout[-3000:]})
        finish()
    env = dict(os.environ, ASAN_OPTIONS="detect_leaks=0:abort_on_error=0", UBSAN_OPTIONS="print_stacktrace=1")
    t1 = time.time()
    r = run([B + "/drive", tier, seed, B + "/drive.json"], env=env)
    drive_s = round(time.time() - t1, 2)
    if r.returncode != 0:
        san = re.search(r"ERROR: AddressSanitizer: ([\w-]+)", r.stdout)
        in_conv = re.search(r"reproc::(arguments|env)::from|reproc::detail::array::", r.stdout)
        if san and in_conv:
            # a memory error inside the container -> array conversion of the wrapper: a certain violation
            fail("monitor", "C19/array-conversion",
                 "AddressSanitizer: %s inside the wrapper's container conversion" % san.group(1),
                 {"rerun": "REPO=%s harness/ties/C19.sh %s %s out.json" % (REPO, tier, seed),
                  "report": r.stdout[r.stdout.index("ERROR: AddressSanitizer"):][:4000]})
        else:
            fail("build", "C19/build/driver-run", "the driver crashed (sanitizer report or abort)",
                 {"status": r.returncode, "output": r.stdout[-4000:]})
        finish()
    drive = json.load(open(B + "/drive.json"))

    # 6. constants as compiled vs generated
    for n, v in gen["c_constants"]:
        if drive["observed_enums"].get(n, v) != v:
            fail("diff", "C19/translator:constant:%s" % n, "generated C constant differs from the linked one",
                 {"generated": v, "compiled": drive["observed_enums"].get(n)})

    # 7. the driver's handwritten field lists must cover the generated ones
    gen_c = [a for a, _ in gen["c_reproc_options_fields"]]
    gen_cpp = [a for a, _ in gen["cpp_options_fields"]]
    if drive["driver_c_fields"] != gen_c:
        fail("diff", "C19/translator:field-list", "C leaf fields of reproc_options: generated list differs from the driver's",
             {"generated": gen_c, "driver": drive["driver_c_fields"]})
    if drive["driver_cpp_fields"] != gen_cpp:
        fail("diff", "C19/translator:field-list", "fields of struct options: generated list differs from the driver's",
             {"generated": gen_cpp, "driver": drive["driver_cpp_fields"]})

    # 8. the Coq side: the initialiser table read through Cpp.resolve, and the error_code_from model
    extra = {"drive_seconds": drive_s}
    if coq_ok:
        rs = [row[0] for row in drive["observed_error_codes"]]
        open(B + "/coq/Eval.v", "w").write(
            "From Coq Require Import ZArith List String.\nFrom Verif Require Import Cpp_gen Cpp.\nImport ListNotations.\n"
            "Local Open Scope string_scope.\n"
            "Eval vm_compute in (map (fun l => match strip_prefix \"options.\" l with Some e => (\"F\", fst (resolve e)) | None => (\"P\", l) end) reproc_options_from_init).\n"
            "Local Open Scope Z_scope.\n"
            "Eval vm_compute in (error_code_table [%s]).\n" % "; ".join("(%d)" % x for x in rs))
        r = run(["timeout", "300", "coqc", "-Q", ".", "Verif", "Eval.v"], cwd=B + "/coq")
        if r.returncode != 0:
            fail("build", "C19/build/coq-eval", "cannot evaluate the Coq model", {"output": r.stdout[-3000:]})
        else:
            blocks = re.split(r"^\s*= ", r.stdout, flags=re.M)[1:]
            srcs = re.findall(r'\(\s*"([FP])",\s*"([^"]*)"\s*\)', blocks[0])
            nums = [int(x) for x in re.findall(r"-?\d+", blocks[1].rsplit(":", 1)[0])]
            model = {nums[i]: (nums[i + 1], nums[i + 2]) for i in range(0, len(nums) - 2, 3)}
            ndiff = 0
            for row in drive["observed_error_codes"]:
                if model.get(row[0]) != (row[1], row[2]):
                    ndiff += 1
                    if ndiff <= 3:
                        fail("diff", "C19/error-code", "Coq model of error_code_from differs from the compiled function",
                             {"r": row[0], "model_(category,value)": model.get(row[0]), "compiled_(category,value)": row[1:],
                              "category_codes": {"0": "system", "1": "generic", "2": "other"}})
            extra["model_error_code_rows_compared"] = len(rs)
            # initialiser flow
            want, want_fork = {}, set()
            if len(srcs) != len(gen_c):
                fail("diff", "C19/translator:initialiser-flow", "initialiser and struct have different numbers of leaves (also refutes C19_options_positional)",
                     {"initialiser_leaves": len(srcs), "struct_leaves": len(gen_c)})
            for (kind, src), cf in zip(srcs, gen_c):
                if kind == "F":
                    want.setdefault(src, set()).add(cf)
                else:
                    want_fork.add(cf)
            for f in drive["driver_cpp_fields"]:
                obs = set(drive["observed_flow"].get(f, []))
                if obs != want.get(f, set()):
                    fail("diff", "C19/translator:initialiser-flow",
                         "setting C++ field `%s` moved other C fields than the generated initialiser table says" % f,
                         {"cpp_field": f, "table": sorted(want.get(f, set())), "observed": sorted(obs)})
            if set(drive["observed_fork_flow"]) != want_fork:
                fail("diff", "C19/translator:initialiser-flow", "fork() vs start() differ in other C fields than the table's parameter leaves",
                     {"table": sorted(want_fork), "observed": drive["observed_fork_flow"]})
            extra["initialiser_flow_fields_compared"] = len(drive["driver_cpp_fields"])
    extra["translator_checks"] = "field-order(4 structs, exact count), enum values(%d C++ + %d C), constants(%d), initialiser flow" % (
        sum(len(e) for _, e in gen["cpp_enums"]), len(gen["c_enumerators"]), len(gen["c_constants"]))
    for k in ("observed_flow", "observed_fork_flow", "observed_enums", "observed_error_codes", "driver_c_fields", "driver_cpp_fields"):
        drive.pop(k, None)
    finish(drive, extra)


if __name__ == "__main__":
    if len(sys.argv) != 4:
        print("usage: tie.py <quick|thorough> <seed> <out.json>")
        sys.exit(2)
    main()
