// drive.cpp -- C19 correspondence driver: the compiled C++ wrapper ($REPO/reproc++/src/reproc.cpp
// and headers, g++ -std=c++11) running against the interposed C API (capi_interpose.c).
//
//   drive <quick|thorough> <seed> <out.json>
//
// Families of cases (each evaluation is one wrapper call whose effect on the C API is checked):
//   options  every C++ options field, one at a time (boundary + random values) and all together,
//            through start() and fork(); oracle: the same-named C field receives the same value
//   clone    options::clone preserves every field
//   arrays   arguments / env built from containers become exact NULL-terminated arrays of
//            NUL-terminated strings
//   enums    enumerators and constants equal their C namesakes
//   methods  every wrapper method x scripted C return values; arguments are forwarded, the result
//            is returned, negative -> error equivalent to the C error, non-negative -> success
//   drain/run templates instantiated on scripted poll/read sequences
// Output: a JSON object with the fields of harness/PROTOCOL.md plus `observed_*` facts the tie
// script compares with the regenerated tables (translator cross-check) and the Coq model.
#include <array>
#include <cerrno>
#include <cstring>
#include <deque>
#include <fstream>
#include <iostream>
#include <list>
#include <map>
#include <set>
#include <unordered_map>

#include <reproc++/drain.hpp>
#include <reproc++/reproc.hpp>
#include <reproc++/run.hpp>

#include "capi_interpose.h"
#include "drive_options.hpp"
#include "drive_util.hpp"

using du::jarr;
using du::jbool;
using du::jnum;
using du::jobj;
using du::jptr;
using du::jstr;
using du::junum;

static du::report rep;
static bool thorough = false;

static const capi_call *find_call(int fn, size_t nth = 0)
{
  for (size_t i = 0; i < capi_log_len; i++) {
    if (capi_log[i].fn == fn) {
      if (nth == 0) return &capi_log[i];
      nth--;
    }
  }
  return nullptr;
}

static size_t count_calls(int fn)
{
  size_t n = 0;
  for (size_t i = 0; i < capi_log_len; i++) n += capi_log[i].fn == fn;
  return n;
}

static std::string strv_json(const capi_strv &v)
{
  if (v.is_null) return "\"NULL\"";
  jarr a;
  for (size_t i = 0; i < v.n; i++) a.add(jstr(std::string(v.items[i], v.lens[i])));
  return a.str();
}

// ------------------------------------------------------------------------------------ options

static std::map<std::string, std::set<std::string>> observed_flow; // C++ field -> C fields it moved
static std::set<std::string> observed_fork_flow;                   // C fields that differ fork() vs start()

// returns the received view (empty on structural failure)
static dopt::view run_options_case(const std::vector<dopt::setting> &settings, bool use_fork, const char *family)
{
  reproc::options o;
  jobj set;
  uint64_t h = du::hstr(use_fork ? 2 : 1, family);
  for (const auto &s : settings) {
    s.apply(o);
    set.add(s.cpp_field, s.shown);
    h = du::hstr(du::hstr(h, s.cpp_field), s.shown);
  }
  dopt::view want = dopt::c_default(use_fork);
  for (const auto &s : settings) dopt::overlay(want, s.expect);

  std::vector<std::string> args = { "prog", "an argument" };
  dopt::view got;
  {
    reproc::process p;
    capi_reset();
    capi_script(CAPI_START, use_fork ? 1 : 0);
    if (use_fork) p.fork(o); else p.start(args, o);
    rep.evaluations++;
    rep.count(std::string("options/") + family + (use_fork ? "/fork" : "/start"));
    if (!settings.empty()) rep.nontrivial(h);
    const capi_call *c = find_call(CAPI_START);
    jobj replay;
    replay.add("method", jstr(use_fork ? "process::fork" : "process::start")).add("set", set.str());
    if (c == nullptr || count_calls(CAPI_START) != 1) {
      rep.fail("monitor", "C19/field-mismatch:*", "wrapper did not call reproc_start exactly once", replay.str());
      return got;
    }
    got = dopt::c_view(c->options);
    jobj exp;
    std::vector<std::string> bad;
    for (size_t i = 0; i < want.size(); i++) {
      if (i >= got.size() || got[i].first != want[i].first || got[i].second != want[i].second) {
        bad.push_back(want[i].first);
        exp.add(want[i].first, want[i].second);
      }
    }
    replay.add("expected", exp.str()).add("received", dopt::view_json(got));
    replay.add("received_argv", strv_json(c->argv));
    for (const auto &f : bad) {
      bool was_set = false;
      for (const auto &s : settings) for (const auto &e : s.expect) was_set = was_set || e.first == f;
      rep.fail("monitor", "C19/field-mismatch:" + f,
               "C field `" + f + "` did not receive the value of the same-named C++ option", replay.str(),
               std::string(use_fork ? "fork" : "start") + (was_set ? "/set" : "/unset") + (settings.size() > 1 ? "/many" : "/one"));
    }
    // argv: start passes arguments.data(), fork passes NULL
    bool argv_ok = use_fork ? c->argv.is_null
                            : (!c->argv.is_null && c->argv.n == 2 && args[0] == c->argv.items[0] && args[1] == c->argv.items[1]);
    if (!argv_ok)
      rep.fail("monitor", "C19/array-conversion", "argv received by reproc_start is not the arguments given", replay.str());
    if (settings.size() == 1) rep.sample(replay.str(), 4);
  }
  return got;
}

static void family_options(du::rng &rng)
{
  auto fs = dopt::fields();
  rep.count("options/cpp_fields", static_cast<long>(fs.size()));
  // baseline: default options
  dopt::view base_start = run_options_case({}, false, "default");
  dopt::view base_fork = run_options_case({}, true, "default");
  for (size_t i = 0; i < base_start.size() && i < base_fork.size(); i++)
    if (base_start[i].second != base_fork[i].second) observed_fork_flow.insert(base_start[i].first);

  int nrand = thorough ? 200 : 12;
  for (const auto &f : fs) {
    for (int v = 0; v < f.boundary + nrand; v++) {
      for (int m = 0; m < 2; m++) {
        dopt::setting s = f.make(rng, v);
        dopt::view got = run_options_case({ s }, m == 1, "single");
        // which C fields moved relative to the baseline (only for settings that are not the default)
        const dopt::view &base = m == 1 ? base_fork : base_start;
        std::set<std::string> &flow = observed_flow[f.cpp];
        for (size_t i = 0; i < got.size() && i < base.size(); i++)
          if (got[i].second != base[i].second) flow.insert(got[i].first);
      }
    }
  }
  long nall = thorough ? 60000 : 1500;
  for (long n = 0; n < nall; n++) {
    std::vector<dopt::setting> ss;
    for (const auto &f : fs) {
      if (rng.below(4) == 0) continue;
      int v = rng.coin() ? static_cast<int>(rng.below(static_cast<uint64_t>(f.boundary))) : f.boundary + 1;
      ss.push_back(f.make(rng, v));
    }
    run_options_case(ss, rng.coin(), "all");
  }
}

// ------------------------------------------------------------------------------------ clone

static void clone_case(const std::vector<dopt::setting> &settings, const char *family)
{
  reproc::options o;
  jobj set;
  uint64_t h = du::hstr(3, family);
  for (const auto &s : settings) {
    s.apply(o);
    set.add(s.cpp_field, s.shown);
    h = du::hstr(du::hstr(h, s.cpp_field), s.shown);
  }
  reproc::options c = reproc::options::clone(o);
  rep.evaluations++;
  rep.count(std::string("clone/") + family);
  rep.nontrivial(h);
  dopt::view a = dopt::cpp_view(o), b = dopt::cpp_view(c);
  jobj replay;
  replay.add("method", jstr("options::clone")).add("set", set.str());
  replay.add("original", dopt::view_json(a)).add("clone", dopt::view_json(b));
  for (size_t i = 0; i < a.size(); i++)
    if (a[i].second != b[i].second)
      rep.fail("monitor", "C19/clone-drops:" + a[i].first,
               "options::clone does not preserve `" + a[i].first + "`", replay.str());
}

static void family_clone(du::rng &rng)
{
  auto fs = dopt::fields();
  clone_case({}, "default");
  int nrand = thorough ? 100 : 6;
  for (const auto &f : fs)
    for (int v = 0; v < f.boundary + nrand; v++) clone_case({ f.make(rng, v) }, "single");
  long nall = thorough ? 30000 : 800;
  for (long n = 0; n < nall; n++) {
    std::vector<dopt::setting> ss;
    for (const auto &f : fs) {
      if (rng.below(4) == 0) continue;
      ss.push_back(f.make(rng, rng.coin() ? static_cast<int>(rng.below(static_cast<uint64_t>(f.boundary))) : f.boundary + 1));
    }
    clone_case(ss, "all");
  }
}

// ------------------------------------------------------------------------------------ arrays

static std::string random_string(du::rng &rng)
{
  static const char *const special[] = { "", " ", "a=b", "=", "\xff\xfe", "\x01", "--flag=value", "\"quoted\"",
                                          "back\\slash", "tab\tnew\nline", "\xc3\xa9\xe2\x82\xac", "=leading", "trailing=" };
  uint64_t k = rng.below(10);
  if (k < 3) return special[rng.below(sizeof special / sizeof *special)];
  size_t len = k < 8 ? rng.below(12) : k == 8 ? 40 + rng.below(200) : 1000 + rng.below(3000);
  std::string s;
  for (size_t i = 0; i < len; i++) s += static_cast<char>(1 + rng.below(255)); // every byte except NUL
  return s;
}

static bool strv_equals(const capi_strv &got, const std::vector<std::string> &want)
{
  if (got.is_null || got.n != want.size()) return false;
  for (size_t i = 0; i < want.size(); i++)
    if (got.lens[i] != want[i].size() || std::memcmp(got.items[i], want[i].data(), want[i].size()) != 0) return false;
  return got.items[got.n] == nullptr;
}

static void check_array(const char *what, const std::string &container, const capi_strv *got,
                        const std::vector<std::string> &want, bool want_same_pointer, const void *orig)
{
  rep.evaluations++;
  rep.count(std::string("arrays/") + what + "/" + container);
  uint64_t h = du::hstr(du::hstr(4, what), container);
  for (const auto &s : want) h = du::hstr(h, s);
  if (!want.empty()) rep.nontrivial(h);
  rep.count("arrays/strings", static_cast<long>(want.size()));
  bool ok = got != nullptr && strv_equals(*got, want);
  if (ok && want_same_pointer) ok = got->orig == orig;
  jobj replay;
  replay.add("what", jstr(what)).add("container", jstr(container)).add("given", du::jstrs(want));
  replay.add("received", got ? strv_json(*got) : "\"no reproc_start call\"");
  if (want_same_pointer) replay.add("pointer_given", jptr(orig)).add("pointer_received", got ? jptr(got->orig) : "null");
  if (!ok)
    rep.fail("monitor", "C19/array-conversion",
             std::string(what) + " from " + container + " is not the exact NULL-terminated array of NUL-terminated strings",
             replay.str());
  if (want.size() >= 2) rep.sample(replay.str(), 6);
}

template <typename Args>
static void args_case(const std::string &container, const Args &a)
{
  std::vector<std::string> want;
  for (const auto &s : a) want.push_back(std::string(s.data(), s.size()));
  reproc::process p;
  capi_reset();
  p.start(a);
  const capi_call *c = find_call(CAPI_START);
  check_array("arguments", container, c ? &c->argv : nullptr, want, false, nullptr);
}

template <typename Env>
static void env_case(const std::string &container, const Env &e)
{
  std::vector<std::string> want;
  for (const auto &kv : e) want.push_back(std::string(kv.first) + "=" + std::string(kv.second));
  reproc::options o;
  o.env.extra = reproc::env(e);
  o.env.behavior = reproc::env::empty;
  reproc::process p;
  capi_reset();
  p.start(std::vector<std::string>{ "prog" }, o);
  const capi_call *c = find_call(CAPI_START);
  check_array("env.extra", container, c ? &c->env_extra : nullptr, want, false, nullptr);
  // the same environment through options::clone (shallow: same array)
  reproc::options cl = reproc::options::clone(o);
  capi_reset();
  p.start(std::vector<std::string>{ "prog" }, cl);
  c = find_call(CAPI_START);
  check_array("env.extra", container + " via clone", c ? &c->env_extra : nullptr, want, true, o.env.extra.data());
}

static void family_arrays(du::rng &rng)
{
  long n = thorough ? 5000 : 400;
  for (long it = 0; it < n; it++) {
    size_t len = it < 4 ? static_cast<size_t>(it) : rng.below(9);
    std::vector<std::string> v;
    for (size_t i = 0; i < len; i++) v.push_back(random_string(rng));
    args_case("std::vector<std::string>", v);
    args_case("std::list<std::string>", std::list<std::string>(v.begin(), v.end()));
    args_case("std::deque<std::string>", std::deque<std::string>(v.begin(), v.end()));
    args_case("std::set<std::string>", std::set<std::string>(v.begin(), v.end()));
    if (len == 3) {
      std::array<std::string, 3> a = { { v[0], v[1], v[2] } };
      args_case("std::array<std::string, 3>", a);
      std::initializer_list<std::string> il = { v[0], v[1], v[2] };
      args_case("std::initializer_list<std::string>", il);
    }
    if (len == 0) args_case("std::array<std::string, 0>", std::array<std::string, 0>());

    std::vector<std::pair<std::string, std::string>> e;
    for (size_t i = 0; i < len; i++) e.push_back({ random_string(rng), random_string(rng) });
    env_case("std::vector<std::pair<std::string, std::string>>", e);
    env_case("std::map<std::string, std::string>", std::map<std::string, std::string>(e.begin(), e.end()));
    env_case("std::unordered_map<std::string, std::string>", std::unordered_map<std::string, std::string>(e.begin(), e.end()));
    env_case("std::multimap<std::string, std::string>", std::multimap<std::string, std::string>(e.begin(), e.end()));
    env_case("std::list<std::pair<std::string, std::string>>", std::list<std::pair<std::string, std::string>>(e.begin(), e.end()));
    if (len == 2) {
      std::array<std::pair<std::string, std::string>, 2> a = { { e[0], e[1] } };
      env_case("std::array<std::pair<std::string, std::string>, 2>", a);
    }
  }
  // raw pointers are passed through untouched
  {
    const char *raw[] = { "prog", "", "\xff", nullptr };
    reproc::process p;
    capi_reset();
    p.start(raw);
    const capi_call *c = find_call(CAPI_START);
    check_array("arguments", "const char *[]", c ? &c->argv : nullptr, { "prog", "", "\xff" }, true, raw);
    char a0[] = "prog", a1[] = "x";
    char *mraw[] = { a0, a1, nullptr };
    capi_reset();
    p.start(mraw);
    c = find_call(CAPI_START);
    check_array("arguments", "char *[]", c ? &c->argv : nullptr, { "prog", "x" }, true, mraw);
    const char *envp[] = { "K=V", "", nullptr };
    reproc::options o;
    o.env.extra = envp;
    capi_reset();
    p.start(raw, o);
    c = find_call(CAPI_START);
    check_array("env.extra", "const char *[]", c ? &c->env_extra : nullptr, { "K=V", "" }, true, envp);
  }
  // no environment given: the C layer must see NULL
  {
    reproc::process p;
    capi_reset();
    p.start(std::vector<std::string>{ "prog" });
    const capi_call *c = find_call(CAPI_START);
    rep.evaluations++;
    if (c == nullptr || !c->env_extra.is_null)
      rep.fail("monitor", "C19/array-conversion", "default env.extra is not NULL at the C layer", "{}");
  }
}

// ------------------------------------------------------------------------------------ enums

static jobj observed_enums; // name -> value, as the compiled code sees them (for the translator check)

static void enum_check(const std::string &cpp_name, long long cpp_value, const std::string &c_name, long long c_value)
{
  rep.evaluations++;
  rep.count("enums/pairs");
  rep.nontrivial(du::hstr(5, cpp_name));
  observed_enums.add(cpp_name, jnum(cpp_value));
  observed_enums.add(c_name, jnum(c_value));
  if (cpp_value != c_value) {
    jobj r;
    r.add("cpp", jstr(cpp_name)).add("cpp_value", jnum(cpp_value)).add("c", jstr(c_name)).add("c_value", jnum(c_value));
    rep.fail("monitor", "C19/enum-mismatch:" + cpp_name, cpp_name + " differs from " + c_name, r.str());
  }
}

static void family_enums()
{
#define E(CPP, C) enum_check(#CPP, static_cast<long long>(reproc::CPP), #C, static_cast<long long>(C))
  E(stop::noop, REPROC_STOP_NOOP); E(stop::wait, REPROC_STOP_WAIT);
  E(stop::terminate, REPROC_STOP_TERMINATE); E(stop::kill, REPROC_STOP_KILL);
  E(redirect::default_, REPROC_REDIRECT_DEFAULT); E(redirect::pipe, REPROC_REDIRECT_PIPE);
  E(redirect::parent, REPROC_REDIRECT_PARENT); E(redirect::discard, REPROC_REDIRECT_DISCARD);
  E(redirect::stdout_, REPROC_REDIRECT_STDOUT); E(redirect::handle_, REPROC_REDIRECT_HANDLE);
  E(redirect::file_, REPROC_REDIRECT_FILE); E(redirect::path_, REPROC_REDIRECT_PATH);
  E(env::extend, REPROC_ENV_EXTEND); E(env::empty, REPROC_ENV_EMPTY);
  E(stream::in, REPROC_STREAM_IN); E(stream::out, REPROC_STREAM_OUT); E(stream::err, REPROC_STREAM_ERR);
  E(event::in, REPROC_EVENT_IN); E(event::out, REPROC_EVENT_OUT); E(event::err, REPROC_EVENT_ERR);
  E(event::exit, REPROC_EVENT_EXIT); E(event::deadline, REPROC_EVENT_DEADLINE);
  E(signal::kill, REPROC_SIGKILL); E(signal::terminate, REPROC_SIGTERM);
#undef E
  enum_check("infinite", reproc::infinite.count(), "REPROC_INFINITE", REPROC_INFINITE);
  enum_check("deadline", reproc::deadline.count(), "REPROC_DEADLINE", REPROC_DEADLINE);
}

// ------------------------------------------------------------------------------------ methods

static jarr observed_error_codes; // [r, category, value] as produced by the compiled error_code_from

static int category_code(const std::error_code &ec)
{
  if (ec.category() == std::system_category()) return 0;
  if (ec.category() == std::generic_category()) return 1;
  return 2;
}

// the oracle: negative -> an error equivalent to the C error; non-negative -> success
static std::string ec_problem(int r, const std::error_code &ec)
{
  if (r >= 0) {
    if (ec) return "non-negative result turned into an error";
    if (ec != std::error_code()) return "success is not the default error_code";
    return "";
  }
  if (!ec) return "negative result turned into success";
  if (ec.value() != -r) return "error value is not -r";
  std::error_code plain(-r, std::system_category());
  if (ec.default_error_condition() != plain.default_error_condition()) return "error is not equivalent to system error -r";
  if (r != REPROC_EPIPE && ec != plain) return "error is not (-r, system_category)";
  struct { int c; std::errc e; } named[] = {
    { REPROC_EINVAL, std::errc::invalid_argument }, { REPROC_ETIMEDOUT, std::errc::timed_out },
    { REPROC_EPIPE, std::errc::broken_pipe }, { REPROC_ENOMEM, std::errc::not_enough_memory },
    { REPROC_EWOULDBLOCK, std::errc::operation_would_block } };
  for (const auto &n : named)
    if (r == n.c && ec != n.e) return "named error is not equal to its std::errc namesake";
  return "";
}

static std::string ec_json(const std::error_code &ec)
{
  jobj o;
  o.add("value", jnum(ec.value())).add("category", jstr(ec.category().name()));
  return o.str();
}

struct method_result {
  std::string problem;   // empty when everything the method did matches the oracle
  std::string key;       // failure key to use when problem is not empty
  std::string detail;    // JSON
};

static void method_report(const std::string &method, int r, const std::string &args, const method_result &m)
{
  rep.evaluations++;
  rep.count("methods/" + method);
  if (r != 0) rep.nontrivial(du::hmix(du::hstr(6, method), static_cast<uint64_t>(static_cast<int64_t>(r))));
  if (!m.problem.empty()) {
    jobj o;
    o.add("method", jstr(method)).add("c_result", jnum(r)).add("arguments", args).add("observed", m.detail.empty() ? std::string("null") : m.detail);
    rep.fail("monitor", m.key, method + ": " + m.problem, o.str());
  }
}

static const uint8_t wbuf[16] = { 9, 8, 7, 6, 5, 4, 3, 2, 1, 0, 255, 254, 253, 252, 251, 250 };

static void methods_for_result(du::rng &rng, int r)
{
  std::vector<std::string> args = { "prog" };
  const std::string EC = "C19/error-code";
#define CHECK_EC(ec) do { std::string p_ = ec_problem(r, ec); if (!p_.empty() && m.problem.empty()) { m.problem = p_; m.key = EC; } m.detail = ec_json(ec); } while (0)
#define REQUIRE(cond, k, text) do { if (!(cond) && m.problem.empty()) { m.problem = text; m.key = k; } } while (0)
  { // start
    reproc::process p; capi_reset(); capi_script(CAPI_START, r); method_result m;
    std::error_code ec = p.start(args); CHECK_EC(ec);
    REQUIRE(count_calls(CAPI_START) == 1, EC, "reproc_start not called exactly once");
    method_report("process::start", r, "{}", m);
  }
  { // fork
    reproc::process p; capi_reset(); capi_script(CAPI_START, r); method_result m;
    std::pair<bool, std::error_code> x = p.fork(); CHECK_EC(x.second);
    REQUIRE(x.first == (r == 0), EC, "fork().first is not (r == 0)");
    method_report("process::fork", r, "{}", m);
  }
  { // pid (also yields the reproc_t of this process, and the error-code table for the model)
    reproc::process p; capi_reset(); capi_script(CAPI_PID, r); method_result m;
    std::pair<int, std::error_code> x = p.pid(); CHECK_EC(x.second);
    REQUIRE(x.first == r, EC, "pid().first is not the C result");
    method_report("process::pid", r, "{}", m);
    jarr row; row.add(jnum(r)).add(jnum(category_code(x.second))).add(jnum(x.second.value()));
    observed_error_codes.add(row.str());
  }
  for (int si = 0; si < 3; si++) { // read / close on every stream
    reproc::stream s = si == 0 ? reproc::stream::in : si == 1 ? reproc::stream::out : reproc::stream::err;
    const char *sname = si == 0 ? "stream::in" : si == 1 ? "stream::out" : "stream::err";
    {
      reproc::process p; capi_reset(); capi_script(CAPI_READ, r); method_result m;
      uint8_t buf[64]; std::memset(buf, 0xEE, sizeof buf);
      size_t size = rng.below(sizeof buf + 1);
      std::pair<size_t, std::error_code> x = p.read(s, buf, size); CHECK_EC(x.second);
      REQUIRE(x.first == static_cast<size_t>(r), EC, "read().first is not the C result");
      const capi_call *c = find_call(CAPI_READ);
      REQUIRE(c != nullptr, EC, "reproc_read not called");
      if (c) {
        REQUIRE(c->stream == dopt::c_stream(s), std::string("C19/enum-mismatch:") + sname, "stream not forwarded as its C namesake");
        REQUIRE(c->buffer == buf, "C19/field-mismatch:reproc_read.buffer", "buffer not forwarded");
        REQUIRE(c->size == size, "C19/field-mismatch:reproc_read.size", "size not forwarded");
        if (r > 0) for (size_t i = 0; i < size && i < static_cast<size_t>(r); i++)
          REQUIRE(buf[i] == capi_read_byte(r, i), "C19/field-mismatch:reproc_read.buffer", "bytes read are not in the caller's buffer");
      }
      jobj a; a.add("stream", jstr(sname)).add("size", junum(size));
      method_report("process::read", r, a.str(), m);
    }
    {
      reproc::process p; capi_reset(); capi_script(CAPI_CLOSE, r); method_result m;
      std::error_code ec = p.close(s); CHECK_EC(ec);
      const capi_call *c = find_call(CAPI_CLOSE);
      REQUIRE(c != nullptr, EC, "reproc_close not called");
      if (c) REQUIRE(c->stream == dopt::c_stream(s), std::string("C19/enum-mismatch:") + sname, "stream not forwarded as its C namesake");
      jobj a; a.add("stream", jstr(sname));
      method_report("process::close", r, a.str(), m);
    }
  }
  { // write
    reproc::process p; capi_reset(); capi_script(CAPI_WRITE, r); method_result m;
    size_t size = rng.below(sizeof wbuf + 1);
    std::pair<size_t, std::error_code> x = p.write(wbuf, size); CHECK_EC(x.second);
    REQUIRE(x.first == static_cast<size_t>(r), EC, "write().first is not the C result");
    const capi_call *c = find_call(CAPI_WRITE);
    REQUIRE(c != nullptr, EC, "reproc_write not called");
    if (c) {
      REQUIRE(c->buffer == wbuf, "C19/field-mismatch:reproc_write.buffer", "buffer not forwarded");
      REQUIRE(c->size == size, "C19/field-mismatch:reproc_write.size", "size not forwarded");
    }
    jobj a; a.add("size", junum(size));
    method_report("process::write", r, a.str(), m);
  }
  { // wait
    reproc::process p; capi_reset(); capi_script(CAPI_WAIT, r); method_result m;
    int t = dopt::pick_int(rng, static_cast<int>(rng.below(9)));
    std::pair<int, std::error_code> x = p.wait(reproc::milliseconds(t)); CHECK_EC(x.second);
    REQUIRE(x.first == r, EC, "wait().first is not the C result");
    const capi_call *c = find_call(CAPI_WAIT);
    REQUIRE(c != nullptr && c->timeout == t, "C19/field-mismatch:reproc_wait.timeout", "timeout not forwarded in milliseconds");
    jobj a; a.add("timeout_ms", jnum(t));
    method_report("process::wait", r, a.str(), m);
  }
  { // wait with the two special constants
    reproc::process p; capi_reset(); capi_script(CAPI_WAIT, r); method_result m;
    p.wait(reproc::infinite); p.wait(reproc::deadline);
    const capi_call *c0 = find_call(CAPI_WAIT, 0), *c1 = find_call(CAPI_WAIT, 1);
    REQUIRE(c0 && c0->timeout == REPROC_INFINITE, "C19/enum-mismatch:infinite", "reproc::infinite does not arrive as REPROC_INFINITE");
    REQUIRE(c1 && c1->timeout == REPROC_DEADLINE, "C19/enum-mismatch:deadline", "reproc::deadline does not arrive as REPROC_DEADLINE");
    method_report("process::wait(constants)", r, "{}", m);
  }
  { // terminate, kill
    reproc::process p; capi_reset(); capi_script(CAPI_TERMINATE, r); capi_script(CAPI_KILL, r); method_result m;
    std::error_code ec = p.terminate(); CHECK_EC(ec);
    REQUIRE(count_calls(CAPI_TERMINATE) == 1 && count_calls(CAPI_KILL) == 0, EC, "terminate() did not call reproc_terminate");
    method_report("process::terminate", r, "{}", m);
    method_result m2; { method_result &m = m2; capi_reset(); ec = p.kill(); CHECK_EC(ec);
      REQUIRE(count_calls(CAPI_KILL) == 1 && count_calls(CAPI_TERMINATE) == 0, EC, "kill() did not call reproc_kill"); }
    method_report("process::kill", r, "{}", m2);
  }
  { // stop: the three actions arrive field by field
    reproc::process p; capi_reset(); capi_script(CAPI_STOP, r); method_result m;
    size_t ai[3]; int t[3];
    for (int i = 0; i < 3; i++) { ai[i] = rng.below(4); t[i] = dopt::pick_int(rng, static_cast<int>(rng.below(9))); }
    reproc::stop_actions sa = { { dopt::all_stop[ai[0]], reproc::milliseconds(t[0]) },
                                { dopt::all_stop[ai[1]], reproc::milliseconds(t[1]) },
                                { dopt::all_stop[ai[2]], reproc::milliseconds(t[2]) } };
    std::pair<int, std::error_code> x = p.stop(sa); CHECK_EC(x.second);
    REQUIRE(x.first == r, EC, "stop().first is not the C result");
    const capi_call *c = find_call(CAPI_STOP);
    REQUIRE(c != nullptr, EC, "reproc_stop not called");
    if (c) {
      const reproc_stop_action *got[3] = { &c->stop.first, &c->stop.second, &c->stop.third };
      const char *nm[3] = { "first", "second", "third" };
      for (int i = 0; i < 3; i++) {
        REQUIRE(static_cast<int>(got[i]->action) == dopt::c_stop(dopt::all_stop[ai[i]]),
                std::string("C19/field-mismatch:stop.") + nm[i] + ".action", "stop action not forwarded as its C namesake");
        REQUIRE(got[i]->timeout == t[i], std::string("C19/field-mismatch:stop.") + nm[i] + ".timeout", "stop timeout not forwarded");
      }
    }
    jobj a;
    for (int i = 0; i < 3; i++) a.add(std::string("action") + std::to_string(i), jstr(dopt::all_stop_names[ai[i]])).add(std::string("timeout") + std::to_string(i), jnum(t[i]));
    method_report("process::stop", r, a.str(), m);
  }
  { // member poll
    reproc::process p; capi_reset(); method_result m;
    p.pid(); const capi_call *cp = find_call(CAPI_PID); reproc_t *self = cp ? cp->process : nullptr;
    capi_reset(); capi_script(CAPI_POLL, r);
    int ev = static_cast<int>(rng.below(32)); capi_script_poll_events(&ev, 1);
    int interests = static_cast<int>(rng.below(32));
    int t = dopt::pick_int(rng, static_cast<int>(rng.below(9)));
    std::pair<int, std::error_code> x = p.poll(interests, reproc::milliseconds(t)); CHECK_EC(x.second);
    REQUIRE(x.first == (r >= 0 ? ev : 0), EC, "poll().first is not the events reported by reproc_poll (0 on error)");
    const capi_call *c = find_call(CAPI_POLL);
    REQUIRE(c != nullptr && c->num_sources == 1, EC, "reproc_poll not called with one source");
    if (c && c->num_sources == 1) {
      REQUIRE(c->sources[0].process == self, "C19/field-mismatch:reproc_poll.process", "process not forwarded");
      REQUIRE(c->sources[0].interests == interests, "C19/field-mismatch:reproc_poll.interests", "interests not forwarded");
      REQUIRE(c->sources[0].events == 0, "C19/field-mismatch:reproc_poll.events", "events not zeroed");
      REQUIRE(c->timeout == t, "C19/field-mismatch:reproc_poll.timeout", "timeout not forwarded");
    }
    // the process must still own its reproc_t after the round trip through event::source
    capi_reset(); p.pid(); cp = find_call(CAPI_PID);
    REQUIRE(cp && cp->process == self, EC, "process lost its reproc_t in poll()");
    jobj a; a.add("interests", jnum(interests)).add("timeout_ms", jnum(t)).add("scripted_events", jnum(ev));
    method_report("process::poll", r, a.str(), m);
  }
  { // free poll over several sources
    size_t n = 1 + rng.below(4);
    reproc::event::source src[4]; reproc_t *self[4]; method_result m;
    for (size_t i = 0; i < n; i++) {
      capi_reset(); src[i].process.pid(); const capi_call *cp = find_call(CAPI_PID); self[i] = cp ? cp->process : nullptr;
      src[i].interests = static_cast<int>(rng.below(32)); src[i].events = 0x77;
    }
    capi_reset(); capi_script(CAPI_POLL, r);
    int ev = static_cast<int>(rng.below(16)); capi_script_poll_events(&ev, 1);
    int t = dopt::pick_int(rng, static_cast<int>(rng.below(9)));
    std::error_code ec = reproc::poll(src, n, reproc::milliseconds(t)); CHECK_EC(ec);
    const capi_call *c = find_call(CAPI_POLL);
    REQUIRE(c != nullptr && c->num_sources == n, "C19/field-mismatch:reproc_poll.num_sources", "num_sources not forwarded");
    if (c && c->num_sources == n) {
      REQUIRE(c->timeout == t, "C19/field-mismatch:reproc_poll.timeout", "timeout not forwarded");
      for (size_t i = 0; i < n; i++) {
        REQUIRE(c->sources[i].process == self[i], "C19/field-mismatch:reproc_poll.process", "process not forwarded");
        REQUIRE(c->sources[i].interests == src[i].interests, "C19/field-mismatch:reproc_poll.interests", "interests not forwarded");
        REQUIRE(src[i].events == (r >= 0 ? ev + static_cast<int>(i) : 0x77), EC, "events not copied back exactly when r >= 0");
      }
    }
    jobj a; a.add("num_sources", junum(n)).add("timeout_ms", jnum(t));
    method_report("poll", r, a.str(), m);
  }
#undef CHECK_EC
#undef REQUIRE
}

static void family_methods(du::rng &rng)
{
  std::vector<int> rs = { REPROC_EINVAL, REPROC_ETIMEDOUT, REPROC_EPIPE, REPROC_ENOMEM, REPROC_EWOULDBLOCK,
                          0, 1, 2, 10, 255, 4096, 65536, INT_MAX, -INT_MAX, -65536, -100000 };
  for (int r = -4200; r <= -1; r++) rs.push_back(r);
  for (int r = 3; r <= 9; r++) rs.push_back(r);
  long nrand = thorough ? 20000 : 300;
  for (long i = 0; i < nrand; i++) {
    int r = rng.any_int();
    if (r == INT_MIN) r = -1; // -INT_MIN is undefined in the wrapper (reproc.cpp:29); no C function returns it
    rs.push_back(r);
  }
  for (int r : rs) methods_for_result(rng, r);
  rep.count("methods/results", static_cast<long>(rs.size()));
}

// ------------------------------------------------------------------------------------ drain / run

static void family_templates(du::rng &rng)
{
  // drain: poll says `out`, read gives 5 bytes; poll says `err`, read gives 3 bytes; poll -> EPIPE = done
  {
    reproc::process p; capi_reset(); capi_script_clear();
    int polls[] = { 1, 1, REPROC_EPIPE }; capi_script_seq(CAPI_POLL, polls, 3);
    int evs[] = { reproc::event::out, reproc::event::err, 0 }; capi_script_poll_events(evs, 3);
    int reads[] = { 5, 3 }; capi_script_seq(CAPI_READ, reads, 2);
    std::string out, err;
    std::error_code ec = reproc::drain(p, reproc::sink::string(out), reproc::sink::string(err));
    rep.evaluations++; rep.count("templates/drain"); rep.nontrivial(du::hstr(7, "drain-ok"));
    std::string want_out, want_err;
    for (size_t i = 0; i < 5; i++) want_out += static_cast<char>(capi_read_byte(5, i));
    for (size_t i = 0; i < 3; i++) want_err += static_cast<char>(capi_read_byte(3, i));
    const capi_call *r0 = find_call(CAPI_READ, 0), *r1 = find_call(CAPI_READ, 1);
    bool ok = !ec && out == want_out && err == want_err && r0 && r1 && r0->stream == REPROC_STREAM_OUT &&
              r1->stream == REPROC_STREAM_ERR && count_calls(CAPI_POLL) == 3;
    jobj o; o.add("template", jstr("drain")).add("ec", ec_json(ec)).add("out", jstr(out)).add("err", jstr(err));
    if (!ok) rep.fail("monitor", "C19/error-code", "drain over scripted poll/read does not deliver the bytes and succeed on EPIPE", o.str());
  }
  // drain: a read error other than EPIPE is returned
  for (int r : { REPROC_ENOMEM, REPROC_EWOULDBLOCK, REPROC_ETIMEDOUT, -1 }) {
    reproc::process p; capi_reset(); capi_script_clear();
    capi_script(CAPI_POLL, 1); int ev = reproc::event::out; capi_script_poll_events(&ev, 1);
    capi_script(CAPI_READ, r);
    std::error_code ec = reproc::drain(p, reproc::sink::null, reproc::sink::null);
    rep.evaluations++; rep.count("templates/drain"); rep.nontrivial(du::hmix(du::hstr(7, "drain-err"), static_cast<uint64_t>(static_cast<int64_t>(r))));
    std::string pr = ec_problem(r, ec);
    jobj o; o.add("template", jstr("drain")).add("read_result", jnum(r)).add("ec", ec_json(ec));
    if (!pr.empty()) rep.fail("monitor", "C19/error-code", "drain: " + pr, o.str());
  }
  // drain: an error code returned by a SINK is what drain returns -- whatever the code is, also the
  // broken-pipe code that drain itself maps to success when it comes from poll
  for (std::errc code : { std::errc::broken_pipe, std::errc::not_enough_memory, std::errc::io_error, std::errc::timed_out }) {
    for (int which = 0; which < 2; which++) {
      reproc::process p; capi_reset(); capi_script_clear();
      int polls[] = { 1, REPROC_EPIPE }; capi_script_seq(CAPI_POLL, polls, 2);
      int evs[] = { which == 0 ? reproc::event::out : reproc::event::err, 0 }; capi_script_poll_events(evs, 2);
      capi_script(CAPI_READ, 4);
      int data_calls = 0;
      auto failing = [&](reproc::stream, const uint8_t *, size_t size) -> std::error_code {
        if (size == 0) return {};
        data_calls++;
        return std::make_error_code(code);
      };
      auto quiet = [](reproc::stream, const uint8_t *, size_t) -> std::error_code { return {}; };
      std::error_code ec = which == 0 ? reproc::drain(p, failing, quiet) : reproc::drain(p, quiet, failing);
      rep.evaluations++; rep.count("templates/drain");
      rep.nontrivial(du::hmix(du::hstr(7, "drain-sink-error"), static_cast<uint64_t>(static_cast<int>(code) * 2 + which)));
      bool ok = ec == std::make_error_code(code) && data_calls == 1;
      jobj o; o.add("template", jstr("drain")).add("sink_error", jnum(static_cast<int>(code))).add("failing_sink", jnum(which)).add("ec", ec_json(ec)).add("data_calls", jnum(data_calls));
      if (!ok) rep.fail("monitor", "C19/drain-sink-error", "drain does not return the error code its sink returned (or went on after it)", o.str());
    }
  }
  // run(arguments, options): clone + redirect.parent, start, drain, stop(options.stop)
  long n = thorough ? 2000 : 60;
  auto fs = dopt::fields();
  for (long it = 0; it < n; it++) {
    std::vector<dopt::setting> ss;
    for (const auto &f : fs) {
      if (f.cpp == "redirect.parent" || f.cpp == "redirect.discard" || f.cpp == "redirect.file" || f.cpp == "redirect.path") continue;
      if (it > 0 && rng.below(3) == 0) continue;
      ss.push_back(f.make(rng, it == 0 ? 0 : (rng.coin() ? static_cast<int>(rng.below(static_cast<uint64_t>(f.boundary))) : f.boundary + 1)));
    }
    reproc::options o; jobj set;
    for (const auto &s : ss) { s.apply(o); set.add(s.cpp_field, s.shown); }
    dopt::view want = dopt::c_default(false);
    for (const auto &s : ss) dopt::overlay(want, s.expect);
    dopt::overlay(want, { { "redirect.parent", "true" } }); // run.hpp:33-36
    capi_reset(); capi_script_clear();
    int start_r = it % 5 == 4 ? REPROC_ENOMEM : 0;
    capi_script(CAPI_START, start_r); capi_script(CAPI_POLL, REPROC_EPIPE);
    int stop_r = static_cast<int>(rng.below(300)); capi_script(CAPI_STOP, stop_r);
    std::pair<int, std::error_code> x = reproc::run(std::vector<std::string>{ "prog", "x" }, o);
    rep.evaluations++; rep.count("templates/run"); rep.nontrivial(du::hmix(du::hstr(7, "run"), static_cast<uint64_t>(it)));
    const capi_call *c = find_call(CAPI_START);
    jobj replay; replay.add("method", jstr("reproc::run(arguments, options)")).add("set", set.str());
    if (c == nullptr) { rep.fail("monitor", "C19/field-mismatch:*", "run did not call reproc_start", replay.str()); continue; }
    dopt::view got = dopt::c_view(c->options);
    jobj exp; std::vector<std::string> bad;
    for (size_t i = 0; i < want.size() && i < got.size(); i++)
      if (want[i].second != got[i].second) { bad.push_back(want[i].first); exp.add(want[i].first, want[i].second); }
    replay.add("expected", exp.str()).add("received", dopt::view_json(got));
    for (const auto &f : bad)
      rep.fail("monitor", "C19/field-mismatch:" + f, "run(): C field `" + f + "` did not receive the value of the same-named C++ option", replay.str());
    bool ret_ok = start_r < 0 ? (x.first == -1 && ec_problem(start_r, x.second).empty() && count_calls(CAPI_STOP) == 0)
                              : (x.first == stop_r && !x.second && count_calls(CAPI_STOP) == 1);
    if (ret_ok && start_r >= 0) {
      const capi_call *cs = find_call(CAPI_STOP);
      dopt::view ws, gs; reproc_options tmp = {}; tmp.stop = cs->stop; gs = dopt::c_view(tmp);
      ws = dopt::c_default(false); for (const auto &s : ss) if (s.cpp_field.compare(0, 5, "stop.") == 0) dopt::overlay(ws, s.expect);
      for (size_t i = 0; i < ws.size(); i++)
        if (ws[i].first.compare(0, 5, "stop.") == 0 && ws[i].second != gs[i].second)
          rep.fail("monitor", "C19/field-mismatch:" + ws[i].first, "run(): options.stop does not reach reproc_stop", replay.str());
    }
    if (!ret_ok) {
      replay.add("start_result", jnum(start_r)).add("stop_result", jnum(stop_r)).add("returned", jnum(x.first)).add("ec", ec_json(x.second));
      rep.fail("monitor", "C19/error-code", "run() does not return the C results", replay.str());
    }
  }
  capi_script_clear();
}

// ------------------------------------------------------------------------------------ main

int main(int argc, char **argv)
{
  if (argc != 4) { std::fprintf(stderr, "usage: drive <quick|thorough> <seed> <out.json>\n"); return 2; }
  thorough = std::string(argv[1]) == "thorough";
  uint64_t seed = std::strtoull(argv[2], nullptr, 10);
  du::rng rng(seed);

  auto timed = [&](const char *name, const std::function<void()> &f) {
    auto t0 = std::chrono::steady_clock::now();
    f();
    rep.count(std::string("milliseconds/") + name,
              static_cast<long>(std::chrono::duration_cast<std::chrono::milliseconds>(std::chrono::steady_clock::now() - t0).count()));
  };
  timed("enums", [&] { family_enums(); });
  timed("options", [&] { family_options(rng); });
  timed("clone", [&] { family_clone(rng); });
  timed("arrays", [&] { family_arrays(rng); });
  timed("methods", [&] { family_methods(rng); });
  timed("templates", [&] { family_templates(rng); });
  capi_reset();

  // every reproc_new was matched by exactly one reproc_destroy of the same object (C15 support)
  rep.count("lifecycle/reproc_new", capi_new_count);
  rep.count("lifecycle/reproc_destroy", capi_destroy_count);
  rep.count("lifecycle/reproc_destroy(NULL)", capi_destroy_null_count);
  if (capi_new_count != capi_destroy_count || capi_destroy_bad_count != 0) {
    jobj o; o.add("new", jnum(capi_new_count)).add("destroy", jnum(capi_destroy_count)).add("double_destroy", jnum(capi_destroy_bad_count));
    rep.fail("monitor", "C19/deleter", "process objects did not destroy their reproc_t exactly once", o.str());
  }

  jobj flow;
  for (const auto &kv : observed_flow) { jarr a; for (const auto &c : kv.second) a.add(jstr(c)); flow.add(kv.first, a.str()); }
  jarr forkflow; for (const auto &c : observed_fork_flow) forkflow.add(jstr(c));
  jarr cfields; for (const auto &kv : dopt::c_default(false)) cfields.add(jstr(kv.first));
  jarr cppfields; { reproc::options o; for (const auto &kv : dopt::cpp_view(o)) cppfields.add(jstr(kv.first)); }

  jobj dist; for (const auto &kv : rep.distribution) dist.add(kv.first, jnum(kv.second));
  jobj fc; for (const auto &kv : rep.failure_counts) fc.add(kv.first, jnum(kv.second));
  dist.add("failure_counts", fc.str());
  jarr fails;
  for (const auto &f : rep.failures) {
    jobj o; o.add("kind", jstr(f.kind)).add("key", jstr(f.key)).add("what", jstr(f.what)).add("replay", f.replay);
    fails.add(o.str());
  }
  jarr samples; for (const auto &s : rep.samples) samples.add(s);

  jobj out;
  out.add("evaluations", jnum(rep.evaluations));
  out.add("distinct_nontrivial", junum(rep.distinct.size()));
  out.add("samples", samples.str());
  out.add("distribution", dist.str());
  out.add("failures", fails.str());
  out.add("observed_flow", flow.str());
  out.add("observed_fork_flow", forkflow.str());
  out.add("observed_enums", observed_enums.str());
  out.add("observed_error_codes", observed_error_codes.str());
  out.add("driver_c_fields", cfields.str());
  out.add("driver_cpp_fields", cppfields.str());
  std::ofstream f(argv[3]);
  f << out.str() << "\n";
  return f.good() ? 0 : 1;
}
