// drive_util.hpp -- small helpers for drive.cpp: seeded PRNG, JSON text, failure collection.
#pragma once

#include <cstdint>
#include <cstdio>
#include <map>
#include <set>
#include <sstream>
#include <string>
#include <vector>

namespace du {

// splitmix64: everything random derives from the seed given on the command line
struct rng {
  uint64_t s;
  explicit rng(uint64_t seed) : s(seed * 0x9e3779b97f4a7c15ull + 0x1234567ull) {}
  uint64_t next()
  {
    uint64_t z = (s += 0x9e3779b97f4a7c15ull);
    z = (z ^ (z >> 30)) * 0xbf58476d1ce4e5b9ull;
    z = (z ^ (z >> 27)) * 0x94d049bb133111ebull;
    return z ^ (z >> 31);
  }
  uint64_t below(uint64_t n) { return n == 0 ? 0 : next() % n; }
  bool coin() { return (next() & 1) != 0; }
  int any_int() { return static_cast<int>(static_cast<uint32_t>(next())); }
};

inline std::string jstr(const std::string &s)
{
  std::string o = "\"";
  for (unsigned char c : s) {
    char b[8];
    if (c == '"') o += "\\\"";
    else if (c == '\\') o += "\\\\";
    else if (c < 0x20 || c >= 0x7f) { std::snprintf(b, sizeof b, "\\u%04x", c); o += b; }
    else o += static_cast<char>(c);
  }
  return o + "\"";
}

inline std::string jnum(long long v) { return std::to_string(v); }
inline std::string junum(unsigned long long v) { return std::to_string(v); }
inline std::string jbool(bool b) { return b ? "true" : "false"; }
inline std::string jptr(const void *p)
{
  if (p == nullptr) return "\"NULL\"";
  char b[32];
  std::snprintf(b, sizeof b, "\"%p\"", p);
  return b;
}

// ordered JSON object / array builders (values are already JSON text)
struct jobj {
  std::vector<std::pair<std::string, std::string>> kv;
  jobj &add(const std::string &k, const std::string &v) { kv.emplace_back(k, v); return *this; }
  std::string str() const
  {
    std::string o = "{";
    for (size_t i = 0; i < kv.size(); i++) o += (i ? ", " : "") + jstr(kv[i].first) + ": " + kv[i].second;
    return o + "}";
  }
};
struct jarr {
  std::vector<std::string> v;
  jarr &add(const std::string &x) { v.push_back(x); return *this; }
  std::string str() const
  {
    std::string o = "[";
    for (size_t i = 0; i < v.size(); i++) o += (i ? ", " : "") + v[i];
    return o + "]";
  }
};
inline std::string jstrs(const std::vector<std::string> &v)
{
  jarr a;
  for (const auto &s : v) a.add(jstr(s));
  return a.str();
}

struct failure { std::string kind, key, what, replay; };

struct report {
  long evaluations = 0;
  std::set<uint64_t> distinct;               // hashes of non-trivial inputs
  std::map<std::string, long> distribution;  // free-form counters
  std::map<std::string, long> failure_counts;
  std::vector<failure> failures;             // at most `per_key` replays per key
  std::vector<std::string> samples;
  size_t per_key = 4;

  void count(const std::string &what, long n = 1) { distribution[what] += n; }
  void nontrivial(uint64_t h) { distinct.insert(h); }
  // at most `per_key` replays are kept per key; with a signature, at most one per (key, signature)
  // so that the kept replays are of different shapes
  std::set<std::string> seen_sig;
  std::map<std::string, size_t> kept;
  void fail(const std::string &kind, const std::string &key, const std::string &what, const std::string &replay,
            const std::string &sig = "")
  {
    failure_counts[key]++;
    if (kept[key] >= per_key) return;
    if (!sig.empty() && !seen_sig.insert(key + "|" + sig).second) return;
    kept[key]++;
    failures.push_back({ kind, key, what, replay });
  }
  void sample(const std::string &s, size_t max = 8) { if (samples.size() < max) samples.push_back(s); }
};

inline uint64_t hmix(uint64_t h, uint64_t v)
{
  h ^= v + 0x9e3779b97f4a7c15ull + (h << 6) + (h >> 2);
  return h * 0xff51afd7ed558ccdull;
}
inline uint64_t hstr(uint64_t h, const std::string &s)
{
  for (unsigned char c : s) h = hmix(h, c);
  return hmix(h, s.size());
}

}
