/* capi_interpose.h -- an interposed reproc C API for the C19 correspondence harness.
   Every function of reproc.h / drain.h / run.h is defined by capi_interpose.c; none of them does
   any process work: each one RECORDS what it received (deep copies) in capi_log[] and returns a
   scripted value.  The real C library is never linked. */
#ifndef CAPI_INTERPOSE_H
#define CAPI_INTERPOSE_H

#include <reproc/drain.h>
#include <reproc/reproc.h>
#include <reproc/run.h>

#ifdef __cplusplus
extern "C" {
#endif

enum capi_fn {
  CAPI_NEW, CAPI_START, CAPI_POLL, CAPI_READ, CAPI_WRITE, CAPI_CLOSE, CAPI_WAIT, CAPI_TERMINATE,
  CAPI_KILL, CAPI_STOP, CAPI_PID, CAPI_DESTROY, CAPI_STRERROR, CAPI_DRAIN, CAPI_RUN, CAPI_RUN_EX,
  CAPI_NFN
};

/* the opaque process type: only identity matters */
struct reproc_t {
  int id;
  int alive;
};

/* a string vector walked up to its NULL terminator and copied byte for byte */
typedef struct capi_strv {
  int is_null;              /* the pointer itself was NULL */
  const char *const *orig;  /* the pointer received */
  size_t n;                 /* number of strings before the NULL */
  char **items;             /* copies (NUL-terminated, as seen through the pointer) */
  size_t *lens;             /* strlen of each */
} capi_strv;

#define CAPI_MAX_SOURCES 16

typedef struct capi_call {
  int fn;
  reproc_t *process;
  int process_id;           /* id of *process when non-NULL, else -1 */
  int ret;                  /* value returned to the caller */
  /* reproc_start / reproc_run / reproc_run_ex */
  reproc_options options;   /* the struct exactly as received (shallow) */
  capi_strv argv;
  capi_strv env_extra;
  char *working_directory;  /* copy, NULL if NULL */
  char *redirect_in_path, *redirect_out_path, *redirect_err_path, *redirect_path;
  uint8_t *input_copy;      /* copy of options.input.data[0..size) when size <= capi_copy_limit */
  /* reproc_read / reproc_write / reproc_close */
  int stream;
  const uint8_t *buffer;
  size_t size;
  uint8_t *buffer_copy;     /* reproc_write: copy of the bytes offered (size <= capi_copy_limit) */
  /* reproc_wait / reproc_poll */
  int timeout;
  /* reproc_stop */
  reproc_stop_actions stop;
  /* reproc_poll */
  size_t num_sources;
  reproc_event_source sources[CAPI_MAX_SOURCES]; /* as received (before events are written) */
  /* reproc_strerror */
  int error;
} capi_call;

#define CAPI_LOG_MAX 256
extern capi_call capi_log[CAPI_LOG_MAX];
extern size_t capi_log_len;
extern size_t capi_log_dropped;   /* calls that did not fit */
extern size_t capi_copy_limit;    /* buffers larger than this are not copied (default 1 MiB) */

/* life-cycle accounting (C15) */
extern long capi_new_count, capi_destroy_count, capi_destroy_null_count, capi_destroy_bad_count;

/* forget the log (frees the copies); scripts are kept */
void capi_reset(void);

/* script the return values of `fn`: the values are consumed in order, the last one sticks.
   Unscripted functions return 0. */
void capi_script(int fn, int ret);
void capi_script_seq(int fn, const int *rets, size_t n);
/* events written into every source by reproc_poll when it returns >= 0 (consumed like rets) */
void capi_script_poll_events(const int *events, size_t n);
void capi_script_clear(void);

/* bytes reproc_read writes into the caller's buffer when it returns n > 0:
   buffer[i] = capi_read_byte(n, i) for i < min(n, size) */
uint8_t capi_read_byte(int n, size_t i);

#ifdef __cplusplus
}
#endif
#endif
