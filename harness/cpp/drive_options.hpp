// drive_options.hpp -- the options part of the C19 driver: how each C++ options field is set, what
// the same-named C field must then contain (the oracle), and flattened by-name views.
//
// The oracle is independent of reproc.cpp: a case is a list of `setting`s; each setting knows how
// to assign ONE C++ field from a plain value (an int of milliseconds, a pointer, a bool, an
// enumerator) and which C fields (by NAME) must receive that plain value.  Fields that are not
// set must arrive as zero / NULL / false / the first enumerator.
#pragma once

#include <climits>
#include <functional>
#include <string>
#include <vector>

#include <reproc++/reproc.hpp>

#include "capi_interpose.h"
#include "drive_util.hpp"

namespace dopt {

using view = std::vector<std::pair<std::string, std::string>>; // field name -> JSON text

struct setting {
  std::string cpp_field;                       // C++ field assigned
  std::string shown;                           // JSON text of the value assigned
  std::function<void(reproc::options &)> apply;
  view expect;                                 // C field name -> JSON text it must receive
};

// ---- the C namesakes of the C++ enumerators (handwritten: this is the specification)
inline int c_redirect(enum reproc::redirect::type t)
{
  switch (t) {
    case reproc::redirect::default_: return REPROC_REDIRECT_DEFAULT;
    case reproc::redirect::pipe: return REPROC_REDIRECT_PIPE;
    case reproc::redirect::parent: return REPROC_REDIRECT_PARENT;
    case reproc::redirect::discard: return REPROC_REDIRECT_DISCARD;
    case reproc::redirect::stdout_: return REPROC_REDIRECT_STDOUT;
    case reproc::redirect::handle_: return REPROC_REDIRECT_HANDLE;
    case reproc::redirect::file_: return REPROC_REDIRECT_FILE;
    case reproc::redirect::path_: return REPROC_REDIRECT_PATH;
  }
  return -1;
}
inline int c_stop(reproc::stop s)
{
  switch (s) {
    case reproc::stop::noop: return REPROC_STOP_NOOP;
    case reproc::stop::wait: return REPROC_STOP_WAIT;
    case reproc::stop::terminate: return REPROC_STOP_TERMINATE;
    case reproc::stop::kill: return REPROC_STOP_KILL;
  }
  return -1;
}
inline int c_env(reproc::env::type t)
{
  switch (t) {
    case reproc::env::extend: return REPROC_ENV_EXTEND;
    case reproc::env::empty: return REPROC_ENV_EMPTY;
  }
  return -1;
}
inline int c_stream(reproc::stream s)
{
  switch (s) {
    case reproc::stream::in: return REPROC_STREAM_IN;
    case reproc::stream::out: return REPROC_STREAM_OUT;
    case reproc::stream::err: return REPROC_STREAM_ERR;
  }
  return -1;
}

static const enum reproc::redirect::type all_redirect[] = {
  reproc::redirect::default_, reproc::redirect::pipe, reproc::redirect::parent, reproc::redirect::discard,
  reproc::redirect::stdout_, reproc::redirect::handle_, reproc::redirect::file_, reproc::redirect::path_ };
static const char *const all_redirect_names[] = { "default_", "pipe", "parent", "discard", "stdout_", "handle_", "file_", "path_" };
static const reproc::stop all_stop[] = { reproc::stop::noop, reproc::stop::wait, reproc::stop::terminate, reproc::stop::kill };
static const char *const all_stop_names[] = { "noop", "wait", "terminate", "kill" };

// ---- pools of distinctive pointer values (never dereferenced by the interposer except strings)
static const char *const str_pool[] = { "/tmp/c19-a", "", "relative/dir", "x", "/a path/with spaces", "\xff\xfe odd", "/dev/null", "out.txt" };
static char file_pool[8];
static const uint8_t byte_pool[64] = { 1, 2, 3, 0, 255, 254, 7 };
static const char *const envp_pool_a[] = { "A=1", "B=", "=C", nullptr };
static const char *const envp_pool_b[] = { nullptr };
static const char *const *const envp_pool[] = { envp_pool_a, envp_pool_b };

inline int pick_int(du::rng &r, int variant)
{
  static const int b[] = { 1000003, -1, -2, INT_MAX, INT_MIN, 1, 0 };
  return variant < 7 ? b[variant] : r.any_int();
}

// ---- the C++ fields of struct options, one generator of settings per field
struct field {
  std::string cpp;                                                  // flattened C++ field name
  int boundary;                                                     // number of boundary variants
  std::function<setting(du::rng &, int variant)> make;              // variant >= boundary: random
};

inline std::vector<field> fields()
{
  using reproc::options;
  std::vector<field> fs;
  auto cstr_field = [&](const std::string &name, std::function<const char *&(options &)> ref) {
    fs.push_back({ name, 8, [=](du::rng &r, int v) {
      const char *p = str_pool[v < 8 ? v : r.below(8)];
      return setting{ name, du::jstr(p), [=](options &o) { ref(o) = p; }, { { name, du::jptr(p) } } };
    } });
  };
  auto file_field = [&](const std::string &name, std::function<FILE *&(options &)> ref) {
    fs.push_back({ name, 3, [=](du::rng &r, int v) {
      FILE *p = v == 0 ? reinterpret_cast<FILE *>(&file_pool[1]) : v == 1 ? stdout : v == 2 ? stderr
                : reinterpret_cast<FILE *>(&file_pool[r.below(8)]);
      return setting{ name, du::jptr(p), [=](options &o) { ref(o) = p; }, { { name, du::jptr(p) } } };
    } });
  };
  auto bool_field = [&](const std::string &name, std::function<bool &(options &)> ref) {
    fs.push_back({ name, 2, [=](du::rng &r, int v) {
      bool b = v == 0 ? true : v == 1 ? false : r.coin();
      return setting{ name, du::jbool(b), [=](options &o) { ref(o) = b; }, { { name, du::jbool(b) } } };
    } });
  };
  auto int_field = [&](const std::string &name, std::function<int &(options &)> ref) {
    fs.push_back({ name, 7, [=](du::rng &r, int v) {
      int x = pick_int(r, v);
      return setting{ name, du::jnum(x), [=](options &o) { ref(o) = x; }, { { name, du::jnum(x) } } };
    } });
  };
  auto ms_field = [&](const std::string &name, std::function<reproc::milliseconds &(options &)> ref, bool reaches_c) {
    fs.push_back({ name, 7, [=](du::rng &r, int v) {
      int x = pick_int(r, v);
      view e;
      if (reaches_c) e.push_back({ name, du::jnum(x) });
      return setting{ name, du::jnum(x), [=](options &o) { ref(o) = reproc::milliseconds(x); }, e };
    } });
  };
  auto redirect_type_field = [&](const std::string &name, std::function<enum reproc::redirect::type &(options &)> ref) {
    fs.push_back({ name, 7, [=](du::rng &r, int v) {
      size_t i = v < 7 ? static_cast<size_t>(v) + 1 : r.below(8);
      auto t = all_redirect[i];
      return setting{ name, du::jstr(std::string("redirect::") + all_redirect_names[i]), [=](options &o) { ref(o) = t; },
                      { { name, du::jnum(c_redirect(t)) } } };
    } });
  };
  auto stop_field = [&](const std::string &name, std::function<reproc::stop &(options &)> ref) {
    fs.push_back({ name, 3, [=](du::rng &r, int v) {
      size_t i = v < 3 ? static_cast<size_t>(v) + 1 : r.below(4);
      auto s = all_stop[i];
      return setting{ name, du::jstr(std::string("stop::") + all_stop_names[i]), [=](options &o) { ref(o) = s; },
                      { { name, du::jnum(c_stop(s)) } } };
    } });
  };

  fs.push_back({ "env.behavior", 2, [](du::rng &r, int v) {
    auto t = v == 0 ? reproc::env::empty : v == 1 ? reproc::env::extend : (r.coin() ? reproc::env::empty : reproc::env::extend);
    return setting{ "env.behavior", du::jstr(t == reproc::env::empty ? "env::empty" : "env::extend"),
                    [=](options &o) { o.env.behavior = t; }, { { "env.behavior", du::jnum(c_env(t)) } } };
  } });
  fs.push_back({ "env.extra", 2, [](du::rng &r, int v) {
    const char *const *p = envp_pool[v < 2 ? v : r.below(2)];
    return setting{ "env.extra", du::jptr(p), [=](options &o) { o.env.extra = reproc::env(p); },
                    { { "env.extra", du::jptr(p) } } };
  } });
  cstr_field("working_directory", [](options &o) -> const char *& { return o.working_directory; });
#define RD(S)                                                                                         \
  redirect_type_field("redirect." #S ".type", [](options &o) -> enum reproc::redirect::type & { return o.redirect.S.type; }); \
  int_field("redirect." #S ".handle", [](options &o) -> int & { return o.redirect.S.handle; });        \
  file_field("redirect." #S ".file", [](options &o) -> FILE *& { return o.redirect.S.file; });         \
  cstr_field("redirect." #S ".path", [](options &o) -> const char *& { return o.redirect.S.path; });
  RD(in) RD(out) RD(err)
#undef RD
  bool_field("redirect.parent", [](options &o) -> bool & { return o.redirect.parent; });
  bool_field("redirect.discard", [](options &o) -> bool & { return o.redirect.discard; });
  file_field("redirect.file", [](options &o) -> FILE *& { return o.redirect.file; });
  cstr_field("redirect.path", [](options &o) -> const char *& { return o.redirect.path; });
#define ST(S)                                                                                         \
  stop_field("stop." #S ".action", [](options &o) -> reproc::stop & { return o.stop.S.action; });      \
  ms_field("stop." #S ".timeout", [](options &o) -> reproc::milliseconds & { return o.stop.S.timeout; }, true);
  ST(first) ST(second) ST(third)
#undef ST
  ms_field("timeout", [](options &o) -> reproc::milliseconds & { return o.timeout; }, false); // C++ only
  ms_field("deadline", [](options &o) -> reproc::milliseconds & { return o.deadline; }, true);
  fs.push_back({ "input", 5, [](du::rng &r, int v) {
    const uint8_t *p = byte_pool + (v == 0 ? 3 : v < 5 ? 0 : r.below(32));
    size_t n = v == 0 ? 7 : v == 1 ? 0 : v == 2 ? 1 : v == 3 ? 32 : v == 4 ? SIZE_MAX : r.below(33);
    return setting{ "input", "{\"data\": " + du::jptr(p) + ", \"size\": " + du::junum(n) + "}",
                    [=](options &o) { o.input = reproc::input(p, n); },
                    { { "input.data", du::jptr(p) }, { "input.size", du::junum(n) } } };
  } });
  bool_field("nonblocking", [](options &o) -> bool & { return o.nonblocking; });
  return fs;
}

// ---- what the interposed C API received, by C field name
inline view c_view(const reproc_options &c)
{
  view v;
  v.push_back({ "working_directory", du::jptr(c.working_directory) });
  v.push_back({ "env.behavior", du::jnum(c.env.behavior) });
  v.push_back({ "env.extra", du::jptr(c.env.extra) });
#define RD(S)                                                                \
  v.push_back({ "redirect." #S ".type", du::jnum(c.redirect.S.type) });      \
  v.push_back({ "redirect." #S ".handle", du::jnum(c.redirect.S.handle) });  \
  v.push_back({ "redirect." #S ".file", du::jptr(c.redirect.S.file) });      \
  v.push_back({ "redirect." #S ".path", du::jptr(c.redirect.S.path) });
  RD(in) RD(out) RD(err)
#undef RD
  v.push_back({ "redirect.parent", du::jbool(c.redirect.parent) });
  v.push_back({ "redirect.discard", du::jbool(c.redirect.discard) });
  v.push_back({ "redirect.file", du::jptr(c.redirect.file) });
  v.push_back({ "redirect.path", du::jptr(c.redirect.path) });
#define ST(S)                                                               \
  v.push_back({ "stop." #S ".action", du::jnum(c.stop.S.action) });         \
  v.push_back({ "stop." #S ".timeout", du::jnum(c.stop.S.timeout) });
  ST(first) ST(second) ST(third)
#undef ST
  v.push_back({ "deadline", du::jnum(c.deadline) });
  v.push_back({ "input.data", du::jptr(c.input.data) });
  v.push_back({ "input.size", du::junum(c.input.size) });
  v.push_back({ "fork", du::jbool(c.fork) });
  v.push_back({ "nonblocking", du::jbool(c.nonblocking) });
  return v;
}

// ---- what the C API must receive for default-constructed options
inline view c_default(bool fork)
{
  reproc_options z = {};
  z.env.behavior = REPROC_ENV_EXTEND;
  z.fork = fork;
  return c_view(z);
}

inline void overlay(view &base, const view &over)
{
  for (const auto &kv : over) {
    bool found = false;
    for (auto &b : base) if (b.first == kv.first) { b.second = kv.second; found = true; }
    if (!found) base.push_back({ kv.first + " (unknown C field)", kv.second });
  }
}

// ---- the C++ options by C++ field name (for options::clone)
inline view cpp_view(const reproc::options &o)
{
  view v;
  v.push_back({ "env.behavior", du::jnum(static_cast<int>(o.env.behavior)) });
  v.push_back({ "env.extra", du::jptr(o.env.extra.data()) });
  v.push_back({ "working_directory", du::jptr(o.working_directory) });
#define RD(S)                                                                              \
  v.push_back({ "redirect." #S ".type", du::jnum(static_cast<int>(o.redirect.S.type)) });  \
  v.push_back({ "redirect." #S ".handle", du::jnum(o.redirect.S.handle) });                \
  v.push_back({ "redirect." #S ".file", du::jptr(o.redirect.S.file) });                    \
  v.push_back({ "redirect." #S ".path", du::jptr(o.redirect.S.path) });
  RD(in) RD(out) RD(err)
#undef RD
  v.push_back({ "redirect.parent", du::jbool(o.redirect.parent) });
  v.push_back({ "redirect.discard", du::jbool(o.redirect.discard) });
  v.push_back({ "redirect.file", du::jptr(o.redirect.file) });
  v.push_back({ "redirect.path", du::jptr(o.redirect.path) });
#define ST(S)                                                                              \
  v.push_back({ "stop." #S ".action", du::jnum(static_cast<int>(o.stop.S.action)) });      \
  v.push_back({ "stop." #S ".timeout", du::jnum(o.stop.S.timeout.count()) });
  ST(first) ST(second) ST(third)
#undef ST
  v.push_back({ "timeout", du::jnum(o.timeout.count()) });
  v.push_back({ "deadline", du::jnum(o.deadline.count()) });
  v.push_back({ "input", "{\"data\": " + du::jptr(o.input.data()) + ", \"size\": " + du::junum(o.input.size()) + "}" });
  v.push_back({ "nonblocking", du::jbool(o.nonblocking) });
  return v;
}

inline std::string view_json(const view &v)
{
  du::jobj o;
  for (const auto &kv : v) o.add(kv.first, kv.second);
  return o.str();
}

}
