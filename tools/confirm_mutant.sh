#!/bin/bash
# confirm_mutant.sh <Cnn> <i> — confirm a seeded change in its scratch worktree: compiles, 10 tests pass with it,
# demo fails with it and passes without it.  Prints a one-line verdict.
P=$1; I=$2; WT=/tmp/mut-$P; OUT=/tmp/mut-$P-out/$I; B=$WT-build
git -C $WT checkout -q -- . ; git -C $WT checkout -q --detach $(git -C /repo rev-parse HEAD) 2>/dev/null
git -C $WT apply $OUT/patch.diff || { echo "$P/$I: PATCH DOES NOT APPLY to current HEAD"; exit 1; }
rm -rf $B
cmake -G Ninja -S $WT -B $B -DCMAKE_BUILD_TYPE=RelWithDebInfo -DCMAKE_C_FLAGS=-Wno-error -DREPROC_TEST=ON -DREPROC_MULTITHREADED=ON -DREPROC++=ON > /tmp/cm-$P-$I.log 2>&1 && cmake --build $B >> /tmp/cm-$P-$I.log 2>&1 || { echo "$P/$I: BUILD FAILS with change"; git -C $WT checkout -q -- .; exit 1; }
T=$(ctest --test-dir $B -j8 2>&1 | grep "tests passed" )
(cd $OUT && timeout 600 bash ./run.sh > /tmp/demo-$P-$I-with.log 2>&1); W=$?
git -C $WT checkout -q -- .
rm -rf $B
cmake -G Ninja -S $WT -B $B -DCMAKE_BUILD_TYPE=RelWithDebInfo -DCMAKE_C_FLAGS=-Wno-error -DREPROC_TEST=ON -DREPROC_MULTITHREADED=ON -DREPROC++=ON > /tmp/cm-$P-$I.log 2>&1 && cmake --build $B >> /tmp/cm-$P-$I.log 2>&1
(cd $OUT && timeout 600 bash ./run.sh > /tmp/demo-$P-$I-without.log 2>&1); WO=$?
rm -rf $B
echo "$P/$I: tests-with-change: [$T] demo-with-change exit=$W demo-on-HEAD exit=$WO"
