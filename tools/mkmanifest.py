#!/usr/bin/env python3
"""Regenerates /verif/MANIFEST.json from the table below (kept valid at all times)."""
import json, os
V = "/verif"
TB = ("Coq 8.16.1 kernel (coqc, full .vo builds, vm_compute; no native_compute); Print Assumptions of every property theorem "
      "is recorded in the evidence (all closed under the global context unless listed); the translator harness/translate (clang 14 "
      "JSON AST + probe.c) for coq/gen/*_gen.v; extraction with ExtrOcamlBasic only; the correspondence harness (C stubs, OCaml "
      "driver, objcopy symbol redirection, gcc 12); the world model coq/World.v Sched.v Sys.v as a description of Linux (DESIGN.md 10).")
P = {}
def reg(pid, technique, text, note=TB, ref="8"):
    P[pid] = dict(technique=technique, text=text, note=note, ref="DESIGN.md section %s, %s" % (ref, pid))

SIMTB = TB
def sim(pid, proved, notproved, tie, tech):
    reg(pid, tech, "proof + correspondence. PROVED in Coq (every world: any fault plan, latency plan, child behaviour; Print Assumptions closed): %s NOT PROVED, decided by the tie on the implementation only: %s TIE: %s Monitors are evaluated on every implementation run; a model/implementation difference in the property's projection or a broken proof obligation is a VIOLATION (with the failing scenario when a monitor fails, else no-failing-input-found)." % (proved, notproved, tie))

sim("C01", "parse_status decodes every exit code and terminating signal; once a status is cached wait/terminate/kill/stop return it with no system call, event or time; the system-call footprint of wait; EXACT AND NEVER EARLY FOR EVERY WELL-FORMED WORLD (C01_wait_exact): a wait on a running handle returns r >= 0 only by reaping the handle's own child, which at that moment of the call was a zombie with wait status st (so never while it runs), r = decode(st) is cached, the reap is the event logged at that moment and the child's record afterwards is the same record marked reaped (no zombie remains).",
    "'reaped exactly once' over whole histories of several calls (follows from C01_wait_exact + C01_wait_stable for histories made of waits, not stated as one theorem over arbitrary histories incl. stop/destroy); that the world's wait statuses are Linux's.",
    "endings (exit codes, terminating signals, SIGTERM handlers) x call-order templates, EINTR/ENOMEM injected at every call inside wait/stop/destroy, random histories.",
    "Coq theorems on the library model + model/implementation correspondence in a simulated world + trace monitor")
sim("C02", "the world's pipe is a FIFO of byte positions (take = prefix, exactly min(n, available), append at the back); read()==0 with positive size is the only result mapped to the closed-stream error; that error closes the stream for good (sticky), any other result leaves the handle untouched; same for write/EPIPE.",
    "end-to-end delivery 'every byte the child writes is returned once, in order' over whole schedules (needs the scheduler invariants of the world).",
    "payload sizes straddling 4096/65536/1 MiB x buffer sizes incl. 0 x blocking/nonblocking x stream layouts; stdin writes; start-up input; EINTR/EIO at every call of reads/writes; byte content checked at the stub boundary.",
    "Coq theorems (pipe FIFO, stream closure) + correspondence + offset-continuity monitor")
sim("C03", "environment = parent entries then extra entries in order (strv_concat); relative-path test; every store of path_prepend_cwd is inside its allocation for every cwd/path length and growth step, and the growth loop terminates; THE CHILD SIDE (C03_child_image): in any fault-free well-formed world, if the forked child reaches a successful exec, the image's argv is the requested argv, its environment exactly the list handed to the child side (which C03_env_order shows is parent entries then extra entries, or extra only), its working directory the requested one resolved against the parent's (or the parent's).",
    "the parent-side composition (that process_start hands exactly strv_concat/path_prepend_cwd's results to the child side) is decided by the tie; program lookup along PATH is the world's.",
    "random byte strings for argv/env, cwd lengths around multiples of 4096, program forms (bare, absolute, relative, ./), wd none/absolute/relative; heap canaries on every allocation of the real code.",
    "Coq theorems (buffer arithmetic, environment order) + correspondence + exec-image monitor")
sim("C04", "WHAT THE RESULT MEANS UNDER EVERY FAULT PLAN (C04_start_result, C04_process_start_result): whenever reproc_start returns in the caller - whatever calls fail at whatever call index with whatever error number, whatever latencies, whatever the child and other processes do - either the result is negative and the life-cycle marker is unchanged (no failure of any call - allocation, pipe, fcntl, getcwd, sigprocmask, fork, waitpid - ever surfaces as success: the error number read after a failed call is positive, tracked through every cleanup), or the result is 1, the handle is running and its pid is positive and is exactly the value returned by a fork call made by this very start; handle state as a function of start's result (negative: not started, all fields invalid; positive: running; zero: in child), the exit block, rejection of a started handle, no effect at all for invalid options on a fresh handle.",
    "descriptor/heap/child residue of a failed start and that the negative result is the error of the call that failed first (the cause), under every fault plan; that success implies the program was exec'd (refuted by the known findings D18/D20, which need a second failure).",
    "every call index of 17 option scenarios x errnos (singles exhaustively, pairs sampled), followed by pid / second start / destroy.",
    "Coq theorems (life-cycle of start) + fault enumeration against the implementation")
sim("C05", "DESCRIPTORS FOR EVERY HISTORY AND EVERY FAULT PLAN (C05_history_restores_descriptor_table, FdSpec): any sequence of calls on a handle made by reproc_new - failing starts, successful starts, restarts, read, write, close, poll, wait, terminate, kill, stop sequences, in any order, each under any fault plan (failures of close itself included), whatever the children do - followed by destroy leaves the caller's descriptor table EXACTLY as it was (same numbers, same objects, same flags): nothing the caller owned was closed or re-flagged, nothing the library opened is left (ownership invariant over the table: fresh slots of pipe/open are owned until closed, redirect_init owns exactly what the REGENERATED redirect_destroy table will close, the handle between calls owns exactly its four pipe ends); C05_start_descriptor_table: a failed start restores the table, a successful one adds only the handle's own ends on previously free numbers; C05_process_start_restores_descriptor_table. MEMORY FOR EVERY HISTORY AND EVERY FAULT PLAN (C05_history_releases_memory, MemSpec): reproc_new, then any sequence of calls on the new handle, then destroy leaves the caller's heap with exactly the blocks it had - the handle block, every start's program-path and environment copies, every poll's scratch array are released, each exactly once (ownership invariant over the allocation ledger); for one start (C05_start_releases_every_block, HeapSpec): whatever reproc_start returns and whatever fails on the way - allocation failures at any point of the program-path copy (incl. the getcwd/realloc growth loop) and of the environment copy included - the caller's heap afterwards holds exactly the blocks it held before; the regenerated ownership table of redirect_destroy is the documented one; foreign types cause no system call; the single close helper; the post-start API closes only descriptors stored in the handle and never the invalid marker; failed start owns nothing.",
    "the child balance (no unreaped child) of whole histories under every fault plan and the memory of drain's string sink (ProofsDrain + unit tie) and of reproc_run are decided by the tie's ledger monitors; the history theorem is about one handle (several handles interleaved: tie), about reproc_run/drain not at all (tie), and about the parent process (a fork-mode child's own table: C10/C11).",
    "single-fault enumeration + pairs + random histories with sprinkled faults + closed-FILE streams, all ending in destroy; close-discipline automaton on the parent's trace.",
    "Coq theorems (descriptor-table ownership invariant over whole histories, heap ownership invariant of start, ownership table, close footprints) + fault enumeration + ledger monitors")
sim("C06", "every kill/waitpid made by terminate/kill/wait/stop/destroy names the pid stored in the handle, signals are SIGTERM/SIGKILL, none once a status is cached, rejection before start; a successful reap happens only while the handle's child is unreaped: at the moment the waitpid event is logged that pid is a zombie in the world (C06_reap_only_unreaped, every well-formed world).",
    "that kill is only sent while the child is unreaped as a world-level statement (the handle-level one, none once a status is cached, is proved; C06_started_pid_is_own_fork proves for every fault plan that a handle reported as running holds the positive pid returned by that start's own fork call).",
    "start fault enumeration (incl. allocation failures) followed by terminate/kill/wait/stop/destroy; random histories.",
    "Coq footprint theorems + correspondence + target monitor")
sim("C07", "the loop equations (act, wait(timeout), stop on anything but a time-out; noop keeps the previous result), the regenerated action table, a non-negative result is always the cached status of a reaped child - as a statement about the world (C07_status_is_reaped_childs, every action list, every well-formed world and fault plan: the handle's own child was a zombie with that wait status at a moment of the call, is reaped afterwards, the reap is in the trace), all-noop = wait(deadline)+terminate(infinite), footprint; every poll made by a stop sequence is blocked at most the time-out it was given (TimeSpec).",
    "order/once of the signals as a trace property; that the time-out handed to each poll is the action's (the blocking bound given that argument is proved).",
    "all 5^3 action triples x time-out patterns x 8 child behaviours x deadlines; EINTR after partial blocking at every call of stop; random triples with latencies.",
    "Coq theorems (stop loop) + exhaustive action-triple correspondence + timing monitor")
sim("C08", "expiry: infinite iff both infinite, deadline marker iff expired, else min(timeout, time left), never longer than either; find_earliest_deadline (one clock instant): picks a source with minimal remaining time for every order of sources with NULL and deadline-less sources anywhere, the first expired one at once; THE BOUND ON THE OS-LEVEL WAIT FOR EVERY WORLD AND SCHEDULE (TimeSpec: C08_blocking_never_passes_the_deadline, C08_poll_bounded_by_its_timeout, C08_wait_bounded, C08_poll_bounded): virtual time is advanced only by the blocking loop, never backwards and never past the deadline, whatever the children do; every poll event with a non-negative time-out is blocked within [0, time-out] (also when interrupted); wait(t) and poll(t) with t >= 0 are never blocked longer than t for every source list and every deadline.",
    "that the clock instants inside one poll/wait coincide with the instant the blocking starts (the deadline clause 'never past the deadline itself' is carried by expiry's arithmetic plus the tie); that the world's scheduler is Linux's.",
    "1-3 sources of 6 kinds in every order x 5 time-outs x activity times; wait grids; fork mode; EINTR after partial blocking.",
    "Coq theorems (expiry arithmetic, earliest-deadline selection) + exhaustive layout correspondence + timing monitor")
sim("C09", "events of a source are a subset of its interests, each bit means the OS reported an event on that valid pipe, the deadline bit is never produced by the mapping, NULL sources are silent, the count, the closed-pipe test.",
    "that the OS-level readiness the world reports is what Linux reports (world model), soundness/completeness through the probes.",
    "stream-state lattice (15 states) x 5 option sets x 16 masks with read/write/wait(0) probes; two-source layouts; random histories.",
    "Coq theorems (event-bit mapping) + state-lattice correspondence + probe monitor")
sim("C10", "THE CHILD SIDE FOR EVERY INHERITED TABLE (C10_child_image_objects): for any descriptor table, flags and limit, and whichever descriptors the three child ends are - also 0, 1 or 2 themselves in any permutation, also one descriptor for several streams - in any fault-free well-formed world, if the forked child reaches a successful exec then for each stream i in 0..2 the image has descriptor i open and it refers to the very object the child end chosen for stream i referred to at fork (through the closing loop, the F_DUPFD_CLOEXEC move of low child ends whose result is a free slot by a pigeonhole argument, the dup2/close-on-exec loop and the exit handle); per-type constructor facts (HANDLE/STDOUT make no call and yield the caller's/child's descriptor; DISCARD/PATH open flags; PIPE ends by direction), a parent end exists only for PIPE, the regenerated installation order.",
    "the composition parent side -> child side (that the child end handed to process_start for stream i is the object the redirect option names) beyond the per-type constructor facts; injected faults inside the child; premise of the child theorem: the child ends are open descriptors other than the fork error pipe (a closed user handle whose number F_DUPFD re-uses is outside it).",
    "all 7x7x8 type combinations + shorthands with std descriptors open, and x the 7 closed-std layouts; closed parent FILE streams.",
    "Coq theorem over the whole child side of fork for all descriptor tables (object tracking through F_DUPFD/dup2; state-aware Hoare logic over the world model) + redirect constructor theorems + exhaustive configuration correspondence + image monitor")
sim("C11", "THE CHILD SIDE FOR EVERY PARENT TABLE (C11_child_image_descriptors): for any descriptor table, flags, limit L bounding the table, child ends and error pipes, in any fault-free world, if the forked child reaches a successful exec every descriptor of the image is 0, 1, 2 or the exit handle, and in exec mode the child code never returns to its caller — through signal reset, mask, limit, the closing loop, moving low child ends away, the dup2 loop with close-on-exec handling, exit handle, chdir, environ, exec and every natural failure exit; the closing loop characterised pointwise for every table (C11_close_loop_all_tables) and shown to be what the monadic loop computes (state-aware Hoare triple); the regenerated keep list; get_max_fd.",
    "injected faults inside the child (a failed F_GETFD makes the code skip a close); that the parent-side invariants assumed of the table at fork (error pipes close-on-exec, all descriptors below the limit) hold — both decided by the tie's families.",
    "random descriptor tables incl. limit-1/limit-2/dense, limits 8..256, flags random, sibling handles, limit raised between starts, huge/infinite limits.",
    "Coq theorem over the whole child side of fork for all descriptor tables (state-aware Hoare logic over the world model) + random-table correspondence + image-descriptor monitor")
sim("C12", "THE PARENT SIDE, EVERY RETURN PATH, EVERY FAULT PLAN (C12_start_restores_caller): whenever reproc_start returns in the caller - success or failure, whatever calls the fault plan makes fail at any call index, whatever latencies, whatever the forked child and all other processes do - the caller's signal dispositions, working directory and environment are exactly what they were, and so is its signal mask unless the plan made a pthread_sigmask call itself fail (that failed call is then in the trace); the same for process_start and process_fork; the frame behind it (C12_child_code_is_framed): no library code run by a forked child touches another process's record. THE CHILD SIDE (C12_child_clean): for every initial mask and disposition table, in any fault-free well-formed world, if the forked child reaches a successful exec the image starts with an empty signal mask and no non-default disposition for any signal 1..31 other than SIGKILL/SIGSTOP. Also: the regenerated reset-loop bounds cover signals 1..31, EINVAL tolerated only, the block-all set, exec keeps only ignored dispositions (world).",
    "the child side under injected faults (fault-free worlds only); that the world's pthread_sigmask/sigaction/fork are Linux's (world model).",
    "4 masks x 3 disposition tables x single-fault enumeration of 17 start scenarios.",
    "Coq theorems (parent side of start for all fault plans via a process-level frame; child side via a state-aware Hoare logic; signal tables) + masks x faults correspondence + caller-state monitor")
sim("C14", "the life-cycle automaton: new; start transitions by sign of result and rejection of started handles; wait/stop cache a status only on success; not-started and in-child rejections with untouched world; closed-stream errors; idempotent close; bad arguments; exited handles inert.",
    "absence of crashes/UB in the C text itself (observed only: crash isolation, heap canaries).",
    "random histories over the whole API with 1-3 handles, NULL handles/buffers, bad stream numbers, invalid/failing starts, fork mode.",
    "Coq theorems (life-cycle automaton of the model) + random-history correspondence + result-class monitor")
sim("C15", "destroy = stop(stored policy) iff running, then close the six fields, then free (equation); footprint in every state; no stop action unless running; the default policy is wait(deadline)+terminate(infinite).",
    "'never abandons a running child' and 'SIGTERM only after the deadline' as timing statements over the world.",
    "7 policies x 3 deadlines x 8 behaviours x 5 pre-histories; every handle state; failed start then restart; random histories.",
    "Coq theorems (destroy) + policy-grid correspondence + signal-timing monitor")
sim("C16", "string sink over explicit buffers: appends exactly old ++ chunk ++ NUL with exact size, from NULL, ENOMEM leaves the string untouched, accumulation of any chunk sequence; drain's initial calls and loop round, run_ex composition (equations).",
    "the sink-call protocol over whole schedules of the two streams.",
    "volumes/interleavings x stderr modes x failing sinks x deadlines; exact-buffer-then-quiet; run_ex/run with single faults; UNIT tie: the real sink_string vs the Coq model (vm_compute) on seeded histories with scripted realloc failures.",
    "Coq theorems (string sink, drain loop) + correspondence + unit tie of the real sink")
sim("C17", "start-up input forces nonblocking mode before its first write, stops at the first error, closes stdin afterwards; the mode is applied to the parent's end; one F_GETFL/F_SETFL pair.",
    "that a nonblocking descriptor never blocks (world model of Linux); blocking minimality.",
    "pipe states x sizes around capacity x child idleness; start-up input sizes with 64 KiB and small (4-16 KiB) pipes.",
    "Coq theorems (nonblocking mechanism) + pipe-state correspondence + blocked-time monitor")
reg("C13", "Coq proof that the model of options.c rejects exactly the documented-invalid options and resolves the documented effective redirects (all values) + exhaustive unit correspondence of parse_redirect/parse_options (16M rows) + start-level monitor (no pipe/open/fork before rejection)",
    "proof + exhaustive correspondence. C13_reject_iff / C13_effective / C13_resolved hold for all Z-valued types, handles, files and paths; the C functions are run on a complete set of representatives justified by C13_validation_pure; the 'before any resource' clause is proved for a fresh handle (C04_invalid_options_no_effect) and checked through reproc_start in the simulated world.")
reg("C18", "Coq proof by induction (all strings, unbounded) that the Windows splitting rules invert argv_join, that computed sizes equal written lengths, and of the environment block shape + exhaustive correspondence with process.windows.c compiled unchanged against a stub windows.h (ASan/canaries)",
    "proof + exhaustive correspondence up to the stated lengths. The Windows argument-splitting rules (win_split) and the stub Win32 calls are modelled, not verified (assumption A9).")
reg("C19", "Coq theorems closed by computation over tables REGENERATED from reproc.cpp/reproc.hpp/reproc.h by the translator (positional initialisers, enums, clone, error-code model for all Z) + the compiled wrapper driven against an interposed C API",
    "proof over regenerated data + correspondence. A changed initialiser, enum or clone assignment breaks a proof obligation; semantics the tables cannot capture (duration::count, static_cast, container conversion) are covered by the tie only.")
reg("C20", "Coq theorems: read/write footprints on the handle are disjoint and operations frame other handles + static scan for shared mutable globals + ThreadSanitizer runs (search only)",
    "PARTIAL proof + correspondence. PROVED: reproc_read ignores and preserves the stdin field, reproc_write the output fields (so they commute on the handle), neither writes status/pid/exit pipe; every post-start operation's footprint names only its own handle's pid and descriptors. NOT PROVABLE with this technique: data-race freedom of the compiled C under preemption (C11 memory model, libc internals) — searched by ThreadSanitizer runs and a scan of the compiled objects for writable non-TLS static storage; the concurrent-start clause is represented by multi-handle scenarios in the simulated world.")
order = ["C%02d" % i for i in range(1, 21)]
checks = []
for pid in order:
    if pid not in P: continue
    e = P[pid]
    checks.append({
        "property_id": pid,
        "quick_cmd": "./check %s --tier quick" % pid,
        "thorough_cmd": "./check %s --tier thorough" % pid,
        "evidence_file": "/verif/evidence/%s.json" % pid,
        "replay_cmd_template": "./check %s --replay {path}" % pid,
        "engine": "coq-model+sim-correspondence",
        "level_claimed": {"category": "proof", "text": e["text"], "design_ref": e["ref"]},
        "level_note": e["note"],
        "technique": e["technique"],
    })
na = [{"property_id": pid, "reason": "check under construction in this session (not yet registered); the scenario family, monitor and projection exist in harness/driver, the theorem file is being written"} for pid in order if pid not in P]
M = {
 "version": 1,
 "setup_cmd": "make -C /verif setup",
 "hooks": {"guard": "REPROC_VERIF",
           "enable": "no guarded code: the harness compiles /repo's sources itself with the baseline flags and redirects libc symbols with objcopy; static functions are reached by #include of the .c file",
           "baseline_off_cmd": "cmake --build /repo/_build && ctest --test-dir /repo/_build -j8 --timeout 900",
           "source_commits": [], "add_only": True},
 "engines": [
  {"name": "coq-model", "path": "/verif/coq", "serves_properties": order, "kind_free_text": "Gallina world model + library model + theorems (Coq 8.16.1)"},
  {"name": "sim-correspondence", "path": "/verif/harness/driver", "serves_properties": [p for p in order if p not in ("C18", "C19")], "kind_free_text": "real C objects run against the extracted Coq world; projection diff + monitors"},
  {"name": "translator", "path": "/verif/harness/translate", "serves_properties": ["C05", "C07", "C10", "C11", "C19"], "kind_free_text": "clang JSON AST -> coq/gen/*_gen.v"},
  {"name": "win-stub", "path": "/verif/harness/win", "serves_properties": ["C18"], "kind_free_text": "process.windows.c compiled on Linux against a stub windows.h"},
  {"name": "unit", "path": "/verif/harness/unit", "serves_properties": ["C13"], "kind_free_text": "#include-based exhaustive unit correspondence"}],
 "checks": checks,
 "notes": "See DESIGN.md. known_findings.json lists repaired (fix: commits in /repo) and open findings.",
 "not_applicable": na,
}
json.dump(M, open(V + "/MANIFEST.json", "w"), indent=1)
print("checks:", [c["property_id"] for c in checks])
