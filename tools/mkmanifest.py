#!/usr/bin/env python3
"""Regenerates /verif/MANIFEST.json from the table below (kept valid at all times)."""
import json, os
V = "/verif"
TB = ("Coq 8.16.1 kernel (coqc, full .vo builds, vm_compute; no native_compute); Print Assumptions of every property theorem "
      "is recorded in the evidence (all closed under the global context unless listed); the translator harness/translate (clang 14 "
      "JSON AST + probe.c) for coq/gen/*_gen.v; extraction with ExtrOcamlBasic only; the correspondence harness (C stubs, OCaml "
      "driver, objcopy symbol redirection, gcc 12); the world model coq/World.v Sched.v Sys.v as a description of Linux (DESIGN.md 10).")
P = {}
def reg(pid, technique, text, note=TB, ref="8"):
    P[pid] = dict(technique=technique, text=text, note=note, ref="DESIGN.md section %s, %s" % (ref, pid))

reg("C01", "Coq theorems on the library model (status decoding for all statuses, cached-status stability and system-call footprint of wait for all worlds) + model/implementation correspondence on generated histories + trace monitor",
    "proof + correspondence. Proved in Coq for all inputs/worlds: parse_status decodes every exit code and terminating signal; once a status is cached wait/terminate/kill/stop return it with no system call, event or time (any fault plan, latency plan, child behaviour); a wait's only system calls are poll(exit pipe), clock, waitpid(handle pid), close(exit pipe), calloc/free. Not proved (decided by the tie only): 'never early' and 'reaped exactly once' as whole-history statements about the world's process table; these are checked by the monitor on every implementation run of the endings x histories families.")
reg("C06", "Coq footprint theorems (every kill/waitpid of terminate/kill/wait/stop/destroy names the handle's pid, signals are 15 or 9, none once a status is cached; for all worlds) + correspondence + trace monitor with fault enumeration on start",
    "proof + correspondence. Proved for every world and outcome: the system-call footprint of terminate, kill, wait, stop and destroy (C06_*_targets), the shape of kill/waitpid events, no-op after reap, rejection before start. Not proved: that the pid stored by a successful start is the positive pid of the forked child (start's post-condition) — decided by the monitor over the single- and pair-fault enumeration of start on the implementation.")
reg("C13", "Coq proof that the model of options.c rejects exactly the documented-invalid options and resolves the documented effective redirects (all values) + exhaustive unit correspondence of parse_redirect/parse_options (16M rows) + start-level monitor (no pipe/open/fork before rejection)",
    "proof + exhaustive correspondence. C13_reject_iff / C13_effective / C13_resolved hold for all Z-valued types, handles, files and paths; the C functions are run on a complete set of representatives justified by C13_validation_pure; the 'before any resource' clause is checked through reproc_start in the simulated world.")
reg("C18", "Coq proof by induction (all strings, unbounded) that the Windows splitting rules invert argv_join, that computed sizes equal written lengths, and of the environment block shape + exhaustive correspondence with process.windows.c compiled unchanged against a stub windows.h (ASan/canaries)",
    "proof + exhaustive correspondence up to the stated lengths. The Windows argument-splitting rules (win_split) and the stub Win32 calls are modelled, not verified (assumption A9).")
order = ["C%02d" % i for i in range(1, 21)]
checks = []
for pid in order:
    if pid not in P: continue
    e = P[pid]
    checks.append({
        "property_id": pid,
        "quick_cmd": "./check %s --tier quick" % pid,
        "thorough_cmd": "./check %s --tier thorough" % pid,
        "evidence_file": "/verif/evidence/%s.json" % pid,
        "replay_cmd_template": "./check %s --replay {path}" % pid,
        "engine": "coq-model+sim-correspondence",
        "level_claimed": {"category": "proof", "text": e["text"], "design_ref": e["ref"]},
        "level_note": e["note"],
        "technique": e["technique"],
    })
na = [{"property_id": pid, "reason": "check under construction in this session (not yet registered); the scenario family, monitor and projection exist in harness/driver, the theorem file is being written"} for pid in order if pid not in P]
M = {
 "version": 1,
 "setup_cmd": "make -C /verif setup",
 "hooks": {"guard": "REPROC_VERIF",
           "enable": "no guarded code: the harness compiles /repo's sources itself with the baseline flags and redirects libc symbols with objcopy; static functions are reached by #include of the .c file",
           "baseline_off_cmd": "cmake --build /repo/_build && ctest --test-dir /repo/_build -j8 --timeout 900",
           "source_commits": [], "add_only": True},
 "engines": [
  {"name": "coq-model", "path": "/verif/coq", "serves_properties": order, "kind_free_text": "Gallina world model + library model + theorems (Coq 8.16.1)"},
  {"name": "sim-correspondence", "path": "/verif/harness/driver", "serves_properties": [p for p in order if p not in ("C18", "C19")], "kind_free_text": "real C objects run against the extracted Coq world; projection diff + monitors"},
  {"name": "translator", "path": "/verif/harness/translate", "serves_properties": ["C05", "C07", "C10", "C11", "C19"], "kind_free_text": "clang JSON AST -> coq/gen/*_gen.v"},
  {"name": "win-stub", "path": "/verif/harness/win", "serves_properties": ["C18"], "kind_free_text": "process.windows.c compiled on Linux against a stub windows.h"},
  {"name": "unit", "path": "/verif/harness/unit", "serves_properties": ["C13"], "kind_free_text": "#include-based exhaustive unit correspondence"}],
 "checks": checks,
 "notes": "See DESIGN.md. known_findings.json lists repaired (fix: commits in /repo) and open findings.",
 "not_applicable": na,
}
json.dump(M, open(V + "/MANIFEST.json", "w"), indent=1)
print("checks:", [c["property_id"] for c in checks])
