#!/bin/bash
# round2_seed.sh <Cnn>... — store confirmed round-2 seeded changes under /verif/seeded and run the registered check against each
cd /verif
for P in "$@"; do
  for I in ${ROUND_IDS:-3 4}; do
    C=$(cat /tmp/confirm-$P-$I.txt 2>/dev/null)
    case "$C" in *"demo-with-change exit=0"*|*"BUILD FAILS"*|*"DOES NOT APPLY"*|*"no patch"*|"") echo "skip $P/$I: $C"; continue;; esac
    case "$C" in *"demo-on-HEAD exit=0"*) ;; *) echo "skip $P/$I (demo fails on HEAD): $C"; continue;; esac
    case "$C" in *"100% tests passed"*) ;; *) echo "skip $P/$I (tests): $C"; continue;; esac
    D=/verif/seeded/$P-$I; mkdir -p $D
    cp /tmp/mut-$P-out/$I/patch.diff $D/; cp /tmp/mut-$P-out/$I/notes.md $D/ 2>/dev/null
    for f in /tmp/mut-$P-out/$I/*; do case "$f" in *.c|*.cpp|*.sh|*.h|*.py|*.txt|*.cmake) cp "$f" $D/;; esac; done
    [ -d /tmp/mut-$P-out/$I/stub ] && cp -r /tmp/mut-$P-out/$I/stub $D/
    R=$(tools/try_mutant.sh $D/patch.diff $P 2>&1)
    git -C /repo checkout -- . 2>/dev/null
    python3 - "$P" "$I" "$C" "$R" <<'PY'
import sys,json,re
P,I,C,R=sys.argv[1:5]
det={}; cur=None
for l in R.splitlines():
    m=re.match(r'== (C\d+) exit=(\d+)',l)
    if m: cur=m.group(1); det[cur]={'exit':int(m.group(2)),'lines':[]}
    elif cur and l.strip(): det[cur]['lines'].append(l.strip()[:300])
json.dump({'breaks_property':P,'change':I,'round':int(__import__("os").environ.get("ROUND_NO","2")),'confirmation':C,'checks_run':[P],'detection':det,'detection_current':det,
           'needs_to_manifest':'see notes.md','what_ran':'tools/confirm_mutant.sh (build + ctest + demo with/without in scratch worktree); tools/try_mutant.sh (git apply to /repo, ./check, git checkout)'},
          open('/verif/seeded/%s-%s/meta.json'%(P,I),'w'),indent=1)
print(P,I,{k:v['exit'] for k,v in det.items()}, [l for v in det.values() for l in v['lines']][:3])
PY
  done
done
