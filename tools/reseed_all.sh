#!/bin/bash
# reseed_all.sh — re-run the registered check of every stored seeded change against the current
# machinery and refresh the "detection" field of its meta.json (confirmation is kept as recorded).
cd /verif
for D in seeded/C*-*; do
  id=$(basename $D); P=${id%-*}
  [ -f $D/patch.diff ] || continue
  if [ -n "$RESEED_ONLY" ] && ! [[ $id =~ $RESEED_ONLY ]]; then continue; fi
  if [ -n "$RESEED_SKIP_LOG" ] && grep -q "^$D " "$RESEED_SKIP_LOG" 2>/dev/null; then continue; fi
  # a change seeded against one property may be the business of a neighbouring one as well
  case "$id" in
    C03-3|C03-4) X="C04";; C04-4) X="C03";; C14-3) X="C01";; C15-4) X="C07";; C04-3) X="C06";; C10-4) X="C05";;
    C04-5|C14-5|C09-6) X="C08";; C05-5) X="C16";; C12-5) X="C20";; C16-5) X="C19";; C17-6) X="C11";; C20-5) X="C05";;
    C03-8|C11-8) X="C18";; C04-7) X="C05";; C07-8) X="C11";; C08-8) X="C15 C09";; C02-8) X="C14 C09";; C10-7) X="C13";;
    C15-7) X="C04";; C16-8|C08-7|C15-8) X="C19";; C17-8) X="C02";; C01-8) X="C12";;
    C03-10|C09-10) X="C19";; C05-9) X="C10 C02";; C07-9) X="C08 C16";; C09-9) X="C02";; C16-9) X="C14";; C17-9) X="C14";;
    C17-10) X="C05 C14";; C20-9) X="C06";; C20-10) X="C05 C12";;
    C03-12|C07-12|C08-12|C16-12) X="C19";; C07-11) X="C15 C05";; C09-12) X="C06";; C16-11) X="C14";; C17-11) X="C11 C14";;
    C01-12) X="C16";; C05-13) X="C16";; C10-13) X="C17";; C10-14) X="C19";; C14-14) X="C15";; *) X="";;
  esac

  R=$(tools/try_mutant.sh /verif/$D/patch.diff $P $X 2>&1)
  git -C /repo checkout -- . 2>/dev/null
  python3 - "$D" "$P" "$R" <<'PY'
import sys,json,re
D,P,R=sys.argv[1:4]
try: m=json.load(open(D+'/meta.json'))
except Exception: m={'breaks_property':P}
det={}; cur=None
if 'patch does not apply' in R:
    m['detection_current']={'note':'patch no longer applies to the current tree (a fix: commit rewrote these lines)'}
else:
    for l in R.splitlines():
        mm=re.match(r'== (C\d+) exit=(\d+)',l)
        if mm: cur=mm.group(1); det[cur]={'exit':int(mm.group(2)),'lines':[]}
        elif cur and l.strip(): det[cur]['lines'].append(l.strip()[:300])
    m['detection_current']=det
json.dump(m,open(D+'/meta.json','w'),indent=1)
print(D, {k:v['exit'] for k,v in det.items()} if det else m['detection_current'])
PY
done
