#!/usr/bin/env python3
"""seeded/SUMMARY.md from seeded/*/meta.json"""
import json, glob, os, re
rows = []
for d in sorted(glob.glob('/verif/seeded/C*-*')):
    try: m = json.load(open(d + '/meta.json'))
    except Exception: continue
    notes = ''
    try: notes = open(d + '/notes.md').read()
    except Exception: pass
    first = next((l.strip('# ').strip() for l in notes.splitlines() if l.strip()), '')
    det = []
    cur = m.get('detection_current')
    if isinstance(cur, dict) and 'note' in cur:
        det.append(cur['note'])
        cur = {}
    for prop, v in (cur if cur is not None else m.get('detection', {})).items():
        keys = sorted({re.sub(r'^\s*(monitor|diff|build)\s+', r'\1:', l).split(' |')[0] for l in v['lines'] if l.startswith(('monitor', 'diff', 'build'))})
        det.append('%s exit=%d %s' % (prop, v['exit'], ', '.join(keys)))
    if m.get('applies_to_current_tree') is False: det.append(m.get('note_current', ''))
    rows.append('| %s | %s | %s | %s |' % (os.path.basename(d), first[:110].replace('|', '/'), m.get('confirmation', '')[m.get('confirmation', '').find('tests'):].replace('|', '/')[:120], '; '.join(det).replace('|', '/')))
open('/verif/seeded/SUMMARY.md', 'w').write('# Seeded changes and what the checks report\n\n| id | change | confirmation | checks |\n|----|--------|--------------|--------|\n' + '\n'.join(rows) + '\n')
print(len(rows), 'rows')
