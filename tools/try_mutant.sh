#!/bin/bash
# try_mutant.sh <patch.diff> <Cnn> [<Cnn>...] — apply a seeded change to /repo, run the checks, undo it.
PATCH=$1; shift
cd /verif
git -C /repo diff --quiet || { echo "/repo is dirty"; exit 2; }
git -C /repo apply "$PATCH" || { echo "patch does not apply"; exit 2; }
for p in "$@"; do
  out=$(VERIF_SEED=${VERIF_SEED:-1} ./check $p 2>&1); rc=$?
  echo "== $p exit=$rc"; echo "$out" | grep -E "VIOLATION|KNOWN-FINDING" | head -8
  for f in $(echo "$out" | grep VIOLATION | sed 's/.*replay=\([^ ]*\).*/\1/' | head -3); do
    python3 -c "
import json,sys
d=json.load(open('$f')); print('     ', d.get('kind'), d.get('key'), '|', (d.get('what') or d.get('broken') or '')[:200])"
  done
done
git -C /repo checkout -- .
rm -f /verif/replays/*
