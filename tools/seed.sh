#!/bin/bash
# seed.sh <Cnn> <i> <check props...> — confirm a seeded change, run the checks against it, store it under /verif/seeded/
P=$1; I=$2; shift 2
D=/verif/seeded/$P-$I; mkdir -p $D
C=$(/verif/tools/confirm_mutant.sh $P $I); echo "$C"
cp /tmp/mut-$P-out/$I/patch.diff $D/; cp /tmp/mut-$P-out/$I/notes.md $D/ 2>/dev/null
for f in /tmp/mut-$P-out/$I/*; do case "$f" in *.c|*.cpp|*.sh|*.h|*.py|*.txt|*.cmake) cp "$f" $D/;; esac; done
R=$(/verif/tools/try_mutant.sh $D/patch.diff "$@" 2>&1); echo "$R"
python3 - "$P" "$I" "$C" "$R" "$@" <<'PY'
import sys,json,re
P,I,C,R=sys.argv[1:5]; props=sys.argv[5:]
notes=''
try: notes=open('/verif/seeded/%s-%s/notes.md'%(P,I)).read()
except Exception: pass
det={}
cur=None
for l in R.splitlines():
    m=re.match(r'== (C\d+) exit=(\d+)',l)
    if m: cur=m.group(1); det[cur]={'exit':int(m.group(2)),'lines':[]}
    elif cur and l.strip(): det[cur]['lines'].append(l.strip()[:300])
json.dump({'breaks_property':P,'change':I,'confirmation':C,'checks_run':props,'detection':det,
           'needs_to_manifest':'see notes.md','what_ran':'tools/confirm_mutant.sh (build + ctest + demo with/without in scratch worktree); tools/try_mutant.sh (git apply to /repo, ./check, git checkout)'},
          open('/verif/seeded/%s-%s/meta.json'%(P,I),'w'),indent=1)
PY
