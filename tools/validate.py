#!/opt/veriftools/pyvenv/bin/python
import json,jsonschema,glob,sys
jsonschema.validate(json.load(open('/verif/MANIFEST.json')),json.load(open('/root/.vp/MANIFEST.schema.json'))); print('manifest valid')
s=json.load(open('/root/.vp/EVIDENCE.schema.json'))
for f in sorted(glob.glob('/verif/evidence/*.json')):
    d=json.load(open(f)); jsonschema.validate(d,s); c=d['coverage']
    print(d['property_id'],d['level'],'obl',c.get('obligations'),'dis',c.get('discharged'),'evals',c['evaluations'],'distinct',c['distinct_nontrivial'],'wall',d['wall_s'],'viol',d['violations'])
