#!/bin/bash
# round2_confirm.sh <Cnn>... — confirm seeded changes 3 and 4 of each property (scratch worktree only)
for P in "$@"; do
  for I in ${ROUND_IDS:-3 4}; do
    [ -f /tmp/mut-$P-out/$I/patch.diff ] || { echo "$P/$I: no patch" > /tmp/confirm-$P-$I.txt; continue; }
    /verif/tools/confirm_mutant.sh $P $I > /tmp/confirm-$P-$I.txt 2>&1
  done
done
