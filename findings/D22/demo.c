#include <reproc/reproc.h>
#include <fcntl.h>
#include <stdio.h>
#include <stdlib.h>
#include <unistd.h>
/* fork mode with the parent's descriptor `closed` closed beforehand: in the forked child,
   are descriptors 0, 1 and 2 open?  The child reports through its exit status. */
int main(int argc, char **argv)
{
  int closed = argc > 1 ? atoi(argv[1]) : 0;
  int out = fcntl(1, F_DUPFD, 60);       /* keep a way to print */
  close(closed);
  reproc_t *p = reproc_new();
  reproc_options o = { .fork = true };
  o.redirect.err.type = REPROC_REDIRECT_PIPE;
  int r = reproc_start(p, NULL, o);
  if (r == 0) {
    int mask = 0;
    for (int fd = 0; fd < 3; fd++) if (fcntl(fd, F_GETFD) < 0) mask |= 1 << fd;
    _exit(mask);
  }
  if (r < 0) { dprintf(out, "start failed %d\n", r); return 2; }
  int st = reproc_wait(p, 2000);
  reproc_destroy(p);
  dprintf(out, "parent had %d closed -> forked child: closed-descriptor mask %d (0 = all three streams open)\n", closed, st);
  return st == 0 ? 0 : 1;
}
