(* RunOpts.v — C13 through reproc_run: run.c:7-18 only ever ADDS the parent shorthand (when no
   other shorthand is set); it never clears one, so a conflict in the caller's options is still a
   conflict in what reaches reproc_start, and the call does nothing but make and release a handle. *)
From Verif Require Import Base World Sys LibPure OptSpec OptProofs Lib LibSpec2.
From Coq Require Import Lia Bool.
Local Open Scope Z_scope.

Definition run_options (o : options) : options :=
  if negb (o_discard o) && (o_file o =? 0) && negb (isSome (o_path o)) then o_with_parent true o else o.

Lemma stream_ok_parent r s :
  stream_ok_at r s true false 0 None = stream_ok_at r s false false 0 None.
Proof. unfold stream_ok_at. cbn [isSome]. change (0 =? 0) with true. cbn [negb orb andb implb]. reflexivity. Qed.

Lemma rd_type_resolve_in r p :
  rd_type (resolve_at r IN p false 0 None) =
  match explicit r with Some t => t | None => if p then REPROC_REDIRECT_PARENT else REPROC_REDIRECT_PIPE end.
Proof. unfold resolve_at. cbn [rd_type isSome]. change (0 =? 0) with true. cbn [negb]. destruct (explicit r), p; reflexivity. Qed.

Lemma run_options_keeps_conflicts o argv :
  parse_options o argv = None -> parse_options (run_options o) argv = None.
Proof.
  unfold run_options.
  destruct (o_discard o) eqn:Ed; cbn [negb andb]; [auto|].
  destruct (o_file o =? 0) eqn:Ef; cbn [andb]; [|auto].
  destruct (o_path o) as [pa|] eqn:Ep; cbn [isSome negb]; [auto|].
  apply Z.eqb_eq in Ef.
  destruct (o_parent o) eqn:Epar.
  { replace (o_with_parent true o) with o; [auto|]. destruct o; cbn in *; subst; reflexivity. }
  unfold parse_options. cbn [o_with_parent o_in o_out o_err o_parent o_discard o_file o_path o_input_data o_input_size o_fork o_deadline o_stop].
  rewrite Ed, Ef, Ep, Epar. rewrite !parse_redirect_char.
  rewrite (stream_ok_parent (o_in o)), (stream_ok_parent (o_out o)), (stream_ok_parent (o_err o)).
  destruct (stream_ok_at (o_in o) REPROC_STREAM_IN false false 0 None); [|auto].
  destruct (stream_ok_at (o_out o) REPROC_STREAM_OUT false false 0 None); [|auto].
  destruct (stream_ok_at (o_err o) REPROC_STREAM_ERR false false 0 None); [|auto].
  rewrite !rd_type_resolve_in. cbn [o_with_parent o_input_data o_input_size o_fork o_deadline o_stop].
  destruct (o_input_data o) eqn:Ei; cbn [andb negb].
  - destruct (explicit (o_in o)) as [t|].
    + destruct (negb (t =? REPROC_REDIRECT_PIPE)); [auto|].
      destruct ((0 <? o_input_size o) && false); [auto|].
      match goal with |- context [if (if ?c then ?a else ?b) then None else _] => destruct (if c then a else b); [auto|] end.
      intros H; discriminate H.
    + intros _. reflexivity.
  - destruct ((0 <? o_input_size o) && true); [auto|].
    match goal with |- context [if (if ?c then ?a else ?b) then None else _] => destruct (if c then a else b); [auto|] end.
    intros H; discriminate H.
Qed.

Lemma run_options_fork o : o_fork (run_options o) = o_fork o.
Proof. unfold run_options. destruct (negb (o_discard o) && (o_file o =? 0) && negb (isSome (o_path o))); reflexivity. Qed.

(* a conflict in the caller's options: reproc_run makes a handle, releases it, answers EINVAL --
   nothing else happens (no pipe, no file, no process); in fork mode not even that *)
Theorem run_rejects_conflicts fuel argv o src w :
  parse_options o (argv_form_of argv) = None ->
  reproc_run fuel argv o src w =
  (if o_fork o then ret REPROC_EINVAL else
   let* np := reproc_new in
   match np with None => ret REPROC_ENOMEM | Some p => reproc_destroy p ;> ret REPROC_EINVAL end) w.
Proof.
  intros Hp. apply run_options_keeps_conflicts in Hp.
  unfold reproc_run. fold (run_options o). unfold reproc_run_ex. rewrite run_options_fork.
  destruct (o_fork o); [reflexivity|].
  unfold reproc_new. cbv beta delta [bind].
  destruct (sys_malloc SIZEOF_REPROC_T w) as [b w1|w1|w1|y w1]; try reflexivity.
  destruct (b =? 0); [reflexivity|]. cbv beta iota delta [ret].
  rewrite (start_invalid_options_no_effect b argv (run_options o) src _ w1 Hp).
  change (REPROC_EINVAL <? 0) with true. cbv iota beta.
  destruct (reproc_destroy (rp_new b) w1); reflexivity.
Qed.

Theorem run_ex_rejects_conflicts fuel argv o src s w :
  parse_options o (argv_form_of argv) = None ->
  reproc_run_ex fuel argv o src s w =
  (if o_fork o then ret (REPROC_EINVAL, s) else
   let* np := reproc_new in
   match np with None => ret (REPROC_ENOMEM, s) | Some p => reproc_destroy p ;> ret (REPROC_EINVAL, s) end) w.
Proof.
  intros Hp. unfold reproc_run_ex.
  destruct (o_fork o); [reflexivity|].
  unfold reproc_new. cbv beta delta [bind].
  destruct (sys_malloc SIZEOF_REPROC_T w) as [b w1|w1|w1|y w1]; try reflexivity.
  destruct (b =? 0); [reflexivity|]. cbv beta iota delta [ret].
  rewrite (start_invalid_options_no_effect b argv o src _ w1 Hp).
  change (REPROC_EINVAL <? 0) with true. cbv iota beta.
  destruct (reproc_destroy (rp_new b) w1); reflexivity.
Qed.

(* destroying a handle as reproc_new made it is releasing its block, nothing else *)
Lemma destroy_fresh b w : reproc_destroy (rp_new b) w = sys_free b w.
Proof.
  unfold reproc_destroy. cbn [h_status rp_new].
  change (STATUS_NOT_STARTED =? STATUS_IN_PROGRESS) with false. cbv iota.
  unfold pipe_destroy, handle_destroy.
  cbv [bind ret rp_new h_in h_out h_err h_exit h_cout h_cerr h_blk PIPE_INVALID HANDLE_INVALID Z.eqb Pos.eqb].
  reflexivity.
Qed.

(* the whole call, spelled out: one allocation, its release, EINVAL *)
Theorem run_conflict_is_alloc_free fuel argv o src w :
  parse_options o (argv_form_of argv) = None ->
  reproc_run fuel argv o src w =
  (if o_fork o then ret REPROC_EINVAL else
   let* b := sys_malloc SIZEOF_REPROC_T in
   if b =? 0 then ret REPROC_ENOMEM else sys_free b ;> ret REPROC_EINVAL) w.
Proof.
  intros Hp. rewrite (run_rejects_conflicts fuel argv o src w Hp).
  destruct (o_fork o); [reflexivity|].
  unfold reproc_new. cbv beta delta [bind].
  destruct (sys_malloc SIZEOF_REPROC_T w) as [b w1|w1|w1|y w1]; try reflexivity.
  destruct (b =? 0); [reflexivity|]. cbv beta iota delta [ret].
  rewrite destroy_fresh. reflexivity.
Qed.

Theorem run_ex_conflict_is_alloc_free fuel argv o src s w :
  parse_options o (argv_form_of argv) = None ->
  reproc_run_ex fuel argv o src s w =
  (if o_fork o then ret (REPROC_EINVAL, s) else
   let* b := sys_malloc SIZEOF_REPROC_T in
   if b =? 0 then ret (REPROC_ENOMEM, s) else sys_free b ;> ret (REPROC_EINVAL, s)) w.
Proof.
  intros Hp. rewrite (run_ex_rejects_conflicts fuel argv o src s w Hp).
  destruct (o_fork o); [reflexivity|].
  unfold reproc_new. cbv beta delta [bind].
  destruct (sys_malloc SIZEOF_REPROC_T w) as [b w1|w1|w1|y w1]; try reflexivity.
  destruct (b =? 0); [reflexivity|]. cbv beta iota delta [ret].
  rewrite destroy_fresh. reflexivity.
Qed.
