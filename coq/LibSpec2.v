(* LibSpec2.v — relational post-conditions of the library model (no events): results of
   start, stop, wait as functions of the handle's life-cycle state, for every world. *)
From Verif Require Import Lib WorldSpec LibSpec.
From Coq Require Import Lia.
Local Open Scope Z_scope.

Definition post {A} (m : MW A) (R : A -> Prop) : Prop := forall w a w', m w = Ret a w' -> R a.

Lemma post_ret {A} (a : A) (R : A -> Prop) : R a -> post (ret a) R.
Proof. intros H w a' w' E. injection E as <- _. exact H. Qed.
Lemma post_bind {A B} (m : MW A) (f : A -> MW B) (R : A -> Prop) (Q : B -> Prop) :
  post m R -> (forall a, R a -> post (f a) Q) -> post (bind m f) Q.
Proof.
  intros Hm Hf w b w' E. unfold bind in E. destruct (m w) as [a w1|w1|w1|y w1] eqn:Em; try discriminate.
  eapply Hf; [eapply Hm; exact Em|exact E].
Qed.
Lemma post_any {A} (m : MW A) : post m (fun _ => True).
Proof. intros w a w' _. exact I. Qed.
Lemma post_bind_any {A B} (m : MW A) (f : A -> MW B) (Q : B -> Prop) :
  (forall a, post (f a) Q) -> post (bind m f) Q.
Proof. intros Hf. eapply post_bind; [apply post_any|]. intros a _. apply Hf. Qed.
Lemma post_weaken {A} (m : MW A) (R R' : A -> Prop) : (forall a, R a -> R' a) -> post m R -> post m R'.
Proof. intros H Hm w a w' E. apply H. eapply Hm. exact E. Qed.
Lemma post_of_emitsR {A} (m : MW A) P (R : A -> Prop) : emitsR m P R -> post m R.
Proof. intros H w a w' E. destruct (H w) as [_ Hr]. eapply Hr. exact E. Qed.

(* ---- pipe_destroy always yields the invalid marker ---- *)
Lemma post_pipe_destroy fd : post (pipe_destroy fd) (fun r => r = -1).
Proof.
  unfold pipe_destroy, handle_destroy, HANDLE_INVALID. intros w a w'.
  destruct (fd =? -1); [intros E; injection E as <- _; reflexivity|].
  unfold bind. destruct (sys_close fd w); try discriminate. intros E. injection E as <- _. reflexivity.
Qed.
Lemma post_redirect_destroy fd ty : post (redirect_destroy fd ty) (fun r => r = -1).
Proof.
  unfold redirect_destroy, HANDLE_INVALID. destruct (fd =? -1); [apply post_ret; reflexivity|].
  destruct (redirect_destroy_closes ty); [|apply post_ret; reflexivity].
  apply post_bind_any. intros _. apply post_ret. reflexivity.
Qed.

(* ---- the common exit block of start ---- *)
Definition all_invalid (p : rp) : Prop :=
  h_in p = -1 /\ h_out p = -1 /\ h_err p = -1 /\ h_exit p = -1.

Definition finish_post (p : rp) (r : Z) (res : Z * rp) : Prop :=
  fst res = r /\
  (r < 0 -> h_status (snd res) = h_status p /\ h_handle (snd res) = -1 /\ all_invalid (snd res)
            /\ h_stop (snd res) = h_stop p /\ h_deadline (snd res) = h_deadline p /\ h_blk (snd res) = h_blk p) /\
  (r = 0 -> h_status (snd res) = STATUS_IN_CHILD /\ h_handle (snd res) = -1 /\ all_invalid (snd res)) /\
  (0 < r -> h_status (snd res) = STATUS_IN_PROGRESS /\ h_handle (snd res) = h_handle p
            /\ h_stop (snd res) = h_stop p /\ h_deadline (snd res) = h_deadline p
            /\ h_nonblocking (snd res) = h_nonblocking p
            /\ h_in (snd res) = h_in p /\ h_out (snd res) = h_out p /\ h_err (snd res) = h_err p /\ h_exit (snd res) = h_exit p).

Lemma post_start_finish p r o cin cout cerr cexit :
  post (start_finish p r o cin cout cerr cexit) (finish_post p r).
Proof.
  unfold start_finish.
  apply post_bind_any. intros _.
  eapply post_bind; [apply post_redirect_destroy|]. intros co Hco.
  eapply post_bind; [apply post_redirect_destroy|]. intros ce Hce.
  apply post_bind_any. intros _.
  destruct (Z.ltb_spec r 0).
  - eapply post_bind; [apply post_pipe_destroy|]. intros a Ha.
    eapply post_bind; [apply post_pipe_destroy|]. intros b Hb.
    eapply post_bind; [apply post_pipe_destroy|]. intros c Hc.
    eapply post_bind; [apply post_pipe_destroy|]. intros d Hd.
    apply post_ret. subst. unfold finish_post, all_invalid, PROCESS_INVALID. cbn. repeat split; auto; lia.
  - destruct (Z.eqb_spec r 0).
    + apply post_ret. subst. unfold finish_post, all_invalid, PROCESS_INVALID, PIPE_INVALID. cbn. repeat split; auto; lia.
    + apply post_ret. unfold finish_post, all_invalid. cbn. repeat split; auto; lia.
Qed.

(* ---- reproc_start: the life-cycle transition is dictated by the sign of the result ---- *)
Definition start_post (p : rp) (o0 : options) (argv : option (list str)) (res : Z * rp) : Prop :=
  let r := fst res in let p' := snd res in
  (h_status p <> STATUS_NOT_STARTED -> r = REPROC_EINVAL /\ p' = p) /\
  (h_status p = STATUS_NOT_STARTED ->
     (parse_options o0 (argv_form_of argv) = None -> r = REPROC_EINVAL) /\
     (r < 0 -> h_status p' = STATUS_NOT_STARTED /\ h_handle p' = -1 /\ all_invalid p' /\ h_blk p' = h_blk p) /\
     (r = 0 -> h_status p' = STATUS_IN_CHILD /\ all_invalid p') /\
     (0 < r -> h_status p' = STATUS_IN_PROGRESS)).

Lemma finish_to_start p0 p r o0 argv res :
  h_status p0 = STATUS_NOT_STARTED -> h_status p = h_status p0 -> h_blk p = h_blk p0 ->
  (parse_options o0 (argv_form_of argv) = None -> r = REPROC_EINVAL) ->
  finish_post p r res -> start_post p0 o0 argv res.
Proof.
  intros Hns Hst Hb Hnone (Hr & Hneg & Hz & Hp).
  unfold start_post. cbn zeta. split; [intros Hc; contradiction|]. intros _.
  rewrite Hr. split; [exact Hnone|].
  split; [intros Hlt; destruct (Hneg Hlt) as (A & B & C & _ & _ & D); rewrite A, Hst, D; auto|].
  split; [intros Hz0; destruct (Hz Hz0) as (A & _ & C); auto|].
  intros Hgt. destruct (Hp Hgt) as (A & _). exact A.
Qed.

Lemma post_reproc_start p argv o0 src k :
  post (reproc_start p argv o0 src k) (start_post p o0 argv).
Proof.
  unfold reproc_start.
  destruct (Z.eqb_spec (h_status p) STATUS_NOT_STARTED) as [Hns|Hns]; cbn [negb].
  2:{ apply post_ret. unfold start_post. cbn. split; [auto|contradiction]. }
  destruct (parse_options o0 (argv_form_of argv)) as [o|] eqn:Epo.
  2:{ eapply post_weaken; [|apply post_start_finish]. intros res Hf.
      apply (finish_to_start p p REPROC_EINVAL o0 argv res Hns eq_refl eq_refl); [reflexivity|exact Hf]. }
  assert (Hfin : forall p1 r oo cin cout cerr cexit, h_status p1 = h_status p -> h_blk p1 = h_blk p ->
            post (start_finish p1 r oo cin cout cerr cexit) (start_post p o0 argv)).
  { intros p1 r oo cin cout cerr cexit Hs Hb. eapply post_weaken; [|apply post_start_finish]. intros res Hf.
    apply (finish_to_start p p1 r o0 argv res Hns Hs Hb); [intros E; rewrite Epo in E; discriminate|exact Hf]. }
  apply post_bind_any. intros [[[r pin] cin] rdi].
  destruct (r <? 0); [apply Hfin; reflexivity|].
  apply post_bind_any. intros [[[r1 pout] cout] rdo].
  destruct (r1 <? 0); [apply Hfin; reflexivity|].
  apply post_bind_any. intros [[[r2 perr] cerr] rde].
  destruct (r2 <? 0); [apply Hfin; reflexivity|].
  apply post_bind_any. intros [r3 [[pexit cexit]|]]; [|apply Hfin; reflexivity].
  apply post_bind_any. intros [r4 pin'].
  destruct (r4 <? 0); [apply Hfin; reflexivity|].
  apply post_bind_any. intros [r5 h].
  destruct (r5 <? 0); [apply Hfin; reflexivity|].
  apply post_bind_any. intros dl. apply Hfin; reflexivity.
Qed.

(* ---- stop: a non-negative result is always the cached status of the returned handle ---- *)
Definition status_result (res : Z * rp) : Prop := 0 <= fst res -> h_status (snd res) = fst res.

Lemma post_stop_loop acts : forall p r, r < 0 -> post (stop_loop acts p r) status_result.
Proof.
  induction acts as [|a rest IH]; intros p r Hr; cbn [stop_loop].
  { apply post_ret. unfold status_result. cbn. lia. }
  assert (Hstep : forall (act : MW Z),
    post (let* r0 := act in
          if r0 <? 0 then ret (r0, p) else
          let* '(r1, p1) := reproc_wait p (sa_timeout a) in
          if negb (r1 =? REPROC_ETIMEDOUT) then ret (r1, p1) else stop_loop rest p1 r1) status_result).
  { intros act. apply post_bind_any. intros r0.
    destruct (Z.ltb_spec r0 0); [apply post_ret; unfold status_result; cbn; lia|].
    eapply post_bind; [apply (post_of_emitsR _ _ _ (emitsR_reproc_wait p (sa_timeout a)))|].
    intros [r1 p1] (_ & _ & Hst). cbn [fst snd] in Hst.
    destruct (Z.eqb_spec r1 REPROC_ETIMEDOUT) as [->|Hne]; cbn [negb].
    - apply IH. unfold REPROC_ETIMEDOUT. lia.
    - apply post_ret. unfold status_result. cbn. exact Hst. }
  destruct (stop_action_kind (sa_action a)); try apply Hstep.
  apply IH. exact Hr.
Qed.

Lemma post_reproc_stop p a : post (reproc_stop p a) status_result.
Proof.
  unfold reproc_stop.
  destruct (h_status p =? STATUS_IN_CHILD); [apply post_ret; unfold status_result, REPROC_EINVAL; cbn; lia|].
  destruct (h_status p =? STATUS_NOT_STARTED); [apply post_ret; unfold status_result, REPROC_EINVAL; cbn; lia|].
  apply post_stop_loop. lia.
Qed.

(* the all-noop request is replaced by: wait until the deadline, then terminate and wait for ever *)
Lemma parse_stop_default s :
  sa_action (st_first s) = REPROC_STOP_NOOP -> sa_action (st_second s) = REPROC_STOP_NOOP ->
  sa_action (st_third s) = REPROC_STOP_NOOP ->
  let s' := parse_stop_actions s in
  st_first s' = {| sa_action := REPROC_STOP_WAIT; sa_timeout := REPROC_DEADLINE |} /\
  st_second s' = {| sa_action := REPROC_STOP_TERMINATE; sa_timeout := REPROC_INFINITE |} /\
  sa_action (st_third s') = REPROC_STOP_NOOP.
Proof.
  intros H1 H2 H3. unfold parse_stop_actions. rewrite H1, H2, H3. cbn. auto.
Qed.
Lemma parse_stop_other s :
  (sa_action (st_first s) <> REPROC_STOP_NOOP \/ sa_action (st_second s) <> REPROC_STOP_NOOP \/
   sa_action (st_third s) <> REPROC_STOP_NOOP) -> parse_stop_actions s = s.
Proof.
  intros H. unfold parse_stop_actions.
  destruct (Z.eqb_spec (sa_action (st_first s)) REPROC_STOP_NOOP); [|reflexivity].
  destruct (Z.eqb_spec (sa_action (st_second s)) REPROC_STOP_NOOP); [|reflexivity].
  destruct (Z.eqb_spec (sa_action (st_third s)) REPROC_STOP_NOOP); [|reflexivity].
  exfalso. tauto.
Qed.

(* ---- life-cycle guards: what each state dictates, without touching the world ---- *)
Lemma in_child_rejected p w : h_status p = STATUS_IN_CHILD ->
  reproc_terminate p w = Ret REPROC_EINVAL w /\ reproc_kill p w = Ret REPROC_EINVAL w
  /\ (forall t, reproc_wait p t w = Ret (REPROC_EINVAL, p) w)
  /\ (forall a, reproc_stop p a w = Ret (REPROC_EINVAL, p) w)
  /\ (forall s b n, reproc_read p s b n w = Ret (REPROC_EINVAL, [], p) w)
  /\ (forall b d, reproc_write p b d w = Ret (REPROC_EINVAL, p) w)
  /\ (forall s, reproc_close p s w = Ret (REPROC_EINVAL, p) w)
  /\ reproc_pid p = REPROC_EINVAL.
Proof.
  intros H. unfold reproc_terminate, reproc_kill, reproc_wait, reproc_stop, reproc_read, reproc_write, reproc_close, reproc_pid.
  rewrite H. cbn. repeat split; reflexivity.
Qed.

Lemma closed_stream_read p s n w : h_status p <> STATUS_IN_CHILD -> (s = REPROC_STREAM_OUT \/ s = REPROC_STREAM_ERR) ->
  (if s =? REPROC_STREAM_OUT then h_out p else h_err p) = PIPE_INVALID ->
  reproc_read p s true n w = Ret (REPROC_EPIPE, [], p) w.
Proof.
  intros Hs Hst Hp. unfold reproc_read.
  destruct (Z.eqb_spec (h_status p) STATUS_IN_CHILD); [contradiction|].
  destruct Hst as [-> | ->]; cbn in *; rewrite Hp; reflexivity.
Qed.
Lemma closed_stream_write p d w : h_status p <> STATUS_IN_CHILD -> h_in p = PIPE_INVALID ->
  reproc_write p true d w = Ret (REPROC_EPIPE, p) w.
Proof.
  intros Hs Hp. unfold reproc_write.
  destruct (Z.eqb_spec (h_status p) STATUS_IN_CHILD); [contradiction|]. cbn. rewrite Hp. reflexivity.
Qed.
(* closing an already closed stream: nothing happens (idempotent) *)
Lemma close_idempotent p s w : h_status p <> STATUS_IN_CHILD ->
  (s = REPROC_STREAM_IN /\ h_in p = -1) \/ (s = REPROC_STREAM_OUT /\ h_out p = -1) \/ (s = REPROC_STREAM_ERR /\ h_err p = -1) ->
  reproc_close p s w = Ret (0, p) w.
Proof.
  intros Hs H. unfold reproc_close.
  destruct (Z.eqb_spec (h_status p) STATUS_IN_CHILD); [contradiction|].
  destruct p; cbn in *.
  destruct H as [[-> E]|[[-> E]|[-> E]]]; subst; reflexivity.
Qed.
Lemma bad_arguments_rejected p w :
  (forall s b n, s <> REPROC_STREAM_OUT -> s <> REPROC_STREAM_ERR -> h_status p <> STATUS_IN_CHILD -> reproc_read p s b n w = Ret (REPROC_EINVAL, [], p) w)
  /\ (forall s n, h_status p <> STATUS_IN_CHILD -> (s = REPROC_STREAM_OUT \/ s = REPROC_STREAM_ERR) -> reproc_read p s false n w = Ret (REPROC_EINVAL, [], p) w)
  /\ (forall s, h_status p <> STATUS_IN_CHILD -> s <> REPROC_STREAM_IN -> s <> REPROC_STREAM_OUT -> s <> REPROC_STREAM_ERR -> reproc_close p s w = Ret (REPROC_EINVAL, p) w).
Proof.
  repeat split.
  - intros s b n H1 H2 Hs. unfold reproc_read.
    destruct (Z.eqb_spec (h_status p) STATUS_IN_CHILD); [contradiction|].
    destruct (Z.eqb_spec s REPROC_STREAM_OUT); [contradiction|]. destruct (Z.eqb_spec s REPROC_STREAM_ERR); [contradiction|]. reflexivity.
  - intros s n Hs [-> | ->]; unfold reproc_read;
    (destruct (Z.eqb_spec (h_status p) STATUS_IN_CHILD); [contradiction|]); reflexivity.
  - intros s Hs H0 H1 H2. unfold reproc_close.
    destruct (Z.eqb_spec (h_status p) STATUS_IN_CHILD); [contradiction|].
    destruct (Z.eqb_spec s REPROC_STREAM_IN); [contradiction|]. destruct (Z.eqb_spec s REPROC_STREAM_OUT); [contradiction|].
    destruct (Z.eqb_spec s REPROC_STREAM_ERR); [contradiction|]. reflexivity.
Qed.

(* a fresh handle *)
Lemma new_handle_state b : h_status (rp_new b) = STATUS_NOT_STARTED /\ all_invalid (rp_new b) /\ h_handle (rp_new b) = -1.
Proof. unfold all_invalid. cbn. repeat split; reflexivity. Qed.

(* invalid options on a fresh handle: start answers EINVAL and NOTHING happens in the world *)
Lemma start_invalid_options_no_effect b argv o0 src k w :
  parse_options o0 (argv_form_of argv) = None ->
  reproc_start (rp_new b) argv o0 src k w = Ret (REPROC_EINVAL, rp_new b) w.
Proof.
  intros Hp. unfold reproc_start. cbn [h_status rp_new]. cbn. rewrite Hp. reflexivity.
Qed.
