(* LibSpec.v — footprint specifications of the library model's post-start API:
   which system calls an operation on a handle may make, with which arguments, in every
   outcome and for every world (fault plan, latency plan, child scripts are arbitrary). *)
From Verif Require Import Lib WorldSpec.
From Coq Require Import Lia.
Local Open Scope Z_scope.

(* emission + a pure post-condition on the returned value *)
Definition emitsR {A} (m : MW A) (P : event -> Prop) (R : A -> Prop) : Prop :=
  forall w, appended P w (oworld (m w)) /\ forall a w', m w = Ret a w' -> R a.

Lemma emitsR_of_emits {A} (m : MW A) P : emits m P -> emitsR m P (fun _ => True).
Proof. intros H w. split; [apply H|auto]. Qed.
Lemma emits_of_emitsR {A} (m : MW A) P R : emitsR m P R -> emits m P.
Proof. intros H w. apply H. Qed.

Lemma emitsR_ret {A} (a : A) P (R : A -> Prop) : R a -> emitsR (ret a) P R.
Proof. intros H w. split; [apply appended_refl|]. intros a' w' E. injection E as <- _. exact H. Qed.

Lemma emitsR_bind {A B} (m : MW A) (f : A -> MW B) P R Q :
  emitsR m P R -> (forall a, R a -> emitsR (f a) P Q) -> emitsR (bind m f) P Q.
Proof.
  intros Hm Hf w. unfold bind. destruct (Hm w) as [Ha Hr].
  destruct (m w) as [a w1|w1|w1|y w1] eqn:E; cbn [oworld] in *.
  - destruct (Hf a (Hr a w1 eq_refl) w1) as [Ha' Hr']. split.
    + eapply appended_trans; eassumption.
    + exact Hr'.
  - split; [exact Ha|discriminate].
  - split; [exact Ha|discriminate].
  - split; [exact Ha|discriminate].
Qed.

Lemma emitsR_weaken {A} (m : MW A) (P P' : event -> Prop) (R R' : A -> Prop) :
  (forall e, P e -> P' e) -> (forall a, R a -> R' a) -> emitsR m P R -> emitsR m P' R'.
Proof.
  intros HP HR H w. destruct (H w) as [Ha Hr]. split.
  - eapply appended_weaken; eassumption.
  - intros a w' E. apply HR. eapply Hr. exact E.
Qed.

Lemma emitsR_bind_emits {A B} (m : MW A) (f : A -> MW B) P Q :
  emits m P -> (forall a, emitsR (f a) P Q) -> emitsR (bind m f) P Q.
Proof. intros Hm Hf. eapply emitsR_bind; [apply emitsR_of_emits, Hm|]. intros a _. apply Hf. Qed.

(* ---- handles ---- *)
Definition owned (p : rp) (fd : Z) : Prop :=
  fd = h_in p \/ fd = h_out p \/ fd = h_err p \/ fd = h_exit p \/ fd = h_cout p \/ fd = h_cerr p.

(* events an operation on handle [p] may produce once the handle is started *)
Definition api_ev (p : rp) (e : event) : Prop :=
  (e_call e = CKill /\ (e_args e = [h_handle p; SIGTERM] \/ e_args e = [h_handle p; SIGKILL]))
  \/ (e_call e = CWaitpid /\ e_args e = [h_handle p])
  \/ (e_call e = CClose /\ exists fd, e_args e = [fd] /\ fd <> -1 /\ owned p fd)
  \/ (e_call e = CPoll /\ exists tmo, e_args e = [tmo; h_exit p; PIPE_EVENT_IN])
  \/ e_call e = CClock \/ e_call e = CCalloc \/ (e_call e = CFree).

(* p' is p after some of its descriptors were closed / its status cached *)
Definition shrinks (p p' : rp) : Prop :=
  h_handle p' = h_handle p /\ h_blk p' = h_blk p /\ h_stop p' = h_stop p /\ h_deadline p' = h_deadline p
  /\ (h_exit p' = h_exit p \/ h_exit p' = -1)
  /\ forall fd, owned p' fd -> fd = -1 \/ owned p fd.

Lemma shrinks_refl p : shrinks p p.
Proof. unfold shrinks. repeat split; auto. Qed.

Lemma api_ev_shrinks p p' e : shrinks p p' -> h_exit p' = h_exit p -> api_ev p' e -> api_ev p e.
Proof.
  intros (Hh & _ & _ & _ & _ & Ho) Hx [H|[H|[H|[H|H]]]]; unfold api_ev.
  - left. rewrite <- Hh. exact H.
  - right; left. rewrite <- Hh. exact H.
  - right; right; left. destruct H as [Hc (fd & Ha & Hn & Hw)]. split; [exact Hc|].
    exists fd. split; [exact Ha|]. split; [exact Hn|]. destruct (Ho fd Hw); [contradiction|assumption].
  - right; right; right; left. rewrite <- Hx. exact H.
  - right; right; right; right. exact H.
Qed.

(* ---- leaf functions ---- *)
Lemma emits_handle_destroy h : emits (handle_destroy h) (fun e => e_call e = CClose /\ e_args e = [h] /\ h <> -1).
Proof.
  unfold handle_destroy, HANDLE_INVALID. destruct (Z.eqb_spec h (-1)).
  - apply emits_ret.
  - apply emits_bind.
    + eapply emits_weaken; [|apply emits_sys_close]. intros e [Hc Ha]. auto.
    + intros _. apply emits_ret.
Qed.

Lemma emitsR_pipe_destroy p fd : owned p fd ->
  emitsR (pipe_destroy fd) (api_ev p) (fun r => r = -1).
Proof.
  intros Ho w. split.
  - eapply appended_weaken; [|apply (emits_handle_destroy fd)].
    intros e (Hc & Ha & Hn). right; right; left. split; [exact Hc|]. exists fd. auto.
  - unfold pipe_destroy, handle_destroy, HANDLE_INVALID. intros a w'.
    destruct (fd =? -1); [intros E; injection E as <- _; reflexivity|].
    unfold bind. destruct (sys_close fd w); try discriminate. intros E. injection E as <- _. reflexivity.
Qed.

Lemma emits_now (P : event -> Prop) : (forall e, e_call e = CClock -> P e) -> emits now P.
Proof.
  intros H. unfold now. apply emits_bind.
  - eapply emits_weaken; [|apply emits_sys_clock]. intros e [Hc _]. auto.
  - intros [s n]. apply emits_ret.
Qed.

Lemma emits_expiry t d (P : event -> Prop) : (forall e, e_call e = CClock -> P e) -> emits (expiry t d) P.
Proof.
  intros H. unfold expiry. destruct (expiry_needs_clock t d).
  - apply emits_bind; [apply emits_now, H|]. intros n. apply emits_ret.
  - apply emits_ret.
Qed.

Lemma emits_pipe_poll_exit p tmo :
  emits (pipe_poll [(h_exit p, PIPE_EVENT_IN)] tmo) (api_ev p).
Proof.
  unfold pipe_poll.
  assert (HC : forall k n, emits (sys_calloc k n) (api_ev p)).
  { intros. eapply emits_weaken; [|apply emits_sys_calloc]. intros e [Hc _]. unfold api_ev. tauto. }
  assert (HF : forall id, emits (sys_free id) (api_ev p)).
  { intros. eapply emits_weaken; [|apply emits_sys_free]. intros e [Hc _]. unfold api_ev. tauto. }
  apply emits_bind; [apply HC|]. intros blk.
  destruct (blk =? 0).
  - apply emits_bind; [apply emits_get_errno|]. intros e. apply emits_bind; [apply HF|]. intros _. apply emits_ret.
  - apply emits_bind.
    + eapply emits_weaken; [|apply emits_sys_poll]. intros e [Hc Ha]. unfold api_ev.
      right; right; right; left. split; [exact Hc|]. exists tmo. exact Ha.
    + intros [r rev]. destruct (r <? 0).
      * apply emits_bind; [apply emits_get_errno|]. intros e. apply emits_bind; [apply HF|]. intros _. apply emits_ret.
      * apply emits_bind; [apply HF|]. intros _. apply emits_ret.
Qed.

Lemma emits_process_wait p : emits (process_wait (h_handle p)) (api_ev p).
Proof.
  unfold process_wait. apply emits_bind.
  - eapply emits_weaken; [|apply emits_sys_waitpid]. intros e [Hc Ha]. unfold api_ev. tauto.
  - intros [r st]. destruct (r <? 0); [|apply emits_ret].
    apply emits_bind; [apply emits_get_errno|]. intros e. apply emits_ret.
Qed.

Lemma emits_process_terminate p : emits (process_terminate (h_handle p)) (api_ev p).
Proof.
  unfold process_terminate. apply emits_bind.
  - eapply emits_weaken; [|apply emits_sys_kill]. intros e [Hc Ha]. unfold api_ev. tauto.
  - intros r. destruct (r <? 0); [|apply emits_ret].
    apply emits_bind; [apply emits_get_errno|]. intros e. apply emits_ret.
Qed.
Lemma emits_process_kill p : emits (process_kill (h_handle p)) (api_ev p).
Proof.
  unfold process_kill. apply emits_bind.
  - eapply emits_weaken; [|apply emits_sys_kill]. intros e [Hc Ha]. unfold api_ev. tauto.
  - intros r. destruct (r <? 0); [|apply emits_ret].
    apply emits_bind; [apply emits_get_errno|]. intros e. apply emits_ret.
Qed.

(* ---- API functions ---- *)
Lemma emits_reproc_terminate p : emits (reproc_terminate p) (api_ev p).
Proof.
  unfold reproc_terminate.
  destruct (h_status p =? STATUS_IN_CHILD); [apply emits_ret|].
  destruct (h_status p =? STATUS_NOT_STARTED); [apply emits_ret|].
  destruct (0 <=? h_status p); [apply emits_ret|]. apply emits_process_terminate.
Qed.
Lemma emits_reproc_kill p : emits (reproc_kill p) (api_ev p).
Proof.
  unfold reproc_kill.
  destruct (h_status p =? STATUS_IN_CHILD); [apply emits_ret|].
  destruct (h_status p =? STATUS_NOT_STARTED); [apply emits_ret|].
  destruct (0 <=? h_status p); [apply emits_ret|]. apply emits_process_kill.
Qed.

Lemma shrinks_status_exit r x p : x = -1 -> shrinks p (rp_with_status r (rp_with_exit x p)).
Proof.
  intros ->. unfold shrinks, owned; cbn. repeat split; auto.
  intros fd H. decompose [or] H; subst; auto 10.
Qed.

Lemma emitsR_reproc_wait p t :
  emitsR (reproc_wait p t) (api_ev p)
         (fun rp' => shrinks p (snd rp') /\ (fst rp' < 0 -> snd rp' = p) /\ (0 <= fst rp' -> h_status (snd rp') = fst rp')).
Proof.
  unfold reproc_wait.
  destruct (h_status p =? STATUS_IN_CHILD).
  { apply emitsR_ret. cbn. split; [apply shrinks_refl|]. split; auto. unfold REPROC_EINVAL. lia. }
  destruct (h_status p =? STATUS_NOT_STARTED).
  { apply emitsR_ret. cbn. split; [apply shrinks_refl|]. split; auto. unfold REPROC_EINVAL. lia. }
  destruct (Z.leb_spec 0 (h_status p)).
  { apply emitsR_ret. cbn. split; [apply shrinks_refl|]. split; auto. }
  assert (HCk : forall e, e_call e = CClock -> api_ev p e) by (intros e Hc; unfold api_ev; tauto).
  apply emitsR_bind_emits.
  { destruct (t =? REPROC_DEADLINE); [|apply emits_ret].
    apply emits_bind; [apply emits_expiry, HCk|]. intros t'. apply emits_ret. }
  intros tmo. apply emitsR_bind_emits; [apply emits_pipe_poll_exit|]. intros [r rev].
  destruct (Z.leb_spec r 0).
  { apply emitsR_ret. cbn [fst snd]. split; [apply shrinks_refl|]. split; [auto|].
    intros Hge. exfalso. destruct (Z.eqb_spec r 0); unfold REPROC_ETIMEDOUT in *; lia. }
  apply emitsR_bind_emits; [apply emits_process_wait|]. intros r'.
  destruct (Z.ltb_spec r' 0).
  { apply emitsR_ret. cbn. split; [apply shrinks_refl|]. split; auto. lia. }
  eapply emitsR_bind; [apply (emitsR_pipe_destroy p (h_exit p)); unfold owned; tauto|].
  intros x Hx. apply emitsR_ret. cbn [fst snd]. split; [apply shrinks_status_exit, Hx|].
  split; [lia|]. intros _. reflexivity.
Qed.

(* once a status is cached the handle is inert: no event, no time, same answers *)
Lemma reproc_wait_cached p t w : 0 <= h_status p -> reproc_wait p t w = Ret (h_status p, p) w.
Proof.
  intros H. unfold reproc_wait, STATUS_IN_CHILD, STATUS_NOT_STARTED.
  destruct (Z.eqb_spec (h_status p) (-3)); [lia|]. destruct (Z.eqb_spec (h_status p) (-1)); [lia|].
  destruct (Z.leb_spec 0 (h_status p)); [reflexivity|lia].
Qed.
Lemma reproc_terminate_cached p w : 0 <= h_status p -> reproc_terminate p w = Ret 0 w.
Proof.
  intros H. unfold reproc_terminate, STATUS_IN_CHILD, STATUS_NOT_STARTED.
  destruct (Z.eqb_spec (h_status p) (-3)); [lia|]. destruct (Z.eqb_spec (h_status p) (-1)); [lia|].
  destruct (Z.leb_spec 0 (h_status p)); [reflexivity|lia].
Qed.
Lemma reproc_kill_cached p w : 0 <= h_status p -> reproc_kill p w = Ret 0 w.
Proof.
  intros H. unfold reproc_kill, STATUS_IN_CHILD, STATUS_NOT_STARTED.
  destruct (Z.eqb_spec (h_status p) (-3)); [lia|]. destruct (Z.eqb_spec (h_status p) (-1)); [lia|].
  destruct (Z.leb_spec 0 (h_status p)); [reflexivity|lia].
Qed.

(* the stop loop: the handle record only changes on the iteration that ends the loop *)
Lemma emitsR_stop_loop acts : forall p r,
  emitsR (stop_loop acts p r) (api_ev p) (fun rp' => shrinks p (snd rp')).
Proof.
  induction acts as [|a rest IH]; intros p r; cbn [stop_loop].
  { apply emitsR_ret. apply shrinks_refl. }
  destruct (stop_action_kind (sa_action a)) eqn:K.
  - apply IH.
  - (* wait *)
    apply emitsR_bind_emits; [apply emits_ret|]. intros r0.
    destruct (r0 <? 0); [apply emitsR_ret, shrinks_refl|].
    eapply emitsR_bind; [apply emitsR_reproc_wait|]. intros [r1 p1] (Hs & Hneg & _). cbn [fst snd] in *.
    destruct (Z.eqb_spec r1 REPROC_ETIMEDOUT) as [->|Hne]; cbn [negb].
    + rewrite Hneg by (unfold REPROC_ETIMEDOUT; lia). apply IH.
    + apply emitsR_ret. exact Hs.
  - apply emitsR_bind_emits; [apply emits_reproc_terminate|]. intros r0.
    destruct (r0 <? 0); [apply emitsR_ret, shrinks_refl|].
    eapply emitsR_bind; [apply emitsR_reproc_wait|]. intros [r1 p1] (Hs & Hneg & _). cbn [fst snd] in *.
    destruct (Z.eqb_spec r1 REPROC_ETIMEDOUT) as [->|Hne]; cbn [negb].
    + rewrite Hneg by (unfold REPROC_ETIMEDOUT; lia). apply IH.
    + apply emitsR_ret. exact Hs.
  - apply emitsR_bind_emits; [apply emits_reproc_kill|]. intros r0.
    destruct (r0 <? 0); [apply emitsR_ret, shrinks_refl|].
    eapply emitsR_bind; [apply emitsR_reproc_wait|]. intros [r1 p1] (Hs & Hneg & _). cbn [fst snd] in *.
    destruct (Z.eqb_spec r1 REPROC_ETIMEDOUT) as [->|Hne]; cbn [negb].
    + rewrite Hneg by (unfold REPROC_ETIMEDOUT; lia). apply IH.
    + apply emitsR_ret. exact Hs.
  - apply emitsR_bind_emits; [apply emits_ret|]. intros r0.
    destruct (r0 <? 0); [apply emitsR_ret, shrinks_refl|].
    eapply emitsR_bind; [apply emitsR_reproc_wait|]. intros [r1 p1] (Hs & Hneg & _). cbn [fst snd] in *.
    destruct (Z.eqb_spec r1 REPROC_ETIMEDOUT) as [->|Hne]; cbn [negb].
    + rewrite Hneg by (unfold REPROC_ETIMEDOUT; lia). apply IH.
    + apply emitsR_ret. exact Hs.
Qed.

Lemma emitsR_reproc_stop p a :
  emitsR (reproc_stop p a) (api_ev p) (fun rp' => shrinks p (snd rp')).
Proof.
  unfold reproc_stop.
  destruct (h_status p =? STATUS_IN_CHILD); [apply emitsR_ret, shrinks_refl|].
  destruct (h_status p =? STATUS_NOT_STARTED); [apply emitsR_ret, shrinks_refl|].
  apply emitsR_stop_loop.
Qed.

(* destroy: the stop policy, then close what is still owned, then free the block *)
Lemma emits_reproc_destroy p : emits (reproc_destroy p) (api_ev p).
Proof.
  unfold reproc_destroy. eapply emits_of_emitsR.
  eapply emitsR_bind with (R := fun p' => shrinks p p').
  { destruct (h_status p =? STATUS_IN_PROGRESS).
    - eapply emitsR_bind; [apply emitsR_reproc_stop|]. intros [r p'] Hs. apply emitsR_ret. exact Hs.
    - apply emitsR_ret, shrinks_refl. }
  intros p' Hs.
  assert (Hd : forall fd, owned p' fd -> emits (pipe_destroy fd) (api_ev p)).
  { intros fd Ho. destruct Hs as (_ & _ & _ & _ & _ & Hsub).
    destruct (Hsub fd Ho) as [->|Ho'].
    - unfold pipe_destroy, handle_destroy, HANDLE_INVALID. cbn. apply emits_ret.
    - eapply emits_of_emitsR. apply (emitsR_pipe_destroy p fd Ho'). }
  apply emitsR_of_emits.
  apply emits_bind; [apply Hd; unfold owned; tauto|]. intros _.
  apply emits_bind; [apply Hd; unfold owned; tauto|]. intros _.
  apply emits_bind; [apply Hd; unfold owned; tauto|]. intros _.
  apply emits_bind; [apply Hd; unfold owned; tauto|]. intros _.
  apply emits_bind; [apply Hd; unfold owned; tauto|]. intros _.
  apply emits_bind; [apply Hd; unfold owned; tauto|]. intros _.
  eapply emits_weaken; [|apply emits_sys_free]. intros e [Hc _]. unfold api_ev. tauto.
Qed.

(* cached status: stop returns it without any event when its first effective action is valid *)
Lemma stop_loop_cached acts p r w : 0 <= h_status p ->
  (exists a rest pre, acts = pre ++ a :: rest /\ Forall (fun x => stop_action_kind (sa_action x) = SK_noop) pre
                      /\ stop_action_kind (sa_action a) <> SK_noop /\ stop_action_kind (sa_action a) <> SK_invalid) ->
  stop_loop acts p r w = Ret (h_status p, p) w.
Proof.
  intros Hst (a & rest & pre & -> & Hpre & Hn & Hi). revert r.
  induction pre as [|x pre IH]; intros r; cbn [app stop_loop].
  - destruct (stop_action_kind (sa_action a)) eqn:K; try contradiction.
    + unfold bind, ret. cbn. rewrite reproc_wait_cached by assumption.
      destruct (Z.eqb_spec (h_status p) REPROC_ETIMEDOUT) as [E|E]; [unfold REPROC_ETIMEDOUT in E; lia|reflexivity].
    + unfold bind. rewrite reproc_terminate_cached by assumption. cbn.
      unfold bind. rewrite reproc_wait_cached by assumption.
      destruct (Z.eqb_spec (h_status p) REPROC_ETIMEDOUT) as [E|E]; [unfold REPROC_ETIMEDOUT in E; lia|reflexivity].
    + unfold bind. rewrite reproc_kill_cached by assumption. cbn.
      unfold bind. rewrite reproc_wait_cached by assumption.
      destruct (Z.eqb_spec (h_status p) REPROC_ETIMEDOUT) as [E|E]; [unfold REPROC_ETIMEDOUT in E; lia|reflexivity].
  - inversion Hpre as [|? ? Hx Hrest]; subst. rewrite Hx. apply IH. exact Hrest.
Qed.
