(* Properties_C04.v — C04: start is all-or-nothing.  Theorems only: the handle-state half, and what
   the RESULT of start means under every fault plan (C04_start_result, proof in StartSpec.v), and that
   a failed start leaves no descriptor and no block behind and a fresh handle, under every fault plan
   (C04_failed_start_leaves_nothing, proofs in FdSpec.v / HeapSpec.v); the child residue and the
   error cause are decided by the fault enumeration of the tie. *)
From Verif Require Import Lib Build OptSpec WorldSpec WorldSpec2 LibSpec LibSpec2 ParentSpec StartSpec FdSpec HeapSpec MemSpec.
From Coq Require Import Lia.
Local Open Scope Z_scope.

(* whatever the world does (any fault plan): a negative result leaves the handle not started with
   every pipe field and the process handle invalid — so it can be started again or destroyed;
   a positive result means "running"; zero means "in the forked child" *)
Theorem C04_handle_state_by_result : forall p argv o src k,
  post (reproc_start p argv o src k) (start_post p o argv).
Proof. exact post_reproc_start. Qed.
Print Assumptions C04_handle_state_by_result.

(* the exit block: on failure every parent pipe end is destroyed and the invalid marker stored *)
Theorem C04_exit_block : forall p r o cin cout cerr cexit,
  post (start_finish p r o cin cout cerr cexit) (finish_post p r).
Proof. exact post_start_finish. Qed.
Print Assumptions C04_exit_block.

(* invalid options on a fresh handle: EINVAL, and nothing at all happens in the world *)
Theorem C04_invalid_options_no_effect : forall b argv o src k w,
  parse_options o (argv_form_of argv) = None ->
  reproc_start (rp_new b) argv o src k w = Ret (REPROC_EINVAL, rp_new b) w.
Proof. exact start_invalid_options_no_effect. Qed.
Print Assumptions C04_invalid_options_no_effect.

(* WHAT THE RESULT MEANS, EVERY FAULT PLAN (any calls failing at any call index with any error
   number, any latencies, whatever the child and all other processes do): whenever reproc_start
   returns in the caller, either the result is negative and the life-cycle marker is what it was
   (a failure of any call -- allocation, pipe, fcntl, getcwd, fork, sigprocmask, waitpid ... -- never
   surfaces as success: the error number read after a failed call is positive), or the result is 1,
   the handle is running, its pid is POSITIVE and is exactly the value returned by a fork call
   that this very start made (logged in the trace after the call began) -- never 0, -1, the
   invalid marker or the pid of some other process. *)
Theorem C04_start_result : forall p argv o src (ck : rp -> MW unit) w r p' w',
  WorldSpec2.wf w -> 0 <= w_cur w -> 0 < w_next_blk w -> (forall q, kp (w_cur w) (ck q)) ->
  reproc_start p argv o src ck w = Ret (r, p') w' ->
  (r < 0 /\ h_status p' = h_status p) \/
  (r = 1 /\ 0 < h_handle p' /\ h_status p' = STATUS_IN_PROGRESS /\
   exists l ev, w_trace w' = l ++ w_trace w /\ In ev l /\ e_call ev = CFork /\ e_ret ev = h_handle p' /\ e_pid ev = w_cur w').
Proof.
  intros p argv o src ck w r p' w' W Hp Hb Hk E.
  destruct (reproc_start_result p argv o src ck w r p' w' W Hp Hb Hk E) as [H|(H1 & H2 & H3 & H4)]; [left; exact H|right].
  split; [exact H1|]. split; [exact H2|]. split; [exact H4|exact H3].
Qed.
Print Assumptions C04_start_result.

(* A FAILED START LEAVES NOTHING, EVERY FAULT PLAN: on a handle as reproc_new makes it (or as a
   previous failed start left it), whenever start returns a negative result -- whichever call failed,
   at whatever point, on either side of fork -- the caller's descriptor table is exactly what it was
   (numbers, objects, flags), its heap holds exactly the blocks it held, and the handle is again
   exactly as reproc_new makes it: it can be started again or destroyed.  (The child balance --
   no process left behind -- is decided by the tie; see D23.) *)
Theorem C04_failed_start_leaves_nothing : forall p argv o src (ck : rp -> MW unit) w r p' w',
  WorldSpec2.wf w -> 0 <= w_cur w -> w_cur w = w_main w -> 0 < w_next_blk w ->
  (forall id, w_next_blk w <= id -> heap_live id w = false) ->
  (forall q, kp (w_cur w) (ck q)) -> (forall q, hk true (ck q)) -> fresh_handle p ->
  reproc_start p argv o src ck w = Ret (r, p') w' -> r < 0 ->
  pr_fds (curp w') = pr_fds (curp w) /\ (forall id, heap_live id w' = heap_live id w) /\ fresh_handle p' /\ h_blk p' = h_blk p.
Proof. exact failed_start_leaves_nothing. Qed.
Print Assumptions C04_failed_start_leaves_nothing.

(* the layer below: process_start returns a negative error with the handle untouched, or 1 with the
   positive pid of its own fork *)
Theorem C04_process_start_result : forall pr argv o ck w r pid w',
  WorldSpec2.wf w -> 0 <= w_cur w -> NB w -> kp (w_cur w) ck -> argv <> Some [] ->
  process_start pr argv o ck w = Ret (r, pid) w' ->
  (r < 0 /\ pid = pr) \/ (r = 1 /\ 0 < pid /\ FK (w_trace w) pid w').
Proof. exact process_start_result. Qed.
Print Assumptions C04_process_start_result.

(* non-vacuity: on the world of C12_ex_start's kind, a start with a failing fork returns the
   negative fork error, and without faults returns 1 with pid 4328 *)
Definition C04_ex_prog : str := [47; 116].
Definition C04_ex_world (faults : list (Z * positive)) : world :=
  build_world 1000 0 7 [(0, {| f_obj := OExt 1 ARd; f_cloexec := false; f_nonblock := false |})]
              [] [] [47] [] 64 [([47], FDir); (C04_ex_prog, FExec [])] faults [] std_files.
Example C04_ex_result :
  WorldSpec2.wf (C04_ex_world []) /\ 0 <= w_cur (C04_ex_world []) /\ 0 < w_next_blk (C04_ex_world []) /\
  match reproc_start (rp_new 1) (Some [C04_ex_prog]) options_zero 0 (fun _ => ret tt) (C04_ex_world []) with
  | Ret (r, p') _ => (r =? 1) && (h_handle p' =? 4328) | _ => false end = true /\
  match reproc_start (rp_new 1) (Some [C04_ex_prog]) options_zero 0 (fun _ => ret tt) (C04_ex_world [(30, 11%positive)]) with
  | Ret (r, p') _ => (r <? 0) && (h_handle p' =? -1) | _ => false end = true.
Proof.
  split.
  { split.
    - eexists. split; [apply lookup_singleton|]. split; reflexivity.
    - intros k [x Hk]. cbn in Hk. apply lookup_singleton_Some in Hk. destruct Hk as [<- _]. cbn. lia. }
  split; [cbn; lia|]. split; [cbn; lia|]. split; vm_compute; reflexivity.
Qed.

(* the premises of C04_failed_start_leaves_nothing hold on that world, with the failing fork plan *)
Example C04_ex_leaves_nothing :
  let w := C04_ex_world [(30, 11%positive)] in
  w_cur w = w_main w /\ (forall id, w_next_blk w <= id -> heap_live id w = false) /\ fresh_handle (rp_new 1) /\
  (forall q : rp, kp (w_cur w) (ret tt)) /\ (forall q : rp, hk true (ret tt)).
Proof.
  cbn zeta. split; [reflexivity|]. split.
  - intros id _. unfold heap_live. cbn. rewrite lookup_empty. reflexivity.
  - split; [apply fresh_rp_new|]. split; [intros _; apply kp_ret|intros _; apply hk_ret].
Qed.

Example C04_ex : start_post (rp_new 1) (Build_options None 0 None (Build_redirect 0 0 0 None) (Build_redirect 0 0 0 None) (Build_redirect 0 0 0 None) false false 0 None null_stop 0 false 0 false false) None (REPROC_EINVAL, rp_new 1).
Proof.
  unfold start_post. cbn. split; [intros H; exfalso; apply H; reflexivity|]. intros _.
  unfold REPROC_EINVAL, STATUS_NOT_STARTED, all_invalid. cbn. repeat split; auto; lia.
Qed.
