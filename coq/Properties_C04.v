(* Properties_C04.v — C04: start is all-or-nothing.  Theorems only (the handle-state half; the
   descriptor/heap/child half and the error cause are decided by the fault enumeration of the tie). *)
From Verif Require Import Lib WorldSpec LibSpec LibSpec2.
From Coq Require Import Lia.
Local Open Scope Z_scope.

(* whatever the world does (any fault plan): a negative result leaves the handle not started with
   every pipe field and the process handle invalid — so it can be started again or destroyed;
   a positive result means "running"; zero means "in the forked child" *)
Theorem C04_handle_state_by_result : forall p argv o src k,
  post (reproc_start p argv o src k) (start_post p o argv).
Proof. exact post_reproc_start. Qed.
Print Assumptions C04_handle_state_by_result.

(* the exit block: on failure every parent pipe end is destroyed and the invalid marker stored *)
Theorem C04_exit_block : forall p r o cin cout cerr cexit,
  post (start_finish p r o cin cout cerr cexit) (finish_post p r).
Proof. exact post_start_finish. Qed.
Print Assumptions C04_exit_block.

(* invalid options on a fresh handle: EINVAL, and nothing at all happens in the world *)
Theorem C04_invalid_options_no_effect : forall b argv o src k w,
  parse_options o (argv_form_of argv) = None ->
  reproc_start (rp_new b) argv o src k w = Ret (REPROC_EINVAL, rp_new b) w.
Proof. exact start_invalid_options_no_effect. Qed.
Print Assumptions C04_invalid_options_no_effect.

Example C04_ex : start_post (rp_new 1) (Build_options None 0 None (Build_redirect 0 0 0 None) (Build_redirect 0 0 0 None) (Build_redirect 0 0 0 None) false false 0 None null_stop 0 false 0 false false) None (REPROC_EINVAL, rp_new 1).
Proof.
  unfold start_post. cbn. split; [intros H; exfalso; apply H; reflexivity|]. intros _.
  unfold REPROC_EINVAL, STATUS_NOT_STARTED, all_invalid. cbn. repeat split; auto; lia.
Qed.
