(* Properties_C08.v — C08: deadlines and time-outs bound every wait and poll.  Theorems only. *)
From Verif Require Import Lib WorldSpec LibSpec LibSpec2 ProofsPure ProofsFed TimeSpec.
From Coq Require Import Lia.
Local Open Scope Z_scope.

(* effective timeout = min(timeout, time left until the deadline), with an 'already expired' marker *)
Theorem C08_expiry_infinite_iff : forall t d n, 0 <= n -> (t = REPROC_INFINITE \/ 0 <= t) -> (d = REPROC_INFINITE \/ 0 <= d) ->
  (expiry_pure t d n = REPROC_INFINITE <-> t = REPROC_INFINITE /\ d = REPROC_INFINITE).
Proof. exact expiry_infinite_iff. Qed.
Print Assumptions C08_expiry_infinite_iff.
Theorem C08_expiry_deadline_iff : forall t d n, (t = REPROC_INFINITE \/ 0 <= t) ->
  (expiry_pure t d n = REPROC_DEADLINE <-> d <> REPROC_INFINITE /\ d <= n).
Proof. exact expiry_deadline_iff. Qed.
Print Assumptions C08_expiry_deadline_iff.
Theorem C08_expiry_min : forall t d n, (t = REPROC_INFINITE \/ 0 <= t) -> d <> REPROC_INFINITE -> n < d ->
  expiry_pure t d n = if t =? REPROC_INFINITE then d - n else Z.min t (d - n).
Proof. exact expiry_min. Qed.
Print Assumptions C08_expiry_min.
Theorem C08_expiry_no_deadline : forall t n, expiry_pure t REPROC_INFINITE n = t.
Proof. exact expiry_no_deadline. Qed.
Print Assumptions C08_expiry_no_deadline.
Theorem C08_expiry_bound : forall t d n r, 0 <= t -> expiry_pure t d n = r ->
  r = REPROC_DEADLINE \/ (0 <= r <= t /\ (d <> REPROC_INFINITE -> r <= d - n)).
Proof. exact expiry_bound. Qed.
Print Assumptions C08_expiry_bound.

(* selection of the source with the earliest deadline — for every number and order of sources,
   with process-less and deadline-less sources anywhere (clock read at one instant n) *)
Theorem C08_earliest : forall n srcs,
  (forall s, In s srcs -> ~ expired n s) -> (exists s, In s srcs /\ has_deadline s) ->
  exists j s, fed_pure n srcs 0 0 REPROC_INFINITE = Z.of_nat j /\ nth_error srcs j = Some s /\ has_deadline s /\
              forall j' s', nth_error srcs j' = Some s' -> has_deadline s' -> remaining n s <= remaining n s'.
Proof. exact fed_pure_earliest. Qed.
Print Assumptions C08_earliest.
(* an expired deadline is selected at once (the first expired source) *)
Theorem C08_expired_first : forall n pre d post i earliest mn,
  (forall s, In s pre -> ~ expired n s) -> d <> REPROC_INFINITE -> d <= n ->
  fed_pure n (pre ++ Some d :: post) i earliest mn = i + Z.of_nat (length pre).
Proof. exact fed_pure_expired_first. Qed.
Print Assumptions C08_expired_first.

(* a wait only ever polls the handle's exit pipe (footprint), and with a cached status does not poll at all *)
Theorem C08_wait_footprint : forall p t,
  emitsR (reproc_wait p t) (api_ev p)
         (fun rp' => shrinks p (snd rp') /\ (fst rp' < 0 -> snd rp' = p) /\ (0 <= fst rp' -> h_status (snd rp') = fst rp')).
Proof. exact emitsR_reproc_wait. Qed.
Print Assumptions C08_wait_footprint.

(* THE BOUND ON THE OPERATING-SYSTEM WAIT, for every world: any number of child processes with any
   scripts, any schedule, any fault and latency plan.  Virtual time is advanced only by the
   blocking loop, never backwards and never past the deadline: a poll with time-out t >= 0 is
   blocked between 0 and t. *)
Theorem C08_blocking_never_passes_the_deadline : forall ready tmo w, 0 <= tmo ->
  w_time w <= w_time (blocked_world (block_until ready tmo w)) <= w_time w + tmo.
Proof. exact block_until_bound. Qed.
Print Assumptions C08_blocking_never_passes_the_deadline.

(* every poll event -- whoever made the call -- whose time-out argument is non-negative records a
   blocking time within [0, time-out]; also when the call is interrupted by the fault plan *)
Theorem C08_poll_bounded_by_its_timeout : forall fds tmo, emits (sys_poll fds tmo) pollok.
Proof. exact sys_poll_ok. Qed.
Print Assumptions C08_poll_bounded_by_its_timeout.

(* wait(t) with t >= 0 hands t to the operating system and is therefore never blocked longer than t;
   and no poll made by wait / stop / destroy, whatever its time-out came from (action time-outs,
   the deadline), is blocked longer than the time-out it was given *)
Theorem C08_wait_bounded : forall p t, 0 <= t -> emits (reproc_wait p t) (bounded t).
Proof. exact reproc_wait_bounded. Qed.
Print Assumptions C08_wait_bounded.
(* poll(t) with t >= 0, for every list of sources (any order, NULL entries, any deadlines): no
   OS-level wait of it exceeds t; and every poll it makes is bounded by the time-out it was given *)
Theorem C08_poll_bounded : forall srcs t, 0 <= t -> emits (reproc_poll srcs t) (bounded t).
Proof. exact reproc_poll_bounded. Qed.
Print Assumptions C08_poll_bounded.
Theorem C08_poll_polls_bounded : forall srcs t, emits (reproc_poll srcs t) pollok.
Proof. exact ok_reproc_poll. Qed.
Print Assumptions C08_poll_polls_bounded.
Theorem C08_wait_stop_destroy_polls_bounded : forall p,
  (forall t, emits (reproc_wait p t) pollok) /\ (forall a, emits (reproc_stop p a) pollok) /\ emits (reproc_destroy p) pollok.
Proof. intros p. split; [intros t; apply ok_reproc_wait|]. split; [intros a; apply ok_reproc_stop|apply ok_reproc_destroy]. Qed.
Print Assumptions C08_wait_stop_destroy_polls_bounded.

Example C08_ex : fed_pure 1000 [Some 1150; None; Some (-1); Some 1100] 0 0 REPROC_INFINITE = 3
              /\ fed_pure 1000 [Some (-1); Some 1150] 0 0 REPROC_INFINITE = 1
              /\ expiry_pure 75 1050 1000 = 50 /\ expiry_pure 25 1050 1000 = 25 /\ expiry_pure (-1) 900 1000 = REPROC_DEADLINE.
Proof. vm_compute. repeat split; reflexivity. Qed.
