(* WinArgsProofs.v — C18: lemmas and proofs about WinArgs.v.
   The property theorems themselves are restated in Properties_C18.v. *)
From Coq Require Import ZArith List Bool Lia Arith.
Import ListNotations.
From Verif Require Import WinArgs.
Open Scope Z_scope.

(* ------------------------------------------------------------------------- *)
(** * Small facts *)

Lemma repeat_snoc_app : forall (A : Type) (x : A) n l, repeat x (S n) ++ l = repeat x n ++ x :: l.
Proof.
  intros A x n l. induction n as [|n IH]; cbn [repeat app]; [reflexivity|].
  cbn [repeat app] in IH. rewrite IH. reflexivity.
Qed.

Lemma even_double : forall n, Nat.even (n * 2) = true.
Proof. induction n as [|n IH]; [reflexivity|]. cbn [Nat.mul Nat.add Nat.even]. exact IH. Qed.

Lemma even_double1 : forall n, Nat.even (n * 2 + 1) = false.
Proof. induction n as [|n IH]; [reflexivity|]. cbn [Nat.mul Nat.add Nat.even]. exact IH. Qed.

Lemma div2_double : forall n, Nat.div2 (n * 2) = n.
Proof. induction n as [|n IH]; [reflexivity|]. cbn [Nat.mul Nat.add Nat.div2]. now rewrite IH. Qed.

Lemma div2_double1 : forall n, Nat.div2 (n * 2 + 1) = n.
Proof. induction n as [|n IH]; [reflexivity|]. cbn [Nat.mul Nat.add Nat.div2]. now rewrite IH. Qed.

Lemma skipn_repeat : forall (A : Type) (x : A) k m, skipn k (repeat x m) = repeat x (m - k).
Proof.
  intros A x k. induction k as [|k IH]; intros m.
  - now rewrite Nat.sub_0_r.
  - destruct m as [|m]; [reflexivity|]. cbn [repeat skipn Nat.sub]. apply IH.
Qed.

Lemma firstn_length_app : forall (A : Type) (l r : list A), firstn (length l) (l ++ r) = l.
Proof.
  intros. rewrite firstn_app, Nat.sub_diag, firstn_all. cbn [firstn]. apply app_nil_r.
Qed.

Lemma skipn_length_app : forall (A : Type) (l r : list A) k,
  skipn (length l + k) (l ++ r) = skipn k r.
Proof.
  intros A l r k. induction l as [|x l IH]; [reflexivity|]. cbn [length Nat.add app skipn]. exact IH.
Qed.

(* Eliminate the boolean tests on characters. *)
Ltac zeq c k := destruct (Z.eqb_spec c k).

Lemma is_special_false : forall c, is_special c = false ->
  c <> SP /\ c <> TAB /\ c <> NL /\ c <> VT /\ c <> DQ.
Proof.
  intros c H. unfold is_special in H.
  repeat (apply orb_false_iff in H; destruct H as [H ?]).
  repeat split; apply Z.eqb_neq; assumption.
Qed.

Lemma is_ws_special : forall c, is_special c = false -> is_ws c = false.
Proof.
  intros c H. apply is_special_false in H. destruct H as (H1 & H2 & _).
  unfold is_ws. apply Z.eqb_neq in H1, H2. now rewrite H1, H2.
Qed.

(* ------------------------------------------------------------------------- *)
(** * argument_should_escape *)

Lemma should_escape_loop_spec : forall s acc,
  should_escape_loop acc s = acc || existsb is_special s.
Proof.
  induction s as [|c r IH]; intros acc; cbn [should_escape_loop existsb].
  - now rewrite orb_false_r.
  - rewrite IH. now rewrite orb_assoc.
Qed.

Lemma argument_should_escape_spec : forall a,
  argument_should_escape a = is_empty a || existsb is_special a.
Proof. intros. apply should_escape_loop_spec. Qed.

Lemma argument_should_escape_D14_spec : forall a,
  argument_should_escape_D14 a = existsb is_special a.
Proof. intros. unfold argument_should_escape_D14. now rewrite should_escape_loop_spec. Qed.

Lemma should_escape_D14_nonempty : forall a, a <> [] ->
  argument_should_escape_D14 a = argument_should_escape a.
Proof.
  intros a H. rewrite argument_should_escape_spec, argument_should_escape_D14_spec.
  destruct a; [congruence|reflexivity].
Qed.

(* ------------------------------------------------------------------------- *)
(** * Sizes mirror the writer *)

Lemma size_acc_length : forall s n, size_acc (Z.of_nat n) s = Z.of_nat (length (esc_acc n s)).
Proof.
  induction s as [|c r IH]; intros n; cbn [size_acc esc_acc].
  - rewrite repeat_length. lia.
  - zeq c BS.
    + rewrite <- IH. f_equal. lia.
    + zeq c DQ.
      * rewrite app_length, repeat_length. cbn [length].
        pose proof (IH 0%nat) as H0. cbn [Z.of_nat] in H0. lia.
      * rewrite app_length, repeat_length. cbn [length].
        pose proof (IH 0%nat) as H0. cbn [Z.of_nat] in H0. lia.
Qed.

Lemma escaped_size_gen_exact : forall se a,
  escaped_size_gen se a = Z.of_nat (length (escape_gen se a)).
Proof.
  intros [|] a; unfold escaped_size_gen, escape_gen; [|reflexivity].
  cbn [length]. rewrite app_length. cbn [length].
  change 0 with (Z.of_nat 0). rewrite size_acc_length. lia.
Qed.

Lemma argument_escaped_size_exact : forall a,
  argument_escaped_size a = Z.of_nat (length (argument_escape a)).
Proof. intros. apply escaped_size_gen_exact. Qed.

Lemma escape_ret_gen_length : forall se a, escape_ret_gen se a = length (escape_gen se a).
Proof. intros [|] a; reflexivity. Qed.

Lemma argument_escape_ret_length : forall a,
  argument_escape_ret a = length (argument_escape a).
Proof. intros. apply escape_ret_gen_length. Qed.

(* ------------------------------------------------------------------------- *)
(** * Stores into a zeroed allocation *)

(* Storing [u] just after the part [pre] already written, with [m] zero units left. *)
Lemma write_at_zeros : forall pre m u, (length u <= m)%nat ->
  write_at (pre ++ repeat NUL m) (length pre) u = Some ((pre ++ u) ++ repeat NUL (m - length u)).
Proof.
  intros pre m u H. unfold write_at.
  rewrite app_length, repeat_length.
  destruct (Nat.leb_spec (length pre + length u) (length pre + m)) as [_|?]; [|lia].
  rewrite firstn_length_app, skipn_length_app, skipn_repeat. now rewrite <- app_assoc.
Qed.

(* The same when the stored units end in a NUL that lands on a zero: `strcpy`. *)
Lemma write_at_zeros_strcpy : forall pre m a, (length a + 1 <= m)%nat ->
  write_at (pre ++ repeat NUL m) (length pre) (a ++ [NUL]) =
  Some ((pre ++ a) ++ repeat NUL (m - length a)).
Proof.
  intros pre m a H. rewrite write_at_zeros by (rewrite app_length; cbn [length]; lia).
  f_equal. rewrite app_length. cbn [length].
  replace (m - length a)%nat with (S (m - (length a + 1))) by lia.
  cbn [repeat]. rewrite <- !app_assoc. reflexivity.
Qed.

Lemma write_at_gen_stored : forall se a pre m, (length (escape_gen se a) + 1 <= m)%nat ->
  write_at (pre ++ repeat NUL m) (length pre) (escape_stored_gen se a) =
  Some ((pre ++ escape_gen se a) ++ repeat NUL (m - length (escape_gen se a))).
Proof.
  intros [|] a pre m H; unfold escape_stored_gen.
  - apply write_at_zeros. lia.
  - unfold escape_gen in *. now apply write_at_zeros_strcpy.
Qed.

(* ------------------------------------------------------------------------- *)
(** * argv_join: size exact, every store in bounds *)

Lemma joined_size_loop_spec : forall se argv acc,
  joined_size_loop se acc argv = acc + Z.of_nat (length (join_gen se argv)).
Proof.
  intros se. induction argv as [|a rest IH]; intros acc; cbn [joined_size_loop join_gen].
  - cbn [length Z.of_nat]. lia.
  - rewrite escaped_size_gen_exact. destruct rest as [|b rest'].
    + rewrite IH. cbn [join_gen]. rewrite !app_length. cbn [length]. lia.
    + rewrite IH. rewrite (app_length (escape_gen _ _)). cbn [length]. lia.
Qed.

Lemma argv_write_spec : forall se argv pre m,
  (length (join_gen se argv) + 1 <= m)%nat ->
  argv_write se (pre ++ repeat NUL m) (length pre) argv =
  Some ((pre ++ join_gen se argv) ++ repeat NUL (m - length (join_gen se argv)),
        (length pre + length (join_gen se argv))%nat).
Proof.
  intros se. induction argv as [|a rest IH]; intros pre m H.
  - cbn [argv_write join_gen length]. rewrite app_nil_r, Nat.sub_0_r, Nat.add_0_r. reflexivity.
  - cbn [argv_write]. cbn [join_gen] in *. rewrite app_length in H.
    rewrite write_at_gen_stored by lia.
    rewrite escape_ret_gen_length.
    set (E := escape_gen (se a) a) in *.
    destruct rest as [|b rest'].
    + cbn [argv_write length] in *. rewrite !app_nil_r. reflexivity.
    + replace (length pre + length E)%nat with (length (pre ++ E)) by apply app_length.
      cbn [length] in H.
      rewrite write_at_zeros by (cbn [length]; lia).
      replace (S (length (pre ++ E))) with (length ((pre ++ E) ++ [SP]))
        by (rewrite (app_length (pre ++ E)); cbn [length]; lia).
      rewrite IH by (cbn [length]; lia).
      f_equal. f_equal.
      * replace (m - length E - length [SP] - length (join_gen se (b :: rest')))%nat
          with (m - length (E ++ SP :: join_gen se (b :: rest')))%nat
          by (rewrite (app_length E); cbn [length]; lia).
        rewrite <- !app_assoc. reflexivity.
      * rewrite !app_length. cbn [length]. lia.
Qed.

Lemma argv_join_gen_spec : forall se argv,
  argv_join_gen se argv =
  (Z.of_nat (length (join_gen se argv)) + 1, Some (join_gen se argv ++ [NUL])).
Proof.
  intros se argv. unfold argv_join_gen. rewrite joined_size_loop_spec.
  f_equal; [lia|].
  unfold calloc. set (J := join_gen se argv).
  replace (Z.to_nat (1 + Z.of_nat (length J))) with (length J + 1)%nat by lia.
  change (repeat NUL (length J + 1)) with ([] ++ repeat NUL (length J + 1)).
  change 0%nat with (length (@nil Z)).
  rewrite argv_write_spec by (fold J; lia). fold J. cbn [app length Nat.add].
  replace (length J + 1 - length J)%nat with 1%nat by lia.
  rewrite write_at_zeros by (cbn [length]; lia). cbn [length Nat.sub repeat].
  now rewrite app_nil_r.
Qed.

(* argv_join allocates exactly strlen + 1 units ... *)
Lemma argv_joined_size_exact : forall argv,
  argv_joined_size argv = Z.of_nat (length (argv_join argv)) + 1.
Proof. intros. unfold argv_joined_size. now rewrite argv_join_gen_spec. Qed.

(* ... no store falls outside them, and the last unit is the terminator. *)
Lemma argv_join_buf_ok : forall argv, argv_join_buf argv = Some (argv_join argv ++ [NUL]).
Proof. intros. unfold argv_join_buf. now rewrite argv_join_gen_spec. Qed.

Lemma argv_join_buf_length : forall argv buf,
  argv_join_buf argv = Some buf -> Z.of_nat (length buf) = argv_joined_size argv.
Proof.
  intros argv buf H. rewrite argv_join_buf_ok in H. injection H as <-.
  rewrite argv_joined_size_exact, app_length. cbn [length]. lia.
Qed.

(* ------------------------------------------------------------------------- *)
(** * No NUL in the command line: the buffer read back as a C string is the command line *)

Lemma until_nul_id : forall s, no_nul s -> until_nul s = s.
Proof.
  induction 1 as [|c r Hc _ IH]; [reflexivity|]. cbn [until_nul].
  apply Z.eqb_neq in Hc. rewrite Hc. now rewrite IH.
Qed.

Lemma until_nul_app_nul : forall s t, no_nul s -> until_nul (s ++ NUL :: t) = s.
Proof.
  induction 1 as [|c r Hc _ IH]; [reflexivity|]. cbn [until_nul app].
  apply Z.eqb_neq in Hc. rewrite Hc. now rewrite IH.
Qed.

Lemma no_nul_repeat_BS : forall n, no_nul (repeat BS n).
Proof. intros n. unfold no_nul. apply Forall_forall. intros x H. apply repeat_spec in H. now subst. Qed.

Lemma no_nul_esc_acc : forall s n, no_nul s -> no_nul (esc_acc n s).
Proof.
  unfold no_nul. induction s as [|c r IH]; intros n H; cbn [esc_acc].
  - apply no_nul_repeat_BS.
  - inversion H as [|? ? Hc Hr]; subst. zeq c BS; [now apply IH|].
    zeq c DQ; apply Forall_app; (split; [apply no_nul_repeat_BS|constructor; [assumption || discriminate|now apply IH]]).
Qed.

Lemma no_nul_escape_gen : forall se a, no_nul a -> no_nul (escape_gen se a).
Proof.
  intros [|] a H; unfold escape_gen; [|assumption].
  constructor; [discriminate|]. apply Forall_app. split; [now apply no_nul_esc_acc|].
  constructor; [discriminate|constructor].
Qed.

Lemma no_nul_join_gen : forall se argv, Forall no_nul argv -> no_nul (join_gen se argv).
Proof.
  intros se. induction 1 as [|a rest Ha _ IH]; [constructor|]. cbn [join_gen].
  apply Forall_app. split; [now apply no_nul_escape_gen|].
  destruct rest; [constructor|]. constructor; [discriminate|exact IH].
Qed.

(* ------------------------------------------------------------------------- *)
(** * The reader over the writer's output *)

(* What may follow an argument on the command line: nothing, or the blank. *)
Definition tail_ok (t : str) : Prop := match t with [] => True | c :: _ => c = SP end.

(* What the argument scanner yields once the current argument [x] is complete. *)
Definition after_arg (b : bool) (x : str) (t : str) : list str :=
  match t with
  | [] => [x]
  | _ :: more => x :: split_args b false false 0 [] more
  end.

Lemma split_bs_run : forall b inq m k cur x,
  split_args b true inq k cur (repeat BS m ++ x) = split_args b true inq (k + m) cur x.
Proof.
  intros b inq. induction m as [|m IH]; intros k cur x.
  - now rewrite Nat.add_0_r.
  - cbn [repeat app split_args negb andb]. rewrite Z.eqb_refl. rewrite IH. f_equal. lia.
Qed.

(* An opening quote (we are not in quotes, no backslashes pending). *)
Lemma open_quote : forall b cur r,
  split_args b true false 0 cur (DQ :: r) = split_args b true true 0 cur r.
Proof.
  intros b cur r. cbn [split_args negb andb]. change (DQ =? BS) with false.
  change (DQ =? DQ) with true. cbn [Nat.even Nat.div2 repeat]. rewrite app_nil_r.
  destruct r; reflexivity.
Qed.

Lemma start_arg : forall b c r, is_ws c = false ->
  split_args b false false 0 [] (c :: r) = split_args b true false 0 [] (c :: r).
Proof. intros b c r H. cbn [split_args negb andb]. now rewrite H. Qed.

(* The argument is complete and we are outside quotes. *)
Lemma arg_end : forall b n x t, tail_ok t ->
  split_args b true false n x t = after_arg b (x ++ repeat BS n) t.
Proof.
  intros b n x [|c more] H; [reflexivity|]. cbn [tail_ok] in H. subst c.
  cbn [split_args after_arg negb andb]. change (SP =? BS) with false. change (SP =? DQ) with false.
  change (is_ws SP) with true. reflexivity.
Qed.

(* The quoted body: writer with [n] backslashes pending vs. reader inside quotes. *)
Lemma body_scan : forall b s n cur t, tail_ok t ->
  split_args b true true 0 cur (esc_acc n s ++ DQ :: t) =
  split_args b true false 0 (cur ++ repeat BS n ++ s) t.
Proof.
  intros b. induction s as [|c r IH]; intros n cur t Ht; cbn [esc_acc].
  - rewrite split_bs_run. cbn [Nat.add split_args negb andb].
    change (DQ =? BS) with false. change (DQ =? DQ) with true.
    rewrite even_double, div2_double, app_nil_r.
    destruct t as [|d t']; [reflexivity|]. cbn [tail_ok] in Ht. subst d.
    change (SP =? DQ) with false. reflexivity.
  - zeq c BS.
    + subst c. rewrite IH by assumption. now rewrite repeat_snoc_app.
    + zeq c DQ.
      * subst c. rewrite <- app_assoc, <- app_comm_cons. rewrite split_bs_run.
        cbn [Nat.add split_args negb andb].
        change (DQ =? BS) with false. change (DQ =? DQ) with true.
        rewrite even_double1, div2_double1. rewrite IH by assumption.
        cbn [repeat app]. now rewrite <- !app_assoc.
      * rewrite <- app_assoc, <- app_comm_cons. rewrite split_bs_run.
        cbn [Nat.add split_args negb andb].
        apply Z.eqb_neq in n0, n1. rewrite n0, n1. rewrite IH by assumption.
        cbn [repeat app]. now rewrite <- !app_assoc.
Qed.

(* An argument emitted raw: no blank/tab/newline/vtab/quote in it. *)
Lemma raw_scan : forall b a n cur t, tail_ok t -> existsb is_special a = false ->
  split_args b true false n cur (a ++ t) = after_arg b (cur ++ repeat BS n ++ a) t.
Proof.
  intros b. induction a as [|c r IH]; intros n cur t Ht Ha.
  - cbn [app]. rewrite arg_end by assumption. now rewrite app_nil_r.
  - cbn [existsb] in Ha. apply orb_false_iff in Ha. destruct Ha as [Hc Hr].
    cbn [app split_args negb andb]. zeq c BS.
    + subst c. rewrite IH by assumption. now rewrite repeat_snoc_app.
    + pose proof (is_ws_special _ Hc) as Hw. apply is_special_false in Hc.
      destruct Hc as (_ & _ & _ & _ & Hq). apply Z.eqb_neq in Hq. rewrite Hq, Hw.
      rewrite IH by assumption. cbn [repeat app]. now rewrite <- !app_assoc.
Qed.

(* One argument as written by argument_escape, read from the between-arguments state. *)
Lemma one_arg : forall b a t, tail_ok t ->
  split_args b false false 0 [] (argument_escape a ++ t) = after_arg b a t.
Proof.
  intros b a t Ht. unfold argument_escape, escape_gen.
  destruct (argument_should_escape a) eqn:E.
  - cbn [app]. rewrite start_arg by reflexivity. rewrite open_quote.
    rewrite <- app_assoc. cbn [app]. rewrite body_scan by assumption.
    cbn [repeat app]. now rewrite arg_end, app_nil_r by assumption.
  - rewrite argument_should_escape_spec in E. apply orb_false_iff in E. destruct E as [Ee Es].
    destruct a as [|c r]; [discriminate|]. cbn [app].
    rewrite start_arg.
    + change (c :: r ++ t) with ((c :: r) ++ t). now rewrite raw_scan by assumption.
    + cbn [existsb] in Es. apply orb_false_iff in Es. now apply is_ws_special.
Qed.

Lemma join_tail_ok : forall (se : str -> bool) (rest : list str),
  tail_ok (match rest with [] => [] | _ :: _ => SP :: join_gen se rest end).
Proof. intros se [|? ?]; cbn; trivial. Qed.

Lemma split_join : forall b argv,
  split_args b false false 0 [] (argv_join argv) = argv.
Proof.
  intros b. unfold argv_join. induction argv as [|a rest IH]; [reflexivity|].
  cbn [join_gen]. fold (argument_escape a).
  rewrite one_arg by apply join_tail_ok.
  destruct rest as [|a' rest']; [reflexivity|]. cbn [after_arg]. now rewrite IH.
Qed.

(* ------------------------------------------------------------------------- *)
(** * The program name *)

(* Without quotes in the argument the escaped body only differs by doubled TRAILING
   backslashes. *)
Lemma esc_acc_nodq : forall s n,
  forallb (fun c => negb (c =? DQ)) s = true ->
  last (repeat BS n ++ s) NUL <> BS ->
  esc_acc n s = repeat BS n ++ s.
Proof.
  induction s as [|c r IH]; intros n Hq Hl; cbn [esc_acc].
  - rewrite app_nil_r in *. destruct n as [|n]; [reflexivity|]. exfalso. apply Hl.
    clear. induction n as [|n IH]; [reflexivity|]. cbn [repeat last] in *. exact IH.
  - cbn [forallb] in Hq. apply andb_true_iff in Hq. destruct Hq as [Hc Hr]. zeq c BS.
    + subst c. rewrite <- repeat_snoc_app. apply IH; [assumption|]. now rewrite repeat_snoc_app.
    + zeq c DQ; [subst c; discriminate|]. f_equal. f_equal.
      apply (IH 0%nat); [assumption|]. cbn [repeat app].
      intros Hl'. apply Hl. clear - Hl' n0.
      induction n as [|n IHn]; cbn [repeat app].
      * destruct r; [cbn in Hl'; now exfalso|exact Hl'].
      * destruct (repeat BS n ++ c :: r) eqn:E; [destruct n; discriminate|exact IHn].
Qed.

Lemma prog_raw : forall a cur t, existsb is_special a = false -> tail_ok t ->
  prog_scan false cur (a ++ t) = (cur ++ a, tl t).
Proof.
  induction a as [|c r IH]; intros cur t Ha Ht.
  - rewrite app_nil_r. destruct t as [|d more]; [reflexivity|]. cbn [tail_ok] in Ht. subst d. reflexivity.
  - cbn [existsb] in Ha. apply orb_false_iff in Ha. destruct Ha as [Hc Hr].
    cbn [app prog_scan negb andb]. rewrite (is_ws_special _ Hc).
    apply is_special_false in Hc. destruct Hc as (_ & _ & _ & _ & Hq). apply Z.eqb_neq in Hq.
    rewrite Hq. rewrite IH by assumption. now rewrite <- app_assoc.
Qed.

Lemma prog_inq : forall a cur rest, forallb (fun c => negb (c =? DQ)) a = true ->
  prog_scan true cur (a ++ DQ :: rest) = prog_scan false (cur ++ a) rest.
Proof.
  induction a as [|c r IH]; intros cur rest Ha.
  - cbn [app prog_scan negb]. change (DQ =? DQ) with true. now rewrite app_nil_r.
  - cbn [forallb] in Ha. apply andb_true_iff in Ha. destruct Ha as [Hc Hr].
    cbn [app prog_scan negb andb]. apply negb_true_iff in Hc. rewrite Hc.
    rewrite IH by assumption. now rewrite <- app_assoc.
Qed.

Lemma program_ok_cases : forall a, program_ok a ->
  (argument_should_escape a = false /\ existsb is_special a = false) \/
  (argument_should_escape a = true /\ esc_acc 0 a = a /\
   forallb (fun c => negb (c =? DQ)) a = true).
Proof.
  intros a H. unfold program_ok, program_okb in H. apply andb_true_iff in H. destruct H as [Hq Hl].
  destruct (argument_should_escape a) eqn:E.
  - right. repeat split; try assumption. cbn [negb orb] in Hl. apply negb_true_iff in Hl.
    apply Z.eqb_neq in Hl. now apply (esc_acc_nodq a 0%nat).
  - left. split; [reflexivity|]. rewrite argument_should_escape_spec in E.
    apply orb_false_iff in E. tauto.
Qed.

Lemma prog_join : forall a t, program_ok a -> tail_ok t ->
  prog_scan false [] (argument_escape a ++ t) = (a, tl t).
Proof.
  intros a t Hp Ht. unfold argument_escape, escape_gen.
  destruct (program_ok_cases a Hp) as [[E Hs]|(E & Hb & Hq)]; rewrite E.
  - now rewrite prog_raw.
  - rewrite Hb. cbn [app prog_scan negb]. change (DQ =? DQ) with true.
    rewrite <- app_assoc. cbn [app]. rewrite prog_inq by assumption. cbn [app].
    destruct t as [|d more]; [reflexivity|]. cbn [tail_ok] in Ht. subst d. reflexivity.
Qed.

(* the older program-name rule *)
Lemma scan_to_ws_raw : forall a cur t, existsb is_special a = false -> tail_ok t ->
  scan_to is_ws cur (a ++ t) = (cur ++ a, tl t).
Proof.
  induction a as [|c r IH]; intros cur t Ha Ht.
  - rewrite app_nil_r. destruct t as [|d more]; [reflexivity|]. cbn [tail_ok] in Ht. subst d. reflexivity.
  - cbn [existsb] in Ha. apply orb_false_iff in Ha. destruct Ha as [Hc Hr].
    cbn [app scan_to]. rewrite (is_ws_special _ Hc). rewrite IH by assumption. now rewrite <- app_assoc.
Qed.

Lemma scan_to_dq : forall a cur rest, forallb (fun c => negb (c =? DQ)) a = true ->
  scan_to (fun d => d =? DQ) cur (a ++ DQ :: rest) = (cur ++ a, rest).
Proof.
  induction a as [|c r IH]; intros cur rest Ha.
  - cbn [app scan_to]. change (DQ =? DQ) with true. now rewrite app_nil_r.
  - cbn [forallb] in Ha. apply andb_true_iff in Ha. destruct Ha as [Hc Hr].
    cbn [app scan_to]. apply negb_true_iff in Hc. rewrite Hc.
    rewrite IH by assumption. now rewrite <- app_assoc.
Qed.

Lemma skip_tail : forall b t, tail_ok t ->
  split_args b false false 0 [] t = split_args b false false 0 [] (tl t).
Proof. intros b [|d more] H; [reflexivity|]. cbn [tail_ok] in H. subst d. reflexivity. Qed.

Lemma prog_old_join : forall b a t, program_ok a -> tail_ok t ->
  let '(p, rest) := prog_scan_old (argument_escape a ++ t) in
  p = a /\ split_args b false false 0 [] rest = split_args b false false 0 [] (tl t).
Proof.
  intros b a t Hp Ht. unfold argument_escape, escape_gen.
  destruct (program_ok_cases a Hp) as [[E Hs]|(E & Hb & Hq)]; rewrite E.
  - rewrite argument_should_escape_spec in E. apply orb_false_iff in E. destruct E as [Ee _].
    destruct a as [|c r]; [discriminate|]. cbn [app prog_scan_old].
    pose proof Hs as Hs'. cbn [existsb] in Hs'. apply orb_false_iff in Hs'. destruct Hs' as [Hc _].
    apply is_special_false in Hc. destruct Hc as (_ & _ & _ & _ & Hc). apply Z.eqb_neq in Hc. rewrite Hc.
    change (c :: r ++ t) with ((c :: r) ++ t). rewrite scan_to_ws_raw by assumption. now split.
  - rewrite Hb. cbn [app prog_scan_old]. change (DQ =? DQ) with true.
    rewrite <- app_assoc. cbn [app]. rewrite scan_to_dq by assumption. split; [reflexivity|].
    now apply skip_tail.
Qed.

(* ------------------------------------------------------------------------- *)
(** * Round trip *)

Lemma roundtrip_gen : forall dq_stays argv,
  argv <> [] -> program_ok (hd [] argv) -> Forall no_nul argv ->
  win_split_gen dq_stays (argv_join argv) = argv.
Proof.
  intros b [|a rest] Hne Hp Hn; [congruence|]. cbn [hd] in Hp.
  unfold win_split_gen. rewrite until_nul_id by now apply no_nul_join_gen.
  unfold argv_join. cbn [join_gen]. fold (argument_escape a).
  rewrite prog_join by (assumption || apply join_tail_ok).
  destruct rest as [|a' rest']; [reflexivity|]. cbn [tl].
  fold (argv_join (a' :: rest')). now rewrite split_join.
Qed.

Lemma roundtrip_old_gen : forall dq_stays argv,
  argv <> [] -> program_ok (hd [] argv) -> Forall no_nul argv ->
  win_split_old_gen dq_stays (argv_join argv) = argv.
Proof.
  intros b [|a rest] Hne Hp Hn; [congruence|]. cbn [hd] in Hp.
  unfold win_split_old_gen. rewrite until_nul_id by now apply no_nul_join_gen.
  unfold argv_join. cbn [join_gen]. fold (argument_escape a).
  pose proof (prog_old_join b a _ Hp (join_tail_ok argument_should_escape rest)) as H.
  destruct (prog_scan_old _) as [p r]. destruct H as [-> H]. rewrite H.
  destruct rest as [|a' rest']; [reflexivity|]. cbn [tl].
  fold (argv_join (a' :: rest')). now rewrite split_join.
Qed.

(* The buffer argv_join returns, read back as a C string and split, is argv. *)
Lemma roundtrip_buf : forall dq_stays argv buf,
  argv <> [] -> program_ok (hd [] argv) -> Forall no_nul argv ->
  argv_join_buf argv = Some buf ->
  win_split_gen dq_stays buf = argv.
Proof.
  intros b argv buf Hne Hp Hn H. rewrite argv_join_buf_ok in H. injection H as <-.
  unfold win_split_gen. rewrite until_nul_app_nul by now apply no_nul_join_gen.
  pose proof (roundtrip_gen b argv Hne Hp Hn) as R. unfold win_split_gen in R.
  rewrite until_nul_id in R by now apply no_nul_join_gen. exact R.
Qed.

(* ------------------------------------------------------------------------- *)
(** * D14: the unpatched tree *)

Lemma join_gen_ext : forall (se1 se2 : str -> bool) argv,
  Forall (fun a => se1 a = se2 a) argv -> join_gen se1 argv = join_gen se2 argv.
Proof.
  intros se1 se2. induction 1 as [|a rest Ha _ IH]; [reflexivity|]. cbn [join_gen].
  rewrite Ha. destruct rest; [reflexivity|]. now rewrite IH.
Qed.

(* The defect is confined to empty arguments. *)
Lemma D14_only_empty : forall argv, Forall (fun a => a <> []) argv ->
  argv_join_D14 argv = argv_join argv.
Proof.
  intros argv H. apply join_gen_ext. eapply Forall_impl; [|exact H].
  intros a Ha. now apply should_escape_D14_nonempty.
Qed.

Lemma D14_refuted : exists argv,
  argv <> [] /\ program_ok (hd [] argv) /\ Forall no_nul argv /\
  win_split (argv_join_D14 argv) <> argv.
Proof.
  exists [[97]; []]. repeat split.
  - discriminate.
  - repeat constructor; discriminate.
  - vm_compute. discriminate.
Qed.

(* The restriction on argv[0] is needed: a quoted program name ending in a backslash
   does not survive (the program-name rule does not undo the doubling). *)
Lemma program_trailing_backslash_refuted : exists argv,
  argv <> [] /\ Forall no_nul argv /\ ~ program_ok (hd [] argv) /\
  forallb (fun c => negb (c =? DQ)) (hd [] argv) = true /\
  win_split (argv_join argv) <> argv.
Proof.
  exists [[97; 32; 98; 92]]. repeat split.
  - discriminate.
  - repeat constructor; discriminate.
  - vm_compute. discriminate.
  - vm_compute. discriminate.
Qed.

(* ------------------------------------------------------------------------- *)
(** * Environment block *)

Definition env_body (entries : list str) : list Z := concat (map (fun e => e ++ [NUL]) entries).

Lemma env_block_body : forall es, env_block es = env_body es ++ [NUL].
Proof. reflexivity. Qed.

Lemma env_body_app : forall a b, env_body (a ++ b) = env_body a ++ env_body b.
Proof. intros. unfold env_body. now rewrite map_app, concat_app. Qed.

Lemma env_join_size_loop_spec : forall env acc,
  env_join_size_loop acc env = acc + Z.of_nat (length (env_body env)).
Proof.
  induction env as [|e rest IH]; intros acc; cbn [env_join_size_loop].
  - cbn. lia.
  - rewrite IH. unfold env_body. cbn [map concat]. rewrite !app_length. cbn [length]. lia.
Qed.

Lemma env_join_size_exact : forall env,
  env_join_size env = Z.of_nat (length (env_block env)).
Proof.
  intros. unfold env_join_size. rewrite env_join_size_loop_spec, env_block_body, app_length.
  cbn [length]. lia.
Qed.

Lemma entries_write_spec : forall env pre m, (length (env_body env) <= m)%nat ->
  entries_write (pre ++ repeat NUL m) (length pre) env =
  Some ((pre ++ env_body env) ++ repeat NUL (m - length (env_body env)),
        (length pre + length (env_body env))%nat).
Proof.
  induction env as [|e rest IH]; intros pre m H.
  - cbn [entries_write env_body map concat length]. now rewrite app_nil_r, Nat.sub_0_r, Nat.add_0_r.
  - cbn [entries_write]. unfold env_body in H. cbn [map concat] in H. fold (env_body rest) in H.
    rewrite !app_length in H. cbn [length] in H.
    rewrite write_at_zeros by (rewrite app_length; cbn [length]; lia).
    replace (length pre + (length e + 1))%nat with (length (pre ++ e ++ [NUL]))
      by (rewrite !app_length; cbn [length]; lia).
    rewrite IH by (rewrite app_length; cbn [length]; lia).
    unfold env_body. cbn [map concat]. fold (env_body rest).
    f_equal. f_equal.
    + replace (m - length (e ++ [NUL]) - length (env_body rest))%nat
        with (m - length ((e ++ [NUL]) ++ env_body rest))%nat
        by (rewrite !app_length; cbn [length]; lia).
      rewrite <- !app_assoc. reflexivity.
    + rewrite !app_length. cbn [length]. lia.
Qed.

(* Writing a list of entries and then the closing NUL into a zeroed allocation of exactly
   the computed size: in bounds, and the result is the block. *)
Lemma block_write_ok : forall a b,
  match entries_write (calloc (env_join_size_loop (env_join_size_loop 1 a) b)) 0 a with
  | None => None
  | Some (buf1, c1) =>
      match entries_write buf1 c1 b with
      | None => None
      | Some (buf2, c2) => write_at buf2 c2 [NUL]
      end
  end = Some (env_block (a ++ b)).
Proof.
  intros a b. rewrite !env_join_size_loop_spec. unfold calloc.
  set (la := length (env_body a)). set (lb := length (env_body b)).
  replace (Z.to_nat (1 + Z.of_nat la + Z.of_nat lb)) with (la + lb + 1)%nat by lia.
  change (repeat NUL (la + lb + 1)) with ([] ++ repeat NUL (la + lb + 1)).
  change 0%nat with (length (@nil Z)).
  rewrite entries_write_spec by (fold la; lia). fold la. cbn [app length Nat.add].
  fold la. replace la with (length (env_body a)) at 2 by reflexivity.
  rewrite entries_write_spec by (fold la lb; lia). fold la lb.
  replace (la + lb + 1 - la - lb)%nat with 1%nat by lia.
  replace (la + lb)%nat with (length (env_body a ++ env_body b))
    by (rewrite app_length; reflexivity).
  rewrite write_at_zeros by (cbn [length]; lia). cbn [length Nat.sub repeat].
  now rewrite app_nil_r, env_block_body, env_body_app.
Qed.

Lemma env_join_ok : forall env, env_join env = Some (env_block env).
Proof.
  intros env. unfold env_join, env_join_size.
  pose proof (block_write_ok env []) as H. cbn [env_join_size_loop entries_write] in H.
  rewrite app_nil_r in H.
  destruct (entries_write _ 0 env) as [[buf c]|]; exact H.
Qed.

(* env_concat never stores out of bounds and its size is exact, whatever the two
   memories contain (as far as they are read). *)
Lemma env_concat_spec : forall a b,
  env_concat a b =
  (Z.of_nat (length (env_block (nulstr a ++ nulstr b))), Some (env_block (nulstr a ++ nulstr b))).
Proof.
  intros a b. unfold env_concat. rewrite block_write_ok. f_equal.
  rewrite !env_join_size_loop_spec, env_block_body, env_body_app, !app_length. cbn [length]. lia.
Qed.

(* Reading a well-formed block back gives its entries. *)
Lemma nulstr_entry : forall e cur r, no_nul e ->
  nulstr_loop cur (e ++ NUL :: r) =
  match cur ++ e with [] => [] | _ :: _ => (cur ++ e) :: nulstr_loop [] r end.
Proof.
  induction e as [|c e IH]; intros cur r H.
  - cbn [app nulstr_loop]. change (NUL =? NUL) with true. rewrite app_nil_r. reflexivity.
  - inversion H as [|? ? Hc He]; subst. cbn [app nulstr_loop]. apply Z.eqb_neq in Hc. rewrite Hc.
    rewrite IH by assumption. now rewrite <- app_assoc.
Qed.

Lemma nulstr_block : forall es, Forall entry_ok es -> nulstr_loop [] (env_block es) = es.
Proof.
  induction 1 as [|e rest [Hne Hnn] _ IH]; [reflexivity|].
  unfold env_block. cbn [map concat]. rewrite <- !app_assoc. cbn [app].
  rewrite nulstr_entry by assumption. cbn [app].
  destruct e; [congruence|]. f_equal. exact IH.
Qed.

(* Reading stops at the first empty entry: everything after it is dropped. *)
Lemma nulstr_block_prefix : forall es rest, Forall entry_ok es ->
  nulstr_loop [] (env_block (es ++ [] :: rest)) = es.
Proof.
  induction 1 as [|e es' [Hne Hnn] _ IH].
  - reflexivity.
  - unfold env_block. cbn [map concat app]. rewrite <- !app_assoc. cbn [app].
    rewrite nulstr_entry by assumption. cbn [app].
    destruct e; [congruence|]. f_equal. exact IH.
Qed.

Lemma utf16_block : forall ex,
  utf16_from_utf8 (env_block ex) (env_join_size ex) = env_block ex.
Proof.
  intros. unfold utf16_from_utf8. rewrite env_join_size_exact, Nat2Z.id. apply firstn_all.
Qed.

Lemma env_setup_ok : forall (extend : bool) extra parent,
  Forall entry_ok extra -> Forall entry_ok parent ->
  let block := env_block ((if extend then parent else []) ++ extra) in
  env_setup extend (Some extra) (env_block parent) = (Z.of_nat (length block), Some block).
Proof.
  intros extend extra parent He Hp. cbn zeta. unfold env_setup.
  rewrite env_join_ok, utf16_block, env_concat_spec.
  destruct extend; cbn [nulstr]; rewrite ?nulstr_block by assumption; reflexivity.
Qed.

Lemma env_setup_null_ok : forall (extend : bool) parent,
  Forall entry_ok parent ->
  let block := env_block (if extend then parent else []) in
  env_setup extend None (env_block parent) = (Z.of_nat (length block), Some block).
Proof.
  intros extend parent Hp. cbn zeta. unfold env_setup. rewrite env_concat_spec.
  destruct extend; cbn [nulstr]; rewrite ?nulstr_block by assumption; rewrite ?app_nil_r; reflexivity.
Qed.

(* Whatever the inputs: no out-of-bounds store, size exact, block well formed.
   ([parent] arbitrary memory, [extra] arbitrary strings.) *)
Lemma env_setup_in_bounds : forall extend extra parent,
  exists entries,
    env_setup extend extra parent = (Z.of_nat (length (env_block entries)), Some (env_block entries)).
Proof.
  intros extend extra parent. unfold env_setup. destruct extra as [ex|].
  - rewrite env_join_ok, env_concat_spec. eexists. reflexivity.
  - rewrite env_concat_spec. eexists. reflexivity.
Qed.

(* An empty string among the extra entries cuts the block short: it and everything after
   it is dropped.  The literal text of C18 ("followed by the extra entries") fails here. *)
Lemma env_setup_empty_entry : forall (extend : bool) before after parent,
  Forall entry_ok before -> Forall entry_ok parent ->
  snd (env_setup extend (Some (before ++ [] :: after)) (env_block parent)) =
  Some (env_block ((if extend then parent else []) ++ before)).
Proof.
  intros extend before after parent Hb Hp. unfold env_setup.
  rewrite env_join_ok, utf16_block, env_concat_spec. cbn [snd nulstr].
  rewrite nulstr_block_prefix by assumption.
  destruct extend; cbn [nulstr]; rewrite ?nulstr_block by assumption; reflexivity.
Qed.

Lemma env_block_empty_entry_refuted : exists (extend : bool) extra parent,
  Forall no_nul extra /\ Forall entry_ok parent /\
  snd (env_setup extend (Some extra) (env_block parent)) <>
  Some (env_block ((if extend then parent else []) ++ extra)).
Proof.
  exists false, [[]; [65; 61; 66]], []. repeat split.
  - repeat constructor; discriminate.
  - constructor.
  - vm_compute. discriminate.
Qed.

(* ------------------------------------------------------------------------- *)
(** * win_split on the examples of Microsoft's documentation

   ("Parsing C command-line arguments", table "Results of parsing command lines"; each line
   is prefixed by a program name x).  In order:  DQ a b c DQ d e  /  DQ ab BS DQ c DQ  DQ BS BS DQ  d  /
   a BS BS BS b  d DQ e f DQ g  h  /  a BS BS BS DQ b  c  d  /  a BS BS BS BS DQ b c DQ  d  e  /
   a DQ b DQ DQ  c  d   (the last one is where the pre-2008 rule differs). *)

Example ms_doc_1 : win_split [120; 32; 34; 97; 32; 98; 32; 99; 34; 32; 100; 32; 101] = [[120]; [97; 32; 98; 32; 99]; [100]; [101]].
Proof. vm_compute; reflexivity. Qed.

Example ms_doc_2 : win_split [120; 32; 34; 97; 98; 92; 34; 99; 34; 32; 34; 92; 92; 34; 32; 100] = [[120]; [97; 98; 34; 99]; [92]; [100]].
Proof. vm_compute; reflexivity. Qed.

Example ms_doc_3 : win_split [120; 32; 97; 92; 92; 92; 98; 32; 100; 34; 101; 32; 102; 34; 103; 32; 104] = [[120]; [97; 92; 92; 92; 98]; [100; 101; 32; 102; 103]; [104]].
Proof. vm_compute; reflexivity. Qed.

Example ms_doc_4 : win_split [120; 32; 97; 92; 92; 92; 34; 98; 32; 99; 32; 100] = [[120]; [97; 92; 34; 98]; [99]; [100]].
Proof. vm_compute; reflexivity. Qed.

Example ms_doc_5 : win_split [120; 32; 97; 92; 92; 92; 92; 34; 98; 32; 99; 34; 32; 100; 32; 101] = [[120]; [97; 92; 92; 98; 32; 99]; [100]; [101]].
Proof. vm_compute; reflexivity. Qed.

Example ms_doc_6 : win_split [120; 32; 97; 34; 98; 34; 34; 32; 99; 32; 100] = [[120]; [97; 98; 34; 32; 99; 32; 100]].
Proof. vm_compute; reflexivity. Qed.

Example ms_doc_6_pre2008 : win_split_gen false [120; 32; 97; 34; 98; 34; 34; 32; 99; 32; 100] = [[120]; [97; 98; 34]; [99]; [100]].
Proof. vm_compute; reflexivity. Qed.
