(* StopSpec.v — C07 / C15: a stop sequence returns a status only by reaping the handle's own child.
   For every well-formed world (any fault plan, latency plan, child behaviour) and every action
   list: a non-negative result of the stop loop on a running handle is the decoded wait status of
   that child, which had ended (was a zombie) at a moment of the call, is reaped afterwards, and
   the status is cached. *)
From Verif Require Import Lib WorldSpec WorldSpec2 LibSpec WaitSpec.
From Coq Require Import Lia.
Local Open Scope Z_scope.

(* kill of another process: the caller's world stays well-formed *)
Lemma keeps_deliver k pid sig w : pid <> k -> keeps k w (deliver pid sig w).
Proof.
  intros Hne. unfold deliver. destruct (pr_state (get_proc pid w)); try apply keeps_refl.
  set (w1 := upd_proc pid (add_seen (OSig sig (w_time w))) w).
  assert (K1 : keeps k w w1) by (apply keeps_upd_proc; exact Hne).
  destruct (sig =? SIGKILL); [eapply keeps_trans; [exact K1|apply keeps_kill_proc; exact Hne]|].
  destruct (disp_of (get_proc pid w) sig); try exact K1.
  - eapply keeps_trans; [exact K1|apply keeps_kill_proc; exact Hne].
  - eapply keeps_trans; [exact K1|apply keeps_upd_proc; exact Hne].
Qed.
Lemma flat_deliver pid sig w : flat (deliver pid sig w) = flat w.
Proof.
  unfold deliver. destruct (pr_state (get_proc pid w)); try reflexivity.
  destruct (sig =? SIGKILL); [unfold kill_proc; rewrite !flat_upd_proc; reflexivity|].
  destruct (disp_of (get_proc pid w) sig); unfold kill_proc; rewrite ?flat_upd_proc; reflexivity.
Qed.

Definition wfstep (w w' : world) : Prop := wf w' /\ w_cur w' = w_cur w /\ exists l, w_trace w' = l ++ w_trace w.
Lemma wfstep_trans w1 w2 w3 : wfstep w1 w2 -> wfstep w2 w3 -> wfstep w1 w3.
Proof.
  intros (W2 & C2 & l2 & T2) (W3 & C3 & l3 & T3). split; [exact W3|]. split; [congruence|].
  exists (l3 ++ l2). rewrite T3, T2, app_assoc. reflexivity.
Qed.

Lemma sys_kill_wf pid sig w r w' : wf w -> pid <> w_cur w -> sys_kill pid sig w = Ret r w' -> wfstep w w'.
Proof.
  intros W Hne E. pose proof (emits_trace _ _ _ _ _ (emits_sys_kill pid sig) E) as T.
  unfold sys_kill in E. apply bind_inv in E as (f & w0 & Ep & E).
  pose proof (prelude_spec w W) as Hp. rewrite Ep in Hp. destruct Hp as (W0 & C0 & _).
  assert (Hok : forall (m : MW Z), wfp m -> m w0 = Ret r w' -> wfstep w w').
  { intros m Hm Em. destruct (wfp_run _ _ _ _ Hm W0 Em) as [W1 C1]. split; [exact W1|]. split; [congruence|exact T]. }
  destruct f as [e|]; [exact (Hok _ (wfp_fail _ _ _ _) E)|].
  destruct (pid <=? 0); [exact (Hok _ (wfp_done _ _ _ _ _) E)|].
  apply bind_inv in E as (wg & w0' & Eg & E). injection Eg as <- <-.
  destruct (w_procs w0 !! pid) as [q|]; [|exact (Hok _ (wfp_fail _ _ _ _) E)].
  destruct (pr_state q); [|exact (Hok _ (wfp_done _ _ _ _ _) E)|exact (Hok _ (wfp_fail _ _ _ _) E)].
  apply bind_inv in E as (u & w1 & Em & E). injection Em as _ <-.
  assert (W1 : wf (deliver pid sig w0)).
  { eapply keeps_wf; [exact W0|apply keeps_deliver; congruence|].
    pose proof (flat_deliver pid sig w0) as F. unfold flat in F. injection F as _ Fc _ _ _ _ _ _ _ _. exact Fc. }
  destruct (wfp_run _ _ _ _ (wfp_done _ _ _ _ _) W1 E) as [W2 C2]. split; [exact W2|]. split; [|exact T].
  pose proof (flat_deliver pid sig w0) as F. unfold flat in F. injection F as _ Fc _ _ _ _ _ _ _ _. congruence.
Qed.

From Verif Require Import ParentSpec.

Lemma wfstep_refl w : wf w -> wfstep w w.
Proof. intros W. split; [exact W|]. split; [reflexivity|exists []; reflexivity]. Qed.
Lemma wfstep_of_wfp {A} (m : MW A) P w a w' : wfp m -> emits m P -> wf w -> m w = Ret a w' -> wfstep w w'.
Proof.
  intros Hm He W E. destruct (wfp_run _ _ _ _ Hm W E) as [W1 C1]. split; [exact W1|]. split; [exact C1|].
  exact (emits_trace _ _ _ _ _ He E).
Qed.

(* a wait, whatever it returns, leaves a well-formed world *)
Lemma reproc_wait_wf p t w r p' w' : wf w -> 0 < h_handle p ->
  reproc_wait p t w = Ret (r, p') w' -> wfstep w w'.
Proof.
  intros W Hpid E.
  assert (T : exists l, w_trace w' = l ++ w_trace w) by (exact (emits_trace _ _ _ _ _ (emits_of_emitsR _ _ _ (emitsR_reproc_wait p t)) E)).
  assert (Hc : wf w' /\ w_cur w' = w_cur w); [|destruct Hc; split; [assumption|split; assumption]].
  unfold reproc_wait in E.
  destruct (h_status p =? STATUS_IN_CHILD). { apply ret_inv in E as [_ ->]. auto. }
  destruct (h_status p =? STATUS_NOT_STARTED). { apply ret_inv in E as [_ ->]. auto. }
  destruct (0 <=? h_status p). { apply ret_inv in E as [_ ->]. auto. }
  apply bind_inv in E as (tmo & w1 & E1 & E).
  assert (Hm1 : wfp (if t =? REPROC_DEADLINE then (let* t0 := expiry REPROC_INFINITE (h_deadline p) in ret (if t0 =? REPROC_DEADLINE then 0 else t0)) else ret t)).
  { destruct (t =? REPROC_DEADLINE); [|apply wfp_ret]. apply wfp_bind; [apply wfp_expiry|]. intros t0. apply wfp_ret. }
  destruct (wfp_run _ _ _ _ Hm1 W E1) as [W1 C1].
  apply bind_inv in E as ([r2 rev] & w2 & E2 & E).
  destruct (wfp_run _ _ _ _ (wfp_pipe_poll _ _) W1 E2) as [W2 C2].
  destruct (r2 <=? 0). { apply ret_inv in E as [_ ->]. split; [exact W2|congruence]. }
  apply bind_inv in E as (r3 & w3 & E3 & E).
  unfold process_wait in E3. apply bind_inv in E3 as ([rw status] & w3' & E3 & E3').
  destruct (sys_waitpid_spec _ _ _ _ _ W2 Hpid E3) as (W3 & C3 & _).
  assert (E3w : w3 = w3').
  { destruct (rw <? 0).
    - apply bind_inv in E3' as (e & w3'' & Eg & E3'). injection Eg as _ <-. apply ret_inv in E3' as [_ ->]. reflexivity.
    - apply ret_inv in E3' as [_ ->]. reflexivity. }
  subst w3'.
  destruct (r3 <? 0). { apply ret_inv in E as [_ ->]. split; [exact W3|congruence]. }
  apply bind_inv in E as (x & w4 & E4 & E). apply ret_inv in E as [_ ->].
  pose proof (pc_run _ _ _ _ (pc_pipe_destroy _) W3 E4) as (W4 & C4 & _). split; [exact W4|congruence].
Qed.

Lemma wait_exact_lift p w wk r p' w' : wfstep w wk -> wait_exact p wk r p' w' -> wait_exact p w r p' w'.
Proof.
  intros (_ & _ & l & T) (st & wz & Hz & Hrec & (pre & Tp) & Hev & Hr & Hs).
  exists st, wz. split; [exact Hz|]. split; [exact Hrec|]. split; [exists (pre ++ l); rewrite Tp, T, app_assoc; reflexivity|].
  split; [exact Hev|]. split; assumption.
Qed.

(* THE THEOREM: a status out of a stop sequence is the status of the handle's own reaped child *)
Theorem stop_loop_exact acts : forall p r0 w r p' w',
  wf w -> h_status p = STATUS_IN_PROGRESS -> 0 < h_handle p -> h_handle p <> w_cur w -> r0 < 0 ->
  stop_loop acts p r0 w = Ret (r, p') w' -> 0 <= r -> wait_exact p w r p' w'.
Proof.
  induction acts as [|a rest IH]; intros p r0 w r p' w' W Hs Hpid Hne Hr0 E Hr; cbn [stop_loop] in E.
  { apply ret_inv in E as [E _]. injection E as -> ->. lia. }
  (* the signalling part of an action leaves a well-formed world and a negative or zero result *)
  assert (Hact : forall (act : MW Z) (Hk : forall wa ra wa', wf wa -> w_cur wa = w_cur w -> act wa = Ret ra wa' -> wfstep wa wa'),
            (let* r1 := act in
             if r1 <? 0 then ret (r1, p) else
             let* '(r2, p2) := reproc_wait p (sa_timeout a) in
             if negb (r2 =? REPROC_ETIMEDOUT) then ret (r2, p2) else stop_loop rest p2 r2) w = Ret (r, p') w' ->
            wait_exact p w r p' w').
  { intros act Hk Ea. apply bind_inv in Ea as (r1 & w1 & E1 & Ea).
    pose proof (Hk w r1 w1 W eq_refl E1) as S1.
    destruct (Z.ltb_spec r1 0). { apply ret_inv in Ea as [Ea _]. injection Ea as -> ->. lia. }
    apply bind_inv in Ea as ([r2 p2] & w2 & E2 & Ea). cbv beta iota in Ea.
    pose proof S1 as (W1 & C1 & _).
    destruct (Z.eqb_spec r2 REPROC_ETIMEDOUT) as [->|Hnt]; cbn [negb] in Ea.
    - (* timed out: the handle is unchanged, go on with the rest *)
      pose proof (reproc_wait_wf _ _ _ _ _ _ W1 Hpid E2) as S2.
      destruct (emitsR_reproc_wait p (sa_timeout a) w1) as [_ Hpost]. specialize (Hpost _ _ E2). cbn [fst snd] in Hpost.
      destruct Hpost as (_ & Hsame & _). rewrite (Hsame ltac:(unfold REPROC_ETIMEDOUT; lia)) in Ea.
      eapply wait_exact_lift; [exact (wfstep_trans _ _ _ S1 S2)|].
      pose proof S2 as (W2 & C2 & _).
      apply (IH p REPROC_ETIMEDOUT w2 r p' w' W2 Hs Hpid ltac:(congruence) ltac:(unfold REPROC_ETIMEDOUT; lia) Ea Hr).
    - apply ret_inv in Ea as [Ea <-]. injection Ea as <- <-.
      eapply wait_exact_lift; [exact S1|]. apply (reproc_wait_exact p (sa_timeout a) w1 _ _ _ W1 Hs Hpid E2 Hr). }
  assert (Hkill : forall sig wa ra wa', wf wa -> w_cur wa = w_cur w ->
            (let* q := sys_kill (h_handle p) sig in if q <? 0 then let* e := get_errno in ret (- e) else ret 0) wa = Ret ra wa' -> wfstep wa wa').
  { intros sig wa ra wa' Wa Ca Ek. apply bind_inv in Ek as (q & wb & Eq & Ek).
    pose proof (sys_kill_wf (h_handle p) sig wa q wb Wa ltac:(rewrite Ca; exact Hne) Eq) as Sb.
    destruct (q <? 0).
    - apply bind_inv in Ek as (e & wb' & Eg & Ek). injection Eg as _ <-. apply ret_inv in Ek as [_ ->]. exact Sb.
    - apply ret_inv in Ek as [_ ->]. exact Sb. }
  destruct (stop_action_kind (sa_action a)) eqn:Ek.
  - (* noop *) apply (IH p r0 w r p' w' W Hs Hpid Hne Hr0 E Hr).
  - (* wait *) apply (Hact (ret 0)); [|exact E]. intros wa ra wa' Wa _ Er. apply ret_inv in Er as [_ ->]. apply wfstep_refl, Wa.
  - (* terminate *) apply (Hact (reproc_terminate p)); [|exact E].
    intros wa ra wa' Wa Ca Er. unfold reproc_terminate in Er. rewrite Hs in Er.
    change (STATUS_IN_PROGRESS =? STATUS_IN_CHILD) with false in Er. change (STATUS_IN_PROGRESS =? STATUS_NOT_STARTED) with false in Er.
    change (0 <=? STATUS_IN_PROGRESS) with false in Er. cbv iota in Er. exact (Hkill SIGTERM wa ra wa' Wa Ca Er).
  - (* kill *) apply (Hact (reproc_kill p)); [|exact E].
    intros wa ra wa' Wa Ca Er. unfold reproc_kill in Er. rewrite Hs in Er.
    change (STATUS_IN_PROGRESS =? STATUS_IN_CHILD) with false in Er. change (STATUS_IN_PROGRESS =? STATUS_NOT_STARTED) with false in Er.
    change (0 <=? STATUS_IN_PROGRESS) with false in Er. cbv iota in Er. exact (Hkill SIGKILL wa ra wa' Wa Ca Er).
  - (* out of range *) apply (Hact (ret REPROC_EINVAL)); [|exact E]. intros wa ra wa' Wa _ Er. apply ret_inv in Er as [_ ->]. apply wfstep_refl, Wa.
Qed.

Theorem reproc_stop_exact p acts w r p' w' :
  wf w -> h_status p = STATUS_IN_PROGRESS -> 0 < h_handle p -> h_handle p <> w_cur w ->
  reproc_stop p acts w = Ret (r, p') w' -> 0 <= r -> wait_exact p w r p' w'.
Proof.
  intros W Hs Hpid Hne E Hr. unfold reproc_stop in E. rewrite Hs in E.
  change (STATUS_IN_PROGRESS =? STATUS_IN_CHILD) with false in E. change (STATUS_IN_PROGRESS =? STATUS_NOT_STARTED) with false in E.
  cbv iota zeta in E. eapply stop_loop_exact; try eassumption. lia.
Qed.
