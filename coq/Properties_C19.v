(* Properties_C19.v -- C19 "reproc++ is a faithful mapping of the C API": theorems only.

   Every statement is about the data regenerated from the sources (gen/Cpp_gen.v) and is closed
   by computation or by applying a specification lemma of Cpp.v to a computation.  When the
   sources stop satisfying the property the corresponding proof stops compiling
   (D15: C19_options_positional; D16: C19_clone_complete). *)
From Coq Require Import ZArith List String.
From Verif Require Import Cpp_gen Cpp.
Import ListNotations.
Local Open Scope string_scope.

(* The braced initialiser returned by reproc_options_from (helper calls inlined) has as many
   leaves as struct reproc_options, and leaf k initialises C field k from the same-named field
   of the C++ options (modulo Cpp.accessor_table), or from the parameter `fork` for `fork`. *)
Theorem C19_options_positional :
  positional_spec reproc_options_from_params (names cpp_options_fields)
                  reproc_options_from_init (names c_reproc_options_fields).
Proof. apply positional_ok_spec. vm_compute. reflexivity. Qed.
Print Assumptions C19_options_positional.

Theorem C19_redirect_positional :
  positional_spec reproc_redirect_from_params (names cpp_redirect_fields)
                  reproc_redirect_from_init (names c_reproc_redirect_fields).
Proof. apply positional_ok_spec. vm_compute. reflexivity. Qed.
Print Assumptions C19_redirect_positional.

Theorem C19_stop_positional :
  positional_spec reproc_stop_actions_from_params (names cpp_stop_actions_fields)
                  reproc_stop_actions_from_init (names c_reproc_stop_actions_fields).
Proof. apply positional_ok_spec. vm_compute. reflexivity. Qed.
Print Assumptions C19_stop_positional.

(* Conversely every field of the C++ options except Cpp.cpp_only_fields (= timeout, which has
   no C counterpart) is read by some leaf of the initialiser. *)
Theorem C19_options_fields_covered :
  forall f, In f (names cpp_options_fields) -> ~ In f cpp_only_fields ->
  exists leaf e, In leaf reproc_options_from_init /\
                 strip_prefix "options." leaf = Some e /\ fst (resolve e) = f.
Proof. apply options_fields_covered_spec. vm_compute. reflexivity. Qed.
Print Assumptions C19_options_fields_covered.

(* Every enumerator of every C++ enum has the value of its C namesake (and the enums are in
   bijection: Cpp.enums_ok also checks counts and that no C enumerator is left over); the C++
   constants are initialised from the C constants. *)
Theorem C19_enums_equal :
  (forall ename enumerators n v,
     In (ename, enumerators) cpp_enums -> In (n, v) enumerators ->
     exists prefix, assoc ename enum_table = Some prefix /\
                    assoc (c_name prefix n) c_enumerators = Some v) /\
  enums_ok = true /\
  cpp_const_inits = const_table.
Proof.
  split; [|split].
  - apply enums_ok_spec. vm_compute. reflexivity.
  - vm_compute. reflexivity.
  - apply pairs_eqb_eq. vm_compute. reflexivity.
Qed.
Print Assumptions C19_enums_equal.

(* options::clone assigns every field of struct options (directly or by assigning an enclosing
   struct) from the same field of its argument. *)
Theorem C19_clone_complete :
  forall f, In f (names cpp_options_fields) ->
  exists l r p q, In (l, r) clone_assigns /\
    strip_prefix (clone_local ++ ".") l = Some p /\ strip_prefix (clone_param ++ ".") r = Some q /\
    (p = f \/ has_prefix (p ++ ".") f = true) /\ fst (resolve q) = p.
Proof. apply clone_complete_spec. vm_compute. reflexivity. Qed.
Print Assumptions C19_clone_complete.

(* The model of error_code_from is the reading of the regenerated text of the function ... *)
Theorem C19_error_code_transcribed :
  assoc "error_code_from" cpp_bodies = Some error_code_from_text.
Proof. vm_compute. reflexivity. Qed.
Print Assumptions C19_error_code_transcribed.

(* ... and for ALL r: non-negative results give success; negative results give an error whose
   value is -r in the system category, except the closed-pipe error which gives
   errc::broken_pipe in the generic category. *)
Theorem C19_error_code :
  forall r : Z,
    ((r >= 0)%Z -> error_code_from r = success) /\
    ((r < 0)%Z -> is_error (error_code_from r)) /\
    ((r < 0)%Z -> r <> C_REPROC_EPIPE -> error_code_from r = (system_category, (- r)%Z)) /\
    (r = C_REPROC_EPIPE -> error_code_from r = (generic_category, ERRC_broken_pipe)).
Proof. apply error_code_from_correct; vm_compute; [reflexivity | discriminate]. Qed.
Print Assumptions C19_error_code.

(* Each named C error is negative and maps to the value of its std::errc namesake. *)
Theorem C19_named_errors :
  Forall (fun nv => (snd nv < 0)%Z) (filter (fun nv => has_prefix "REPROC_E" (fst nv)) c_constants) /\
  Some (snd (error_code_from C_REPROC_EINVAL))      = assoc "invalid_argument" errc_values /\
  Some (snd (error_code_from C_REPROC_ETIMEDOUT))   = assoc "timed_out" errc_values /\
  Some (snd (error_code_from C_REPROC_EPIPE))       = assoc "broken_pipe" errc_values /\
  Some (snd (error_code_from C_REPROC_ENOMEM))      = assoc "not_enough_memory" errc_values /\
  Some (snd (error_code_from C_REPROC_EWOULDBLOCK)) = assoc "operation_would_block" errc_values.
Proof. vm_compute. repeat split; repeat constructor. Qed.
Print Assumptions C19_named_errors.

(* Every member function of process calls the C function of the same name on impl_.get() and
   returns error_code_from of its result (alone, or paired with the result itself); start and
   fork pass fork = false / true; poll has exactly the reviewed text Cpp.poll_text; and nothing
   else is defined in reproc.cpp. *)
Theorem C19_methods_forward : methods_ok = true.
Proof. vm_compute. reflexivity. Qed.
Print Assumptions C19_methods_forward.

(* process::process() initialises impl_ with (reproc_new(), reproc_destroy), impl_ is a
   unique_ptr with a function-pointer deleter, and the destructor and move members are
   defaulted: destroying a process calls reproc_destroy exactly when impl_ is non-null (C15). *)
Theorem C19_deleter_is_destroy : deleter_ok = true.
Proof. vm_compute. reflexivity. Qed.
Print Assumptions C19_deleter_is_destroy.
