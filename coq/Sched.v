(* Sched.v — pipes, scripted children, virtual time (DESIGN.md 3.3, 3.4).
   Definitions only. *)
From Verif Require Export World.
Local Open Scope Z_scope.

(* ---- pipe buffers ---- *)
Definition split_run (r : run) (k : Z) : run * run :=
  match r with
  | RPos s o l => (RPos s o k, RPos s (o + k) (l - k))
  | RLit b => (RLit (firstn (Z.to_nat k) b), RLit (skipn (Z.to_nat k) b))
  end.

(* take up to n bytes from the front of a run list *)
Fixpoint take_runs (n : Z) (buf : list run) : list run * list run :=
  match buf with
  | [] => ([], [])
  | r :: rest =>
      if n <=? 0 then ([], buf)
      else let l := run_len r in
           if l <=? n then let '(a, b) := take_runs (n - l) rest in (r :: a, b)
           else let '(x, y) := split_run r n in ([x], y :: rest)
  end.

(* capacity of every pipe of this world: entry (-1, cap) of the latency plan, default 65536
   (Linux hands out smaller pipes to users over their pipe-buffer quota) *)
Definition w_pipecap (w : world) : Z :=
  match assocZ (-1) (w_lat w) with Some c => Z.max pipe_atomic c | None => pipe_capacity end.
Definition pipe_free_cap (cap : Z) (p : pipe) : Z := cap - p_len p.
Definition pipe_append (r : run) (p : pipe) : pipe :=
  {| p_buf := p_buf p ++ [r]; p_len := p_len p + run_len r |}.
Definition pipe_take (n : Z) (p : pipe) : list run * pipe :=
  let '(a, b) := take_runs n (p_buf p) in
  (a, {| p_buf := b; p_len := p_len p - runs_len a |}).

Definition set_pipe (id : Z) (p : pipe) (w : world) : world :=
  w_with_pipes (<[id := p]> (w_pipes w)) w.

(* ---- children ---- *)
Definition wstatus_exit (code : Z) : N := Z.to_N ((code mod 256) * 256).
(* signals whose default action dumps core: the wait status carries the core flag (0x80), as with
   a non-zero RLIMIT_CORE; WTERMSIG masks it out, W*-macro-free decoders must too *)
Definition core_signals : list Z := [3; 4; 5; 6; 7; 8; 11; 24; 25; 31].
Definition wstatus_sig (sig : Z) : N := Z.to_N (sig + (if existsb (Z.eqb sig) core_signals then 128 else 0)).

Definition add_seen (o : obs) (p : proc) : proc := pr_with_seen (o :: pr_seen p) p.

(* a process dies; children of the caller's process (or of a process still running
   library code) become zombies, everything else is reaped at once by "init" *)
Definition kill_proc (pid : Z) (st : N) (w : world) : world :=
  let p := get_proc pid w in
  let par := get_proc (pr_parent p) w in
  let reapable := match pr_kind par, pr_state par with KLib, Running => true | _, _ => false end in
  upd_proc pid (pr_die st (negb reapable) (w_time w)) w.

Definition disp_of (p : proc) (sig : Z) : disp := default DDefault (pr_disp p !! sig).

(* deliver a signal to a scripted (or library-running) process *)
Definition deliver (pid sig : Z) (w : world) : world :=
  let p := get_proc pid w in
  match pr_state p with
  | Running =>
      let w1 := upd_proc pid (add_seen (OSig sig (w_time w))) w in
      if (sig =? SIGKILL) then kill_proc pid (wstatus_sig sig) w1
      else match disp_of p sig with
           | DDefault => kill_proc pid (wstatus_sig sig) w1
           | DIgnore => w1
           | DHandler => w1
           | DScript delay code =>
               let last := match code with Some c => AExit c | None => ARaise sig end in
               upd_proc pid (pr_with_script [last] (w_time w + delay)) w1
           end
  | _ => w
  end.

Definition next_woff (p : proc) (fd : Z) : Z := default 0 (assocZ fd (pr_woff p)).
Definition child_src (pid fd : Z) : Z := pid * 16 + fd.

(* one step of child [pid] if it is due and enabled *)
Definition step_child (pid : Z) (w : world) : option world :=
  let p := get_proc pid w in
  match pr_state p, pr_kind p with
  | Running, KScript =>
    if w_time w <? pr_wake p then None else
    match pr_script p with
    | [] => Some (kill_proc pid (wstatus_exit 0) w)
    | a :: rest =>
      let adv := upd_proc pid (pr_with_script rest (pr_wake p)) in
      match a with
      | ASleep ms => Some (upd_proc pid (pr_with_script rest (w_time w + ms)) w)
      | AWrite fd n =>
          if n <=? 0 then Some (adv w) else
          match pr_fds p !! fd with
          | Some {| f_obj := OPipeW q |} =>
              if negb (has_reader q w) then
                (* EPIPE + SIGPIPE *)
                match disp_of p SIGPIPE with
                | DIgnore => Some (adv w)
                | _ => Some (kill_proc pid (wstatus_sig SIGPIPE) w)
                end
              else
                let pp := get_pipe q w in
                let free := pipe_free_cap (w_pipecap w) pp in
                if free <=? 0 then None else
                let k := Z.min n free in
                let off := next_woff p fd in
                let w1 := set_pipe q (pipe_append (RPos (child_src pid fd) off k) pp) w in
                let w2 := upd_proc pid (pr_with_woff (assocZ_set fd (off + k) (pr_woff p))) w1 in
                Some (if k <? n
                      then upd_proc pid (pr_with_script (AWrite fd (n - k) :: rest) (pr_wake p)) w2
                      else upd_proc pid (pr_with_script rest (pr_wake p)) w2)
          | Some _ =>
              (* non-pipe target: the bytes go to the object; offsets still advance *)
              let off := next_woff p fd in
              Some (upd_proc pid (pr_with_script rest (pr_wake p))
                      (upd_proc pid (pr_with_woff (assocZ_set fd (off + n) (pr_woff p))) w))
          | None => Some (adv w)
          end
      | ARead fd n =>
          match pr_fds p !! fd with
          | Some {| f_obj := OPipeR q |} =>
              let pp := get_pipe q w in
              if 0 <? p_len pp then
                let '(rs, pp') := pipe_take n pp in
                Some (adv (upd_proc pid (add_seen (OData fd rs (w_time w))) (set_pipe q pp' w)))
              else if has_writer q w then None
              else Some (adv (upd_proc pid (add_seen (OEof fd (w_time w))) w))
          | Some _ => Some (adv (upd_proc pid (add_seen (OEof fd (w_time w))) w))
          | None => Some (adv w)
          end
      | AReadAll fd =>
          match pr_fds p !! fd with
          | Some {| f_obj := OPipeR q |} =>
              let pp := get_pipe q w in
              if 0 <? p_len pp then
                let '(rs, pp') := pipe_take (p_len pp) pp in
                Some (upd_proc pid (add_seen (OData fd rs (w_time w))) (set_pipe q pp' w))
              else if has_writer q w then None
              else Some (adv (upd_proc pid (add_seen (OEof fd (w_time w))) w))
          | Some _ => Some (adv (upd_proc pid (add_seen (OEof fd (w_time w))) w))
          | None => Some (adv w)
          end
      | AClose fd => Some (adv (upd_proc pid (fun p => pr_with_fds (delete fd (pr_fds p)) p) w))
      | AExit code => Some (kill_proc pid (wstatus_exit code) w)
      | ARaise sig => Some (kill_proc pid (wstatus_sig sig) w)
      | AIgnore sig =>
          Some (adv (upd_proc pid (fun p => pr_with_disp (<[sig := DIgnore]> (pr_disp p)) p) w))
      | AHandle sig delay code =>
          Some (adv (upd_proc pid (fun p => pr_with_disp (<[sig := DScript delay code]> (pr_disp p)) p) w))
      | ASpawn s =>
          let c := w_next_pid w in
          let w1 := adv w in
          Some (w_with_next_pid (c + 1)
                  (w_with_procs (<[c := pr_spawn_copy pid s (w_time w) (get_proc pid w1)]> (w_procs w1)) w1))
      end
    end
  | _, _ => None
  end.

Definition script_pids (w : world) : list Z :=
  map fst (filter (fun kv => match pr_state (snd kv), pr_kind (snd kv) with
                             | Running, KScript => true | _, _ => false end)
                  (map_to_list (w_procs w))).

(* one round-robin pass; returns whether anything moved *)
Fixpoint settle_pass (pids : list Z) (w : world) : bool * world :=
  match pids with
  | [] => (false, w)
  | pid :: rest =>
      match step_child pid w with
      | Some w' => let '(_, w'') := settle_pass rest w' in (true, w'')
      | None => settle_pass rest w
      end
  end.

Fixpoint settle_fuel (fuel : nat) (w : world) : option world :=
  match fuel with
  | O => None
  | S f => let '(moved, w') := settle_pass (script_pids w) w in
           if moved then settle_fuel f w' else Some w'
  end.

Fixpoint act_weight (a : act) : nat :=
  match a with
  | ASpawn s => S (fold_right (fun a n => (act_weight a + n)%nat) O s)
  | AWrite _ n => S (Z.to_nat (n / pipe_atomic))
  | AHandle _ _ _ => 3
  | _ => 1
  end.
Definition script_weight (s : list act) : nat := fold_right (fun a n => (act_weight a + n)%nat) O s.
Definition total_weight (w : world) : nat :=
  fold_right (fun kv n => (S (S (script_weight (pr_script (snd kv)))) + n)%nat) O
             (map_to_list (w_procs w)).

Definition settle_budget (w : world) : nat :=
  let a := total_weight w in let c := size (w_procs w) in ((a + 2) * (c + 2) * 2 + 8)%nat.

(* None = out of fuel *)
Definition settle (w : world) : option world := settle_fuel (settle_budget w) w.

(* earliest future wake-up among running scripted processes *)
Definition next_instant (w : world) : option Z :=
  fold_right (fun kv (acc : option Z) =>
                let p := snd kv in
                match pr_state p, pr_kind p with
                | Running, KScript =>
                    if w_time w <? pr_wake p then
                      match acc with
                      | Some t => Some (Z.min t (pr_wake p))
                      | None => Some (pr_wake p)
                      end
                    else acc
                | _, _ => acc
                end) None (map_to_list (w_procs w)).

(* let virtual time pass up to [t], visiting every wake-up instant in order *)
Fixpoint advance_fuel (fuel : nat) (t : Z) (w : world) : option world :=
  match fuel with
  | O => None
  | S f =>
      match settle w with
      | None => None
      | Some w1 =>
          match next_instant w1 with
          | Some ni => if ni <=? t then advance_fuel f t (w_with_time ni w1)
                       else if w_time w1 <? t then settle (w_with_time t w1) else Some w1
          | None => if w_time w1 <? t then settle (w_with_time t w1) else Some w1
          end
      end
  end.
Definition advance_to (t : Z) (w : world) : option world :=
  advance_fuel (total_weight w + 4)%nat t w.

(* Result of blocking until [ready] holds or [tmo] ms passed (tmo < 0: for ever). *)
Inductive blocked_res := BReady (w : world) | BTimeout (w : world) | BHang (w : world) | BFuel (w : world).

Fixpoint block_fuel (fuel : nat) (ready : world -> bool) (deadline : option Z) (w : world) : blocked_res :=
  match fuel with
  | O => BFuel w
  | S f =>
      match settle w with
      | None => BFuel w
      | Some w1 =>
          if ready w1 then BReady w1 else
          match next_instant w1, deadline with
          | None, None => BHang w1
          | None, Some d => BTimeout (if w_time w1 <? d then w_with_time d w1 else w1)
          | Some ni, None => block_fuel f ready deadline (w_with_time ni w1)
          | Some ni, Some d =>
              if d <? ni then BTimeout (if w_time w1 <? d then w_with_time d w1 else w1)
              else block_fuel f ready deadline (w_with_time ni w1)
          end
      end
  end.
Definition block_until (ready : world -> bool) (tmo : Z) (w : world) : blocked_res :=
  block_fuel (total_weight w + 4)%nat ready
             (if tmo <? 0 then None else Some (w_time w + tmo)) w.
