(* MultiMem.v — C05, memory, any number of handles: reproc_new at any point, calls interleaved in
   any order, destroys in any order, every fault plan; when every handle has been destroyed the
   caller's heap holds exactly the blocks it held at the beginning. *)
From Verif Require Import Lib WorldSpec WorldSpec2 LibSpec LibSpec2 WaitSpec ParentSpec StartSpec StopSpec FdSpec HeapSpec MemSpec RunSpec MultiSpec.
From Coq Require Import Lia.
Local Open Scope Z_scope.

Lemma hq_ext L L' own w : (forall id, L id = L' id) -> hq L own w -> hq L' own w.
Proof.
  intros HE (Hm & Hb & Hl & Ho & Hn & Hf). split; [exact Hm|]. split; [exact Hb|].
  split; [intros id; rewrite <- HE; apply Hl|]. split; [intros id X; rewrite <- HE; apply Ho, X|]. split; [exact Hn|].
  intros id X. rewrite <- HE. apply Hf, X.
Qed.

Definition blks (ps : list rp) : list Z := map h_blk ps.
(* live = what was live at the beginning + the blocks of the live handles *)
Definition MM (L0 : Z -> bool) (ps : list rp) (w : world) : Prop :=
  hq (fun id => L0 id || memZ id (blks ps)) [] w /\ NoDup (blks ps) /\ (forall b, In b (blks ps) -> L0 b = false /\ b <> 0).

Lemma memZ_app x l k : memZ x (l ++ k) = memZ x l || memZ x k.
Proof. unfold memZ. apply existsb_app. Qed.
Lemma MM_call L0 c ck l1 p l2 op w p' w' : MM L0 (l1 ++ p :: l2) w -> WorldSpec2.wf w -> w_cur w = c -> 0 <= c ->
  (forall q, kp c (ck q)) -> (forall q, hk true (ck q)) -> run_hop ck p op w = Ret p' w' -> MM L0 (l1 ++ p' :: l2) w'.
Proof.
  intros (Hq & Hn & Hb) W C Hc Hkp Hkh E.
  pose proof (post_run_hop_blk ck p op _ _ _ E) as B. cbn beta in B.
  assert (Eb : blks (l1 ++ p' :: l2) = blks (l1 ++ p :: l2)) by (unfold blks; rewrite !map_app; cbn [map]; rewrite B; reflexivity).
  unfold MM. rewrite Eb. split; [|split; assumption].
  exact (O_run_hop_gen _ _ _ _ _ _ _ _ W C Hc Hq Hkp Hkh E).
Qed.
Lemma MM_new L0 ps w np w' : MM L0 ps w -> reproc_new w = Ret np w' ->
  MM L0 (match np with Some p => ps ++ [p] | None => ps end) w'.
Proof.
  intros (Hq & Hn & Hb) E. unfold reproc_new in E. apply bind_inv in E as (b & w1 & Ea & E).
  destruct (H_alloc _ _ _ _ _ _ _ _ Hq Ea) as [[-> H1]|[Hnz H1]].
  - change (0 =? 0) with true in E. cbv iota in E. apply ret_inv in E as [-> ->]. split; [exact H1|]. split; assumption.
  - destruct (Z.eqb_spec b 0); [contradiction|]. apply ret_inv in E as [-> ->].
    assert (Lb : (L0 b || memZ b (blks ps)) = false). { destruct H1 as (_ & _ & _ & Ho & _). apply (Ho b). cbn. rewrite Z.eqb_refl. reflexivity. }
    apply orb_false_iff in Lb as [Lb0 Lbm].
    unfold MM, blks. rewrite map_app. cbn [map h_blk rp_new]. fold (blks ps). split.
    + eapply hq_ext; [|exact (hq_absorb _ _ _ H1)]. intros id. cbn beta. rewrite memZ_app. cbn [memZ existsb]. rewrite orb_false_r, orb_assoc. reflexivity.
    + split.
      * apply NoDup_app_intro; [exact Hn|constructor; [intros []|constructor]|]. intros x Hx [<-|[]].
        apply memZ_In in Hx. congruence.
      * intros x Hx. apply in_app_or in Hx as [Hx|[<-|[]]]; [apply Hb, Hx|]. split; [exact Lb0|exact Hnz].
Qed.
Lemma MM_destroy L0 l1 p l2 w u w' : MM L0 (l1 ++ p :: l2) w -> reproc_destroy p w = Ret u w' -> MM L0 (l1 ++ l2) w'.
Proof.
  intros (Hq & Hn & Hb) E.
  assert (Hin : In (h_blk p) (blks (l1 ++ p :: l2))) by (unfold blks; rewrite map_app; apply in_or_app; right; left; reflexivity).
  destruct (Hb _ Hin) as [HL0 Hnz].
  assert (HL : (fun id => L0 id || memZ id (blks (l1 ++ p :: l2))) (h_blk p) = true).
  { cbn beta. apply orb_true_iff. right. apply memZ_In. exact Hin. }
  pose proof (O_reproc_destroy _ _ _ _ _ Hq HL Hnz E) as H1.
  unfold blks in Hn. rewrite map_app in Hn. cbn [map] in Hn.
  pose proof (NoDup_remove_2 _ _ _ Hn) as Hnot. pose proof (NoDup_remove_1 _ _ _ Hn) as Hn'.
  split.
  - eapply hq_ext; [|exact H1]. intros id. cbn beta. unfold blks. rewrite !map_app. cbn [map]. rewrite !memZ_app. cbn [memZ existsb].
    fold (memZ id (map h_blk l2)). destruct (Z.eqb_spec id (h_blk p)) as [->|Hne]; cbn [negb orb].
    + rewrite andb_false_r. rewrite HL0. cbn [orb]. symmetry. apply orb_false_iff. split.
      * destruct (memZ (h_blk p) (map h_blk l1)) eqn:X; [|reflexivity]. exfalso. apply Hnot, in_or_app. left. apply memZ_In. exact X.
      * destruct (memZ (h_blk p) (map h_blk l2)) eqn:X; [|reflexivity]. exfalso. apply Hnot, in_or_app. right. apply memZ_In. exact X.
    + rewrite andb_true_r. reflexivity.
  - split; [unfold blks; rewrite map_app; exact Hn'|]. intros b Hbin. apply Hb. unfold blks in *. rewrite map_app in *. cbn [map].
    apply in_app_or in Hbin as [X|X]; apply in_or_app; [left; exact X|right; right; exact X].
Qed.

Lemma MB_run_mop T c L0 ck ps m w ps' w' : MI T c ps w -> MM L0 ps w -> (forall q, kp c (ck q)) -> (forall q, hk true (ck q)) ->
  run_mop ck ps m w = Ret ps' w' -> MM L0 ps' w'.
Proof.
  intros HI HM Hkp Hkh E.
  assert (W : WorldSpec2.wf w) by apply HI. assert (C : w_cur w = c) by apply HI. assert (Hc : 0 <= c) by apply HI.
  destruct m as [|i op|i|fuel argv o src s0]; cbn [run_mop] in E.
  - apply bind_inv in E as (np & w1 & E1 & E). apply ret_inv in E as [-> ->]. exact (MM_new _ _ _ _ _ HM E1).
  - destruct (split_at i ps) as [[[l1 p] l2]|] eqn:Es; [|apply ret_inv in E as [-> ->]; exact HM].
    apply split_at_app in Es. subst ps. apply bind_inv in E as (p' & w1 & E1 & E). apply ret_inv in E as [-> ->].
    exact (MM_call _ _ _ _ _ _ _ _ _ _ HM W C Hc Hkp Hkh E1).
  - destruct (split_at i ps) as [[[l1 p] l2]|] eqn:Es; [|apply ret_inv in E as [-> ->]; exact HM].
    apply split_at_app in Es. subst ps. apply bind_inv in E as (u & w1 & E1 & E). apply ret_inv in E as [-> ->].
    exact (MM_destroy _ _ _ _ _ _ _ HM E1).
  - apply bind_inv in E as (x & w1 & E1 & E). apply ret_inv in E as [-> ->].
    destruct HM as (Hq & Hn & Hb). split; [|split; assumption].
    exact (run_ex_hq _ _ _ _ _ _ _ _ _ W ltac:(rewrite C; exact Hc) Hq E1).
Qed.
Lemma MB_run_mops T c L0 ck ms : forall ps w ps' w', MI T c ps w -> MM L0 ps w -> (forall q, kp c (ck q)) -> (forall q, hk true (ck q)) ->
  run_mops ck ps ms w = Ret ps' w' -> MI T c ps' w' /\ MM L0 ps' w'.
Proof.
  induction ms as [|m rest IH]; intros ps w ps' w' HI HM Hkp Hkh E; cbn [run_mops] in E.
  - apply ret_inv in E as [-> ->]. auto.
  - apply bind_inv in E as (ps1 & w1 & E1 & E).
    exact (IH _ _ _ _ (MI_run_mop _ _ _ _ _ _ _ _ HI Hkp E1) (MB_run_mop _ _ _ _ _ _ _ _ _ HI HM Hkp Hkh E1) Hkp Hkh E).
Qed.
Lemma MM_destroy_all L0 : forall ps w u w', MM L0 ps w -> destroy_all ps w = Ret u w' -> MM L0 [] w'.
Proof.
  induction ps as [|p r IH]; intros w u w' H E; cbn [destroy_all] in E.
  - apply ret_inv in E as [_ ->]. exact H.
  - apply bind_inv in E as (u1 & w1 & E1 & E). exact (IH _ _ _ (MM_destroy L0 [] p r _ _ _ H E1) E).
Qed.

(* THE THEOREM, memory, any number of handles *)
Theorem multi_history_releases_memory ck ms w u w' :
  WorldSpec2.wf w -> 0 <= w_cur w -> w_cur w = w_main w -> 0 < w_next_blk w ->
  (forall id, w_next_blk w <= id -> heap_live id w = false) ->
  (forall q, kp (w_cur w) (ck q)) -> (forall q, hk true (ck q)) ->
  (let* ps := run_mops ck [] ms in destroy_all ps) w = Ret u w' ->
  forall id, heap_live id w' = heap_live id w.
Proof.
  intros W Hpos Hmain Hnb Hhw Hkp Hkh E. apply bind_inv in E as (ps & w1 & E1 & E).
  assert (H0 : MI (tb w) (w_cur w) [] w).
  { split; [split; [apply fq_start, W|constructor]|]. split; [exact Hpos|]. split; [constructor|exact Hnb]. }
  assert (M0 : MM (fun id => heap_live id w) [] w).
  { split; [eapply hq_ext; [|exact (hq_start w Hmain Hnb Hhw)]; intros id; cbn; rewrite orb_false_r; reflexivity|].
    split; [constructor|intros b []]. }
  destruct (MB_run_mops _ _ _ _ _ _ _ _ _ H0 M0 Hkp Hkh E1) as [_ M1].
  destruct (MM_destroy_all _ _ _ _ _ M1 E) as (Hq & _).
  intros id. rewrite (hq_end _ _ Hq id). cbn. rewrite orb_false_r. reflexivity.
Qed.
