(* ChildSpec.v — the child side of fork, for every descriptor table, limit and flag assignment
   (fault-free child): specifications of the library's helpers in the state-aware calculus and
   the descriptor-closing loop. *)
From Verif Require Import Lib WorldSpec WorldSpec2.
From Coq Require Import Lia.
Local Open Scope Z_scope.

Section Child.
  Context {QS : world -> Prop}.
  Notation H P m Q := (hoare P m Q QS).

  Ltac hb := eapply hoare_bind.
  Ltac hpre := apply hoare_pure; intros ->.

  (* ---- handle.posix.c ---- *)
  Definition cloexec_flag (d : fdent) : Z := if f_cloexec d then FD_CLOEXEC else 0.

  Lemma lor_cloexec d : has_bit (Z.lor (cloexec_flag d) FD_CLOEXEC) FD_CLOEXEC = true.
  Proof. unfold cloexec_flag, FD_CLOEXEC. destruct (f_cloexec d); reflexivity. Qed.
  Lemma land_cloexec d : has_bit (Z.land (cloexec_flag d) (Z.lnot FD_CLOEXEC)) FD_CLOEXEC = false.
  Proof. unfold cloexec_flag, FD_CLOEXEC. destruct (f_cloexec d); reflexivity. Qed.

  Lemma h_handle_cloexec p h enable : H (st p) (handle_cloexec h enable)
    (fun r w' => match pr_fds p !! h with
                 | Some d => r = 0 /\ st (pr_with_fds (<[h := fd_set_cloexec enable d]> (pr_fds p)) p) w'
                 | None => r < 0 /\ st p w' end).
  Proof.
    unfold handle_cloexec. hb; [apply h_getfd|]. intros r. cbv beta.
    apply hoare_pre. intros w (S & -> & Herr).
    destruct (pr_fds p !! h) as [d|] eqn:E.
    2:{ intros w0 ->. cbn. rewrite (Herr eq_refl). split; [unfold EBADF; lia|exact S]. }
    eapply hoare_conseq with (P := st p); [intros ? ->; exact S|intros a w' X; exact X|intros w' X; exact X|].
    fold (cloexec_flag d).
    assert (Hr : (cloexec_flag d <? 0) = false) by (unfold cloexec_flag, FD_CLOEXEC; destruct (f_cloexec d); reflexivity).
    rewrite Hr.
    hb; [apply h_setfd|]. intros r2. cbv beta. rewrite E.
    destruct enable.
    - rewrite lor_cloexec. apply hoare_pure. intros ->. cbn. apply hoare_ret. auto.
    - rewrite land_cloexec. apply hoare_pure. intros ->. cbn. apply hoare_ret. auto.
  Qed.

  Lemma h_handle_destroy p h : H (st p) (handle_destroy h)
    (fun r w' => r = -1 /\ st (pr_with_fds (if h =? -1 then pr_fds p else delete h (pr_fds p)) p) w').
  Proof.
    unfold handle_destroy, HANDLE_INVALID. destruct (Z.eqb_spec h (-1)).
    - apply hoare_ret. intros w S. split; [reflexivity|]. destruct p; exact S.
    - hb; [apply h_close|]. intros r. cbv beta. apply hoare_ret. intros w X. split; [reflexivity|].
      destruct (pr_fds p !! h) eqn:E.
      + destruct X as [_ S]. exact S.
      + destruct X as [_ S]. rewrite delete_notin by exact E. destruct p; exact S.
  Qed.

  (* one iteration of the closing loop: a kept number is skipped, any other number is closed if open *)
  Lemma h_close_one p skip i : 0 <= i -> H (st p) (close_one skip i)
    (fun _ w' => st (pr_with_fds (if memZ i skip then pr_fds p else delete i (pr_fds p)) p) w').
  Proof.
    intros Hi. unfold close_one. destruct (memZ i skip).
    { apply hoare_ret. intros w S. destruct p; exact S. }
    hb; [apply h_getfd|]. intros r. cbv beta. apply hoare_pre. intros w (S & -> & _).
    eapply hoare_conseq with (P := st p); [intros ? ->; exact S|intros a w' X; exact X|intros w' X; exact X|].
    destruct (pr_fds p !! i) as [d|] eqn:E.
    - assert (Hr : (0 <=? (if f_cloexec d then FD_CLOEXEC else 0)) = true) by (unfold FD_CLOEXEC; destruct (f_cloexec d); reflexivity).
      rewrite Hr. hb; [apply h_handle_destroy|]. intros r. cbv beta. apply hoare_ret. intros w' [_ S'].
      destruct (Z.eqb_spec i (-1)); [lia|]. exact S'.
    - cbn. apply hoare_ret. intros w' S'. rewrite delete_notin by exact E. destruct p; exact S'.
  Qed.

  Definition close_step (skip : list Z) (t : gmap Z fdent) (i : Z) : gmap Z fdent :=
    if memZ i skip then t else delete i t.

  Lemma h_close_loop skip : forall l p, Forall (fun i => 0 <= i) l ->
    H (st p) (mapM_ (close_one skip) l) (fun _ w' => st (pr_with_fds (foldl (close_step skip) (pr_fds p) l) p) w').
  Proof.
    induction l as [|i l IH]; intros p Hl; cbn [mapM_ foldl].
    - apply hoare_ret. intros w S. destruct p; exact S.
    - inversion Hl as [|? ? Hi Hl']; subst.
      hb; [apply (h_close_one p skip i Hi)|]. intros u. cbv beta.
      eapply hoare_conseq; [| | |apply (IH (pr_with_fds (close_step skip (pr_fds p) i) p) Hl')]; [intros w S; exact S| |auto].
      intros a w S. cbn [pr_fds pr_with_fds] in S. destruct p; exact S.
  Qed.
End Child.

(* the table after the loop, pointwise: a number that was visited and is not kept is gone, every
   other entry is untouched *)
Lemma memZ_cons k i l : memZ k (i :: l) = (k =? i) || memZ k l.
Proof. reflexivity. Qed.

Lemma close_fold_lookup skip : forall l t k,
  foldl (close_step skip) t l !! k = if memZ k l && negb (memZ k skip) then None else t !! k.
Proof.
  induction l as [|i l IH]; intros t k; cbn [foldl]; [reflexivity|].
  rewrite IH, memZ_cons. unfold close_step.
  destruct (Z.eqb_spec k i) as [->|Hne]; cbn [orb].
  - destruct (memZ i skip) eqn:Es; cbn [negb].
    + rewrite !andb_false_r. reflexivity.
    + rewrite !andb_true_r. destruct (memZ i l); [reflexivity|]. apply lookup_delete.
  - destruct (memZ i skip); [reflexivity|].
    destruct (memZ k l && negb (memZ k skip)); [reflexivity|]. apply lookup_delete_ne. congruence.
Qed.

Lemma memZ_seqZ k n : 0 <= n -> memZ k (seqZ 0 n) = (0 <=? k) && (k <? n).
Proof.
  intros Hn. unfold memZ. destruct ((0 <=? k) && (k <? n)) eqn:E.
  - apply existsb_exists. exists k. split; [|apply Z.eqb_refl].
    apply elem_of_list_In, elem_of_seqZ. apply andb_true_iff in E. destruct E as [A B]. apply Z.leb_le in A. apply Z.ltb_lt in B. lia.
  - apply not_true_iff_false. intros Hx. apply existsb_exists in Hx. destruct Hx as (x & Hin & Hx).
    apply Z.eqb_eq in Hx. subst x. apply elem_of_list_In, elem_of_seqZ in Hin.
    apply andb_false_iff in E. destruct E as [A|B]; [apply Z.leb_gt in A|apply Z.ltb_ge in B]; lia.
Qed.

(* C11, loop level: for EVERY table t, limit and keep list — after the loop over 0..max_fd the
   only descriptors left at or below max_fd are the kept ones *)
Theorem close_loop_result skip t max_fd k d : 0 <= max_fd + 1 ->
  foldl (close_step skip) t (seqZ 0 (max_fd + 1)) !! k = Some d ->
  t !! k = Some d /\ (memZ k skip = true \/ k < 0 \/ max_fd < k).
Proof.
  intros Hm Hl. rewrite close_fold_lookup, memZ_seqZ in Hl by exact Hm.
  destruct (Z.leb_spec 0 k); destruct (Z.ltb_spec k (max_fd + 1)); cbn [andb] in Hl;
    try (split; [exact Hl|right; lia]).
  destruct (memZ k skip); cbn [negb] in Hl; [split; [exact Hl|left; reflexivity]|discriminate].
Qed.
Theorem close_loop_keeps skip t max_fd k : memZ k skip = true ->
  foldl (close_step skip) t (seqZ 0 (max_fd + 1)) !! k = t !! k.
Proof. intros Hs. rewrite close_fold_lookup, Hs. cbn [negb]. rewrite andb_false_r. reflexivity. Qed.


(* ================= the child, abstracted to its descriptor table ================= *)
(* [stf L t w]: a well-formed fault-free world whose current process has descriptor table t,
   descriptor limit L and has not executed a program yet; everything else is arbitrary *)
Definition stf (L : Z) (t : gmap Z fdent) (w : world) : Prop :=
  exists q, st q w /\ pr_fds q = t /\ pr_rlimit q = L /\ pr_image q = None.

Section ChildF.
  Context {QS : world -> Prop}.
  Notation H P m Q := (hoare P m Q QS).
  Ltac hb := eapply hoare_bind.

  (* lifting a specification over records to the table abstraction *)
  Lemma lift_fds {A} (m : MW A) L t (Q : A -> gmap Z fdent -> Prop) :
    (forall q, pr_fds q = t -> pr_rlimit q = L ->
               H (st q) m (fun r w' => exists q', st q' w' /\ pr_rlimit q' = pr_rlimit q /\ pr_image q' = pr_image q /\ Q r (pr_fds q'))) ->
    H (stf L t) m (fun r w' => exists t', stf L t' w' /\ Q r t').
  Proof.
    intros Hq w (q & S & Ht & Hl & Hi). specialize (Hq q Ht Hl w S).
    destruct (m w) as [a w1|w1|w1|y w1]; auto.
    destruct Hq as (q' & S' & Hl' & Hi' & HQ). exists (pr_fds q'). split; [|exact HQ].
    exists q'. split; [exact S'|]. split; [reflexivity|]. split; congruence.
  Qed.

  Lemma f_getfd L t fd : H (stf L t) (sys_getfd fd)
    (fun r w' => stf L t w' /\ r = match t !! fd with Some d => (if f_cloexec d then FD_CLOEXEC else 0) | None => -1 end).
  Proof.
    intros w (q & S & Ht & Hl & Hi). pose proof (@h_getfd QS q fd w S) as Hg.
    destruct (sys_getfd fd w); auto. destruct Hg as (S' & -> & _). rewrite Ht. split; [|reflexivity].
    exists q. auto.
  Qed.

  Lemma f_handle_cloexec L t h enable : H (stf L t) (handle_cloexec h enable)
    (fun r w' => match t !! h with
                 | Some d => r = 0 /\ stf L (<[h := fd_set_cloexec enable d]> t) w'
                 | None => r < 0 /\ stf L t w' end).
  Proof.
    intros w (q & S & Ht & Hl & Hi). pose proof (@h_handle_cloexec QS q h enable w S) as Hg.
    destruct (handle_cloexec h enable w); auto. rewrite Ht in Hg.
    destruct (t !! h) as [d|]; destruct Hg as [Hr S']; (split; [exact Hr|]).
    - eexists. split; [exact S'|]. cbn. auto.
    - exists q. auto.
  Qed.

  Lemma f_handle_destroy L t h : H (stf L t) (handle_destroy h)
    (fun r w' => r = -1 /\ stf L (if h =? -1 then t else delete h t) w').
  Proof.
    intros w (q & S & Ht & Hl & Hi). pose proof (@h_handle_destroy QS q h w S) as Hg.
    destruct (handle_destroy h w); auto. destruct Hg as [Hr S']. split; [exact Hr|].
    eexists. split; [exact S'|]. cbn. rewrite Ht. auto.
  Qed.

  Lemma f_close_loop L t skip l : Forall (fun i => 0 <= i) l ->
    H (stf L t) (mapM_ (close_one skip) l) (fun _ w' => stf L (foldl (close_step skip) t l) w').
  Proof.
    intros Hl w (q & S & Ht & Hlim & Hi). pose proof (@h_close_loop QS skip l q Hl w S) as Hg.
    destruct (mapM_ (close_one skip) l w); auto.
    eexists. split; [exact Hg|]. cbn. rewrite Ht. auto.
  Qed.

  (* table + the errno of the current process *)
  Definition stfe (L : Z) (t : gmap Z fdent) (e : Z) (w : world) : Prop := stf L t w /\ pr_errno (curp w) = e.

  Lemma f_get_errno_e L t e : H (stfe L t e) get_errno (fun r w' => r = e /\ stf L t w').
  Proof. intros w [S He]. cbn. auto. Qed.

  Lemma f_dup2 L t a b : H (stf L t) (sys_dup2 a b)
    (fun r w' => match t !! a with
                 | Some d => if b <? 0 then r = -1 /\ stfe L t EBADF w'
                             else if a =? b then r = b /\ stf L t w'
                             else r = b /\ stf L (<[b := fd_set_cloexec false d]> t) w'
                 | None => r = -1 /\ stfe L t EBADF w' end).
  Proof.
    intros w (q & S & Ht & Hl & Hi). pose proof (@h_dup2 QS q a b w S) as Hg.
    destruct (sys_dup2 a b w); auto. rewrite Ht in Hg.
    destruct (t !! a) as [d|].
    - destruct (b <? 0); [destruct Hg as (Hr & S' & He); split; [exact Hr|split; [exists q; auto|exact He]]|].
      destruct (a =? b); [destruct Hg as [Hr S']; split; [exact Hr|exists q; auto]|].
      destruct Hg as [Hr S']. split; [exact Hr|]. eexists. split; [exact S'|]. cbn. auto.
    - destruct Hg as (Hr & S' & He). split; [exact Hr|split; [exists q; auto|exact He]].
  Qed.

  Lemma f_dupfd L t fd minfd cx : H (stf L t) (sys_dupfd fd minfd cx)
    (fun r w' => match t !! fd with
                 | Some d =>
                     let n := lowest_free_ge t (Z.max 0 minfd) (size t) in
                     if (0 <=? L) && (L <=? n) then r = -1 /\ stfe L t EMFILE w'
                     else r = n /\ stf L (<[n := fd_set_cloexec cx d]> t) w'
                 | None => r = -1 /\ stfe L t EBADF w' end).
  Proof.
    intros w (q & S & Ht & Hl & Hi). pose proof (@h_dupfd QS q fd minfd cx w S) as Hg.
    destruct (sys_dupfd fd minfd cx w); auto. rewrite Ht, Hl in Hg.
    destruct (t !! fd) as [d|].
    - cbn zeta in *. destruct ((0 <=? L) && (L <=? _)).
      + destruct Hg as (Hr & S' & He). split; [exact Hr|split; [exists q; auto|exact He]].
      + destruct Hg as [Hr S']. split; [exact Hr|]. eexists. split; [exact S'|]. cbn. auto.
    - destruct Hg as (Hr & S' & He). split; [exact Hr|split; [exists q; auto|exact He]].
  Qed.

  (* calls that do not touch the table *)
  Lemma f_keep {A} (m : MW A) L t :
    (forall q, H (st q) m (fun r w' => exists q', st q' w' /\ pr_fds q' = pr_fds q /\ pr_rlimit q' = pr_rlimit q /\ pr_image q' = pr_image q)) ->
    H (stf L t) m (fun _ w' => stf L t w').
  Proof.
    intros Hq w (q & S & Ht & Hl & Hi). specialize (Hq q w S). destruct (m w); auto.
    destruct Hq as (q' & S' & A1 & A2 & A3). exists q'. split; [exact S'|]. split; [congruence|]. split; congruence.
  Qed.
  Lemma f_sigemptyset L t : H (stf L t) sys_sigemptyset (fun _ w' => stf L t w').
  Proof. apply f_keep. intros q. eapply hoare_conseq; [| | |apply h_sigemptyset]; [intros w S; exact S| |intros ? X; exact X]. intros r w [_ S]. exists q. auto. Qed.
  Lemma f_sigaction L t sg h : H (stf L t) (sys_sigaction sg h) (fun _ w' => stf L t w').
  Proof.
    apply f_keep. intros q. eapply hoare_conseq; [| | |apply h_sigaction]; [intros w S; exact S| |intros ? X; exact X].
    intros r w X. destruct ((sg <? 1) || (64 <? sg) || (sg =? SIGKILL) || (sg =? SIGSTOP)).
    - destruct X as (_ & S & _). exists q. auto.
    - destruct X as (_ & S). eexists. split; [exact S|]. auto.
  Qed.
  Lemma f_sigmask L t how ns : H (stf L t) (sys_sigmask how ns) (fun _ w' => stf L t w').
  Proof.
    apply f_keep. intros q. eapply hoare_conseq; [| | |apply h_sigmask]; [intros w S; exact S| |intros ? X; exact X].
    intros r w (m & S & _). eexists. split; [exact S|]. auto.
  Qed.
  Lemma f_get_errno L t : H (stf L t) get_errno (fun _ w' => stf L t w').
  Proof. intros w S. cbn. exact S. Qed.
  Lemma f_chdir L t path : H (stf L t) (sys_chdir path) (fun _ w' => stf L t w').
  Proof.
    apply f_keep. intros q. eapply hoare_conseq; [| | |apply h_chdir]; [intros w S; exact S| |intros ? X; exact X].
    intros r w [[_ S]|[_ [S _]]]; eexists; (split; [exact S|]); auto.
  Qed.
  Lemma f_set_environ L t e : H (stf L t) (set_environ e) (fun _ w' => stf L t w').
  Proof.
    apply f_keep. intros q. eapply hoare_conseq; [| | |apply h_set_environ]; [intros w S; exact S| |intros ? X; exact X].
    intros r w S. eexists. split; [exact S|]. auto.
  Qed.
  Lemma f_write L t fd data : H (stf L t) (sys_write fd data) (fun _ w' => stf L t w').
  Proof.
    apply f_keep. intros q. eapply hoare_conseq; [| | |apply h_write]; [intros w S; exact S| |intros ? X; exact X].
    intros r w S. exists q. auto.
  Qed.
  Lemma f_getrlimit L t : H (stf L t) sys_getrlimit (fun r w' => r = (0, L) /\ stf L t w').
  Proof.
    intros w (q & S & Ht & Hl & Hi). pose proof (@h_getrlimit QS q w S) as Hg.
    destruct (sys_getrlimit w); auto. destruct Hg as [-> S']. rewrite Hl. split; [reflexivity|]. exists q. auto.
  Qed.
End ChildF.

(* ================= which descriptors survive exec ================= *)
Definition nc (t : gmap Z fdent) (k : Z) : Prop := exists d, t !! k = Some d /\ f_cloexec d = false.

Lemma nc_insert_cloexec t k x d : nc (<[x := fd_set_cloexec true d]> t) k -> k <> x /\ nc t k.
Proof.
  intros (d' & Hl & Hc). destruct (decide (k = x)) as [->|Hne].
  - rewrite lookup_insert in Hl. injection Hl as <-. cbn in Hc. discriminate.
  - rewrite lookup_insert_ne in Hl by congruence. split; [exact Hne|]. exists d'. auto.
Qed.
Lemma nc_insert_any t k x d : nc (<[x := d]> t) k -> k = x \/ nc t k.
Proof.
  intros (d' & Hl & Hc). destruct (decide (k = x)) as [->|Hne]; [left; reflexivity|].
  rewrite lookup_insert_ne in Hl by congruence. right. exists d'. auto.
Qed.
Lemma nc_delete t k x : nc (delete x t) k -> k <> x /\ nc t k.
Proof.
  intros (d' & Hl & Hc). destruct (decide (k = x)) as [->|Hne].
  - rewrite lookup_delete in Hl. discriminate.
  - rewrite lookup_delete_ne in Hl by congruence. split; [exact Hne|]. exists d'. auto.
Qed.

Lemma lowest_free_ge_ge t : forall fuel i, i <= lowest_free_ge t i fuel.
Proof.
  induction fuel as [|f IH]; intros i; cbn [lowest_free_ge]; [lia|].
  destruct (t !! i); [|lia]. specialize (IH (i + 1)). lia.
Qed.

Section ChildMain.
  (* what must hold of the table at the moment of a successful exec *)
  Variable G : gmap Z fdent -> Prop.
  Definition QSG (w' : world) : Prop :=
    forall im, pr_image (curp w') = Some im -> exists t, im_fds im = map_to_list (exec_fds t) /\ G t.
  Notation H P m Q := (hoare P m Q QSG).
  Ltac hb := eapply hoare_bind.

  Lemma f_exit L t code : H (stf L t) (sys__exit code) (fun _ _ => False).
  Proof.
    intros w (q & S & Ht & Hl & Hi). apply (@h_exit QSG q code); [|exact S].
    intros w' Hw im Him. rewrite Hw, Hi in Him. discriminate.
  Qed.
  Lemma f_execvp L t prog av : G t -> H (stf L t) (sys_execvp prog av) (fun r w' => r = -1 /\ exists e, 0 < e /\ stfe L t e w').
  Proof.
    intros HG w (q & S & Ht & Hl & Hi).
    assert (Hx : hoare (st q) (sys_execvp prog av) (fun r w' => r = -1 /\ st q w' /\ 0 < pr_errno (curp w')) QSG).
    { apply h_execvp. intros w' im Him Hf _ _ _ _ _ im' Him'. rewrite Him in Him'. injection Him' as <-.
      exists (pr_fds q). split; [exact Hf|]. rewrite Ht. exact HG. }
    specialize (Hx w S). destruct (sys_execvp prog av w); auto. destruct Hx as (-> & S' & He). split; [reflexivity|].
    eexists. split; [exact He|]. split; [exists q; auto|reflexivity].
  Qed.

  (* the child's "report the error and exit" path never returns and leaves no image *)
  Lemma f_fail_path L t pwr r : H (stf L t) (sys_write pwr [RLit (encode_int (- r))] ;> sys__exit 1) (fun _ _ => False).
  Proof. hb; [apply f_write|]. intros u; cbv beta. apply f_exit. Qed.

  Lemma f_reset_signals L t : forall l, H (stf L t) (reset_signals l) (fun _ w' => stf L t w').
  Proof.
    induction l as [|s l IH]; cbn [reset_signals]; [apply hoare_ret; auto|].
    hb; [apply f_sigaction|]. intros q; cbv beta. hb; [apply f_get_errno|]. intros e; cbv beta.
    destruct ((q <? 0) && negb (e =? EINVAL)); [apply hoare_ret; auto|apply IH].
  Qed.

  (* ---- the dup2 loop: every non-close-on-exec descriptor above 2 other than the exit handle is
     still scheduled to be marked close-on-exec ---- *)
  Definition Inv (ex : Z) (t : gmap Z fdent) (rest : list (Z * Z)) : Prop :=
    forall k, nc t k -> 0 <= k <= 2 \/ k = ex \/ exists i, In (k, i) rest /\ k <> i.

  Lemma f_child_redirect ex L : forall l t, Inv ex t l -> (forall fd i, In (fd, i) l -> 0 <= i <= 2) ->
    H (stf L t) (child_redirect l)
      (fun r w' => exists t', stf L t' w' /\ (0 <= r -> Inv ex t' [])).
  Proof.
    induction l as [|[fd i] rest IH]; intros t HI Hr; cbn [child_redirect].
    { apply hoare_ret. intros w S. exists t. auto. }
    assert (Hi : 0 <= i <= 2) by (apply (Hr fd i); left; reflexivity).
    assert (Hr' : forall fd' i', In (fd', i') rest -> 0 <= i' <= 2) by (intros; eapply Hr; right; eassumption).
    hb; [apply f_dup2|]. intros q; cbv beta.
    assert (Hfail : forall tt, H (fun w' => q = -1 /\ stfe L tt EBADF w')
              (if q <? 0 then let* e := get_errno in ret (- e)
               else let* q0 := (if negb (fd =? i) then handle_cloexec fd true else handle_cloexec i false) in
                    if q0 <? 0 then ret q0 else child_redirect rest)
              (fun r w' => exists t', stf L t' w' /\ (0 <= r -> Inv ex t' []))).
    { intros tt. apply hoare_pure. intros ->. cbn. hb; [apply f_get_errno_e|]. intros e; cbv beta.
      apply hoare_pure. intros ->. apply hoare_ret. intros w S. exists tt. split; [exact S|]. unfold EBADF. lia. }
    destruct (t !! fd) as [d|] eqn:Efd; [|apply Hfail].
    destruct (Z.ltb_spec i 0); [lia|].
    destruct (Z.eqb_spec fd i) as [->|Hne]; cbn [negb].
    - (* the end already sits on its target: clear close-on-exec *)
      apply hoare_pure. intros ->. destruct (Z.ltb_spec i 0); [lia|].
      hb; [apply f_handle_cloexec|]. intros q0; cbv beta. rewrite Efd.
      apply hoare_pure. intros ->. cbn.
      apply IH; [|exact Hr'].
      intros k Hk. apply nc_insert_any in Hk. destruct Hk as [->|Hk]; [left; exact Hi|].
      destruct (HI k Hk) as [Hk0|[Hk0|(j & Hin & Hkj)]]; [left; exact Hk0|right; left; exact Hk0|].
      destruct Hin as [E|Hin]; [injection E as -> ->; contradiction|]. right; right. exists j. auto.
    - apply hoare_pure. intros ->. destruct (Z.ltb_spec i 0); [lia|].
      hb; [apply f_handle_cloexec|]. intros q0; cbv beta.
      rewrite lookup_insert_ne by congruence. rewrite Efd.
      apply hoare_pure. intros ->. cbn.
      apply IH; [|exact Hr'].
      intros k Hk. apply nc_insert_cloexec in Hk. destruct Hk as [Hkfd Hk].
      apply nc_insert_any in Hk. destruct Hk as [->|Hk]; [left; exact Hi|].
      destruct (HI k Hk) as [Hk0|[Hk0|(j & Hin & Hkj)]]; [left; exact Hk0|right; left; exact Hk0|].
      destruct Hin as [E|Hin]; [injection E as -> ->; contradiction|]. right; right. exists j. auto.
  Qed.

  (* ---- moving low child ends out of the way ---- *)
  (* entries of the result: same targets; a source is either unchanged and not (in 0..2 and off
     target), or a fresh descriptor >= 3 *)
  Definition low_off_target (a : Z * Z) : bool := negb (fst a =? snd a) && (0 <=? fst a) && (fst a <? 3).
  Definition moved1 (a b : Z * Z) : Prop :=
    snd b = snd a /\ (if low_off_target a then 3 <= fst b else fst b = fst a).
  (* the new table only adds close-on-exec entries *)
  Definition ext (t t' : gmap Z fdent) : Prop := forall k, nc t' k -> nc t k.

  Lemma f_child_move_low L : forall l acc t,
    H (stf L t) (child_move_low l 3 acc)
      (fun res w' => exists t', stf L t' w' /\ ext t t' /\
                     (0 <= fst res -> exists l', snd res = rev acc ++ l' /\ Forall2 moved1 l l')).
  Proof.
    induction l as [|[fd i] rest IH]; intros acc t; cbn [child_move_low].
    { apply hoare_ret. intros w S. exists t. split; [exact S|]. split; [intros k X; exact X|].
      intros _. exists []. cbn. rewrite app_nil_r. split; [reflexivity|constructor]. }
    destruct (negb (fd =? i) && (0 <=? fd) && (fd <? 3)) eqn:Ec.
    - hb; [apply f_dupfd|]. intros q; cbv beta.
      assert (Hfail : forall e, 0 < e -> H (fun w' => q = -1 /\ stfe L t e w')
                (if q <? 0 then let* e0 := get_errno in ret (- e0, rev acc) else child_move_low rest 3 ((q, i) :: acc))
                (fun res w' => exists t', stf L t' w' /\ ext t t' /\
                     (0 <= fst res -> exists l', snd res = rev acc ++ l' /\ Forall2 moved1 ((fd, i) :: rest) l'))).
      { intros e He. apply hoare_pure. intros ->. cbn. hb; [apply f_get_errno_e|]. intros e0; cbv beta.
        apply hoare_pure. intros ->. apply hoare_ret. intros w S. exists t. split; [exact S|]. split; [intros k X; exact X|]. cbn. lia. }
      destruct (t !! fd) as [d|] eqn:Efd; [|apply (Hfail EBADF); unfold EBADF; lia].
      cbn zeta. destruct ((0 <=? L) && (L <=? _)); [apply (Hfail EMFILE); unfold EMFILE; lia|].
      set (n := lowest_free_ge t (Z.max 0 3) (size t)).
      assert (Hn : 3 <= n) by (unfold n; pose proof (lowest_free_ge_ge t (size t) (Z.max 0 3)); lia).
      apply hoare_pure. intros ->. destruct (Z.ltb_spec n 0); [lia|].
      eapply hoare_conseq; [| | |apply (IH ((n, i) :: acc))]; [intros w S; exact S| |intros ? X; exact X].
      intros [r l2] w (t' & S & Hext & Hl). exists t'. split; [exact S|]. split.
      + intros k Hk. apply Hext in Hk. apply nc_insert_cloexec in Hk. tauto.
      + intros Hr. destruct (Hl Hr) as (l' & El & Hf). exists ((n, i) :: l'). split.
        * rewrite El. cbn [rev]. rewrite <- app_assoc. reflexivity.
        * constructor; [|exact Hf]. split; [reflexivity|]. unfold low_off_target. cbn [fst snd]. rewrite Ec. exact Hn.
    - eapply hoare_conseq; [| | |apply (IH ((fd, i) :: acc))]; [intros w S; exact S| |intros ? X; exact X].
      intros [r l2] w (t' & S & Hext & Hl). exists t'. split; [exact S|]. split; [exact Hext|].
      intros Hr. destruct (Hl Hr) as (l' & El & Hf). exists ((fd, i) :: l'). split.
      + rewrite El. cbn [rev]. rewrite <- app_assoc. reflexivity.
      + constructor; [|exact Hf]. split; [reflexivity|]. unfold low_off_target. cbn [fst snd]. rewrite Ec. reflexivity.
  Qed.

  (* ---- the child side of process_start, exec mode ---- *)

  Lemma f_start_child L t prd pwr av pg env o (k : MW unit) :
    (forall x, nc t x -> 0 <= x <= 2 \/ x = po_exit o \/ x = po_in o \/ x = po_out o \/ x = po_err o) ->
    (forall t', (forall x, nc t' x -> 0 <= x <= 2 \/ x = po_exit o) -> G t') ->
    H (stf L t) (start_child_part prd pwr (Some av) pg env o k) (fun _ _ => False).
  Proof.
    intros HA HG. unfold start_child_part.
    assert (Hfp : forall t0 r, H (stf L t0) (sys_write pwr [RLit (encode_int (- r))] ;> sys__exit 1) (fun _ _ => False))
      by (intros; apply f_fail_path).
    change (imap (fun i e => (start_fd_val o prd pwr e, Z.of_nat i)) start_redirect)
      with [(po_in o, 0); (po_out o, 1); (po_err o, 2)].
    change (zlen [(po_in o, 0); (po_out o, 1); (po_err o, 2)]) with 3.
    hb; [apply f_child_move_low|]. intros [r l1]; cbv beta.
    apply hoare_pre. intros w (t1 & S1 & Hext & Hl).
    destruct (Z.ltb_spec r 0) as [Hr0|Hr0].
    { eapply hoare_conseq with (P := stf L t1); [intros ? ->; exact S1|intros a w' X; exact X|intros w' X; exact X|]. apply Hfp. }
    destruct (Hl ltac:(cbn; lia)) as (l' & El & Hf). cbn [snd rev app] in El. subst l1.
    eapply hoare_conseq with (P := stf L t1); [intros ? ->; exact S1|intros a w' X; exact X|intros w' X; exact X|].
    clear w S1 Hl.
    (* shape of the moved list *)
    inversion Hf as [|a0 b0 la lb M0 Hf1]; subst. inversion Hf1 as [|a1 b1 la1 lb1 M1 Hf2]; subst.
    inversion Hf2 as [|a2 b2 la2 lb2 M2 Hf3]; subst. inversion Hf3; subst.
    destruct b0 as [f0 i0], b1 as [f1 i1], b2 as [f2 i2].
    destruct M0 as [E0 M0], M1 as [E1 M1], M2 as [E2 M2]. cbn [fst snd] in *. subst i0 i1 i2.
    assert (HInv : Inv (po_exit o) t1 [(f0, 0); (f1, 1); (f2, 2)]).
    { intros x Hx. apply Hext in Hx. destruct (HA x Hx) as [Hx0|[Hx0|[Hx0|[Hx0|Hx0]]]]; [left; exact Hx0|right; left; exact Hx0| | |].
      - (* x = in *) destruct (Z.leb_spec 0 x); [destruct (Z.ltb_spec x 3); [left; lia|]|].
        + right; right. exists 0. unfold low_off_target in M0. cbn [fst snd] in M0.
          replace (po_in o <? 3) with false in M0 by (symmetry; apply Z.ltb_ge; lia). rewrite andb_false_r in M0. subst f0 x. split; [left; reflexivity|lia].
        + right; right. exists 0. unfold low_off_target in M0. cbn [fst snd] in M0.
          replace (0 <=? po_in o) with false in M0 by (symmetry; apply Z.leb_gt; lia). rewrite andb_false_r in M0. cbn in M0. subst f0 x. split; [left; reflexivity|lia].
      - destruct (Z.leb_spec 0 x); [destruct (Z.ltb_spec x 3); [left; lia|]|].
        + right; right. exists 1. unfold low_off_target in M1. cbn [fst snd] in M1.
          replace (po_out o <? 3) with false in M1 by (symmetry; apply Z.ltb_ge; lia). rewrite andb_false_r in M1. subst f1 x. split; [right; left; reflexivity|lia].
        + right; right. exists 1. unfold low_off_target in M1. cbn [fst snd] in M1.
          replace (0 <=? po_out o) with false in M1 by (symmetry; apply Z.leb_gt; lia). rewrite andb_false_r in M1. cbn in M1. subst f1 x. split; [right; left; reflexivity|lia].
      - destruct (Z.leb_spec 0 x); [destruct (Z.ltb_spec x 3); [left; lia|]|].
        + right; right. exists 2. unfold low_off_target in M2. cbn [fst snd] in M2.
          replace (po_err o <? 3) with false in M2 by (symmetry; apply Z.ltb_ge; lia). rewrite andb_false_r in M2. subst f2 x. split; [right; right; left; reflexivity|lia].
        + right; right. exists 2. unfold low_off_target in M2. cbn [fst snd] in M2.
          replace (0 <=? po_err o) with false in M2 by (symmetry; apply Z.leb_gt; lia). rewrite andb_false_r in M2. cbn in M2. subst f2 x. split; [right; right; left; reflexivity|lia]. }
    hb; [apply (f_child_redirect (po_exit o) L _ t1 HInv)|].
    { intros fd i [E|[E|[E|[]]]]; injection E as <- <-; lia. }
    intros r2; cbv beta. apply hoare_pre. intros w (t2 & S2 & HI2).
    eapply hoare_conseq with (P := stf L t2); [intros ? ->; exact S2|intros a w' X; exact X|intros w' X; exact X|].
    destruct (Z.ltb_spec r2 0) as [Hr2|Hr2]; [apply Hfp|]. specialize (HI2 ltac:(lia)). clear w S2.
    hb; [apply f_handle_cloexec|]. intros r3; cbv beta.
    destruct (t2 !! po_exit o) as [dx|] eqn:Ex.
    2:{ apply hoare_pure. intros Hneg. destruct (Z.ltb_spec r3 0) as [Hr3|Hr3]; [apply Hfp|lia]. }
    apply hoare_pure. intros ->. cbn [Z.ltb Z.compare].
    set (t3 := <[po_exit o := fd_set_cloexec false dx]> t2).
    assert (HG3 : G t3).
    { apply HG. intros x Hx. apply nc_insert_any in Hx. destruct Hx as [->|Hx]; [right; reflexivity|].
      destruct (HI2 x Hx) as [Hx0|[Hx0|(j & [] & _)]]; auto. }
    (* working directory: the table is not touched whichever way it goes *)
    assert (Hwd : H (stf L t3)
              (match po_wd o with
               | Some d => let* q := sys_chdir d in if q <? 0 then let* e := get_errno in ret (- e) else ret q
               | None => ret 0 end) (fun _ w' => stf L t3 w')).
    { destruct (po_wd o); [|apply hoare_ret; auto].
      hb; [apply f_chdir|]. intros q; cbv beta. destruct (q <? 0); [|apply hoare_ret; auto].
      hb; [apply f_get_errno|]. intros e; cbv beta. apply hoare_ret. auto. }
    hb; [apply Hwd|]. intros r4; cbv beta.
    destruct (r4 <? 0); [apply Hfp|].
    hb; [apply f_set_environ|]. intros u; cbv beta.
    hb.
    { hb; [apply (f_execvp L t3 _ av HG3)|]. intros q; cbv beta.
      apply hoare_pure. intros ->. cbn.
      apply hoare_pre. intros w (e & He & Se).
      eapply hoare_conseq with (P := stfe L t3 e); [intros ? ->; exact Se|intros a w' X; exact X|intros w' X; exact X|].
      hb; [apply f_get_errno_e|]. intros e0; cbv beta. apply hoare_pure. intros ->.
      apply hoare_ret. intros w' S'. instantiate (1 := fun r w' => r < 0 /\ stf L t3 w'). cbn. split; [lia|exact S']. }
    intros r5; cbv beta. apply hoare_pure. intros Hneg. destruct (Z.ltb_spec r5 0) as [Hr5|Hr5]; [apply Hfp|lia].
  Qed.

  (* ---- the child side of process_fork followed by the child side of process_start ---- *)
  Lemma f_signal_mask L t how ns : H (stf L t) (signal_mask how ns) (fun _ w' => stf L t w').
  Proof.
    unfold signal_mask. hb; [apply f_sigmask|]. intros [e old]; cbv beta. apply hoare_ret. auto.
  Qed.

  Theorem child_exec_descriptors L t fprd fpwr sprd spwr av pg env o (k : MW unit) :
    0 <= L ->
    (forall x, is_Some (t !! x) -> 0 <= x < L) ->
    (forall d, t !! sprd = Some d -> f_cloexec d = true) ->
    (forall d, t !! spwr = Some d -> f_cloexec d = true) ->
    (forall t', (forall x, nc t' x -> 0 <= x <= 2 \/ x = po_exit o) -> G t') ->
    H (stf L t)
      (fork_child_part fprd fpwr [po_in o; po_out o; po_err o; sprd; spwr; po_exit o]
                       (start_child_part sprd spwr (Some av) pg env o k))
      (fun _ _ => False).
  Proof.
    intros HL Hkeys Hcr Hcw HG. unfold fork_child_part.
    assert (Hfp : forall t0 r, H (stf L t0) (sys_write fpwr [RLit (encode_int (- r))] ;> sys__exit 1) (fun _ _ => False))
      by (intros; apply f_fail_path).
    assert (Herr : forall t0, H (stf L t0) (let* r := (let* e := get_errno in ret (- e)) in sys_write fpwr [RLit (encode_int (- r))] ;> sys__exit 1) (fun _ _ => False)).
    { intros t0. eapply hoare_bind with (R := fun _ w' => stf L t0 w').
      - hb; [apply f_get_errno|]. intros e; cbv beta. apply hoare_ret. auto.
      - intros r; cbv beta. apply Hfp. }
    hb; [apply f_sigemptyset|]. intros r0; cbv beta. destruct (r0 <? 0); [apply Herr|].
    hb; [apply f_reset_signals|]. intros r1; cbv beta. destruct (r1 <? 0); [apply Hfp|].
    hb; [apply f_sigemptyset|]. intros r2; cbv beta. destruct (r2 <? 0); [apply Herr|].
    hb; [apply f_signal_mask|]. intros [r3 old]; cbv beta. destruct (r3 <? 0); [apply Hfp|].
    eapply hoare_bind with (R := fun r w' => r = (if (L <? 0) || (H_INT_MAX <? L) then H_INT_MAX else L - 1) /\ stf L t w').
    { unfold get_max_fd. hb; [apply f_getrlimit|]. intros [rr soft]; cbv beta.
      apply hoare_pure. intros E. injection E as -> ->. cbn [Z.ltb Z.compare].
      destruct ((L <? 0) || (H_INT_MAX <? L)); apply hoare_ret; auto. }
    intros r4; cbv beta. apply hoare_pure. intros ->.
    destruct (Z.ltb_spec L 0) as [Hl0|Hl0]; [lia|]. cbn [orb].
    destruct (Z.ltb_spec H_INT_MAX L) as [Hbig|Hsmall].
    { (* unlimited / huge: refused *) cbn. apply Hfp. }
    destruct (Z.ltb_spec (L - 1) 0) as [Hneg|Hnn].
    { (* L = 0: max_fd = -1 is negative: the C code takes the failure exit *) apply Hfp. }
    destruct (Z.ltb_spec MAX_FD_LIMIT (L - 1)) as [Hm|Hm]; [apply Hfp|].
    set (skip := fprd :: fpwr :: [po_in o; po_out o; po_err o; sprd; spwr; po_exit o]).
    hb; [apply (f_close_loop L t skip (seqZ 0 (L - 1 + 1)))|].
    { apply Forall_forall. intros x Hx. apply elem_of_list_In, elem_of_seqZ in Hx. lia. }
    intros u; cbv beta.
    set (t1 := foldl (close_step skip) t (seqZ 0 (L - 1 + 1))).
    unfold pipe_destroy.
    hb; [apply f_handle_destroy|]. intros u1; cbv beta. apply hoare_pure. intros ->.
    hb; [apply f_handle_destroy|]. intros u2; cbv beta. apply hoare_pure. intros ->.
    set (t2 := if fprd =? -1 then (if fpwr =? -1 then t1 else delete fpwr t1) else delete fprd (if fpwr =? -1 then t1 else delete fpwr t1)).
    apply (f_start_child L t2 sprd spwr av pg env o k); [|exact HG].
    (* every descriptor that survives exec so far is one of the child's ends or the exit handle *)
    assert (Hsub : forall x, nc t2 x -> nc t1 x /\ x <> fprd /\ x <> fpwr \/ nc t1 x /\ (fprd = -1 \/ fpwr = -1)).
    { intros x Hx. unfold t2 in Hx.
      destruct (Z.eqb_spec fprd (-1)); destruct (Z.eqb_spec fpwr (-1)).
      - right. auto.
      - apply nc_delete in Hx. right. tauto.
      - apply nc_delete in Hx. right. tauto.
      - apply nc_delete in Hx. destruct Hx as [A Hx]. apply nc_delete in Hx. left. tauto. }
    intros x Hx.
    assert (Hx1 : nc t1 x) by (destruct (Hsub x Hx) as [[A _]|[A _]]; exact A).
    destruct Hx1 as (d & Hd & Hc).
    destruct (close_loop_result skip t (L - 1) x d ltac:(lia) Hd) as [Ht [Hs|[Hs|Hs]]].
    - (* kept *)
      unfold skip, memZ in Hs. cbn [existsb] in Hs. rewrite !orb_true_iff in Hs.
      destruct Hs as [Hs|[Hs|[Hs|[Hs|[Hs|[Hs|[Hs|[Hs|Hs]]]]]]]]; try (apply Z.eqb_eq in Hs).
      + (* x = fprd: deleted unless fprd = -1, but then x = -1 is not a key *)
        subst x. destruct (Hsub fprd Hx) as [(_ & A & _)|(_ & [A|A])]; [contradiction| |].
        * rewrite A in Ht. specialize (Hkeys (-1) ltac:(rewrite Ht; eauto)). lia.
        * exfalso. unfold t2 in Hx. rewrite A in Hx. rewrite Z.eqb_refl in Hx. destruct (fprd =? -1) eqn:E1.
          -- apply Z.eqb_eq in E1. rewrite E1 in Ht. specialize (Hkeys (-1) ltac:(rewrite Ht; eauto)). lia.
          -- apply nc_delete in Hx. tauto.
      + subst x. exfalso. unfold t2 in Hx. destruct (fprd =? -1) eqn:E1; destruct (fpwr =? -1) eqn:E2.
        * apply Z.eqb_eq in E2. rewrite E2 in Ht. specialize (Hkeys (-1) ltac:(rewrite Ht; eauto)). lia.
        * apply nc_delete in Hx. tauto.
        * apply Z.eqb_eq in E2. rewrite E2 in Ht. specialize (Hkeys (-1) ltac:(rewrite Ht; eauto)). lia.
        * apply nc_delete in Hx. destruct Hx as [_ Hx]. apply nc_delete in Hx. tauto.
      + right; right; left. exact Hs.
      + right; right; right; left. exact Hs.
      + right; right; right; right. exact Hs.
      + subst x. rewrite (Hcr d Ht) in Hc. discriminate.
      + subst x. rewrite (Hcw d Ht) in Hc. discriminate.
      + right; left. exact Hs.
      + discriminate.
    - specialize (Hkeys x ltac:(rewrite Ht; eauto)). lia.
    - specialize (Hkeys x ltac:(rewrite Ht; eauto)). lia.
  Qed.
End ChildMain.

(* ================= C11 / C10, child side, for every parent table ================= *)
(* Whatever descriptors the child inherited at fork (any table t, any flags), whatever the limit
   L that bounds them, whatever the child ends are: if the forked child reaches a successful exec,
   every descriptor of the program's image is 0, 1, 2 or the exit handle.  (Fault-free child:
   natural failures — closed descriptors, exhausted table, missing program — are covered; they
   end in _exit without an image.) *)
Theorem child_image_descriptors L t fprd fpwr sprd spwr av pg env o (k : MW unit) w :
  0 <= L ->
  (forall x, is_Some (t !! x) -> 0 <= x < L) ->
  (forall d, t !! sprd = Some d -> f_cloexec d = true) ->
  (forall d, t !! spwr = Some d -> f_cloexec d = true) ->
  stf L t w ->
  match fork_child_part fprd fpwr [po_in o; po_out o; po_err o; sprd; spwr; po_exit o]
                        (start_child_part sprd spwr (Some av) pg env o k) w with
  | Ret _ _ => False
  | Stop w' => forall im, pr_image (curp w') = Some im ->
                 forall x d, In (x, d) (im_fds im) -> 0 <= x <= 2 \/ x = po_exit o
  | Hang _ | Crash _ _ => True
  end.
Proof.
  intros HL Hk Hr Hw S.
  pose proof (child_exec_descriptors (fun t' => forall x, nc t' x -> 0 <= x <= 2 \/ x = po_exit o)
                L t fprd fpwr sprd spwr av pg env o k HL Hk Hr Hw (fun t' X => X) w S) as Hc.
  destruct (fork_child_part _ _ _ _ w) as [a w'|w'|w'|y w']; auto.
  intros im Him x d Hin. destruct (Hc im Him) as (t' & Ef & HG). apply HG.
  rewrite Ef in Hin. apply elem_of_list_In, elem_of_map_to_list in Hin.
  unfold exec_fds in Hin. apply map_filter_lookup_Some in Hin. destruct Hin as [Hl Hc']. cbn in Hc'.
  exists d. auto.
Qed.

(* ================= the child, abstracted to its signal state, cwd and environment ================= *)
(* [stg M D C E w]: current process has mask M, dispositions D, cwd C, environment E, no image *)
Definition stg (M : list Z) (D : gmap Z disp) (C : str) (E : list str) (w : world) : Prop :=
  exists q, st q w /\ pr_mask q = M /\ pr_disp q = D /\ pr_cwd q = C /\ pr_env q = E /\ pr_image q = None.

Section ChildG.
  Context {QS : world -> Prop}.
  Notation H P m Q := (hoare P m Q QS).
  Ltac hb := eapply hoare_bind.

  (* calls that touch none of the four *)
  Lemma g_keep {A} (m : MW A) M D C E :
    (forall q, H (st q) m (fun r w' => exists q', st q' w' /\ pr_mask q' = pr_mask q /\ pr_disp q' = pr_disp q /\ pr_cwd q' = pr_cwd q
                                                 /\ pr_env q' = pr_env q /\ pr_image q' = pr_image q)) ->
    H (stg M D C E) m (fun _ w' => stg M D C E w').
  Proof.
    intros Hq w (q & S & A1 & A2 & A3 & A4 & A5). specialize (Hq q w S). destruct (m w); auto.
    destruct Hq as (q' & S' & B1 & B2 & B3 & B4 & B5). exists q'. split; [exact S'|]. repeat split; congruence.
  Qed.

  Lemma g_getfd M D C E fd : H (stg M D C E) (sys_getfd fd) (fun _ w' => stg M D C E w').
  Proof. apply g_keep. intros q. eapply hoare_conseq; [| | |apply h_getfd]; [intros w S; exact S| |intros ? X; exact X]. intros r w (S & _). exists q; split; [exact S|repeat split; reflexivity]. Qed.
  Lemma g_close M D C E fd : H (stg M D C E) (sys_close fd) (fun _ w' => stg M D C E w').
  Proof.
    apply g_keep. intros q. eapply hoare_conseq; [| | |apply h_close]; [intros w S; exact S| |intros ? X; exact X].
    intros r w X. destruct (pr_fds q !! fd); destruct X as [_ S]; eexists; (split; [exact S|]); repeat split; reflexivity.
  Qed.
  Lemma g_setfd M D C E fd v : H (stg M D C E) (sys_setfd fd v) (fun _ w' => stg M D C E w').
  Proof.
    apply g_keep. intros q. eapply hoare_conseq; [| | |apply h_setfd]; [intros w S; exact S| |intros ? X; exact X].
    intros r w X. destruct (pr_fds q !! fd); destruct X as [_ S]; eexists; (split; [exact S|]); repeat split; reflexivity.
  Qed.
  Lemma g_dup2 M D C E a b : H (stg M D C E) (sys_dup2 a b) (fun _ w' => stg M D C E w').
  Proof.
    apply g_keep. intros q. eapply hoare_conseq; [| | |apply h_dup2]; [intros w S; exact S| |intros ? X; exact X].
    intros r w X. destruct (pr_fds q !! a).
    - destruct (b <? 0); [destruct X as (_ & S & _); exists q; split; [exact S|repeat split; reflexivity]|].
      destruct (a =? b); destruct X as [_ S]; eexists; (split; [exact S|]); repeat split; reflexivity.
    - destruct X as (_ & S & _). exists q. split; [exact S|repeat split; reflexivity].
  Qed.
  Lemma g_dupfd M D C E fd mn cx : H (stg M D C E) (sys_dupfd fd mn cx) (fun _ w' => stg M D C E w').
  Proof.
    apply g_keep. intros q. eapply hoare_conseq; [| | |apply h_dupfd]; [intros w S; exact S| |intros ? X; exact X].
    intros r w X. destruct (pr_fds q !! fd).
    - cbn zeta in X. destruct ((0 <=? pr_rlimit q) && _).
      + destruct X as (_ & S & _). exists q. split; [exact S|repeat split; reflexivity].
      + destruct X as [_ S]. eexists. split; [exact S|]. repeat split; reflexivity.
    - destruct X as (_ & S & _). exists q. split; [exact S|repeat split; reflexivity].
  Qed.
  Lemma g_getrlimit M D C E : H (stg M D C E) sys_getrlimit (fun _ w' => stg M D C E w').
  Proof. apply g_keep. intros q. eapply hoare_conseq; [| | |apply h_getrlimit]; [intros w S; exact S| |intros ? X; exact X]. intros r w [_ S]. exists q; split; [exact S|repeat split; reflexivity]. Qed.
  Lemma g_sigemptyset M D C E : H (stg M D C E) sys_sigemptyset (fun _ w' => stg M D C E w').
  Proof. apply g_keep. intros q. eapply hoare_conseq; [| | |apply h_sigemptyset]; [intros w S; exact S| |intros ? X; exact X]. intros r w [_ S]. exists q; split; [exact S|repeat split; reflexivity]. Qed.
  Lemma g_write M D C E fd data : H (stg M D C E) (sys_write fd data) (fun _ w' => stg M D C E w').
  Proof. apply g_keep. intros q. eapply hoare_conseq; [| | |apply h_write]; [intros w S; exact S| |intros ? X; exact X]. intros r w S. exists q; split; [exact S|repeat split; reflexivity]. Qed.
  Lemma g_get_errno M D C E : H (stg M D C E) get_errno (fun _ w' => stg M D C E w').
  Proof. intros w S. cbn. exact S. Qed.

  (* calls that do *)
  Lemma g_sigaction M D C E sg h : H (stg M D C E) (sys_sigaction sg h)
    (fun r w' => if (sg <? 1) || (64 <? sg) || (sg =? SIGKILL) || (sg =? SIGSTOP)
                 then r = -1 /\ stg M D C E w' /\ pr_errno (curp w') = EINVAL
                 else r = 0 /\ stg M (disp_after sg h D) C E w').
  Proof.
    intros w (q & S & A1 & A2 & A3 & A4 & A5). pose proof (@h_sigaction QS q sg h w S) as Hg.
    destruct (sys_sigaction sg h w); auto.
    destruct ((sg <? 1) || (64 <? sg) || (sg =? SIGKILL) || (sg =? SIGSTOP)).
    - destruct Hg as (Hr & S' & He). split; [exact Hr|]. split; [exists q; split; [exact S'|repeat split; auto]|exact He].
    - destruct Hg as (Hr & S'). split; [exact Hr|]. eexists. split; [exact S'|]. cbn. rewrite A2. repeat split; auto.
  Qed.
  Lemma g_sigmask M D C E how ns : H (stg M D C E) (sys_sigmask how ns)
    (fun r w' => exists M', stg M' D C E w' /\ (ns = Some [] -> how = SIG_SETMASK -> fst r = 0 /\ M' = [])).
  Proof.
    intros w (q & S & A1 & A2 & A3 & A4 & A5). pose proof (@h_sigmask QS q how ns w S) as Hg.
    destruct (sys_sigmask how ns w); auto. destruct Hg as (m & S' & Hm). exists m. split; [|exact Hm].
    eexists. split; [exact S'|]. cbn. repeat split; auto.
  Qed.
  Lemma g_chdir M D C E path : H (stg M D C E) (sys_chdir path)
    (fun r w' => (r = 0 /\ stg M D (abs_path C path) E w') \/ (r = -1 /\ stg M D C E w' /\ 0 < pr_errno (curp w'))).
  Proof.
    intros w (q & S & A1 & A2 & A3 & A4 & A5). pose proof (@h_chdir QS q path w S) as Hg.
    destruct (sys_chdir path w); auto. destruct Hg as [[Hr S']|(Hr & S' & He)].
    - left. split; [exact Hr|]. eexists. split; [exact S'|]. cbn. rewrite A3. repeat split; auto.
    - right. split; [exact Hr|]. split; [exists q; split; [exact S'|repeat split; auto]|exact He].
  Qed.
  Lemma g_set_environ M D C E e : H (stg M D C E) (set_environ e) (fun _ w' => stg M D C e w').
  Proof.
    intros w (q & S & A1 & A2 & A3 & A4 & A5). pose proof (@h_set_environ QS q e w S) as Hg.
    destruct (set_environ e w); auto. eexists. split; [exact Hg|]. cbn. repeat split; auto.
  Qed.
End ChildG.

Section ChildG2.
  Context {QS : world -> Prop}.
  Notation H P m Q := (hoare P m Q QS).
  Ltac hb := eapply hoare_bind.

  Lemma g_handle_cloexec M D C E h en : H (stg M D C E) (handle_cloexec h en) (fun _ w' => stg M D C E w').
  Proof.
    unfold handle_cloexec. hb; [apply g_getfd|]. intros r; cbv beta.
    destruct (r <? 0).
    - hb; [apply g_get_errno|]. intros e; cbv beta. apply hoare_ret. auto.
    - hb; [apply g_setfd|]. intros r2; cbv beta. destruct (r2 <? 0).
      + hb; [apply g_get_errno|]. intros e; cbv beta. apply hoare_ret. auto.
      + apply hoare_ret. auto.
  Qed.
  Lemma g_handle_destroy M D C E h : H (stg M D C E) (handle_destroy h) (fun _ w' => stg M D C E w').
  Proof.
    unfold handle_destroy. destruct (h =? HANDLE_INVALID); [apply hoare_ret; auto|].
    hb; [apply g_close|]. intros r; cbv beta. apply hoare_ret. auto.
  Qed.
  Lemma g_close_loop M D C E skip : forall l, H (stg M D C E) (mapM_ (close_one skip) l) (fun _ w' => stg M D C E w').
  Proof.
    induction l as [|i l IH]; cbn [mapM_]; [apply hoare_ret; auto|].
    hb; [|intros u; cbv beta; apply IH].
    unfold close_one. destruct (memZ i skip); [apply hoare_ret; auto|].
    hb; [apply g_getfd|]. intros r; cbv beta. destruct (0 <=? r); [|apply hoare_ret; auto].
    hb; [apply g_handle_destroy|]. intros r2; cbv beta. apply hoare_ret. auto.
  Qed.
  Lemma g_child_move_low M D C E : forall l n acc, H (stg M D C E) (child_move_low l n acc) (fun _ w' => stg M D C E w').
  Proof.
    induction l as [|[fd i] l IH]; intros n acc; cbn [child_move_low]; [apply hoare_ret; auto|].
    destruct (negb (fd =? i) && (0 <=? fd) && (fd <? n)); [|apply IH].
    hb; [apply g_dupfd|]. intros q; cbv beta. destruct (q <? 0); [|apply IH].
    hb; [apply g_get_errno|]. intros e; cbv beta. apply hoare_ret. auto.
  Qed.
  Lemma g_child_redirect M D C E : forall l, H (stg M D C E) (child_redirect l) (fun _ w' => stg M D C E w').
  Proof.
    induction l as [|[fd i] l IH]; cbn [child_redirect]; [apply hoare_ret; auto|].
    hb; [apply g_dup2|]. intros q; cbv beta. destruct (q <? 0).
    - hb; [apply g_get_errno|]. intros e; cbv beta. apply hoare_ret. auto.
    - hb; [destruct (negb (fd =? i)); apply g_handle_cloexec|]. intros q2; cbv beta.
      destruct (q2 <? 0); [apply hoare_ret; auto|apply IH].
  Qed.

  (* the signal reset loop *)
  Definition sig_invalid (s : Z) : bool := (s <? 1) || (64 <? s) || (s =? SIGKILL) || (s =? SIGSTOP).
  Definition reset_step (D : gmap Z disp) (s : Z) : gmap Z disp := if sig_invalid s then D else delete s D.

  Lemma g_reset_signals M C E : forall l D,
    H (stg M D C E) (reset_signals l) (fun r w' => r = 0 /\ stg M (foldl reset_step D l) C E w').
  Proof.
    induction l as [|s l IH]; intros D; cbn [reset_signals foldl]; [apply hoare_ret; auto|].
    hb; [apply g_sigaction|]. intros q; cbv beta. fold (sig_invalid s). unfold reset_step at 2.
    destruct (sig_invalid s).
    - apply hoare_pre. intros w (-> & S & He). intros w0 ->. unfold bind at 1. cbn [get_errno gets].
      rewrite He. cbn. apply (IH D w S).
    - apply hoare_pure. intros ->. hb; [apply g_get_errno|]. intros e; cbv beta. cbn [Z.ltb Z.compare andb].
      unfold disp_after. cbn. apply IH.
  Qed.

  Lemma reset_fold_lookup : forall l D s, foldl reset_step D l !! s = if memZ s l && negb (sig_invalid s) then None else D !! s.
  Proof.
    induction l as [|i l IH]; intros D s; cbn [foldl]; [reflexivity|].
    rewrite IH, memZ_cons. unfold reset_step.
    destruct (Z.eqb_spec s i) as [->|Hne]; cbn [orb].
    - destruct (sig_invalid i); cbn [negb].
      + rewrite !andb_false_r. reflexivity.
      + rewrite !andb_true_r. destruct (memZ i l); [reflexivity|]. apply lookup_delete.
    - destruct (sig_invalid i); [reflexivity|].
      destruct (memZ s l && negb (sig_invalid s)); [reflexivity|]. apply lookup_delete_ne. congruence.
  Qed.
End ChildG2.

Section ChildOther.
  (* what must hold at the moment of a successful exec: mask, dispositions, cwd, environment, argv *)
  Variable GO : list Z -> gmap Z disp -> str -> list str -> list str -> Prop.
  Definition QSO (w' : world) : Prop :=
    forall im, pr_image (curp w') = Some im ->
      exists M D, im_mask im = M /\ im_disp im = map_to_list (exec_disp D) /\ GO M D (im_cwd im) (im_env im) (im_argv im).
  Notation H P m Q := (hoare P m Q QSO).
  Ltac hb := eapply hoare_bind.

  Lemma g_exit M D C E code : H (stg M D C E) (sys__exit code) (fun _ _ => False).
  Proof.
    intros w (q & S & A1 & A2 & A3 & A4 & A5). apply (@h_exit QSO q code); [|exact S].
    intros w' Hw im Him. rewrite Hw, A5 in Him. discriminate.
  Qed.
  Lemma g_fail_path M D C E pwr r : H (stg M D C E) (sys_write pwr [RLit (encode_int (- r))] ;> sys__exit 1) (fun _ _ => False).
  Proof. hb; [apply g_write|]. intros u; cbv beta. apply g_exit. Qed.
  Lemma g_execvp M D C E prog av : GO M D C E av ->
    H (stg M D C E) (sys_execvp prog av) (fun r w' => r = -1 /\ exists e, 0 < e /\ stg M D C E w' /\ pr_errno (curp w') = e).
  Proof.
    intros HG w (q & S & A1 & A2 & A3 & A4 & A5).
    assert (Hx : hoare (st q) (sys_execvp prog av) (fun r w' => r = -1 /\ st q w' /\ 0 < pr_errno (curp w')) QSO).
    { apply h_execvp. intros w' im Him _ Hm Hd Ha He Hc im' Him'. rewrite Him in Him'. injection Him' as <-.
      exists (pr_mask q), (pr_disp q). split; [exact Hm|]. split; [exact Hd|]. rewrite Hc, He, Ha, A1, A2, A3, A4. exact HG. }
    specialize (Hx w S). destruct (sys_execvp prog av w); auto. destruct Hx as (-> & S' & He). split; [reflexivity|].
    eexists. split; [exact He|]. split; [exists q; split; [exact S'|repeat split; auto]|reflexivity].
  Qed.

  Theorem child_exec_other M D C E fprd fpwr sprd spwr av pg env o (k : MW unit) :
    (forall D', (forall s, 1 <= s <= 31 -> s <> SIGKILL -> s <> SIGSTOP -> D' !! s = None) ->
                GO [] D' (match po_wd o with Some d => abs_path C d | None => C end)
                   (match env with Some (_, ss) => map snd ss | None => [] end) av) ->
    H (stg M D C E)
      (fork_child_part fprd fpwr [po_in o; po_out o; po_err o; sprd; spwr; po_exit o]
                       (start_child_part sprd spwr (Some av) pg env o k))
      (fun _ _ => False).
  Proof.
    intros HG. unfold fork_child_part.
    assert (Hfp : forall M0 D0 C0 E0 pw r, H (stg M0 D0 C0 E0) (sys_write pw [RLit (encode_int (- r))] ;> sys__exit 1) (fun _ _ => False))
      by (intros; apply g_fail_path).
    assert (Herr : forall M0 D0 C0 E0, H (stg M0 D0 C0 E0) (let* r := (let* e := get_errno in ret (- e)) in sys_write fpwr [RLit (encode_int (- r))] ;> sys__exit 1) (fun _ _ => False)).
    { intros. eapply hoare_bind with (R := fun _ w' => stg M0 D0 C0 E0 w').
      - hb; [apply g_get_errno|]. intros e; cbv beta. apply hoare_ret. auto.
      - intros r; cbv beta. apply Hfp. }
    hb; [apply g_sigemptyset|]. intros r0; cbv beta. destruct (r0 <? 0); [apply Herr|].
    hb; [apply g_reset_signals|]. intros r1; cbv beta. apply hoare_pure. intros ->. cbn [Z.ltb Z.compare].
    set (D1 := foldl reset_step D (seqZ SIGNAL_LOOP_FROM (SIGNAL_LOOP_TO - SIGNAL_LOOP_FROM))).
    assert (HD1 : forall s, 1 <= s <= 31 -> s <> SIGKILL -> s <> SIGSTOP -> D1 !! s = None).
    { intros s Hs H9 H19. unfold D1. rewrite reset_fold_lookup.
      unfold SIGNAL_LOOP_FROM, SIGNAL_LOOP_TO. rewrite memZ_seqZ by lia.
      destruct (Z.leb_spec 0 s); [|lia]. destruct (Z.ltb_spec s (32 - 0)); [|lia]. cbn [andb].
      unfold sig_invalid. destruct (Z.ltb_spec s 1); [lia|]. destruct (Z.ltb_spec 64 s); [lia|].
      destruct (Z.eqb_spec s SIGKILL); [contradiction|]. destruct (Z.eqb_spec s SIGSTOP); [contradiction|]. reflexivity. }
    hb; [apply g_sigemptyset|]. intros r2; cbv beta. destruct (r2 <? 0); [apply Herr|].
    unfold signal_mask.
    hb; [hb; [apply g_sigmask|]; intros [e old]; cbv beta; apply hoare_pre; intros w (M' & S & HM);
         destruct (HM eq_refl eq_refl) as [He ->]; cbn [fst] in He; subst e;
         apply hoare_ret; intros ? ->; instantiate (1 := fun r w' => fst r = 0 /\ stg [] D1 C E w'); cbn; auto|].
    intros [r3 old]; cbv beta. apply hoare_pure. cbn [fst]. intros ->. cbn [Z.ltb Z.compare].
    hb; [unfold get_max_fd; hb; [apply g_getrlimit|]; intros [rr soft]; cbv beta;
         instantiate (1 := fun _ w' => stg [] D1 C E w');
         destruct (rr <? 0); [hb; [apply g_get_errno|]; intros e; cbv beta; apply hoare_ret; auto|];
         destruct ((soft <? 0) || (H_INT_MAX <? soft)); apply hoare_ret; auto|].
    intros r4; cbv beta. destruct (r4 <? 0); [apply Hfp|].
    destruct (MAX_FD_LIMIT <? r4); [apply Hfp|].
    hb; [apply g_close_loop|]. intros u; cbv beta.
    unfold pipe_destroy.
    hb; [apply g_handle_destroy|]. intros u1; cbv beta.
    hb; [apply g_handle_destroy|]. intros u2; cbv beta.
    (* the child side of process_start *)
    unfold start_child_part.
    hb; [apply g_child_move_low|]. intros [r5 l1]; cbv beta. destruct (r5 <? 0); [apply Hfp|].
    hb; [apply g_child_redirect|]. intros r6; cbv beta. destruct (r6 <? 0); [apply Hfp|].
    hb; [apply g_handle_cloexec|]. intros r7; cbv beta. destruct (Z.ltb_spec r7 0) as [Hr7|Hr7]; [apply Hfp|].
    set (C1 := match po_wd o with Some d => abs_path C d | None => C end).
    eapply hoare_bind with (R := fun r w' => (r < 0 /\ exists C0, stg [] D1 C0 E w') \/ (0 <= r /\ stg [] D1 C1 E w')).
    { unfold C1. destruct (po_wd o) as [d|].
      - hb; [apply g_chdir|]. intros q; cbv beta. apply hoare_pre. intros w [[-> S]|(-> & S & He)].
        + intros ? ->. cbn. right. split; [lia|exact S].
        + intros ? ->. cbn. left. split; [lia|]. exists C. exact S.
      - apply hoare_ret. intros w S. right. split; [lia|exact S]. }
    intros r8; cbv beta. apply hoare_pre. intros w [[Hneg (C0 & S)]|[Hpos S]].
    { destruct (Z.ltb_spec r8 0); [|lia].
      eapply hoare_conseq with (P := stg [] D1 C0 E); [intros ? ->; exact S|intros a w' X; exact X|intros w' X; exact X|]. apply Hfp. }
    destruct (Z.ltb_spec r8 0); [lia|].
    eapply hoare_conseq with (P := stg [] D1 C1 E); [intros ? ->; exact S|intros a w' X; exact X|intros w' X; exact X|].
    clear w S.
    hb; [apply g_set_environ|]. intros u3; cbv beta.
    set (E1 := match env with Some (_, ss) => map snd ss | None => [] end).
    eapply hoare_bind with (R := fun r w' => r < 0 /\ stg [] D1 C1 E1 w').
    { hb; [apply (g_execvp [] D1 C1 E1 _ av (HG D1 HD1))|]. intros q; cbv beta.
      apply hoare_pre. intros w (-> & e & He & S & Hee). intros ? ->. cbn. rewrite Hee. split; [lia|exact S]. }
    intros r9; cbv beta. apply hoare_pure. intros Hneg. destruct (Z.ltb_spec r9 0); [apply Hfp|lia].
  Qed.
End ChildOther.

(* C12 (child clean) and C03 (launch fidelity), child side, for every parent signal state:
   whatever mask and dispositions the forked child inherited, if it reaches a successful exec the
   program starts with an empty mask, no disposition entry for any standard signal 1..31
   (other than the unsettable SIGKILL / SIGSTOP), exactly the argv passed, exactly the
   environment list handed to the child, and the requested working directory (resolved against
   the cwd at fork) or the cwd at fork when none was requested. *)
Theorem child_image_signals_and_launch M D C E fprd fpwr sprd spwr av pg env o (k : MW unit) w :
  stg M D C E w ->
  match fork_child_part fprd fpwr [po_in o; po_out o; po_err o; sprd; spwr; po_exit o]
                        (start_child_part sprd spwr (Some av) pg env o k) w with
  | Ret _ _ => False
  | Stop w' => forall im, pr_image (curp w') = Some im ->
                 im_mask im = [] /\
                 (forall s x, 1 <= s <= 31 -> s <> SIGKILL -> s <> SIGSTOP -> ~ In (s, x) (im_disp im)) /\
                 im_argv im = av /\
                 im_env im = (match env with Some (_, ss) => map snd ss | None => [] end) /\
                 im_cwd im = (match po_wd o with Some d => abs_path C d | None => C end)
  | Hang _ | Crash _ _ => True
  end.
Proof.
  intros S.
  pose proof (child_exec_other
    (fun M' D' C' E' av' => M' = [] /\ (forall s, 1 <= s <= 31 -> s <> SIGKILL -> s <> SIGSTOP -> D' !! s = None)
                            /\ C' = (match po_wd o with Some d => abs_path C d | None => C end)
                            /\ E' = (match env with Some (_, ss) => map snd ss | None => [] end) /\ av' = av)
    M D C E fprd fpwr sprd spwr av pg env o k) as Hc.
  specialize (Hc ltac:(intros D' HD'; repeat split; auto) w S).
  destruct (fork_child_part _ _ _ _ w) as [a w'|w'|w'|y w']; auto.
  intros im Him. destruct (Hc im Him) as (M' & D' & Hm & Hd & -> & HD & Hcw & Hen & Hav).
  split; [exact Hm|]. split; [|split; [exact Hav|split; [exact Hen|exact Hcw]]].
  intros s x Hs H9 H19 Hin. rewrite Hd in Hin. apply elem_of_list_In, elem_of_map_to_list in Hin.
  unfold exec_disp in Hin. apply map_filter_lookup_Some in Hin. destruct Hin as [Hl _]. rewrite (HD s Hs H9 H19) in Hl. discriminate.
Qed.
