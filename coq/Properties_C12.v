(* Properties_C12.v — C12: start leaves the caller's signal state untouched; the child starts
   clean.  Theorems only: the regenerated bounds of the signal reset loop and the mask-set used
   around fork; the child side (C12_child_clean); the parent side on every return path and for
   every fault plan (C12_start_restores_caller).  Proofs are in ChildSpec.v / ParentSpec.v. *)
From Verif Require Import Lib WorldSpec WorldSpec2 LibSpec LibSpec2 ChildSpec ParentSpec OptSpec Build.
From Coq Require Import Lia.
Local Open Scope Z_scope.

(* the child resets the dispositions of every standard signal 1..31 (loop bounds regenerated from process_fork) *)
Theorem C12_reset_covers_standard_signals : forall s, 1 <= s <= 31 ->
  In s (seqZ SIGNAL_LOOP_FROM (SIGNAL_LOOP_TO - SIGNAL_LOOP_FROM)).
Proof. intros s H. apply elem_of_list_In. apply elem_of_seqZ. unfold SIGNAL_LOOP_FROM, SIGNAL_LOOP_TO. lia. Qed.
Print Assumptions C12_reset_covers_standard_signals.

(* an EINVAL from sigaction (signal 0, SIGKILL, SIGSTOP) is tolerated, any other failure aborts the child *)
Theorem C12_reset_step : forall s r,
  reset_signals (s :: r) =
  (let* q := sys_sigaction s 0 in
   let* e := get_errno in
   if (q <? 0) && negb (e =? EINVAL) then ret (- e) else reset_signals r).
Proof. reflexivity. Qed.
Print Assumptions C12_reset_step.

(* all signals are blocked around fork: the set handed to the mask call contains every signal the
   kernel lets a process block *)
Theorem C12_fill_set_all : forall s, 1 <= s <= 64 -> s <> 32 -> s <> 33 -> In s fill_set.
Proof.
  intros s H H32 H33. unfold fill_set. apply filter_In. split.
  - unfold all_signals. apply elem_of_list_In. apply elem_of_seqZ. lia.
  - destruct (Z.eqb_spec s 32); [contradiction|]. destruct (Z.eqb_spec s 33); [contradiction|]. reflexivity.
Qed.
Print Assumptions C12_fill_set_all.

(* the world: exec keeps ignored dispositions and the mask, so a clean child really is the work of the reset code *)
Theorem C12_exec_keeps_only_ignored : forall d s x, exec_disp d !! s = Some x -> x = DIgnore.
Proof.
  intros d s x H. unfold exec_disp in H. apply map_filter_lookup_Some in H. destruct H as [_ H]. exact H.
Qed.
Print Assumptions C12_exec_keeps_only_ignored.

(* THE CHILD STARTS CLEAN, for every inherited signal state: whatever mask M and dispositions D the
   forked child inherited (any blocked / ignored / handled signals), in every fault-free world, if
   the child reaches a successful exec the program begins with an EMPTY signal mask and NO
   disposition entry (i.e. the default) for every standard signal 1..31 other than the unsettable
   SIGKILL and SIGSTOP; the child code never returns in exec mode.  (Also: exactly the argv
   passed, the environment list handed over, the requested working directory.) *)
Theorem C12_child_clean : forall M D C E fprd fpwr sprd spwr av pg env o (k : MW unit) w,
  stg M D C E w ->
  match fork_child_part fprd fpwr [po_in o; po_out o; po_err o; sprd; spwr; po_exit o]
                        (start_child_part sprd spwr (Some av) pg env o k) w with
  | Ret _ _ => False
  | Stop w' => forall im, pr_image (curp w') = Some im ->
                 im_mask im = [] /\
                 (forall s x, 1 <= s <= 31 -> s <> SIGKILL -> s <> SIGSTOP -> ~ In (s, x) (im_disp im)) /\
                 im_argv im = av /\
                 im_env im = (match env with Some (_, ss) => map snd ss | None => [] end) /\
                 im_cwd im = (match po_wd o with Some d => abs_path C d | None => C end)
  | Hang _ | Crash _ _ => True
  end.
Proof. exact child_image_signals_and_launch. Qed.
Print Assumptions C12_child_clean.

(* THE PARENT SIDE, every return path, EVERY FAULT PLAN: whenever reproc_start returns in the
   caller -- success or failure, whatever calls the fault plan makes fail (EINTR, ENOMEM, EMFILE,
   ... at any call index, any number of them), whatever latencies, whatever the forked child and
   all other processes do meanwhile -- the caller's signal dispositions, working directory and
   environment are exactly what they were, and so is its signal mask, unless the fault plan made a
   pthread_sigmask call itself fail (then that failed call is in the trace).  [w] is any
   well-formed world whose current process has a non-negative pid and a mask in the form
   pthread_sigmask reports it (C12_mask_canonical: every mask the kernel model installs is). *)
Theorem C12_start_restores_caller : forall p argv o src (ck : rp -> MW unit) w r p' w',
  WorldSpec2.wf w -> 0 <= w_cur w -> (forall q, kp (w_cur w) (ck q)) ->
  norm_mask (pr_mask (curp w)) = pr_mask (curp w) ->
  reproc_start p argv o src ck w = Ret (r, p') w' ->
  w_cur w' = w_cur w /\
  pr_disp (curp w') = pr_disp (curp w) /\ pr_cwd (curp w') = pr_cwd (curp w) /\ pr_env (curp w') = pr_env (curp w) /\
  (pr_mask (curp w') = pr_mask (curp w) \/
   exists l ev, w_trace w' = l ++ w_trace w /\ In ev l /\ e_call ev = CSigmask /\ 0 < e_ret ev).
Proof.
  intros p argv o src ck w r p' w' W Hp Hk Hc E.
  destruct (reproc_start_restores p argv o src ck w r p' w' W Hp Hk Hc E) as [(_ & C & (D & Cw & En) & _) R].
  repeat split; assumption.
Qed.
Print Assumptions C12_start_restores_caller.

(* the same for the two layers below (process_start, process_fork), which is where the mask is
   blocked and restored *)
Theorem C12_process_fork_restores : forall except ck w r w',
  WorldSpec2.wf w -> 0 <= w_cur w -> kp (w_cur w) ck -> norm_mask (pr_mask (curp w)) = pr_mask (curp w) ->
  process_fork except ck w = Ret r w' ->
  pq w w' /\ Rst (pr_mask (curp w)) (w_trace w) w'.
Proof. exact process_fork_restores. Qed.
Print Assumptions C12_process_fork_restores.

(* whatever library code a forked child runs -- the whole child side of fork and start, to exec,
   _exit or a fork-mode return -- never touches the record of another process *)
Theorem C12_child_code_is_framed : forall k prd pwr except sprd spwr argv pg env o kk,
  kp k kk -> kp k (fork_child_part prd pwr except (start_child_part sprd spwr argv pg env o kk)).
Proof. intros. apply kp_fork_child_part, kp_start_child_part. assumption. Qed.
Print Assumptions C12_child_code_is_framed.

Theorem C12_mask_canonical : forall s, norm_mask (norm_mask s) = norm_mask s.
Proof. exact norm_mask_idem. Qed.
Print Assumptions C12_mask_canonical.

(* non-vacuity: a real start (default options: three pipes; program found; SIGTERM blocked and
   SIGINT ignored in the caller; a close failed by the plan after the fork) meets every premise,
   returns, and the mask is [SIGTERM] again *)
Definition C12_ex_prog : str := [47; 116].
Definition C12_ex_world : world :=
  build_world 1000 0 7 [(0, {| f_obj := OExt 1 ARd; f_cloexec := false; f_nonblock := false |})]
              [15] [(2, DIgnore)] [47] [] 64 [([47], FDir); (C12_ex_prog, FExec [])] [(150, 5%positive)] [] std_files.
Example C12_ex_start :
  let w := C12_ex_world in
  WorldSpec2.wf w /\ 0 <= w_cur w /\ (forall q : rp, kp (w_cur w) (ret tt)) /\ norm_mask (pr_mask (curp w)) = pr_mask (curp w) /\
  match reproc_start (rp_new 1) (Some [C12_ex_prog]) options_zero 0 (fun _ => ret tt) w with
  | Ret (r, p') w' => (r =? 1) && bool_decide (pr_mask (curp w') = [15]) && bool_decide (pr_mask (curp w) = [15])
  | _ => false
  end = true.
Proof.
  cbn zeta. split.
  { split.
    - eexists. split; [apply lookup_singleton|]. split; reflexivity.
    - intros k [x Hk]. cbn in Hk. apply lookup_singleton_Some in Hk. destruct Hk as [<- _]. cbn. lia. }
  split; [cbn; lia|]. split; [intros _; apply kp_ret|]. split; [vm_compute; reflexivity|].
  vm_compute. reflexivity.
Qed.

(* non-vacuity: a world whose current process blocks SIGTERM and ignores SIGINT satisfies the premise *)
Example C12_ex_state :
  let w := build_world 1000 0 7 [] [15] [(2, DIgnore)] [47] [] 24 [] [] [] [] in
  stg (pr_mask (curp w)) (pr_disp (curp w)) (pr_cwd (curp w)) (pr_env (curp w)) w.
Proof.
  cbn zeta. eexists. split; [|repeat split; reflexivity].
  split; [|split; reflexivity]. split.
  - eexists. split; [apply lookup_singleton|]. split; reflexivity.
  - intros k [x Hk]. cbn in Hk. apply lookup_singleton_Some in Hk. destruct Hk as [<- _]. cbn. lia.
Qed.

Example C12_ex : In 15 (seqZ SIGNAL_LOOP_FROM (SIGNAL_LOOP_TO - SIGNAL_LOOP_FROM)).
Proof. apply C12_reset_covers_standard_signals. lia. Qed.
