(* Properties_C12.v — C12: start leaves the caller's signal state untouched; the child starts
   clean.  Theorems only: the regenerated bounds of the signal reset loop and the mask-set used
   around fork; that every return path restores mask / dispositions / cwd / environment is
   decided by the tie (masks x dispositions x single-fault enumeration of start). *)
From Verif Require Import Lib WorldSpec LibSpec LibSpec2.
From Coq Require Import Lia.
Local Open Scope Z_scope.

(* the child resets the dispositions of every standard signal 1..31 (loop bounds regenerated from process_fork) *)
Theorem C12_reset_covers_standard_signals : forall s, 1 <= s <= 31 ->
  In s (seqZ SIGNAL_LOOP_FROM (SIGNAL_LOOP_TO - SIGNAL_LOOP_FROM)).
Proof. intros s H. apply elem_of_list_In. apply elem_of_seqZ. unfold SIGNAL_LOOP_FROM, SIGNAL_LOOP_TO. lia. Qed.
Print Assumptions C12_reset_covers_standard_signals.

(* an EINVAL from sigaction (signal 0, SIGKILL, SIGSTOP) is tolerated, any other failure aborts the child *)
Theorem C12_reset_step : forall s r,
  reset_signals (s :: r) =
  (let* q := sys_sigaction s 0 in
   let* e := get_errno in
   if (q <? 0) && negb (e =? EINVAL) then ret (- e) else reset_signals r).
Proof. reflexivity. Qed.
Print Assumptions C12_reset_step.

(* all signals are blocked around fork: the set handed to the mask call contains every signal the
   kernel lets a process block *)
Theorem C12_fill_set_all : forall s, 1 <= s <= 64 -> s <> 32 -> s <> 33 -> In s fill_set.
Proof.
  intros s H H32 H33. unfold fill_set. apply filter_In. split.
  - unfold all_signals. apply elem_of_list_In. apply elem_of_seqZ. lia.
  - destruct (Z.eqb_spec s 32); [contradiction|]. destruct (Z.eqb_spec s 33); [contradiction|]. reflexivity.
Qed.
Print Assumptions C12_fill_set_all.

(* the world: exec keeps ignored dispositions and the mask, so a clean child really is the work of the reset code *)
Theorem C12_exec_keeps_only_ignored : forall d s x, exec_disp d !! s = Some x -> x = DIgnore.
Proof.
  intros d s x H. unfold exec_disp in H. apply map_filter_lookup_Some in H. destruct H as [_ H]. exact H.
Qed.
Print Assumptions C12_exec_keeps_only_ignored.

Example C12_ex : In 15 (seqZ SIGNAL_LOOP_FROM (SIGNAL_LOOP_TO - SIGNAL_LOOP_FROM)).
Proof. apply C12_reset_covers_standard_signals. lia. Qed.
