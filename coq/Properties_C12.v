(* Properties_C12.v — C12: start leaves the caller's signal state untouched; the child starts
   clean.  Theorems only: the regenerated bounds of the signal reset loop and the mask-set used
   around fork; that every return path restores mask / dispositions / cwd / environment is
   decided by the tie (masks x dispositions x single-fault enumeration of start). *)
From Verif Require Import Lib WorldSpec WorldSpec2 LibSpec LibSpec2 ChildSpec Build.
From Coq Require Import Lia.
Local Open Scope Z_scope.

(* the child resets the dispositions of every standard signal 1..31 (loop bounds regenerated from process_fork) *)
Theorem C12_reset_covers_standard_signals : forall s, 1 <= s <= 31 ->
  In s (seqZ SIGNAL_LOOP_FROM (SIGNAL_LOOP_TO - SIGNAL_LOOP_FROM)).
Proof. intros s H. apply elem_of_list_In. apply elem_of_seqZ. unfold SIGNAL_LOOP_FROM, SIGNAL_LOOP_TO. lia. Qed.
Print Assumptions C12_reset_covers_standard_signals.

(* an EINVAL from sigaction (signal 0, SIGKILL, SIGSTOP) is tolerated, any other failure aborts the child *)
Theorem C12_reset_step : forall s r,
  reset_signals (s :: r) =
  (let* q := sys_sigaction s 0 in
   let* e := get_errno in
   if (q <? 0) && negb (e =? EINVAL) then ret (- e) else reset_signals r).
Proof. reflexivity. Qed.
Print Assumptions C12_reset_step.

(* all signals are blocked around fork: the set handed to the mask call contains every signal the
   kernel lets a process block *)
Theorem C12_fill_set_all : forall s, 1 <= s <= 64 -> s <> 32 -> s <> 33 -> In s fill_set.
Proof.
  intros s H H32 H33. unfold fill_set. apply filter_In. split.
  - unfold all_signals. apply elem_of_list_In. apply elem_of_seqZ. lia.
  - destruct (Z.eqb_spec s 32); [contradiction|]. destruct (Z.eqb_spec s 33); [contradiction|]. reflexivity.
Qed.
Print Assumptions C12_fill_set_all.

(* the world: exec keeps ignored dispositions and the mask, so a clean child really is the work of the reset code *)
Theorem C12_exec_keeps_only_ignored : forall d s x, exec_disp d !! s = Some x -> x = DIgnore.
Proof.
  intros d s x H. unfold exec_disp in H. apply map_filter_lookup_Some in H. destruct H as [_ H]. exact H.
Qed.
Print Assumptions C12_exec_keeps_only_ignored.

(* THE CHILD STARTS CLEAN, for every inherited signal state: whatever mask M and dispositions D the
   forked child inherited (any blocked / ignored / handled signals), in every fault-free world, if
   the child reaches a successful exec the program begins with an EMPTY signal mask and NO
   disposition entry (i.e. the default) for every standard signal 1..31 other than the unsettable
   SIGKILL and SIGSTOP; the child code never returns in exec mode.  (Also: exactly the argv
   passed, the environment list handed over, the requested working directory.) *)
Theorem C12_child_clean : forall M D C E fprd fpwr sprd spwr av pg env o (k : MW unit) w,
  stg M D C E w ->
  match fork_child_part fprd fpwr [po_in o; po_out o; po_err o; sprd; spwr; po_exit o]
                        (start_child_part sprd spwr (Some av) pg env o k) w with
  | Ret _ _ => False
  | Stop w' => forall im, pr_image (curp w') = Some im ->
                 im_mask im = [] /\
                 (forall s x, 1 <= s <= 31 -> s <> SIGKILL -> s <> SIGSTOP -> ~ In (s, x) (im_disp im)) /\
                 im_argv im = av /\
                 im_env im = (match env with Some (_, ss) => map snd ss | None => [] end) /\
                 im_cwd im = (match po_wd o with Some d => abs_path C d | None => C end)
  | Hang _ | Crash _ _ => True
  end.
Proof. exact child_image_signals_and_launch. Qed.
Print Assumptions C12_child_clean.

(* non-vacuity: a world whose current process blocks SIGTERM and ignores SIGINT satisfies the premise *)
Example C12_ex_state :
  let w := build_world 1000 0 7 [] [15] [(2, DIgnore)] [47] [] 24 [] [] [] [] in
  stg (pr_mask (curp w)) (pr_disp (curp w)) (pr_cwd (curp w)) (pr_env (curp w)) w.
Proof.
  cbn zeta. eexists. split; [|repeat split; reflexivity].
  split; [|split; reflexivity]. split.
  - eexists. split; [apply lookup_singleton|]. split; reflexivity.
  - intros k [x Hk]. cbn in Hk. apply lookup_singleton_Some in Hk. destruct Hk as [<- _]. cbn. lia.
Qed.

Example C12_ex : In 15 (seqZ SIGNAL_LOOP_FROM (SIGNAL_LOOP_TO - SIGNAL_LOOP_FROM)).
Proof. apply C12_reset_covers_standard_signals. lia. Qed.
