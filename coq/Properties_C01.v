(* Properties_C01.v — C01: exit status reported exactly, stable, child reaped once.
   Theorems only; proofs are in ProofsPure.v / LibSpec.v. *)
From Verif Require Import Lib Build WorldSpec WorldSpec2 LibSpec ProofsPure WaitSpec.
From Coq Require Import Lia.
Local Open Scope Z_scope.

(* decoding: the value returned for a Linux wait status is the exit code, resp. 128 + signal *)
Theorem C01_decode_exit : forall c, 0 <= c < 256 -> parse_status (c * 256) = c.
Proof. exact parse_status_exit. Qed.
Print Assumptions C01_decode_exit.

Theorem C01_decode_signal : forall s core, 1 <= s <= 127 -> core = 0 \/ core = 1 ->
  parse_status (s + 128 * core) = 128 + s.
Proof. exact parse_status_signal. Qed.
Print Assumptions C01_decode_signal.

(* a decoded status is never negative: it cannot be confused with an error or a life-cycle marker *)
Theorem C01_decode_range : forall st, 0 <= st -> 0 <= parse_status st <= 255.
Proof. exact parse_status_range. Qed.
Print Assumptions C01_decode_range.

(* stable: once a status is cached, wait / terminate / kill return at once, change nothing in
   the world (no system call, no event, no time) and leave the handle as it is — for every
   world, i.e. every fault plan, latency plan and child behaviour *)
Theorem C01_wait_stable : forall p t w, 0 <= h_status p -> reproc_wait p t w = Ret (h_status p, p) w.
Proof. exact reproc_wait_cached. Qed.
Print Assumptions C01_wait_stable.

Theorem C01_terminate_kill_stable : forall p w, 0 <= h_status p ->
  reproc_terminate p w = Ret 0 w /\ reproc_kill p w = Ret 0 w.
Proof. intros p w H. split; [apply reproc_terminate_cached|apply reproc_kill_cached]; exact H. Qed.
Print Assumptions C01_terminate_kill_stable.

(* ... and so does a stop sequence whose first effective action is wait, terminate or kill *)
Theorem C01_stop_stable : forall acts p r w, 0 <= h_status p ->
  (exists a rest pre, acts = pre ++ a :: rest /\ Forall (fun x => stop_action_kind (sa_action x) = SK_noop) pre
                      /\ stop_action_kind (sa_action a) <> SK_noop /\ stop_action_kind (sa_action a) <> SK_invalid) ->
  stop_loop acts p r w = Ret (h_status p, p) w.
Proof. exact stop_loop_cached. Qed.
Print Assumptions C01_stop_stable.

(* a wait returns a status only through a successful reap of the handle's own child, caches it,
   and every system call it makes is a poll on the exit pipe, the clock, the reap of that child,
   the close of the exit pipe or scratch allocation *)
Theorem C01_wait_footprint : forall p t,
  emitsR (reproc_wait p t) (api_ev p)
         (fun rp' => shrinks p (snd rp') /\ (fst rp' < 0 -> snd rp' = p) /\ (0 <= fst rp' -> h_status (snd rp') = fst rp')).
Proof. exact emitsR_reproc_wait. Qed.
Print Assumptions C01_wait_footprint.

(* exact: a wait on a running handle returns a status r >= 0 only by reaping the handle's own
   child, which at that moment of the call had ended (was a zombie with wait status st); r is the
   decoded st and is cached, the reap of that pid is the event logged at that moment, and the
   child's record afterwards is the same record marked reaped -- no zombie remains.  For every
   well-formed world: every fault plan, latency plan, descriptor table, set of other processes
   and behaviour of the child.  (Never a status while the child still runs: Running is not Zombie.) *)
Theorem C01_wait_exact : forall p t w r p' w',
  wf w -> h_status p = STATUS_IN_PROGRESS -> 0 < h_handle p ->
  reproc_wait p t w = Ret (r, p') w' -> 0 <= r ->
  exists st wz,
    pr_state (get_proc (h_handle p) wz) = Zombie st
    /\ get_proc (h_handle p) w' = pr_with_state (Reaped st) (get_proc (h_handle p) wz)
    /\ (exists pre, w_trace wz = pre ++ w_trace w)
    /\ (exists post ev, w_trace w' = post ++ ev :: w_trace wz /\ e_call ev = CWaitpid /\ e_args ev = [h_handle p]
                        /\ e_ret ev = h_handle p /\ e_outs ev = [Z.of_N st])
    /\ r = parse_status (Z.of_N st)
    /\ h_status p' = r.
Proof. exact reproc_wait_exact. Qed.
Print Assumptions C01_wait_exact.

(* non-vacuity *)
Definition C01_ex_child : proc :=
  {| pr_parent := 7; pr_kind := KScript; pr_fds := ∅; pr_mask := []; pr_disp := ∅; pr_cwd := [47]; pr_env := [];
     pr_errno := 0; pr_rlimit := 24; pr_state := Zombie 10752; pr_image := None; pr_script := [];
     pr_wake := 0; pr_woff := []; pr_seen := []; pr_end := None |}.
Definition C01_ex_world : world :=
  let w := build_world 1000 0 7 [(3, {| f_obj := OPipeR 1; f_cloexec := true; f_nonblock := false |})]
                       [] [] [47] [] 24 [] [(2, 4%positive)] [(1, 5)] [] in
  w_with_next_pid 9 (w_with_procs (<[8 := C01_ex_child]> (w_procs w)) (set_pipe 1 {| p_buf := []; p_len := 0 |} w)).
Definition C01_ex_h : rp :=
  rp_with_status STATUS_IN_PROGRESS (rp_with_pipes (-1) (-1) (-1) 3 (rp_with_handle 8 (rp_new 1))).
Example C01_ex_wait :
  wf C01_ex_world /\ h_status C01_ex_h = STATUS_IN_PROGRESS /\ 0 < h_handle C01_ex_h /\
  exists p' w', reproc_wait C01_ex_h REPROC_INFINITE C01_ex_world = Ret (42, p') w'
                /\ pr_state (get_proc 8 w') = Reaped 10752.
Proof.
  split; [|split; [reflexivity|split; [reflexivity|]]].
  - split.
    + eexists. split; [vm_compute; reflexivity|]. split; reflexivity.
    + intros k [x Hk]. cbn in Hk. apply lookup_insert_Some in Hk. destruct Hk as [[<- _]|[_ Hk]]; [cbn; lia|].
      apply lookup_singleton_Some in Hk. destruct Hk as [<- _]. cbn. lia.
  - vm_compute. eexists. eexists. split; reflexivity.
Qed.

Example C01_ex_codes : parse_status (42 * 256) = 42 /\ parse_status (9 + 128 * 1) = 137 /\ parse_status 15 = 143.
Proof. vm_compute. auto. Qed.
Example C01_ex_cached : exists p, 0 <= h_status p /\ h_status p = 143.
Proof. exists (rp_with_status 143 (rp_new 1)). cbn. lia. Qed.
