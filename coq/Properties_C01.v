(* Properties_C01.v — C01: exit status reported exactly, stable, child reaped once.
   Theorems only; proofs are in ProofsPure.v / LibSpec.v. *)
From Verif Require Import Lib WorldSpec LibSpec ProofsPure.
From Coq Require Import Lia.
Local Open Scope Z_scope.

(* decoding: the value returned for a Linux wait status is the exit code, resp. 128 + signal *)
Theorem C01_decode_exit : forall c, 0 <= c < 256 -> parse_status (c * 256) = c.
Proof. exact parse_status_exit. Qed.
Print Assumptions C01_decode_exit.

Theorem C01_decode_signal : forall s core, 1 <= s <= 127 -> core = 0 \/ core = 1 ->
  parse_status (s + 128 * core) = 128 + s.
Proof. exact parse_status_signal. Qed.
Print Assumptions C01_decode_signal.

(* a decoded status is never negative: it cannot be confused with an error or a life-cycle marker *)
Theorem C01_decode_range : forall st, 0 <= st -> 0 <= parse_status st <= 255.
Proof. exact parse_status_range. Qed.
Print Assumptions C01_decode_range.

(* stable: once a status is cached, wait / terminate / kill return at once, change nothing in
   the world (no system call, no event, no time) and leave the handle as it is — for every
   world, i.e. every fault plan, latency plan and child behaviour *)
Theorem C01_wait_stable : forall p t w, 0 <= h_status p -> reproc_wait p t w = Ret (h_status p, p) w.
Proof. exact reproc_wait_cached. Qed.
Print Assumptions C01_wait_stable.

Theorem C01_terminate_kill_stable : forall p w, 0 <= h_status p ->
  reproc_terminate p w = Ret 0 w /\ reproc_kill p w = Ret 0 w.
Proof. intros p w H. split; [apply reproc_terminate_cached|apply reproc_kill_cached]; exact H. Qed.
Print Assumptions C01_terminate_kill_stable.

(* ... and so does a stop sequence whose first effective action is wait, terminate or kill *)
Theorem C01_stop_stable : forall acts p r w, 0 <= h_status p ->
  (exists a rest pre, acts = pre ++ a :: rest /\ Forall (fun x => stop_action_kind (sa_action x) = SK_noop) pre
                      /\ stop_action_kind (sa_action a) <> SK_noop /\ stop_action_kind (sa_action a) <> SK_invalid) ->
  stop_loop acts p r w = Ret (h_status p, p) w.
Proof. exact stop_loop_cached. Qed.
Print Assumptions C01_stop_stable.

(* a wait returns a status only through a successful reap of the handle's own child, caches it,
   and every system call it makes is a poll on the exit pipe, the clock, the reap of that child,
   the close of the exit pipe or scratch allocation *)
Theorem C01_wait_footprint : forall p t,
  emitsR (reproc_wait p t) (api_ev p)
         (fun rp' => shrinks p (snd rp') /\ (fst rp' < 0 -> snd rp' = p) /\ (0 <= fst rp' -> h_status (snd rp') = fst rp')).
Proof. exact emitsR_reproc_wait. Qed.
Print Assumptions C01_wait_footprint.

(* non-vacuity *)
Example C01_ex_codes : parse_status (42 * 256) = 42 /\ parse_status (9 + 128 * 1) = 137 /\ parse_status 15 = 143.
Proof. vm_compute. auto. Qed.
Example C01_ex_cached : exists p, 0 <= h_status p /\ h_status p = 143.
Proof. exists (rp_with_status 143 (rp_new 1)). cbn. lia. Qed.
