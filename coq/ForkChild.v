(* ForkChild.v — C11, the child side of process_fork on its own (the part a fork-mode child runs
   before control returns to the caller's code): for EVERY inherited table, limit and keep list,
   the continuation runs with a sub-table of the inherited one that holds only kept numbers (the
   error pipe's own ends excepted) -- close-on-exec or not, since no exec need follow -- and every
   kept descriptor is still what it was. *)
From Verif Require Import Lib WorldSpec WorldSpec2 ChildSpec.
From Coq Require Import Lia.
Local Open Scope Z_scope.

Definition kept_only (t : gmap Z fdent) (prd pwr : Z) (except : list Z) (t' : gmap Z fdent) : Prop :=
  (forall x d, t' !! x = Some d -> t !! x = Some d /\ memZ x except = true /\ x <> prd /\ x <> pwr) /\
  (forall x, memZ x except = true -> x <> prd -> x <> pwr -> t' !! x = t !! x).

Section ForkChild.
  Variable G : gmap Z fdent -> Prop.
  Notation H P m Q := (hoare P m Q (QSG G)).
  Ltac hb := eapply hoare_bind.

  Theorem fork_child_reaches_k L t prd pwr except (k : MW unit) (Post : unit -> world -> Prop) :
    0 <= L ->
    (forall x, is_Some (t !! x) -> 0 <= x < L) ->
    (forall t', kept_only t prd pwr except t' -> H (stf L t') k Post) ->
    H (stf L t) (fork_child_part prd pwr except k) Post.
  Proof.
    intros HL Hkeys Hk. unfold fork_child_part.
    assert (Hfp : forall t0 r, H (stf L t0) (sys_write pwr [RLit (encode_int (- r))] ;> sys__exit 1) Post).
    { intros t0 r. eapply hoare_conseq; [intros w X; exact X| |intros w X; exact X|apply (f_fail_path G)].
      intros a w []. }
    assert (Herr : forall t0, H (stf L t0) (let* r := (let* e := get_errno in ret (- e)) in sys_write pwr [RLit (encode_int (- r))] ;> sys__exit 1) Post).
    { intros t0. eapply hoare_bind with (R := fun _ w' => stf L t0 w').
      - hb; [apply f_get_errno|]. intros e; cbv beta. apply hoare_ret. auto.
      - intros r; cbv beta. apply Hfp. }
    hb; [apply f_sigemptyset|]. intros r0; cbv beta. destruct (r0 <? 0); [apply Herr|].
    hb; [apply (f_reset_signals G)|]. intros r1; cbv beta. destruct (r1 <? 0); [apply Hfp|].
    hb; [apply f_sigemptyset|]. intros r2; cbv beta. destruct (r2 <? 0); [apply Herr|].
    hb; [apply (f_signal_mask G)|]. intros [r3 old]; cbv beta. destruct (r3 <? 0); [apply Hfp|].
    eapply hoare_bind with (R := fun r w' => r = (if (L <? 0) || (H_INT_MAX <? L) then H_INT_MAX else L - 1) /\ stf L t w').
    { unfold get_max_fd. hb; [apply f_getrlimit|]. intros [rr soft]; cbv beta.
      apply hoare_pure. intros E. injection E as -> ->. cbn [Z.ltb Z.compare].
      destruct ((L <? 0) || (H_INT_MAX <? L)); apply hoare_ret; auto. }
    intros r4; cbv beta. apply hoare_pure. intros ->.
    destruct (Z.ltb_spec L 0) as [Hl0|Hl0]; [lia|]. cbn [orb].
    destruct (Z.ltb_spec H_INT_MAX L) as [Hbig|Hsmall].
    { cbn. apply Hfp. }
    destruct (Z.ltb_spec (L - 1) 0) as [Hneg|Hnn].
    { apply Hfp. }
    destruct (Z.ltb_spec MAX_FD_LIMIT (L - 1)) as [Hm|Hm]; [apply Hfp|].
    set (skip := prd :: pwr :: except).
    hb; [apply (f_close_loop L t skip (seqZ 0 (L - 1 + 1)))|].
    { apply Forall_forall. intros x Hx. apply elem_of_list_In, elem_of_seqZ in Hx. lia. }
    intros u; cbv beta.
    set (t1 := foldl (close_step skip) t (seqZ 0 (L - 1 + 1))).
    unfold pipe_destroy.
    hb; [apply f_handle_destroy|]. intros u1; cbv beta. apply hoare_pure. intros ->.
    hb; [apply f_handle_destroy|]. intros u2; cbv beta. apply hoare_pure. intros ->.
    set (t2 := if prd =? -1 then (if pwr =? -1 then t1 else delete pwr t1) else delete prd (if pwr =? -1 then t1 else delete pwr t1)).
    apply Hk.
    assert (Hneg1 : forall x, x = -1 -> t !! x = None).
    { intros x ->. destruct (t !! -1) eqn:E; [|reflexivity]. specialize (Hkeys (-1) ltac:(rewrite E; eauto)). lia. }
    assert (Ht1 : forall x, t1 !! x = if memZ x skip then t !! x else None).
    { intros x. unfold t1. rewrite close_fold_lookup, memZ_seqZ by lia.
      destruct (memZ x skip) eqn:Es; cbn [negb]; [rewrite andb_false_r; reflexivity|].
      rewrite andb_true_r. destruct (Z.leb_spec 0 x); destruct (Z.ltb_spec x (L - 1 + 1)); cbn [andb]; try reflexivity.
      - destruct (t !! x) eqn:E; [|reflexivity]. specialize (Hkeys x ltac:(rewrite E; eauto)). lia.
      - destruct (t !! x) eqn:E; [|reflexivity]. specialize (Hkeys x ltac:(rewrite E; eauto)). lia.
      - destruct (t !! x) eqn:E; [|reflexivity]. specialize (Hkeys x ltac:(rewrite E; eauto)). lia. }
    assert (Ht2 : forall x, t2 !! x = if (x =? prd) || (x =? pwr) then None else t1 !! x).
    { intros x. unfold t2.
      destruct (Z.eqb_spec x prd) as [->|Hx1]; cbn [orb].
      - destruct (Z.eqb_spec prd (-1)) as [E|E]; [|apply lookup_delete].
        destruct (Z.eqb_spec pwr (-1)) as [E2|E2].
        + rewrite Ht1, (Hneg1 prd E). destruct (memZ prd skip); reflexivity.
        + destruct (Z.eq_dec prd pwr) as [->|N]; [apply lookup_delete|]. rewrite lookup_delete_ne by congruence.
          rewrite Ht1, (Hneg1 prd E). destruct (memZ prd skip); reflexivity.
      - destruct (Z.eqb_spec x pwr) as [->|Hx2].
        + destruct (Z.eqb_spec prd (-1)) as [E|E].
          * destruct (Z.eqb_spec pwr (-1)) as [E2|E2]; [|apply lookup_delete].
            rewrite Ht1, (Hneg1 pwr E2). destruct (memZ pwr skip); reflexivity.
          * rewrite lookup_delete_ne by congruence.
            destruct (Z.eqb_spec pwr (-1)) as [E2|E2]; [|apply lookup_delete].
            rewrite Ht1, (Hneg1 pwr E2). destruct (memZ pwr skip); reflexivity.
        + destruct (prd =? -1); destruct (pwr =? -1); rewrite ?lookup_delete_ne by congruence; reflexivity. }
    assert (Hskip : forall x, x <> prd -> x <> pwr -> memZ x skip = memZ x except).
    { intros x A B. unfold skip. rewrite !memZ_cons.
      destruct (Z.eqb_spec x prd); [contradiction|]. destruct (Z.eqb_spec x pwr); [contradiction|]. reflexivity. }
    split.
    - intros x d Hd. rewrite Ht2 in Hd.
      destruct (Z.eqb_spec x prd) as [|A]; [discriminate|]. destruct (Z.eqb_spec x pwr) as [|B]; [discriminate|].
      cbn [orb] in Hd. rewrite Ht1, (Hskip x A B) in Hd.
      destruct (memZ x except); [auto|discriminate].
    - intros x Hx A B. rewrite Ht2.
      destruct (Z.eqb_spec x prd); [contradiction|]. destruct (Z.eqb_spec x pwr); [contradiction|]. cbn [orb].
      rewrite Ht1, (Hskip x A B), Hx. reflexivity.
  Qed.
End ForkChild.

(* the same as a statement about the run: a forked child that comes back from the child side of
   process_fork (no exec: fork mode) holds only kept descriptors, each unchanged; a child that
   does not come back has exited without a program image *)
Theorem fork_child_table L t prd pwr except w :
  0 <= L -> (forall x, is_Some (t !! x) -> 0 <= x < L) -> stf L t w ->
  match fork_child_part prd pwr except (ret tt) w with
  | Ret _ w' => exists t', stf L t' w' /\ kept_only t prd pwr except t'
  | Stop w' => pr_image (curp w') = None
  | Hang _ | Crash _ _ => True
  end.
Proof.
  intros HL Hk S.
  pose proof (fork_child_reaches_k (fun _ => False) L t prd pwr except (ret tt)
                (fun _ w' => exists t', stf L t' w' /\ kept_only t prd pwr except t') HL Hk) as Hc.
  assert (Hr : forall t', kept_only t prd pwr except t' ->
            hoare (stf L t') (ret tt) (fun _ w' => exists t'0, stf L t'0 w' /\ kept_only t prd pwr except t'0) (QSG (fun _ => False))).
  { intros t' K. apply hoare_ret. intros w' S'. exists t'. auto. }
  specialize (Hc Hr w S).
  destruct (fork_child_part prd pwr except (ret tt) w) as [a w'|w'|w'|y w']; auto.
  destruct (pr_image (curp w')) as [im|] eqn:E; [exfalso|reflexivity].
  destruct (Hc im E) as (t0 & _ & []).
Qed.
