(* Properties_C18.v — C18 "Windows command line and environment block encode argv/env
   losslessly, in bounds": ONLY the property theorems.  Model: WinArgs.v (the C code as
   fixed by fix_D14.patch).  Proofs: WinArgsProofs.v.  Every theorem is for ALL strings over
   ALL code units and of any length (induction, not a bounded sweep).

   Hypotheses used below, and why real inputs satisfy them:
   * [argv <> []]            process_start asserts argv[0] != NULL;
   * [Forall no_nul argv]    the arguments are C strings (`const char *const *`): a C string
                             cannot contain its own terminator;
   * [program_ok (hd [] argv)]  argv[0] contains no double quote (no Windows file name can),
                             and, if it has to be quoted (contains blank/tab/newline/vtab or
                             is empty), does not end in a backslash.  Windows parses the
                             program name with a rule that knows no backslash escapes, so
                             this cannot be dropped: C18_program_trailing_backslash_refuted;
   * [Forall entry_ok ...]   environment entries are non-empty C strings ("NAME=VALUE");
                             a parent block as returned by GetEnvironmentStringsW is
                             [env_block parent] for such entries by definition of the format.
                             For an EMPTY extra entry the property's literal text fails:
                             C18_env_block_empty_entry_refuted. *)
From Coq Require Import ZArith List Bool Lia.
Import ListNotations.
From Verif Require Import WinArgs WinArgsProofs.
Open Scope Z_scope.

(* test data:  a b  |  (empty)  |  a BS DQ BS  |  BS BS  |  x TAB BS BS  |  NL  *)
Definition ex_argv : list str :=
  [[97; 32; 98]; []; [97; 92; 34; 92]; [92; 92]; [120; 9; 92; 92]; [10]].

(* ------------------------------------------------------------------------- *)
(** * Round trip *)

Theorem C18_roundtrip : forall argv,
  argv <> [] -> program_ok (hd [] argv) -> Forall no_nul argv ->
  win_split (argv_join argv) = argv.
Proof. exact (roundtrip_gen true). Qed.
Print Assumptions C18_roundtrip.

Example C18_roundtrip_ex :
  (ex_argv <> [] /\ program_ok (hd [] ex_argv) /\ Forall no_nul ex_argv) /\
  argv_join ex_argv =
    [34;97;32;98;34; 32; 34;34; 32; 34;97;92;92;92;34;92;92;34; 32; 92;92; 32;
     34;120;9;92;92;92;92;34; 32; 34;10;34] /\
  win_split (argv_join ex_argv) = ex_argv.
Proof.
  split; [split; [discriminate|split; [reflexivity|repeat constructor; discriminate]]|].
  split; vm_compute; reflexivity.
Qed.

(* The two choices that exist among Windows runtimes do not matter: the rule for [""]
   inside quotes (stay in / leave quote mode) and the program-name rule (UCRT / older). *)
Theorem C18_roundtrip_any_rules : forall dq_stays argv,
  argv <> [] -> program_ok (hd [] argv) -> Forall no_nul argv ->
  win_split_gen dq_stays (argv_join argv) = argv /\
  win_split_old_gen dq_stays (argv_join argv) = argv.
Proof. intros; split; [now apply roundtrip_gen|now apply roundtrip_old_gen]. Qed.
Print Assumptions C18_roundtrip_any_rules.

Example C18_roundtrip_any_rules_ex :
  win_split_gen false (argv_join ex_argv) = ex_argv /\
  win_split_old_gen false (argv_join ex_argv) = ex_argv /\
  win_split_old_gen true (argv_join ex_argv) = ex_argv /\
  (* ... while the choice does matter on lines the writer never produces: " a""b c" *)
  win_split_gen true [120; 32; 34; 97; 34; 34; 98; 32; 99; 34] <>
  win_split_gen false [120; 32; 34; 97; 34; 34; 98; 32; 99; 34].
Proof. repeat split; vm_compute; (reflexivity || discriminate). Qed.

(* The same, starting from the buffer argv_join returns (read up to its first NUL). *)
Theorem C18_roundtrip_buffer : forall argv buf,
  argv <> [] -> program_ok (hd [] argv) -> Forall no_nul argv ->
  argv_join_buf argv = Some buf -> win_split buf = argv.
Proof. exact (roundtrip_buf true). Qed.
Print Assumptions C18_roundtrip_buffer.

Example C18_roundtrip_buffer_ex :
  exists buf, argv_join_buf ex_argv = Some buf /\ length buf = 35%nat /\ win_split buf = ex_argv.
Proof. eexists. split; [vm_compute; reflexivity|]. split; vm_compute; reflexivity. Qed.

(* ------------------------------------------------------------------------- *)
(** * Sizes are exact, stores are in bounds *)

Theorem C18_size_exact : forall a,
  argument_escaped_size a = Z.of_nat (length (argument_escape a)).
Proof. exact argument_escaped_size_exact. Qed.
Print Assumptions C18_size_exact.

Example C18_size_exact_ex :
  argument_escaped_size [97; 92; 34; 92] = 9 /\ length (argument_escape [97; 92; 34; 92]) = 9%nat /\
  argument_escaped_size [92; 92] = 2 /\ argument_escaped_size [] = 2.
Proof. repeat split; vm_compute; reflexivity. Qed.

(* argv_join: the size passed to calloc is strlen + 1; every store of the second loop
   (including strcpy's NUL and the blanks) is inside the allocation ([Some]); the final
   contents are the command line followed by the terminator in the LAST unit; the value
   argument_escape returns is the number of units of the argument on the line. *)
Theorem C18_argv_join_in_bounds : forall argv,
  argv_joined_size argv = Z.of_nat (length (argv_join argv)) + 1 /\
  argv_join_buf argv = Some (argv_join argv ++ [NUL]) /\
  Forall (fun a => argument_escape_ret a = length (argument_escape a)) argv.
Proof.
  intros. split; [apply argv_joined_size_exact|]. split; [apply argv_join_buf_ok|].
  apply Forall_forall. intros. apply argument_escape_ret_length.
Qed.
Print Assumptions C18_argv_join_in_bounds.

Example C18_argv_join_in_bounds_ex :
  argv_joined_size ex_argv = 35 /\
  (* one unit less and the terminator would be out of bounds: *)
  (match argv_write argument_should_escape (calloc 34) 0 ex_argv with
   | Some (buf, cur) => write_at buf cur [NUL] | None => None end) = None.
Proof. split; vm_compute; reflexivity. Qed.

(* ------------------------------------------------------------------------- *)
(** * Environment block *)

(* extra != NULL *)
Theorem C18_env_block : forall (extend : bool) extra parent,
  Forall entry_ok extra -> Forall entry_ok parent ->
  let block := concat (map (fun e => e ++ [NUL]) ((if extend then parent else []) ++ extra)) ++ [NUL] in
  env_setup extend (Some extra) (env_block parent) = (Z.of_nat (length block), Some block).
Proof. exact env_setup_ok. Qed.
Print Assumptions C18_env_block.

Example C18_env_block_ex :   (* parent "P=Q" "=C:=C:\", extra "A=B" "C=" *)
  let parent := [[80; 61; 81]; [61; 67; 58; 61; 67; 58; 92]] in
  let extra := [[65; 61; 66]; [67; 61]] in
  (Forall entry_ok extra /\ Forall entry_ok parent) /\
  env_setup true (Some extra) (env_block parent) =
    (20, Some [80;61;81;0; 61;67;58;61;67;58;92;0; 65;61;66;0; 67;61;0; 0]) /\
  env_setup false (Some extra) (env_block parent) = (8, Some [65;61;66;0; 67;61;0; 0]) /\
  (* boundary: no entries at all gives a lone NUL in a 1-unit allocation *)
  env_setup false (Some []) (env_block parent) = (1, Some [0]) /\
  env_setup true (Some []) (env_block []) = (1, Some [0]).
Proof.
  cbn zeta. split.
  - split; repeat constructor; try discriminate.
  - repeat split; vm_compute; reflexivity.
Qed.

(* extra == NULL *)
Theorem C18_env_block_null_extra : forall (extend : bool) parent,
  Forall entry_ok parent ->
  let block := concat (map (fun e => e ++ [NUL]) (if extend then parent else [])) ++ [NUL] in
  env_setup extend None (env_block parent) = (Z.of_nat (length block), Some block).
Proof. exact env_setup_null_ok. Qed.
Print Assumptions C18_env_block_null_extra.

Example C18_env_block_null_extra_ex :
  env_setup true None (env_block [[80; 61; 81]]) = (5, Some [80; 61; 81; 0; 0]) /\
  env_setup false None (env_block [[80; 61; 81]]) = (1, Some [0]).
Proof. split; vm_compute; reflexivity. Qed.

(* Bounds need no hypothesis at all: for ANY extra strings and ANY parent memory, no
   store leaves its allocation, the size is exact, and the result is a well-formed block. *)
Theorem C18_env_in_bounds : forall extend extra parent,
  exists entries,
    env_setup extend extra parent =
    (Z.of_nat (length (env_block entries)), Some (env_block entries)).
Proof. exact env_setup_in_bounds. Qed.
Print Assumptions C18_env_in_bounds.

Example C18_env_in_bounds_ex :   (* ill-formed parent memory "P" NUL "Q" (no final NUL NUL) *)
  env_setup true (Some [[]; [65]]) [80; 0; 81] = (3, Some [80; 0; 0]).
Proof. vm_compute; reflexivity. Qed.

(* DEVIATION from the property's literal text: an empty string among the extra entries
   ends the block; it and all later entries are dropped (NULSTR_FOREACH in env_concat
   re-parses the joined block and stops at the first empty string). *)
Theorem C18_env_block_empty_entry_refuted : exists (extend : bool) extra parent,
  Forall no_nul extra /\ Forall entry_ok parent /\
  snd (env_setup extend (Some extra) (env_block parent)) <>
  Some (concat (map (fun e => e ++ [NUL]) ((if extend then parent else []) ++ extra)) ++ [NUL]).
Proof. exact env_block_empty_entry_refuted. Qed.
Print Assumptions C18_env_block_empty_entry_refuted.

(* ... and exactly what happens instead *)
Theorem C18_env_block_empty_entry : forall (extend : bool) before after parent,
  Forall entry_ok before -> Forall entry_ok parent ->
  snd (env_setup extend (Some (before ++ [] :: after)) (env_block parent)) =
  Some (env_block ((if extend then parent else []) ++ before)).
Proof. exact env_setup_empty_entry. Qed.
Print Assumptions C18_env_block_empty_entry.

Example C18_env_block_empty_entry_ex :   (* "A=B" "" "C=D"  ->  "A=B" only *)
  snd (env_setup false (Some [[65; 61; 66]; []; [67; 61; 68]]) [0]) = Some [65; 61; 66; 0; 0].
Proof. vm_compute; reflexivity. Qed.

(* ------------------------------------------------------------------------- *)
(** * The unpatched tree (D14) and the limits of the statement *)

(* D14: with `should_escape = false` as the initial value an empty argument vanishes. *)
Theorem C18_D14_refuted : exists argv,
  argv <> [] /\ program_ok (hd [] argv) /\ Forall no_nul argv /\
  win_split (argv_join_D14 argv) <> argv.
Proof. exact D14_refuted. Qed.
Print Assumptions C18_D14_refuted.

(* ... and that is the only thing wrong with it. *)
Theorem C18_D14_only_empty : forall argv,
  Forall (fun a => a <> []) argv -> argv_join_D14 argv = argv_join argv.
Proof. exact D14_only_empty. Qed.
Print Assumptions C18_D14_only_empty.

Example C18_D14_ex :
  argv_join_D14 [[97]; []; [98]] = [97; 32; 32; 98] /\
  win_split (argv_join_D14 [[97]; []; [98]]) = [[97]; [98]] /\
  argv_join [[97]; []; [98]] = [97; 32; 34; 34; 32; 98].
Proof. repeat split; vm_compute; reflexivity. Qed.

(* [program_ok] cannot be weakened to "no quote in argv[0]". *)
Theorem C18_program_trailing_backslash_refuted : exists argv,
  argv <> [] /\ Forall no_nul argv /\ ~ program_ok (hd [] argv) /\
  forallb (fun c => negb (c =? DQ)) (hd [] argv) = true /\
  win_split (argv_join argv) <> argv.
Proof. exact program_trailing_backslash_refuted. Qed.
Print Assumptions C18_program_trailing_backslash_refuted.

Example C18_program_trailing_backslash_ex :   (* argv[0] = a b\  ->  "a b\\"  ->  a b\\ *)
  win_split (argv_join [[97; 32; 98; 92]]) = [[97; 32; 98; 92; 92]].
Proof. vm_compute; reflexivity. Qed.
