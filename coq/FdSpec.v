(* FdSpec.v — C05, descriptors: process_start leaves the caller's descriptor table EXACTLY as it
   found it, on every return path and for EVERY fault plan (each of the two error pipes it creates
   is closed again, whatever fails in between); nothing else in the table is touched. *)
From Verif Require Import Lib WorldSpec WorldSpec2 LibSpec WaitSpec ParentSpec StartSpec StopSpec.
From Coq Require Import Lia.
Local Open Scope Z_scope.

Definition tb (w : world) : gmap Z fdent := pr_fds (curp w).

(* ================= 1. calls that leave the caller's descriptor table alone ================= *)
Definition fpost (w w' : world) : Prop := wf w' /\ w_cur w' = w_cur w /\ tb w' = tb w.
Lemma fpost_refl w : wf w -> fpost w w.
Proof. intros W. split; [exact W|]. split; reflexivity. Qed.
Lemma fpost_trans w1 w2 w3 : fpost w1 w2 -> fpost w2 w3 -> fpost w1 w3.
Proof. intros (W2 & C2 & T2) (W3 & C3 & T3). split; [exact W3|]. split; congruence. Qed.

Definition fc {A} (m : MW A) : Prop :=
  forall w, wf w -> match m w with Ret _ w' => fpost w w' | _ => True end.

Lemma fc_ret {A} (a : A) : fc (ret a).
Proof. intros w W. cbn. apply fpost_refl, W. Qed.
Lemma fc_bind {A B} (m : MW A) (f : A -> MW B) : fc m -> (forall a, fc (f a)) -> fc (bind m f).
Proof.
  intros Hm Hf w W. unfold bind. specialize (Hm w W). destruct (m w) as [a w1|w1|w1|y w1]; auto.
  specialize (Hf a w1 ltac:(apply Hm)). destruct (f a w1); auto. eapply fpost_trans; eassumption.
Qed.
Lemma fc_gets {A} (f : world -> A) : fc (gets f).
Proof. intros w W. cbn. apply fpost_refl, W. Qed.
Lemma fc_get : fc get.
Proof. intros w W. cbn. apply fpost_refl, W. Qed.
Lemma fc_crash {A} y : fc (fun w => Crash (A := A) y w).
Proof. intros w W. exact I. Qed.
Lemma fc_prelude : fc prelude.
Proof.
  intros w W. pose proof (prelude_spec w W) as H.
  destruct (prelude w) as [f w1|w1|w1|y w1]; auto.
  destruct H as (W1 & C1 & P1 & _). split; [exact W1|]. split; [exact C1|]. unfold tb. rewrite P1. reflexivity.
Qed.
Lemma fc_log c args sargs r outs b : fc (log c args sargs r outs b).
Proof. intros w W. cbn. split; [apply wf_with_trace, W|]. split; reflexivity. Qed.
(* an update of the current record that touches neither its kind and state nor its table *)
Definition fmild (f : proc -> proc) : Prop :=
  forall p, pr_kind (f p) = pr_kind p /\ pr_state (f p) = pr_state p /\ pr_fds (f p) = pr_fds p.
Lemma fc_modify_cur f : fmild f -> fc (modify (upd_cur f)).
Proof.
  intros Hf w W. cbn. split; [apply wf_upd_cur; [exact W|intros p; split; apply Hf]|].
  split; [unfold upd_cur; apply cur_upd_proc|]. unfold tb. rewrite curp_upd_cur by exact W. apply Hf.
Qed.
Lemma fc_set_errno e : fc (set_errno e).
Proof. apply fc_modify_cur. intros p. repeat split. Qed.
Lemma fc_get_errno : fc get_errno.
Proof. apply fc_gets. Qed.
Lemma fc_last_lat : fc last_lat.
Proof. apply fc_gets. Qed.
Lemma fc_fail c a s e : fc (fail c a s e).
Proof. unfold fail. apply fc_bind; [apply fc_set_errno|]. intros _. apply fc_bind; [apply fc_log|]. intros _. apply fc_ret. Qed.
Lemma fc_failb c a s e : fc (failb c a s e).
Proof.
  unfold failb. apply fc_bind; [apply fc_last_lat|]. intros l. apply fc_bind; [apply fc_set_errno|]. intros _.
  apply fc_bind; [apply fc_log|]. intros _. apply fc_ret.
Qed.
Lemma fc_done c a s r o : fc (done c a s r o).
Proof. unfold done. apply fc_bind; [apply fc_log|]. intros _. apply fc_ret. Qed.
(* a world update that leaves the process table and the marker alone *)
Lemma fc_modify f : (forall w, w_procs (f w) = w_procs w /\ w_cur (f w) = w_cur w /\ w_next_pid (f w) = w_next_pid w /\ w_trace (f w) = w_trace w
                                 /\ w_next_blk w <= w_next_blk (f w)) -> fc (modify f).
Proof.
  intros H w W. cbn. destruct (H w) as (Hp & Hc & Hn & Ht & Hb).
  split. { destruct W as [Wc Wf]. split; [rewrite Hp, Hc; exact Wc|intros k; rewrite Hp, Hn; apply Wf]. }
  split; [exact Hc|]. unfold tb, curp, get_proc. rewrite Hp, Hc. reflexivity.
Qed.

Ltac fc_step :=
  lazymatch goal with
  | |- fc last_lat => apply fc_last_lat
  | |- fc (bind _ _) => apply fc_bind; [|intros ?]
  | |- fc (ret _) => apply fc_ret
  | |- fc prelude => apply fc_prelude
  | |- fc (fail _ _ _ _) => apply fc_fail
  | |- fc (failb _ _ _ _) => apply fc_failb
  | |- fc (done _ _ _ _ _) => apply fc_done
  | |- fc (log _ _ _ _ _ _) => apply fc_log
  | |- fc (gets _) => apply fc_gets
  | |- fc get => apply fc_get
  | |- fc get_errno => apply fc_get_errno
  | |- fc (set_errno _) => apply fc_set_errno
  | |- fc (modify (upd_cur (pr_with_mask _))) => apply fc_modify_cur; intros ?p; repeat split
  | |- fc (match ?x with _ => _ end) => destruct x
  end.

Lemma fpost_heap w h n : wf w -> w_next_blk w <= n -> fpost w (w_with_heap h n w).
Proof. intros W _. split; [destruct W as [Wc Wf]; split; [exact Wc|exact Wf]|]. split; reflexivity. Qed.
Lemma fpost_block ready tmo w : wf w -> fpost w (blocked_world (block_until ready tmo w)).
Proof.
  intros W. destruct (after_block ready tmo w W) as (W1 & C1 & P1 & _).
  split; [exact W1|]. split; [exact C1|]. unfold tb. rewrite P1. reflexivity.
Qed.
Lemma fpost_reap pid c st b w1 : wf w1 -> pr_state (get_proc c w1) = Zombie st ->
  match (log CWaitpid [pid] [] c [Z.of_N st] b;> ret (c, Z.of_N st)) (upd_proc c (pr_with_state (Reaped st)) w1) with
  | Ret _ w' => fpost w1 w' | _ => True end.
Proof.
  intros W1 Es.
  assert (Hne : c <> w_cur w1).
  { intros ->. destruct W1 as [(q & Hq & _ & Hr) _]. unfold get_proc in Es. rewrite Hq in Es. cbn in Es. congruence. }
  set (w2 := upd_proc c (pr_with_state (Reaped st)) w1).
  assert (P2 : fpost w1 w2).
  { assert (K2 : keeps (w_cur w1) w1 w2) by (apply keeps_upd_proc; exact Hne).
    assert (C2 : w_cur w2 = w_cur w1) by apply cur_upd_proc.
    split; [eapply keeps_wf; [exact W1|exact K2|exact C2]|]. split; [exact C2|].
    unfold tb, curp. rewrite C2, (keeps_get_proc _ _ _ K2). reflexivity. }
  clearbody w2.
  assert (H3 : fc (log CWaitpid [pid] [] c [Z.of_N st] b;> ret (c, Z.of_N st))) by (apply fc_bind; [apply fc_log|intros _; apply fc_ret]).
  specialize (H3 w2 ltac:(apply P2)).
  destruct ((log CWaitpid [pid] [] c [Z.of_N st] b;> ret (c, Z.of_N st)) w2); auto.
  eapply fpost_trans; eassumption.
Qed.
Lemma fc_sys_sigmask how ns : fc (sys_sigmask how ns).
Proof. unfold sys_sigmask. repeat fc_step. Qed.
Lemma fc_signal_mask how ns : fc (signal_mask how ns).
Proof. unfold signal_mask. apply fc_bind; [apply fc_sys_sigmask|]. intros [e old]. apply fc_ret. Qed.

Lemma fc_sys_getfd fd : fc (sys_getfd fd).
Proof. unfold sys_getfd. repeat fc_step. Qed.

Lemma fc_sys_sigfillset : fc sys_sigfillset.
Proof. unfold sys_sigfillset. repeat fc_step. Qed.

Lemma fc_sys_getcwd n : fc (sys_getcwd n).
Proof. unfold sys_getcwd. repeat fc_step. Qed.

Lemma fc_get_environ : fc get_environ.
Proof. apply fc_gets. Qed.

Lemma fc_heap_alloc c args size : fc (heap_alloc c args size).
Proof.
  unfold heap_alloc. apply fc_bind; [apply fc_prelude|]. intros [e|].
  { apply fc_bind; [apply fc_set_errno|]. intros _. apply fc_bind; [apply fc_log|]. intros _. apply fc_ret. }
  intros w W. unfold bind at 1, gets. cbv beta iota.
  set (f := fun w0 : world => if in_main w0 then w_with_heap (<[w_next_blk w := (true, size)]> (w_heap w0)) (w_next_blk w + 1) w0
                              else w_with_heap (w_heap w0) (w_next_blk w + 1) w0).
  assert (P1 : fpost w (f w)) by (unfold f; destruct (in_main w); apply fpost_heap; try exact W; lia).
  assert (H2 : fc (log c args [] (w_next_blk w) [] 0;> ret (w_next_blk w))) by (apply fc_bind; [apply fc_log|intros _; apply fc_ret]).
  specialize (H2 (f w) ltac:(apply P1)).
  change ((modify f;> log c args [] (w_next_blk w) [] 0;> ret (w_next_blk w)) w) with ((log c args [] (w_next_blk w) [] 0;> ret (w_next_blk w)) (f w)).
  destruct ((log c args [] (w_next_blk w) [] 0;> ret (w_next_blk w)) (f w)); auto.
  all: try exact (fpost_trans _ _ _ P1 H2).
Qed.

Lemma fc_sys_free id : fc (sys_free id).
Proof.
  unfold sys_free. apply fc_bind; [apply fc_prelude|]. intros _. destruct (id =? 0); [apply fc_log|].
  apply fc_bind; [apply fc_get|]. intros w0.
  destruct (negb (in_main w0)); [apply fc_log|]. destruct (heap_live id w0); [|apply fc_log].
  apply fc_bind; [|intros _; apply fc_log]. apply fc_modify. mod_ok.
Qed.

Lemma fc_sys_realloc id n : fc (sys_realloc id n).
Proof.
  unfold sys_realloc. apply fc_bind; [apply fc_prelude|]. intros [e|].
  { apply fc_bind; [apply fc_set_errno|]. intros _. apply fc_bind; [apply fc_log|]. intros _. apply fc_ret. }
  intros w W. unfold bind at 1, get. cbv beta iota.
  assert (HL : forall r (x : Z), fc (log CRealloc [id; n] [] r [] 0;> ret x)) by (intros; apply fc_bind; [apply fc_log|intros _; apply fc_ret]).
  destruct (negb (in_main w)).
  { assert (P1 : fpost w (w_with_heap (w_heap w) (w_next_blk w + 1) w)) by (apply fpost_heap; [exact W|lia]).
    pose proof (HL (w_next_blk w) (w_next_blk w) _ ltac:(apply P1)) as H2.
    change ((modify (fun w0 : world => w_with_heap (w_heap w0) (w_next_blk w0 + 1) w0);> log CRealloc [id; n] [] (w_next_blk w) [] 0;> ret (w_next_blk w)) w)
      with ((log CRealloc [id; n] [] (w_next_blk w) [] 0;> ret (w_next_blk w)) (w_with_heap (w_heap w) (w_next_blk w + 1) w)).
    destruct ((log CRealloc [id; n] [] (w_next_blk w) [] 0;> ret (w_next_blk w)) (w_with_heap (w_heap w) (w_next_blk w + 1) w)); auto.
    all: try exact (fpost_trans _ _ _ P1 H2). }
  destruct ((id =? 0) || heap_live id w); [|apply HL, W].
  cbv zeta.
  set (h := <[w_next_blk w := (true, n)]> (if id =? 0 then w_heap w else <[id := (false, 0)]> (w_heap w))).
  assert (P1 : fpost w (w_with_heap h (w_next_blk w + 1) w)) by (apply fpost_heap; [exact W|lia]).
  pose proof (HL (w_next_blk w) (w_next_blk w) _ ltac:(apply P1)) as H2.
  change ((modify (fun w0 : world => w_with_heap (<[w_next_blk w := (true, n)]> (if id =? 0 then w_heap w0 else <[id := (false, 0)]> (w_heap w0))) (w_next_blk w + 1) w0);>
           log CRealloc [id; n] [] (w_next_blk w) [] 0;> ret (w_next_blk w)) w)
    with ((log CRealloc [id; n] [] (w_next_blk w) [] 0;> ret (w_next_blk w)) (w_with_heap h (w_next_blk w + 1) w)).
  destruct ((log CRealloc [id; n] [] (w_next_blk w) [] 0;> ret (w_next_blk w)) (w_with_heap h (w_next_blk w + 1) w)); auto.
  all: try exact (fpost_trans _ _ _ P1 H2).
Qed.

Lemma fc_sys_read fd n : fc (sys_read fd n).
Proof.
  unfold sys_read. apply fc_bind; [apply fc_prelude|]. intros [e|].
  { apply fc_bind; [apply fc_failb|]. intros _. apply fc_ret. }
  apply fc_bind; [apply fc_gets|]. intros t. destruct (t !! fd) as [d|].
  2:{ apply fc_bind; [apply fc_fail|]. intros _. apply fc_ret. }
  destruct (f_obj d) as [q|q|a|pa a|id a];
    try (apply fc_bind; [first [apply fc_fail|apply fc_done]|]; intros _; apply fc_ret).
  destruct (n <=? 0). { apply fc_bind; [apply fc_done|]. intros _. apply fc_ret. }
  apply fc_bind; [apply fc_get|]. intros w0.
  destruct (negb (pipe_readable q w0) && f_nonblock d). { apply fc_bind; [apply fc_fail|]. intros _. apply fc_ret. }
  intros w W. pose proof (fpost_block (pipe_readable q) (-1) w W) as PB.
  destruct (block_until (pipe_readable q) (-1) w) as [w1|w1|w1|w1]; cbn [blocked_world] in PB; auto.
  destruct (pipe_take n (get_pipe q w1)) as [rs pp].
  assert (P2 : fpost w1 (set_pipe q pp w1)).
  { pose proof (fc_modify (set_pipe q pp) ltac:(mod_ok) w1 ltac:(apply PB)) as H2. exact H2. }
  assert (H3 : fc (log CRead [fd; n] [] (runs_len rs) [] (w_time w1 - w_time w);> ret (runs_len rs, rs))).
  { apply fc_bind; [apply fc_log|]. intros _. apply fc_ret. }
  specialize (H3 (set_pipe q pp w1) ltac:(apply P2)).
  destruct ((log CRead [fd; n] [] (runs_len rs) [] (w_time w1 - w_time w);> ret (runs_len rs, rs)) (set_pipe q pp w1)); auto.
  all: try exact (fpost_trans _ _ _ PB (fpost_trans _ _ _ P2 H3)).
Qed.

Lemma fc_sys_waitpid pid : fc (sys_waitpid pid).
Proof.
  unfold sys_waitpid. apply fc_bind; [apply fc_prelude|]. intros [e|].
  { apply fc_bind; [apply fc_failb|]. intros _. apply fc_ret. }
  assert (HF : fc (fail CWaitpid [pid] [] ECHILD;> ret (-1, 0))) by (apply fc_bind; [apply fc_fail|intros _; apply fc_ret]).
  intros w W. destruct (0 <? pid).
  - destruct (w_procs w !! pid) as [p|] eqn:Ep; [|apply HF, W].
    destruct (is_child_of (w_cur w) p); [|apply HF, W].
    set (ready := fun w1 : world => match pr_state (get_proc pid w1) with Running => false | _ => true end).
    pose proof (fpost_block ready (-1) w W) as PB.
    destruct (block_until ready (-1) w) as [w1|w1|w1|w1]; cbn [blocked_world] in PB; auto.
    destruct (pr_state (get_proc pid w1)) as [|st|st] eqn:Es; auto.
    pose proof (fpost_reap pid pid st (w_time w1 - w_time w) w1 ltac:(apply PB) Es) as H4.
    destruct ((log CWaitpid [pid] [] pid [Z.of_N st] (w_time w1 - w_time w);> ret (pid, Z.of_N st)) (upd_proc pid (pr_with_state (Reaped st)) w1)); auto.
    all: try exact (fpost_trans _ _ _ PB H4).
  - destruct (negb (has_children (w_cur w) w)); [apply HF, W|].
    set (ready := fun w1 : world => match zombie_children (w_cur w) w1 with [] => false | _ => true end).
    pose proof (fpost_block ready (-1) w W) as PB.
    destruct (block_until ready (-1) w) as [w1|w1|w1|w1]; cbn [blocked_world] in PB; auto.
    destruct (zombie_children (w_cur w) w1) as [|[c st] rest] eqn:Ez; auto.
    assert (Es : pr_state (get_proc c w1) = Zombie st).
    { apply (zombie_children_state (w_cur w)). rewrite Ez. left. reflexivity. }
    pose proof (fpost_reap pid c st (w_time w1 - w_time w) w1 ltac:(apply PB) Es) as H4.
    destruct ((log CWaitpid [pid] [] c [Z.of_N st] (w_time w1 - w_time w);> ret (c, Z.of_N st)) (upd_proc c (pr_with_state (Reaped st)) w1)); auto.
    all: try exact (fpost_trans _ _ _ PB H4).
Qed.

Lemma fc_mapM_ {A} (f : A -> MW unit) l : (forall a, fc (f a)) -> fc (mapM_ f l).
Proof. intros Hf. induction l as [|x l IH]; cbn [mapM_]; [apply fc_ret|]. apply fc_bind; [apply Hf|]. intros _. exact IH. Qed.

Lemma fc_strv_free l : fc (strv_free l).
Proof.
  unfold strv_free. destruct l as [[arr ss]|]; [|apply fc_sys_free].
  apply fc_bind; [apply fc_mapM_; intros a; apply fc_sys_free|]. intros _. apply fc_sys_free.
Qed.

Lemma fc_dup_all l : forall acc, fc (dup_all l acc).
Proof.
  induction l as [|s r IH]; intros acc; cbn [dup_all]; [apply fc_ret|].
  apply fc_bind; [apply fc_heap_alloc|]. intros b. destruct (b =? 0); [|apply IH].
  apply fc_bind; [apply fc_mapM_; intros a; apply fc_sys_free|]. intros _. apply fc_ret.
Qed.

Lemma fc_strv_concat a b : fc (strv_concat a b).
Proof.
  unfold strv_concat. cbn zeta. apply fc_bind; [apply fc_heap_alloc|]. intros arr.
  destruct (arr =? 0). { apply fc_bind; [apply fc_sys_free|]. intros _. apply fc_ret. }
  apply fc_bind; [apply fc_dup_all|]. intros [l|]; [apply fc_ret|].
  apply fc_bind; [apply fc_sys_free|]. intros _. apply fc_ret.
Qed.

Lemma fc_prepend_loop fuel : forall blk cs ps, fc (prepend_loop fuel blk cs ps).
Proof.
  induction fuel as [|f IH]; intros blk cs ps; cbn [prepend_loop]; [apply fc_crash|].
  apply fc_bind; [apply fc_sys_getcwd|]. intros [r cwd]. destruct (r =? 0); [apply fc_ret|].
  apply fc_bind; [apply fc_get_errno|]. intros e.
  destruct (negb (e =? ERANGE)). { apply fc_bind; [apply fc_sys_free|]. intros _. apply fc_ret. }
  cbn zeta. apply fc_bind; [apply fc_sys_realloc|]. intros nb.
  destruct (nb =? 0); [|apply IH]. apply fc_bind; [apply fc_sys_free|]. intros _. apply fc_ret.
Qed.

Lemma fc_path_prepend_cwd path : fc (path_prepend_cwd path).
Proof.
  unfold path_prepend_cwd. cbn zeta. apply fc_bind; [apply fc_heap_alloc|]. intros blk.
  destruct (blk =? 0); [apply fc_ret|]. apply fc_bind; [apply fc_gets|]. intros cl.
  apply fc_bind; [apply fc_prepend_loop|]. intros [[b cwd]|]; apply fc_ret.
Qed.

Lemma fc_read_retry fuel fd : fc (read_retry fuel fd).
Proof.
  induction fuel as [|f IH]; cbn [read_retry]; [apply fc_crash|].
  apply fc_bind; [apply fc_sys_read|]. intros [q rs]. destruct (q <? 0); [|apply fc_ret].
  apply fc_bind; [apply fc_get_errno|]. intros e. destruct (e =? EINTR); [exact IH|apply fc_ret].
Qed.

Lemma fc_read_errpipe fd : fc (read_errpipe fd).
Proof. unfold read_errpipe. apply fc_bind; [apply fc_gets|]. intros nf. apply fc_read_retry. Qed.
Lemma fc_waitpid_retry fuel pid : fc (waitpid_retry fuel pid).
Proof.
  induction fuel as [|f IH]; cbn [waitpid_retry]; [apply fc_crash|].
  apply fc_bind; [apply fc_sys_waitpid|]. intros [r st]. destruct (r <? 0); [|apply fc_ret].
  apply fc_bind; [apply fc_get_errno|]. intros e. destruct (e =? EINTR); [exact IH|apply fc_ret].
Qed.
Lemma fc_waitpid_child pid : fc (waitpid_child pid).
Proof. unfold waitpid_child. apply fc_bind; [apply fc_gets|]. intros nf. apply fc_waitpid_retry. Qed.

Lemma fc_sys_getfl fd : fc (sys_getfl fd).
Proof. unfold sys_getfl. repeat fc_step. Qed.

Lemma fc_sys_fileno f : fc (sys_fileno f).
Proof. unfold sys_fileno. repeat fc_step. Qed.

Lemma fc_sys_clock : fc sys_clock.
Proof. unfold sys_clock. repeat fc_step. Qed.

(* ================= 2. fork: the parent's table is what it was ================= *)
Lemma sys_fork_fds child w r w' : wf w -> 0 <= w_cur w -> kp (w_cur w) child ->
  sys_fork child w = Ret r w' -> fpost w w' /\ (r = -1 \/ w_cur w < r).
Proof.
  intros W Hpos Hk E. unfold sys_fork in E.
  apply bind_inv in E as (par & wa & Eg & E). apply gets_inv in Eg as [-> ->].
  apply bind_inv in E as (c & w1 & Epre & E).
  apply fork_pre_inv in Epre as (f & w0 & Ep & Epre).
  pose proof (fc_prelude w W) as Hp. rewrite Ep in Hp.
  destruct f as [e|].
  - destruct (fail_val CFork [] [] (Z.pos e) w0 ltac:(apply Hp)) as (w1' & Ef & Ee).
    rewrite Ef in Epre. injection Epre as <- <-.
    pose proof (fc_fail CFork [] [] (Z.pos e) w0 ltac:(apply Hp)) as Hf. rewrite Ef in Hf.
    change (-1 <? 0) with true in E. cbv iota in E. apply ret_inv in E as [-> ->].
    split; [eapply fpost_trans; eassumption|left; reflexivity].
  - destruct Epre as [-> ->]. destruct Hp as (W0 & C0 & T0).
    assert (Hc : w_cur w0 < w_next_pid w0). { destruct W0 as [(q & Hq & _) Hf]. apply Hf. rewrite Hq. eauto. }
    destruct (Z.ltb_spec (w_next_pid w0) 0); [lia|]. cbv beta in E.
    set (wc := w_with_trace _ (fork_child_world w0)) in E.
    assert (Kc : keeps (w_cur w0) w0 wc).
    { unfold keeps, wc, fork_child_world. cbn [w_procs w_next_pid w_with_trace w_with_cur w_with_next_pid w_with_procs].
      split; [rewrite lookup_insert_ne by lia; reflexivity|]. split; [lia|].
      intros j Hj. destruct (decide (j = w_next_pid w0)) as [->|Hn]; [right; lia|].
      rewrite lookup_insert_ne in Hj by congruence. left; exact Hj. }
    assert (Cc : w_cur wc = w_next_pid w0) by reflexivity.
    assert (Lc : lib_at (w_cur w0) wc) by (eapply lib_at_keeps; [apply wf_lib_at, W0|exact Kc]).
    rewrite <- C0 in Hk.
    pose proof (Hk wc ltac:(rewrite Cc; lia) Lc) as (K3 & C3 & B3 & l3 & T3).
    destruct (child wc) as [a w3|w3|w3|y w3]; try discriminate. cbn [oworld] in *.
    unfold fork_post in E. rewrite run_log_ret in E. injection E as <- <-.
    set (w4 := w_with_cur (w_cur w) w3).
    assert (K4 : keeps (w_cur w0) w0 w4).
    { eapply keeps_trans; [exact Kc|]. eapply keeps_trans; [exact K3|]. apply keeps_same_procs; reflexivity. }
    assert (C4 : w_cur w4 = w_cur w0) by (cbn; congruence).
    assert (W4 : wf w4) by (eapply keeps_wf; eassumption).
    split; [|right; rewrite <- C0; exact Hc].
    eapply fpost_trans; [split; [exact W0|split; [exact C0|exact T0]]|].
    split; [apply wf_with_trace, W4|]. split; [exact C4|].
    unfold tb. change (curp (w_with_trace ?t ?x)) with (curp x). unfold curp. rewrite C4, (keeps_get_proc _ _ _ K4). reflexivity.
Qed.

(* ================= 3. the calls that do change the table ================= *)
Lemma lowest_free_from_ge t : forall fuel i, i <= lowest_free_from t i fuel.
Proof.
  induction fuel as [|f IH]; intros i; cbn [lowest_free_from]; [lia|].
  destruct (t !! i); [|lia]. specialize (IH (i + 1)). lia.
Qed.
Lemma lowest_free_from_free {A} (t : gmap Z fdent) : forall fuel i (s : gmap Z A),
  (forall k, i <= k -> is_Some (t !! k) -> is_Some (s !! k)) -> (size s <= fuel)%nat ->
  t !! lowest_free_from t i fuel = None.
Proof.
  induction fuel as [|f IH]; intros i s Hs Hn; cbn [lowest_free_from].
  - destruct (t !! i) as [d|] eqn:E; [|reflexivity].
    assert (s = ∅) by (apply map_size_empty_inv; lia). subst s.
    destruct (Hs i ltac:(lia) ltac:(rewrite E; eauto)) as [x Hx]. rewrite lookup_empty in Hx. discriminate.
  - destruct (t !! i) as [d|] eqn:E; [|exact E].
    apply (IH (i + 1) (delete i s)).
    + intros k Hk Hk2. rewrite lookup_delete_ne by lia. apply Hs; [lia|exact Hk2].
    + rewrite map_size_delete_Some by (apply Hs; [lia|rewrite E; eauto]). lia.
Qed.
Lemma fd_alloc_free t lim a : fd_alloc t lim = Some a -> t !! a = None /\ 0 <= a.
Proof.
  unfold fd_alloc, lowest_free. cbv zeta. destruct ((lim <? 0) || _); [|discriminate]. intros H. injection H as <-.
  split; [apply (lowest_free_from_free t (size t) 0 t); [auto|lia]|apply lowest_free_from_ge].
Qed.

Lemma set_fds_spec t w u w' : wf w -> set_cur_fds t w = Ret u w' -> wf w' /\ w_cur w' = w_cur w /\ tb w' = t.
Proof.
  intros W E. unfold set_cur_fds, modify in E. injection E as _ <-.
  split; [apply wf_upd_cur; [exact W|intros p; split; reflexivity]|].
  split; [unfold upd_cur; apply cur_upd_proc|]. unfold tb. rewrite curp_upd_cur by exact W. reflexivity.
Qed.
Lemma fc_run {A} (m : MW A) w a w' : fc m -> wf w -> m w = Ret a w' -> fpost w w'.
Proof. intros H W E. specialize (H w W). rewrite E in H. exact H. Qed.

(* close always releases the slot, even when it reports an error *)
Lemma sys_close_tb fd w r w' : wf w -> sys_close fd w = Ret r w' ->
  wf w' /\ w_cur w' = w_cur w /\ tb w' = delete fd (tb w).
Proof.
  intros W E. unfold sys_close in E.
  apply bind_inv in E as (f & w0 & Ep & E). pose proof (fc_run _ _ _ _ fc_prelude W Ep) as (W0 & C0 & T0).
  apply bind_inv in E as (t & w0' & Eg & E). apply gets_inv in Eg as [-> ->].
  change (cur_fds w0) with (tb w0) in E.
  destruct (tb w0 !! fd) as [d|] eqn:Ed.
  - apply bind_inv in E as (u & w1 & E1 & E). destruct (set_fds_spec _ _ _ _ W0 E1) as (W1 & C1 & T1).
    assert (F : fpost w1 w') by (destruct f; [exact (fc_run _ _ _ _ (fc_fail _ _ _ _) W1 E)|exact (fc_run _ _ _ _ (fc_done _ _ _ _ _) W1 E)]).
    destruct F as (W' & C' & T'). split; [exact W'|]. split; [congruence|]. rewrite T', T1, T0. reflexivity.
  - destruct (fc_run _ _ _ _ (fc_fail _ _ _ _) W0 E) as (W' & C' & T'). split; [exact W'|]. split; [congruence|].
    rewrite T', <- T0. symmetry. apply delete_notin. exact Ed.
Qed.
(* F_SETFD changes the flags of one open descriptor, or nothing *)
Lemma sys_setfd_tb fd v w r w' : wf w -> sys_setfd fd v w = Ret r w' ->
  wf w' /\ w_cur w' = w_cur w /\ (forall k, k <> fd -> tb w' !! k = tb w !! k) /\ (is_Some (tb w !! fd) -> is_Some (tb w' !! fd))
  /\ (tb w !! fd = None -> tb w' !! fd = None).
Proof.
  intros W E. unfold sys_setfd in E.
  apply bind_inv in E as (f & w0 & Ep & E). pose proof (fc_run _ _ _ _ fc_prelude W Ep) as (W0 & C0 & T0).
  assert (Same : fpost w0 w' -> wf w' /\ w_cur w' = w_cur w /\ (forall k, k <> fd -> tb w' !! k = tb w !! k) /\ (is_Some (tb w !! fd) -> is_Some (tb w' !! fd))
     /\ (tb w !! fd = None -> tb w' !! fd = None)).
  { intros (W' & C' & T'). split; [exact W'|]. split; [congruence|]. rewrite T', T0. auto. }
  destruct f as [e|]; [apply Same; exact (fc_run _ _ _ _ (fc_fail _ _ _ _) W0 E)|].
  apply bind_inv in E as (t & w0' & Eg & E). apply gets_inv in Eg as [-> ->].
  change (cur_fds w0) with (tb w0) in E.
  destruct (tb w0 !! fd) as [d|] eqn:Ed; [|apply Same; exact (fc_run _ _ _ _ (fc_fail _ _ _ _) W0 E)].
  apply bind_inv in E as (u & w1 & E1 & E). destruct (set_fds_spec _ _ _ _ W0 E1) as (W1 & C1 & T1).
  destruct (fc_run _ _ _ _ (fc_done _ _ _ _ _) W1 E) as (W' & C' & T').
  split; [exact W'|]. split; [congruence|]. rewrite T', T1, <- T0.
  split; [intros k Hk; apply lookup_insert_ne; congruence|]. split; [intros _; rewrite lookup_insert; eauto|].
  intros X. rewrite X in Ed. discriminate.
Qed.
(* pipe: nothing, or two fresh slots *)
Lemma sys_pipe_tb w r a b w' : wf w -> sys_pipe w = Ret (r, a, b) w' ->
  wf w' /\ w_cur w' = w_cur w /\
  ((r < 0 /\ a = -1 /\ b = -1 /\ tb w' = tb w) \/
   (r = 0 /\ tb w !! a = None /\ tb w !! b = None /\ a <> b /\ 0 <= a /\ 0 <= b /\
    exists da db, tb w' = <[b := db]> (<[a := da]> (tb w)))).
Proof.
  intros W E. unfold sys_pipe in E.
  apply bind_inv in E as (f & w0 & Ep & E). pose proof (fc_run _ _ _ _ fc_prelude W Ep) as (W0 & C0 & T0).
  assert (Fail : forall e, (fail CPipe [] [] e;> ret (-1, -1, -1)) w0 = Ret (r, a, b) w' ->
    wf w' /\ w_cur w' = w_cur w /\ ((r < 0 /\ a = -1 /\ b = -1 /\ tb w' = tb w) \/
     (r = 0 /\ tb w !! a = None /\ tb w !! b = None /\ a <> b /\ 0 <= a /\ 0 <= b /\ exists da db, tb w' = <[b := db]> (<[a := da]> (tb w))))).
  { intros e E'. apply bind_inv in E' as (x & w1 & E1 & E'). apply ret_inv in E' as [E' ->]. injection E' as -> -> ->.
    destruct (fc_run _ _ _ _ (fc_fail _ _ _ _) W0 E1) as (W' & C' & T'). split; [exact W'|]. split; [congruence|].
    left. repeat split; try lia. congruence. }
  destruct f as [e|]; [exact (Fail _ E)|].
  apply bind_inv in E as (wg & w0' & Eg & E). apply get_inv in Eg as [-> ->]. cbv zeta in E.
  change (pr_fds (curp w0)) with (tb w0) in E.
  destruct (fd_alloc (tb w0) _) as [a0|] eqn:Ea; [|exact (Fail _ E)].
  destruct (fd_alloc (<[a0 := _]> (tb w0)) _) as [b0|] eqn:Eb; [|exact (Fail _ E)].
  destruct (fd_alloc_free _ _ _ Ea) as [Fa Pa]. destruct (fd_alloc_free _ _ _ Eb) as [Fb Pb].
  apply bind_inv in E as (u1 & w1 & E1 & E).
  assert (F1 : fpost w0 w1).
  { refine (fc_run _ _ _ _ (fc_modify _ _) W0 E1). intros ?w; repeat split; cbn; lia. }
  destruct F1 as (W1 & C1 & T1).
  apply bind_inv in E as (u2 & w2 & E2 & E). destruct (set_fds_spec _ _ _ _ W1 E2) as (W2 & C2 & T2).
  apply bind_inv in E as (x & w3 & E3 & E). apply ret_inv in E as [E ->]. injection E as -> -> ->.
  destruct (fc_run _ _ _ _ (fc_done _ _ _ _ _) W2 E3) as (W' & C' & T').
  split; [exact W'|]. split; [congruence|]. right. rewrite <- T0.
  assert (Hne : a0 <> b0). { intros ->. rewrite lookup_insert in Fb. discriminate. }
  split; [reflexivity|].
  split; [exact Fa|]. split; [rewrite lookup_insert_ne in Fb by exact Hne; exact Fb|]. split; [exact Hne|]. split; [exact Pa|]. split; [exact Pb|].
  eexists _, _. rewrite T', T2. reflexivity.
Qed.

(* ================= 4. ownership: the descriptors the call has opened and not yet closed ================= *)
Definition drop (h : Z) (l : list Z) : list Z := filter (fun x => negb (x =? h)) l.
Lemma In_drop x h l : In x (drop h l) <-> In x l /\ x <> h.
Proof. unfold drop. rewrite filter_In. destruct (Z.eqb_spec x h); cbn; intuition congruence. Qed.

(* [T]: the table at entry; [own]: opened since and still open; [c]: the caller *)
Definition fq (T : gmap Z fdent) (own : list Z) (c : Z) (w : world) : Prop :=
  wf w /\ w_cur w = c /\
  (forall fd, ~ In fd own -> tb w !! fd = T !! fd) /\
  (forall fd, In fd own -> T !! fd = None /\ is_Some (tb w !! fd) /\ fd <> HANDLE_INVALID).

Lemma fq_fpost T own c w w' : fq T own c w -> fpost w w' -> fq T own c w'.
Proof.
  intros (W & C & Hn & Ho) (W' & C' & T'). split; [exact W'|]. split; [congruence|]. rewrite T'. split; assumption.
Qed.
Lemma fq_same T own own' c w : fq T own c w -> (forall x, In x own' <-> In x own) -> fq T own' c w.
Proof.
  intros (W & C & Hn & Ho) H. split; [exact W|]. split; [exact C|].
  split; [intros fd Hfd; apply Hn; rewrite <- H; exact Hfd|intros fd Hfd; apply Ho; rewrite <- H; exact Hfd].
Qed.
Lemma F_neutral {A} (m : MW A) T own c w a w' : fc m -> fq T own c w -> m w = Ret a w' -> fq T own c w'.
Proof. intros Hm Hq E. eapply fq_fpost; [exact Hq|]. exact (fc_run _ _ _ _ Hm ltac:(apply Hq) E). Qed.

Lemma F_close T own c h w r w' : fq T own c w -> In h own -> sys_close h w = Ret r w' -> fq T (drop h own) c w'.
Proof.
  intros (W & C & Hn & Ho) Hin E. destruct (sys_close_tb _ _ _ _ W E) as (W' & C' & T').
  split; [exact W'|]. split; [congruence|]. rewrite T'. split.
  - intros fd Hfd. destruct (Z.eq_dec fd h) as [->|Hne].
    + rewrite lookup_delete. symmetry. apply Ho, Hin.
    + rewrite lookup_delete_ne by congruence. apply Hn. intros X. apply Hfd. apply In_drop. auto.
  - intros fd Hfd. apply In_drop in Hfd as [Hfd Hne]. rewrite lookup_delete_ne by congruence. apply Ho, Hfd.
Qed.
Lemma F_destroy T own c h w u w' : fq T own c w -> h = HANDLE_INVALID \/ In h own -> pipe_destroy h w = Ret u w' ->
  u = HANDLE_INVALID /\ fq T (drop h own) c w'.
Proof.
  intros Hq Hh E. unfold pipe_destroy, handle_destroy in E.
  destruct (Z.eqb_spec h HANDLE_INVALID) as [->|Hne].
  - apply ret_inv in E as [-> ->]. split; [reflexivity|]. eapply fq_same; [exact Hq|].
    intros x. rewrite In_drop. split; [tauto|]. intros Hx. split; [exact Hx|]. destruct Hq as (_ & _ & _ & Ho). apply Ho, Hx.
  - destruct Hh as [Hh|Hh]; [contradiction|].
    apply bind_inv in E as (r & w1 & E1 & E). apply ret_inv in E as [-> ->]. split; [reflexivity|].
    eapply F_close; eassumption.
Qed.
Lemma F_cloexec T own c h en w r w' : fq T own c w -> In h own -> handle_cloexec h en w = Ret r w' -> fq T own c w'.
Proof.
  intros Hq Hin E. unfold handle_cloexec in E.
  apply bind_inv in E as (r1 & w1 & E1 & E). pose proof (F_neutral _ _ _ _ _ _ _ (fc_sys_getfd _) Hq E1) as H1.
  destruct (r1 <? 0).
  { apply bind_inv in E as (e & w1' & Eg & E). apply gets_inv in Eg as [-> ->]. apply ret_inv in E as [_ ->]. exact H1. }
  cbv zeta in E. apply bind_inv in E as (r2 & w2 & E2 & E).
  assert (H2 : fq T own c w2).
  { destruct H1 as (W1 & C1 & Hn & Ho). destruct (sys_setfd_tb _ _ _ _ _ W1 E2) as (W2 & C2 & Hk & Hs & _).
    split; [exact W2|]. split; [congruence|]. split.
    - intros fd Hfd. rewrite Hk; [apply Hn, Hfd|]. intros ->. contradiction.
    - intros fd Hfd. destruct (Ho fd Hfd) as (A1 & A2 & A3). split; [exact A1|]. split; [|exact A3].
      destruct (Z.eq_dec fd h) as [->|Hne]; [apply Hs, A2|rewrite Hk by exact Hne; exact A2]. }
  destruct (r2 <? 0).
  { apply bind_inv in E as (e & w2' & Eg & E). apply gets_inv in Eg as [-> ->]. apply ret_inv in E as [_ ->]. exact H2. }
  apply ret_inv in E as [_ ->]. exact H2.
Qed.

(* pipe_init: both ends, owned and fresh — or nothing *)
Lemma F_pipe_init T own c w r pp w' : fq T own c w -> pipe_init w = Ret (r, pp) w' ->
  match pp with
  | Some (a, b) => fq T (a :: b :: own) c w' /\ ~ In a own /\ ~ In b own /\ a <> b
  | None => fq T own c w'
  end.
Proof.
  intros Hq E. unfold pipe_init in E.
  apply bind_inv in E as ([[r0 a] b] & w1 & E1 & E). cbv beta iota in E.
  destruct Hq as (W & C & Hn & Ho).
  destruct (sys_pipe_tb _ _ _ _ _ W E1) as (W1 & C1 & [(Hr & -> & -> & T1)|(-> & Fa & Fb & Hab & Pa & Pb & da & db & T1)]).
  - assert (H1 : fq T own c w1) by (split; [exact W1|]; split; [congruence|]; rewrite T1; split; assumption).
    destruct (Z.ltb_spec r0 0); [|lia].
    apply bind_inv in E as (e & w1' & Eg & E). apply gets_inv in Eg as [-> ->].
    apply bind_inv in E as (u2 & w2 & E2 & E). destruct (F_destroy _ _ _ _ _ _ _ H1 (or_introl eq_refl) E2) as [_ H2].
    apply bind_inv in E as (u3 & w3 & E3 & E). destruct (F_destroy _ _ _ _ _ _ _ H2 (or_introl eq_refl) E3) as [_ H3].
    apply ret_inv in E as [E ->]. injection E as _ ->.
    eapply fq_same; [exact H3|]. intros x. rewrite !In_drop. split; [|tauto]. intros Hx. repeat split; try exact Hx; apply Ho, Hx.
  - change (0 <? 0) with false in E. cbv iota in E.
    assert (Na : ~ In a own). { intros X. destruct (Ho a X) as (_ & [d Hd] & _). congruence. }
    assert (Nb : ~ In b own). { intros X. destruct (Ho b X) as (_ & [d Hd] & _). congruence. }
    assert (H1 : fq T (a :: b :: own) c w1).
    { split; [exact W1|]. split; [congruence|]. rewrite T1. split.
      - intros fd Hfd. cbn [In] in Hfd. rewrite !lookup_insert_ne by (intros ->; tauto). apply Hn. tauto.
      - intros fd [<-|[<-|Hfd]].
        + split; [rewrite <- (Hn a Na); exact Fa|]. split; [rewrite lookup_insert_ne by congruence; rewrite lookup_insert; eauto|unfold HANDLE_INVALID; lia].
        + split; [rewrite <- (Hn b Nb); exact Fb|]. split; [rewrite lookup_insert; eauto|unfold HANDLE_INVALID; lia].
        + destruct (Ho fd Hfd) as (A1 & A2 & A3). split; [exact A1|]. split; [|exact A3].
          rewrite !lookup_insert_ne by (intros ->; contradiction). exact A2. }
    assert (Back : forall w2 w3 u2 u3, fq T (a :: b :: own) c w2 -> pipe_destroy a w2 = Ret u2 w3 -> forall w4, pipe_destroy b w3 = Ret u3 w4 -> fq T own c w4).
    { intros w2 w3 u2 u3 H2 D1 w4 D2.
      destruct (F_destroy _ _ _ _ _ _ _ H2 (or_intror (or_introl eq_refl)) D1) as [_ H3].
      assert (Hb3 : In b (drop a (a :: b :: own))) by (apply In_drop; split; [right; left; reflexivity|congruence]).
      destruct (F_destroy _ _ _ _ _ _ _ H3 (or_intror Hb3) D2) as [_ H4].
      eapply fq_same; [exact H4|]. intros x. rewrite !In_drop. cbn [In]. split; [|intuition congruence].
      intros Hx. repeat split; [tauto|intros ->; contradiction|intros ->; contradiction]. }
    apply bind_inv in E as (r1 & w2 & E2 & E).
    pose proof (F_cloexec _ _ _ _ _ _ _ _ H1 (or_introl eq_refl) E2) as H2.
    destruct (r1 <? 0).
    { apply bind_inv in E as (u3 & w3 & E3 & E). apply bind_inv in E as (u4 & w4 & E4 & E).
      apply ret_inv in E as [E ->]. injection E as _ ->. exact (Back _ _ _ _ H2 E3 _ E4). }
    apply bind_inv in E as (r2 & w3 & E3 & E).
    pose proof (F_cloexec _ _ _ _ _ _ _ _ H2 (or_intror (or_introl eq_refl)) E3) as H3.
    destruct (r2 <? 0).
    { apply bind_inv in E as (u4 & w4 & E4 & E). apply bind_inv in E as (u5 & w5 & E5 & E).
      apply ret_inv in E as [E ->]. injection E as _ ->. exact (Back _ _ _ _ H3 E4 _ E5). }
    apply bind_inv in E as (u4 & w4 & E4 & E). destruct (F_destroy _ _ _ _ _ _ _ H3 (or_introl eq_refl) E4) as [_ H4].
    apply bind_inv in E as (u5 & w5 & E5 & E). destruct (F_destroy _ _ _ _ _ _ _ H4 (or_introl eq_refl) E5) as [_ H5].
    apply ret_inv in E as [E ->]. injection E as _ ->.
    split; [|auto]. eapply fq_same; [exact H5|]. intros x. rewrite !In_drop. split; [|tauto].
    intros Hx. repeat split; try exact Hx; destruct H1 as (_ & _ & _ & Ho1); apply Ho1, Hx.
Qed.

(* ================= 5. process_fork and process_start ================= *)
Lemma drop2 a b own x : ~ In a own -> ~ In b own -> (In x own <-> In x (drop b (drop a (a :: b :: own)))).
Proof.
  intros Na Nb. rewrite !In_drop. cbn [In]. split; [|intuition congruence].
  intros Hx. repeat split; [tauto|intros ->; contradiction|intros ->; contradiction].
Qed.
Lemma drop2' a b own x : ~ In a own -> ~ In b own -> (In x own <-> In x (drop a (drop b (a :: b :: own)))).
Proof.
  intros Na Nb. rewrite !In_drop. cbn [In]. split; [|intuition congruence].
  intros Hx. repeat split; [tauto|intros ->; contradiction|intros ->; contradiction].
Qed.

Lemma F_process_fork T own c except ck w r w' :
  fq T own c w -> 0 <= c -> kp c ck -> process_fork except ck w = Ret r w' -> fq T own c w' /\ (r < 0 \/ c < r).
Proof.
  intros Hq Hpos Hkp E0. unfold process_fork in E0.
  apply bind_inv in E0 as (r0 & w1 & E1 & E0).
  pose proof (F_neutral _ _ _ _ _ _ _ fc_sys_sigfillset Hq E1) as H1.
  destruct (tr_run _ _ _ _ _ _ S_sigfillset ltac:(apply Hq) I E1) as [_ S1].
  destruct (Z.ltb_spec r0 0) as [Hr0|Hr0].
  { apply bind_inv in E0 as (e & w1' & Eg & E0). apply gets_inv in Eg as [-> ->]. apply ret_inv in E0 as [-> ->]. split; [exact H1|].
    left. destruct S1 as [S1|[_ S1]]; [lia|]. unfold EP in S1. lia. }
  apply bind_inv in E0 as ([r1 old] & w2 & E2 & E0). cbv beta iota in E0.
  pose proof (F_neutral _ _ _ _ _ _ _ (fc_signal_mask _ _) H1 E2) as H2.
  destruct (Z.ltb_spec r1 0) as [Hr1|Hr1]. { apply ret_inv in E0 as [-> ->]. split; [exact H2|left; assumption]. }
  apply bind_inv in E0 as ([r2 pp] & w3 & E3 & E0). cbv beta iota in E0.
  pose proof (F_pipe_init _ _ _ _ _ _ _ H2 E3) as H3.
  pose proof (S_pipe_init w2 ltac:(apply H2) I) as S3. rewrite E3 in S3. destruct S3 as [_ S3]. cbn [fst snd] in S3.
  destruct pp as [[prd pwr]|].
  2:{ apply bind_inv in E0 as ([r3 o3] & w4 & E4 & E0). apply ret_inv in E0 as [-> ->].
      split; [exact (F_neutral _ _ _ _ _ _ _ (fc_signal_mask _ _) H3 E4)|left; exact S3]. }
  destruct H3 as (H3 & Na & Nb & Hab).
  apply bind_inv in E0 as (r3 & w4 & E4 & E0).
  assert (H4 : fq T (prd :: pwr :: own) c w4 /\ (r3 = -1 \/ c < r3) /\ (r3 = -1 -> 0 < pr_errno (curp w4))).
  { destruct H3 as (W3 & C3 & Hn3 & Ho3).
    assert (Hk3 : kp (w_cur w3) (fork_child_part prd pwr except ck)) by (rewrite C3; apply kp_fork_child_part, Hkp).
    destruct (sys_fork_fds _ _ _ _ W3 ltac:(rewrite C3; exact Hpos) Hk3 E4) as [F4 P4]. rewrite C3 in P4.
    split; [eapply fq_fpost; [split; [exact W3|split; [exact C3|split; assumption]]|exact F4]|]. split; [exact P4|].
    intros ->. destruct (sys_fork_spec _ _ _ _ W3 ltac:(rewrite C3; exact Hpos) Hk3 E4) as [_ [[_ X]|[X _]]]; [exact X|lia]. }
  destruct H4 as (H4 & Pid4 & Err4).
  destruct (Z.ltb_spec r3 0) as [Hr3|Hr3].
  { apply bind_inv in E0 as (e & w4' & Eg & E0). apply gets_inv in Eg as [-> ->]. cbv zeta in E0.
    assert (Hneg : - pr_errno (curp w4) < 0). { destruct Pid4 as [->|]; [|lia]. specialize (Err4 eq_refl). lia. }
    apply bind_inv in E0 as ([r5 o5] & w5 & E5 & E0).
    pose proof (F_neutral _ _ _ _ _ _ _ (fc_signal_mask _ _) H4 E5) as H5.
    apply bind_inv in E0 as (x6 & w6 & E6 & E0). destruct (F_destroy _ _ _ _ _ _ _ H5 (or_intror (or_introl eq_refl)) E6) as [_ H6].
    assert (Hb6 : In pwr (drop prd (prd :: pwr :: own))) by (apply In_drop; split; [right; left; reflexivity|congruence]).
    apply bind_inv in E0 as (x7 & w7 & E7 & E0). destruct (F_destroy _ _ _ _ _ _ _ H6 (or_intror Hb6) E7) as [_ H7].
    apply ret_inv in E0 as [-> ->]. split; [|left; exact Hneg]. eapply fq_same; [exact H7|]. intros x. apply drop2; assumption. }
  cbv zeta in E0.
  apply bind_inv in E0 as ([r5 o5] & w5 & E5 & E0).
  pose proof (F_neutral _ _ _ _ _ _ _ (fc_signal_mask _ _) H4 E5) as H5.
  apply bind_inv in E0 as (x6 & w6 & E6 & E0). destruct (F_destroy _ _ _ _ _ _ _ H5 (or_intror (or_intror (or_introl eq_refl))) E6) as [_ H6].
  apply bind_inv in E0 as ([q rs] & w7 & E7 & E0). pose proof (F_neutral _ _ _ _ _ _ _ (fc_read_errpipe _) H6 E7) as H7.
  cbv beta iota zeta in E0.
  apply bind_inv in E0 as (r8 & w8 & E8 & E0).
  assert (H8 : fq T (drop pwr (prd :: pwr :: own)) c w8).
  { destruct (0 <? (if q <? 0 then 0 else decode_int (runs_bytes rs))).
    - apply bind_inv in E8 as ([rw stw] & w8' & Ew & E8).
      pose proof (F_neutral _ _ _ _ _ _ _ (fc_waitpid_child _) H7 Ew) as Hw.
      destruct (rw <? 0).
      + apply bind_inv in E8 as (e & w8'' & Eg & E8). apply gets_inv in Eg as [-> ->]. apply ret_inv in E8 as [_ ->]. exact Hw.
      + apply ret_inv in E8 as [_ ->]. exact Hw.
    - apply ret_inv in E8 as [_ ->]. exact H7. }
  assert (Ha8 : In prd (drop pwr (prd :: pwr :: own))) by (apply In_drop; split; [left; reflexivity|exact Hab]).
  apply bind_inv in E0 as (x9 & w9 & E9 & E0). destruct (F_destroy _ _ _ _ _ _ _ H8 (or_intror Ha8) E9) as [_ H9].
  apply ret_inv in E0 as [-> ->]. split; [eapply fq_same; [exact H9|]; intros x; apply drop2'; assumption|].
  destruct (Z.ltb_spec r8 0) as [Hr8|Hr8]; [left; assumption|right; lia].
Qed.

(* the common exit block closes both ends of the error pipe (or what is left of them) *)
Lemma F_finish {A} T own c prd pwr blk env (v : A) w a w' : fq T own c w ->
  prd = HANDLE_INVALID \/ In prd own -> pwr = HANDLE_INVALID \/ (In pwr own /\ pwr <> prd) ->
  (pipe_destroy prd;> pipe_destroy pwr;> sys_free blk;> strv_free env;> ret v) w = Ret a w' ->
  fq T (drop pwr (drop prd own)) c w'.
Proof.
  intros Hq Hr Hw E.
  apply bind_inv in E as (u1 & w1 & E1 & E). destruct (F_destroy _ _ _ _ _ _ _ Hq Hr E1) as [_ H1].
  assert (Hw1 : pwr = HANDLE_INVALID \/ In pwr (drop prd own)) by (destruct Hw as [Hw|[Hw Hne]]; [left; exact Hw|right; apply In_drop; auto]).
  apply bind_inv in E as (u2 & w2 & E2 & E). destruct (F_destroy _ _ _ _ _ _ _ H1 Hw1 E2) as [_ H2].
  apply bind_inv in E as (u3 & w3 & E3 & E). pose proof (F_neutral _ _ _ _ _ _ _ (fc_sys_free _) H2 E3) as H3.
  apply bind_inv in E as (u4 & w4 & E4 & E). pose proof (F_neutral _ _ _ _ _ _ _ (fc_strv_free _) H3 E4) as H4.
  apply ret_inv in E as [_ ->]. exact H4.
Qed.

Lemma fq_start w : wf w -> fq (tb w) [] (w_cur w) w.
Proof. intros W. split; [exact W|]. split; [reflexivity|]. split; [reflexivity|intros fd []]. Qed.
Lemma fq_end T own c w' : fq T own c w' -> (forall x, ~ In x own) -> tb w' = T.
Proof. intros (_ & _ & Hn & _) He. apply map_eq. intros fd. apply Hn, He. Qed.
Lemma fq_valid T own c w x : fq T own c w -> In x own -> x <> HANDLE_INVALID.
Proof. intros (_ & _ & _ & Ho) Hx. apply Ho, Hx. Qed.

(* whatever the caller owns at that point, process_start gives back exactly what it takes *)
Lemma process_start_fq T own pr argv o ck c w r pid w' :
  fq T own c w -> 0 <= c -> kp c ck ->
  process_start pr argv o ck w = Ret (r, pid) w' -> fq T own c w' /\ (pid = pr \/ c < pid).
Proof.
  intros Hq0 Hpos Hkp E0.
  unfold process_start in E0. cbv zeta in E0.
  apply bind_inv in E0 as ([r1 pp] & w1 & E1 & E0). cbv beta iota in E0.
  pose proof (F_pipe_init _ _ _ _ _ _ _ Hq0 E1) as H1.
  destruct pp as [[prd pwr]|].
  2:{ split.
      - eapply fq_same; [exact (F_finish T _ _ _ _ _ None _ _ _ _ H1 (or_introl eq_refl) (or_introl eq_refl) E0)|].
        intros x. rewrite !In_drop. split; [|tauto]. intros Hx. pose proof (fq_valid _ _ _ _ _ H1 Hx). tauto.
      - left. apply bind_inv in E0 as (u1 & v1 & _ & Ef). apply bind_inv in Ef as (u2 & v2 & _ & Ef).
        apply bind_inv in Ef as (u3 & v3 & _ & Ef). apply bind_inv in Ef as (u4 & v4 & _ & Ef).
        apply ret_inv in Ef as [Ef _]. injection Ef as _ ->. reflexivity. }
  destruct H1 as (H1 & Na & Nb & Hab).
  assert (Fin : forall (v : Z * Z) blk env w5, fq T (prd :: pwr :: own) c w5 -> (snd v = pr \/ c < snd v) ->
            (pipe_destroy prd;> pipe_destroy pwr;> sys_free blk;> strv_free env;> ret v) w5 = Ret (r, pid) w' -> fq T own c w' /\ (pid = pr \/ c < pid)).
  { intros v blk env w5 H5 Hv E5. split.
    - eapply fq_same.
      + refine (F_finish T _ _ _ _ _ _ _ _ _ _ H5 (or_intror (or_introl eq_refl)) (or_intror (conj (or_intror (or_introl eq_refl)) _)) E5). congruence.
      + intros x. apply drop2; assumption.
    - apply bind_inv in E5 as (u1 & v1 & _ & Ef). apply bind_inv in Ef as (u2 & v2 & _ & Ef).
      apply bind_inv in Ef as (u3 & v3 & _ & Ef). apply bind_inv in Ef as (u4 & v4 & _ & Ef).
      apply ret_inv in Ef as [Ef _]. rewrite <- Ef in Hv. exact Hv. }
  apply bind_inv in E0 as (pg & w2 & E2 & E0).
  assert (H2 : fq T (prd :: pwr :: own) c w2).
  { destruct argv as [[|a0 av]|].
    - apply ret_inv in E2 as [-> ->]. exact H1.
    - destruct (isSome (po_wd o) && path_is_relative a0).
      + exact (F_neutral _ _ _ _ _ _ _ (fc_path_prepend_cwd _) H1 E2).
      + apply bind_inv in E2 as (b & w2' & Eb & E2). apply ret_inv in E2 as [-> ->].
        exact (F_neutral _ _ _ _ _ _ _ (fc_heap_alloc _ _ _) H1 Eb).
    - apply ret_inv in E2 as [-> ->]. exact H1. }
  match type of E0 with (if ?b then _ else _) _ = _ => destruct b eqn:Epf end.
  { apply bind_inv in E0 as (e & w2' & Eg & E0). apply gets_inv in Eg as [-> ->]. refine (Fin _ _ _ _ H2 _ E0); left; reflexivity. }
  apply bind_inv in E0 as (penv & w2' & Eg & E0). apply gets_inv in Eg as [-> ->].
  apply bind_inv in E0 as (env & w3 & E3 & E0).
  pose proof (F_neutral _ _ _ _ _ _ _ (fc_strv_concat _ _) H2 E3) as H3.
  destruct env as [env|].
  2:{ apply bind_inv in E0 as (e & w3' & Eg & E0). apply gets_inv in Eg as [-> ->]. refine (Fin _ _ _ _ H3 _ E0); left; reflexivity. }
  apply bind_inv in E0 as (r4 & w4 & E4 & E0).
  destruct (F_process_fork _ _ _ _ _ _ _ _ H3 Hpos (kp_start_child_part _ _ _ _ _ _ _ _ Hkp) E4) as [H4 Pid4].
  destruct (Z.ltb_spec r4 0) as [Hr4|Hr4]. { refine (Fin _ _ _ _ H4 _ E0); left; reflexivity. }
  assert (Hc4 : c < r4) by lia.
  apply bind_inv in E0 as (x5 & w5 & E5 & E0).
  destruct (F_destroy _ _ _ _ _ _ _ H4 (or_intror (or_intror (or_introl eq_refl))) E5) as [-> H5].
  assert (Fin' : forall (v : Z * Z) blk env0 w6, fq T (drop pwr (prd :: pwr :: own)) c w6 -> (snd v = pr \/ c < snd v) ->
            (pipe_destroy prd;> pipe_destroy HANDLE_INVALID;> sys_free blk;> strv_free env0;> ret v) w6 = Ret (r, pid) w' -> fq T own c w' /\ (pid = pr \/ c < pid)).
  { intros v blk env0 w6 H6 Hv E6. split.
    - eapply fq_same.
      + refine (F_finish T _ _ _ _ _ _ _ _ _ _ H6 (or_intror _) (or_introl eq_refl) E6). apply In_drop. split; [left; reflexivity|exact Hab].
      + intros x. rewrite !In_drop. cbn [In]. split; [|intuition congruence].
        intros Hx. pose proof (fq_valid _ _ _ _ x H4 (or_intror (or_intror Hx))).
        repeat split; [tauto|intros ->; contradiction|intros ->; contradiction|assumption].
    - apply bind_inv in E6 as (u1 & v1 & _ & Ef). apply bind_inv in Ef as (u2 & v2 & _ & Ef).
      apply bind_inv in Ef as (u3 & v3 & _ & Ef). apply bind_inv in Ef as (u4 & v4 & _ & Ef).
      apply ret_inv in Ef as [Ef _]. rewrite <- Ef in Hv. exact Hv. }
  apply bind_inv in E0 as ([q rs] & w6 & E6 & E0). pose proof (F_neutral _ _ _ _ _ _ _ (fc_read_errpipe _) H5 E6) as H6.
  cbv beta iota zeta in E0.
  destruct (0 <? (if q <? 0 then 0 else decode_int (runs_bytes rs))).
  - apply bind_inv in E0 as ([rw stw] & w7 & E7 & E0). pose proof (F_neutral _ _ _ _ _ _ _ (fc_waitpid_child _) H6 E7) as H7.
    cbv beta iota in E0. apply bind_inv in E0 as (r8 & w8 & E8 & E0).
    assert (H8 : fq T (drop pwr (prd :: pwr :: own)) c w8).
    { destruct (rw <? 0).
      - apply bind_inv in E8 as (e & w8' & Eg & E8). apply gets_inv in Eg as [-> ->]. apply ret_inv in E8 as [_ ->]. exact H7.
      - apply ret_inv in E8 as [_ ->]. exact H7. }
    refine (Fin' _ _ _ _ H8 _ E0); left; reflexivity.
  - refine (Fin' _ _ _ _ H6 _ E0); right; exact Hc4.
Qed.

(* process_start leaves the caller's descriptor table exactly as it found it *)
Theorem process_start_fds pr argv o ck w r pid w' :
  wf w -> 0 <= w_cur w -> kp (w_cur w) ck ->
  process_start pr argv o ck w = Ret (r, pid) w' ->
  pr_fds (curp w') = pr_fds (curp w).
Proof.
  intros W Hpos Hkp E0.
  destruct (process_start_fq _ _ _ _ _ _ _ _ _ _ _ (fq_start w W) Hpos Hkp E0) as [Hq _].
  exact (fq_end _ _ _ _ Hq (fun x H => H)).
Qed.
Lemma fc_redirect_file child f : fc (redirect_file child f).
Proof.
  unfold redirect_file. apply fc_bind; [apply fc_sys_fileno|]. intros r.
  destruct (r <? 0); [apply fc_bind; [apply fc_get_errno|intros e; apply fc_ret]|apply fc_ret].
Qed.

Lemma fc_redirect_parent child stream : fc (redirect_parent child stream).
Proof.
  unfold redirect_parent. cbv zeta. destruct (stream_file stream =? 0); [apply fc_ret|].
  apply fc_bind; [apply fc_sys_fileno|]. intros r.
  destruct (r <? 0); [apply fc_bind; [apply fc_get_errno|intros e; apply fc_ret]|].
  apply fc_bind; [apply fc_sys_getfd|]. intros q.
  destruct (q <? 0); [apply fc_bind; [apply fc_get_errno|intros e; apply fc_ret]|apply fc_ret].
Qed.

Lemma fc_sys_write fd data : fc (sys_write fd data).
Proof.
  unfold sys_write. cbn zeta. apply fc_bind; [apply fc_prelude|]. intros [e|]; [apply fc_failb|].
  apply fc_bind; [apply fc_gets|]. intros t. destruct (t !! fd) as [d|]; [|apply fc_fail].
  destruct (f_obj d) as [q|q|a|pa a|id a]; try apply fc_fail; try apply fc_done.
  intros w W.
  destruct (write_loop_frame (w_cur w) (Z.to_nat (runs_len data / pipe_atomic) + total_weight w * 2 + 8)%nat q (f_nonblock d) data 0 w (wf_lib_at _ W)) as [K F].
  unfold flat in F. injection F as Ft Fc _ _ _ _ _ Fb _ _.
  assert (P1 : fpost w (wr_world (write_loop (Z.to_nat (runs_len data / pipe_atomic) + total_weight w * 2 + 8)%nat q (f_nonblock d) data 0 w))).
  { split; [eapply keeps_wf; eassumption|]. split; [exact Fc|].
    unfold tb, curp. rewrite Fc, (keeps_get_proc _ _ _ K). reflexivity. }
  destruct (write_loop _ q (f_nonblock d) data 0 w) as [n w1|e w1|w1|w1]; cbn [wr_world] in *; auto.
  - assert (H1 : fc (log CWrite [fd; runs_len data] [] n [] (w_time w1 - w_time w);> ret n)) by (repeat fc_step).
    specialize (H1 w1 ltac:(apply P1)).
    destruct ((log CWrite [fd; runs_len data] [] n [] (w_time w1 - w_time w);> ret n) w1); auto.
    all: try exact (fpost_trans _ _ _ P1 H1).
  - assert (H1 : fc (set_errno e;> log CWrite [fd; runs_len data] [] (-1) [] (w_time w1 - w_time w);> ret (-1))) by (repeat fc_step).
    specialize (H1 w1 ltac:(apply P1)).
    destruct ((set_errno e;> log CWrite [fd; runs_len data] [] (-1) [] (w_time w1 - w_time w);> ret (-1)) w1); auto.
    all: try exact (fpost_trans _ _ _ P1 H1).
Qed.

Lemma fc_pipe_write p data : fc (pipe_write p data).
Proof.
  unfold pipe_write. apply fc_bind; [apply fc_sys_write|]. intros r.
  destruct (r <? 0); [apply fc_bind; [apply fc_get_errno|intros e; apply fc_ret]|apply fc_ret].
Qed.

Lemma fc_input_loop fuel pipe src : forall written size, fc (input_loop fuel pipe src written size).
Proof.
  induction fuel as [|f IH]; intros written size; cbn [input_loop]; [apply fc_crash|].
  destruct (written <? size); [|apply fc_ret].
  apply fc_bind; [apply fc_pipe_write|]. intros r. destruct (r <? 0); [apply fc_ret|apply IH].
Qed.

Lemma fc_now : fc now.
Proof. unfold now. apply fc_bind; [apply fc_sys_clock|]. intros [s n]. apply fc_ret. Qed.

(* ================= 6. reproc_start: redirects ================= *)
Lemma sys_setfl_tb fd v w r w' : wf w -> sys_setfl fd v w = Ret r w' ->
  wf w' /\ w_cur w' = w_cur w /\ (forall k, k <> fd -> tb w' !! k = tb w !! k) /\ (is_Some (tb w !! fd) -> is_Some (tb w' !! fd)).
Proof.
  intros W E. unfold sys_setfl in E.
  apply bind_inv in E as (f & w0 & Ep & E). pose proof (fc_run _ _ _ _ fc_prelude W Ep) as (W0 & C0 & T0).
  assert (Same : fpost w0 w' -> wf w' /\ w_cur w' = w_cur w /\ (forall k, k <> fd -> tb w' !! k = tb w !! k) /\ (is_Some (tb w !! fd) -> is_Some (tb w' !! fd))).
  { intros (W' & C' & T'). split; [exact W'|]. split; [congruence|]. rewrite T', T0. auto. }
  destruct f as [e|]; [apply Same; exact (fc_run _ _ _ _ (fc_fail _ _ _ _) W0 E)|].
  apply bind_inv in E as (t & w0' & Eg & E). apply gets_inv in Eg as [-> ->].
  change (cur_fds w0) with (tb w0) in E.
  destruct (tb w0 !! fd) as [d|] eqn:Ed; [|apply Same; exact (fc_run _ _ _ _ (fc_fail _ _ _ _) W0 E)].
  apply bind_inv in E as (u & w1 & E1 & E). destruct (set_fds_spec _ _ _ _ W0 E1) as (W1 & C1 & T1).
  destruct (fc_run _ _ _ _ (fc_done _ _ _ _ _) W1 E) as (W' & C' & T').
  split; [exact W'|]. split; [congruence|]. rewrite T', T1, <- T0.
  split; [intros k Hk; apply lookup_insert_ne; congruence|]. intros _. rewrite lookup_insert. eauto.
Qed.
Lemma F_nonblocking T own c h en w r w' : fq T own c w -> In h own -> pipe_nonblocking h en w = Ret r w' -> fq T own c w'.
Proof.
  intros Hq Hin E. unfold pipe_nonblocking in E.
  apply bind_inv in E as (r1 & w1 & E1 & E). pose proof (F_neutral _ _ _ _ _ _ _ (fc_sys_getfl _) Hq E1) as H1.
  destruct (r1 <? 0).
  { apply bind_inv in E as (e & w1' & Eg & E). apply gets_inv in Eg as [-> ->]. apply ret_inv in E as [_ ->]. exact H1. }
  cbv zeta in E. apply bind_inv in E as (r2 & w2 & E2 & E).
  assert (H2 : fq T own c w2).
  { destruct H1 as (W1 & C1 & Hn & Ho). destruct (sys_setfl_tb _ _ _ _ _ W1 E2) as (W2 & C2 & Hk & Hs).
    split; [exact W2|]. split; [congruence|]. split.
    - intros fd Hfd. rewrite Hk; [apply Hn, Hfd|]. intros ->. contradiction.
    - intros fd Hfd. destruct (Ho fd Hfd) as (A1 & A2 & A3). split; [exact A1|]. split; [|exact A3].
      destruct (Z.eq_dec fd h) as [->|Hne]; [apply Hs, A2|rewrite Hk by exact Hne; exact A2]. }
  destruct (r2 <? 0).
  { apply bind_inv in E as (e & w2' & Eg & E). apply gets_inv in Eg as [-> ->]. apply ret_inv in E as [_ ->]. exact H2. }
  apply ret_inv in E as [_ ->]. exact H2.
Qed.

(* open: nothing, or one fresh slot *)
Definition opened (w : world) (r : Z) (w' : world) : Prop :=
  wf w' /\ w_cur w' = w_cur w /\
  ((r < 0 /\ tb w' = tb w) \/ (0 <= r /\ tb w !! r = None /\ exists d, tb w' = <[r := d]> (tb w))).
Lemma opened_fail w c a s e r w' : wf w -> fail c a s e w = Ret r w' -> opened w r w'.
Proof.
  intros W E. destruct (fc_run _ _ _ _ (fc_fail _ _ _ _) W E) as (W' & C' & T').
  rewrite run_fail in E. injection E as <- _. split; [exact W'|]. split; [exact C'|]. left. split; [lia|exact T'].
Qed.
Lemma opened_pre w0 w r w' : fpost w0 w -> opened w r w' -> opened w0 r w'.
Proof.
  intros (W & C & T) (W' & C' & H). split; [exact W'|]. split; [congruence|]. rewrite <- T. exact H.
Qed.
Lemma sys_open_tb path flags mode w r w' : wf w -> sys_open path flags mode w = Ret r w' -> opened w r w'.
Proof.
  intros W E. unfold sys_open in E.
  apply bind_inv in E as (f & w0 & Ep & E). pose proof (fc_run _ _ _ _ fc_prelude W Ep) as F0.
  apply (opened_pre _ _ _ _ F0). destruct F0 as (W0 & _).
  destruct f as [e|]; [exact (opened_fail _ _ _ _ _ _ _ W0 E)|].
  apply bind_inv in E as (wg & w0' & Eg & E). apply get_inv in Eg as [-> ->]. cbv zeta in E.
  assert (Hmk : forall ob w1 r1 w1', fpost w0 w1 ->
     (match fd_alloc (pr_fds (curp w0)) (pr_rlimit (curp w0)) with
      | Some fd => set_cur_fds (<[fd := {| f_obj := ob; f_cloexec := has_bit flags O_CLOEXEC; f_nonblock := has_bit flags O_NONBLOCK |}]> (pr_fds (curp w0)));>
                   done COpen [flags; mode] [path] fd []
      | None => fail COpen [flags; mode] [path] EMFILE end) w1 = Ret r1 w1' -> opened w0 r1 w1').
  { intros ob w1 r1 w1' F1 E1. apply (opened_pre _ _ _ _ F1). destruct F1 as (W1 & C1 & T1).
    change (pr_fds (curp w0)) with (tb w0) in E1. rewrite <- T1 in E1.
    destruct (fd_alloc (tb w1) _) as [fd|] eqn:Ea; [|exact (opened_fail _ _ _ _ _ _ _ W1 E1)].
    destruct (fd_alloc_free _ _ _ Ea) as [Fa Pa].
    apply bind_inv in E1 as (u & w2 & E2 & E1). destruct (set_fds_spec _ _ _ _ W1 E2) as (W2 & C2 & T2).
    destruct (fc_run _ _ _ _ (fc_done _ _ _ _ _) W2 E1) as (W' & C' & T').
    rewrite run_done in E1. injection E1 as <- _.
    split; [exact W'|]. split; [congruence|]. right. split; [exact Pa|]. split; [exact Fa|]. eexists. rewrite T', T2. reflexivity. }
  pose proof (fpost_refl w0 W0) as R0.
  destruct (str_eqb _ dev_null); [exact (Hmk _ _ _ _ R0 E)|].
  destruct (fs_lookup _ w0) as [k1|].
  - destruct k1; try exact (Hmk _ _ _ _ R0 E); try exact (opened_fail _ _ _ _ _ _ _ W0 E).
    destruct (acc_of_flags flags); try exact (opened_fail _ _ _ _ _ _ _ W0 E); exact (Hmk _ _ _ _ R0 E).
  - destruct (has_bit flags O_CREAT); [|exact (opened_fail _ _ _ _ _ _ _ W0 E)].
    destruct (fs_lookup _ w0) as [k2|]; [|exact (opened_fail _ _ _ _ _ _ _ W0 E)].
    destruct k2; try exact (opened_fail _ _ _ _ _ _ _ W0 E).
    apply bind_inv in E as (u1 & w1 & E1 & E).
    refine (Hmk _ _ _ _ _ E). refine (fc_run _ _ _ _ (fc_modify _ _) W0 E1). intros ?w; repeat split; cbn; lia.
Qed.

Definition pown (h : Z) : list Z := if h =? HANDLE_INVALID then [] else [h].
Definition cown (ty c : Z) : list Z := if redirect_destroy_closes ty && negb (c =? HANDLE_INVALID) then [c] else [].
Lemma In_pown x h : In x (pown h) <-> x = h /\ h <> HANDLE_INVALID.
Proof. unfold pown. destruct (Z.eqb_spec h HANDLE_INVALID); cbn [In]; intuition congruence. Qed.
Lemma In_cown x ty c : In x (cown ty c) <-> x = c /\ redirect_destroy_closes ty = true /\ c <> HANDLE_INVALID.
Proof.
  unfold cown. destruct (redirect_destroy_closes ty); cbn [andb]; [|cbn [In]; intuition congruence].
  destruct (Z.eqb_spec c HANDLE_INVALID); cbn [negb In]; intuition congruence.
Qed.

(* redirect_path (and redirect_discard): the child end is a fresh, owned descriptor — or nothing happened *)
Lemma F_redirect_path T own c child stream path w r c' w' : fq T own c w ->
  redirect_path child stream path w = Ret (r, c') w' ->
  (c' = child /\ fq T own c w') \/ (r = 0 /\ fq T (c' :: own) c w' /\ ~ In c' own /\ c' <> HANDLE_INVALID).
Proof.
  intros Hq E. unfold redirect_path in E.
  apply bind_inv in E as (r1 & w1 & E1 & E). destruct Hq as (W & C & Hn & Ho).
  destruct (sys_open_tb _ _ _ _ _ _ W E1) as (W1 & C1 & [(Hr & T1)|(Hr & Fr & d & T1)]).
  - assert (H1 : fq T own c w1) by (split; [exact W1|]; split; [congruence|]; rewrite T1; split; assumption).
    destruct (Z.ltb_spec r1 0); [|lia].
    apply bind_inv in E as (e & w1' & Eg & E). apply gets_inv in Eg as [-> ->]. apply ret_inv in E as [E ->]. injection E as -> ->.
    left. split; [reflexivity|exact H1].
  - destruct (Z.ltb_spec r1 0); [lia|]. apply ret_inv in E as [E ->]. injection E as -> ->.
    assert (Nr : ~ In r1 own). { intros X. destruct (Ho r1 X) as (_ & [d0 Hd] & _). congruence. }
    right. split; [reflexivity|]. split; [|split; [exact Nr|unfold HANDLE_INVALID; lia]].
    split; [exact W1|]. split; [congruence|]. rewrite T1. split.
    + intros fd Hfd. cbn [In] in Hfd. rewrite lookup_insert_ne by (intros ->; tauto). apply Hn. tauto.
    + intros fd [<-|Hfd].
      * split; [rewrite <- (Hn r1 Nr); exact Fr|]. split; [rewrite lookup_insert; eauto|unfold HANDLE_INVALID; lia].
      * destruct (Ho fd Hfd) as (A1 & A2 & A3). split; [exact A1|]. split; [|exact A3].
        rewrite lookup_insert_ne by (intros ->; contradiction). exact A2.
Qed.

(* redirect_pipe: both ends, fresh and owned — or nothing happened *)
Lemma F_redirect_pipe T own c parent child stream nb w r p' c' w' : fq T own c w ->
  redirect_pipe parent child stream nb w = Ret (r, p', c') w' ->
  (r < 0 /\ p' = parent /\ c' = child /\ fq T own c w') \/
  (0 <= r /\ fq T (p' :: c' :: own) c w' /\ ~ In p' own /\ ~ In c' own /\ p' <> c' /\ p' <> HANDLE_INVALID /\ c' <> HANDLE_INVALID).
Proof.
  intros Hq E. unfold redirect_pipe in E.
  apply bind_inv in E as ([r0 pp] & w1 & E1 & E). cbv beta iota in E.
  pose proof (F_pipe_init _ _ _ _ _ _ _ Hq E1) as H1.
  pose proof (S_pipe_init w ltac:(apply Hq) I) as S1. rewrite E1 in S1. destruct S1 as [_ S1]. cbn [fst snd] in S1.
  destruct pp as [[p0 p1]|].
  2:{ apply bind_inv in E as (u2 & w2 & E2 & E). destruct (F_destroy _ _ _ _ _ _ _ H1 (or_introl eq_refl) E2) as [_ H2].
      apply bind_inv in E as (u3 & w3 & E3 & E). destruct (F_destroy _ _ _ _ _ _ _ H2 (or_introl eq_refl) E3) as [_ H3].
      apply ret_inv in E as [E ->]. injection E as -> -> ->. left. split; [exact S1|]. split; [reflexivity|]. split; [reflexivity|].
      eapply fq_same; [exact H3|]. intros x. rewrite !In_drop. split; [|tauto]. intros Hx. pose proof (fq_valid _ _ _ _ _ Hq Hx). tauto. }
  destruct H1 as (H1 & Na & Nb & Hab).
  apply bind_inv in E as (r2 & w2 & E2 & E).
  assert (H2 : fq T (p0 :: p1 :: own) c w2).
  { refine (F_nonblocking _ _ _ _ _ _ _ _ H1 _ E2). destruct (stream =? REPROC_STREAM_IN); [right; left; reflexivity|left; reflexivity]. }
  destruct (Z.ltb_spec r2 0).
  - apply bind_inv in E as (u3 & w3 & E3 & E). destruct (F_destroy _ _ _ _ _ _ _ H2 (or_intror (or_introl eq_refl)) E3) as [_ H3].
    assert (Hb3 : In p1 (drop p0 (p0 :: p1 :: own))) by (apply In_drop; split; [right; left; reflexivity|congruence]).
    apply bind_inv in E as (u4 & w4 & E4 & E). destruct (F_destroy _ _ _ _ _ _ _ H3 (or_intror Hb3) E4) as [_ H4].
    apply ret_inv in E as [E ->]. injection E as -> -> ->. left. split; [assumption|]. split; [reflexivity|]. split; [reflexivity|].
    eapply fq_same; [exact H4|]. intros x. apply drop2; assumption.
  - apply ret_inv in E as [E ->]. injection E as -> -> ->. right. split; [exact H|].
    pose proof (fq_valid _ _ _ _ p0 H2 (or_introl eq_refl)) as V0.
    pose proof (fq_valid _ _ _ _ p1 H2 (or_intror (or_introl eq_refl))) as V1.
    destruct (stream =? REPROC_STREAM_IN).
    + split; [|auto 8]. eapply fq_same; [exact H2|]. intros x. cbn [In]. tauto.
    + split; [exact H2|auto 8].
Qed.

Lemma cown_invalid ty : cown ty HANDLE_INVALID = [].
Proof. unfold cown. rewrite andb_false_r. reflexivity. Qed.
Lemma cown_keeps ty c0 : redirect_destroy_closes ty = false -> cown ty c0 = [].
Proof. intros H. unfold cown. rewrite H. reflexivity. Qed.

Lemma redirect_parent_ret child stream w r c' w' : redirect_parent child stream w = Ret (r, c') w' -> c' = child \/ r = 0.
Proof.
  unfold redirect_parent. cbv zeta. intros E.
  destruct (stream_file stream =? 0). { apply ret_inv in E as [E _]. injection E as _ ->. left. reflexivity. }
  apply bind_inv in E as (r1 & w1 & _ & E). destruct (r1 <? 0).
  { apply bind_inv in E as (e & w1' & _ & E). apply ret_inv in E as [E _]. injection E as _ ->. left. reflexivity. }
  apply bind_inv in E as (q & w2 & _ & E). destruct (q <? 0).
  { apply bind_inv in E as (e & w2' & _ & E). apply ret_inv in E as [E _]. injection E as _ ->. left. reflexivity. }
  apply ret_inv in E as [E _]. injection E as -> _. right. reflexivity.
Qed.
Lemma redirect_file_ret child f w r c' w' : redirect_file child f w = Ret (r, c') w' -> True.
Proof. auto. Qed.

(* what redirect_init leaves behind: the parent end (if any) and the child end (if the library
   will close it: redirect_destroy's table) are fresh, owned descriptors; nothing else changed *)
Definition RI (T : gmap Z fdent) (own : list Z) (c r p' ty c' : Z) (w' : world) : Prop :=
  fq T (pown p' ++ cown ty c' ++ own) c w' /\
  (forall x, In x (pown p' ++ cown ty c') -> ~ In x own) /\
  (forall x, In x (pown p') -> ~ In x (cown ty c')) /\
  (r < 0 -> p' = HANDLE_INVALID /\ cown ty c' = []).
Lemma RI_none T own c r ty c' w' : fq T own c w' -> cown ty c' = [] -> RI T own c r HANDLE_INVALID ty c' w'.
Proof.
  intros Hq Hc. unfold RI. rewrite Hc. change (pown HANDLE_INVALID) with (@nil Z). cbn [app].
  split; [exact Hq|]. split; [intros x []|]. split; [intros x []|auto].
Qed.
Lemma RI_child T own c ty c' w' : fq T (c' :: own) c w' -> ~ In c' own -> c' <> HANDLE_INVALID ->
  redirect_destroy_closes ty = true -> RI T own c 0 HANDLE_INVALID ty c' w'.
Proof.
  intros Hq Hn Hv Hc. unfold RI.
  assert (Ec : cown ty c' = [c']). { unfold cown. rewrite Hc. destruct (Z.eqb_spec c' HANDLE_INVALID); [contradiction|reflexivity]. }
  rewrite Ec. change (pown HANDLE_INVALID) with (@nil Z). cbn [app].
  split; [exact Hq|]. split; [intros x [<-|[]]; exact Hn|]. split; [intros x []|lia].
Qed.

Lemma F_redirect_init T own c stream rd nb out w r p' c' rd' w' : fq T own c w ->
  redirect_init HANDLE_INVALID HANDLE_INVALID stream rd nb out w = Ret (r, p', c', rd') w' ->
  RI T own c r p' (rd_type rd') c' w'.
Proof.
  intros Hq E. unfold redirect_init in E. cbv zeta in E.
  destruct (Z.eqb_spec (rd_type rd) REPROC_REDIRECT_PIPE) as [Ety|_].
  { apply bind_inv in E as ([[r1 p1] c1] & w1 & E1 & E). apply ret_inv in E as [E ->]. injection E as -> -> -> ->.
    destruct (F_redirect_pipe _ _ _ _ _ _ _ _ _ _ _ _ Hq E1) as [(_ & -> & -> & H1)|(Hr & H1 & Np & Nc & Hpc & Vp & Vc)].
    - apply RI_none; [exact H1|apply cown_invalid].
    - unfold RI. rewrite Ety.
      assert (Ep : pown p1 = [p1]) by (unfold pown; destruct (Z.eqb_spec p1 HANDLE_INVALID); [contradiction|reflexivity]).
      assert (Ec : cown REPROC_REDIRECT_PIPE c1 = [c1]) by (unfold cown; destruct (Z.eqb_spec c1 HANDLE_INVALID); [contradiction|reflexivity]).
      rewrite Ep, Ec. cbn [app]. split; [exact H1|]. split; [intros x [<-|[<-|[]]]; assumption|].
      split; [intros x [<-|[]] [X|[]]; congruence|lia]. }
  destruct (Z.eqb_spec (rd_type rd) REPROC_REDIRECT_PARENT) as [Ety|_].
  { apply bind_inv in E as ([r1 c1] & w1 & E1 & E). cbv beta iota in E.
    pose proof (F_neutral _ _ _ _ _ _ _ (fc_redirect_parent _ _) Hq E1) as H1.
    pose proof (redirect_parent_ret _ _ _ _ _ _ E1) as R1.
    apply bind_inv in E as ([[r2 c2] rd2] & w2 & E2 & E). cbv beta iota in E.
    assert (Fin : forall w3, (if r2 <? 0 then ret (r2, HANDLE_INVALID, c2, rd2) else ret (r2, PIPE_INVALID, c2, rd2)) w3 = Ret (r, p', c', rd') w' ->
              r = r2 /\ p' = HANDLE_INVALID /\ c' = c2 /\ rd' = rd2 /\ w' = w3).
    { intros w3 E3. destruct (r2 <? 0); apply ret_inv in E3 as [E3 ->]; injection E3 as -> -> -> ->; auto. }
    destruct (Fin _ E) as (-> & -> & -> & -> & ->). clear Fin E.
    destruct (Z.eqb_spec r1 REPROC_EPIPE) as [Er|_].
    - assert (c1 = HANDLE_INVALID) by (destruct R1 as [R1|R1]; [exact R1|rewrite Er in R1; discriminate]). subst c1.
      apply bind_inv in E2 as ([r3 c3] & w3 & E3 & E2). cbv beta iota in E2. apply ret_inv in E2 as [E2 ->]. injection E2 as -> -> ->.
      destruct (F_redirect_path _ _ _ _ _ _ _ _ _ _ H1 E3) as [[-> H3]|(-> & H3 & N3 & V3)].
      + apply RI_none; [exact H3|apply cown_invalid].
      + change (0 <=? 0) with true. cbv iota. apply RI_child; [exact H3|exact N3|exact V3|reflexivity].
    - apply ret_inv in E2 as [E2 ->]. injection E2 as -> -> ->.
      apply RI_none; [exact H1|]. apply cown_keeps. rewrite Ety. reflexivity. }
  destruct (Z.eqb_spec (rd_type rd) REPROC_REDIRECT_DISCARD) as [Ety|_].
  { apply bind_inv in E as ([r1 c1] & w1 & E1 & E). cbv beta iota in E.
    assert (Fin : r = r1 /\ p' = HANDLE_INVALID /\ c' = c1 /\ rd' = rd /\ w' = w1).
    { destruct (r1 <? 0); apply ret_inv in E as [E ->]; injection E as -> -> -> ->; auto. }
    destruct Fin as (-> & -> & -> & -> & ->). clear E.
    destruct (F_redirect_path _ _ _ _ _ _ _ _ _ _ Hq E1) as [[-> H3]|(-> & H3 & N3 & V3)].
    - apply RI_none; [exact H3|apply cown_invalid].
    - apply RI_child; [exact H3|exact N3|exact V3|rewrite Ety; reflexivity]. }
  destruct (Z.eqb_spec (rd_type rd) REPROC_REDIRECT_HANDLE) as [Ety|_].
  { apply ret_inv in E as [E ->]. injection E as -> -> -> ->. apply RI_none; [exact Hq|]. apply cown_keeps. rewrite Ety. reflexivity. }
  destruct (Z.eqb_spec (rd_type rd) REPROC_REDIRECT_FILE) as [Ety|_].
  { apply bind_inv in E as ([r1 c1] & w1 & E1 & E). cbv beta iota in E.
    pose proof (F_neutral _ _ _ _ _ _ _ (fc_redirect_file _ _) Hq E1) as H1.
    assert (Fin : r = r1 /\ p' = HANDLE_INVALID /\ c' = c1 /\ rd' = rd /\ w' = w1).
    { destruct (r1 <? 0); apply ret_inv in E as [E ->]; injection E as -> -> -> ->; auto. }
    destruct Fin as (-> & -> & -> & -> & ->). apply RI_none; [exact H1|]. apply cown_keeps. rewrite Ety. reflexivity. }
  destruct (Z.eqb_spec (rd_type rd) REPROC_REDIRECT_STDOUT) as [Ety|_].
  { apply ret_inv in E as [E ->]. injection E as -> -> -> ->. apply RI_none; [exact Hq|]. apply cown_keeps. rewrite Ety. reflexivity. }
  destruct (Z.eqb_spec (rd_type rd) REPROC_REDIRECT_PATH) as [Ety|_].
  2:{ apply ret_inv in E as [E ->]. injection E as -> -> -> ->. apply RI_none; [exact Hq|apply cown_invalid]. }
  destruct (rd_path rd) as [path|].
  2:{ apply ret_inv in E as [E ->]. injection E as -> -> -> ->. apply RI_none; [exact Hq|apply cown_invalid]. }
  apply bind_inv in E as ([r1 c1] & w1 & E1 & E). cbv beta iota in E.
  assert (Fin : r = r1 /\ p' = HANDLE_INVALID /\ c' = c1 /\ rd' = rd /\ w' = w1).
  { destruct (r1 <? 0); apply ret_inv in E as [E ->]; injection E as -> -> -> ->; auto. }
  destruct Fin as (-> & -> & -> & -> & ->). clear E.
  destruct (F_redirect_path _ _ _ _ _ _ _ _ _ _ Hq E1) as [[-> H3]|(-> & H3 & N3 & V3)].
  - apply RI_none; [exact H3|apply cown_invalid].
  - apply RI_child; [exact H3|exact N3|exact V3|rewrite Ety; reflexivity].
Qed.

Lemma F_redirect_init_pipe T own c stream rd nb out w r p' c' rd' w' : fq T own c w -> rd_type rd = REPROC_REDIRECT_PIPE ->
  redirect_init HANDLE_INVALID HANDLE_INVALID stream rd nb out w = Ret (r, p', c', rd') w' ->
  rd' = rd /\ (0 <= r -> p' <> HANDLE_INVALID).
Proof.
  intros Hq Ety E. unfold redirect_init in E. cbv zeta in E. rewrite Ety in E. change (REPROC_REDIRECT_PIPE =? REPROC_REDIRECT_PIPE) with true in E. cbv iota in E.
  apply bind_inv in E as ([[r1 p1] c1] & w1 & E1 & E). apply ret_inv in E as [E ->]. injection E as -> -> -> ->.
  split; [reflexivity|]. intros Hr.
  destruct (F_redirect_pipe _ _ _ _ _ _ _ _ _ _ _ _ Hq E1) as [(Hn & _)|(_ & _ & _ & _ & _ & Vp & _)]; [lia|exact Vp].
Qed.

(* ================= 7. reproc_start ================= *)
Definition fqn (T : gmap Z fdent) (own : list Z) (c : Z) (w : world) : Prop := fq T own c w /\ NoDup own.

Lemma drop_notin h l : ~ In h l -> drop h l = l.
Proof.
  induction l as [|x l IH]; intros Hn; [reflexivity|]. unfold drop in *. cbn [filter].
  destruct (Z.eqb_spec x h) as [->|Hne]; [exfalso; apply Hn; left; reflexivity|]. cbn [negb]. f_equal. apply IH. intros X. apply Hn. right. exact X.
Qed.
Lemma drop_mid h A B : NoDup (A ++ h :: B) -> drop h (A ++ h :: B) = A ++ B.
Proof.
  intros Hnd. pose proof (NoDup_remove_2 _ _ _ Hnd) as Hn. unfold drop. rewrite filter_app. cbn [filter].
  rewrite Z.eqb_refl. cbn [negb]. fold (drop h A). fold (drop h B).
  rewrite !drop_notin; [reflexivity| |]; intros X; apply Hn, in_or_app; auto.
Qed.
Lemma pown_valid h : h <> HANDLE_INVALID -> pown h = [h].
Proof. intros H. unfold pown. destruct (Z.eqb_spec h HANDLE_INVALID); [contradiction|reflexivity]. Qed.

Lemma N_neutral {A} (m : MW A) T own c w a w' : fc m -> fqn T own c w -> m w = Ret a w' -> fqn T own c w'.
Proof. intros Hm [Hq Hn] E. split; [eapply F_neutral; eassumption|exact Hn]. Qed.
Lemma N_close T A B h c w u w' : fqn T (A ++ pown h ++ B) c w -> pipe_destroy h w = Ret u w' ->
  u = HANDLE_INVALID /\ fqn T (A ++ B) c w'.
Proof.
  intros [Hq Hn] E. destruct (Z.eq_dec h HANDLE_INVALID) as [->|Hv].
  - change (pown HANDLE_INVALID) with (@nil Z) in *. cbn [app] in *.
    unfold pipe_destroy, handle_destroy in E. change (HANDLE_INVALID =? HANDLE_INVALID) with true in E. cbv iota in E.
    apply ret_inv in E as [-> ->]. split; [reflexivity|]. split; assumption.
  - rewrite (pown_valid _ Hv) in *. cbn [app] in *.
    destruct (F_destroy _ _ _ _ _ _ _ Hq (or_intror (in_elt h A B)) E) as [-> H1]. split; [reflexivity|].
    rewrite (drop_mid _ _ _ Hn) in H1. split; [exact H1|exact (NoDup_remove_1 _ _ _ Hn)].
Qed.
Lemma N_rdestroy T A B ch ty c w u w' : fqn T (A ++ cown ty ch ++ B) c w -> redirect_destroy ch ty w = Ret u w' ->
  u = HANDLE_INVALID /\ fqn T (A ++ B) c w'.
Proof.
  intros H E. unfold redirect_destroy in E.
  destruct (Z.eqb_spec ch HANDLE_INVALID) as [->|Hv].
  { rewrite cown_invalid in H. apply ret_inv in E as [-> ->]. split; [reflexivity|exact H]. }
  destruct (redirect_destroy_closes ty) eqn:Ec.
  2:{ rewrite (cown_keeps _ _ Ec) in H. apply ret_inv in E as [-> ->]. split; [reflexivity|exact H]. }
  assert (Eo : cown ty ch = pown ch).
  { unfold cown, pown. rewrite Ec. destruct (Z.eqb_spec ch HANDLE_INVALID); [contradiction|reflexivity]. }
  rewrite Eo in H. apply bind_inv in E as (u1 & w1 & E1 & E). apply ret_inv in E as [-> ->]. split; [reflexivity|].
  exact (proj2 (N_close _ _ _ _ _ _ _ _ H E1)).
Qed.
Lemma NoDup_small (X Y own : list Z) : (length X <= 1)%nat -> (length Y <= 1)%nat -> NoDup own ->
  (forall x, In x (X ++ Y) -> ~ In x own) -> (forall x, In x X -> ~ In x Y) -> NoDup (X ++ Y ++ own).
Proof.
  intros HX HY Hn Hf Hd.
  assert (NY : NoDup (Y ++ own)).
  { destruct Y as [|y [|y2 Y]]; [exact Hn| |cbn in HY; lia]. cbn [app]. constructor; [|exact Hn]. apply Hf. apply in_or_app. right. left. reflexivity. }
  destruct X as [|x [|x2 X]]; [exact NY| |cbn in HX; lia]. cbn [app]. constructor; [|exact NY].
  intros Hin. apply in_app_or in Hin as [Hin|Hin]; [exact (Hd x (or_introl eq_refl) Hin)|].
  refine (Hf x _ Hin). left. reflexivity.
Qed.
Lemma pown_len h : (length (pown h) <= 1)%nat.
Proof. unfold pown. destruct (h =? HANDLE_INVALID); cbn; lia. Qed.
Lemma cown_len ty h : (length (cown ty h) <= 1)%nat.
Proof. unfold cown. destruct (_ && _); cbn; lia. Qed.
Lemma N_alloc T own c r p' ty c' w' : NoDup own -> RI T own c r p' ty c' w' -> fqn T (pown p' ++ cown ty c' ++ own) c w'.
Proof.
  intros Hn (Hq & Hf & Hd & _). split; [exact Hq|]. apply NoDup_small; auto using pown_len, cown_len.
Qed.

Lemma keep_std_nz r h : r <> 0 -> keep_std r h = h.
Proof. intros H. unfold keep_std. destruct (Z.eqb_spec r 0); [contradiction|reflexivity]. Qed.

(* the canonical layout of what a start in progress owns *)
Definition OWN (p : rp) (o : options) (cin cout cerr cexit : Z) : list Z :=
  pown (Lib.h_exit p) ++ pown cexit ++
  pown (h_err p) ++ cown (rd_type (o_err o)) cerr ++
  pown (h_out p) ++ cown (rd_type (o_out o)) cout ++
  pown (h_in p) ++ cown (rd_type (o_in o)) cin ++ [].

(* the exit block after a failure: everything the start opened is closed, the handle's pipes are invalid *)
Lemma N_finish_fail T c p r o cin cout cerr cexit w res w' : r < 0 ->
  fqn T (OWN p o cin cout cerr cexit) c w ->
  start_finish p r o cin cout cerr cexit w = Ret res w' ->
  fqn T [] c w' /\ fst res = r /\
  h_in (snd res) = HANDLE_INVALID /\ h_out (snd res) = HANDLE_INVALID /\ h_err (snd res) = HANDLE_INVALID /\ Lib.h_exit (snd res) = HANDLE_INVALID /\
  h_status (snd res) = h_status p /\ h_handle (snd res) = PROCESS_INVALID /\ h_cout (snd res) = h_cout p /\ h_cerr (snd res) = h_cerr p.
Proof.
  intros Hr H E. unfold start_finish in E. cbv zeta in E. rewrite !keep_std_nz in E by lia. unfold OWN in H.
  destruct (Z.eqb_spec r 0); [lia|]. destruct (Z.ltb_spec r 0); [|lia].
  apply bind_inv in E as (u1 & w1 & E1 & E).
  destruct (N_rdestroy T (pown (Lib.h_exit p) ++ pown cexit ++ pown (h_err p) ++ cown (rd_type (o_err o)) cerr ++ pown (h_out p) ++ cown (rd_type (o_out o)) cout ++ pown (h_in p)) []
                cin (rd_type (o_in o)) _ _ _ _ ltac:(repeat rewrite <- app_assoc in *; rewrite ?app_nil_r in *; exact H) E1) as [-> H1].
  apply bind_inv in E as (u2 & w2 & E2 & E).
  destruct (N_rdestroy T (pown (Lib.h_exit p) ++ pown cexit ++ pown (h_err p) ++ cown (rd_type (o_err o)) cerr ++ pown (h_out p)) (pown (h_in p))
                cout (rd_type (o_out o)) _ _ _ _ ltac:(repeat rewrite <- app_assoc in *; rewrite ?app_nil_r in *; exact H1) E2) as [-> H2].
  apply bind_inv in E as (u3 & w3 & E3 & E).
  destruct (N_rdestroy T (pown (Lib.h_exit p) ++ pown cexit ++ pown (h_err p)) (pown (h_out p) ++ pown (h_in p))
                cerr (rd_type (o_err o)) _ _ _ _ ltac:(repeat rewrite <- app_assoc in *; rewrite ?app_nil_r in *; exact H2) E3) as [-> H3].
  apply bind_inv in E as (u4 & w4 & E4 & E).
  apply bind_inv in E4 as (u4' & w4' & E4 & E4'). apply ret_inv in E4' as [_ ->].
  destruct (N_close T (pown (Lib.h_exit p)) (pown (h_err p) ++ pown (h_out p) ++ pown (h_in p))
                cexit _ _ _ _ ltac:(repeat rewrite <- app_assoc in *; rewrite ?app_nil_r in *; exact H3) E4) as [_ H4].
  apply bind_inv in E as (i & w5 & E5 & E).
  destruct (N_close T (pown (Lib.h_exit p) ++ pown (h_err p) ++ pown (h_out p)) []
                (h_in p) _ _ _ _ ltac:(repeat rewrite <- app_assoc in *; rewrite ?app_nil_r in *; exact H4) E5) as [-> H5].
  apply bind_inv in E as (ou & w6 & E6 & E).
  destruct (N_close T (pown (Lib.h_exit p) ++ pown (h_err p)) []
                (h_out p) _ _ _ _ ltac:(repeat rewrite <- app_assoc in *; rewrite ?app_nil_r in *; exact H5) E6) as [-> H6].
  apply bind_inv in E as (e & w7 & E7 & E).
  destruct (N_close T (pown (Lib.h_exit p)) []
                (h_err p) _ _ _ _ ltac:(repeat rewrite <- app_assoc in *; rewrite ?app_nil_r in *; exact H6) E7) as [-> H7].
  apply bind_inv in E as (x & w8 & E8 & E).
  destruct (N_close T [] []
                (Lib.h_exit p) _ _ _ _ ltac:(repeat rewrite <- app_assoc in *; rewrite ?app_nil_r in *; exact H7) E8) as [-> H8].
  apply ret_inv in E as [-> ->]. cbn [fst snd]. split; [exact H8|]. repeat split.
Qed.

(* the exit block after a success: the child ends are closed, the handle keeps its own ends *)
Lemma N_finish_ok T c p r o cin cout cerr cexit w res w' : 0 < r ->
  fqn T (OWN p o cin cout cerr cexit) c w ->
  start_finish p r o cin cout cerr cexit w = Ret res w' ->
  fqn T (pown (Lib.h_exit p) ++ pown (h_err p) ++ pown (h_out p) ++ pown (h_in p)) c w' /\ fst res = r /\
  h_in (snd res) = h_in p /\ h_out (snd res) = h_out p /\ h_err (snd res) = h_err p /\ Lib.h_exit (snd res) = Lib.h_exit p /\
  h_status (snd res) = STATUS_IN_PROGRESS /\ h_handle (snd res) = h_handle p /\ h_cout (snd res) = HANDLE_INVALID /\ h_cerr (snd res) = HANDLE_INVALID.
Proof.
  intros Hr H E. unfold start_finish in E. cbv zeta in E. rewrite !keep_std_nz in E by lia. unfold OWN in H.
  destruct (Z.eqb_spec r 0); [lia|]. destruct (Z.ltb_spec r 0); [lia|].
  apply bind_inv in E as (u1 & w1 & E1 & E).
  destruct (N_rdestroy T (pown (Lib.h_exit p) ++ pown cexit ++ pown (h_err p) ++ cown (rd_type (o_err o)) cerr ++ pown (h_out p) ++ cown (rd_type (o_out o)) cout ++ pown (h_in p)) []
                cin (rd_type (o_in o)) _ _ _ _ ltac:(repeat rewrite <- app_assoc in *; rewrite ?app_nil_r in *; exact H) E1) as [-> H1].
  apply bind_inv in E as (u2 & w2 & E2 & E).
  destruct (N_rdestroy T (pown (Lib.h_exit p) ++ pown cexit ++ pown (h_err p) ++ cown (rd_type (o_err o)) cerr ++ pown (h_out p)) (pown (h_in p))
                cout (rd_type (o_out o)) _ _ _ _ ltac:(repeat rewrite <- app_assoc in *; rewrite ?app_nil_r in *; exact H1) E2) as [-> H2].
  apply bind_inv in E as (u3 & w3 & E3 & E).
  destruct (N_rdestroy T (pown (Lib.h_exit p) ++ pown cexit ++ pown (h_err p)) (pown (h_out p) ++ pown (h_in p))
                cerr (rd_type (o_err o)) _ _ _ _ ltac:(repeat rewrite <- app_assoc in *; rewrite ?app_nil_r in *; exact H2) E3) as [-> H3].
  apply bind_inv in E as (u4 & w4 & E4 & E).
  apply bind_inv in E4 as (u4' & w4' & E4 & E4'). apply ret_inv in E4' as [_ ->].
  destruct (N_close T (pown (Lib.h_exit p)) (pown (h_err p) ++ pown (h_out p) ++ pown (h_in p))
                cexit _ _ _ _ ltac:(repeat rewrite <- app_assoc in *; rewrite ?app_nil_r in *; exact H3) E4) as [_ H4].
  apply ret_inv in E as [-> ->]. cbn [fst snd]. split; [exact H4|]. repeat split.
Qed.

Lemma parse_input_pipe o0 a o : parse_options o0 a = Some o -> o_input_data o = true -> rd_type (o_in o) = REPROC_REDIRECT_PIPE.
Proof.
  unfold parse_options. intros H Hd.
  destruct (parse_redirect (o_in o0) _ _ _ _ _) as [i|]; [|discriminate].
  destruct (parse_redirect (o_out o0) _ _ _ _ _) as [ou|]; [|discriminate].
  destruct (parse_redirect (o_err o0) _ _ _ _ _) as [e|]; [|discriminate].
  destruct (o_input_data o0 && negb (rd_type i =? REPROC_REDIRECT_PIPE)) eqn:E1; [discriminate|].
  destruct ((0 <? o_input_size o0) && negb (o_input_data o0)); [discriminate|].
  destruct (if o_fork o0 then _ else _); [discriminate|]. injection H as <-. cbn in *.
  rewrite Hd in E1. cbn in E1. destruct (Z.eqb_spec (rd_type i) REPROC_REDIRECT_PIPE); [assumption|discriminate].
Qed.

Lemma N_setup_input T A B pin hd src size c w r pin' w' : fqn T (A ++ pown pin ++ B) c w ->
  (hd = true -> pin <> HANDLE_INVALID) ->
  setup_input pin hd src size w = Ret (r, pin') w' -> fqn T (A ++ pown pin' ++ B) c w'.
Proof.
  intros H Hv E. unfold setup_input in E. destruct hd; cbn [negb] in E.
  2:{ apply ret_inv in E as [E ->]. injection E as _ ->. exact H. }
  specialize (Hv eq_refl).
  apply bind_inv in E as (r1 & w1 & E1 & E).
  assert (H1 : fqn T (A ++ pown pin ++ B) c w1).
  { destruct H as [Hq Hn]. split; [|exact Hn]. refine (F_nonblocking _ _ _ _ _ _ _ _ Hq _ E1).
    rewrite (pown_valid _ Hv). apply in_elt. }
  destruct (r1 <? 0). { apply ret_inv in E as [E ->]. injection E as _ ->. exact H1. }
  apply bind_inv in E as (r2 & w2 & E2 & E).
  pose proof (N_neutral _ _ _ _ _ _ _ (fc_input_loop _ _ _ _ _) H1 E2) as H2.
  destruct (r2 <? 0). { apply ret_inv in E as [E ->]. injection E as _ ->. exact H2. }
  apply bind_inv in E as (pp & w3 & E3 & E). apply ret_inv in E as [E ->]. injection E as _ ->.
  destruct (N_close _ _ _ _ _ _ _ _ H2 E3) as [-> H3]. exact H3.
Qed.

Lemma process_start_sign pr argv o ck w r pid w' : process_start pr argv o ck w = Ret (r, pid) w' -> r < 0 \/ r = 1.
Proof.
  intros E0. unfold process_start in E0. cbv zeta in E0.
  assert (Hfin0 : forall v pid0 prd pwr blk env w1, v < 0 \/ v = 1 ->
            (pipe_destroy prd;> pipe_destroy pwr;> sys_free blk;> strv_free env;> ret (v, pid0)) w1 = Ret (r, pid) w' -> r < 0 \/ r = 1).
  { intros v pid0 prd pwr blk env w1 Hv Ef.
    apply bind_inv in Ef as (u1 & v1 & _ & Ef). apply bind_inv in Ef as (u2 & v2 & _ & Ef).
    apply bind_inv in Ef as (u3 & v3 & _ & Ef). apply bind_inv in Ef as (u4 & v4 & _ & Ef).
    apply ret_inv in Ef as [Ef _]. injection Ef as -> _. exact Hv. }
  assert (Hfin : forall x pid0 prd pwr blk env w1,
            (pipe_destroy prd;> pipe_destroy pwr;> sys_free blk;> strv_free env;> ret (if x <? 0 then x else 1, pid0)) w1 = Ret (r, pid) w' -> r < 0 \/ r = 1).
  { intros x pid0 prd pwr blk env w1. apply Hfin0. destruct (Z.ltb_spec x 0); [left; assumption|right; reflexivity]. }
  apply bind_inv in E0 as ([r1 pp] & w1 & _ & E0). cbv beta iota in E0.
  destruct pp as [[prd pwr]|]; [|exact (Hfin _ _ _ _ _ _ _ E0)].
  apply bind_inv in E0 as (pg & w2 & _ & E0).
  match type of E0 with (if ?b then _ else _) _ = _ => destruct b end.
  { apply bind_inv in E0 as (e & w2' & _ & E0). exact (Hfin _ _ _ _ _ _ _ E0). }
  apply bind_inv in E0 as (penv & w2' & _ & E0).
  apply bind_inv in E0 as (env & w3 & _ & E0).
  destruct env as [env|].
  2:{ apply bind_inv in E0 as (e & w3' & _ & E0). exact (Hfin _ _ _ _ _ _ _ E0). }
  apply bind_inv in E0 as (r4 & w4 & _ & E0).
  destruct (Z.ltb_spec r4 0). { exact (Hfin0 _ _ _ _ _ _ _ (or_introl H) E0). }
  apply bind_inv in E0 as (x5 & w5 & _ & E0).
  apply bind_inv in E0 as ([q rs] & w6 & _ & E0). cbv beta iota zeta in E0.
  destruct (0 <? (if q <? 0 then 0 else decode_int (runs_bytes rs))).
  - apply bind_inv in E0 as ([rw stw] & w7 & _ & E0). cbv beta iota in E0.
    apply bind_inv in E0 as (r8 & w8 & _ & E0). exact (Hfin _ _ _ _ _ _ _ E0).
  - exact (Hfin0 _ _ _ _ _ _ _ (or_intror eq_refl) E0).
Qed.

Lemma parse_argv o0 argv o : parse_options o0 (argv_form_of argv) = Some o -> argv <> Some [].
Proof.
  intros H ->. unfold parse_options in H. cbn [argv_form_of] in H.
  destruct (parse_redirect (o_in o0) _ _ _ _ _) as [i|]; [|discriminate].
  destruct (parse_redirect (o_out o0) _ _ _ _ _) as [ou|]; [|discriminate].
  destruct (parse_redirect (o_err o0) _ _ _ _ _) as [e|]; [|discriminate].
  destruct (o_input_data o0 && _); [discriminate|]. destruct ((0 <? o_input_size o0) && _); [discriminate|].
  destruct (o_fork o0); discriminate.
Qed.

(* what the handle owns between calls: its four pipe ends, nothing else *)
Definition POWN (p : rp) : list Z := pown (Lib.h_exit p) ++ pown (h_err p) ++ pown (h_out p) ++ pown (h_in p).

(* what a call of start leaves in the caller's descriptor table *)
Definition start_fd_post (T : gmap Z fdent) (c r : Z) (p p' : rp) (w' : world) : Prop :=
  (r < 0 /\ fqn T [] c w' /\ h_in p' = HANDLE_INVALID /\ h_out p' = HANDLE_INVALID /\ h_err p' = HANDLE_INVALID /\ Lib.h_exit p' = HANDLE_INVALID /\
   h_status p' = h_status p /\ h_handle p' = PROCESS_INVALID /\ h_cout p' = h_cout p /\ h_cerr p' = h_cerr p) \/
  (0 < r /\ fqn T (POWN p') c w' /\ h_status p' = STATUS_IN_PROGRESS /\ c < h_handle p' /\ h_cout p' = HANDLE_INVALID /\ h_cerr p' = HANDLE_INVALID).

Ltac own_shape Hi Ho He Hx :=
  unfold OWN; cbn [h_in h_out h_err Lib.h_exit rp_with_in rp_with_out rp_with_err rp_with_exit rp_with_pipes rp_with_handle
                   rd_type o_in o_out o_err o_with_redirects o_with_parsed];
  rewrite ?Hi, ?Ho, ?He, ?Hx, ?cown_invalid; change (pown HANDLE_INVALID) with (@nil Z); change (pown PIPE_INVALID) with (@nil Z);
  cbn [app]; reflexivity.

Lemma reproc_start_fq T p argv o0 src ck w r p' w' :
  fqn T [] (w_cur w) w -> 0 <= w_cur w -> NB w -> (forall pc0, kp (w_cur w) (ck pc0)) ->
  h_in p = HANDLE_INVALID -> h_out p = HANDLE_INVALID -> h_err p = HANDLE_INVALID -> Lib.h_exit p = HANDLE_INVALID ->
  h_handle p = PROCESS_INVALID ->
  reproc_start p argv o0 src ck w = Ret (r, p') w' ->
  start_fd_post T (w_cur w) r p p' w'.
Proof.
  intros H0 Hpos Hnb Hk Hi Ho He Hx Hh E. unfold reproc_start in E.
  set (c := w_cur w) in *. assert (W : wf w) by apply H0.
  assert (Hfail : forall p1 r1 o1 cin cout cerr cexit w1, r1 < 0 -> fqn T (OWN p1 o1 cin cout cerr cexit) c w1 ->
            h_status p1 = h_status p -> h_cout p1 = h_cout p -> h_cerr p1 = h_cerr p ->
            start_finish p1 r1 o1 cin cout cerr cexit w1 = Ret (r, p') w' -> start_fd_post T c r p p' w').
  { intros p1 r1 o1 cin cout cerr cexit w1 Hr H1 Es Eo Ee E1.
    destruct (N_finish_fail _ _ _ _ _ _ _ _ _ _ _ _ Hr H1 E1) as (Hq & Er & A1 & A2 & A3 & A4 & A5 & A6 & A7 & A8). cbn [fst snd] in *.
    left. split; [lia|]. split; [exact Hq|]. repeat split; congruence. }
  destruct (negb (h_status p =? STATUS_NOT_STARTED)).
  { apply ret_inv in E as [E ->]. injection E as -> ->. left. split; [reflexivity|]. split; [exact H0|]. repeat split; assumption. }
  destruct (parse_options o0 (argv_form_of argv)) as [o|] eqn:Epo.
  2:{ refine (Hfail _ _ _ _ _ _ _ _ _ _ _ _ _ E); [reflexivity| |reflexivity|reflexivity|reflexivity].
      replace (OWN p o0 HANDLE_INVALID HANDLE_INVALID HANDLE_INVALID PIPE_INVALID) with (@nil Z); [exact H0|]. symmetry. own_shape Hi Ho He Hx. }
  apply bind_inv in E as ([[[r1 pin] cin] rdi] & w1 & E1 & E). cbv beta iota zeta in E.
  pose proof (pc_run _ _ _ _ (pc_redirect_init _ _ _ _ _ _) W E1) as P1.
  rewrite Hi in E1.
  pose proof (N_alloc _ _ _ _ _ _ _ _ (proj2 H0) (F_redirect_init _ _ _ _ _ _ _ _ _ _ _ _ _ (proj1 H0) E1)) as H1.
  destruct (Z.ltb_spec r1 0) as [Hr1|Hr1].
  { refine (Hfail _ _ _ _ _ _ _ _ Hr1 _ _ _ _ E); [|reflexivity|reflexivity|reflexivity].
    match goal with |- fqn _ ?L _ _ => replace L with (pown pin ++ cown (rd_type rdi) cin ++ []); [exact H1|] end. symmetry. own_shape Hi Ho He Hx. }
  apply bind_inv in E as ([[[r2 pout] cout] rdo] & w2 & E2 & E). cbv beta iota zeta in E.
  pose proof (pcpost_trans _ _ _ P1 (pc_run _ _ _ _ (pc_redirect_init _ _ _ _ _ _) ltac:(apply P1) E2)) as P2.
  change (h_out (rp_with_in pin p)) with (h_out p) in E2. rewrite Ho in E2.
  pose proof (N_alloc _ _ _ _ _ _ _ _ (proj2 H1) (F_redirect_init _ _ _ _ _ _ _ _ _ _ _ _ _ (proj1 H1) E2)) as H2.
  destruct (Z.ltb_spec r2 0) as [Hr2|Hr2].
  { refine (Hfail _ _ _ _ _ _ _ _ Hr2 _ _ _ _ E); [|reflexivity|reflexivity|reflexivity].
    match goal with |- fqn _ ?L _ _ => replace L with (pown pout ++ cown (rd_type rdo) cout ++ pown pin ++ cown (rd_type rdi) cin ++ []); [exact H2|] end.
    symmetry. own_shape Hi Ho He Hx. }
  apply bind_inv in E as ([[[r3 perr] cerr] rde] & w3 & E3 & E). cbv beta iota zeta in E.
  pose proof (pcpost_trans _ _ _ P2 (pc_run _ _ _ _ (pc_redirect_init _ _ _ _ _ _) ltac:(apply P2) E3)) as P3.
  change (h_err (rp_with_out pout (rp_with_in pin p))) with (h_err p) in E3. rewrite He in E3.
  pose proof (N_alloc _ _ _ _ _ _ _ _ (proj2 H2) (F_redirect_init _ _ _ _ _ _ _ _ _ _ _ _ _ (proj1 H2) E3)) as H3.
  destruct (Z.ltb_spec r3 0) as [Hr3|Hr3].
  { refine (Hfail _ _ _ _ _ _ _ _ Hr3 _ _ _ _ E); [|reflexivity|reflexivity|reflexivity].
    match goal with |- fqn _ ?L _ _ => replace L with (pown perr ++ cown (rd_type rde) cerr ++ pown pout ++ cown (rd_type rdo) cout ++ pown pin ++ cown (rd_type rdi) cin ++ []); [exact H3|] end.
    symmetry. own_shape Hi Ho He Hx. }
  apply bind_inv in E as ([r4 pp] & w4 & E4 & E). cbv beta iota zeta in E.
  pose proof (pcpost_trans _ _ _ P3 (pc_run _ _ _ _ pc_pipe_init ltac:(apply P3) E4)) as P4.
  pose proof (F_pipe_init _ _ _ _ _ _ _ (proj1 H3) E4) as H4.
  pose proof (S_pipe_init w3 ltac:(apply H3) I) as S4. rewrite E4 in S4. destruct S4 as [_ S4]. cbn [fst snd] in S4.
  destruct pp as [[pexit cexit]|].
  2:{ refine (Hfail _ _ _ _ _ _ _ _ S4 _ _ _ _ E); [|reflexivity|reflexivity|reflexivity].
      match goal with |- fqn _ ?L _ _ => replace L with (pown perr ++ cown (rd_type rde) cerr ++ pown pout ++ cown (rd_type rdo) cout ++ pown pin ++ cown (rd_type rdi) cin ++ []); [split; [exact H4|apply H3]|] end.
      symmetry. own_shape Hi Ho He Hx. }
  destruct H4 as (H4 & Na & Nb & Hab).
  pose proof (fq_valid _ _ _ _ pexit H4 (or_introl eq_refl)) as Vx.
  pose proof (fq_valid _ _ _ _ cexit H4 (or_intror (or_introl eq_refl))) as Vc.
  assert (H4n : fqn T (pown pexit ++ pown cexit ++ pown perr ++ cown (rd_type rde) cerr ++ pown pout ++ cown (rd_type rdo) cout ++ pown pin ++ cown (rd_type rdi) cin ++ []) c w4).
  { rewrite (pown_valid _ Vx), (pown_valid _ Vc). cbn [app]. split; [exact H4|]. constructor; [intros [X|X]; [congruence|contradiction]|].
    constructor; [exact Nb|apply H3]. }
  apply bind_inv in E as ([r5 pin5] & w5 & E5 & E). cbv beta iota zeta in E.
  pose proof (pcpost_trans _ _ _ P4 (pc_run _ _ _ _ (pc_setup_input _ _ _ _) ltac:(apply P4) E5)) as P5.
  assert (Hpin : o_input_data o = true -> pin <> HANDLE_INVALID).
  { intros Hd. exact (proj2 (F_redirect_init_pipe _ _ _ _ _ _ _ _ _ _ _ _ _ (proj1 H0) (parse_input_pipe _ _ _ Epo Hd) E1) Hr1). }
  pose proof (N_setup_input T (pown pexit ++ pown cexit ++ pown perr ++ cown (rd_type rde) cerr ++ pown pout ++ cown (rd_type rdo) cout) (cown (rd_type rdi) cin ++ [])
                pin _ _ _ _ _ _ _ _ ltac:(repeat rewrite <- app_assoc in *; exact H4n) Hpin E5) as H5.
  repeat rewrite <- app_assoc in H5.
  destruct (Z.ltb_spec r5 0) as [Hr5|Hr5].
  { refine (Hfail _ _ _ _ _ _ _ _ Hr5 _ _ _ _ E); [|reflexivity|reflexivity|reflexivity].
    match goal with |- fqn _ ?L _ _ => replace L with (pown pexit ++ pown cexit ++ pown perr ++ cown (rd_type rde) cerr ++ pown pout ++ cown (rd_type rdo) cout ++ pown pin5 ++ cown (rd_type rdi) cin ++ []); [exact H5|] end.
    symmetry. own_shape Hi Ho He Hx. }
  apply bind_inv in E as ([r6 h6] & w6 & E6 & E). cbv beta iota zeta in E.
  assert (C5 : w_cur w5 = c) by apply H5.
  match type of E6 with process_start _ _ _ ?k _ = _ => assert (Hk5 : kp c k) end.
  { apply kp_bind; [apply kp_start_finish|]. intros [x pc0]. apply Hk. }
  destruct (process_start_fq _ _ _ _ _ _ _ _ _ _ _ (proj1 H5) Hpos Hk5 E6) as [H6q Pid6].
  assert (H6 : fqn T (pown pexit ++ pown cexit ++ pown perr ++ cown (rd_type rde) cerr ++ pown pout ++ cown (rd_type rdo) cout ++ pown pin5 ++ cown (rd_type rdi) cin ++ []) c w6)
    by (split; [exact H6q|apply H5]).
  destruct (Z.ltb_spec r6 0) as [Hr6|Hr6].
  { refine (Hfail _ _ _ _ _ _ _ _ Hr6 _ _ _ _ E); [|reflexivity|reflexivity|reflexivity].
    match goal with |- fqn _ ?L _ _ => replace L with (pown pexit ++ pown cexit ++ pown perr ++ cown (rd_type rde) cerr ++ pown pout ++ cown (rd_type rdo) cout ++ pown pin5 ++ cown (rd_type rdi) cin ++ []); [exact H6|] end.
    symmetry. own_shape Hi Ho He Hx. }
  assert (Hpid : c < h6).
  { destruct (process_start_result _ _ _ _ _ _ _ _ ltac:(apply H5) ltac:(rewrite C5; exact Hpos) (NB_mono _ _ P5 Hnb) ltac:(rewrite C5; exact Hk5) (parse_argv _ _ _ Epo) E6)
      as [[X _]|(_ & X & _)]; [lia|].
    destruct Pid6 as [Y|Y]; [|exact Y]. cbn in Y. rewrite Hh in Y. unfold PROCESS_INVALID in Y. lia. }
  apply bind_inv in E as (dl & w7 & E7 & E).
  assert (H7 : fqn T (pown pexit ++ pown cexit ++ pown perr ++ cown (rd_type rde) cerr ++ pown pout ++ cown (rd_type rdo) cout ++ pown pin5 ++ cown (rd_type rdi) cin ++ []) c w7).
  { destruct (negb (o_deadline _ =? REPROC_INFINITE)).
    - apply bind_inv in E7 as (n & w7' & En & E7). apply ret_inv in E7 as [_ ->]. exact (N_neutral _ _ _ _ _ _ _ fc_now H6 En).
    - apply ret_inv in E7 as [_ ->]. exact H6. }
  assert (Hr6' : 0 < r6) by (destruct (process_start_sign _ _ _ _ _ _ _ _ E6); lia).
  eapply (N_finish_ok T c) in E; [|exact Hr6'|].
  2:{ match goal with |- fqn _ ?L _ _ => replace L with (pown pexit ++ pown cexit ++ pown perr ++ cown (rd_type rde) cerr ++ pown pout ++ cown (rd_type rdo) cout ++ pown pin5 ++ cown (rd_type rdi) cin ++ []); [exact H7|] end.
      symmetry. own_shape Hi Ho He Hx. }
  destruct E as (H8 & Er & A1 & A2 & A3 & A4 & A5 & A6 & A7 & A8). cbn [fst snd] in *.
  right. split; [lia|]. unfold POWN. rewrite A1, A2, A3, A4. split; [exact H8|]. split; [exact A5|]. split; [rewrite A6; exact Hpid|auto].
Qed.

(* THE THEOREM at the API, descriptors: after a failed start the caller's descriptor table is
   exactly what it was; after a successful one it differs from it by the handle's own (at most
   four) pipe ends, each a descriptor that was free before -- for every fault plan *)
Theorem reproc_start_fds p argv o0 src ck w r p' w' :
  wf w -> 0 <= w_cur w -> NB w -> (forall pc0, kp (w_cur w) (ck pc0)) ->
  h_in p = HANDLE_INVALID -> h_out p = HANDLE_INVALID -> h_err p = HANDLE_INVALID -> Lib.h_exit p = HANDLE_INVALID ->
  h_handle p = PROCESS_INVALID ->
  reproc_start p argv o0 src ck w = Ret (r, p') w' ->
  (r < 0 /\ pr_fds (curp w') = pr_fds (curp w)) \/
  (0 < r /\ (forall fd, ~ In fd (POWN p') -> pr_fds (curp w') !! fd = pr_fds (curp w) !! fd) /\
            (forall fd, In fd (POWN p') -> pr_fds (curp w) !! fd = None /\ is_Some (pr_fds (curp w') !! fd)) /\ NoDup (POWN p')).
Proof.
  intros W Hpos Hnb Hk Hi Ho He Hx Hh E.
  assert (H0 : fqn (tb w) [] (w_cur w) w) by (split; [apply fq_start, W|constructor]).
  destruct (reproc_start_fq _ _ _ _ _ _ _ _ _ _ H0 Hpos Hnb Hk Hi Ho He Hx Hh E) as [(Hr & [Hq _] & _)|(Hr & [Hq Hn] & _)].
  - left. split; [exact Hr|]. exact (fq_end _ _ _ _ Hq (fun x X => X)).
  - right. split; [exact Hr|]. destruct Hq as (_ & _ & A & B). split; [exact A|]. split; [|exact Hn].
    intros fd Hfd. destruct (B fd Hfd) as (B1 & B2 & _). auto.
Qed.

(* ================= 8. the other calls of the API ================= *)
Lemma fc_sys_poll fds tmo : fc (sys_poll fds tmo).
Proof.
  unfold sys_poll. cbv zeta. apply fc_bind; [apply fc_prelude|]. intros [e|].
  { apply fc_bind; [apply fc_last_lat|]. intros l. apply fc_bind; [apply fc_set_errno|]. intros _.
    apply fc_bind; [apply fc_log|]. intros _. apply fc_ret. }
  intros w W. pose proof (fpost_block (poll_ready fds) tmo w W) as PB.
  destruct (block_until (poll_ready fds) tmo w) as [w1|w1|w1|w1]; cbn [blocked_world] in PB; auto.
  - rewrite run_log_ret. eapply fpost_trans; [exact PB|]. split; [apply wf_with_trace, PB|split; reflexivity].
  - rewrite run_log_ret. eapply fpost_trans; [exact PB|]. split; [apply wf_with_trace, PB|split; reflexivity].
Qed.
Lemma fc_pipe_poll srcs tmo : fc (pipe_poll srcs tmo).
Proof.
  unfold pipe_poll. apply fc_bind; [apply fc_heap_alloc|]. intros blk.
  destruct (blk =? 0).
  - apply fc_bind; [apply fc_gets|]. intros e. apply fc_bind; [apply fc_sys_free|]. intros _. apply fc_ret.
  - apply fc_bind; [apply fc_sys_poll|]. intros [r rev]. destruct (r <? 0).
    + apply fc_bind; [apply fc_gets|]. intros e. apply fc_bind; [apply fc_sys_free|]. intros _. apply fc_ret.
    + apply fc_bind; [apply fc_sys_free|]. intros _. apply fc_ret.
Qed.
Lemma fc_expiry t d : fc (expiry t d).
Proof.
  unfold expiry. destruct (expiry_needs_clock t d); [|apply fc_ret].
  apply fc_bind; [apply fc_now|intros n; apply fc_ret].
Qed.
Lemma fc_fed_loop srcs : forall i e mn, fc (fed_loop srcs i e mn).
Proof.
  induction srcs as [|[[p|] x] r IH]; intros i e mn; cbn [fed_loop]; [apply fc_ret| |apply IH].
  apply fc_bind; [apply fc_expiry|]. intros cur.
  destruct (cur =? REPROC_DEADLINE); [apply fc_ret|]. destruct (cur =? REPROC_INFINITE); [apply IH|].
  destruct ((mn =? REPROC_INFINITE) || (cur <? mn)); apply IH.
Qed.
Lemma fc_reproc_poll srcs tmo : fc (reproc_poll srcs tmo).
Proof.
  unfold reproc_poll. destruct srcs as [|s0 sr]; [apply fc_ret|]. set (srcs := s0 :: sr).
  apply fc_bind; [apply fc_fed_loop|]. intros earliest. cbv zeta.
  apply fc_bind; [apply fc_expiry|]. intros first.
  destruct (first =? REPROC_DEADLINE); [apply fc_ret|].
  apply fc_bind; [apply fc_heap_alloc|]. intros blk. destruct (blk =? 0); [apply fc_ret|].
  destruct (negb (existsb _ _)). { apply fc_bind; [apply fc_sys_free|]. intros _. apply fc_ret. }
  apply fc_bind; [apply fc_pipe_poll|]. intros [r [rev|]].
  2:{ apply fc_bind; [apply fc_sys_free|]. intros _. apply fc_ret. }
  destruct ((r =? 0) && negb (first =? tmo)). { apply fc_bind; [apply fc_sys_free|]. intros _. apply fc_ret. }
  destruct (0 <? r); apply fc_bind; try apply fc_sys_free; intros _; apply fc_ret.
Qed.

(* a signal sent to another process *)
Lemma sys_kill_fpost pid sig w r w' : wf w -> pid <> w_cur w -> sys_kill pid sig w = Ret r w' -> fpost w w'.
Proof.
  intros W Hne E. unfold sys_kill in E. apply bind_inv in E as (f & w0 & Ep & E).
  pose proof (fc_run _ _ _ _ fc_prelude W Ep) as F0. apply (fpost_trans _ _ _ F0). destruct F0 as (W0 & C0 & T0).
  destruct f as [e|]; [exact (fc_run _ _ _ _ (fc_fail _ _ _ _) W0 E)|].
  destruct (pid <=? 0); [exact (fc_run _ _ _ _ (fc_done _ _ _ _ _) W0 E)|].
  apply bind_inv in E as (wg & w0' & Eg & E). apply get_inv in Eg as [-> ->].
  destruct (w_procs w0 !! pid) as [q|]; [|exact (fc_run _ _ _ _ (fc_fail _ _ _ _) W0 E)].
  destruct (pr_state q); [|exact (fc_run _ _ _ _ (fc_done _ _ _ _ _) W0 E)|exact (fc_run _ _ _ _ (fc_fail _ _ _ _) W0 E)].
  apply bind_inv in E as (u & w1 & Em & E). injection Em as _ <-.
  pose proof (flat_deliver pid sig w0) as F. unfold flat in F. injection F as _ Fc _ _ _ _ _ _ _ _.
  assert (K1 : keeps (w_cur w0) w0 (deliver pid sig w0)) by (apply keeps_deliver; congruence).
  assert (F1 : fpost w0 (deliver pid sig w0)).
  { split; [eapply keeps_wf; [exact W0|exact K1|exact Fc]|]. split; [exact Fc|].
    unfold tb, curp. rewrite Fc, (keeps_get_proc _ _ _ K1). reflexivity. }
  apply (fpost_trans _ _ _ F1). exact (fc_run _ _ _ _ (fc_done _ _ _ _ _) ltac:(apply F1) E).
Qed.

(* ---- the handle between calls ---- *)
Definition HI (T : gmap Z fdent) (c : Z) (p : rp) (w : world) : Prop :=
  fqn T (POWN p) c w /\ 0 <= c /\ h_cout p = HANDLE_INVALID /\ h_cerr p = HANDLE_INVALID /\
  (h_status p = STATUS_NOT_STARTED ->
     h_in p = HANDLE_INVALID /\ h_out p = HANDLE_INVALID /\ h_err p = HANDLE_INVALID /\ Lib.h_exit p = HANDLE_INVALID /\ h_handle p = PROCESS_INVALID) /\
  (h_status p <> STATUS_NOT_STARTED -> c < h_handle p).

Lemma HI_neutral {A} (m : MW A) T c p w a w' : fc m -> HI T c p w -> m w = Ret a w' -> HI T c p w'.
Proof. intros Hm (Hq & R) E. split; [exact (N_neutral _ _ _ _ _ _ _ Hm Hq E)|exact R]. Qed.
Lemma HI_fpost T c p w w' : HI T c p w -> fpost w w' -> HI T c p w'.
Proof. intros ([Hq Hn] & R) F. split; [split; [eapply fq_fpost; eassumption|exact Hn]|exact R]. Qed.

(* closing one of the four ends *)
Lemma HI_close_in T c p w u w' : HI T c p w -> pipe_destroy (h_in p) w = Ret u w' -> HI T c (rp_with_in u p) w'.
Proof.
  intros (Hq & Hc & Ho & He & Hns & Hpid) E. unfold POWN in Hq.
  destruct (N_close T (pown (Lib.h_exit p) ++ pown (h_err p) ++ pown (h_out p)) [] (h_in p) _ _ _ _
              ltac:(repeat rewrite <- app_assoc in *; rewrite ?app_nil_r in *; exact Hq) E) as [-> H1].
  split; [|split; [exact Hc|split; [exact Ho|split; [exact He|split; [intros X; destruct (Hns X) as (X1 & X2 & X3 & X4 & X5); repeat split; assumption|exact Hpid]]]]].
  unfold POWN. cbn [h_in h_out h_err Lib.h_exit rp_with_in rp_with_pipes]. change (pown HANDLE_INVALID) with (@nil Z).
  repeat rewrite <- app_assoc in *. exact H1.
Qed.
Lemma HI_close_out T c p w u w' : HI T c p w -> pipe_destroy (h_out p) w = Ret u w' -> HI T c (rp_with_out u p) w'.
Proof.
  intros (Hq & Hc & Ho & He & Hns & Hpid) E. unfold POWN in Hq.
  destruct (N_close T (pown (Lib.h_exit p) ++ pown (h_err p)) (pown (h_in p)) (h_out p) _ _ _ _
              ltac:(repeat rewrite <- app_assoc in *; rewrite ?app_nil_r in *; exact Hq) E) as [-> H1].
  split; [|split; [exact Hc|split; [exact Ho|split; [exact He|split; [intros X; destruct (Hns X) as (X1 & X2 & X3 & X4 & X5); repeat split; assumption|exact Hpid]]]]].
  unfold POWN. cbn [h_in h_out h_err Lib.h_exit rp_with_out rp_with_pipes]. change (pown HANDLE_INVALID) with (@nil Z).
  repeat rewrite <- app_assoc in *. exact H1.
Qed.
Lemma HI_close_err T c p w u w' : HI T c p w -> pipe_destroy (h_err p) w = Ret u w' -> HI T c (rp_with_err u p) w'.
Proof.
  intros (Hq & Hc & Ho & He & Hns & Hpid) E. unfold POWN in Hq.
  destruct (N_close T (pown (Lib.h_exit p)) (pown (h_out p) ++ pown (h_in p)) (h_err p) _ _ _ _
              ltac:(repeat rewrite <- app_assoc in *; rewrite ?app_nil_r in *; exact Hq) E) as [-> H1].
  split; [|split; [exact Hc|split; [exact Ho|split; [exact He|split; [intros X; destruct (Hns X) as (X1 & X2 & X3 & X4 & X5); repeat split; assumption|exact Hpid]]]]].
  unfold POWN. cbn [h_in h_out h_err Lib.h_exit rp_with_err rp_with_pipes]. change (pown HANDLE_INVALID) with (@nil Z).
  repeat rewrite <- app_assoc in *. exact H1.
Qed.
Lemma HI_close_exit T c p w u w' : HI T c p w -> pipe_destroy (Lib.h_exit p) w = Ret u w' -> HI T c (rp_with_exit u p) w'.
Proof.
  intros (Hq & Hc & Ho & He & Hns & Hpid) E. unfold POWN in Hq.
  destruct (N_close T [] (pown (h_err p) ++ pown (h_out p) ++ pown (h_in p)) (Lib.h_exit p) _ _ _ _
              ltac:(repeat rewrite <- app_assoc in *; rewrite ?app_nil_r in *; exact Hq) E) as [-> H1].
  split; [|split; [exact Hc|split; [exact Ho|split; [exact He|split; [intros X; destruct (Hns X) as (X1 & X2 & X3 & X4 & X5); repeat split; assumption|exact Hpid]]]]].
  unfold POWN. cbn [h_in h_out h_err Lib.h_exit rp_with_exit rp_with_pipes]. change (pown HANDLE_INVALID) with (@nil Z).
  exact H1.
Qed.
(* on a handle that was never started there is nothing to close *)
Lemma destroy_invalid h w u w' : h = HANDLE_INVALID -> pipe_destroy h w = Ret u w' -> u = HANDLE_INVALID /\ w' = w.
Proof. intros -> E. unfold pipe_destroy, handle_destroy in E. change (HANDLE_INVALID =? HANDLE_INVALID) with true in E. cbv iota in E. apply ret_inv in E as [-> ->]. auto. Qed.

(* ---- read, write, close, poll ---- *)
Lemma HI_reproc_read T c p stream hb size w r rs p' w' : HI T c p w -> reproc_read p stream hb size w = Ret (r, rs, p') w' -> HI T c p' w'.
Proof.
  intros H E. unfold reproc_read in E.
  destruct (h_status p =? STATUS_IN_CHILD). { apply ret_inv in E as [E ->]. injection E as _ _ ->. exact H. }
  destruct (negb _). { apply ret_inv in E as [E ->]. injection E as _ _ ->. exact H. }
  destruct (negb hb). { apply ret_inv in E as [E ->]. injection E as _ _ ->. exact H. }
  cbv zeta in E.
  destruct ((if stream =? REPROC_STREAM_OUT then h_out p else h_err p) =? PIPE_INVALID). { apply ret_inv in E as [E ->]. injection E as _ _ ->. exact H. }
  apply bind_inv in E as ([r1 rs1] & w1 & E1 & E). cbv beta iota in E.
  assert (H1 : HI T c p w1).
  { refine (HI_neutral _ _ _ _ _ _ _ _ H E1). unfold pipe_read. apply fc_bind; [apply fc_sys_read|]. intros [q qs].
    destruct ((q =? 0) && (0 <? size)); [apply fc_ret|]. destruct (q <? 0); [|apply fc_ret].
    apply fc_bind; [apply fc_get_errno|]. intros e. apply fc_ret. }
  destruct (r1 =? REPROC_EPIPE).
  2:{ apply ret_inv in E as [E ->]. injection E as _ _ ->. exact H1. }
  apply bind_inv in E as (np & w2 & E2 & E). apply ret_inv in E as [E ->]. injection E as _ _ ->.
  destruct (stream =? REPROC_STREAM_OUT); [exact (HI_close_out _ _ _ _ _ _ H1 E2)|exact (HI_close_err _ _ _ _ _ _ H1 E2)].
Qed.
Lemma HI_reproc_write T c p hb data w r p' w' : HI T c p w -> reproc_write p hb data w = Ret (r, p') w' -> HI T c p' w'.
Proof.
  intros H E. unfold reproc_write in E.
  destruct (h_status p =? STATUS_IN_CHILD). { apply ret_inv in E as [E ->]. injection E as _ ->. exact H. }
  destruct (negb hb). { destruct (runs_len data =? 0); apply ret_inv in E as [E ->]; injection E as _ ->; exact H. }
  destruct (h_in p =? PIPE_INVALID). { apply ret_inv in E as [E ->]. injection E as _ ->. exact H. }
  apply bind_inv in E as (r1 & w1 & E1 & E).
  pose proof (HI_neutral _ _ _ _ _ _ _ (fc_pipe_write _ _) H E1) as H1.
  destruct (r1 =? REPROC_EPIPE).
  2:{ apply ret_inv in E as [E ->]. injection E as _ ->. exact H1. }
  apply bind_inv in E as (np & w2 & E2 & E). apply ret_inv in E as [E ->]. injection E as _ ->.
  exact (HI_close_in _ _ _ _ _ _ H1 E2).
Qed.
Lemma HI_reproc_close T c p stream w r p' w' : HI T c p w -> reproc_close p stream w = Ret (r, p') w' -> HI T c p' w'.
Proof.
  intros H E. unfold reproc_close in E.
  destruct (h_status p =? STATUS_IN_CHILD). { apply ret_inv in E as [E ->]. injection E as _ ->. exact H. }
  destruct (stream =? REPROC_STREAM_IN).
  { apply bind_inv in E as (np & w2 & E2 & E). apply ret_inv in E as [E ->]. injection E as _ ->. exact (HI_close_in _ _ _ _ _ _ H E2). }
  destruct (stream =? REPROC_STREAM_OUT).
  { apply bind_inv in E as (np & w2 & E2 & E). apply ret_inv in E as [E ->]. injection E as _ ->. exact (HI_close_out _ _ _ _ _ _ H E2). }
  destruct (stream =? REPROC_STREAM_ERR).
  { apply bind_inv in E as (np & w2 & E2 & E). apply ret_inv in E as [E ->]. injection E as _ ->. exact (HI_close_err _ _ _ _ _ _ H E2). }
  apply ret_inv in E as [E ->]. injection E as _ ->. exact H.
Qed.

(* ---- wait, terminate, kill, stop ---- *)
Lemma HI_pid T c p w : HI T c p w -> h_status p <> STATUS_NOT_STARTED -> h_handle p <> w_cur w /\ 0 < h_handle p.
Proof. intros ((Hq & _) & Hc & _ & _ & _ & Hpid) Hst. specialize (Hpid Hst). destruct Hq as (_ & C & _). rewrite C. lia. Qed.
Lemma status_rel p : h_status p =? STATUS_NOT_STARTED = false -> h_status p <> STATUS_NOT_STARTED.
Proof. intros H. destruct (Z.eqb_spec (h_status p) STATUS_NOT_STARTED); [discriminate|assumption]. Qed.

Lemma HI_reproc_wait T c p t w r p' w' : HI T c p w -> reproc_wait p t w = Ret (r, p') w' -> HI T c p' w'.
Proof.
  intros H E. unfold reproc_wait in E.
  destruct (h_status p =? STATUS_IN_CHILD). { apply ret_inv in E as [E ->]. injection E as _ ->. exact H. }
  destruct (h_status p =? STATUS_NOT_STARTED) eqn:Est. { apply ret_inv in E as [E ->]. injection E as _ ->. exact H. }
  apply status_rel in Est.
  destruct (0 <=? h_status p). { apply ret_inv in E as [E ->]. injection E as _ ->. exact H. }
  apply bind_inv in E as (tmo & w1 & E1 & E).
  assert (H1 : HI T c p w1).
  { refine (HI_neutral _ _ _ _ _ _ _ _ H E1). destruct (t =? REPROC_DEADLINE); [|apply fc_ret].
    apply fc_bind; [apply fc_expiry|]. intros t0. apply fc_ret. }
  apply bind_inv in E as ([r2 rev] & w2 & E2 & E). cbv beta iota in E.
  pose proof (HI_neutral _ _ _ _ _ _ _ (fc_pipe_poll _ _) H1 E2) as H2.
  destruct (r2 <=? 0). { apply ret_inv in E as [E ->]. injection E as _ ->. exact H2. }
  apply bind_inv in E as (r3 & w3 & E3 & E).
  assert (H3 : HI T c p w3).
  { refine (HI_neutral _ _ _ _ _ _ _ _ H2 E3). unfold process_wait. apply fc_bind; [apply fc_sys_waitpid|]. intros [rw st].
    destruct (rw <? 0); [|apply fc_ret]. apply fc_bind; [apply fc_get_errno|]. intros e. apply fc_ret. }
  destruct (Z.ltb_spec r3 0). { apply ret_inv in E as [E ->]. injection E as _ ->. exact H3. }
  apply bind_inv in E as (x & w4 & E4 & E). apply ret_inv in E as [E ->]. injection E as _ ->.
  pose proof (HI_close_exit _ _ _ _ _ _ H3 E4) as (A1 & A2 & A3 & A4 & A5 & A6).
  split; [exact A1|]. split; [exact A2|]. split; [exact A3|]. split; [exact A4|].
  cbn [h_status rp_with_status]. split; [intros X; unfold STATUS_NOT_STARTED in X; lia|]. intros _. apply A6. exact Est.
Qed.
Lemma HI_signal T c p sig w r w' : HI T c p w -> h_status p <> STATUS_NOT_STARTED ->
  (let* r := sys_kill (h_handle p) sig in if r <? 0 then let* e := get_errno in ret (- e) else ret 0) w = Ret r w' -> HI T c p w'.
Proof.
  intros H Hst E. apply bind_inv in E as (r1 & w1 & E1 & E).
  destruct (HI_pid _ _ _ _ H Hst) as [Hne _].
  pose proof (HI_fpost _ _ _ _ _ H (sys_kill_fpost _ _ _ _ _ ltac:(apply H) Hne E1)) as H1.
  destruct (r1 <? 0).
  - apply bind_inv in E as (e & w1' & Eg & E). apply gets_inv in Eg as [-> ->]. apply ret_inv in E as [_ ->]. exact H1.
  - apply ret_inv in E as [_ ->]. exact H1.
Qed.
Lemma HI_reproc_terminate T c p w r w' : HI T c p w -> reproc_terminate p w = Ret r w' -> HI T c p w'.
Proof.
  intros H E. unfold reproc_terminate in E.
  destruct (h_status p =? STATUS_IN_CHILD). { apply ret_inv in E as [_ ->]. exact H. }
  destruct (h_status p =? STATUS_NOT_STARTED) eqn:Est. { apply ret_inv in E as [_ ->]. exact H. }
  destruct (0 <=? h_status p). { apply ret_inv in E as [_ ->]. exact H. }
  exact (HI_signal _ _ _ _ _ _ _ H (status_rel _ Est) E).
Qed.
Lemma HI_reproc_kill T c p w r w' : HI T c p w -> reproc_kill p w = Ret r w' -> HI T c p w'.
Proof.
  intros H E. unfold reproc_kill in E.
  destruct (h_status p =? STATUS_IN_CHILD). { apply ret_inv in E as [_ ->]. exact H. }
  destruct (h_status p =? STATUS_NOT_STARTED) eqn:Est. { apply ret_inv in E as [_ ->]. exact H. }
  destruct (0 <=? h_status p). { apply ret_inv in E as [_ ->]. exact H. }
  exact (HI_signal _ _ _ _ _ _ _ H (status_rel _ Est) E).
Qed.
Lemma HI_stop_loop T c acts : forall p r0 w r p' w', HI T c p w -> stop_loop acts p r0 w = Ret (r, p') w' -> HI T c p' w'.
Proof.
  induction acts as [|a rest IH]; intros p r0 w r p' w' H E; cbn [stop_loop] in E.
  { apply ret_inv in E as [E ->]. injection E as _ ->. exact H. }
  assert (Hgo : forall (m : MW Z), (forall w1 r1 w1', HI T c p w1 -> m w1 = Ret r1 w1' -> HI T c p w1') ->
            (let* r1 := m in if r1 <? 0 then ret (r1, p) else
             let* '(r2, p2) := reproc_wait p (sa_timeout a) in
             if negb (r2 =? REPROC_ETIMEDOUT) then ret (r2, p2) else stop_loop rest p2 r2) w = Ret (r, p') w' -> HI T c p' w').
  { intros m Hm Em. apply bind_inv in Em as (r1 & w1 & E1 & Em). pose proof (Hm _ _ _ H E1) as H1.
    destruct (r1 <? 0). { apply ret_inv in Em as [Em ->]. injection Em as _ ->. exact H1. }
    apply bind_inv in Em as ([r2 p2] & w2 & E2 & Em). cbv beta iota in Em.
    pose proof (HI_reproc_wait _ _ _ _ _ _ _ _ H1 E2) as H2.
    destruct (negb (r2 =? REPROC_ETIMEDOUT)). { apply ret_inv in Em as [Em ->]. injection Em as _ ->. exact H2. }
    exact (IH _ _ _ _ _ _ H2 Em). }
  destruct (stop_action_kind (sa_action a)).
  - exact (IH _ _ _ _ _ _ H E).
  - apply Hgo in E; [exact E|]. intros w1 r1 w1' H1 E1. apply ret_inv in E1 as [_ ->]. exact H1.
  - apply Hgo in E; [exact E|]. intros w1 r1 w1' H1 E1. exact (HI_reproc_terminate _ _ _ _ _ _ H1 E1).
  - apply Hgo in E; [exact E|]. intros w1 r1 w1' H1 E1. exact (HI_reproc_kill _ _ _ _ _ _ H1 E1).
  - apply Hgo in E; [exact E|]. intros w1 r1 w1' H1 E1. apply ret_inv in E1 as [_ ->]. exact H1.
Qed.
Lemma HI_reproc_stop T c p acts w r p' w' : HI T c p w -> reproc_stop p acts w = Ret (r, p') w' -> HI T c p' w'.
Proof.
  intros H E. unfold reproc_stop in E.
  destruct (h_status p =? STATUS_IN_CHILD). { apply ret_inv in E as [E ->]. injection E as _ ->. exact H. }
  destruct (h_status p =? STATUS_NOT_STARTED). { apply ret_inv in E as [E ->]. injection E as _ ->. exact H. }
  cbv zeta in E. exact (HI_stop_loop _ _ _ _ _ _ _ _ _ H E).
Qed.

(* ---- destroy: whatever is still open is closed; the table is what it was before the handle existed ---- *)
Lemma reproc_destroy_fq T c p w u w' : HI T c p w -> reproc_destroy p w = Ret u w' -> fqn T [] c w'.
Proof.
  intros H E. unfold reproc_destroy in E.
  apply bind_inv in E as (p1 & w1 & E1 & E).
  assert (H1 : HI T c p1 w1).
  { destruct (h_status p =? STATUS_IN_PROGRESS).
    - apply bind_inv in E1 as ([r0 p0] & w0 & E0 & E1). apply ret_inv in E1 as [-> ->]. exact (HI_reproc_stop _ _ _ _ _ _ _ _ H E0).
    - apply ret_inv in E1 as [-> ->]. exact H. }
  destruct H1 as (Hq & Hc & Ho & He & _). unfold POWN in Hq.
  apply bind_inv in E as (u1 & w2 & E2 & E).
  destruct (N_close T (pown (Lib.h_exit p1) ++ pown (h_err p1) ++ pown (h_out p1)) [] (h_in p1) _ _ _ _
              ltac:(repeat rewrite <- app_assoc in *; rewrite ?app_nil_r in *; exact Hq) E2) as [_ H2].
  apply bind_inv in E as (u2 & w3 & E3 & E).
  destruct (N_close T (pown (Lib.h_exit p1) ++ pown (h_err p1)) [] (h_out p1) _ _ _ _
              ltac:(repeat rewrite <- app_assoc in *; rewrite ?app_nil_r in *; exact H2) E3) as [_ H3].
  apply bind_inv in E as (u3 & w4 & E4 & E).
  destruct (N_close T (pown (Lib.h_exit p1)) [] (h_err p1) _ _ _ _
              ltac:(repeat rewrite <- app_assoc in *; rewrite ?app_nil_r in *; exact H3) E4) as [_ H4].
  apply bind_inv in E as (u4 & w5 & E5 & E).
  destruct (N_close T [] [] (Lib.h_exit p1) _ _ _ _
              ltac:(repeat rewrite <- app_assoc in *; rewrite ?app_nil_r in *; exact H4) E5) as [_ H5].
  cbn [app] in H5.
  apply bind_inv in E as (u5 & w6 & E6 & E). rewrite Ho in E6. destruct (destroy_invalid _ _ _ _ eq_refl E6) as [_ ->].
  apply bind_inv in E as (u6 & w7 & E7 & E). rewrite He in E7. destruct (destroy_invalid _ _ _ _ eq_refl E7) as [_ ->].
  exact (N_neutral _ _ _ _ _ _ _ (fc_sys_free _) H5 E).
Qed.
Theorem reproc_destroy_restores T c p w u w' : HI T c p w -> reproc_destroy p w = Ret u w' -> pr_fds (curp w') = T.
Proof. intros H E. exact (fq_end _ _ _ _ (proj1 (reproc_destroy_fq _ _ _ _ _ _ H E)) (fun x X => X)). Qed.

(* ================= 9. block numbers only grow (so that 0 stays the null pointer across calls) ================= *)
Definition nkpost (w w' : world) : Prop := wf w' /\ w_cur w' = w_cur w /\ w_next_blk w <= w_next_blk w'.
Lemma nkpost_refl w : wf w -> nkpost w w.
Proof. intros W. split; [exact W|]. split; [reflexivity|lia]. Qed.
Lemma nkpost_trans a b c : nkpost a b -> nkpost b c -> nkpost a c.
Proof. intros (W1 & C1 & B1) (W2 & C2 & B2). split; [exact W2|]. split; [congruence|lia]. Qed.
Lemma nkpost_pc w w' : pcpost w w' -> nkpost w w'.
Proof. intros (W & C & _ & _ & B). split; [exact W|]. split; [exact C|exact B]. Qed.
Definition nk {A} (m : MW A) : Prop := forall w, wf w -> match m w with Ret _ w' => nkpost w w' | _ => True end.
Lemma nk_ret {A} (a : A) : nk (ret a).
Proof. intros w W. cbn. apply nkpost_refl, W. Qed.
Lemma nk_bind {A B} (m : MW A) (f : A -> MW B) : nk m -> (forall a, nk (f a)) -> nk (bind m f).
Proof.
  intros Hm Hf w W. unfold bind. specialize (Hm w W). destruct (m w) as [a w1|w1|w1|y w1]; auto.
  specialize (Hf a w1 ltac:(apply Hm)). destruct (f a w1); auto. eapply nkpost_trans; eassumption.
Qed.
Lemma nk_pc {A} (m : MW A) : pc m -> nk m.
Proof. intros H w W. specialize (H w W). destruct (m w); auto. apply nkpost_pc, H. Qed.
Lemma nk_run {A} (m : MW A) w a w' : nk m -> wf w -> m w = Ret a w' -> nkpost w w'.
Proof. intros H W E. specialize (H w W). rewrite E in H. exact H. Qed.
Lemma nk_crash {A} y : nk (fun w => Crash (A := A) y w).
Proof. intros w W. exact I. Qed.

Lemma nk_sys_sigmask how ns : nk (sys_sigmask how ns).
Proof.
  unfold sys_sigmask. cbv zeta. apply nk_bind; [apply nk_pc, pc_prelude|]. intros [e|].
  { apply nk_pc. apply pc_bind; [apply pc_log|]. intros _. apply pc_ret. }
  apply nk_bind; [apply nk_pc, pc_get|]. intros w0.
  assert (HL : forall a b cc (x : Z * list Z), nk (log CSigmask a [] b cc 0;> ret x)) by (intros; apply nk_pc, pc_bind; [apply pc_log|intros _; apply pc_ret]).
  destruct ns as [s|]; [|apply HL].
  destruct ((how =? SIG_SETMASK) || (how =? SIG_BLOCK) || (how =? SIG_UNBLOCK)); [|apply HL].
  apply nk_bind; [|intros _; apply HL].
  intros w W. cbn. split; [apply wf_upd_cur; [exact W|intros p; split; reflexivity]|].
  split; [unfold upd_cur; apply cur_upd_proc|unfold upd_cur; rewrite blk_upd_proc; lia].
Qed.
Lemma nk_signal_mask how ns : nk (signal_mask how ns).
Proof. unfold signal_mask. apply nk_bind; [apply nk_sys_sigmask|]. intros [e old]. apply nk_ret. Qed.

Lemma nk_sys_poll fds tmo : nk (sys_poll fds tmo).
Proof.
  unfold sys_poll. cbv zeta. apply nk_bind; [apply nk_pc, pc_prelude|]. intros [e|].
  { apply nk_pc. apply pc_bind; [apply pc_last_lat|]. intros l. apply pc_bind; [apply pc_set_errno|]. intros _.
    apply pc_bind; [apply pc_log|]. intros _. apply pc_ret. }
  intros w W. pose proof (pcpost_block (poll_ready fds) tmo w W) as PB.
  destruct (block_until (poll_ready fds) tmo w) as [w1|w1|w1|w1]; cbn [blocked_world] in PB; auto.
  - rewrite run_log_ret. eapply nkpost_trans; [apply nkpost_pc, PB|]. split; [apply wf_with_trace, PB|split; [reflexivity|apply Z.le_refl]].
  - rewrite run_log_ret. eapply nkpost_trans; [apply nkpost_pc, PB|]. split; [apply wf_with_trace, PB|split; [reflexivity|apply Z.le_refl]].
Qed.
Lemma nk_pipe_poll srcs tmo : nk (pipe_poll srcs tmo).
Proof.
  unfold pipe_poll. apply nk_bind; [apply nk_pc, pc_heap_alloc|]. intros blk.
  destruct (blk =? 0).
  - apply nk_bind; [apply nk_pc, pc_gets|]. intros e. apply nk_bind; [apply nk_pc, pc_sys_free|]. intros _. apply nk_ret.
  - apply nk_bind; [apply nk_sys_poll|]. intros [r rev]. destruct (r <? 0).
    + apply nk_bind; [apply nk_pc, pc_gets|]. intros e. apply nk_bind; [apply nk_pc, pc_sys_free|]. intros _. apply nk_ret.
    + apply nk_bind; [apply nk_pc, pc_sys_free|]. intros _. apply nk_ret.
Qed.
Lemma nk_expiry t d : nk (expiry t d).
Proof.
  unfold expiry. destruct (expiry_needs_clock t d); [|apply nk_ret].
  apply nk_bind; [apply nk_pc, pc_now|intros n; apply nk_ret].
Qed.
Lemma nk_fed_loop srcs : forall i e mn, nk (fed_loop srcs i e mn).
Proof.
  induction srcs as [|[[p|] x] r IH]; intros i e mn; cbn [fed_loop]; [apply nk_ret| |apply IH].
  apply nk_bind; [apply nk_expiry|]. intros cur.
  destruct (cur =? REPROC_DEADLINE); [apply nk_ret|]. destruct (cur =? REPROC_INFINITE); [apply IH|].
  destruct ((mn =? REPROC_INFINITE) || (cur <? mn)); apply IH.
Qed.
Lemma nk_reproc_poll srcs tmo : nk (reproc_poll srcs tmo).
Proof.
  unfold reproc_poll. destruct srcs as [|s0 sr]; [apply nk_ret|]. set (srcs := s0 :: sr).
  apply nk_bind; [apply nk_fed_loop|]. intros earliest. cbv zeta.
  apply nk_bind; [apply nk_expiry|]. intros first.
  destruct (first =? REPROC_DEADLINE); [apply nk_ret|].
  apply nk_bind; [apply nk_pc, pc_heap_alloc|]. intros blk. destruct (blk =? 0); [apply nk_ret|].
  destruct (negb (existsb _ _)). { apply nk_bind; [apply nk_pc, pc_sys_free|]. intros _. apply nk_ret. }
  apply nk_bind; [apply nk_pipe_poll|]. intros [r [rev|]].
  2:{ apply nk_bind; [apply nk_pc, pc_sys_free|]. intros _. apply nk_ret. }
  destruct ((r =? 0) && negb (first =? tmo)). { apply nk_bind; [apply nk_pc, pc_sys_free|]. intros _. apply nk_ret. }
  destruct (0 <? r); apply nk_bind; try (apply nk_pc, pc_sys_free); intros _; apply nk_ret.
Qed.
Lemma sys_kill_nk pid sig w r w' : wf w -> pid <> w_cur w -> sys_kill pid sig w = Ret r w' -> nkpost w w'.
Proof.
  intros W Hne E. unfold sys_kill in E. apply bind_inv in E as (f & w0 & Ep & E).
  pose proof (nk_run _ _ _ _ (nk_pc _ pc_prelude) W Ep) as F0. apply (nkpost_trans _ _ _ F0). destruct F0 as (W0 & C0 & B0).
  destruct f as [e|]; [exact (nk_run _ _ _ _ (nk_pc _ (pc_fail _ _ _ _)) W0 E)|].
  destruct (pid <=? 0); [exact (nk_run _ _ _ _ (nk_pc _ (pc_done _ _ _ _ _)) W0 E)|].
  apply bind_inv in E as (wg & w0' & Eg & E). apply get_inv in Eg as [-> ->].
  destruct (w_procs w0 !! pid) as [q|]; [|exact (nk_run _ _ _ _ (nk_pc _ (pc_fail _ _ _ _)) W0 E)].
  destruct (pr_state q); [|exact (nk_run _ _ _ _ (nk_pc _ (pc_done _ _ _ _ _)) W0 E)|exact (nk_run _ _ _ _ (nk_pc _ (pc_fail _ _ _ _)) W0 E)].
  apply bind_inv in E as (u & w1 & Em & E). injection Em as _ <-.
  pose proof (flat_deliver pid sig w0) as F. unfold flat in F. injection F as _ Fc _ _ _ _ _ Fb _ _.
  assert (K1 : keeps (w_cur w0) w0 (deliver pid sig w0)) by (apply keeps_deliver; congruence).
  assert (F1 : nkpost w0 (deliver pid sig w0)).
  { split; [eapply keeps_wf; [exact W0|exact K1|exact Fc]|]. split; [exact Fc|rewrite Fb; apply Z.le_refl]. }
  apply (nkpost_trans _ _ _ F1). exact (nk_run _ _ _ _ (nk_pc _ (pc_done _ _ _ _ _)) ltac:(apply F1) E).
Qed.

Lemma process_fork_nk except ck w r w' : wf w -> 0 <= w_cur w -> kp (w_cur w) ck ->
  process_fork except ck w = Ret r w' -> nkpost w w'.
Proof.
  intros W Hpos Hkp E0. unfold process_fork in E0.
  apply bind_inv in E0 as (r0 & w1 & E1 & E0).
  pose proof (nk_run _ _ _ _ (nk_pc _ pc_sys_sigfillset) W E1) as N1. apply (nkpost_trans _ _ _ N1).
  destruct (r0 <? 0).
  { apply bind_inv in E0 as (e & w1' & Eg & E0). apply gets_inv in Eg as [-> ->]. apply ret_inv in E0 as [_ ->]. apply nkpost_refl, N1. }
  apply bind_inv in E0 as ([r1 old] & w2 & E2 & E0). cbv beta iota in E0.
  pose proof (nk_run _ _ _ _ (nk_signal_mask _ _) ltac:(apply N1) E2) as N2. apply (nkpost_trans _ _ _ N2).
  destruct (r1 <? 0). { apply ret_inv in E0 as [_ ->]. apply nkpost_refl, N2. }
  apply bind_inv in E0 as ([r2 pp] & w3 & E3 & E0). cbv beta iota in E0.
  pose proof (nk_run _ _ _ _ (nk_pc _ pc_pipe_init) ltac:(apply N2) E3) as N3. apply (nkpost_trans _ _ _ N3).
  destruct pp as [[prd pwr]|].
  2:{ apply bind_inv in E0 as ([r3 o3] & w4 & E4 & E0). apply ret_inv in E0 as [_ ->].
      exact (nk_run _ _ _ _ (nk_signal_mask _ _) ltac:(apply N3) E4). }
  apply bind_inv in E0 as (r3 & w4 & E4 & E0).
  assert (C3 : w_cur w3 = w_cur w). { destruct N1 as (_ & C1 & _). destruct N2 as (_ & C2 & _). destruct N3 as (_ & C3 & _). congruence. }
  assert (Hk3 : kp (w_cur w3) (fork_child_part prd pwr except ck)) by (rewrite C3; apply kp_fork_child_part, Hkp).
  destruct (sys_fork_spec _ _ _ _ ltac:(apply N3) ltac:(rewrite C3; exact Hpos) Hk3 E4) as [P4 _].
  apply (nkpost_trans _ _ _ (nkpost_pc _ _ P4)).
  assert (Tail : forall (m : MW Z), nk m -> m w4 = Ret r w' -> nkpost w4 w') by (intros m Hm Em; exact (nk_run _ _ _ _ Hm ltac:(apply P4) Em)).
  destruct (r3 <? 0).
  { apply bind_inv in E0 as (e & w4' & Eg & E0). apply gets_inv in Eg as [-> ->]. cbv zeta in E0.
    refine (Tail _ _ E0). apply nk_bind; [apply nk_signal_mask|]. intros _. apply nk_bind; [apply nk_pc, pc_pipe_destroy|]. intros _.
    apply nk_bind; [apply nk_pc, pc_pipe_destroy|]. intros _. apply nk_ret. }
  cbv zeta in E0. refine (Tail _ _ E0).
  apply nk_bind; [apply nk_signal_mask|]. intros _. apply nk_bind; [apply nk_pc, pc_pipe_destroy|]. intros _.
  apply nk_bind; [apply nk_pc, pc_read_errpipe|]. intros [q rs]. cbv beta iota zeta.
  apply nk_bind.
  - destruct (0 <? _); [|apply nk_ret]. apply nk_bind; [apply nk_pc, pc_waitpid_child|]. intros [rw stw].
    destruct (rw <? 0); [|apply nk_ret]. apply nk_bind; [apply nk_pc, pc_get_errno|]. intros e. apply nk_ret.
  - intros r8. apply nk_bind; [apply nk_pc, pc_pipe_destroy|]. intros _. apply nk_ret.
Qed.

Lemma process_start_nk pr argv o ck w r pid w' : wf w -> 0 <= w_cur w -> kp (w_cur w) ck ->
  process_start pr argv o ck w = Ret (r, pid) w' -> nkpost w w'.
Proof.
  intros W Hpos Hkp E0. unfold process_start in E0. cbv zeta in E0.
  assert (Fin : forall w5 prd pwr blk env (v : Z * Z), wf w5 ->
            (pipe_destroy prd;> pipe_destroy pwr;> sys_free blk;> strv_free env;> ret v) w5 = Ret (r, pid) w' -> nkpost w5 w').
  { intros w5 prd pwr blk env v W5 E5. exact (nk_run _ _ _ _ (nk_pc _ (pc_finish _ _ _ _ _)) W5 E5). }
  apply bind_inv in E0 as ([r1 pp] & w1 & E1 & E0). cbv beta iota in E0.
  pose proof (nk_run _ _ _ _ (nk_pc _ pc_pipe_init) W E1) as N1. apply (nkpost_trans _ _ _ N1).
  destruct pp as [[prd pwr]|]; [|exact (Fin _ _ _ _ _ _ ltac:(apply N1) E0)].
  apply bind_inv in E0 as (pg & w2 & E2 & E0).
  assert (N2 : nkpost w1 w2).
  { destruct argv as [[|a0 av]|].
    - apply ret_inv in E2 as [_ ->]. apply nkpost_refl, N1.
    - destruct (isSome (po_wd o) && path_is_relative a0).
      + exact (nk_run _ _ _ _ (nk_pc _ (pc_path_prepend_cwd _)) ltac:(apply N1) E2).
      + apply bind_inv in E2 as (b & w2' & Eb & E2). apply ret_inv in E2 as [_ ->].
        exact (nk_run _ _ _ _ (nk_pc _ (pc_heap_alloc _ _ _)) ltac:(apply N1) Eb).
    - apply ret_inv in E2 as [_ ->]. apply nkpost_refl, N1. }
  apply (nkpost_trans _ _ _ N2).
  match type of E0 with (if ?b then _ else _) _ = _ => destruct b end.
  { apply bind_inv in E0 as (e & w2' & Eg & E0). apply gets_inv in Eg as [-> ->]. exact (Fin _ _ _ _ _ _ ltac:(apply N2) E0). }
  apply bind_inv in E0 as (penv & w2' & Eg & E0). apply gets_inv in Eg as [-> ->].
  apply bind_inv in E0 as (env & w3 & E3 & E0).
  pose proof (nk_run _ _ _ _ (nk_pc _ (pc_strv_concat _ _)) ltac:(apply N2) E3) as N3. apply (nkpost_trans _ _ _ N3).
  destruct env as [env|].
  2:{ apply bind_inv in E0 as (e & w3' & Eg & E0). apply gets_inv in Eg as [-> ->]. exact (Fin _ _ _ _ _ _ ltac:(apply N3) E0). }
  apply bind_inv in E0 as (r4 & w4 & E4 & E0).
  assert (C3 : w_cur w3 = w_cur w). { destruct N1 as (_ & C1 & _). destruct N2 as (_ & C2 & _). destruct N3 as (_ & C3 & _). congruence. }
  pose proof (process_fork_nk _ _ _ _ _ ltac:(apply N3) ltac:(rewrite C3; exact Hpos) ltac:(rewrite C3; apply kp_start_child_part, Hkp) E4) as N4.
  apply (nkpost_trans _ _ _ N4).
  destruct (r4 <? 0). { exact (Fin _ _ _ _ _ _ ltac:(apply N4) E0). }
  apply bind_inv in E0 as (x5 & w5 & E5 & E0).
  pose proof (nk_run _ _ _ _ (nk_pc _ (pc_pipe_destroy _)) ltac:(apply N4) E5) as N5. apply (nkpost_trans _ _ _ N5).
  apply bind_inv in E0 as ([q rs] & w6 & E6 & E0).
  pose proof (nk_run _ _ _ _ (nk_pc _ (pc_read_errpipe _)) ltac:(apply N5) E6) as N6. apply (nkpost_trans _ _ _ N6).
  cbv beta iota zeta in E0.
  destruct (0 <? (if q <? 0 then 0 else decode_int (runs_bytes rs))).
  - apply bind_inv in E0 as ([rw stw] & w7 & E7 & E0).
    pose proof (nk_run _ _ _ _ (nk_pc _ (pc_waitpid_child _)) ltac:(apply N6) E7) as N7. apply (nkpost_trans _ _ _ N7).
    cbv beta iota in E0. apply bind_inv in E0 as (r8 & w8 & E8 & E0).
    assert (N8 : nkpost w7 w8).
    { destruct (rw <? 0).
      - apply bind_inv in E8 as (e & w8' & Eg & E8). apply gets_inv in Eg as [-> ->]. apply ret_inv in E8 as [_ ->]. apply nkpost_refl, N7.
      - apply ret_inv in E8 as [_ ->]. apply nkpost_refl, N7. }
    apply (nkpost_trans _ _ _ N8). exact (Fin _ _ _ _ _ _ ltac:(apply N8) E0).
  - exact (Fin _ _ _ _ _ _ ltac:(apply N6) E0).
Qed.

Lemma reproc_start_nk p argv o0 src ck w r p' w' : wf w -> 0 <= w_cur w -> (forall pc0, kp (w_cur w) (ck pc0)) ->
  reproc_start p argv o0 src ck w = Ret (r, p') w' -> nkpost w w'.
Proof.
  intros W Hpos Hk E. unfold reproc_start in E.
  assert (Hsf : forall pp r0 o cin cout cerr cexit w1, wf w1 -> start_finish pp r0 o cin cout cerr cexit w1 = Ret (r, p') w' -> nkpost w1 w').
  { intros pp r0 o cin cout cerr cexit w1 W1 Ef. exact (nk_run _ _ _ _ (nk_pc _ (pc_start_finish _ _ _ _ _ _ _)) W1 Ef). }
  destruct (negb (h_status p =? STATUS_NOT_STARTED)). { apply ret_inv in E as [_ ->]. apply nkpost_refl, W. }
  destruct (parse_options o0 (argv_form_of argv)) as [o|]; [|exact (Hsf _ _ _ _ _ _ _ _ W E)].
  apply bind_inv in E as ([[[r1 pin] cin] rdi] & w1 & E1 & E). cbv beta iota zeta in E.
  pose proof (nk_run _ _ _ _ (nk_pc _ (pc_redirect_init _ _ _ _ _ _)) W E1) as N1. apply (nkpost_trans _ _ _ N1).
  destruct (r1 <? 0); [exact (Hsf _ _ _ _ _ _ _ _ ltac:(apply N1) E)|].
  apply bind_inv in E as ([[[r2 pout] cout] rdo] & w2 & E2 & E). cbv beta iota zeta in E.
  pose proof (nk_run _ _ _ _ (nk_pc _ (pc_redirect_init _ _ _ _ _ _)) ltac:(apply N1) E2) as N2. apply (nkpost_trans _ _ _ N2).
  destruct (r2 <? 0); [exact (Hsf _ _ _ _ _ _ _ _ ltac:(apply N2) E)|].
  apply bind_inv in E as ([[[r3 perr] cerr] rde] & w3 & E3 & E). cbv beta iota zeta in E.
  pose proof (nk_run _ _ _ _ (nk_pc _ (pc_redirect_init _ _ _ _ _ _)) ltac:(apply N2) E3) as N3. apply (nkpost_trans _ _ _ N3).
  destruct (r3 <? 0); [exact (Hsf _ _ _ _ _ _ _ _ ltac:(apply N3) E)|].
  apply bind_inv in E as ([r4 pp] & w4 & E4 & E). cbv beta iota zeta in E.
  pose proof (nk_run _ _ _ _ (nk_pc _ pc_pipe_init) ltac:(apply N3) E4) as N4. apply (nkpost_trans _ _ _ N4).
  destruct pp as [[pexit cexit]|]; [|exact (Hsf _ _ _ _ _ _ _ _ ltac:(apply N4) E)].
  apply bind_inv in E as ([r5 pin5] & w5 & E5 & E). cbv beta iota zeta in E.
  pose proof (nk_run _ _ _ _ (nk_pc _ (pc_setup_input _ _ _ _)) ltac:(apply N4) E5) as N5. apply (nkpost_trans _ _ _ N5).
  destruct (r5 <? 0); [exact (Hsf _ _ _ _ _ _ _ _ ltac:(apply N5) E)|].
  apply bind_inv in E as ([r6 h6] & w6 & E6 & E). cbv beta iota zeta in E.
  assert (C5 : w_cur w5 = w_cur w).
  { destruct N1 as (_ & C1 & _). destruct N2 as (_ & C2 & _). destruct N3 as (_ & C3 & _). destruct N4 as (_ & C4 & _). destruct N5 as (_ & C5 & _). congruence. }
  match type of E6 with process_start _ _ _ ?k _ = _ => assert (Hk5 : kp (w_cur w5) k) end.
  { rewrite C5. apply kp_bind; [apply kp_start_finish|]. intros [x pc0]. apply Hk. }
  pose proof (process_start_nk _ _ _ _ _ _ _ _ ltac:(apply N5) ltac:(rewrite C5; exact Hpos) Hk5 E6) as N6. apply (nkpost_trans _ _ _ N6).
  destruct (r6 <? 0); [exact (Hsf _ _ _ _ _ _ _ _ ltac:(apply N6) E)|].
  apply bind_inv in E as (dl & w7 & E7 & E).
  assert (N7 : nkpost w6 w7).
  { destruct (negb (o_deadline _ =? REPROC_INFINITE)).
    - apply bind_inv in E7 as (n & w7' & En & E7). apply ret_inv in E7 as [_ ->]. exact (nk_run _ _ _ _ (nk_pc _ pc_now) ltac:(apply N6) En).
    - apply ret_inv in E7 as [_ ->]. apply nkpost_refl, N6. }
  apply (nkpost_trans _ _ _ N7). exact (Hsf _ _ _ _ _ _ _ _ ltac:(apply N7) E).
Qed.

(* the other calls *)
Lemma nk_pipe_read p size : nk (pipe_read p size).
Proof.
  unfold pipe_read. apply nk_bind; [apply nk_pc, pc_sys_read|]. intros [q qs].
  destruct ((q =? 0) && (0 <? size)); [apply nk_ret|]. destruct (q <? 0); [|apply nk_ret].
  apply nk_bind; [apply nk_pc, pc_get_errno|]. intros e. apply nk_ret.
Qed.
Lemma nk_reproc_read p stream hb size : nk (reproc_read p stream hb size).
Proof.
  unfold reproc_read. destruct (h_status p =? STATUS_IN_CHILD); [apply nk_ret|]. destruct (negb _); [apply nk_ret|].
  destruct (negb hb); [apply nk_ret|]. cbv zeta. destruct (_ =? PIPE_INVALID); [apply nk_ret|].
  apply nk_bind; [apply nk_pipe_read|]. intros [r rs]. destruct (r =? REPROC_EPIPE); [|apply nk_ret].
  apply nk_bind; [apply nk_pc, pc_pipe_destroy|]. intros np. apply nk_ret.
Qed.
Lemma nk_reproc_write p hb data : nk (reproc_write p hb data).
Proof.
  unfold reproc_write. destruct (h_status p =? STATUS_IN_CHILD); [apply nk_ret|].
  destruct (negb hb). { destruct (runs_len data =? 0); apply nk_ret. }
  destruct (h_in p =? PIPE_INVALID); [apply nk_ret|].
  apply nk_bind; [apply nk_pc, pc_pipe_write|]. intros r. destruct (r =? REPROC_EPIPE); [|apply nk_ret].
  apply nk_bind; [apply nk_pc, pc_pipe_destroy|]. intros np. apply nk_ret.
Qed.
Lemma nk_reproc_close p stream : nk (reproc_close p stream).
Proof.
  unfold reproc_close. destruct (h_status p =? STATUS_IN_CHILD); [apply nk_ret|].
  destruct (stream =? REPROC_STREAM_IN). { apply nk_bind; [apply nk_pc, pc_pipe_destroy|]. intros n. apply nk_ret. }
  destruct (stream =? REPROC_STREAM_OUT). { apply nk_bind; [apply nk_pc, pc_pipe_destroy|]. intros n. apply nk_ret. }
  destruct (stream =? REPROC_STREAM_ERR). { apply nk_bind; [apply nk_pc, pc_pipe_destroy|]. intros n. apply nk_ret. }
  apply nk_ret.
Qed.
Lemma nk_reproc_wait p t : nk (reproc_wait p t).
Proof.
  unfold reproc_wait. destruct (h_status p =? STATUS_IN_CHILD); [apply nk_ret|]. destruct (h_status p =? STATUS_NOT_STARTED); [apply nk_ret|].
  destruct (0 <=? h_status p); [apply nk_ret|].
  apply nk_bind. { destruct (t =? REPROC_DEADLINE); [|apply nk_ret]. apply nk_bind; [apply nk_expiry|]. intros t0. apply nk_ret. }
  intros tmo. apply nk_bind; [apply nk_pipe_poll|]. intros [r rev]. destruct (r <=? 0); [apply nk_ret|].
  apply nk_bind.
  { unfold process_wait. apply nk_bind; [apply nk_pc, pc_sys_waitpid|]. intros [rw st].
    destruct (rw <? 0); [|apply nk_ret]. apply nk_bind; [apply nk_pc, pc_get_errno|]. intros e. apply nk_ret. }
  intros r3. destruct (r3 <? 0); [apply nk_ret|]. apply nk_bind; [apply nk_pc, pc_pipe_destroy|]. intros x. apply nk_ret.
Qed.
Lemma signal_nk pid sig w r w' : wf w -> pid <> w_cur w ->
  (let* r := sys_kill pid sig in if r <? 0 then let* e := get_errno in ret (- e) else ret 0) w = Ret r w' -> nkpost w w'.
Proof.
  intros W Hne E. apply bind_inv in E as (r1 & w1 & E1 & E).
  pose proof (sys_kill_nk _ _ _ _ _ W Hne E1) as N1.
  destruct (r1 <? 0).
  - apply bind_inv in E as (e & w1' & Eg & E). apply gets_inv in Eg as [-> ->]. apply ret_inv in E as [_ ->]. exact N1.
  - apply ret_inv in E as [_ ->]. exact N1.
Qed.
Lemma reproc_terminate_nk p w r w' : wf w -> (h_status p <> STATUS_NOT_STARTED -> h_handle p <> w_cur w) ->
  reproc_terminate p w = Ret r w' -> nkpost w w'.
Proof.
  intros W Hne E. unfold reproc_terminate in E.
  destruct (h_status p =? STATUS_IN_CHILD). { apply ret_inv in E as [_ ->]. apply nkpost_refl, W. }
  destruct (h_status p =? STATUS_NOT_STARTED) eqn:Est. { apply ret_inv in E as [_ ->]. apply nkpost_refl, W. }
  destruct (0 <=? h_status p). { apply ret_inv in E as [_ ->]. apply nkpost_refl, W. }
  exact (signal_nk _ _ _ _ _ W (Hne (status_rel _ Est)) E).
Qed.
Lemma reproc_kill_nk p w r w' : wf w -> (h_status p <> STATUS_NOT_STARTED -> h_handle p <> w_cur w) ->
  reproc_kill p w = Ret r w' -> nkpost w w'.
Proof.
  intros W Hne E. unfold reproc_kill in E.
  destruct (h_status p =? STATUS_IN_CHILD). { apply ret_inv in E as [_ ->]. apply nkpost_refl, W. }
  destruct (h_status p =? STATUS_NOT_STARTED) eqn:Est. { apply ret_inv in E as [_ ->]. apply nkpost_refl, W. }
  destruct (0 <=? h_status p). { apply ret_inv in E as [_ ->]. apply nkpost_refl, W. }
  exact (signal_nk _ _ _ _ _ W (Hne (status_rel _ Est)) E).
Qed.

(* the invariant with the block counter *)
Definition HN (T : gmap Z fdent) (c : Z) (p : rp) (w : world) : Prop := HI T c p w /\ NB w.
Lemma HN_step T c p p' w w' : HI T c p' w' -> nkpost w w' -> HN T c p w -> HN T c p' w'.
Proof. intros H (_ & _ & B) [_ N]. split; [exact H|]. unfold NB in *. lia. Qed.
Lemma HI_ne T c p w : HI T c p w -> h_status p <> STATUS_NOT_STARTED -> h_handle p <> w_cur w.
Proof. intros H Hst. exact (proj1 (HI_pid _ _ _ _ H Hst)). Qed.

Lemma HN_stop_loop T c acts : forall p r0 w r p' w', HN T c p w -> stop_loop acts p r0 w = Ret (r, p') w' -> HN T c p' w'.
Proof.
  induction acts as [|a rest IH]; intros p r0 w r p' w' H E; cbn [stop_loop] in E.
  { apply ret_inv in E as [E ->]. injection E as _ ->. exact H. }
  assert (Hgo : forall (m : MW Z), (forall w1 r1 w1', HN T c p w1 -> m w1 = Ret r1 w1' -> HN T c p w1') ->
            (let* r1 := m in if r1 <? 0 then ret (r1, p) else
             let* '(r2, p2) := reproc_wait p (sa_timeout a) in
             if negb (r2 =? REPROC_ETIMEDOUT) then ret (r2, p2) else stop_loop rest p2 r2) w = Ret (r, p') w' -> HN T c p' w').
  { intros m Hm Em. apply bind_inv in Em as (r1 & w1 & E1 & Em). pose proof (Hm _ _ _ H E1) as H1.
    destruct (r1 <? 0). { apply ret_inv in Em as [Em ->]. injection Em as _ ->. exact H1. }
    apply bind_inv in Em as ([r2 p2] & w2 & E2 & Em). cbv beta iota in Em.
    assert (H2 : HN T c p2 w2).
    { refine (HN_step _ _ _ _ _ _ (HI_reproc_wait _ _ _ _ _ _ _ _ (proj1 H1) E2) _ H1).
      exact (nk_run _ _ _ _ (nk_reproc_wait _ _) ltac:(apply H1) E2). }
    destruct (negb (r2 =? REPROC_ETIMEDOUT)). { apply ret_inv in Em as [Em ->]. injection Em as _ ->. exact H2. }
    exact (IH _ _ _ _ _ _ H2 Em). }
  destruct (stop_action_kind (sa_action a)).
  - exact (IH _ _ _ _ _ _ H E).
  - apply Hgo in E; [exact E|]. intros w1 r1 w1' H1 E1. apply ret_inv in E1 as [_ ->]. exact H1.
  - apply Hgo in E; [exact E|]. intros w1 r1 w1' H1 E1.
    refine (HN_step _ _ _ _ _ _ (HI_reproc_terminate _ _ _ _ _ _ (proj1 H1) E1) _ H1).
    exact (reproc_terminate_nk _ _ _ _ ltac:(apply H1) (HI_ne _ _ _ _ (proj1 H1)) E1).
  - apply Hgo in E; [exact E|]. intros w1 r1 w1' H1 E1.
    refine (HN_step _ _ _ _ _ _ (HI_reproc_kill _ _ _ _ _ _ (proj1 H1) E1) _ H1).
    exact (reproc_kill_nk _ _ _ _ ltac:(apply H1) (HI_ne _ _ _ _ (proj1 H1)) E1).
  - apply Hgo in E; [exact E|]. intros w1 r1 w1' H1 E1. apply ret_inv in E1 as [_ ->]. exact H1.
Qed.
Lemma HN_reproc_stop T c p acts w r p' w' : HN T c p w -> reproc_stop p acts w = Ret (r, p') w' -> HN T c p' w'.
Proof.
  intros H E. unfold reproc_stop in E.
  destruct (h_status p =? STATUS_IN_CHILD). { apply ret_inv in E as [E ->]. injection E as _ ->. exact H. }
  destruct (h_status p =? STATUS_NOT_STARTED). { apply ret_inv in E as [E ->]. injection E as _ ->. exact H. }
  cbv zeta in E. exact (HN_stop_loop _ _ _ _ _ _ _ _ _ H E).
Qed.

Lemma HN_reproc_destroy T c p w u w' : HN T c p w -> reproc_destroy p w = Ret u w' -> fqn T [] c w' /\ NB w'.
Proof.
  intros H E. split; [exact (reproc_destroy_fq _ _ _ _ _ _ (proj1 H) E)|].
  unfold reproc_destroy in E. apply bind_inv in E as (p1 & w1 & E1 & E).
  assert (H1 : HN T c p1 w1).
  { destruct (h_status p =? STATUS_IN_PROGRESS).
    - apply bind_inv in E1 as ([r0 p0] & w0 & E0 & E1). apply ret_inv in E1 as [-> ->]. exact (HN_reproc_stop _ _ _ _ _ _ _ _ H E0).
    - apply ret_inv in E1 as [-> ->]. exact H. }
  assert (Hnk : nk (pipe_destroy (h_in p1) ;> pipe_destroy (h_out p1) ;> pipe_destroy (h_err p1) ;> pipe_destroy (Lib.h_exit p1) ;>
                    pipe_destroy (h_cout p1) ;> pipe_destroy (h_cerr p1) ;> sys_free (h_blk p1))).
  { repeat (apply nk_bind; [apply nk_pc, pc_pipe_destroy|intros _]). apply nk_pc, pc_sys_free. }
  destruct (nk_run _ _ _ _ Hnk ltac:(apply H1) E) as (_ & _ & B). destruct H1 as [_ N1]. unfold NB in *. lia.
Qed.

(* start on a handle between calls *)
Lemma HN_reproc_start T c p argv o0 src ck w r p' w' : HN T c p w -> (forall pc0, kp c (ck pc0)) ->
  reproc_start p argv o0 src ck w = Ret (r, p') w' -> HN T c p' w'.
Proof.
  intros [H Hnb] Hk E.
  assert (C : w_cur w = c) by apply H. assert (Hpos : 0 <= c) by apply H.
  assert (N : nkpost w w') by (refine (reproc_start_nk _ _ _ _ _ _ _ _ _ ltac:(apply H) ltac:(rewrite C; exact Hpos) _ E); rewrite C; exact Hk).
  refine (HN_step _ _ _ _ _ _ _ N (conj H Hnb)).
  destruct (Z.eqb_spec (h_status p) STATUS_NOT_STARTED) as [Est|Est].
  2:{ unfold reproc_start in E. destruct (Z.eqb_spec (h_status p) STATUS_NOT_STARTED); [contradiction|]. cbn [negb] in E.
      apply ret_inv in E as [E ->]. injection E as _ ->. exact H. }
  destruct H as (Hq & Hc & Ho & He & Hns & Hpid). destruct (Hns Est) as (X1 & X2 & X3 & X4 & X5).
  assert (H0 : fqn T [] (w_cur w) w).
  { rewrite C. unfold POWN in Hq. rewrite X1, X2, X3, X4 in Hq. exact Hq. }
  destruct (reproc_start_fq _ _ _ _ _ _ _ _ _ _ H0 ltac:(rewrite C; exact Hpos) Hnb ltac:(rewrite C; exact Hk) X1 X2 X3 X4 X5 E)
    as [(Hr & Hq' & A1 & A2 & A3 & A4 & A5 & A6 & A7 & A8)|(Hr & Hq' & A1 & A2 & A3 & A4)]; rewrite C in *.
  - split; [unfold POWN; rewrite A1, A2, A3, A4; exact Hq'|]. split; [exact Hc|]. split; [congruence|]. split; [congruence|].
    split; [intros _; auto|]. intros X. rewrite A5 in X. contradiction.
  - split; [exact Hq'|]. split; [exact Hc|]. split; [exact A3|]. split; [exact A4|].
    split; [intros X; rewrite A1 in X; discriminate|]. intros _. exact A2.
Qed.

(* drain: polls and reads in a loop, sink calls in between (sinks are scripts: no system calls) *)
Lemma HN_drain_loop T c fuel : forall p s w r p' s' w', HN T c p w -> drain_loop fuel p s w = Ret (r, p', s') w' -> HN T c p' w'.
Proof.
  induction fuel as [|f IH]; intros p s w r p' s' w' H E; cbn [drain_loop] in E; [discriminate|].
  apply bind_inv in E as ([r1 evs] & w1 & E1 & E). cbv beta iota in E.
  pose proof (HN_step _ _ _ _ _ _ (HI_neutral _ _ _ _ _ _ _ (fc_reproc_poll _ _) (proj1 H) E1) (nk_run _ _ _ _ (nk_reproc_poll _ _) ltac:(apply H) E1) H) as H1.
  destruct (r1 <? 0). { apply ret_inv in E as [E ->]. injection E as _ -> _. exact H1. }
  cbv zeta in E. destruct (has_bit _ REPROC_EVENT_DEADLINE). { apply ret_inv in E as [E ->]. injection E as _ -> _. exact H1. }
  apply bind_inv in E as ([[r2 rs] p2] & w2 & E2 & E). cbv beta iota in E.
  pose proof (HN_step _ _ _ _ _ _ (HI_reproc_read _ _ _ _ _ _ _ _ _ _ _ (proj1 H1) E2) (nk_run _ _ _ _ (nk_reproc_read _ _ _ _) ltac:(apply H1) E2) H1) as H2.
  destruct ((r2 <? 0) && negb (r2 =? REPROC_EPIPE)). { apply ret_inv in E as [E ->]. injection E as _ -> _. exact H2. }
  cbv zeta in E. destruct (sink_call _ _ _ _ s) as [v s2].
  destruct (negb (v =? 0)). { apply ret_inv in E as [E ->]. injection E as _ -> _. exact H2. }
  exact (IH _ _ _ _ _ _ _ H2 E).
Qed.
Lemma HN_reproc_drain T c fuel p s w r p' s' w' : HN T c p w -> reproc_drain fuel p s w = Ret (r, p', s') w' -> HN T c p' w'.
Proof.
  intros H E. unfold reproc_drain in E. destruct (sink_call 0 _ _ _ s) as [v s1].
  destruct (negb (v =? 0)). { apply ret_inv in E as [E ->]. injection E as _ -> _. exact H. }
  destruct (sink_call 1 _ _ _ s1) as [v2 s2].
  destruct (negb (v2 =? 0)). { apply ret_inv in E as [E ->]. injection E as _ -> _. exact H. }
  exact (HN_drain_loop _ _ _ _ _ _ _ _ _ _ H E).
Qed.

(* ---- histories ---- *)
Inductive hop :=
| HStart (argv : option (list str)) (o : options) (src : Z)
| HRead (stream : Z) (hb : bool) (size : Z)
| HWrite (hb : bool) (data : list run)
| HClose (stream : Z)
| HPoll (interests tmo : Z)
| HWait (t : Z)
| HTerminate
| HKill
| HStop (acts : stop_actions)
| HDrain (fuel : nat) (s : sinkst).

Definition run_hop (ck : rp -> MW unit) (p : rp) (op : hop) : MW rp :=
  match op with
  | HStart argv o src => let* '(_, p') := reproc_start p argv o src ck in ret p'
  | HRead stream hb size => let* '(_, _, p') := reproc_read p stream hb size in ret p'
  | HWrite hb data => let* '(_, p') := reproc_write p hb data in ret p'
  | HClose stream => let* '(_, p') := reproc_close p stream in ret p'
  | HPoll interests tmo => reproc_poll [(Some p, interests)] tmo ;> ret p
  | HWait t => let* '(_, p') := reproc_wait p t in ret p'
  | HTerminate => reproc_terminate p ;> ret p
  | HKill => reproc_kill p ;> ret p
  | HStop acts => let* '(_, p') := reproc_stop p acts in ret p'
  | HDrain fuel s => let* '(_, p', _) := reproc_drain fuel p s in ret p'
  end.
Fixpoint run_hops (ck : rp -> MW unit) (p : rp) (ops : list hop) : MW rp :=
  match ops with
  | [] => ret p
  | op :: rest => let* p' := run_hop ck p op in run_hops ck p' rest
  end.

Lemma HN_run_hop T c ck p op w p' w' : HN T c p w -> (forall pc0, kp c (ck pc0)) -> run_hop ck p op w = Ret p' w' -> HN T c p' w'.
Proof.
  intros H Hk E. destruct op; cbn [run_hop] in E.
  - apply bind_inv in E as ([r p1] & w1 & E1 & E). apply ret_inv in E as [-> ->]. exact (HN_reproc_start _ _ _ _ _ _ _ _ _ _ _ H Hk E1).
  - apply bind_inv in E as ([[r rs] p1] & w1 & E1 & E). apply ret_inv in E as [-> ->].
    exact (HN_step _ _ _ _ _ _ (HI_reproc_read _ _ _ _ _ _ _ _ _ _ _ (proj1 H) E1) (nk_run _ _ _ _ (nk_reproc_read _ _ _ _) ltac:(apply H) E1) H).
  - apply bind_inv in E as ([r p1] & w1 & E1 & E). apply ret_inv in E as [-> ->].
    exact (HN_step _ _ _ _ _ _ (HI_reproc_write _ _ _ _ _ _ _ _ _ (proj1 H) E1) (nk_run _ _ _ _ (nk_reproc_write _ _ _) ltac:(apply H) E1) H).
  - apply bind_inv in E as ([r p1] & w1 & E1 & E). apply ret_inv in E as [-> ->].
    exact (HN_step _ _ _ _ _ _ (HI_reproc_close _ _ _ _ _ _ _ _ (proj1 H) E1) (nk_run _ _ _ _ (nk_reproc_close _ _) ltac:(apply H) E1) H).
  - apply bind_inv in E as (x & w1 & E1 & E). apply ret_inv in E as [-> ->].
    exact (HN_step _ _ _ _ _ _ (HI_neutral _ _ _ _ _ _ _ (fc_reproc_poll _ _) (proj1 H) E1) (nk_run _ _ _ _ (nk_reproc_poll _ _) ltac:(apply H) E1) H).
  - apply bind_inv in E as ([r p1] & w1 & E1 & E). apply ret_inv in E as [-> ->].
    exact (HN_step _ _ _ _ _ _ (HI_reproc_wait _ _ _ _ _ _ _ _ (proj1 H) E1) (nk_run _ _ _ _ (nk_reproc_wait _ _) ltac:(apply H) E1) H).
  - apply bind_inv in E as (x & w1 & E1 & E). apply ret_inv in E as [-> ->].
    exact (HN_step _ _ _ _ _ _ (HI_reproc_terminate _ _ _ _ _ _ (proj1 H) E1) (reproc_terminate_nk _ _ _ _ ltac:(apply H) (HI_ne _ _ _ _ (proj1 H)) E1) H).
  - apply bind_inv in E as (x & w1 & E1 & E). apply ret_inv in E as [-> ->].
    exact (HN_step _ _ _ _ _ _ (HI_reproc_kill _ _ _ _ _ _ (proj1 H) E1) (reproc_kill_nk _ _ _ _ ltac:(apply H) (HI_ne _ _ _ _ (proj1 H)) E1) H).
  - apply bind_inv in E as ([r p1] & w1 & E1 & E). apply ret_inv in E as [-> ->]. exact (HN_reproc_stop _ _ _ _ _ _ _ _ H E1).
  - apply bind_inv in E as ([[r p1] s1] & w1 & E1 & E). apply ret_inv in E as [-> ->]. exact (HN_reproc_drain _ _ _ _ _ _ _ _ _ _ H E1).
Qed.
Lemma HN_run_hops T c ck ops : forall p w p' w', HN T c p w -> (forall pc0, kp c (ck pc0)) -> run_hops ck p ops w = Ret p' w' -> HN T c p' w'.
Proof.
  induction ops as [|op rest IH]; intros p w p' w' H Hk E; cbn [run_hops] in E.
  - apply ret_inv in E as [-> ->]. exact H.
  - apply bind_inv in E as (p1 & w1 & E1 & E). exact (IH _ _ _ _ (HN_run_hop _ _ _ _ _ _ _ _ H Hk E1) Hk E).
Qed.

(* a handle as reproc_new makes it *)
Definition fresh_handle (p : rp) : Prop :=
  h_status p = STATUS_NOT_STARTED /\ h_handle p = PROCESS_INVALID /\
  h_in p = HANDLE_INVALID /\ h_out p = HANDLE_INVALID /\ h_err p = HANDLE_INVALID /\ Lib.h_exit p = HANDLE_INVALID /\
  h_cout p = HANDLE_INVALID /\ h_cerr p = HANDLE_INVALID.
Lemma HN_fresh p w : wf w -> 0 <= w_cur w -> NB w -> fresh_handle p -> HN (tb w) (w_cur w) p w.
Proof.
  intros W Hpos Hnb (F1 & F2 & F3 & F4 & F5 & F6 & F7 & F8). split; [|exact Hnb].
  split. { unfold POWN. rewrite F3, F4, F5, F6. split; [apply fq_start, W|constructor]. }
  split; [exact Hpos|]. split; [exact F7|]. split; [exact F8|]. split; [auto|]. intros X. contradiction.
Qed.

(* THE THEOREM, histories: ANY sequence of calls on a handle -- starts that fail, starts that succeed,
   restarts, reads, writes, closes, polls, waits, signals, stop sequences, in any order and under
   ANY fault plan -- followed by destroy leaves the caller's descriptor table exactly as it was
   before the first call *)
Theorem history_restores_descriptor_table ck ops p w u w' :
  wf w -> 0 <= w_cur w -> NB w -> (forall pc0, kp (w_cur w) (ck pc0)) -> fresh_handle p ->
  (let* p' := run_hops ck p ops in reproc_destroy p') w = Ret u w' ->
  pr_fds (curp w') = pr_fds (curp w).
Proof.
  intros W Hpos Hnb Hk Hf E. apply bind_inv in E as (p1 & w1 & E1 & E).
  pose proof (HN_run_hops _ _ _ _ _ _ _ _ (HN_fresh p w W Hpos Hnb Hf) Hk E1) as [H1 _].
  exact (reproc_destroy_restores _ _ _ _ _ _ H1 E).
Qed.
Lemma fresh_rp_new b : fresh_handle (rp_new b).
Proof. repeat split. Qed.
