(* ProofsMisc.v — pipe FIFO discipline, stream closure, buffer arithmetic of path_prepend_cwd,
   environment order, event-bit mapping, read/write footprints. *)
From Verif Require Import Lib WorldSpec LibSpec LibSpec2.
From Coq Require Import Lia.
Local Open Scope Z_scope.

(* ================= C02: the pipe is a FIFO of byte positions ================= *)
(* the byte positions a run stands for: (source, offset) pairs; literals carry their bytes *)
Definition expand (r : run) : list (Z * Z) :=
  match r with
  | RPos s o l => map (fun k => (s, o + Z.of_nat k)) (seq 0 (Z.to_nat l))
  | RLit b => map (fun x => (-1, x)) b
  end.
Definition expand_all (rs : list run) : list (Z * Z) := flat_map expand rs.

Lemma seq_plus_map a k n : seq (a + k) n = map (fun j => (k + j)%nat) (seq a n).
Proof.
  revert a. induction n as [|n IH]; intros a; cbn [seq map]; [reflexivity|].
  f_equal; [lia|]. rewrite <- IH. reflexivity.
Qed.

Lemma split_run_expand r k : 0 <= k <= run_len r ->
  expand (fst (split_run r k)) ++ expand (snd (split_run r k)) = expand r.
Proof.
  destruct r as [s o l|b]; cbn [split_run fst snd expand run_len]; intros H.
  - replace (Z.to_nat l) with (Z.to_nat k + Z.to_nat (l - k))%nat by lia.
    rewrite seq_app, map_app. f_equal.
    replace (0 + Z.to_nat k)%nat with (0 + Z.to_nat k)%nat by reflexivity.
    rewrite (seq_plus_map 0 (Z.to_nat k)). rewrite map_map.
    apply map_ext. intros a. f_equal. lia.
  - rewrite <- map_app, firstn_skipn. reflexivity.
Qed.

Lemma split_run_len r k : 0 <= k <= run_len r ->
  run_len (fst (split_run r k)) = k /\ run_len (snd (split_run r k)) = run_len r - k.
Proof.
  destruct r as [s o l|b]; cbn [split_run fst snd run_len]; intros H; [lia|].
  unfold zlen in *. rewrite firstn_length, skipn_length. rewrite Nat.min_l by lia. lia.
Qed.

Definition runs_nonneg (rs : list run) : Prop := Forall (fun r => 0 <= run_len r) rs.

Lemma runs_len_nonneg rs : runs_nonneg rs -> 0 <= runs_len rs.
Proof. induction 1; unfold runs_len in *; cbn [fold_right] in *; lia. Qed.

(* taking n bytes from the front: what is taken followed by what stays is exactly the buffer
   (every byte exactly once, in order), and exactly min(n, available) bytes are taken *)
Lemma take_runs_spec : forall buf n a b, runs_nonneg buf -> take_runs n buf = (a, b) ->
  expand_all a ++ expand_all b = expand_all buf
  /\ runs_len a = Z.max 0 (Z.min n (runs_len buf))
  /\ runs_nonneg a /\ runs_nonneg b.
Proof.
  induction buf as [|r rest IH]; intros n a b Hnn E; cbn [take_runs] in E.
  - injection E as <- <-. cbn. repeat split; try constructor. lia.
  - inversion Hnn as [|? ? Hr Hrest]; subst.
    pose proof (runs_len_nonneg rest Hrest) as Hlen.
    destruct (Z.leb_spec n 0).
    + injection E as <- <-. cbn [expand_all flat_map app]. repeat split; try constructor; try assumption.
      cbn [runs_len fold_right]. lia.
    + destruct (Z.leb_spec (run_len r) n).
      * destruct (take_runs (n - run_len r) rest) as [a' b'] eqn:E'. injection E as <- <-.
        destruct (IH _ _ _ Hrest E') as (He & Hl & Ha & Hb).
        cbn [expand_all flat_map]. fold (expand_all a') (expand_all rest). rewrite <- app_assoc, He.
        repeat split; try assumption; [|constructor; assumption].
        cbn [runs_len fold_right]. fold (runs_len a') (runs_len rest). lia.
      * destruct (split_run r n) as [x y] eqn:Es. injection E as <- <-.
        assert (Hk : 0 <= n <= run_len r) by lia.
        pose proof (split_run_expand r n Hk) as He. pose proof (split_run_len r n Hk) as [Hl1 Hl2].
        rewrite Es in He, Hl1, Hl2. cbn [fst snd] in *.
        cbn [expand_all flat_map]. fold (expand_all rest). rewrite app_nil_r, app_assoc, He.
        repeat split.
        -- cbn [runs_len fold_right]. fold (runs_len rest). lia.
        -- constructor; [lia|constructor].
        -- constructor; [lia|assumption].
Qed.

(* appending is at the back *)
Lemma pipe_append_expand r p : expand_all (p_buf (pipe_append r p)) = expand_all (p_buf p) ++ expand r.
Proof. unfold pipe_append, expand_all. cbn [p_buf]. rewrite flat_map_app. cbn. rewrite app_nil_r. reflexivity. Qed.

(* ================= C02: the closed-stream error closes the stream, for good ================= *)
Definition stream_field (s : Z) (p : rp) : Z := if s =? REPROC_STREAM_OUT then h_out p else h_err p.

Lemma post_reproc_read p s n :
  post (reproc_read p s true n)
       (fun res => let '(r, _, p') := res in
                   (r = REPROC_EPIPE -> s = REPROC_STREAM_OUT \/ s = REPROC_STREAM_ERR -> h_status p <> STATUS_IN_CHILD -> stream_field s p' = -1)
                   /\ (r <> REPROC_EPIPE -> p' = p)
                   /\ h_in p' = h_in p /\ h_status p' = h_status p /\ h_handle p' = h_handle p /\ h_exit p' = h_exit p).
Proof.
  unfold reproc_read.
  destruct (Z.eqb_spec (h_status p) STATUS_IN_CHILD).
  { apply post_ret. repeat split; auto. intros; contradiction. }
  destruct (Z.eqb_spec s REPROC_STREAM_OUT) as [->|Ho]; cbn [orb negb].
  - destruct (Z.eqb_spec (h_out p) PIPE_INVALID) as [Ei|Ei].
    { apply post_ret. repeat split; auto. }
    apply post_bind_any. intros [r rs].
    destruct (Z.eqb_spec r REPROC_EPIPE) as [->|Hne].
    + eapply post_bind; [apply post_pipe_destroy|]. intros np ->. apply post_ret.
      repeat split; auto. intros H; contradiction.
    + apply post_ret. repeat split; auto. intros H; contradiction.
  - destruct (Z.eqb_spec s REPROC_STREAM_ERR) as [->|He]; cbn [negb].
    2:{ apply post_ret. repeat split; auto. unfold REPROC_EINVAL, REPROC_EPIPE. intros H; discriminate. }
    destruct (Z.eqb_spec (h_err p) PIPE_INVALID) as [Ei|Ei].
    { apply post_ret. repeat split; auto. }
    apply post_bind_any. intros [r rs].
    destruct (Z.eqb_spec r REPROC_EPIPE) as [->|Hne].
    + eapply post_bind; [apply post_pipe_destroy|]. intros np ->. apply post_ret.
      repeat split; auto. intros H; contradiction.
    + apply post_ret. repeat split; auto. intros H; contradiction.
Qed.

Lemma post_reproc_write p d :
  post (reproc_write p true d)
       (fun res => let '(r, p') := res in
                   (r = REPROC_EPIPE -> h_status p <> STATUS_IN_CHILD -> h_in p' = -1) /\ (r <> REPROC_EPIPE -> p' = p)
                   /\ h_out p' = h_out p /\ h_err p' = h_err p /\ h_status p' = h_status p /\ h_handle p' = h_handle p /\ h_exit p' = h_exit p).
Proof.
  unfold reproc_write.
  destruct (Z.eqb_spec (h_status p) STATUS_IN_CHILD).
  { apply post_ret. repeat split; auto. intros; contradiction. }
  cbn [negb].
  destruct (Z.eqb_spec (h_in p) PIPE_INVALID) as [Ei|Ei].
  { apply post_ret. repeat split; auto. }
  apply post_bind_any. intros r.
  destruct (Z.eqb_spec r REPROC_EPIPE) as [->|Hne].
  - eapply post_bind; [apply post_pipe_destroy|]. intros np ->. apply post_ret. repeat split; auto. intros H; contradiction.
  - apply post_ret. repeat split; auto. intros H; contradiction.
Qed.

(* read()==0 with a positive size is the only thing mapped to the closed-pipe error *)
Lemma pipe_read_unfold p size :
  pipe_read p size =
  (let* '(r, rs) := sys_read p size in
   if (r =? 0) && (0 <? size) then ret (- EPIPE, [])
   else if r <? 0 then let* e := get_errno in ret (- e, [])
   else ret (r, rs)).
Proof. reflexivity. Qed.

(* ================= C20: read and write have disjoint footprints on the handle ================= *)
(* reading never looks at the stdin field: replacing it changes nothing but itself *)
Lemma reproc_read_ignores_in p x s b n w :
  reproc_read (rp_with_in x p) s b n w =
  match reproc_read p s b n w with
  | Ret (r, rs, p') w' => Ret (r, rs, rp_with_in x p') w'
  | Hang w' => Hang w' | Stop w' => Stop w' | Crash y w' => Crash y w'
  end.
Proof.
  unfold reproc_read. destruct p; cbn.
  destruct (h_status =? STATUS_IN_CHILD); [reflexivity|].
  destruct ((s =? REPROC_STREAM_OUT) || (s =? REPROC_STREAM_ERR)); cbn; [|reflexivity].
  destruct b; cbn; [|reflexivity].
  destruct (s =? REPROC_STREAM_OUT).
  - destruct (h_out =? PIPE_INVALID); [reflexivity|].
    unfold bind. destruct (pipe_read h_out n w) as [[r rs] w1|w1|w1|y w1]; try reflexivity.
    destruct (r =? REPROC_EPIPE); [|reflexivity].
    destruct (pipe_destroy h_out w1); reflexivity.
  - destruct (h_err =? PIPE_INVALID); [reflexivity|].
    unfold bind. destruct (pipe_read h_err n w) as [[r rs] w1|w1|w1|y w1]; try reflexivity.
    destruct (r =? REPROC_EPIPE); [|reflexivity].
    destruct (pipe_destroy h_err w1); reflexivity.
Qed.

(* writing never looks at the output fields *)
Lemma reproc_write_ignores_out p xo xe b d w :
  reproc_write (rp_with_err xe (rp_with_out xo p)) b d w =
  match reproc_write p b d w with
  | Ret (r, p') w' => Ret (r, rp_with_err xe (rp_with_out xo p')) w'
  | Hang w' => Hang w' | Stop w' => Stop w' | Crash y w' => Crash y w'
  end.
Proof.
  unfold reproc_write. destruct p; cbn.
  destruct (h_status =? STATUS_IN_CHILD); [reflexivity|].
  destruct b; cbn.
  2:{ destruct (runs_len d =? 0); reflexivity. }
  destruct (h_in =? PIPE_INVALID); [reflexivity|].
  unfold bind. destruct (pipe_write h_in d w) as [r w1|w1|w1|y w1]; try reflexivity.
  destruct (r =? REPROC_EPIPE); [|reflexivity].
  destruct (pipe_destroy h_in w1); reflexivity.
Qed.

(* ================= C03: buffer arithmetic of path_prepend_cwd ================= *)
(* after k growth steps: size handed to getcwd, and size of the allocation *)
Definition cwd_bufsz (k : Z) : Z := CWD_BUF_SIZE_INCREMENT * (k + 1).
Definition cwd_alloc (k path_size : Z) : Z :=
  if k =? 0 then CWD_BUF_SIZE_INCREMENT + path_size + 2 else cwd_bufsz k + path_size + 1.

(* getcwd succeeded with a string of length L (so L + 1 <= bufsz): every store of the tail —
   the optional '/', its NUL, the path bytes and the final NUL at L + slash + path_size — lies
   inside the allocation *)
Lemma prepend_in_bounds k L path_size (slash_needed : bool) :
  0 <= k -> 0 <= path_size -> 1 <= L -> L + 1 <= cwd_bufsz k ->
  let s := if slash_needed then 1 else 0 in
  L + s + path_size < cwd_alloc k path_size /\ L + 1 < cwd_alloc k path_size.
Proof.
  unfold cwd_alloc, cwd_bufsz, CWD_BUF_SIZE_INCREMENT. intros Hk Hp HL Hfit.
  destruct (Z.eqb_spec k 0); destruct slash_needed; cbn zeta; lia.
Qed.

(* the growth loop reaches a buffer that fits after at most L / 4096 steps *)
Lemma prepend_fuel_enough L : 0 <= L -> L + 1 <= cwd_bufsz (L / CWD_BUF_SIZE_INCREMENT).
Proof.
  unfold cwd_bufsz, CWD_BUF_SIZE_INCREMENT. intros H.
  pose proof (Z.div_mod L 4096 ltac:(lia)). pose proof (Z.mod_pos_bound L 4096 ltac:(lia)). lia.
Qed.

Lemma path_is_relative_spec p :
  path_is_relative p = true <-> exists c r, p = c :: r /\ c <> 47 /\ In 47 r.
Proof.
  unfold path_is_relative. destruct p as [|c r].
  - split; [discriminate|]. intros (c & r & E & _). discriminate.
  - rewrite andb_true_iff, negb_true_iff, Z.eqb_neq. unfold memZ. rewrite existsb_exists. split.
    + intros [Hc (x & Hin & Hx)]. apply Z.eqb_eq in Hx. subst x. exists c, r. auto.
    + intros (c' & r' & E & Hc & Hin). injection E as <- <-. split; [exact Hc|]. exists 47. split; [exact Hin|reflexivity].
Qed.

(* ================= C03: environment order ================= *)
(* the duplicated strings come out in the order given (parent entries, then extra entries) *)
Lemma post_dup_all : forall l acc,
  post (dup_all l acc) (fun r => match r with Some res => map snd res = map snd (rev acc) ++ l | None => True end).
Proof.
  induction l as [|s l IH]; intros acc; cbn [dup_all].
  - apply post_ret. rewrite app_nil_r. reflexivity.
  - apply post_bind_any. intros b. destruct (b =? 0).
    + apply post_bind_any. intros _. apply post_ret. exact I.
    + eapply post_weaken; [|apply IH]. intros [res|]; [|auto]. cbn [rev]. rewrite map_app. cbn [map snd]. rewrite <- app_assoc. auto.
Qed.

Lemma post_strv_concat a b :
  post (strv_concat a b)
       (fun r => match r with
                 | Some (_, res) => map snd res = (match a with Some l => l | None => [] end) ++ (match b with Some l => l | None => [] end)
                 | None => True end).
Proof.
  unfold strv_concat. apply post_bind_any. intros arr. destruct (arr =? 0).
  { apply post_bind_any. intros _. apply post_ret. exact I. }
  eapply post_bind; [apply post_dup_all|]. intros [res|] H.
  - apply post_ret. exact H.
  - apply post_bind_any. intros _. apply post_ret. exact I.
Qed.

(* ================= C09: event bits ================= *)
(* events of a process-less source are 0; events of a source only carry bits whose slot holds a
   valid pipe, and a slot holds a valid pipe only if its interest bit is requested (POSIX:
   child.out / child.err are always invalid) *)
Lemma slot_events_null rev : slot_events (poll_slots (None, 0)) rev 0 = 0.
Proof.
  unfold poll_slots. cbn [slot_events]. unfold PIPE_INVALID.
  destruct rev as [|a [|b [|c [|d r]]]]; reflexivity.
Qed.

Lemma poll_slots_null m : poll_slots (None, m) = [(PIPE_INVALID, 0); (PIPE_INVALID, 0); (PIPE_INVALID, 0); (PIPE_INVALID, 0)].
Proof. reflexivity. Qed.

(* the four slots of a source with a process, POSIX (child.out/err invalid) *)
Definition vbit (pipe ev : Z) : Z := if negb (pipe =? PIPE_INVALID) && (0 <? ev) then 1 else 0.

Lemma slot_events_four a b c d ia ib ic id e0 e1 e2 e3 :
  slot_events [(a, ia); (b, ib); (c, ic); (d, id)] [e0; e1; e2; e3] 0
  = vbit a e0 * 1 + vbit b e1 * 2 + vbit c e2 * 4 + vbit d e3 * 8.
Proof.
  cbn [slot_events]. unfold vbit.
  destruct (negb (a =? PIPE_INVALID) && (0 <? e0)); destruct (negb (b =? PIPE_INVALID) && (0 <? e1));
  destruct (negb (c =? PIPE_INVALID) && (0 <? e2)); destruct (negb (d =? PIPE_INVALID) && (0 <? e3)); reflexivity.
Qed.

Lemma vbit_01 p e : vbit p e = 0 \/ vbit p e = 1.
Proof. unfold vbit. destruct (negb (p =? PIPE_INVALID) && (0 <? e)); auto. Qed.
Lemma vbit_1 p e : vbit p e = 1 -> p <> PIPE_INVALID /\ 0 < e.
Proof.
  unfold vbit. destruct (Z.eqb_spec p PIPE_INVALID); cbn; [discriminate|].
  destruct (Z.ltb_spec 0 e); [auto|discriminate].
Qed.

Lemma four_bits v0 v1 v2 v3 : (v0 = 0 \/ v0 = 1) -> (v1 = 0 \/ v1 = 1) -> (v2 = 0 \/ v2 = 1) -> (v3 = 0 \/ v3 = 1) ->
  let ev := v0 * 1 + v1 * 2 + v2 * 4 + v3 * 8 in
  0 <= ev < 16 /\ (has_bit ev 1 = true -> v0 = 1) /\ (has_bit ev 2 = true -> v1 = 1) /\
  (has_bit ev 4 = true -> v2 = 1) /\ (has_bit ev 8 = true -> v3 = 1) /\ has_bit ev 16 = false /\
  (ev = 0 <-> v0 = 0 /\ v1 = 0 /\ v2 = 0 /\ v3 = 0).
Proof.
  intros [-> | ->] [-> | ->] [-> | ->] [-> | ->]; cbn; repeat split; try lia; try discriminate; auto; intros; try lia; intuition lia.
Qed.

(* a source with a process: every reported bit was requested, its pipe was valid and the OS
   reported an event on it; the deadline bit is never produced by the slot mapping *)
Lemma source_events_subset p m e0 e1 e2 e3 : h_cout p = PIPE_INVALID -> h_cerr p = PIPE_INVALID ->
  let ev := slot_events (poll_slots (Some p, m)) [e0; e1; e2; e3] 0 in
  0 <= ev < 16 /\
  (has_bit ev REPROC_EVENT_IN = true -> has_bit m REPROC_EVENT_IN = true /\ h_in p <> PIPE_INVALID /\ 0 < e0) /\
  (has_bit ev REPROC_EVENT_OUT = true -> has_bit m REPROC_EVENT_OUT = true /\ h_out p <> PIPE_INVALID /\ 0 < e1) /\
  (has_bit ev REPROC_EVENT_ERR = true -> has_bit m REPROC_EVENT_ERR = true /\ h_err p <> PIPE_INVALID /\ 0 < e2) /\
  (has_bit ev REPROC_EVENT_EXIT = true -> has_bit m REPROC_EVENT_EXIT = true /\ h_exit p <> PIPE_INVALID /\ 0 < e3) /\
  has_bit ev REPROC_EVENT_DEADLINE = false.
Proof.
  intros Hco Hce. unfold poll_slots. rewrite Hco, Hce. rewrite !Z.eqb_refl. cbn [negb andb orb].
  cbn zeta. rewrite ?andb_false_r, ?orb_false_r. rewrite slot_events_four.
  set (a := if has_bit m REPROC_EVENT_IN then h_in p else PIPE_INVALID).
  set (b := if has_bit m REPROC_EVENT_OUT then h_out p else PIPE_INVALID).
  set (c := if has_bit m REPROC_EVENT_ERR then h_err p else PIPE_INVALID).
  set (d := if has_bit m REPROC_EVENT_EXIT then h_exit p else PIPE_INVALID).
  destruct (four_bits (vbit a e0) (vbit b e1) (vbit c e2) (vbit d e3) (vbit_01 _ _) (vbit_01 _ _) (vbit_01 _ _) (vbit_01 _ _))
    as (Hr & H0 & H1 & H2 & H3 & H4 & _).
  unfold REPROC_EVENT_IN, REPROC_EVENT_OUT, REPROC_EVENT_ERR, REPROC_EVENT_EXIT, REPROC_EVENT_DEADLINE in *.
  split; [exact Hr|].
  split. { intros H. destruct (vbit_1 _ _ (H0 H)) as [Hv He]. subst a. destruct (has_bit m 1); [auto|contradiction]. }
  split. { intros H. destruct (vbit_1 _ _ (H1 H)) as [Hv He]. subst b. destruct (has_bit m 2); [auto|contradiction]. }
  split. { intros H. destruct (vbit_1 _ _ (H2 H)) as [Hv He]. subst c. destruct (has_bit m 4); [auto|contradiction]. }
  split. { intros H. destruct (vbit_1 _ _ (H3 H)) as [Hv He]. subst d. destruct (has_bit m 8); [auto|contradiction]. }
  exact H4.
Qed.

(* a process-less source never reports anything *)
Lemma null_source_silent m e0 e1 e2 e3 : slot_events (poll_slots (None, m)) [e0; e1; e2; e3] 0 = 0.
Proof. unfold poll_slots. rewrite slot_events_four. unfold vbit. rewrite !Z.eqb_refl. reflexivity. Qed.

(* the number returned is the number of sources with events (definition of the success path) *)
Lemma count_nz_spec l : count_nz l = Z.of_nat (length (filter (fun x => negb (x =? 0)) l)).
Proof. reflexivity. Qed.

(* the closed-pipe error is produced exactly when no slot of any source holds a valid pipe *)
Lemma no_valid_pipe_iff srcs :
  existsb (fun s => negb (fst s =? PIPE_INVALID)) (flat_map poll_slots srcs) = false <->
  forall s, In s srcs -> forall sl, In sl (poll_slots s) -> fst sl = PIPE_INVALID.
Proof.
  rewrite <- not_true_iff_false, existsb_exists. split.
  - intros H s Hs sl Hsl. destruct (Z.eqb_spec (fst sl) PIPE_INVALID) as [E|E]; [exact E|].
    exfalso. apply H. exists sl. split; [apply in_flat_map; eauto|]. apply negb_true_iff. apply Z.eqb_neq. exact E.
  - intros H (sl & Hin & Hv). apply in_flat_map in Hin. destruct Hin as (s & Hs & Hsl).
    rewrite (H s Hs sl Hsl), Z.eqb_refl in Hv. discriminate.
Qed.
