(* Build.v — constructing initial worlds from plain lists (used by generators,
   replays and the Examples beside theorems).  Definitions only. *)
From Verif Require Export Run.
Local Open Scope Z_scope.

Definition build_world (time0 subns main_pid : Z) (fds : list (Z * fdent)) (mask : list Z)
           (dsp : list (Z * disp)) (cwd : str) (env : list str) (rlimit : Z)
           (fs : list (str * fskind)) (faults : list (Z * positive)) (lat : list (Z * Z))
           (files : list (Z * option Z)) : world :=
  let p := {| pr_parent := 1; pr_kind := KLib; pr_fds := list_to_map fds; pr_mask := norm_mask mask;
              pr_disp := list_to_map dsp; pr_cwd := cwd; pr_env := env; pr_errno := 0;
              pr_rlimit := rlimit; pr_state := Running; pr_image := None; pr_script := [];
              pr_wake := 0; pr_woff := []; pr_seen := []; pr_end := None |} in
  {| w_time := time0; w_subns := subns; w_cur := main_pid; w_main := main_pid;
     w_procs := {[ main_pid := p ]}; w_pipes := ∅; w_fs := fs;
     w_next_pid := main_pid + 4321; w_next_pipe := 1;
     w_faults := faults; w_lat := lat; w_calls := 0;
     w_heap := ∅; w_next_blk := 1;
     w_files := list_to_map files; w_trace := []; w_notes := [] |}.

Definition std_files : list (Z * option Z) := [(1, Some 0); (2, Some 1); (3, Some 2)].

(* listings for projections / printing *)
Definition fds_list (p : proc) : list (Z * fdent) := map_to_list (pr_fds p).
Definition procs_list (w : world) : list (Z * proc) := map_to_list (w_procs w).
Definition heap_list (w : world) : list (Z * (bool * Z)) := map_to_list (w_heap w).
Definition disp_list (p : proc) : list (Z * disp) := map_to_list (pr_disp p).
Definition pipes_list (w : world) : list (Z * pipe) := map_to_list (w_pipes w).
Definition files_list (w : world) : list (Z * option Z) := map_to_list (w_files w).
