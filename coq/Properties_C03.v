(* Properties_C03.v — C03: launch fidelity.  Theorems only. *)
From Verif Require Import Lib WorldSpec WorldSpec2 LibSpec LibSpec2 ProofsMisc ChildSpec.
From Coq Require Import Lia.
Local Open Scope Z_scope.

(* environment = parent entries (when extending) followed by the extra entries, in order *)
Theorem C03_env_order : forall a b,
  post (strv_concat a b)
       (fun r => match r with
                 | Some (_, res) => map snd res = (match a with Some l => l | None => [] end) ++ (match b with Some l => l | None => [] end)
                 | None => True end).
Proof. exact post_strv_concat. Qed.
Print Assumptions C03_env_order.

(* a program path is treated as relative exactly when it does not start with '/' and has a '/'
   further on; only then is the parent's cwd prepended *)
Theorem C03_relative_iff : forall p, path_is_relative p = true <-> exists c r, p = c :: r /\ c <> 47 /\ In 47 r.
Proof. exact path_is_relative_spec. Qed.
Print Assumptions C03_relative_iff.

(* buffer sized for cwd + '/' + path + NUL: after k growth steps every store of
   path_prepend_cwd is inside the current allocation, for every cwd length and path length *)
Theorem C03_prepend_in_bounds : forall k L path_size (slash_needed : bool),
  0 <= k -> 0 <= path_size -> 1 <= L -> L + 1 <= cwd_bufsz k ->
  let s := if slash_needed then 1 else 0 in
  L + s + path_size < cwd_alloc k path_size /\ L + 1 < cwd_alloc k path_size.
Proof. exact prepend_in_bounds. Qed.
Print Assumptions C03_prepend_in_bounds.
Theorem C03_prepend_terminates : forall L, 0 <= L -> L + 1 <= cwd_bufsz (L / CWD_BUF_SIZE_INCREMENT).
Proof. exact prepend_fuel_enough. Qed.
Print Assumptions C03_prepend_terminates.

(* THE CHILD SIDE: chdir, environ swap and exec happen in the forked child in that order, and the
   program's image carries exactly the argv passed (any byte strings), exactly the environment
   list handed to the child (which C03_env_order shows is parent ++ extra, or extra), and the
   requested working directory resolved against the cwd at fork (the parent's) — or that cwd
   when none is requested.  For every inherited state and every fault-free world. *)
Theorem C03_child_image : forall M D C E fprd fpwr sprd spwr av pg env o (k : MW unit) w,
  stg M D C E w ->
  match fork_child_part fprd fpwr [po_in o; po_out o; po_err o; sprd; spwr; po_exit o]
                        (start_child_part sprd spwr (Some av) pg env o k) w with
  | Ret _ _ => False
  | Stop w' => forall im, pr_image (curp w') = Some im ->
                 im_mask im = [] /\
                 (forall s x, 1 <= s <= 31 -> s <> SIGKILL -> s <> SIGSTOP -> ~ In (s, x) (im_disp im)) /\
                 im_argv im = av /\
                 im_env im = (match env with Some (_, ss) => map snd ss | None => [] end) /\
                 im_cwd im = (match po_wd o with Some d => abs_path C d | None => C end)
  | Hang _ | Crash _ _ => True
  end.
Proof. exact child_image_signals_and_launch. Qed.
Print Assumptions C03_child_image.

Example C03_ex : path_is_relative [98; 105; 110; 47; 99] = true /\ path_is_relative [47; 98] = false /\ path_is_relative [99] = false.
Proof. vm_compute. auto. Qed.
