(* Properties_C03.v — C03: launch fidelity.  Theorems only. *)
From Verif Require Import Lib WorldSpec LibSpec LibSpec2 ProofsMisc.
From Coq Require Import Lia.
Local Open Scope Z_scope.

(* environment = parent entries (when extending) followed by the extra entries, in order *)
Theorem C03_env_order : forall a b,
  post (strv_concat a b)
       (fun r => match r with
                 | Some (_, res) => map snd res = (match a with Some l => l | None => [] end) ++ (match b with Some l => l | None => [] end)
                 | None => True end).
Proof. exact post_strv_concat. Qed.
Print Assumptions C03_env_order.

(* a program path is treated as relative exactly when it does not start with '/' and has a '/'
   further on; only then is the parent's cwd prepended *)
Theorem C03_relative_iff : forall p, path_is_relative p = true <-> exists c r, p = c :: r /\ c <> 47 /\ In 47 r.
Proof. exact path_is_relative_spec. Qed.
Print Assumptions C03_relative_iff.

(* buffer sized for cwd + '/' + path + NUL: after k growth steps every store of
   path_prepend_cwd is inside the current allocation, for every cwd length and path length *)
Theorem C03_prepend_in_bounds : forall k L path_size (slash_needed : bool),
  0 <= k -> 0 <= path_size -> 1 <= L -> L + 1 <= cwd_bufsz k ->
  let s := if slash_needed then 1 else 0 in
  L + s + path_size < cwd_alloc k path_size /\ L + 1 < cwd_alloc k path_size.
Proof. exact prepend_in_bounds. Qed.
Print Assumptions C03_prepend_in_bounds.
Theorem C03_prepend_terminates : forall L, 0 <= L -> L + 1 <= cwd_bufsz (L / CWD_BUF_SIZE_INCREMENT).
Proof. exact prepend_fuel_enough. Qed.
Print Assumptions C03_prepend_terminates.

Example C03_ex : path_is_relative [98; 105; 110; 47; 99] = true /\ path_is_relative [47; 98] = false /\ path_is_relative [99] = false.
Proof. vm_compute. auto. Qed.
