(* Properties_C09.v — C09: poll reports exactly the events that are true.  Theorems only (the
   event-bit mapping; what the OS poll reports for each pipe state is the world model's, decided
   against the implementation by the tie's state lattice and probes). *)
From Verif Require Import Lib WorldSpec LibSpec LibSpec2 ProofsMisc.
From Coq Require Import Lia.
Local Open Scope Z_scope.

(* reported events of a source are a subset of its interests; each reported bit means the OS
   reported an event on that (valid) pipe; the slot mapping never produces the deadline bit *)
Theorem C09_events_subset : forall p m e0 e1 e2 e3, h_cout p = PIPE_INVALID -> h_cerr p = PIPE_INVALID ->
  let ev := slot_events (poll_slots (Some p, m)) [e0; e1; e2; e3] 0 in
  0 <= ev < 16 /\
  (has_bit ev REPROC_EVENT_IN = true -> has_bit m REPROC_EVENT_IN = true /\ h_in p <> PIPE_INVALID /\ 0 < e0) /\
  (has_bit ev REPROC_EVENT_OUT = true -> has_bit m REPROC_EVENT_OUT = true /\ h_out p <> PIPE_INVALID /\ 0 < e1) /\
  (has_bit ev REPROC_EVENT_ERR = true -> has_bit m REPROC_EVENT_ERR = true /\ h_err p <> PIPE_INVALID /\ 0 < e2) /\
  (has_bit ev REPROC_EVENT_EXIT = true -> has_bit m REPROC_EVENT_EXIT = true /\ h_exit p <> PIPE_INVALID /\ 0 < e3) /\
  has_bit ev REPROC_EVENT_DEADLINE = false.
Proof. exact source_events_subset. Qed.
Print Assumptions C09_events_subset.

(* sources without a process report nothing *)
Theorem C09_null_source_silent : forall m e0 e1 e2 e3, slot_events (poll_slots (None, m)) [e0; e1; e2; e3] 0 = 0.
Proof. exact null_source_silent. Qed.
Print Assumptions C09_null_source_silent.

(* the count returned on the success path is the number of sources with at least one event *)
Theorem C09_count : forall l, count_nz l = Z.of_nat (length (filter (fun x => negb (x =? 0)) l)).
Proof. exact count_nz_spec. Qed.
Print Assumptions C09_count.

(* the closed-pipe error test: no slot of any source holds a valid pipe *)
Theorem C09_epipe_test : forall srcs,
  existsb (fun s => negb (fst s =? PIPE_INVALID)) (flat_map poll_slots srcs) = false <->
  forall s, In s srcs -> forall sl, In sl (poll_slots s) -> fst sl = PIPE_INVALID.
Proof. exact no_valid_pipe_iff. Qed.
Print Assumptions C09_epipe_test.

Example C09_ex : slot_events (poll_slots (Some (rp_with_pipes 4 5 6 7 (rp_new 1)), 6)) [1; 1; 0; 1] 0 = 2.
Proof. vm_compute. reflexivity. Qed.
