(* Properties_C05.v — C05: no leak, no foreign or double close.  Theorems only (ownership table,
   close footprints of the post-start API, exit block of start); the balance of whole histories
   under every fault plan is decided by the tie's fault enumeration. *)
From Verif Require Import Lib WorldSpec LibSpec LibSpec2.
From Coq Require Import Lia.
Local Open Scope Z_scope.

(* the ownership table REGENERATED from the switch of redirect_destroy: pipe / discard / path
   child ends are closed by the library; parent / file / handle / stdout ends never *)
Theorem C05_ownership_table : forall ty,
  redirect_destroy_closes ty = true <->
  ty = REPROC_REDIRECT_PIPE \/ ty = REPROC_REDIRECT_DISCARD \/ ty = REPROC_REDIRECT_PATH.
Proof.
  intros ty. unfold redirect_destroy_closes. rewrite !orb_true_iff, !Z.eqb_eq. tauto.
Qed.
Print Assumptions C05_ownership_table.
Theorem C05_ownership_cases_complete :
  redirect_destroy_cases = [REPROC_REDIRECT_DEFAULT; REPROC_REDIRECT_PIPE; REPROC_REDIRECT_DISCARD; REPROC_REDIRECT_PATH;
                            REPROC_REDIRECT_PARENT; REPROC_REDIRECT_FILE; REPROC_REDIRECT_HANDLE; REPROC_REDIRECT_STDOUT].
Proof. reflexivity. Qed.
Print Assumptions C05_ownership_cases_complete.

(* user-supplied handles, FILE targets and the child's own stdout are never closed by redirect_destroy:
   it makes no system call at all for those types, in any world *)
Theorem C05_never_closes_foreign : forall fd ty w,
  ty = REPROC_REDIRECT_PARENT \/ ty = REPROC_REDIRECT_FILE \/ ty = REPROC_REDIRECT_HANDLE \/ ty = REPROC_REDIRECT_STDOUT ->
  redirect_destroy fd ty w = Ret HANDLE_INVALID w.
Proof.
  intros fd ty w H. unfold redirect_destroy. destruct (fd =? HANDLE_INVALID); [reflexivity|].
  destruct H as [-> | [-> | [-> | ->]]]; reflexivity.
Qed.
Print Assumptions C05_never_closes_foreign.

(* every close goes through one helper: the invalid marker is never closed (no event), any other
   value is closed by exactly one close call, and the helper returns the invalid marker *)
Theorem C05_destroy_helper : forall h, emits (handle_destroy h) (fun e => e_call e = CClose /\ e_args e = [h] /\ h <> -1).
Proof. exact emits_handle_destroy. Qed.
Print Assumptions C05_destroy_helper.
Theorem C05_invalid_marker_is_noop : forall w, handle_destroy HANDLE_INVALID w = Ret HANDLE_INVALID w.
Proof. reflexivity. Qed.
Print Assumptions C05_invalid_marker_is_noop.
Theorem C05_destroy_returns_invalid : forall fd, post (pipe_destroy fd) (fun r => r = -1).
Proof. exact post_pipe_destroy. Qed.
Print Assumptions C05_destroy_returns_invalid.

(* the post-start API (wait, terminate, kill, stop, destroy) closes only descriptors stored in
   the handle, and never the invalid marker — in every world and outcome *)
Theorem C05_api_closes_only_owned : forall p e, api_ev p e -> e_call e = CClose ->
  exists fd, e_args e = [fd] /\ fd <> -1 /\ owned p fd.
Proof.
  intros p e [H|[H|[H|[H|[H|[H|H]]]]]] Hc; try (destruct H as [Hx _]; congruence); try congruence.
  destruct H as [_ H]. exact H.
Qed.
Print Assumptions C05_api_closes_only_owned.
Theorem C05_destroy_footprint : forall p, emits (reproc_destroy p) (api_ev p).
Proof. exact emits_reproc_destroy. Qed.
Print Assumptions C05_destroy_footprint.

(* start's exit block stores the invalid marker in every parent pipe field when start fails *)
Theorem C05_failed_start_owns_nothing : forall p argv o src k,
  post (reproc_start p argv o src k) (start_post p o argv).
Proof. exact post_reproc_start. Qed.
Print Assumptions C05_failed_start_owns_nothing.

Example C05_ex : redirect_destroy_closes REPROC_REDIRECT_PIPE = true /\ redirect_destroy_closes REPROC_REDIRECT_HANDLE = false.
Proof. split; reflexivity. Qed.
