(* Properties_C05.v — C05: no leak, no foreign or double close.  Theorems only (ownership table,
   close footprints of the post-start API, exit block of start) and THE MEMORY HALF FOR EVERY FAULT
   PLAN (C05_start_releases_every_block, proof in HeapSpec.v) and THE DESCRIPTOR HALF FOR EVERY
   HISTORY AND EVERY FAULT PLAN (C05_history_restores_descriptor_table, proof in FdSpec.v); the
   child balance of whole histories under every fault plan is decided by the tie's fault enumeration. *)
From Verif Require Import Lib Build OptSpec WorldSpec WorldSpec2 LibSpec LibSpec2 ParentSpec StartSpec FdSpec MultiSpec HeapSpec MemSpec MultiMem.
Import Lib.
From Coq Require Import Lia.
Local Open Scope Z_scope.

(* the ownership table REGENERATED from the switch of redirect_destroy: pipe / discard / path
   child ends are closed by the library; parent / file / handle / stdout ends never *)
Theorem C05_ownership_table : forall ty,
  redirect_destroy_closes ty = true <->
  ty = REPROC_REDIRECT_PIPE \/ ty = REPROC_REDIRECT_DISCARD \/ ty = REPROC_REDIRECT_PATH.
Proof.
  intros ty. unfold redirect_destroy_closes. rewrite !orb_true_iff, !Z.eqb_eq. tauto.
Qed.
Print Assumptions C05_ownership_table.
Theorem C05_ownership_cases_complete :
  redirect_destroy_cases = [REPROC_REDIRECT_DEFAULT; REPROC_REDIRECT_PIPE; REPROC_REDIRECT_DISCARD; REPROC_REDIRECT_PATH;
                            REPROC_REDIRECT_PARENT; REPROC_REDIRECT_FILE; REPROC_REDIRECT_HANDLE; REPROC_REDIRECT_STDOUT].
Proof. reflexivity. Qed.
Print Assumptions C05_ownership_cases_complete.

(* user-supplied handles, FILE targets and the child's own stdout are never closed by redirect_destroy:
   it makes no system call at all for those types, in any world *)
Theorem C05_never_closes_foreign : forall fd ty w,
  ty = REPROC_REDIRECT_PARENT \/ ty = REPROC_REDIRECT_FILE \/ ty = REPROC_REDIRECT_HANDLE \/ ty = REPROC_REDIRECT_STDOUT ->
  redirect_destroy fd ty w = Ret HANDLE_INVALID w.
Proof.
  intros fd ty w H. unfold redirect_destroy. destruct (fd =? HANDLE_INVALID); [reflexivity|].
  destruct H as [-> | [-> | [-> | ->]]]; reflexivity.
Qed.
Print Assumptions C05_never_closes_foreign.

(* every close goes through one helper: the invalid marker is never closed (no event), any other
   value is closed by exactly one close call, and the helper returns the invalid marker *)
Theorem C05_destroy_helper : forall h, emits (handle_destroy h) (fun e => e_call e = CClose /\ e_args e = [h] /\ h <> -1).
Proof. exact emits_handle_destroy. Qed.
Print Assumptions C05_destroy_helper.
Theorem C05_invalid_marker_is_noop : forall w, handle_destroy HANDLE_INVALID w = Ret HANDLE_INVALID w.
Proof. reflexivity. Qed.
Print Assumptions C05_invalid_marker_is_noop.
Theorem C05_destroy_returns_invalid : forall fd, post (pipe_destroy fd) (fun r => r = -1).
Proof. exact post_pipe_destroy. Qed.
Print Assumptions C05_destroy_returns_invalid.

(* the post-start API (wait, terminate, kill, stop, destroy) closes only descriptors stored in
   the handle, and never the invalid marker — in every world and outcome *)
Theorem C05_api_closes_only_owned : forall p e, api_ev p e -> e_call e = CClose ->
  exists fd, e_args e = [fd] /\ fd <> -1 /\ owned p fd.
Proof.
  intros p e [H|[H|[H|[H|[H|[H|H]]]]]] Hc; try (destruct H as [Hx _]; congruence); try congruence.
  destruct H as [_ H]. exact H.
Qed.
Print Assumptions C05_api_closes_only_owned.
Theorem C05_destroy_footprint : forall p, emits (reproc_destroy p) (api_ev p).
Proof. exact emits_reproc_destroy. Qed.
Print Assumptions C05_destroy_footprint.

(* start's exit block stores the invalid marker in every parent pipe field when start fails *)
Theorem C05_failed_start_owns_nothing : forall p argv o src k,
  post (reproc_start p argv o src k) (start_post p o argv).
Proof. exact post_reproc_start. Qed.
Print Assumptions C05_failed_start_owns_nothing.

(* MEMORY, EVERY FAULT PLAN: whatever reproc_start returns and whatever fails on the way -- any
   calls failing at any call index, allocation failures at any point of the program-path copy
   (incl. the getcwd/realloc growth loop) and of the environment copy included, any latencies,
   whatever the forked child does -- the caller's heap afterwards holds exactly the blocks it held
   before: every block start allocates is released exactly once (a second release of an owned
   block, or the release of a block start does not own, would show as a live-set difference or
   is recorded by the ledger).  The ledger belongs to the calling process; a forked child works
   on its own copy. *)
Theorem C05_start_releases_every_block : forall p argv o src (ck : rp -> MW unit) w r p' w',
  WorldSpec2.wf w -> 0 <= w_cur w -> w_cur w = w_main w -> 0 < w_next_blk w ->
  (forall id, w_next_blk w <= id -> heap_live id w = false) ->
  (forall q, kp (w_cur w) (ck q)) -> (forall q, hk true (ck q)) ->
  reproc_start p argv o src ck w = Ret (r, p') w' ->
  forall id, heap_live id w' = heap_live id w.
Proof. exact reproc_start_frees. Qed.
Print Assumptions C05_start_releases_every_block.

Theorem C05_process_start_releases_every_block : forall pr argv o ck w r pid w',
  WorldSpec2.wf w -> 0 <= w_cur w -> w_cur w = w_main w -> 0 < w_next_blk w ->
  (forall id, w_next_blk w <= id -> heap_live id w = false) ->
  kp (w_cur w) ck -> hk true ck ->
  process_start pr argv o ck w = Ret (r, pid) w' ->
  forall id, heap_live id w' = heap_live id w.
Proof. exact process_start_frees. Qed.
Print Assumptions C05_process_start_releases_every_block.

(* non-vacuity: a start with a working directory, a relative program (so the path goes through the
   cwd-prefix loop) and an extra environment entry (five allocations in all): without faults it
   succeeds, with an allocation-class error injected at call 27 it fails with that error; either
   way the one block that was live before (the handle) is the only live block afterwards *)
Definition C05_ex_opts : options :=
  {| o_wd := Some [47; 119]; o_env_behavior := REPROC_ENV_EXTEND; o_env_extra := Some [[88; 61; 49]];
     o_in := redirect_zero; o_out := redirect_zero; o_err := redirect_zero;
     o_parent := false; o_discard := false; o_file := 0; o_path := None;
     o_stop := {| st_first := noop; st_second := noop; st_third := noop |}; o_deadline := 0;
     o_input_data := false; o_input_size := 0; o_fork := false; o_nonblocking := false |}.
Definition C05_ex_world (faults : list (Z * positive)) : world :=
  let w := build_world 1000 0 7 [(0, {| f_obj := OExt 1 ARd; f_cloexec := false; f_nonblock := false |})]
              [] [] [47; 119] [[65; 61; 49]; [66; 61; 50]] 64
              [([47], FDir); ([47; 119], FDir); ([47; 119; 47; 116], FExec [])] faults [] std_files in
  w_with_heap (<[1 := (true, 64)]> (w_heap w)) 2 w.
Definition C05_ex_run (faults : list (Z * positive)) : bool :=
  match reproc_start (rp_new 1) (Some [[46; 47; 116]]) C05_ex_opts 0 (fun _ => ret tt) (C05_ex_world faults) with
  | Ret (r, _) w' => (if faults then r =? 1 else r <? 0) && forallb (fun id => Bool.eqb (heap_live id w') (id =? 1)) [1; 2; 3; 4; 5; 6; 7; 8]
  | _ => false end.
Example C05_ex_start :
  let w := C05_ex_world [(27, 12%positive)] in
  WorldSpec2.wf w /\ 0 <= w_cur w /\ w_cur w = w_main w /\ 0 < w_next_blk w /\
  (forall id, w_next_blk w <= id -> heap_live id w = false) /\
  C05_ex_run [] = true /\ C05_ex_run [(27, 12%positive)] = true.
Proof.
  cbn zeta. split.
  { split.
    - eexists. split; [apply lookup_singleton|]. split; reflexivity.
    - intros k [x Hk]. cbn in Hk. apply lookup_singleton_Some in Hk. destruct Hk as [<- _]. cbn. lia. }
  split; [cbn; lia|]. split; [reflexivity|]. split; [cbn; lia|]. split.
  - intros id Hid. unfold heap_live. cbn in Hid |- *. rewrite lookup_insert_ne by lia. rewrite lookup_empty. reflexivity.
  - split; vm_compute; reflexivity.
Qed.

(* DESCRIPTORS, EVERY HISTORY, EVERY FAULT PLAN.  Any sequence of calls on a handle made by
   reproc_new -- starts that fail, starts that succeed, restarts after a failure, reads, writes,
   closes, polls, drains (any sink behaviour), waits, terminate, kill, stop sequences, in any order, each under any fault plan
   (failures of close itself included: close releases the slot whatever it reports) and whatever
   the children do -- followed by destroy leaves the caller's descriptor table EXACTLY as it was
   before the first call: same descriptors, same objects, same flags.  In particular nothing the
   caller owned (handles given in the options, FILE streams, its standard streams) was closed or
   re-flagged, nothing the library opened is left, and no number was closed twice with a foreign
   descriptor in between (that descriptor would be missing from the table). *)
Theorem C05_history_restores_descriptor_table : forall (ck : rp -> MW unit) ops p w u w',
  WorldSpec2.wf w -> 0 <= w_cur w -> 0 < w_next_blk w -> (forall q, kp (w_cur w) (ck q)) -> fresh_handle p ->
  (let* p' := run_hops ck p ops in reproc_destroy p') w = Ret u w' ->
  pr_fds (curp w') = pr_fds (curp w).
Proof. exact history_restores_descriptor_table. Qed.
Print Assumptions C05_history_restores_descriptor_table.

(* THE SAME FOR ANY NUMBER OF HANDLES: reproc_new at any point (allocation failures included),
   calls on the live handles interleaved in any order, whole reproc_run_ex calls in between, destroys
   in any order, every fault plan; once the handles still alive have been destroyed as well, the table is what it was.  In between
   (invariant MI) every descriptor open beyond the initial table is a pipe end of exactly one live
   handle: no handle ever closes or re-flags another handle's or the caller's descriptors. *)
Theorem C05_multi_history_restores_descriptor_table : forall (ck : rp -> MW unit) ms w u w',
  WorldSpec2.wf w -> 0 <= w_cur w -> 0 < w_next_blk w -> (forall q, kp (w_cur w) (ck q)) ->
  (let* ps := run_mops ck [] ms in destroy_all ps) w = Ret u w' ->
  pr_fds (curp w') = pr_fds (curp w).
Proof. exact multi_history_restores_descriptor_table. Qed.
Print Assumptions C05_multi_history_restores_descriptor_table.
Theorem C05_multi_history_invariant : forall T c (ck : rp -> MW unit) ms ps w ps' w',
  MI T c ps w -> (forall q, kp c (ck q)) -> run_mops ck ps ms w = Ret ps' w' -> MI T c ps' w'.
Proof. intros T c ck ms ps w ps' w'. apply MI_run_mops. Qed.
Print Assumptions C05_multi_history_invariant.

(* one call of start: after a failure the table is exactly what it was; after a success it differs
   by the handle's own pipe ends only, each on a number that was free before *)
Theorem C05_start_descriptor_table : forall p argv o src (ck : rp -> MW unit) w r p' w',
  WorldSpec2.wf w -> 0 <= w_cur w -> 0 < w_next_blk w -> (forall q, kp (w_cur w) (ck q)) ->
  h_in p = HANDLE_INVALID -> h_out p = HANDLE_INVALID -> h_err p = HANDLE_INVALID -> h_exit p = HANDLE_INVALID ->
  h_handle p = PROCESS_INVALID ->
  reproc_start p argv o src ck w = Ret (r, p') w' ->
  (r < 0 /\ pr_fds (curp w') = pr_fds (curp w)) \/
  (0 < r /\ (forall fd, ~ In fd (POWN p') -> pr_fds (curp w') !! fd = pr_fds (curp w) !! fd) /\
            (forall fd, In fd (POWN p') -> pr_fds (curp w) !! fd = None /\ is_Some (pr_fds (curp w') !! fd)) /\ NoDup (POWN p')).
Proof. exact reproc_start_fds. Qed.
Print Assumptions C05_start_descriptor_table.

(* the inner layer: the two error pipes of process_start / process_fork are always closed again *)
Theorem C05_process_start_restores_descriptor_table : forall pr argv o ck w r pid w',
  WorldSpec2.wf w -> 0 <= w_cur w -> kp (w_cur w) ck ->
  process_start pr argv o ck w = Ret (r, pid) w' ->
  pr_fds (curp w') = pr_fds (curp w).
Proof. exact process_start_fds. Qed.
Print Assumptions C05_process_start_restores_descriptor_table.

(* what redirect_init leaves open is exactly what redirect_destroy's REGENERATED table will close *)
Theorem C05_redirect_init_owns_what_destroy_closes : forall T own c stream rd nb out w r p' c' rd' w',
  fq T own c w ->
  redirect_init HANDLE_INVALID HANDLE_INVALID stream rd nb out w = Ret (r, p', c', rd') w' ->
  RI T own c r p' (rd_type rd') c' w'.
Proof. exact F_redirect_init. Qed.
Print Assumptions C05_redirect_init_owns_what_destroy_closes.

(* MEMORY, EVERY HISTORY, EVERY FAULT PLAN: reproc_new, then any sequence of calls on the new
   handle, then destroy: the caller's heap afterwards holds exactly the blocks it held before --
   the handle block, every start's program-path and environment copies and every poll's scratch
   array are released, each exactly once (a second release, or the release of a block the library
   does not own, would change the live set or is refused by the ledger) *)
Theorem C05_history_releases_memory : forall (ck : rp -> MW unit) ops w u w',
  WorldSpec2.wf w -> 0 <= w_cur w -> w_cur w = w_main w -> 0 < w_next_blk w ->
  (forall id, w_next_blk w <= id -> heap_live id w = false) ->
  (forall q, kp (w_cur w) (ck q)) -> (forall q, hk true (ck q)) ->
  (let* np := reproc_new in
   match np with None => ret tt | Some p => let* p' := run_hops ck p ops in reproc_destroy p' end) w = Ret u w' ->
  forall id, heap_live id w' = heap_live id w.
Proof. exact history_releases_memory. Qed.
Print Assumptions C05_history_releases_memory.

(* ... AND FOR ANY NUMBER OF HANDLES, interleaved in any order (same histories as
   C05_multi_history_restores_descriptor_table) *)
Theorem C05_multi_history_releases_memory : forall (ck : rp -> MW unit) ms w u w',
  WorldSpec2.wf w -> 0 <= w_cur w -> w_cur w = w_main w -> 0 < w_next_blk w ->
  (forall id, w_next_blk w <= id -> heap_live id w = false) ->
  (forall q, kp (w_cur w) (ck q)) -> (forall q, hk true (ck q)) ->
  (let* ps := run_mops ck [] ms in destroy_all ps) w = Ret u w' ->
  forall id, heap_live id w' = heap_live id w.
Proof. exact multi_history_releases_memory. Qed.
Print Assumptions C05_multi_history_releases_memory.

(* non-vacuity: start with three pipes + wait + close + stop + destroy on the world above, without
   faults and with a failure injected into the start: the history runs to its end, the table had
   grown in between (four descriptors after the successful start), and is back to its one entry *)
Definition C05_ex_ops : list hop :=
  [HStart (Some [[46; 47; 116]]) C05_ex_opts 0; HDrain 50 {| sk_out := []; sk_err := []; sk_calls := [] |}; HWait 1000; HClose REPROC_STREAM_IN;
   HStart (Some [[46; 47; 116]]) C05_ex_opts 0; HStop {| st_first := noop; st_second := noop; st_third := noop |}].
Definition C05_ex_keys (w : world) : list Z := map fst (map_to_list (pr_fds (curp w))).
Definition C05_ex_hist (faults : list (Z * positive)) : bool :=
  match (let* p' := run_hops (fun _ => ret tt) (rp_new 1) C05_ex_ops in reproc_destroy p') (C05_ex_world faults) with
  | Ret _ w' => match C05_ex_keys w' with [k] => k =? 0 | _ => false end
  | _ => false end.
Definition C05_ex_mid : bool :=
  match run_hops (fun _ => ret tt) (rp_new 1) [HStart (Some [[46; 47; 116]]) C05_ex_opts 0] (C05_ex_world []) with
  | Ret p' w' => (length (C05_ex_keys w') =? 4)%nat && (h_status p' =? STATUS_IN_PROGRESS)
  | _ => false end.
Definition C05_ex_mem (faults : list (Z * positive)) : bool :=
  match (let* np := reproc_new in
         match np with None => ret tt | Some p => let* p' := run_hops (fun _ => ret tt) p C05_ex_ops in reproc_destroy p' end) (C05_ex_world faults) with
  | Ret _ w' => forallb (fun id => Bool.eqb (heap_live id w') (id =? 1)) [1; 2; 3; 4; 5; 6; 7; 8; 9; 10; 11; 12; 13; 14; 15; 16]
  | _ => false end.
Definition C05_ex_mops : list mop :=
  [MNew; MNew; MCall 0 (HStart (Some [[46; 47; 116]]) C05_ex_opts 0); MCall 1 (HStart (Some [[46; 47; 116]]) C05_ex_opts 0);
   MCall 0 (HWait 1000); MRunEx 50 (Some [[46; 47; 116]]) C05_ex_opts 0 {| sk_out := []; sk_err := []; sk_calls := [] |};
   MCall 1 (HClose REPROC_STREAM_IN); MDestroy 0; MNew; MCall 1 (HStart (Some [[46; 47; 116]]) C05_ex_opts 0)].
Definition C05_ex_multi (faults : list (Z * positive)) : bool :=
  match (let* ps := run_mops (fun _ => ret tt) [] C05_ex_mops in destroy_all ps) (C05_ex_world faults) with
  | Ret _ w' => match C05_ex_keys w' with [k] => k =? 0 | _ => false end
  | _ => false end.
Definition C05_ex_multi_mid : bool :=
  match run_mops (fun _ => ret tt) [] C05_ex_mops (C05_ex_world []) with
  | Ret ps w' => (length ps =? 2)%nat && (6 <=? length (C05_ex_keys w'))%nat
  | _ => false end.
Definition C05_ex_multi_mem (faults : list (Z * positive)) : bool :=
  match (let* ps := run_mops (fun _ => ret tt) [] C05_ex_mops in destroy_all ps) (C05_ex_world faults) with
  | Ret _ w' => forallb (fun id => Bool.eqb (heap_live id w') (id =? 1)) [1; 2; 3; 4; 5; 6; 7; 8; 9; 10; 11; 12; 13; 14; 15; 16; 17; 18; 19; 20; 21; 22; 23; 24]
  | _ => false end.
Example C05_ex_multi_history :
  C05_ex_multi [] = true /\ C05_ex_multi [(40, 12%positive)] = true /\ C05_ex_multi_mid = true /\
  C05_ex_multi_mem [] = true /\ C05_ex_multi_mem [(40, 12%positive)] = true /\ C05_ex_multi_mem [(1, 12%positive)] = true.
Proof. repeat split; vm_compute; reflexivity. Qed.
Example C05_ex_history :
  fresh_handle (rp_new 1) /\ (forall q : rp, kp 7 (ret tt)) /\ (forall q : rp, hk true (ret tt)) /\
  C05_ex_mem [] = true /\ C05_ex_mem [(0, 12%positive)] = true /\ C05_ex_mem [(28, 12%positive)] = true /\
  C05_ex_hist [] = true /\ C05_ex_hist [(27, 12%positive)] = true /\ C05_ex_hist [(3, 24%positive); (40, 4%positive)] = true /\ C05_ex_mid = true.
Proof.
  split; [apply fresh_rp_new|]. split; [intros _; apply kp_ret|]. split; [intros _; apply hk_ret|]. repeat split; vm_compute; reflexivity.
Qed.

Example C05_ex : redirect_destroy_closes REPROC_REDIRECT_PIPE = true /\ redirect_destroy_closes REPROC_REDIRECT_HANDLE = false.
Proof. split; reflexivity. Qed.
