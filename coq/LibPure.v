(* LibPure.v — option records and the pure decision logic of reproc
   (options.c, parts of reproc.c).  Mirrors the C text statement by statement.
   Definitions only. *)
From Verif Require Export Base.
From Verif Require Export Consts_gen.
Local Open Scope Z_scope.

Record stop_action := { sa_action : Z; sa_timeout : Z }.
Record stop_actions := { st_first : stop_action; st_second : stop_action; st_third : stop_action }.

(* reproc_redirect: handle is an int, 0 = unset (as the C truth test sees it);
   file is a FILE id, 0 = NULL; path None = NULL *)
Record redirect := { rd_type : Z; rd_handle : Z; rd_file : Z; rd_path : option str }.

Record options := {
  o_wd : option str;
  o_env_behavior : Z;
  o_env_extra : option (list str);
  o_in : redirect; o_out : redirect; o_err : redirect;
  o_parent : bool; o_discard : bool; o_file : Z; o_path : option str;
  o_stop : stop_actions;
  o_deadline : Z;
  o_input_data : bool;      (* input.data != NULL *)
  o_input_size : Z;
  o_fork : bool;
  o_nonblocking : bool }.

Definition isSome {A} (o : option A) : bool := match o with Some _ => true | None => false end.

Definition rd_set_type (t : Z) (r : redirect) : redirect :=
  {| rd_type := t; rd_handle := rd_handle r; rd_file := rd_file r; rd_path := rd_path r |}.

(* options.c:5-8 *)
Definition redirect_is_set (r : redirect) : bool :=
  negb (rd_type r =? 0) || negb (rd_handle r =? 0) || negb (rd_file r =? 0) || isSome (rd_path r).

(* options.c:10-71 (with the D13 fix applied: 10-76).  None = REPROC_EINVAL *)
Definition parse_redirect (r0 : redirect) (stream : Z) (parent discard : bool)
           (file : Z) (path : option str) : option redirect :=
  (* if (file) *)
  let s1 : option redirect :=
    if negb (file =? 0) then
      if redirect_is_set r0 then None
      else if parent || discard || isSome path then None
      else Some {| rd_type := REPROC_REDIRECT_FILE; rd_handle := rd_handle r0;
                   rd_file := file; rd_path := rd_path r0 |}
    else Some r0 in
  match s1 with None => None | Some r1 =>
  (* if (path) *)
  let s2 : option redirect :=
    if isSome path then
      if redirect_is_set r1 then None
      else if parent || discard || negb (file =? 0) then None
      else Some {| rd_type := REPROC_REDIRECT_PATH; rd_handle := rd_handle r1;
                   rd_file := rd_file r1; rd_path := path |}
    else Some r1 in
  match s2 with None => None | Some r2 =>
  (* if (type == HANDLE || handle) *)
  let s3 : option redirect :=
    if (rd_type r2 =? REPROC_REDIRECT_HANDLE) || negb (rd_handle r2 =? 0) then
      if negb ((rd_type r2 =? REPROC_REDIRECT_DEFAULT) || (rd_type r2 =? REPROC_REDIRECT_HANDLE)) then None
      else if rd_handle r2 =? 0 then None
      else if negb (rd_file r2 =? 0) || isSome (rd_path r2) then None
      else Some (rd_set_type REPROC_REDIRECT_HANDLE r2)
    else Some r2 in
  match s3 with None => None | Some r3 =>
  (* if (type == FILE || file) *)
  let s4 : option redirect :=
    if (rd_type r3 =? REPROC_REDIRECT_FILE) || negb (rd_file r3 =? 0) then
      if negb ((rd_type r3 =? REPROC_REDIRECT_DEFAULT) || (rd_type r3 =? REPROC_REDIRECT_FILE)) then None
      else if rd_file r3 =? 0 then None
      else if negb (rd_handle r3 =? 0) || isSome (rd_path r3) then None
      else Some (rd_set_type REPROC_REDIRECT_FILE r3)
    else Some r3 in
  match s4 with None => None | Some r4 =>
  (* if (type == PATH || path) *)
  let s5 : option redirect :=
    if (rd_type r4 =? REPROC_REDIRECT_PATH) || isSome (rd_path r4) then
      if negb ((rd_type r4 =? REPROC_REDIRECT_DEFAULT) || (rd_type r4 =? REPROC_REDIRECT_PATH)) then None
      else if negb (isSome (rd_path r4)) then None
      else if negb (rd_handle r4 =? 0) || negb (rd_file r4 =? 0) then None
      else Some (rd_set_type REPROC_REDIRECT_PATH r4)
    else Some r4 in
  match s5 with None => None | Some r5 =>
  (* if (type == STDOUT) ASSERT_EINVAL(stream == REPROC_STREAM_ERR);
     -- the D13 fix (_build/c13/fix_D13.patch); absent from the pinned tree *)
  let s6 : option redirect :=
    if rd_type r5 =? REPROC_REDIRECT_STDOUT then
      if negb (stream =? REPROC_STREAM_ERR) then None
      else Some r5
    else Some r5 in
  match s6 with None => None | Some r6 =>
  (* if (type == DEFAULT) *)
  if rd_type r6 =? REPROC_REDIRECT_DEFAULT then
    if parent then
      if discard then None else Some (rd_set_type REPROC_REDIRECT_PARENT r6)
    else if discard then
      Some (rd_set_type REPROC_REDIRECT_DISCARD r6)
    else Some (rd_set_type (if stream =? REPROC_STREAM_ERR then REPROC_REDIRECT_PARENT
                            else REPROC_REDIRECT_PIPE) r6)
  else Some r6
  end end end end end end.

(* options.c:73-87 *)
Definition parse_stop_actions (s : stop_actions) : stop_actions :=
  if (sa_action (st_first s) =? REPROC_STOP_NOOP) && (sa_action (st_second s) =? REPROC_STOP_NOOP)
     && (sa_action (st_third s) =? REPROC_STOP_NOOP)
  then {| st_first := {| sa_action := REPROC_STOP_WAIT; sa_timeout := REPROC_DEADLINE |};
          st_second := {| sa_action := REPROC_STOP_TERMINATE; sa_timeout := REPROC_INFINITE |};
          st_third := st_third s |}
  else s.

Definition o_with_parsed (i o e : redirect) (dl : Z) (st : stop_actions) (x : options) : options :=
  {| o_wd := o_wd x; o_env_behavior := o_env_behavior x; o_env_extra := o_env_extra x;
     o_in := i; o_out := o; o_err := e; o_parent := o_parent x; o_discard := o_discard x;
     o_file := o_file x; o_path := o_path x; o_stop := st; o_deadline := dl;
     o_input_data := o_input_data x; o_input_size := o_input_size x; o_fork := o_fork x;
     o_nonblocking := o_nonblocking x |}.

(* argv as the validation sees it: NULL, or non-NULL with argv[0] NULL or not *)
Inductive argv_form := ArgvNull | ArgvEmpty | ArgvOk.

(* options.c:89-137.  None = REPROC_EINVAL *)
Definition parse_options (o : options) (argv : argv_form) : option options :=
  match parse_redirect (o_in o) REPROC_STREAM_IN (o_parent o) (o_discard o) 0 None with
  | None => None | Some i =>
  match parse_redirect (o_out o) REPROC_STREAM_OUT (o_parent o) (o_discard o) (o_file o) (o_path o) with
  | None => None | Some ou =>
  match parse_redirect (o_err o) REPROC_STREAM_ERR (o_parent o) (o_discard o) (o_file o) (o_path o) with
  | None => None | Some e =>
  if o_input_data o && negb (rd_type i =? REPROC_REDIRECT_PIPE) then None
  else if (0 <? o_input_size o) && negb (o_input_data o) then None
  else if (if o_fork o then negb (match argv with ArgvNull => true | _ => false end)
           else negb (match argv with ArgvOk => true | _ => false end)) then None
  else
    Some (o_with_parsed i ou e (if o_deadline o =? 0 then REPROC_INFINITE else o_deadline o)
                        (parse_stop_actions (o_stop o)) o)
  end end end.

(* reproc.c:85-109, with the clock reading [n] supplied by the caller when needed.
   [expiry_needs_clock] tells whether now() is called. *)
Definition expiry_needs_clock (timeout deadline : Z) : bool :=
  negb (deadline =? REPROC_INFINITE).
Definition expiry_pure (timeout deadline n : Z) : Z :=
  if (timeout =? REPROC_INFINITE) && (deadline =? REPROC_INFINITE) then REPROC_INFINITE
  else if deadline =? REPROC_INFINITE then timeout
  else if deadline <=? n then REPROC_DEADLINE
  else let remaining := deadline - n in
       if timeout =? REPROC_INFINITE then remaining
       else if timeout <? remaining then timeout else remaining.

(* process.posix.c:455-458 with the glibc macros spelled out *)
Definition parse_status (status : Z) : Z :=
  if Z.land status 127 =? 0 then Z.land (Z.shiftr status 8) 255   (* WIFEXITED -> WEXITSTATUS *)
  else Z.land status 127 + 128.                                     (* WTERMSIG + 128 *)

(* process.posix.c:42-45 *)
Definition path_is_relative (p : str) : bool :=
  match p with
  | [] => false
  | c :: r => negb (c =? 47) && memZ 47 r
  end.

(* drain.c:70-90 sink_string, over explicit buffers: [cur] is the whole block *string points to
   (None = NULL), [alloc_ok] whether realloc succeeds.  The new block has exactly
   strlen + size + 1 bytes: the old string, the chunk, the terminator. *)
Fixpoint c_strlen (b : list Z) : nat :=
  match b with
  | [] => O
  | c :: r => if c =? 0 then O else S (c_strlen r)
  end.
Definition sink_string (cur : option (list Z)) (chunk : list Z) (alloc_ok : bool) : Z * option (list Z) :=
  let old := match cur with Some b => b | None => [] end in
  let n := c_strlen old in
  if alloc_ok then (0, Some (firstn n old ++ chunk ++ [0]))
  else (REPROC_ENOMEM, cur).
