(* WaitSpec.v — C01: a wait returns a status only by reaping the handle's child, the value is the
   decoded wait status of that child, and the child had ended.  For EVERY well-formed world:
   any fault plan, any latency plan, any child behaviour. *)
From Verif Require Import Lib WorldSpec WorldSpec2 LibSpec ProofsPure.
From Coq Require Import Lia.
Local Open Scope Z_scope.

(* ---- well-formedness is preserved by every call of the wait path (arbitrary faults) ---- *)
Definition wfp {A} (m : MW A) : Prop :=
  forall w, wf w -> match m w with Ret _ w' => wf w' /\ w_cur w' = w_cur w | _ => True end.

Lemma wfp_ret {A} (a : A) : wfp (ret a).
Proof. intros w W. cbn. auto. Qed.
Lemma wfp_bind {A B} (m : MW A) (f : A -> MW B) : wfp m -> (forall a, wfp (f a)) -> wfp (bind m f).
Proof.
  intros Hm Hf w W. unfold bind. specialize (Hm w W). destruct (m w) as [a w1|w1|w1|y w1]; auto.
  destruct Hm as [W1 C1]. specialize (Hf a w1 W1). destruct (f a w1); auto. destruct Hf as [W2 C2]. split; [exact W2|congruence].
Qed.
Lemma wfp_prelude : wfp prelude.
Proof.
  intros w W. pose proof (prelude_spec w W) as H. destruct (prelude w); auto. destruct H as (W1 & C1 & _). auto.
Qed.
Lemma wfp_log c args sargs r outs b : wfp (log c args sargs r outs b).
Proof. intros w W. cbn. split; [apply wf_with_trace, W|reflexivity]. Qed.
Lemma wfp_upd_cur f : (forall p, pr_kind (f p) = pr_kind p /\ pr_state (f p) = pr_state p) -> wfp (modify (upd_cur f)).
Proof.
  intros Hf w W. cbn. split; [apply wf_upd_cur; assumption|].
  unfold upd_cur, upd_proc. destruct (w_procs w !! w_cur w); reflexivity.
Qed.
Lemma wfp_set_errno e : wfp (set_errno e).
Proof. apply wfp_upd_cur. intros p; split; reflexivity. Qed.
Lemma wfp_gets {A} (f : world -> A) : wfp (gets f).
Proof. intros w W. cbn. auto. Qed.
Lemma wfp_fail c a s e : wfp (fail c a s e).
Proof. unfold fail. apply wfp_bind; [apply wfp_set_errno|]. intros _. apply wfp_bind; [apply wfp_log|]. intros _. apply wfp_ret. Qed.
Lemma wfp_failb c a s e : wfp (failb c a s e).
Proof.
  unfold failb, last_lat. apply wfp_bind; [apply wfp_gets|]. intros l.
  apply wfp_bind; [apply wfp_set_errno|]. intros _. apply wfp_bind; [apply wfp_log|]. intros _. apply wfp_ret.
Qed.
Lemma wfp_done c a s r o : wfp (done c a s r o).
Proof. unfold done. apply wfp_bind; [apply wfp_log|]. intros _. apply wfp_ret. Qed.

Lemma wf_heap h n w : wf w -> wf (w_with_heap h n w).
Proof. intros [C F]. split; [exact C|exact F]. Qed.

Lemma wfp_heap_alloc c args size : wfp (heap_alloc c args size).
Proof.
  unfold heap_alloc. apply wfp_bind; [apply wfp_prelude|]. intros [e|].
  - apply wfp_bind; [apply wfp_set_errno|]. intros _. apply wfp_bind; [apply wfp_log|]. intros _. apply wfp_ret.
  - apply wfp_bind; [apply wfp_gets|]. intros id. apply wfp_bind.
    + intros w W. cbn. destruct (in_main w); split; try reflexivity; apply wf_heap; exact W.
    + intros _. apply wfp_bind; [apply wfp_log|]. intros _. apply wfp_ret.
Qed.
Lemma wfp_sys_free id : wfp (sys_free id).
Proof.
  unfold sys_free. apply wfp_bind; [apply wfp_prelude|]. intros _.
  destruct (id =? 0); [apply wfp_log|].
  apply wfp_bind; [intros w W; cbn; auto|]. intros w0.
  destruct (negb (in_main w0)); [apply wfp_log|]. destruct (heap_live id w0); [|apply wfp_log].
  apply wfp_bind; [|intros _; apply wfp_log].
  intros w W. cbn. split; [apply wf_heap; exact W|reflexivity].
Qed.
Lemma wfp_sys_clock : wfp sys_clock.
Proof.
  unfold sys_clock. apply wfp_bind; [apply wfp_prelude|]. intros _.
  apply wfp_bind; [intros w W; cbn; auto|]. intros w0. apply wfp_bind; [apply wfp_log|]. intros _. apply wfp_ret.
Qed.

Lemma wf_after_block ready tmo w : wf w ->
  let w1 := blocked_world (block_until ready tmo w) in wf w1 /\ w_cur w1 = w_cur w.
Proof.
  intros W. cbn zeta.
  pose proof (keeps_block_until (w_cur w) ready tmo w (wf_lib_at _ W)) as K.
  pose proof (flat_block_until ready tmo w) as F. unfold flat in F. injection F as _ Fc _ _ _ _ _ _ _ _.
  split; [eapply keeps_wf; eassumption|exact Fc].
Qed.

Lemma wfp_sys_poll fds tmo : wfp (sys_poll fds tmo).
Proof.
  unfold sys_poll. apply wfp_bind; [apply wfp_prelude|]. intros [e|].
  - apply wfp_bind; [apply wfp_gets|]. intros l. apply wfp_bind; [apply wfp_set_errno|]. intros _.
    apply wfp_bind; [apply wfp_log|]. intros _. apply wfp_ret.
  - intros w W. destruct (wf_after_block (poll_ready fds) tmo w W) as [W1 C1].
    destruct (block_until (poll_ready fds) tmo w) as [w1|w1|w1|w1]; cbn [blocked_world] in *; auto.
    + cbn. split; [apply wf_with_trace, W1|exact C1].
    + cbn. split; [apply wf_with_trace, W1|exact C1].
Qed.

Lemma wfp_pipe_poll srcs tmo : wfp (pipe_poll srcs tmo).
Proof.
  unfold pipe_poll. apply wfp_bind; [apply wfp_heap_alloc|]. intros blk.
  destruct (blk =? 0).
  - apply wfp_bind; [apply wfp_gets|]. intros e. apply wfp_bind; [apply wfp_sys_free|]. intros _. apply wfp_ret.
  - apply wfp_bind; [apply wfp_sys_poll|]. intros [r rev]. destruct (r <? 0).
    + apply wfp_bind; [apply wfp_gets|]. intros e. apply wfp_bind; [apply wfp_sys_free|]. intros _. apply wfp_ret.
    + apply wfp_bind; [apply wfp_sys_free|]. intros _. apply wfp_ret.
Qed.
Lemma wfp_expiry t d : wfp (expiry t d).
Proof.
  unfold expiry. destruct (expiry_needs_clock t d); [|apply wfp_ret].
  apply wfp_bind; [|intros n; apply wfp_ret]. unfold now. apply wfp_bind; [apply wfp_sys_clock|]. intros [s n]. apply wfp_ret.
Qed.

(* ---- waitpid: what a successful reap means in the world ---- *)
Definition reaped_with (pid : Z) (st : N) (w : world) : Prop := pr_state (get_proc pid w) = Reaped st.

Lemma wfp_run {A} (m : MW A) w a w' : wfp m -> wf w -> m w = Ret a w' -> wf w' /\ w_cur w' = w_cur w.
Proof. intros Hm W E. specialize (Hm w W). rewrite E in Hm. exact Hm. Qed.
Lemma bind_inv {A B} (m : MW A) (f : A -> MW B) w b w' :
  bind m f w = Ret b w' -> exists a w1, m w = Ret a w1 /\ f a w1 = Ret b w'.
Proof. unfold bind. destruct (m w) as [a w1|w1|w1|y w1]; try discriminate. eauto. Qed.
Lemma fail_val c a s e w : wf w -> exists w', fail c a s e w = Ret (-1) w' /\ pr_errno (curp w') = e.
Proof. intros W. eexists. split; [reflexivity|]. change (pr_errno (curp (upd_cur (pr_with_errno e) w)) = e). rewrite curp_upd_cur by exact W. reflexivity. Qed.
Lemma failb_val c a s e w : wf w -> exists w', failb c a s e w = Ret (-1) w' /\ pr_errno (curp w') = e.
Proof. intros W. eexists. split; [reflexivity|]. change (pr_errno (curp (upd_cur (pr_with_errno e) w)) = e). rewrite curp_upd_cur by exact W. reflexivity. Qed.

(* [wz] is the world at the moment of the reap: nothing was logged since [w], the reap is the
   one event added, and the child's record changes in its state only *)
Definition reap_link (pid : Z) (st : N) (w wz w' : world) : Prop :=
  w_trace wz = w_trace w /\
  (exists ev, w_trace w' = ev :: w_trace wz /\ e_call ev = CWaitpid /\ e_args ev = [pid] /\ e_ret ev = pid /\ e_outs ev = [Z.of_N st]) /\
  get_proc pid w' = pr_with_state (Reaped st) (get_proc pid wz).

Lemma sys_waitpid_spec pid w r status w' : wf w -> 0 < pid ->
  sys_waitpid pid w = Ret (r, status) w' ->
  wf w' /\ w_cur w' = w_cur w /\
  ((r = -1 /\ 0 < pr_errno (curp w')) \/ (r = pid /\ exists st wz, status = Z.of_N st /\ reaped_with pid st w' /\ pid <> w_cur w'
                                       /\ pr_state (get_proc pid wz) = Zombie st /\ pid < w_next_pid w'
                                       /\ reap_link pid st w wz w')).
Proof.
  intros W Hp E. unfold sys_waitpid, bind at 1 in E.
  pose proof (prelude_spec w W) as Hpl. destruct (prelude w) as [f w0|w0|w0|y w0]; try discriminate.
  destruct Hpl as (W0 & C0 & _ & T0 & _).
  destruct f as [e|].
  - unfold bind at 1 in E. destruct (failb_val CWaitpid [pid] [] (Z.pos e) w0 W0) as (w1 & E1 & Ee).
    destruct (wfp_run _ _ _ _ (wfp_failb _ _ _ _) W0 E1) as [W1 C1]. rewrite E1 in E. cbn in E.
    injection E as <- <- <-. split; [exact W1|]. split; [congruence|]. left; split; [reflexivity|rewrite Ee; lia].
  - destruct (Z.ltb_spec 0 pid); [|lia].
    assert (Hfail : (fail CWaitpid [pid] [] ECHILD ;> ret (-1, 0)) w0 = Ret (r, status) w' ->
      wf w' /\ w_cur w' = w_cur w /\
  ((r = -1 /\ 0 < pr_errno (curp w')) \/ (r = pid /\ exists st wz, status = Z.of_N st /\ reaped_with pid st w' /\ pid <> w_cur w'
                                       /\ pr_state (get_proc pid wz) = Zombie st /\ pid < w_next_pid w'
                                       /\ reap_link pid st w wz w'))).
    { intros E'. unfold bind at 1 in E'. destruct (fail_val CWaitpid [pid] [] ECHILD w0 W0) as (w1 & E1 & Ee).
      destruct (wfp_run _ _ _ _ (wfp_fail _ _ _ _) W0 E1) as [W1 C1]. rewrite E1 in E'. cbn in E'.
      injection E' as <- <- <-. split; [exact W1|]. split; [congruence|]. left; split; [reflexivity|rewrite Ee; unfold ECHILD; lia]. }
    destruct (w_procs w0 !! pid) as [p|] eqn:Ep; [|exact (Hfail E)].
    destruct (is_child_of (w_cur w0) p); [|exact (Hfail E)]. clear Hfail.
    set (ready := fun w1 : world => match pr_state (get_proc pid w1) with Running => false | _ => true end) in E.
    destruct (wf_after_block ready (-1) w0 W0) as [W1 C1].
    pose proof (flat_block_until ready (-1) w0) as T1. unfold flat in T1. injection T1 as T1 _ _ _ _ _ _ _ _ _.
    destruct (block_until ready (-1) w0) as [w1|w1|w1|w1]; cbn [blocked_world] in *; try discriminate.
    destruct (pr_state (get_proc pid w1)) as [|st|st] eqn:Es; try discriminate.
    (* the child is a zombie in w1: reap it *)
    assert (Hne : pid <> w_cur w1).
    { intros ->. destruct W1 as [(q & Hq & _ & Hr) _]. unfold get_proc in Es. rewrite Hq in Es. cbn in Es. congruence. }
    assert (Hin : is_Some (w_procs w1 !! pid)).
    { unfold get_proc in Es. destruct (w_procs w1 !! pid); [eauto|cbn in Es; discriminate]. }
    set (w2 := upd_proc pid (pr_with_state (Reaped st)) w1) in *.
    assert (K2 : keeps (w_cur w1) w1 w2) by (apply keeps_upd_proc; exact Hne).
    assert (C2 : w_cur w2 = w_cur w1) by (unfold w2, upd_proc; destruct (w_procs w1 !! pid); reflexivity).
    assert (W2 : wf w2) by (eapply keeps_wf; [exact W1|exact K2|exact C2]).
    assert (R2 : reaped_with pid st w2).
    { unfold reaped_with, w2, upd_proc, get_proc. destruct Hin as [q Hq]. rewrite Hq. cbn. rewrite lookup_insert. reflexivity. }
    assert (T2 : w_trace w2 = w_trace w1) by (unfold w2, upd_proc; destruct (w_procs w1 !! pid); reflexivity).
    assert (G2 : get_proc pid w2 = pr_with_state (Reaped st) (get_proc pid w1)).
    { unfold w2, upd_proc, get_proc. destruct Hin as [q Hq]. rewrite Hq. cbn. rewrite lookup_insert. reflexivity. }
    assert (N2 : pid < w_next_pid w2).
    { destruct W2 as [_ F2]. apply F2. unfold w2, upd_proc. destruct Hin as [q Hq]. rewrite Hq. cbn. rewrite lookup_insert. eauto. }
    clearbody w2.
    cbn in E. injection E as <- <- <-. split; [apply wf_with_trace, W2|]. split; [cbn; congruence|]. right. split; [reflexivity|].
    exists st, w1. split; [reflexivity|]. split; [exact R2|].
    split; [cbn; congruence|]. split; [exact Es|]. split; [exact N2|].
    split; [congruence|]. split; [|exact G2].
    eexists. split; [cbn; rewrite T2; reflexivity|]. cbn. auto.
Qed.

(* closing a descriptor of the current process leaves every ended process as it is *)
Lemma close_keeps_ended fd pid q w : wf w -> get_proc pid w = q -> pr_state q <> Running -> pid <> w_cur w -> pid < w_next_pid w ->
  match sys_close fd w with Ret _ w' => get_proc pid w' = q | _ => True end.
Proof.
  intros W R Hq Hne Hlt. unfold sys_close, bind at 1, prelude.
  set (w0 := w_with_calls (w_calls w + 1) w).
  destruct (advance_to _ w0) as [w1|] eqn:E; [|exact I].
  assert (L0 : lib_at pid w0). { split; [right; change (get_proc pid w0) with (get_proc pid w); rewrite R; exact Hq|exact Hlt]. }
  pose proof (keeps_advance_to pid _ _ _ L0 E) as K1.
  pose proof (flat_advance_to _ _ _ E) as F1. unfold flat in F1. injection F1 as _ Fc _ _ _ _ _ _ _ _.
  assert (R1 : get_proc pid w1 = q) by (rewrite (keeps_get_proc _ _ _ K1); exact R).
  assert (Hne1 : pid <> w_cur w1) by (rewrite Fc; exact Hne).
  set (Rk := fun x : world => get_proc pid x = q /\ pid <> w_cur x).
  assert (Hupd : forall f x, Rk x -> Rk (upd_cur f x)).
  { intros f x [Rx Nx]. split.
    - unfold upd_cur. rewrite (keeps_get_proc _ _ _ (keeps_upd_proc pid (w_cur x) f x ltac:(congruence))). exact Rx.
    - unfold upd_cur, upd_proc. destruct (w_procs x !! w_cur x); exact Nx. }
  assert (Htr : forall t x, Rk x -> Rk (w_with_trace t x)) by (intros t x Hx; exact Hx).
  assert (R1k : Rk w1) by (split; assumption).
  unfold bind, gets. cbn.
  destruct (cur_fds w1 !! fd).
  - destruct (assocZ (w_calls w) (w_faults w)); cbn; refine (proj1 (_ : Rk _)); repeat (first [apply Htr | apply Hupd]); exact R1k.
  - cbn. refine (proj1 (_ : Rk _)). repeat (first [apply Htr | apply Hupd]); exact R1k.
Qed.

Lemma emits_trace {A} (m : MW A) P w a w' : emits m P -> m w = Ret a w' -> exists l, w_trace w' = l ++ w_trace w.
Proof. intros Hm E. specialize (Hm w). rewrite E in Hm. destruct Hm as (_ & l & Hl & _). eauto. Qed.

(* ---- THE THEOREM ---- *)
(* A wait on a running handle that returns a status r >= 0 does so only by reaping the handle's
   own child: at some moment [wz] of the call (after [w], before [w']) that child was a zombie
   with wait status [st] -- it had ended --, the reap of that pid is logged right after [wz], the
   child's record in [w'] is the one of [wz] marked as reaped (no zombie remains), r is the
   decoded [st], and r is cached in the handle. *)
Definition wait_exact (p : rp) (w : world) (r : Z) (p' : rp) (w' : world) : Prop :=
  exists st wz,
    pr_state (get_proc (h_handle p) wz) = Zombie st
    /\ get_proc (h_handle p) w' = pr_with_state (Reaped st) (get_proc (h_handle p) wz)
    /\ (exists pre, w_trace wz = pre ++ w_trace w)
    /\ (exists post ev, w_trace w' = post ++ ev :: w_trace wz /\ e_call ev = CWaitpid /\ e_args ev = [h_handle p]
                        /\ e_ret ev = h_handle p /\ e_outs ev = [Z.of_N st])
    /\ r = parse_status (Z.of_N st)
    /\ h_status p' = r.

Theorem reproc_wait_exact p t w r p' w' :
  wf w -> h_status p = STATUS_IN_PROGRESS -> 0 < h_handle p ->
  reproc_wait p t w = Ret (r, p') w' -> 0 <= r -> wait_exact p w r p' w'.
Proof.
  intros W Hs Hpid E Hr. unfold reproc_wait in E. rewrite Hs in E.
  change (STATUS_IN_PROGRESS =? STATUS_IN_CHILD) with false in E.
  change (STATUS_IN_PROGRESS =? STATUS_NOT_STARTED) with false in E.
  change (0 <=? STATUS_IN_PROGRESS) with false in E. cbv iota in E.
  apply bind_inv in E as (tmo & w1 & E1 & E).
  set (m1 := if t =? REPROC_DEADLINE then (let* t0 := expiry REPROC_INFINITE (h_deadline p) in ret (if t0 =? REPROC_DEADLINE then 0 else t0)) else ret t) in E1.
  assert (Hm1 : wfp m1).
  { unfold m1. destruct (t =? REPROC_DEADLINE); [|apply wfp_ret]. apply wfp_bind; [apply wfp_expiry|]. intros t0. apply wfp_ret. }
  assert (Hm1e : emits m1 (fun _ => True)).
  { unfold m1. destruct (t =? REPROC_DEADLINE); [|apply emits_ret]. apply emits_bind; [apply emits_expiry; auto|]. intros t0. apply emits_ret. }
  destruct (wfp_run _ _ _ _ Hm1 W E1) as [W1 C1].
  destruct (emits_trace _ _ _ _ _ Hm1e E1) as [l1 T1].
  apply bind_inv in E as ([r2 rev] & w2 & E2 & E).
  destruct (wfp_run _ _ _ _ (wfp_pipe_poll _ _) W1 E2) as [W2 C2].
  destruct (emits_trace _ _ _ _ _ (emits_pipe_poll_exit p tmo) E2) as [l2 T2].
  destruct (Z.leb_spec r2 0).
  { injection E as <- _ _. exfalso. destruct (Z.eqb_spec r2 0); unfold REPROC_ETIMEDOUT in Hr; lia. }
  apply bind_inv in E as (r3 & w3 & E3 & E).
  unfold process_wait in E3. apply bind_inv in E3 as ([rw status] & w3' & E3 & E3').
  destruct (sys_waitpid_spec _ _ _ _ _ W2 Hpid E3) as (W3 & C3 & [[-> Herr]|(-> & st & wz & -> & R3 & Hne3 & Hz & Hlt3 & Tz & (ev & Tev & Hev) & Hrec)]).
  { cbn in E3'. injection E3' as <- <-. exfalso.
    destruct (Z.ltb_spec (- pr_errno (curp w3')) 0); [|lia]. injection E as <- _ _. lia. }
  destruct (Z.ltb_spec (h_handle p) 0); [lia|]. cbn in E3'. injection E3' as <- <-.
  pose proof (parse_status_range (Z.of_N st) ltac:(lia)) as Hps.
  destruct (Z.ltb_spec (parse_status (Z.of_N st)) 0); [lia|].
  apply bind_inv in E as (x & w4 & E4 & E). cbn in E. injection E as <- <- <-.
  destruct (emits_trace _ _ _ _ _ (emits_handle_destroy _) E4) as [l4 T4].
  exists st, wz. split; [exact Hz|]. split.
  { unfold pipe_destroy, handle_destroy in E4. destruct (Lib.h_exit p =? HANDLE_INVALID).
    - cbn in E4. injection E4 as _ <-. exact Hrec.
    - apply bind_inv in E4 as (r4 & w4' & E4 & E4'). cbn in E4'. injection E4' as _ <-.
      pose proof (close_keeps_ended (Lib.h_exit p) (h_handle p) _ w3' W3 Hrec ltac:(cbn; discriminate) Hne3 Hlt3) as H4.
      rewrite E4 in H4. exact H4. }
  split; [exists (l2 ++ l1); rewrite Tz, T2, T1, app_assoc; reflexivity|].
  split; [exists l4, ev; rewrite T4, Tev; tauto|]. split; reflexivity.
Qed.

(* non-vacuity: the premises are met by a real run (see Properties_C01) *)
