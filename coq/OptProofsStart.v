(* OptProofsStart.v — C13: the one fact about option validation that needs the model of
   redirect.c (Lib.redirect_init).  Kept apart from OptProofs.v so that the latter depends on
   LibPure.v and OptSpec.v only. *)
From Verif Require Import LibPure OptSpec.
From Verif Require Import Lib.
From Coq Require Import Lia.
Local Open Scope Z_scope.

(** * What becomes of a bare out-of-range type after validation (model of redirect.c:40-134) *)
(* No case of redirect_init's switch matches, so it answers its initial value
   REPROC_EINVAL without performing any world operation for that stream.  (Streams handled
   earlier in reproc_start have been set up by then: for stdout/stderr the rejection is not
   "before any resource"; C13 does not ask for that outside the eight types.) *)
Lemma redirect_init_out_of_range parent child stream rd nb out :
  ~ type_in_range (rd_type rd) ->
  redirect_init parent child stream rd nb out = ret (REPROC_EINVAL, parent, child, rd).
Proof.
  unfold type_in_range, REPROC_REDIRECT_DEFAULT, REPROC_REDIRECT_PATH. intros H.
  unfold redirect_init, REPROC_REDIRECT_PIPE, REPROC_REDIRECT_PARENT, REPROC_REDIRECT_DISCARD,
    REPROC_REDIRECT_HANDLE, REPROC_REDIRECT_FILE, REPROC_REDIRECT_STDOUT, REPROC_REDIRECT_PATH.
  cbv zeta.
  destruct (Z.eqb_spec (rd_type rd) 1); [lia|]. destruct (Z.eqb_spec (rd_type rd) 2); [lia|].
  destruct (Z.eqb_spec (rd_type rd) 3); [lia|]. destruct (Z.eqb_spec (rd_type rd) 5); [lia|].
  destruct (Z.eqb_spec (rd_type rd) 6); [lia|]. destruct (Z.eqb_spec (rd_type rd) 4); [lia|].
  destruct (Z.eqb_spec (rd_type rd) 7); [lia|]. reflexivity.
Qed.
