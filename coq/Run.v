(* Run.v — the scenario language shared by the model run, the implementation run,
   generators and replays; and run_model.  Definitions only. *)
From Verif Require Export Lib.
Local Open Scope Z_scope.

(* simple ops: may also be executed on the child side of a fork-mode start *)
Inductive sop :=
| SPid (h : Z)
| SWrite (h : Z) (has_buf : bool) (n : Z)
| SRead (h stream : Z) (has_buf : bool) (size : Z)
| SClose (h stream : Z)
| SPoll (srcs : list (Z * Z)) (timeout : Z)      (* (handle slot or -1 = NULL process, interests) *)
| SWait (h t : Z)
| STerminate (h : Z)
| SKill (h : Z)
| SStop (h : Z) (a : stop_actions)
| SDestroy (h : Z)
| SDrain (h : Z) (has_out has_err : bool) (souts serrs : list Z) (fuel : nat)
| SSleep (ms : Z)
| SUserClose (fd : Z)                            (* the caller's own descriptor activity *)
| SUserCloexec (fd : Z) (on : bool)
| SUserOpen (fd id : Z) (cloexec : bool)        (* the caller opens an object of its own at number fd *)
| SUserRlimit (n : Z).                          (* the caller changes its soft RLIMIT_NOFILE *)

Inductive op :=
| ONew (h : Z)
| OStart (h : Z) (argv : option (list str)) (o : options) (child : list sop) (script : list act)
| OS (s : sop)
| ORunEx (argv : option (list str)) (o : options) (souts serrs : list Z) (fuel : nat)
| ORun (argv : option (list str)) (o : options) (fuel : nat).

Inductive opres :=
| RInt (r : Z)
| RRead (r : Z) (rs : list run)
| RPoll (r : Z) (evs : option (list Z))
| RNew (ok : bool)
| RDrain (r : Z) (calls : list (Z * Z * Z * list run))
| RUnit
| RSkip.

(* handle slots: absent = never created / destroyed (ops on it are skipped: the
   scenario is ill-formed there); Some None = a NULL pointer; Some (Some p) = live *)
Record rstate := { rs_hs : gmap Z (option rp); rs_woff : gmap Z Z }.
Definition rs_set (h : Z) (p : option rp) (s : rstate) : rstate :=
  {| rs_hs := <[h := p]> (rs_hs s); rs_woff := rs_woff s |}.
Definition rs_del (h : Z) (s : rstate) : rstate :=
  {| rs_hs := delete h (rs_hs s); rs_woff := rs_woff s |}.
Definition rs_add_woff (h n : Z) (s : rstate) : rstate :=
  {| rs_hs := rs_hs s; rs_woff := <[h := default 0 (rs_woff s !! h) + n]> (rs_woff s) |}.

Definition write_src (h : Z) : Z := 1000 + h.
Definition input_src (h : Z) : Z := 2000 + h.

(* slot lookup for an API call: NULL handle (h = -1 or a NULL slot) *)
Inductive slot := SlNull | SlLive (p : rp) | SlGone.
Definition slot_of (h : Z) (s : rstate) : slot :=
  if h =? -1 then SlNull else
  match rs_hs s !! h with
  | Some (Some p) => SlLive p
  | Some None => SlNull
  | None => SlGone
  end.

Definition with_handle (h : Z) (s : rstate) (k : rp -> MW (opres * rstate)) : MW (opres * rstate) :=
  match slot_of h s with
  | SlNull => ret (RInt REPROC_EINVAL, s)
  | SlGone => ret (RSkip, s)
  | SlLive p => k p
  end.

Definition poll_source (s : rstate) (hi : Z * Z) : option (option rp * Z) :=
  match slot_of (fst hi) s with
  | SlNull => Some (None, snd hi)
  | SlLive p => Some (Some p, snd hi)
  | SlGone => None
  end.
Fixpoint poll_sources (s : rstate) (l : list (Z * Z)) : option (list (option rp * Z)) :=
  match l with
  | [] => Some []
  | hi :: r => match poll_source s hi, poll_sources s r with
               | Some a, Some b => Some (a :: b)
               | _, _ => None
               end
  end.

Definition user_fd_op (f : gmap Z fdent -> gmap Z fdent) : MW unit :=
  modify (upd_cur (fun p => pr_with_fds (f (pr_fds p)) p)).

Definition user_close (fd : Z) : MW unit := user_fd_op (delete fd).
Definition user_cloexec (fd : Z) (on : bool) : MW unit :=
  user_fd_op (fun t => match t !! fd with
                       | Some d => <[fd := fd_set_cloexec on d]> t
                       | None => t end).

Definition exec_sop (o : sop) (s : rstate) : MW (opres * rstate) :=
  match o with
  | SPid h => with_handle h s (fun p => ret (RInt (reproc_pid p), s))
  | SWrite h has_buf n =>
      with_handle h s (fun p =>
        let off := default 0 (rs_woff s !! h) in
        let* '(r, p') := reproc_write p has_buf [RPos (write_src h) off n] in
        let s := rs_set h (Some p') s in
        ret (RInt r, if 0 <? r then rs_add_woff h r s else s))
  | SRead h stream has_buf size =>
      with_handle h s (fun p =>
        let* '(r, rs, p') := reproc_read p stream has_buf size in
        ret (RRead r rs, rs_set h (Some p') s))
  | SClose h stream =>
      with_handle h s (fun p =>
        let* '(r, p') := reproc_close p stream in ret (RInt r, rs_set h (Some p') s))
  | SPoll srcs timeout =>
      match poll_sources s srcs with
      | None => ret (RSkip, s)
      | Some l => let* '(r, evs) := reproc_poll l timeout in ret (RPoll r evs, s)
      end
  | SWait h t =>
      with_handle h s (fun p =>
        let* '(r, p') := reproc_wait p t in ret (RInt r, rs_set h (Some p') s))
  | STerminate h => with_handle h s (fun p => let* r := reproc_terminate p in ret (RInt r, s))
  | SKill h => with_handle h s (fun p => let* r := reproc_kill p in ret (RInt r, s))
  | SStop h a =>
      with_handle h s (fun p =>
        let* '(r, p') := reproc_stop p a in ret (RInt r, rs_set h (Some p') s))
  | SDestroy h =>
      match slot_of h s with
      | SlNull => ret (RUnit, s)
      | SlGone => ret (RSkip, s)
      | SlLive p => reproc_destroy p ;> ret (RUnit, rs_del h s)
      end
  | SDrain h has_out has_err souts serrs fuel =>
      with_handle h s (fun p =>
        if negb has_out || negb has_err then ret (RInt REPROC_EINVAL, s) else
        let* '(r, p', sk) := reproc_drain fuel p {| sk_out := souts; sk_err := serrs; sk_calls := [] |} in
        ret (RDrain r (rev (sk_calls sk)), rs_set h (Some p') s))
  | SSleep ms =>
      fun w => match advance_to (w_time w + Z.max 0 ms) w with
               | Some w' => Ret (RUnit, s) w'
               | None => Crash crash_fuel w
               end
  | SUserClose fd => user_close fd ;> ret (RUnit, s)
  | SUserCloexec fd on => user_cloexec fd on ;> ret (RUnit, s)
  | SUserOpen fd id cx =>
      user_fd_op (fun t => <[fd := {| f_obj := OExt id ARW; f_cloexec := cx; f_nonblock := false |}]> t) ;> ret (RUnit, s)
  | SUserRlimit n => modify (upd_cur (pr_with_rlimit n)) ;> ret (RUnit, s)
  end.

(* numeric code of an op result, for child-side notes *)
Definition opres_code (r : opres) : list Z :=
  match r with
  | RInt v => [0; v] | RRead v _ => [1; v] | RPoll v _ => [2; v] | RNew b => [3; if b then 1 else 0]
  | RDrain v _ => [4; v] | RUnit => [5] | RSkip => [6]
  end.
Definition note_child_op : Z := 1.

Fixpoint run_child_sops (l : list sop) (s : rstate) : MW unit :=
  match l with
  | [] => ret tt
  | o :: r =>
      let* '(res, s') := exec_sop o s in
      modify (w_add_note (note_child_op, opres_code res)) ;>
      run_child_sops r s'
  end.

Definition empty_sink : sinkst := {| sk_out := []; sk_err := []; sk_calls := [] |}.

Definition exec_op (o : op) (s : rstate) : MW (opres * rstate) :=
  match o with
  | ONew h =>
      let* np := reproc_new in
      ret (RNew (isSome np), rs_set h np s)
  | OStart h argv opts child script =>
      with_handle h s (fun p =>
        let child_k (pc : rp) : MW unit :=
          run_child_sops child (rs_set h (Some pc) s) ;> sys_child_done script in
        let* '(r, p') := reproc_start p argv opts (input_src h) child_k in
        ret (RInt r, rs_set h (Some p') s))
  | OS so => exec_sop so s
  | ORunEx argv opts souts serrs fuel =>
      let* '(r, sk) := reproc_run_ex fuel argv opts (input_src 99)
                                     {| sk_out := souts; sk_err := serrs; sk_calls := [] |} in
      ret (RDrain r (rev (sk_calls sk)), s)
  | ORun argv opts fuel =>
      let* r := reproc_run fuel argv opts (input_src 99) in ret (RInt r, s)
  end.

(* ---- runs ---- *)
Inductive final := FDone | FHang | FStop | FCrash (why : Z).

Record step := { s_op : op; s_res : opres; s_before : world; s_after : world }.
Record runres := { r_steps : list step;        (* in order *)
                r_final : final;
                r_pending : option op;      (* the op that never returned (Hang / Crash / Stop) *)
                r_last : world }.

Fixpoint run_ops (ops : list op) (s : rstate) (acc : list step) (w : world) : runres :=
  match ops with
  | [] => {| r_steps := rev acc; r_final := FDone; r_pending := None; r_last := w |}
  | o :: rest =>
      match exec_op o s w with
      | Ret (res, s') w' =>
          run_ops rest s' ({| s_op := o; s_res := res; s_before := w; s_after := w' |} :: acc) w'
      | Hang w' => {| r_steps := rev acc; r_final := FHang; r_pending := Some o; r_last := w' |}
      | Stop w' => {| r_steps := rev acc; r_final := FStop; r_pending := Some o; r_last := w' |}
      | Crash y w' => {| r_steps := rev acc; r_final := FCrash y; r_pending := Some o; r_last := w' |}
      end
  end.

Record scenario := { sc_world : world; sc_ops : list op }.

Definition init_rstate : rstate := {| rs_hs := ∅; rs_woff := ∅ |}.
Definition run_model (sc : scenario) : runres := run_ops (sc_ops sc) init_rstate [] (sc_world sc).
